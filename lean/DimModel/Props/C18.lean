/-
C18 - property theorems: interp_axis is per-fibre piecewise-linear interpolation, exact at the
nodes, left / right fill outside the label range; the axis becomes exactly the requested
coordinates, other axes and metadata unchanged.  Values are exact rationals here (the floating-point
rounding inside np.interp is outside the model: PARTIAL).

Layout: the 1-D kernel theorems first; then the END-TO-END theorems about `Lib.interpAxis` (N-d, labels stored
in any order): `interpAxis_spec` / `InterpolatesAlong` with its corollaries (`node`, `left_fill`, `right_fill`,
`between`, `between_bounds`), `interpAxis_order_independent`, the failure cases, `interpAxis_successive`; then the
Dataset variant `DSV.interpAxisDs_spec` (mirror in `Lib/DatasetInterp.lean`).  `interp_like` has no mirror.
-/
import DimModel.Lib.Interp
import DimModel.Proofs.C18
import DimModel.Proofs.C18Axis
import DimModel.Proofs.C18Ds
import DimModel.Props.C14
import Mathlib.Tactic.NormNum
namespace DimModel
open Lib

/-- `a + w * (b - a)` over the rationals -/
def linRat (a b w : Rat) : Rat := a + w * (b - a)

/-- strictly increasing nodes -/
def StrictInc (xs : List Rat) : Prop := xs.Pairwise (· < ·)

/-- **exact at the nodes**: at an existing label the interpolation reproduces the original value -/
theorem interpAt_node (xs ys : List Rat) (d left right : Rat) (k : Nat) (hk : k < xs.length)
    (hlen : ys.length = xs.length) (hinc : StrictInc xs) :
    interpAt linRat xs ys d left right (xs[k]) = ys[k]'(by omega) := by
  rw [interpAt_inrange _ _ _ _ _ _ _ (by omega) (pairwiseLt_le hinc _ _ (by omega))
    (pairwiseLt_le hinc _ _ (by omega))]
  by_cases hk1 : k + 1 < xs.length
  · rw [fracIndex_between hinc hk1 (le_refl _) (pairwiseLt_lt hinc _ _ (by omega))]
    simp only [sub_self, zero_div, beq_self_eq_true, if_true]
    exact getD_getElem _ _ (by omega)
  · rw [fracIndex_last hinc (by omega) (le_refl _)]
    simp only [beq_self_eq_true, if_true]
    exact getD_getElem _ _ (by omega)

/-- **left fill** below the label range -/
theorem interpAt_left (xs ys : List Rat) (d left right x lo : Rat) (hlo : xs.head? = some lo) (hx : x < lo) :
    interpAt linRat xs ys d left right x = left := by
  unfold interpAt
  rw [hlo]
  cases hl : xs.getLast? with
  | none =>
    rw [List.getLast?_eq_none_iff] at hl
    subst hl
    simp at hlo
  | some hi =>
    simp only []
    rw [if_pos hx]

/-- **right fill** above the label range -/
theorem interpAt_right (xs ys : List Rat) (d left right x lo hi : Rat) (hlo : xs.head? = some lo)
    (hhi : xs.getLast? = some hi) (hx1 : ¬ x < lo) (hx : hi < x) :
    interpAt linRat xs ys d left right x = right := by
  unfold interpAt
  rw [hlo, hhi]
  simp only []
  rw [if_neg hx1, if_pos hx]

/-- **piecewise linear between two neighbouring nodes**: for `xs[j] < x < xs[j+1]` the result is the
value on the chord through `(xs[j], ys[j])` and `(xs[j+1], ys[j+1])` - numpy.interp's definition -/
theorem interpAt_between (xs ys : List Rat) (d left right x : Rat) (j : Nat) (hj : j + 1 < xs.length)
    (hlen : ys.length = xs.length) (hinc : StrictInc xs)
    (h0 : xs[j]'(by omega) < x) (h1 : x < xs[j + 1]) :
    interpAt linRat xs ys d left right x =
      ys[j]'(by omega) + (x - xs[j]'(by omega)) / (xs[j + 1] - xs[j]'(by omega)) * (ys[j + 1]'(by omega) - ys[j]'(by omega)) := by
  have hlo : xs[0] ≤ x := le_trans (pairwiseLt_le hinc (by omega) (by omega) (Nat.zero_le j)) (le_of_lt h0)
  have hhi : x ≤ xs[xs.length - 1] := le_trans (le_of_lt h1) (pairwiseLt_le hinc hj (by omega) (by omega))
  rw [interpAt_inrange _ _ _ _ _ _ _ (by omega) hlo hhi]
  rw [fracIndex_between hinc hj (le_of_lt h0) h1]
  have hw : (x - xs[j]) / (xs[j + 1] - xs[j]) ≠ 0 := by
    apply div_ne_zero <;> linarith
  simp only []
  rw [if_neg (by simpa using hw)]
  rw [getD_getElem _ _ (by omega : j < ys.length), getD_getElem _ _ (by omega : j + 1 < ys.length)]
  rfl

/-- the result's axis along the interpolated dimension carries exactly the requested coordinates,
the other axes and the metadata are unchanged (up to the sorting of that axis) -/
theorem interpAxis_axes {α : Type} [Inhabited α] (lin : α → α → Rat → α) (a r : DimArray α) (k : DimKey)
    (newL : List Label) (nk : Kind) (left right : α) (pos : Nat)
    (hpos : (match k with
      | .name s => (if a.dims.idxOf s < a.dims.length then Except.ok (a.dims.idxOf s) else Except.error Err.value : Except Err Nat)
      | .pos i => (if (if i < 0 then i + (a.ndim : Int) else i) < 0 || (if i < 0 then i + (a.ndim : Int) else i) ≥ (a.ndim : Int)
                   then Except.error Err.index else Except.ok (if i < 0 then i + (a.ndim : Int) else i).toNat)) = .ok pos)
    (hlt : pos < a.axes.length)
    (h : interpAxis lin a k newL nk left right = .ok r) :
    (r.axes.getD pos default).labels = newL ∧ r.attrs = a.attrs ∧
    ∀ i, i ≠ pos → (r.axes[i]?).map (·.labels) = (a.axes[i]?).map (·.labels) := by
  unfold interpAxis at h
  simp only [bind, Except.bind] at h
  -- both kinds of key: the position computation yields `pos`
  have key : ∀ v, v = pos →
      (match
          labelsToRat
            ((if isIncreasingEq (a.axes.getD v default).labels = true then a
                    else takeAxisPos a v (argsortBy Label.le (a.axes.getD v default).labels)).axes.getD
                v default).labels,
          labelsToRat newL with
        | some xs, some nx =>
          if xs.isEmpty = true then Except.error Err.value
          else
            (pure
              {
                axes :=
                  (if isIncreasingEq (a.axes.getD v default).labels = true then a
                        else takeAxisPos a v (argsortBy Label.le (a.axes.getD v default).labels)).axes.set
                    v { name := (a.axes.getD v default).name, labels := newL, kind := nk },
                vals :=
                  {
                    shape :=
                      (if isIncreasingEq (a.axes.getD v default).labels = true then a
                              else takeAxisPos a v (argsortBy Label.le (a.axes.getD v default).labels)).vals.shape.set
                        v nx.length,
                    get := fun j =>
                      interpAt lin xs
                        (List.map
                          (fun i =>
                            (if isIncreasingEq (a.axes.getD v default).labels = true then a
                                  else takeAxisPos a v (argsortBy Label.le (a.axes.getD v default).labels)).vals.get
                              (j.set v i))
                          (List.range xs.length))
                        default left right (nx.getD (j.getD v 0) 0) },
                attrs :=
                  (if isIncreasingEq (a.axes.getD v default).labels = true then a
                    else takeAxisPos a v (argsortBy Label.le (a.axes.getD v default).labels)).attrs } : Except Err (DimArray α))
        | _, _ => Except.error Err.type) = Except.ok r →
      (r.axes.getD pos default).labels = newL ∧ r.attrs = a.attrs ∧
        ∀ i, i ≠ pos → (r.axes[i]?).map (·.labels) = (a.axes[i]?).map (·.labels) := by
    intro v hv h
    subst hv
    have ho := sortedOrSelf_props a v (isIncreasingEq (a.axes.getD v default).labels)
      (argsortBy Label.le (a.axes.getD v default).labels)
    generalize (if isIncreasingEq (a.axes.getD v default).labels = true then a
      else takeAxisPos a v (argsortBy Label.le (a.axes.getD v default).labels)) = o at h ho
    split at h
    · split at h
      · cases h
      · simp only [pure, Except.pure] at h
        injection h with h
        subst h
        exact interpAxis_tail o a v _ newL rfl hlt ho
    · cases h
  cases k with
  | name s =>
    simp only [] at h hpos
    split at hpos
    · rename_i hc
      rw [if_pos hc] at h
      injection hpos with hpos
      simp only [pure, Except.pure] at h
      exact key _ hpos h
    · cases hpos
  | pos i =>
    simp only [] at h hpos
    generalize (if i < 0 then i + (a.ndim : Int) else i) = j at h hpos
    by_cases hc : (decide (j < 0) || decide (j ≥ (a.ndim : Int))) = true
    · rw [if_pos hc] at hpos
      cases hpos
    · rw [if_neg hc] at h hpos
      injection hpos with hpos
      simp only [pure, Except.pure] at h
      exact key _ hpos h

/-- non-vacuity: interpolation half-way between two nodes -/
example : interpAt linRat [0, 2, 4] [10, 20, 40] 0 (-1) (-2) 3 = 30 ∧ StrictInc [0, 2, 4] := by
  have hinc : StrictInc [0, 2, 4] := by
    unfold StrictInc; decide
  refine ⟨?_, hinc⟩
  rw [interpAt_between [0, 2, 4] [10, 20, 40] 0 (-1) (-2) 3 1 (by decide) rfl hinc (by decide) (by decide)]
  norm_num

/-! ## End to end: `Lib.interpAxis` on N-d arrays whose labels are stored in any order

The stored nodes `xs` (the numeric labels of the axis, as stored: increasing, decreasing or shuffled) are
related to the 1-D kernel through a *sorting list* `σ`: the positions `0 .. n-1` listed by increasing node
value.  For distinct nodes such a list exists and is unique (`sortsNodes_exists`, `SortsNodes.unique`), so
the value equation below determines the result completely and does not mention how the implementation
sorts. -/
open C18P C17P

/-- `σ` lists the positions `0 .. n-1` of the stored nodes `xs` by strictly increasing node value
(every `p ∈ σ` is a valid position of `xs`, so the `getD` default is never used) -/
def SortsNodes (xs : List Rat) (σ : List Nat) : Prop :=
  σ.Perm (List.range xs.length) ∧ StrictInc (σ.map (fun p => xs.getD p 0))

/-- distinct nodes can be sorted ... -/
theorem sortsNodes_exists (xs : List Rat) (hnd : xs.Nodup) : ∃ σ, SortsNodes xs σ :=
  ⟨sortPos xs, sortPos_perm xs, sortPos_lt_pairwise xs hnd⟩

/-- ... in exactly one way ... -/
theorem SortsNodes.unique {xs : List Rat} {σ τ : List Nat} (hσ : SortsNodes xs σ) (hτ : SortsNodes xs τ) : σ = τ :=
  sorting_unique xs σ τ (hσ.1.trans hτ.1.symm) hσ.2 hτ.2

/-- ... and only distinct nodes can -/
theorem SortsNodes.nodup {xs : List Rat} {σ : List Nat} (hσ : SortsNodes xs σ) : xs.Nodup := by
  have h1 : (σ.map (fun p => xs.getD p 0)).Nodup := hσ.2.imp (fun h => ne_of_lt h)
  have h2 := hσ.1.map (fun p => xs.getD p 0)
  rw [map_range_getD] at h2
  exact h2.nodup_iff.mp h1

/-- a valid position of a sorting list is a valid position of the nodes -/
theorem SortsNodes.lt {xs : List Rat} {σ : List Nat} (hσ : SortsNodes xs σ) {p : Nat} (hp : p ∈ σ) : p < xs.length := by
  simpa using hσ.1.mem_iff.mp hp

/-- Spec: `r` is `a` interpolated along dimension `pos` (whose axis `ax` has the stored numeric labels `xs`)
at the new coordinates `nx`: the axis at `pos` is exactly the new coordinates under the old name, the other
axes, the array metadata are unchanged, the result is a well-formed float array, and every cell is the 1-D
kernel `interpAt` applied to the sorted nodes and to the fibre through that cell read in the same (sorted)
order - whatever the stored order. -/
structure InterpolatesAlong {α : Type} [Inhabited α] (lin : α → α → Rat → α) (a r : DimArray α) (pos : Nat)
    (ax : Axis) (xs nx : List Rat) (nk : Kind) (left right : α) : Prop where
  /-- the result is a well-formed DimArray -/
  wf : r.WF
  ndim : r.axes.length = a.axes.length
  /-- the interpolated axis carries exactly the requested coordinates, under the old name -/
  axis : r.axes[pos]? = some { name := ax.name, labels := nx.map Label.num, kind := nk }
  /-- every other axis is the very same axis -/
  others : ∀ i, i ≠ pos → r.axes[i]? = a.axes[i]?
  shape : r.vals.shape = a.vals.shape.set pos nx.length
  attrs : r.attrs = a.attrs
  vkind : r.vkind = Kind.f
  /-- the value equation: with `σ` the sorting list of the stored nodes, the cell at index `j` (coordinate `i`
  along `pos`, new coordinate `x = nx[i]`) is the 1-D interpolation at `x` of the fibre
  `p ↦ a[j with j[pos] := p]` against the nodes, both read through `σ` -/
  value : ∀ σ, SortsNodes xs σ → ∀ (j : List Nat) (i : Nat) (x : Rat), j[pos]? = some i → nx[i]? = some x →
    r.vals.get j =
      interpAt lin (σ.map (fun p => xs.getD p 0)) (σ.map (fun p => a.vals.get (j.set pos p))) default left right x

/-- **`interp_axis`, end to end.** On a well-formed array whose axis `k` is a plain axis with distinct numeric
labels `xs` stored in ANY order (at least one), and for ANY list of new numeric coordinates `nx` (sorted or
not, inside or outside the label range, possibly empty): the call succeeds and the result satisfies
`InterpolatesAlong`. -/
theorem interpAxis_spec {α : Type} [Inhabited α] (lin : α → α → Rat → α) (a : DimArray α) (k : DimKey) (pos : Nat)
    (ax : Axis) (xs nx : List Rat) (nk : Kind) (left right : α)
    (hwf : a.WF) (hpos : axisPos a.axes k = .ok pos) (hax : a.axes[pos]? = some ax)
    (hxs : ax.labels = xs.map Label.num) (hne : xs ≠ []) (hnd : xs.Nodup) :
    ∃ r, interpAxis lin a k (nx.map Label.num) nk left right = .ok r ∧
      InterpolatesAlong lin a r pos ax xs nx nk left right := by
  have hlt : pos < a.axes.length := C17P.axisPos_lt _ _ _ hpos
  rw [interpAxis_eq_core, hpos]
  show ∃ r, interpCore lin a pos (nx.map Label.num) nk left right = .ok r ∧ _
  rw [interpCore_closed lin a pos ax xs nx nk left right hax hxs hne]
  refine ⟨_, rfl, ?_⟩
  refine
    { wf := interpResult_wf lin a pos ax nk _ xs nx left right hwf hax
      ndim := by simp [interpResult]
      axis := by simp [interpResult, hlt]
      others := fun i hi => by
        show (a.axes.set pos _)[i]? = _
        rw [List.getElem?_set_ne (Ne.symm hi)]
      shape := rfl
      attrs := rfl
      vkind := rfl
      value := ?_ }
  intro σ hσ j i x hj hx
  have hσe : σ = sortPos xs := hσ.unique ⟨sortPos_perm xs, sortPos_lt_pairwise xs hnd⟩
  subst hσe
  show interpAt lin _ _ default left right (nx.getD (j.getD pos 0) 0) = _
  simp only [List.getD_eq_getElem?_getD, hj, hx, Option.getD_some]

/-- the value equation of `InterpolatesAlong` covers every in-range index of the result, and (for a plain
axis) every cell of `a` it reads is an in-range cell -/
theorem InterpolatesAlong.covers {α : Type} [Inhabited α] {lin : α → α → Rat → α} {a r : DimArray α} {pos : Nat}
    {ax : Axis} {xs nx : List Rat} {nk : Kind} {left right : α}
    (h : InterpolatesAlong lin a r pos ax xs nx nk left right) (hwf : a.WF) (hax : a.axes[pos]? = some ax)
    (hplain : ax.members = []) (hxs : ax.labels = xs.map Label.num)
    (j : List Nat) (hj : InRange r.vals.shape j) :
    ∃ i x, j[pos]? = some i ∧ nx[i]? = some x ∧ ∀ p, p < xs.length → InRange a.vals.shape (j.set pos p) := by
  have hlt : pos < a.vals.shape.length := by
    rw [hwf.1, List.length_map]
    rcases Nat.lt_or_ge pos a.axes.length with hl | hl
    · exact hl
    · rw [List.getElem?_eq_none hl] at hax; cases hax
  have hs : r.vals.shape[pos]? = some nx.length := by
    rw [h.shape, List.getElem?_set_self hlt]
  obtain ⟨i, hi, hil⟩ := inRange_getElem? _ _ _ _ hj hs
  refine ⟨i, nx[i], hi, List.getElem?_eq_getElem hil, ?_⟩
  intro p hp
  have hsa : a.vals.shape[pos]? = some xs.length := by
    rw [hwf.1, List.getElem?_map, hax]
    simp [Axis.size, hplain, hxs]
  rw [h.shape] at hj
  exact inRange_set_set _ _ _ _ _ _ hj hsa hp

/-! ### corollaries: the kernel theorems transported to the N-d, any-order function -/

/-- the nodes read through a sorting list are a permutation of the stored nodes -/
theorem SortsNodes.nodes_perm {xs : List Rat} {σ : List Nat} (hσ : SortsNodes xs σ) :
    (σ.map (fun p => xs.getD p 0)).Perm xs := by
  have := hσ.1.map (fun p => xs.getD p 0)
  rwa [map_range_getD] at this

/-- where the stored position `p` sits in the sorted order: the node there is `xs[p]`, the fibre value there
is the cell of `a` at position `p` -/
private theorem SortsNodes.locate {α : Type} {xs : List Rat} {σ : List Nat} (hσ : SortsNodes xs σ) (f : Nat → α)
    {p : Nat} {x : Rat} (hp : xs[p]? = some x) :
    ∃ u : Nat, u < σ.length ∧ (σ.map (fun p => xs.getD p 0))[u]? = some x ∧ (σ.map f)[u]? = some (f p) := by
  have hpl : p < xs.length := (List.getElem?_eq_some_iff.mp hp).1
  obtain ⟨u, hu⟩ := perm_range_index hσ.1 hpl
  have hul := (List.getElem?_eq_some_iff.mp hu).1
  refine ⟨u, hul, ?_, ?_⟩
  · rw [List.getElem?_map, hu]
    simp [List.getD_eq_getElem?_getD, hp]
  · rw [List.getElem?_map, hu]; rfl

/-- **exact at the nodes, N-d, any stored order**: where the new coordinate equals the label stored at
position `p`, the result is the original cell at position `p` (for any value type and any `lin`) -/
theorem InterpolatesAlong.node {α : Type} [Inhabited α] {lin : α → α → Rat → α} {a r : DimArray α} {pos : Nat}
    {ax : Axis} {xs nx : List Rat} {nk : Kind} {left right : α}
    (h : InterpolatesAlong lin a r pos ax xs nx nk left right) (hnd : xs.Nodup)
    (j : List Nat) (i p : Nat) (x : Rat) (hj : j[pos]? = some i) (hx : nx[i]? = some x) (hp : xs[p]? = some x) :
    r.vals.get j = a.vals.get (j.set pos p) := by
  obtain ⟨σ, hσ⟩ := sortsNodes_exists xs hnd
  rw [h.value σ hσ j i x hj hx]
  obtain ⟨u, hul, hn, hf⟩ := hσ.locate (fun p => a.vals.get (j.set pos p)) hp
  obtain ⟨hl1, e1⟩ := List.getElem?_eq_some_iff.mp hn
  obtain ⟨hl2, e2⟩ := List.getElem?_eq_some_iff.mp hf
  have := interpAt_node_gen lin (σ.map (fun p => xs.getD p 0)) (σ.map (fun p => a.vals.get (j.set pos p)))
    default left right u hl1 (by simp) hσ.2
  rw [e1] at this
  rw [this, e2]

/-- **left fill, N-d**: a new coordinate below every label gives `left` -/
theorem InterpolatesAlong.left_fill {α : Type} [Inhabited α] {lin : α → α → Rat → α} {a r : DimArray α} {pos : Nat}
    {ax : Axis} {xs nx : List Rat} {nk : Kind} {left right : α}
    (h : InterpolatesAlong lin a r pos ax xs nx nk left right) (hne : xs ≠ []) (hnd : xs.Nodup)
    (j : List Nat) (i : Nat) (x : Rat) (hj : j[pos]? = some i) (hx : nx[i]? = some x) (hlo : ∀ y ∈ xs, x < y) :
    r.vals.get j = left := by
  obtain ⟨σ, hσ⟩ := sortsNodes_exists xs hnd
  rw [h.value σ hσ j i x hj hx]
  apply interpAt_left_gen
  · intro he
    have := hσ.nodes_perm
    rw [he] at this
    exact hne this.symm.eq_nil
  · intro y hy
    exact hlo y (hσ.nodes_perm.mem_iff.mp hy)

/-- **right fill, N-d**: a new coordinate above every label gives `right` -/
theorem InterpolatesAlong.right_fill {α : Type} [Inhabited α] {lin : α → α → Rat → α} {a r : DimArray α} {pos : Nat}
    {ax : Axis} {xs nx : List Rat} {nk : Kind} {left right : α}
    (h : InterpolatesAlong lin a r pos ax xs nx nk left right) (hne : xs ≠ []) (hnd : xs.Nodup)
    (j : List Nat) (i : Nat) (x : Rat) (hj : j[pos]? = some i) (hx : nx[i]? = some x) (hhi : ∀ y ∈ xs, y < x) :
    r.vals.get j = right := by
  obtain ⟨σ, hσ⟩ := sortsNodes_exists xs hnd
  rw [h.value σ hσ j i x hj hx]
  apply interpAt_right_gen
  · intro he
    have := hσ.nodes_perm
    rw [he] at this
    exact hne this.symm.eq_nil
  · intro y hy
    exact hhi y (hσ.nodes_perm.mem_iff.mp hy)

/-- `interpAt_between` with the nodes and values given by `getElem?` -/
theorem interpAt_between' (xs ys : List Rat) (d left right x : Rat) (u : Nat) (x0 x1 y0 y1 : Rat)
    (hlen : ys.length = xs.length) (hinc : StrictInc xs)
    (hx0 : xs[u]? = some x0) (hx1 : xs[u + 1]? = some x1) (hy0 : ys[u]? = some y0) (hy1 : ys[u + 1]? = some y1)
    (h0 : x0 < x) (h1 : x < x1) :
    interpAt linRat xs ys d left right x = y0 + (x - x0) / (x1 - x0) * (y1 - y0) := by
  obtain ⟨l0, e0⟩ := List.getElem?_eq_some_iff.mp hx0
  obtain ⟨l1, e1⟩ := List.getElem?_eq_some_iff.mp hx1
  obtain ⟨m0, f0⟩ := List.getElem?_eq_some_iff.mp hy0
  obtain ⟨m1, f1⟩ := List.getElem?_eq_some_iff.mp hy1
  subst e0 e1 f0 f1
  exact interpAt_between xs ys d left right x u l1 hlen hinc h0 h1

/-- **the chord between neighbouring labels, N-d, any stored order**: if the labels stored at positions `p`
and `q` are neighbours in the sorted order (no label strictly between them) and the new coordinate lies
strictly between them, the result is the value on the chord through the two original cells -/
theorem InterpolatesAlong.between {a r : DimArray Rat} {pos : Nat}
    {ax : Axis} {xs nx : List Rat} {nk : Kind} {left right : Rat}
    (h : InterpolatesAlong linRat a r pos ax xs nx nk left right) (hnd : xs.Nodup)
    (j : List Nat) (i p q : Nat) (x x0 x1 : Rat) (hj : j[pos]? = some i) (hx : nx[i]? = some x)
    (hp : xs[p]? = some x0) (hq : xs[q]? = some x1) (h0 : x0 < x) (h1 : x < x1)
    (hnb : ∀ y ∈ xs, y ≤ x0 ∨ x1 ≤ y) :
    r.vals.get j = a.vals.get (j.set pos p) +
      (x - x0) / (x1 - x0) * (a.vals.get (j.set pos q) - a.vals.get (j.set pos p)) := by
  obtain ⟨σ, hσ⟩ := sortsNodes_exists xs hnd
  rw [h.value σ hσ j i x hj hx]
  obtain ⟨u, hul, hnu, hfu⟩ := hσ.locate (fun p => a.vals.get (j.set pos p)) hp
  obtain ⟨v, hvl, hnv, hfv⟩ := hσ.locate (fun p => a.vals.get (j.set pos p)) hq
  have hinc := hσ.2
  obtain ⟨lu, eu⟩ := List.getElem?_eq_some_iff.mp hnu
  obtain ⟨lv, ev⟩ := List.getElem?_eq_some_iff.mp hnv
  -- `v` is the successor of `u` in the sorted order
  have huv : u < v := by
    rcases Nat.lt_or_ge u v with hlt | hge
    · exact hlt
    · exfalso
      have := pairwiseLt_le hinc lv lu hge
      rw [eu, ev] at this
      linarith
  have hv : v = u + 1 := by
    rcases Nat.lt_or_ge (u + 1) v with hlt | hge
    · exfalso
      have hl : u + 1 < (σ.map (fun p => xs.getD p 0)).length := by omega
      have ha := pairwiseLt_lt hinc lu hl (by omega)
      have hb := pairwiseLt_lt hinc hl lv hlt
      rw [eu] at ha
      rw [ev] at hb
      have hm : (σ.map (fun p => xs.getD p 0))[u + 1] ∈ xs := hσ.nodes_perm.mem_iff.mp (List.getElem_mem hl)
      rcases hnb _ hm with hc | hc <;> linarith
    · omega
  subst hv
  exact interpAt_between' _ _ default left right x u x0 x1 _ _ (by simp) hinc hnu hnv hfu hfv h0 h1

/-! ### bounds: between two neighbouring nodes the interpolant stays between the two node values -/

/-- a point of a chord lies between the end values -/
theorem chord_bounds (x x0 x1 y0 y1 : Rat) (h0 : x0 < x) (h1 : x < x1) :
    min y0 y1 ≤ y0 + (x - x0) / (x1 - x0) * (y1 - y0) ∧ y0 + (x - x0) / (x1 - x0) * (y1 - y0) ≤ max y0 y1 := by
  have hd : 0 < x1 - x0 := by linarith
  have ht0 : 0 < (x - x0) / (x1 - x0) := div_pos (by linarith) hd
  have ht1 : (x - x0) / (x1 - x0) < 1 := by
    rw [div_lt_iff₀ hd]; linarith
  generalize (x - x0) / (x1 - x0) = t at ht0 ht1
  rcases le_total y0 y1 with hy | hy
  · rw [min_eq_left hy, max_eq_right hy]
    constructor
    · nlinarith
    · nlinarith
  · rw [min_eq_right hy, max_eq_left hy]
    constructor
    · nlinarith
    · nlinarith

/-- **1-D bounds**: for `xs[j] < x < xs[j+1]` the interpolated value lies between `ys[j]` and `ys[j+1]`
(no overshoot) -/
theorem interpAt_between_bounds (xs ys : List Rat) (d left right x : Rat) (j : Nat) (hj : j + 1 < xs.length)
    (hlen : ys.length = xs.length) (hinc : StrictInc xs)
    (h0 : xs[j]'(by omega) < x) (h1 : x < xs[j + 1]) :
    min (ys[j]'(by omega)) (ys[j + 1]'(by omega)) ≤ interpAt linRat xs ys d left right x ∧
      interpAt linRat xs ys d left right x ≤ max (ys[j]'(by omega)) (ys[j + 1]'(by omega)) := by
  rw [interpAt_between xs ys d left right x j hj hlen hinc h0 h1]
  exact chord_bounds x _ _ _ _ h0 h1

/-- **1-D bounds, closed interval**: for `xs[j] ≤ x ≤ xs[j+1]` as well -/
theorem interpAt_segment_bounds (xs ys : List Rat) (d left right x : Rat) (j : Nat) (hj : j + 1 < xs.length)
    (hlen : ys.length = xs.length) (hinc : StrictInc xs)
    (h0 : xs[j]'(by omega) ≤ x) (h1 : x ≤ xs[j + 1]) :
    min (ys[j]'(by omega)) (ys[j + 1]'(by omega)) ≤ interpAt linRat xs ys d left right x ∧
      interpAt linRat xs ys d left right x ≤ max (ys[j]'(by omega)) (ys[j + 1]'(by omega)) := by
  rcases lt_or_eq_of_le h0 with h0' | h0'
  · rcases lt_or_eq_of_le h1 with h1' | h1'
    · exact interpAt_between_bounds xs ys d left right x j hj hlen hinc h0' h1'
    · subst h1'
      rw [interpAt_node xs ys d left right (j + 1) hj hlen hinc]
      exact ⟨min_le_right _ _, le_max_right _ _⟩
  · subst h0'
    rw [interpAt_node xs ys d left right j (by omega) hlen hinc]
    exact ⟨min_le_left _ _, le_max_left _ _⟩

/-- **N-d bounds, any stored order**: between two neighbouring labels the result lies between the two
original cells -/
theorem InterpolatesAlong.between_bounds {a r : DimArray Rat} {pos : Nat}
    {ax : Axis} {xs nx : List Rat} {nk : Kind} {left right : Rat}
    (h : InterpolatesAlong linRat a r pos ax xs nx nk left right) (hnd : xs.Nodup)
    (j : List Nat) (i p q : Nat) (x x0 x1 : Rat) (hj : j[pos]? = some i) (hx : nx[i]? = some x)
    (hp : xs[p]? = some x0) (hq : xs[q]? = some x1) (h0 : x0 < x) (h1 : x < x1)
    (hnb : ∀ y ∈ xs, y ≤ x0 ∨ x1 ≤ y) :
    min (a.vals.get (j.set pos p)) (a.vals.get (j.set pos q)) ≤ r.vals.get j ∧
      r.vals.get j ≤ max (a.vals.get (j.set pos p)) (a.vals.get (j.set pos q)) := by
  rw [h.between hnd j i p q x x0 x1 hj hx hp hq h0 h1 hnb]
  exact chord_bounds x x0 x1 _ _ h0 h1

/-! ### the stored order does not matter -/

/-- **order independence.** Permuting the stored order of the labels along the axis together with the data
slices (a positional take by any permutation `ps` of the positions) does not change the result of
`interp_axis` at all: same outcome, same axes, same shape, same metadata, same value function. -/
theorem interpAxis_order_independent {α : Type} [Inhabited α] (lin : α → α → Rat → α) (a : DimArray α) (k : DimKey)
    (pos : Nat) (ax : Axis) (xs nx : List Rat) (nk : Kind) (left right : α) (ps : List Nat)
    (hpos : axisPos a.axes k = .ok pos) (hax : a.axes[pos]? = some ax)
    (hxs : ax.labels = xs.map Label.num) (hne : xs ≠ []) (hnd : xs.Nodup)
    (hps : ps.Perm (List.range xs.length)) :
    interpAxis lin (takeAxisPos a pos ps) k (nx.map Label.num) nk left right =
      interpAxis lin a k (nx.map Label.num) nk left right := by
  have hlen : ps.length = xs.length := by simpa using hps.length_eq
  have hpos' : axisPos (takeAxisPos a pos ps).axes k = .ok pos := by
    rw [C17P.axisPos_congr _ _ k (takeAxisPos_names a pos ps)]; exact hpos
  have hax' : (takeAxisPos a pos ps).axes[pos]? = some (axisTake ax ps) := by
    rw [takeAxisPos_axes_getElem?, hax]; simp
  have hlab : (axisTake ax ps).labels = (ps.map (fun p => xs.getD p 0)).map Label.num := by
    show ps.map (fun p => ax.labels.getD p Label.none) = _
    rw [hxs]
    exact map_getD_num xs ps (fun p hp => by simpa using hps.mem_iff.mp hp)
  have hne' : ps.map (fun p => xs.getD p 0) ≠ [] := by
    intro he
    have : xs.length = 0 := by rw [← hlen, ← List.length_map (f := fun p => xs.getD p 0), he]; rfl
    exact hne (List.length_eq_zero_iff.mp this)
  rw [interpAxis_eq_core, interpAxis_eq_core, hpos, hpos']
  show interpCore lin (takeAxisPos a pos ps) pos _ nk left right = interpCore lin a pos _ nk left right
  rw [interpCore_closed lin a pos ax xs nx nk left right hax hxs hne,
    interpCore_closed lin (takeAxisPos a pos ps) pos (axisTake ax ps) _ nx nk left right hax' hlab hne']
  congr 1
  exact interpResult_perm lin a pos ax.name _ nk xs nx left right ps hnd hps

/-- distinctness of the labels is necessary: with a repeated label the result depends on which of the two
slices is stored first (as `numpy.interp`, whose result is undefined for non-increasing sample points) -/
theorem interpAxis_order_dependent_with_duplicates :
    let a : DimArray Rat := { axes := [{ name := "x", labels := [.num 1, .num 1], kind := .i }],
                              vals := { shape := [2], get := fun j => if j = [0] then 10 else 20 } }
    (interpAxis linRat a (.pos 0) [.num 1] .i 0 0).map (fun r => r.vals.get [0]) = .ok 20 ∧
    (interpAxis linRat (takeAxisPos a 0 [1, 0]) (.pos 0) [.num 1] .i 0 0).map (fun r => r.vals.get [0]) = .ok 10 := by
  constructor <;> rfl

/-! ### when `interp_axis` fails -/

/-- an empty axis cannot be interpolated (`numpy.interp`: "array of sample points is empty"): ValueError,
also when no coordinate is requested -/
theorem interpAxis_empty_axis {α : Type} [Inhabited α] (lin : α → α → Rat → α) (a : DimArray α) (k : DimKey)
    (pos : Nat) (ax : Axis) (nx : List Rat) (nk : Kind) (left right : α)
    (hpos : axisPos a.axes k = .ok pos) (hax : a.axes[pos]? = some ax) (hxs : ax.labels = []) :
    interpAxis lin a k (nx.map Label.num) nk left right = .error .value := by
  have hgetD : a.axes.getD pos default = ax := by
    rw [List.getD_eq_getElem?_getD, hax]; rfl
  rw [interpAxis_eq_core, hpos]
  show interpCore lin a pos (nx.map Label.num) nk left right = _
  unfold interpCore
  simp only [hgetD, hxs]
  have : isIncreasingEq ([] : List Label) = true := rfl
  simp only [this, if_true, hgetD, hxs, labelsToRat_num]
  rfl

/-- labels that are not numbers (on the axis or among the requested coordinates): TypeError (`numpy.interp`
cannot cast them to float) -/
theorem interpAxis_nonnumeric {α : Type} [Inhabited α] (lin : α → α → Rat → α) (a : DimArray α) (k : DimKey)
    (pos : Nat) (ax : Axis) (newL : List Label) (nk : Kind) (left right : α)
    (hpos : axisPos a.axes k = .ok pos) (hax : a.axes[pos]? = some ax)
    (hbad : (∃ l ∈ ax.labels, l.toRat? = none) ∨ (∃ l ∈ newL, l.toRat? = none)) :
    interpAxis lin a k newL nk left right = .error .type := by
  rw [interpAxis_eq_core, hpos]
  exact interpCore_nonnumeric lin a pos ax newL nk left right hax hbad

/-- an unknown axis: the error of the axis lookup (ValueError for a name, IndexError for a position) -/
theorem interpAxis_bad_axis {α : Type} [Inhabited α] (lin : α → α → Rat → α) (a : DimArray α) (k : DimKey)
    (newL : List Label) (nk : Kind) (left right : α) (e : Err) (hpos : axisPos a.axes k = .error e) :
    interpAxis lin a k newL nk left right = .error e := by
  rw [interpAxis_eq_core, hpos]; rfl

/-! ### non-vacuity: a 2 x 3 array whose interpolated axis is stored shuffled -/

/-- rows `a`, `b`; columns at `x = 3, 0, 1` (shuffled) holding `10 * x` (+ 100 in row `b`) -/
def interpExArr : DimArray Rat :=
  { axes := [{ name := "y", labels := [.str "a", .str "b"], kind := .U },
             { name := "x", labels := [.num 3, .num 0, .num 1], kind := .i }]
    vals := { shape := [2, 3]
              get := fun j => match j with
                | [0, c] => ([30, 0, 10] : List Rat).getD c 0
                | [1, c] => ([130, 100, 110] : List Rat).getD c 0
                | _ => 0 } }

/-- the hypotheses of `interpAxis_spec`, of the corollaries and of `interpAxis_order_independent` are
satisfiable together (axis in the middle of the name list given by name, new coordinates unsorted, below,
on, between and above the labels), and the theorems compute the expected cells -/
example : ∃ r, interpAxis linRat interpExArr (.name "x") ([-1, 2, 1, 1/2, 5].map Label.num) .f (-7) (-9) = .ok r ∧
    r.vals.shape = [2, 5] ∧
    r.vals.get [1, 0] = -7 ∧ r.vals.get [1, 1] = 120 ∧ r.vals.get [1, 2] = 110 ∧ r.vals.get [0, 3] = 5 ∧
    r.vals.get [0, 4] = -9 ∧
    interpAxis linRat (takeAxisPos interpExArr 1 [1, 2, 0]) (.name "x") ([-1, 2, 1, 1/2, 5].map Label.num) .f (-7) (-9) = .ok r := by
  have hwf : interpExArr.WF := by decide
  have hpos : axisPos interpExArr.axes (.name "x") = .ok 1 := by decide
  have hax : interpExArr.axes[1]? = some { name := "x", labels := [.num 3, .num 0, .num 1], kind := .i } := rfl
  have hnd : ([3, 0, 1] : List Rat).Nodup := by decide
  obtain ⟨r, hr, h⟩ := interpAxis_spec linRat interpExArr (.name "x") 1 _ [3, 0, 1] [-1, 2, 1, 1/2, 5] .f (-7) (-9)
    hwf hpos hax rfl (by decide) hnd
  refine ⟨r, hr, h.shape, ?_, ?_, ?_, ?_, ?_, ?_⟩
  · exact h.left_fill (by decide) hnd [1, 0] 0 (-1) rfl rfl (by decide)
  · rw [h.between hnd [1, 1] 1 2 0 2 1 3 rfl rfl rfl rfl (by decide) (by decide) (by decide)]
    show (110 : Rat) + (2 - 1) / (3 - 1) * (130 - 110) = 120
    norm_num
  · exact h.node hnd [1, 2] 2 2 1 rfl rfl rfl
  · rw [h.between hnd [0, 3] 3 1 2 (1/2) 0 1 rfl rfl rfl rfl (by norm_num) (by norm_num) (by decide)]
    show (0 : Rat) + (1/2 - 0) / (1 - 0) * (10 - 0) = 5
    norm_num
  · exact h.right_fill (by decide) hnd [0, 4] 4 5 rfl rfl (by decide)
  · rw [interpAxis_order_independent linRat interpExArr (.name "x") 1 _ [3, 0, 1] [-1, 2, 1, 1/2, 5] .f (-7) (-9) [1, 2, 0]
      hpos hax rfl (by decide) hnd (by decide)]
    exact hr

/-- the bounds theorems on concrete data: 1-D, and on the shuffled 2-D array (cell `[1, 1]`, new coordinate 2
between the labels 1 and 3 stored at positions 2 and 0: the result lies between the cells 110 and 130); the
value equation covers the in-range index `[1, 3]` and reads in-range cells only -/
example : (min 20 40 ≤ interpAt linRat [0, 2, 4] [10, 20, 40] 0 (-1) (-2) 3 ∧
      interpAt linRat [0, 2, 4] [10, 20, 40] 0 (-1) (-2) 3 ≤ max 20 40) ∧
    ∀ r, interpAxis linRat interpExArr (.name "x") ([-1, 2, 1, 1/2, 5].map Label.num) .f (-7) (-9) = .ok r →
      (min 110 130 ≤ r.vals.get [1, 1] ∧ r.vals.get [1, 1] ≤ max 110 130) ∧
      ∃ i x, ([1, 3] : List Nat)[1]? = some i ∧ ([-1, 2, 1, 1/2, 5] : List Rat)[i]? = some x ∧
        ∀ p, p < 3 → InRange interpExArr.vals.shape ([1, 3].set 1 p) := by
  have hinc : StrictInc [0, 2, 4] := by unfold StrictInc; decide
  refine ⟨interpAt_between_bounds [0, 2, 4] [10, 20, 40] 0 (-1) (-2) 3 1 (by decide) rfl hinc (by decide) (by decide), ?_⟩
  intro r hr
  have hwf : interpExArr.WF := by decide
  have hpos : axisPos interpExArr.axes (.name "x") = .ok 1 := by decide
  have hax : interpExArr.axes[1]? = some { name := "x", labels := [.num 3, .num 0, .num 1], kind := .i } := rfl
  have hnd : ([3, 0, 1] : List Rat).Nodup := by decide
  obtain ⟨r', hr', h⟩ := interpAxis_spec linRat interpExArr (.name "x") 1 _ [3, 0, 1] [-1, 2, 1, 1/2, 5] .f (-7) (-9)
    hwf hpos hax rfl (by decide) hnd
  rw [hr] at hr'
  injection hr' with hr'
  subst hr'
  refine ⟨?_, ?_⟩
  · exact h.between_bounds hnd [1, 1] 1 2 0 2 1 3 rfl rfl rfl rfl (by decide) (by decide) (by decide)
  · exact h.covers hwf hax rfl rfl [1, 3] (by rw [h.shape]; decide)

/-- the failure theorems on concrete data: an empty axis, string labels, an unknown dimension -/
example :
    interpAxis linRat ({ axes := [{ name := "x", labels := [], kind := .f }], vals := { shape := [0], get := fun _ => 0 } } : DimArray Rat)
      (.pos 0) ([1].map Label.num) .f 0 0 = .error .value ∧
    interpAxis linRat interpExArr (.name "y") ([1].map Label.num) .f 0 0 = .error .type ∧
    interpAxis linRat interpExArr (.name "z") ([1].map Label.num) .f 0 0 = .error .value := by
  refine ⟨?_, ?_, ?_⟩
  · exact interpAxis_empty_axis linRat _ (.pos 0) 0 _ [1] .f 0 0 (by decide) rfl rfl
  · exact interpAxis_nonnumeric linRat interpExArr (.name "y") 0 _ _ .f 0 0 (by decide) rfl
      (Or.inl ⟨.str "a", by decide, rfl⟩)
  · exact interpAxis_bad_axis linRat interpExArr (.name "z") _ .f 0 0 .value (by decide)

/-! ### successive interpolation along two dimensions (the step `interp_like` iterates; `interp_like` itself has
no mirror in `Lib`) -/

/-- interpolation does not rename any dimension -/
theorem InterpolatesAlong.names {α : Type} [Inhabited α] {lin : α → α → Rat → α} {a r : DimArray α} {pos : Nat}
    {ax : Axis} {xs nx : List Rat} {nk : Kind} {left right : α}
    (h : InterpolatesAlong lin a r pos ax xs nx nk left right) (hax : a.axes[pos]? = some ax) :
    r.axes.map (·.name) = a.axes.map (·.name) := by
  apply List.ext_getElem?
  intro i
  rw [List.getElem?_map, List.getElem?_map]
  by_cases hi : i = pos
  · subst hi
    rw [h.axis, hax]
    rfl
  · rw [h.others i hi]

/-- **two successive interpolations** along different dimensions (what `interp_like` does for every shared
dimension): if both axes of the input qualify, the second call succeeds on the result of the first, each step is a
per-fibre interpolation, both axes end up as requested and every other axis and the metadata are those of the
input -/
theorem interpAxis_successive {α : Type} [Inhabited α] (lin : α → α → Rat → α) (a : DimArray α)
    (k1 k2 : DimKey) (p1 p2 : Nat) (ax1 ax2 : Axis) (xs1 nx1 xs2 nx2 : List Rat) (nk1 nk2 : Kind) (left right : α)
    (hwf : a.WF) (hne12 : p1 ≠ p2)
    (hpos1 : axisPos a.axes k1 = .ok p1) (hax1 : a.axes[p1]? = some ax1)
    (hxs1 : ax1.labels = xs1.map Label.num) (hne1 : xs1 ≠ []) (hnd1 : xs1.Nodup)
    (hpos2 : axisPos a.axes k2 = .ok p2) (hax2 : a.axes[p2]? = some ax2)
    (hxs2 : ax2.labels = xs2.map Label.num) (hne2 : xs2 ≠ []) (hnd2 : xs2.Nodup) :
    ∃ r1 r2, interpAxis lin a k1 (nx1.map Label.num) nk1 left right = .ok r1 ∧
      interpAxis lin r1 k2 (nx2.map Label.num) nk2 left right = .ok r2 ∧
      InterpolatesAlong lin a r1 p1 ax1 xs1 nx1 nk1 left right ∧
      InterpolatesAlong lin r1 r2 p2 ax2 xs2 nx2 nk2 left right ∧
      r2.axes[p1]? = some { name := ax1.name, labels := nx1.map Label.num, kind := nk1 } ∧
      r2.axes[p2]? = some { name := ax2.name, labels := nx2.map Label.num, kind := nk2 } ∧
      (∀ i, i ≠ p1 → i ≠ p2 → r2.axes[i]? = a.axes[i]?) ∧ r2.attrs = a.attrs := by
  obtain ⟨r1, hr1, h1⟩ := interpAxis_spec lin a k1 p1 ax1 xs1 nx1 nk1 left right hwf hpos1 hax1 hxs1 hne1 hnd1
  have hpos2' : axisPos r1.axes k2 = .ok p2 := by
    rw [C17P.axisPos_congr _ _ k2 (h1.names hax1)]; exact hpos2
  have hax2' : r1.axes[p2]? = some ax2 := by rw [h1.others p2 (Ne.symm hne12)]; exact hax2
  obtain ⟨r2, hr2, h2⟩ := interpAxis_spec lin r1 k2 p2 ax2 xs2 nx2 nk2 left right h1.wf hpos2' hax2' hxs2 hne2 hnd2
  refine ⟨r1, r2, hr1, hr2, h1, h2, ?_, h2.axis, ?_, ?_⟩
  · rw [h2.others p1 hne12]; exact h1.axis
  · intro i hi1 hi2
    rw [h2.others i hi2, h1.others i hi1]
  · rw [h2.attrs, h1.attrs]

/-- a 2 x 3 array with two numeric axes, both stored out of order -/
def interpExArr2 : DimArray Rat :=
  { axes := [{ name := "y", labels := [.num 1, .num 0], kind := .i },
             { name := "x", labels := [.num 3, .num 0, .num 1], kind := .i }]
    vals := { shape := [2, 3]
              get := fun j => match j with
                | [0, c] => ([130, 100, 110] : List Rat).getD c 0
                | [1, c] => ([30, 0, 10] : List Rat).getD c 0
                | _ => 0 } }

/-- the hypotheses of `interpAxis_successive` are satisfiable (bilinear interpolation of a 2 x 3 table) -/
example : ∃ r1 r2, interpAxis linRat interpExArr2 (.name "x") ([2, 1/2].map Label.num) .f 0 0 = .ok r1 ∧
    interpAxis linRat r1 (.pos (-2)) ([1/2].map Label.num) .f 0 0 = .ok r2 ∧ r2.vals.shape = [1, 2] := by
  obtain ⟨r1, r2, h1, h2, -, hs2, -, -, -, -⟩ := interpAxis_successive linRat interpExArr2 (.name "x") (.pos (-2)) 1 0
    { name := "x", labels := [.num 3, .num 0, .num 1], kind := .i } { name := "y", labels := [.num 1, .num 0], kind := .i }
    [3, 0, 1] [2, 1/2] [1, 0] [1/2] .f .f 0 0 (by decide) (by decide) (by decide) rfl rfl (by decide) (by decide)
    (by decide) rfl rfl (by decide) (by decide)
  refine ⟨r1, r2, h1, h2, ?_⟩
  rw [hs2.shape]
  obtain ⟨r1', h1', hs1⟩ := interpAxis_spec linRat interpExArr2 (.name "x") 1 _ [3, 0, 1] [2, 1/2] .f 0 0
    (by decide) (by decide) rfl rfl (by decide) (by decide)
  rw [h1] at h1'
  injection h1' with h1'
  subst h1'
  rw [hs1.shape]
  rfl

/-! ## The Dataset variant

`Dataset.interp_axis` sorts the whole Dataset by ITS labels, computes the indices / weights once and applies
them to the raw values of every variable (`DSV.interpAxisDs`, a code path of its own).  It agrees with the
DimArray method variable by variable. -/

namespace DSV

/-- in a good Dataset every axis of the Dataset is a plain axis (it is the axis of some variable) -/
theorem GoodDs.plain {α} {ds : Ds α} (hg : GoodDs ds) {e : Axis} (he : e ∈ ds.axes) : e.members = [] := by
  obtain ⟨kv, hkv, hmem⟩ := hg.1.2.1 e he
  obtain ⟨a, ha, hn⟩ := List.mem_map.mp hmem
  have : a = e := mem_name_inj hg.1.2.2 (hg.2.1 kv hkv a ha) he hn
  rw [← this]
  exact (hg.2.2.2 kv hkv).2.2 a ha

/-- **`Dataset.interp_axis`, end to end.** On a good Dataset (shared axes, distinct keys, well-formed
variables) whose axis `name` has numeric labels `xs` stored in any order (at least one), for any new numeric
coordinates: the call succeeds; keys and Dataset metadata are kept; the Dataset's axis `name` is exactly the new
coordinates and its other axes are unchanged; every variable that has the dimension comes back EXACTLY as
`DimArray.interp_axis` of that variable (same axes, values, dtype kind, metadata), the others as they are; the
result is again a Dataset with shared axes. -/
theorem interpAxisDs_spec {α : Type} [Inhabited α] (lin : α → α → Rat → α) (ds : Ds α) (name : String) (ax : Axis)
    (xs nx : List Rat) (nk : Kind) (left right : α) (hg : GoodDs ds)
    (hfind : ds.axes.find? (fun a => a.name == name) = some ax)
    (hxs : ax.labels = xs.map Label.num) (hne : xs ≠ []) :
    ∃ out, interpAxisDs lin ds name (nx.map Label.num) nk left right = .ok out ∧
      out.keys = ds.keys ∧ out.attrs = ds.attrs ∧ SharedAxes out ∧ OwnAxes out ∧
      out.axes = ds.axes.map (fun e =>
        if e.name == name then { name := name, labels := nx.map Label.num, kind := nk } else e) ∧
      ∀ k v, (k, v) ∈ ds.vars → ∃ r, (k, r) ∈ out.vars ∧
        (name ∈ v.dims → interpAxis lin v (.name name) (nx.map Label.num) nk left right = .ok r) ∧
        (name ∉ v.dims → r = v) := by
  have hmem := find?_name_some hfind
  have hvd : ∀ kv ∈ ds.vars, kv.2.dims.Nodup := fun kv hkv => (hg.2.2.2 kv hkv).1
  have hcl := interpAxisDs_closed lin ds name ax xs nx nk left right hg.1 hg.2.1 hg.2.2.1 hvd hfind
    (hg.plain hmem.1) hxs hne
  obtain ⟨hs', hown'⟩ := interp_shared lin ds name nk (sortPos xs) xs nx left right hg.1 hg.2.1 hvd
  refine ⟨_, hcl, ?_, rfl, hs', hown', rfl, ?_⟩
  · simp only [Ds.keys, List.map_map]
    rfl
  · intro k v hkv
    refine ⟨interpVar lin name nk (sortPos xs) xs nx left right v, ?_, ?_, ?_⟩
    · exact List.mem_map_of_mem (f := fun kv => (kv.1, interpVar lin name nk (sortPos xs) xs nx left right kv.2)) hkv
    · intro hin
      have hlt : v.dims.idxOf name < v.dims.length := List.idxOf_lt_length_iff.2 hin
      have hlt' : v.dims.idxOf name < v.axes.length := by simpa [DimArray.dims] using hlt
      have hax := axes_getD_idxOf v name hin
      have haxe : v.axes.getD (v.dims.idxOf name) default = ax := hg.axis_eq hfind hkv _ hax.1 hax.2
      have hax' : v.axes[v.dims.idxOf name]? = some ax := by
        rw [← haxe, List.getD_eq_getElem?_getD, List.getElem?_eq_getElem hlt']; rfl
      rw [interpAxis_eq_core, axisPos_name v name hin]
      show interpCore lin v (v.dims.idxOf name) (nx.map Label.num) nk left right = _
      rw [interpCore_closed lin v _ ax xs nx nk left right hax' hxs hne, hmem.2]
      unfold interpVar
      rw [if_pos hlt]
    · intro hnot
      unfold interpVar
      rw [if_neg (fun hlt => hnot (List.idxOf_lt_length_iff.1 hlt))]

/-- `Dataset.interp_axis` on an unknown dimension: ValueError, as the DimArray method given a name -/
theorem interpAxisDs_bad_axis {α : Type} [Inhabited α] (lin : α → α → Rat → α) (ds : Ds α) (name : String)
    (newL : List Label) (nk : Kind) (left right : α) (h : name ∉ ds.dims) :
    interpAxisDs lin ds name newL nk left right = .error .value := by
  unfold interpAxisDs
  rw [find?_name_none h]

/-- hence every variable of the result that has the dimension satisfies the per-fibre specification
`InterpolatesAlong` (exact at the nodes, fills, chord between neighbours, whatever the stored order) -/
theorem interpAxisDs_interpolates {α : Type} [Inhabited α] (lin : α → α → Rat → α) (ds out : Ds α) (name : String)
    (ax : Axis) (xs nx : List Rat) (nk : Kind) (left right : α) (hg : GoodDs ds)
    (hfind : ds.axes.find? (fun a => a.name == name) = some ax)
    (hxs : ax.labels = xs.map Label.num) (hne : xs ≠ []) (hnd : xs.Nodup)
    (h : interpAxisDs lin ds name (nx.map Label.num) nk left right = .ok out)
    (k : String) (v : DimArray α) (hkv : (k, v) ∈ ds.vars) (hwf : v.WF) (hin : name ∈ v.dims) :
    ∃ r, (k, r) ∈ out.vars ∧ InterpolatesAlong lin v r (v.dims.idxOf name) ax xs nx nk left right := by
  obtain ⟨out', hout', -, -, -, -, -, hv⟩ := interpAxisDs_spec lin ds name ax xs nx nk left right hg hfind hxs hne
  rw [h] at hout'
  injection hout' with hout'
  subst hout'
  obtain ⟨r, hr, hyes, -⟩ := hv k v hkv
  refine ⟨r, hr, ?_⟩
  have hlt : v.dims.idxOf name < v.axes.length := by
    simpa [DimArray.dims] using (List.idxOf_lt_length_iff.2 hin : v.dims.idxOf name < v.dims.length)
  have hax := axes_getD_idxOf v name hin
  have haxe : v.axes.getD (v.dims.idxOf name) default = ax := hg.axis_eq hfind hkv _ hax.1 hax.2
  have hax' : v.axes[v.dims.idxOf name]? = some ax := by
    rw [← haxe, List.getD_eq_getElem?_getD, List.getElem?_eq_getElem hlt]; rfl
  obtain ⟨r', hr', hspec⟩ := interpAxis_spec lin v (.name name) _ ax xs nx nk left right hwf
    (axisPos_name v name hin) hax' hxs hne hnd
  rw [hyes hin] at hr'
  injection hr' with hr'
  rw [hr']
  exact hspec

/-- non-vacuity on the concrete Dataset of C14 (`x` stored as 10, 30, 20; `a` over (x, y), `b` over (y) only):
`interp_axis([15, 10, 99], axis="x")` succeeds, `b` comes back as it is, `a` as `a.interp_axis(...)` -/
example : ∃ out, interpAxisDs (fun a _ _ => a) exDs "x" ([15, 10, 99].map Label.num) .f 0 0 = .ok out ∧
    out.keys = ["a", "b"] ∧ ("b", exB) ∈ out.vars ∧
    ∃ r, ("a", r) ∈ out.vars ∧
      interpAxis (fun a _ _ => a) exA (.name "x") ([15, 10, 99].map Label.num) .f 0 0 = .ok r := by
  have hfind : exDs.axes.find? (fun a => a.name == "x") = some exX := by simp [exDs, exX]
  obtain ⟨out, hout, h1, -, -, -, -, h5⟩ :=
    interpAxisDs_spec (fun a _ _ => a) exDs "x" exX [10, 30, 20] [15, 10, 99] .f 0 0 exDs_good hfind rfl (by simp)
  refine ⟨out, hout, h1, ?_, ?_⟩
  · obtain ⟨r, hr, _, hnot⟩ := h5 "b" exB (by simp [exDs])
    rw [hnot (by simp [exB, DimArray.dims, exY])] at hr
    exact hr
  · obtain ⟨r, hr, hin, _⟩ := h5 "a" exA (by simp [exDs])
    exact ⟨r, hr, hin (by simp [exA, DimArray.dims, exX])⟩

end DSV

end DimModel

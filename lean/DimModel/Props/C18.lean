/-
C18 - property theorems: interp_axis is per-fibre piecewise-linear interpolation, exact at the
nodes, left / right fill outside the label range; the axis becomes exactly the requested
coordinates, other axes and metadata unchanged.  Values are exact rationals here (the floating-point
rounding inside np.interp is outside the model: PARTIAL).
-/
import DimModel.Lib.Interp
import DimModel.Proofs.C18
import Mathlib.Tactic.NormNum
namespace DimModel
open Lib

/-- `a + w * (b - a)` over the rationals -/
def linRat (a b w : Rat) : Rat := a + w * (b - a)

/-- strictly increasing nodes -/
def StrictInc (xs : List Rat) : Prop := xs.Pairwise (· < ·)

/-- **exact at the nodes**: at an existing label the interpolation reproduces the original value -/
theorem interpAt_node (xs ys : List Rat) (d left right : Rat) (k : Nat) (hk : k < xs.length)
    (hlen : ys.length = xs.length) (hinc : StrictInc xs) :
    interpAt linRat xs ys d left right (xs[k]) = ys[k]'(by omega) := by
  rw [interpAt_inrange _ _ _ _ _ _ _ (by omega) (pairwiseLt_le hinc _ _ (by omega))
    (pairwiseLt_le hinc _ _ (by omega))]
  by_cases hk1 : k + 1 < xs.length
  · rw [fracIndex_between hinc hk1 (le_refl _) (pairwiseLt_lt hinc _ _ (by omega))]
    simp only [sub_self, zero_div, beq_self_eq_true, if_true]
    exact getD_getElem _ _ (by omega)
  · rw [fracIndex_last hinc (by omega) (le_refl _)]
    simp only [beq_self_eq_true, if_true]
    exact getD_getElem _ _ (by omega)

/-- **left fill** below the label range -/
theorem interpAt_left (xs ys : List Rat) (d left right x lo : Rat) (hlo : xs.head? = some lo) (hx : x < lo) :
    interpAt linRat xs ys d left right x = left := by
  unfold interpAt
  rw [hlo]
  cases hl : xs.getLast? with
  | none =>
    rw [List.getLast?_eq_none_iff] at hl
    subst hl
    simp at hlo
  | some hi =>
    simp only []
    rw [if_pos hx]

/-- **right fill** above the label range -/
theorem interpAt_right (xs ys : List Rat) (d left right x lo hi : Rat) (hlo : xs.head? = some lo)
    (hhi : xs.getLast? = some hi) (hx1 : ¬ x < lo) (hx : hi < x) :
    interpAt linRat xs ys d left right x = right := by
  unfold interpAt
  rw [hlo, hhi]
  simp only []
  rw [if_neg hx1, if_pos hx]

/-- **piecewise linear between two neighbouring nodes**: for `xs[j] < x < xs[j+1]` the result is the
value on the chord through `(xs[j], ys[j])` and `(xs[j+1], ys[j+1])` - numpy.interp's definition -/
theorem interpAt_between (xs ys : List Rat) (d left right x : Rat) (j : Nat) (hj : j + 1 < xs.length)
    (hlen : ys.length = xs.length) (hinc : StrictInc xs)
    (h0 : xs[j]'(by omega) < x) (h1 : x < xs[j + 1]) :
    interpAt linRat xs ys d left right x =
      ys[j]'(by omega) + (x - xs[j]'(by omega)) / (xs[j + 1] - xs[j]'(by omega)) * (ys[j + 1]'(by omega) - ys[j]'(by omega)) := by
  have hlo : xs[0] ≤ x := le_trans (pairwiseLt_le hinc (by omega) (by omega) (Nat.zero_le j)) (le_of_lt h0)
  have hhi : x ≤ xs[xs.length - 1] := le_trans (le_of_lt h1) (pairwiseLt_le hinc hj (by omega) (by omega))
  rw [interpAt_inrange _ _ _ _ _ _ _ (by omega) hlo hhi]
  rw [fracIndex_between hinc hj (le_of_lt h0) h1]
  have hw : (x - xs[j]) / (xs[j + 1] - xs[j]) ≠ 0 := by
    apply div_ne_zero <;> linarith
  simp only []
  rw [if_neg (by simpa using hw)]
  rw [getD_getElem _ _ (by omega : j < ys.length), getD_getElem _ _ (by omega : j + 1 < ys.length)]
  rfl

/-- the result's axis along the interpolated dimension carries exactly the requested coordinates,
the other axes and the metadata are unchanged (up to the sorting of that axis) -/
theorem interpAxis_axes {α : Type} [Inhabited α] (lin : α → α → Rat → α) (a r : DimArray α) (k : DimKey)
    (newL : List Label) (nk : Kind) (left right : α) (pos : Nat)
    (hpos : (match k with
      | .name s => (if a.dims.idxOf s < a.dims.length then Except.ok (a.dims.idxOf s) else Except.error Err.value : Except Err Nat)
      | .pos i => (if (if i < 0 then i + (a.ndim : Int) else i) < 0 || (if i < 0 then i + (a.ndim : Int) else i) ≥ (a.ndim : Int)
                   then Except.error Err.index else Except.ok (if i < 0 then i + (a.ndim : Int) else i).toNat)) = .ok pos)
    (hlt : pos < a.axes.length)
    (h : interpAxis lin a k newL nk left right = .ok r) :
    (r.axes.getD pos default).labels = newL ∧ r.attrs = a.attrs ∧
    ∀ i, i ≠ pos → (r.axes[i]?).map (·.labels) = (a.axes[i]?).map (·.labels) := by
  unfold interpAxis at h
  simp only [bind, Except.bind] at h
  -- both kinds of key: the position computation yields `pos`
  have key : ∀ v, v = pos →
      (match
          labelsToRat
            ((if isIncreasingEq (a.axes.getD v default).labels = true then a
                    else takeAxisPos a v (argsortBy Label.le (a.axes.getD v default).labels)).axes.getD
                v default).labels,
          labelsToRat newL with
        | some xs, some nx =>
          if xs.isEmpty = true then Except.error Err.value
          else
            (pure
              {
                axes :=
                  (if isIncreasingEq (a.axes.getD v default).labels = true then a
                        else takeAxisPos a v (argsortBy Label.le (a.axes.getD v default).labels)).axes.set
                    v { name := (a.axes.getD v default).name, labels := newL, kind := nk },
                vals :=
                  {
                    shape :=
                      (if isIncreasingEq (a.axes.getD v default).labels = true then a
                              else takeAxisPos a v (argsortBy Label.le (a.axes.getD v default).labels)).vals.shape.set
                        v nx.length,
                    get := fun j =>
                      interpAt lin xs
                        (List.map
                          (fun i =>
                            (if isIncreasingEq (a.axes.getD v default).labels = true then a
                                  else takeAxisPos a v (argsortBy Label.le (a.axes.getD v default).labels)).vals.get
                              (j.set v i))
                          (List.range xs.length))
                        default left right (nx.getD (j.getD v 0) 0) },
                attrs :=
                  (if isIncreasingEq (a.axes.getD v default).labels = true then a
                    else takeAxisPos a v (argsortBy Label.le (a.axes.getD v default).labels)).attrs } : Except Err (DimArray α))
        | _, _ => Except.error Err.type) = Except.ok r →
      (r.axes.getD pos default).labels = newL ∧ r.attrs = a.attrs ∧
        ∀ i, i ≠ pos → (r.axes[i]?).map (·.labels) = (a.axes[i]?).map (·.labels) := by
    intro v hv h
    subst hv
    have ho := sortedOrSelf_props a v (isIncreasingEq (a.axes.getD v default).labels)
      (argsortBy Label.le (a.axes.getD v default).labels)
    generalize (if isIncreasingEq (a.axes.getD v default).labels = true then a
      else takeAxisPos a v (argsortBy Label.le (a.axes.getD v default).labels)) = o at h ho
    split at h
    · split at h
      · cases h
      · simp only [pure, Except.pure] at h
        injection h with h
        subst h
        exact interpAxis_tail o a v _ newL rfl hlt ho
    · cases h
  cases k with
  | name s =>
    simp only [] at h hpos
    split at hpos
    · rename_i hc
      rw [if_pos hc] at h
      injection hpos with hpos
      simp only [pure, Except.pure] at h
      exact key _ hpos h
    · cases hpos
  | pos i =>
    simp only [] at h hpos
    generalize (if i < 0 then i + (a.ndim : Int) else i) = j at h hpos
    by_cases hc : (decide (j < 0) || decide (j ≥ (a.ndim : Int))) = true
    · rw [if_pos hc] at hpos
      cases hpos
    · rw [if_neg hc] at h hpos
      injection hpos with hpos
      simp only [pure, Except.pure] at h
      exact key _ hpos h

/-- non-vacuity: interpolation half-way between two nodes -/
example : interpAt linRat [0, 2, 4] [10, 20, 40] 0 (-1) (-2) 3 = 30 ∧ StrictInc [0, 2, 4] := by
  have hinc : StrictInc [0, 2, 4] := by
    unfold StrictInc; decide
  refine ⟨?_, hinc⟩
  rw [interpAt_between [0, 2, 4] [10, 20, 40] 0 (-1) (-2) 3 1 (by decide) rfl hinc (by decide) (by decide)]
  norm_num

end DimModel

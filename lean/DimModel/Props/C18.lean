import DimModel.Lib.Interp
namespace DimModel
end DimModel

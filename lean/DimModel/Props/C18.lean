/-
C18 - property theorems: interp_axis is per-fibre piecewise-linear interpolation, exact at the
nodes, left / right fill outside the label range; the axis becomes exactly the requested
coordinates, other axes and metadata unchanged.  Values are exact rationals here (the floating-point
rounding inside np.interp is outside the model: PARTIAL).

Layout: the 1-D kernel theorems first; then the END-TO-END theorems about `Lib.interpAxis` (N-d, labels stored
in any order): `interpAxis_spec` / `InterpolatesAlong` with its corollaries (`node`, `left_fill`, `right_fill`,
`between`, `between_bounds`), `interpAxis_order_independent`, the failure cases, `interpAxis_successive`; then the
Dataset variant `DSV.interpAxisDs_spec` (mirror in `Lib/DatasetInterp.lean`); then `interp_like` and
`Dataset.interp_like` (mirrors in `Lib/InterpLike.lean`): `interpLike_eq_successive`, `interpLike_spec` (`InterpChain`),
`interpLike_two` (bilinear composition), `interpLike_order_independent`, `DSV.interpLikeDs_spec`.
-/
import DimModel.Lib.Interp
import DimModel.Lib.InterpLike
import DimModel.Proofs.C18
import DimModel.Proofs.C18Axis
import DimModel.Proofs.C18Ds
import DimModel.Proofs.C18Like
import DimModel.Proofs.C16
import DimModel.Props.C14
import Mathlib.Tactic.NormNum
namespace DimModel
open Lib

/-- `a + w * (b - a)` over the rationals -/
def linRat (a b w : Rat) : Rat := a + w * (b - a)

/-- strictly increasing nodes -/
def StrictInc (xs : List Rat) : Prop := xs.Pairwise (· < ·)

/-- **exact at the nodes**: at an existing label the interpolation reproduces the original value -/
theorem interpAt_node (xs ys : List Rat) (d left right : Rat) (k : Nat) (hk : k < xs.length)
    (hlen : ys.length = xs.length) (hinc : StrictInc xs) :
    interpAt linRat xs ys d left right (xs[k]) = ys[k]'(by omega) := by
  rw [interpAt_inrange _ _ _ _ _ _ _ (by omega) (pairwiseLt_le hinc _ _ (by omega))
    (pairwiseLt_le hinc _ _ (by omega))]
  by_cases hk1 : k + 1 < xs.length
  · rw [fracIndex_between hinc hk1 (le_refl _) (pairwiseLt_lt hinc _ _ (by omega))]
    simp only [sub_self, zero_div, beq_self_eq_true, if_true]
    exact getD_getElem _ _ (by omega)
  · rw [fracIndex_last hinc (by omega) (le_refl _)]
    simp only [beq_self_eq_true, if_true]
    exact getD_getElem _ _ (by omega)

/-- **left fill** below the label range -/
theorem interpAt_left (xs ys : List Rat) (d left right x lo : Rat) (hlo : xs.head? = some lo) (hx : x < lo) :
    interpAt linRat xs ys d left right x = left := by
  unfold interpAt
  rw [hlo]
  cases hl : xs.getLast? with
  | none =>
    rw [List.getLast?_eq_none_iff] at hl
    subst hl
    simp at hlo
  | some hi =>
    simp only []
    rw [if_pos hx]

/-- **right fill** above the label range -/
theorem interpAt_right (xs ys : List Rat) (d left right x lo hi : Rat) (hlo : xs.head? = some lo)
    (hhi : xs.getLast? = some hi) (hx1 : ¬ x < lo) (hx : hi < x) :
    interpAt linRat xs ys d left right x = right := by
  unfold interpAt
  rw [hlo, hhi]
  simp only []
  rw [if_neg hx1, if_pos hx]

/-- **piecewise linear between two neighbouring nodes**: for `xs[j] < x < xs[j+1]` the result is the
value on the chord through `(xs[j], ys[j])` and `(xs[j+1], ys[j+1])` - numpy.interp's definition -/
theorem interpAt_between (xs ys : List Rat) (d left right x : Rat) (j : Nat) (hj : j + 1 < xs.length)
    (hlen : ys.length = xs.length) (hinc : StrictInc xs)
    (h0 : xs[j]'(by omega) < x) (h1 : x < xs[j + 1]) :
    interpAt linRat xs ys d left right x =
      ys[j]'(by omega) + (x - xs[j]'(by omega)) / (xs[j + 1] - xs[j]'(by omega)) * (ys[j + 1]'(by omega) - ys[j]'(by omega)) := by
  have hlo : xs[0] ≤ x := le_trans (pairwiseLt_le hinc (by omega) (by omega) (Nat.zero_le j)) (le_of_lt h0)
  have hhi : x ≤ xs[xs.length - 1] := le_trans (le_of_lt h1) (pairwiseLt_le hinc hj (by omega) (by omega))
  rw [interpAt_inrange _ _ _ _ _ _ _ (by omega) hlo hhi]
  rw [fracIndex_between hinc hj (le_of_lt h0) h1]
  have hw : (x - xs[j]) / (xs[j + 1] - xs[j]) ≠ 0 := by
    apply div_ne_zero <;> linarith
  simp only []
  rw [if_neg (by simpa using hw)]
  rw [getD_getElem _ _ (by omega : j < ys.length), getD_getElem _ _ (by omega : j + 1 < ys.length)]
  rfl

/-- the result's axis along the interpolated dimension carries exactly the requested coordinates,
the other axes and the metadata are unchanged (up to the sorting of that axis) -/
theorem interpAxis_axes {α : Type} [Inhabited α] (lin : α → α → Rat → α) (a r : DimArray α) (k : DimKey)
    (newL : List Label) (nk : Kind) (left right : α) (pos : Nat)
    (hpos : (match k with
      | .name s => (if a.dims.idxOf s < a.dims.length then Except.ok (a.dims.idxOf s) else Except.error Err.value : Except Err Nat)
      | .pos i => (if (if i < 0 then i + (a.ndim : Int) else i) < 0 || (if i < 0 then i + (a.ndim : Int) else i) ≥ (a.ndim : Int)
                   then Except.error Err.index else Except.ok (if i < 0 then i + (a.ndim : Int) else i).toNat)) = .ok pos)
    (hlt : pos < a.axes.length)
    (h : interpAxis lin a k newL nk left right = .ok r) :
    (r.axes.getD pos default).labels = newL ∧ r.attrs = a.attrs ∧
    ∀ i, i ≠ pos → (r.axes[i]?).map (·.labels) = (a.axes[i]?).map (·.labels) := by
  unfold interpAxis at h
  simp only [bind, Except.bind] at h
  -- both kinds of key: the position computation yields `pos`
  have key : ∀ v, v = pos →
      (match
          labelsToRat
            ((if isIncreasingEq (a.axes.getD v default).labels = true then a
                    else takeAxisPos a v (argsortBy Label.le (a.axes.getD v default).labels)).axes.getD
                v default).labels,
          labelsToRat newL with
        | some xs, some nx =>
          if xs.isEmpty = true then Except.error Err.value
          else
            (pure
              {
                axes :=
                  (if isIncreasingEq (a.axes.getD v default).labels = true then a
                        else takeAxisPos a v (argsortBy Label.le (a.axes.getD v default).labels)).axes.set
                    v { name := (a.axes.getD v default).name, labels := newL, kind := nk },
                vals :=
                  {
                    shape :=
                      (if isIncreasingEq (a.axes.getD v default).labels = true then a
                              else takeAxisPos a v (argsortBy Label.le (a.axes.getD v default).labels)).vals.shape.set
                        v nx.length,
                    get := fun j =>
                      interpAt lin xs
                        (List.map
                          (fun i =>
                            (if isIncreasingEq (a.axes.getD v default).labels = true then a
                                  else takeAxisPos a v (argsortBy Label.le (a.axes.getD v default).labels)).vals.get
                              (j.set v i))
                          (List.range xs.length))
                        default left right (nx.getD (j.getD v 0) 0) },
                attrs :=
                  (if isIncreasingEq (a.axes.getD v default).labels = true then a
                    else takeAxisPos a v (argsortBy Label.le (a.axes.getD v default).labels)).attrs } : Except Err (DimArray α))
        | _, _ => Except.error Err.type) = Except.ok r →
      (r.axes.getD pos default).labels = newL ∧ r.attrs = a.attrs ∧
        ∀ i, i ≠ pos → (r.axes[i]?).map (·.labels) = (a.axes[i]?).map (·.labels) := by
    intro v hv h
    subst hv
    have ho := sortedOrSelf_props a v (isIncreasingEq (a.axes.getD v default).labels)
      (argsortBy Label.le (a.axes.getD v default).labels)
    generalize (if isIncreasingEq (a.axes.getD v default).labels = true then a
      else takeAxisPos a v (argsortBy Label.le (a.axes.getD v default).labels)) = o at h ho
    split at h
    · split at h
      · cases h
      · simp only [pure, Except.pure] at h
        injection h with h
        subst h
        exact interpAxis_tail o a v _ newL rfl hlt ho
    · cases h
  cases k with
  | name s =>
    simp only [] at h hpos
    split at hpos
    · rename_i hc
      rw [if_pos hc] at h
      injection hpos with hpos
      simp only [pure, Except.pure] at h
      exact key _ hpos h
    · cases hpos
  | pos i =>
    simp only [] at h hpos
    generalize (if i < 0 then i + (a.ndim : Int) else i) = j at h hpos
    by_cases hc : (decide (j < 0) || decide (j ≥ (a.ndim : Int))) = true
    · rw [if_pos hc] at hpos
      cases hpos
    · rw [if_neg hc] at h hpos
      injection hpos with hpos
      simp only [pure, Except.pure] at h
      exact key _ hpos h

/-- non-vacuity: interpolation half-way between two nodes -/
example : interpAt linRat [0, 2, 4] [10, 20, 40] 0 (-1) (-2) 3 = 30 ∧ StrictInc [0, 2, 4] := by
  have hinc : StrictInc [0, 2, 4] := by
    unfold StrictInc; decide
  refine ⟨?_, hinc⟩
  rw [interpAt_between [0, 2, 4] [10, 20, 40] 0 (-1) (-2) 3 1 (by decide) rfl hinc (by decide) (by decide)]
  norm_num

/-! ## End to end: `Lib.interpAxis` on N-d arrays whose labels are stored in any order

The stored nodes `xs` (the numeric labels of the axis, as stored: increasing, decreasing or shuffled) are
related to the 1-D kernel through a *sorting list* `σ`: the positions `0 .. n-1` listed by increasing node
value.  For distinct nodes such a list exists and is unique (`sortsNodes_exists`, `SortsNodes.unique`), so
the value equation below determines the result completely and does not mention how the implementation
sorts. -/
open C18P C17P

/-- `σ` lists the positions `0 .. n-1` of the stored nodes `xs` by strictly increasing node value
(every `p ∈ σ` is a valid position of `xs`, so the `getD` default is never used) -/
def SortsNodes (xs : List Rat) (σ : List Nat) : Prop :=
  σ.Perm (List.range xs.length) ∧ StrictInc (σ.map (fun p => xs.getD p 0))

/-- distinct nodes can be sorted ... -/
theorem sortsNodes_exists (xs : List Rat) (hnd : xs.Nodup) : ∃ σ, SortsNodes xs σ :=
  ⟨sortPos xs, sortPos_perm xs, sortPos_lt_pairwise xs hnd⟩

/-- ... in exactly one way ... -/
theorem SortsNodes.unique {xs : List Rat} {σ τ : List Nat} (hσ : SortsNodes xs σ) (hτ : SortsNodes xs τ) : σ = τ :=
  sorting_unique xs σ τ (hσ.1.trans hτ.1.symm) hσ.2 hτ.2

/-- ... and only distinct nodes can -/
theorem SortsNodes.nodup {xs : List Rat} {σ : List Nat} (hσ : SortsNodes xs σ) : xs.Nodup := by
  have h1 : (σ.map (fun p => xs.getD p 0)).Nodup := hσ.2.imp (fun h => ne_of_lt h)
  have h2 := hσ.1.map (fun p => xs.getD p 0)
  rw [map_range_getD] at h2
  exact h2.nodup_iff.mp h1

/-- a valid position of a sorting list is a valid position of the nodes -/
theorem SortsNodes.lt {xs : List Rat} {σ : List Nat} (hσ : SortsNodes xs σ) {p : Nat} (hp : p ∈ σ) : p < xs.length := by
  simpa using hσ.1.mem_iff.mp hp

/-- Spec: `r` is `a` interpolated along dimension `pos` (whose axis `ax` has the stored numeric labels `xs`)
at the new coordinates `nx`: the axis at `pos` is exactly the new coordinates under the old name, the other
axes, the array metadata are unchanged, the result is a well-formed float array, and every cell is the 1-D
kernel `interpAt` applied to the sorted nodes and to the fibre through that cell read in the same (sorted)
order - whatever the stored order. -/
structure InterpolatesAlong {α : Type} [Inhabited α] (lin : α → α → Rat → α) (a r : DimArray α) (pos : Nat)
    (ax : Axis) (xs nx : List Rat) (nk : Kind) (left right : α) : Prop where
  /-- the result is a well-formed DimArray -/
  wf : r.WF
  ndim : r.axes.length = a.axes.length
  /-- the interpolated axis carries exactly the requested coordinates, under the old name -/
  axis : r.axes[pos]? = some { name := ax.name, labels := nx.map Label.num, kind := nk }
  /-- every other axis is the very same axis -/
  others : ∀ i, i ≠ pos → r.axes[i]? = a.axes[i]?
  shape : r.vals.shape = a.vals.shape.set pos nx.length
  attrs : r.attrs = a.attrs
  vkind : r.vkind = Kind.f
  /-- the value equation: with `σ` the sorting list of the stored nodes, the cell at index `j` (coordinate `i`
  along `pos`, new coordinate `x = nx[i]`) is the 1-D interpolation at `x` of the fibre
  `p ↦ a[j with j[pos] := p]` against the nodes, both read through `σ` -/
  value : ∀ σ, SortsNodes xs σ → ∀ (j : List Nat) (i : Nat) (x : Rat), j[pos]? = some i → nx[i]? = some x →
    r.vals.get j =
      interpAt lin (σ.map (fun p => xs.getD p 0)) (σ.map (fun p => a.vals.get (j.set pos p))) default left right x

/-- **`interp_axis`, end to end.** On a well-formed array whose axis `k` is a plain axis with distinct numeric
labels `xs` stored in ANY order (at least one), and for ANY list of new numeric coordinates `nx` (sorted or
not, inside or outside the label range, possibly empty): the call succeeds and the result satisfies
`InterpolatesAlong`. -/
theorem interpAxis_spec {α : Type} [Inhabited α] (lin : α → α → Rat → α) (a : DimArray α) (k : DimKey) (pos : Nat)
    (ax : Axis) (xs nx : List Rat) (nk : Kind) (left right : α)
    (hwf : a.WF) (hpos : axisPos a.axes k = .ok pos) (hax : a.axes[pos]? = some ax)
    (hxs : ax.labels = xs.map Label.num) (hne : xs ≠ []) (hnd : xs.Nodup) :
    ∃ r, interpAxis lin a k (nx.map Label.num) nk left right = .ok r ∧
      InterpolatesAlong lin a r pos ax xs nx nk left right := by
  have hlt : pos < a.axes.length := C17P.axisPos_lt _ _ _ hpos
  rw [interpAxis_eq_core, hpos]
  show ∃ r, interpCore lin a pos (nx.map Label.num) nk left right = .ok r ∧ _
  rw [interpCore_closed lin a pos ax xs nx nk left right hax hxs hne]
  refine ⟨_, rfl, ?_⟩
  refine
    { wf := interpResult_wf lin a pos ax nk _ xs nx left right hwf hax
      ndim := by simp [interpResult]
      axis := by simp [interpResult, hlt]
      others := fun i hi => by
        show (a.axes.set pos _)[i]? = _
        rw [List.getElem?_set_ne (Ne.symm hi)]
      shape := rfl
      attrs := rfl
      vkind := rfl
      value := ?_ }
  intro σ hσ j i x hj hx
  have hσe : σ = sortPos xs := hσ.unique ⟨sortPos_perm xs, sortPos_lt_pairwise xs hnd⟩
  subst hσe
  show interpAt lin _ _ default left right (nx.getD (j.getD pos 0) 0) = _
  simp only [List.getD_eq_getElem?_getD, hj, hx, Option.getD_some]

/-- the value equation of `InterpolatesAlong` covers every in-range index of the result, and (for a plain
axis) every cell of `a` it reads is an in-range cell -/
theorem InterpolatesAlong.covers {α : Type} [Inhabited α] {lin : α → α → Rat → α} {a r : DimArray α} {pos : Nat}
    {ax : Axis} {xs nx : List Rat} {nk : Kind} {left right : α}
    (h : InterpolatesAlong lin a r pos ax xs nx nk left right) (hwf : a.WF) (hax : a.axes[pos]? = some ax)
    (hplain : ax.members = []) (hxs : ax.labels = xs.map Label.num)
    (j : List Nat) (hj : InRange r.vals.shape j) :
    ∃ i x, j[pos]? = some i ∧ nx[i]? = some x ∧ ∀ p, p < xs.length → InRange a.vals.shape (j.set pos p) := by
  have hlt : pos < a.vals.shape.length := by
    rw [hwf.1, List.length_map]
    rcases Nat.lt_or_ge pos a.axes.length with hl | hl
    · exact hl
    · rw [List.getElem?_eq_none hl] at hax; cases hax
  have hs : r.vals.shape[pos]? = some nx.length := by
    rw [h.shape, List.getElem?_set_self hlt]
  obtain ⟨i, hi, hil⟩ := inRange_getElem? _ _ _ _ hj hs
  refine ⟨i, nx[i], hi, List.getElem?_eq_getElem hil, ?_⟩
  intro p hp
  have hsa : a.vals.shape[pos]? = some xs.length := by
    rw [hwf.1, List.getElem?_map, hax]
    simp [Axis.size, hplain, hxs]
  rw [h.shape] at hj
  exact inRange_set_set _ _ _ _ _ _ hj hsa hp

/-! ### corollaries: the kernel theorems transported to the N-d, any-order function -/

/-- the nodes read through a sorting list are a permutation of the stored nodes -/
theorem SortsNodes.nodes_perm {xs : List Rat} {σ : List Nat} (hσ : SortsNodes xs σ) :
    (σ.map (fun p => xs.getD p 0)).Perm xs := by
  have := hσ.1.map (fun p => xs.getD p 0)
  rwa [map_range_getD] at this

/-- where the stored position `p` sits in the sorted order: the node there is `xs[p]`, the fibre value there
is the cell of `a` at position `p` -/
private theorem SortsNodes.locate {α : Type} {xs : List Rat} {σ : List Nat} (hσ : SortsNodes xs σ) (f : Nat → α)
    {p : Nat} {x : Rat} (hp : xs[p]? = some x) :
    ∃ u : Nat, u < σ.length ∧ (σ.map (fun p => xs.getD p 0))[u]? = some x ∧ (σ.map f)[u]? = some (f p) := by
  have hpl : p < xs.length := (List.getElem?_eq_some_iff.mp hp).1
  obtain ⟨u, hu⟩ := perm_range_index hσ.1 hpl
  have hul := (List.getElem?_eq_some_iff.mp hu).1
  refine ⟨u, hul, ?_, ?_⟩
  · rw [List.getElem?_map, hu]
    simp [List.getD_eq_getElem?_getD, hp]
  · rw [List.getElem?_map, hu]; rfl

/-- **exact at the nodes, N-d, any stored order**: where the new coordinate equals the label stored at
position `p`, the result is the original cell at position `p` (for any value type and any `lin`) -/
theorem InterpolatesAlong.node {α : Type} [Inhabited α] {lin : α → α → Rat → α} {a r : DimArray α} {pos : Nat}
    {ax : Axis} {xs nx : List Rat} {nk : Kind} {left right : α}
    (h : InterpolatesAlong lin a r pos ax xs nx nk left right) (hnd : xs.Nodup)
    (j : List Nat) (i p : Nat) (x : Rat) (hj : j[pos]? = some i) (hx : nx[i]? = some x) (hp : xs[p]? = some x) :
    r.vals.get j = a.vals.get (j.set pos p) := by
  obtain ⟨σ, hσ⟩ := sortsNodes_exists xs hnd
  rw [h.value σ hσ j i x hj hx]
  obtain ⟨u, hul, hn, hf⟩ := hσ.locate (fun p => a.vals.get (j.set pos p)) hp
  obtain ⟨hl1, e1⟩ := List.getElem?_eq_some_iff.mp hn
  obtain ⟨hl2, e2⟩ := List.getElem?_eq_some_iff.mp hf
  have := interpAt_node_gen lin (σ.map (fun p => xs.getD p 0)) (σ.map (fun p => a.vals.get (j.set pos p)))
    default left right u hl1 (by simp) hσ.2
  rw [e1] at this
  rw [this, e2]

/-- **left fill, N-d**: a new coordinate below every label gives `left` -/
theorem InterpolatesAlong.left_fill {α : Type} [Inhabited α] {lin : α → α → Rat → α} {a r : DimArray α} {pos : Nat}
    {ax : Axis} {xs nx : List Rat} {nk : Kind} {left right : α}
    (h : InterpolatesAlong lin a r pos ax xs nx nk left right) (hne : xs ≠ []) (hnd : xs.Nodup)
    (j : List Nat) (i : Nat) (x : Rat) (hj : j[pos]? = some i) (hx : nx[i]? = some x) (hlo : ∀ y ∈ xs, x < y) :
    r.vals.get j = left := by
  obtain ⟨σ, hσ⟩ := sortsNodes_exists xs hnd
  rw [h.value σ hσ j i x hj hx]
  apply interpAt_left_gen
  · intro he
    have := hσ.nodes_perm
    rw [he] at this
    exact hne this.symm.eq_nil
  · intro y hy
    exact hlo y (hσ.nodes_perm.mem_iff.mp hy)

/-- **right fill, N-d**: a new coordinate above every label gives `right` -/
theorem InterpolatesAlong.right_fill {α : Type} [Inhabited α] {lin : α → α → Rat → α} {a r : DimArray α} {pos : Nat}
    {ax : Axis} {xs nx : List Rat} {nk : Kind} {left right : α}
    (h : InterpolatesAlong lin a r pos ax xs nx nk left right) (hne : xs ≠ []) (hnd : xs.Nodup)
    (j : List Nat) (i : Nat) (x : Rat) (hj : j[pos]? = some i) (hx : nx[i]? = some x) (hhi : ∀ y ∈ xs, y < x) :
    r.vals.get j = right := by
  obtain ⟨σ, hσ⟩ := sortsNodes_exists xs hnd
  rw [h.value σ hσ j i x hj hx]
  apply interpAt_right_gen
  · intro he
    have := hσ.nodes_perm
    rw [he] at this
    exact hne this.symm.eq_nil
  · intro y hy
    exact hhi y (hσ.nodes_perm.mem_iff.mp hy)

/-- `interpAt_between` with the nodes and values given by `getElem?` -/
theorem interpAt_between' (xs ys : List Rat) (d left right x : Rat) (u : Nat) (x0 x1 y0 y1 : Rat)
    (hlen : ys.length = xs.length) (hinc : StrictInc xs)
    (hx0 : xs[u]? = some x0) (hx1 : xs[u + 1]? = some x1) (hy0 : ys[u]? = some y0) (hy1 : ys[u + 1]? = some y1)
    (h0 : x0 < x) (h1 : x < x1) :
    interpAt linRat xs ys d left right x = y0 + (x - x0) / (x1 - x0) * (y1 - y0) := by
  obtain ⟨l0, e0⟩ := List.getElem?_eq_some_iff.mp hx0
  obtain ⟨l1, e1⟩ := List.getElem?_eq_some_iff.mp hx1
  obtain ⟨m0, f0⟩ := List.getElem?_eq_some_iff.mp hy0
  obtain ⟨m1, f1⟩ := List.getElem?_eq_some_iff.mp hy1
  subst e0 e1 f0 f1
  exact interpAt_between xs ys d left right x u l1 hlen hinc h0 h1

/-- **the chord between neighbouring labels, N-d, any stored order**: if the labels stored at positions `p`
and `q` are neighbours in the sorted order (no label strictly between them) and the new coordinate lies
strictly between them, the result is the value on the chord through the two original cells -/
theorem InterpolatesAlong.between {a r : DimArray Rat} {pos : Nat}
    {ax : Axis} {xs nx : List Rat} {nk : Kind} {left right : Rat}
    (h : InterpolatesAlong linRat a r pos ax xs nx nk left right) (hnd : xs.Nodup)
    (j : List Nat) (i p q : Nat) (x x0 x1 : Rat) (hj : j[pos]? = some i) (hx : nx[i]? = some x)
    (hp : xs[p]? = some x0) (hq : xs[q]? = some x1) (h0 : x0 < x) (h1 : x < x1)
    (hnb : ∀ y ∈ xs, y ≤ x0 ∨ x1 ≤ y) :
    r.vals.get j = a.vals.get (j.set pos p) +
      (x - x0) / (x1 - x0) * (a.vals.get (j.set pos q) - a.vals.get (j.set pos p)) := by
  obtain ⟨σ, hσ⟩ := sortsNodes_exists xs hnd
  rw [h.value σ hσ j i x hj hx]
  obtain ⟨u, hul, hnu, hfu⟩ := hσ.locate (fun p => a.vals.get (j.set pos p)) hp
  obtain ⟨v, hvl, hnv, hfv⟩ := hσ.locate (fun p => a.vals.get (j.set pos p)) hq
  have hinc := hσ.2
  obtain ⟨lu, eu⟩ := List.getElem?_eq_some_iff.mp hnu
  obtain ⟨lv, ev⟩ := List.getElem?_eq_some_iff.mp hnv
  -- `v` is the successor of `u` in the sorted order
  have huv : u < v := by
    rcases Nat.lt_or_ge u v with hlt | hge
    · exact hlt
    · exfalso
      have := pairwiseLt_le hinc lv lu hge
      rw [eu, ev] at this
      linarith
  have hv : v = u + 1 := by
    rcases Nat.lt_or_ge (u + 1) v with hlt | hge
    · exfalso
      have hl : u + 1 < (σ.map (fun p => xs.getD p 0)).length := by omega
      have ha := pairwiseLt_lt hinc lu hl (by omega)
      have hb := pairwiseLt_lt hinc hl lv hlt
      rw [eu] at ha
      rw [ev] at hb
      have hm : (σ.map (fun p => xs.getD p 0))[u + 1] ∈ xs := hσ.nodes_perm.mem_iff.mp (List.getElem_mem hl)
      rcases hnb _ hm with hc | hc <;> linarith
    · omega
  subst hv
  exact interpAt_between' _ _ default left right x u x0 x1 _ _ (by simp) hinc hnu hnv hfu hfv h0 h1

/-! ### bounds: between two neighbouring nodes the interpolant stays between the two node values -/

/-- a point of a chord lies between the end values -/
theorem chord_bounds (x x0 x1 y0 y1 : Rat) (h0 : x0 < x) (h1 : x < x1) :
    min y0 y1 ≤ y0 + (x - x0) / (x1 - x0) * (y1 - y0) ∧ y0 + (x - x0) / (x1 - x0) * (y1 - y0) ≤ max y0 y1 := by
  have hd : 0 < x1 - x0 := by linarith
  have ht0 : 0 < (x - x0) / (x1 - x0) := div_pos (by linarith) hd
  have ht1 : (x - x0) / (x1 - x0) < 1 := by
    rw [div_lt_iff₀ hd]; linarith
  generalize (x - x0) / (x1 - x0) = t at ht0 ht1
  rcases le_total y0 y1 with hy | hy
  · rw [min_eq_left hy, max_eq_right hy]
    constructor
    · nlinarith
    · nlinarith
  · rw [min_eq_right hy, max_eq_left hy]
    constructor
    · nlinarith
    · nlinarith

/-- **1-D bounds**: for `xs[j] < x < xs[j+1]` the interpolated value lies between `ys[j]` and `ys[j+1]`
(no overshoot) -/
theorem interpAt_between_bounds (xs ys : List Rat) (d left right x : Rat) (j : Nat) (hj : j + 1 < xs.length)
    (hlen : ys.length = xs.length) (hinc : StrictInc xs)
    (h0 : xs[j]'(by omega) < x) (h1 : x < xs[j + 1]) :
    min (ys[j]'(by omega)) (ys[j + 1]'(by omega)) ≤ interpAt linRat xs ys d left right x ∧
      interpAt linRat xs ys d left right x ≤ max (ys[j]'(by omega)) (ys[j + 1]'(by omega)) := by
  rw [interpAt_between xs ys d left right x j hj hlen hinc h0 h1]
  exact chord_bounds x _ _ _ _ h0 h1

/-- **1-D bounds, closed interval**: for `xs[j] ≤ x ≤ xs[j+1]` as well -/
theorem interpAt_segment_bounds (xs ys : List Rat) (d left right x : Rat) (j : Nat) (hj : j + 1 < xs.length)
    (hlen : ys.length = xs.length) (hinc : StrictInc xs)
    (h0 : xs[j]'(by omega) ≤ x) (h1 : x ≤ xs[j + 1]) :
    min (ys[j]'(by omega)) (ys[j + 1]'(by omega)) ≤ interpAt linRat xs ys d left right x ∧
      interpAt linRat xs ys d left right x ≤ max (ys[j]'(by omega)) (ys[j + 1]'(by omega)) := by
  rcases lt_or_eq_of_le h0 with h0' | h0'
  · rcases lt_or_eq_of_le h1 with h1' | h1'
    · exact interpAt_between_bounds xs ys d left right x j hj hlen hinc h0' h1'
    · subst h1'
      rw [interpAt_node xs ys d left right (j + 1) hj hlen hinc]
      exact ⟨min_le_right _ _, le_max_right _ _⟩
  · subst h0'
    rw [interpAt_node xs ys d left right j (by omega) hlen hinc]
    exact ⟨min_le_left _ _, le_max_left _ _⟩

/-- **N-d bounds, any stored order**: between two neighbouring labels the result lies between the two
original cells -/
theorem InterpolatesAlong.between_bounds {a r : DimArray Rat} {pos : Nat}
    {ax : Axis} {xs nx : List Rat} {nk : Kind} {left right : Rat}
    (h : InterpolatesAlong linRat a r pos ax xs nx nk left right) (hnd : xs.Nodup)
    (j : List Nat) (i p q : Nat) (x x0 x1 : Rat) (hj : j[pos]? = some i) (hx : nx[i]? = some x)
    (hp : xs[p]? = some x0) (hq : xs[q]? = some x1) (h0 : x0 < x) (h1 : x < x1)
    (hnb : ∀ y ∈ xs, y ≤ x0 ∨ x1 ≤ y) :
    min (a.vals.get (j.set pos p)) (a.vals.get (j.set pos q)) ≤ r.vals.get j ∧
      r.vals.get j ≤ max (a.vals.get (j.set pos p)) (a.vals.get (j.set pos q)) := by
  rw [h.between hnd j i p q x x0 x1 hj hx hp hq h0 h1 hnb]
  exact chord_bounds x x0 x1 _ _ h0 h1

/-! ### the stored order does not matter -/

/-- **order independence.** Permuting the stored order of the labels along the axis together with the data
slices (a positional take by any permutation `ps` of the positions) does not change the result of
`interp_axis` at all: same outcome, same axes, same shape, same metadata, same value function. -/
theorem interpAxis_order_independent {α : Type} [Inhabited α] (lin : α → α → Rat → α) (a : DimArray α) (k : DimKey)
    (pos : Nat) (ax : Axis) (xs nx : List Rat) (nk : Kind) (left right : α) (ps : List Nat)
    (hpos : axisPos a.axes k = .ok pos) (hax : a.axes[pos]? = some ax)
    (hxs : ax.labels = xs.map Label.num) (hne : xs ≠ []) (hnd : xs.Nodup)
    (hps : ps.Perm (List.range xs.length)) :
    interpAxis lin (takeAxisPos a pos ps) k (nx.map Label.num) nk left right =
      interpAxis lin a k (nx.map Label.num) nk left right := by
  have hlen : ps.length = xs.length := by simpa using hps.length_eq
  have hpos' : axisPos (takeAxisPos a pos ps).axes k = .ok pos := by
    rw [C17P.axisPos_congr _ _ k (takeAxisPos_names a pos ps)]; exact hpos
  have hax' : (takeAxisPos a pos ps).axes[pos]? = some (axisTake ax ps) := by
    rw [takeAxisPos_axes_getElem?, hax]; simp
  have hlab : (axisTake ax ps).labels = (ps.map (fun p => xs.getD p 0)).map Label.num := by
    show ps.map (fun p => ax.labels.getD p Label.none) = _
    rw [hxs]
    exact map_getD_num xs ps (fun p hp => by simpa using hps.mem_iff.mp hp)
  have hne' : ps.map (fun p => xs.getD p 0) ≠ [] := by
    intro he
    have : xs.length = 0 := by rw [← hlen, ← List.length_map (f := fun p => xs.getD p 0), he]; rfl
    exact hne (List.length_eq_zero_iff.mp this)
  rw [interpAxis_eq_core, interpAxis_eq_core, hpos, hpos']
  show interpCore lin (takeAxisPos a pos ps) pos _ nk left right = interpCore lin a pos _ nk left right
  rw [interpCore_closed lin a pos ax xs nx nk left right hax hxs hne,
    interpCore_closed lin (takeAxisPos a pos ps) pos (axisTake ax ps) _ nx nk left right hax' hlab hne']
  congr 1
  exact interpResult_perm lin a pos ax.name _ nk xs nx left right ps hnd hps

/-- distinctness of the labels is necessary: with a repeated label the result depends on which of the two
slices is stored first (as `numpy.interp`, whose result is undefined for non-increasing sample points) -/
theorem interpAxis_order_dependent_with_duplicates :
    let a : DimArray Rat := { axes := [{ name := "x", labels := [.num 1, .num 1], kind := .i }],
                              vals := { shape := [2], get := fun j => if j = [0] then 10 else 20 } }
    (interpAxis linRat a (.pos 0) [.num 1] .i 0 0).map (fun r => r.vals.get [0]) = .ok 20 ∧
    (interpAxis linRat (takeAxisPos a 0 [1, 0]) (.pos 0) [.num 1] .i 0 0).map (fun r => r.vals.get [0]) = .ok 10 := by
  constructor <;> rfl

/-! ### when `interp_axis` fails -/

/-- an empty axis cannot be interpolated (`numpy.interp`: "array of sample points is empty"): ValueError,
also when no coordinate is requested -/
theorem interpAxis_empty_axis {α : Type} [Inhabited α] (lin : α → α → Rat → α) (a : DimArray α) (k : DimKey)
    (pos : Nat) (ax : Axis) (nx : List Rat) (nk : Kind) (left right : α)
    (hpos : axisPos a.axes k = .ok pos) (hax : a.axes[pos]? = some ax) (hxs : ax.labels = []) :
    interpAxis lin a k (nx.map Label.num) nk left right = .error .value := by
  have hgetD : a.axes.getD pos default = ax := by
    rw [List.getD_eq_getElem?_getD, hax]; rfl
  rw [interpAxis_eq_core, hpos]
  show interpCore lin a pos (nx.map Label.num) nk left right = _
  unfold interpCore
  simp only [hgetD, hxs]
  have : isIncreasingEq ([] : List Label) = true := rfl
  simp only [this, if_true, hgetD, hxs, labelsToRat_num]
  rfl

/-- labels that are not numbers (on the axis or among the requested coordinates): TypeError (`numpy.interp`
cannot cast them to float) -/
theorem interpAxis_nonnumeric {α : Type} [Inhabited α] (lin : α → α → Rat → α) (a : DimArray α) (k : DimKey)
    (pos : Nat) (ax : Axis) (newL : List Label) (nk : Kind) (left right : α)
    (hpos : axisPos a.axes k = .ok pos) (hax : a.axes[pos]? = some ax)
    (hbad : (∃ l ∈ ax.labels, l.toRat? = none) ∨ (∃ l ∈ newL, l.toRat? = none)) :
    interpAxis lin a k newL nk left right = .error .type := by
  rw [interpAxis_eq_core, hpos]
  exact interpCore_nonnumeric lin a pos ax newL nk left right hax hbad

/-- an unknown axis: the error of the axis lookup (ValueError for a name, IndexError for a position) -/
theorem interpAxis_bad_axis {α : Type} [Inhabited α] (lin : α → α → Rat → α) (a : DimArray α) (k : DimKey)
    (newL : List Label) (nk : Kind) (left right : α) (e : Err) (hpos : axisPos a.axes k = .error e) :
    interpAxis lin a k newL nk left right = .error e := by
  rw [interpAxis_eq_core, hpos]; rfl

/-! ### non-vacuity: a 2 x 3 array whose interpolated axis is stored shuffled -/

/-- rows `a`, `b`; columns at `x = 3, 0, 1` (shuffled) holding `10 * x` (+ 100 in row `b`) -/
def interpExArr : DimArray Rat :=
  { axes := [{ name := "y", labels := [.str "a", .str "b"], kind := .U },
             { name := "x", labels := [.num 3, .num 0, .num 1], kind := .i }]
    vals := { shape := [2, 3]
              get := fun j => match j with
                | [0, c] => ([30, 0, 10] : List Rat).getD c 0
                | [1, c] => ([130, 100, 110] : List Rat).getD c 0
                | _ => 0 } }

/-- the hypotheses of `interpAxis_spec`, of the corollaries and of `interpAxis_order_independent` are
satisfiable together (axis in the middle of the name list given by name, new coordinates unsorted, below,
on, between and above the labels), and the theorems compute the expected cells -/
example : ∃ r, interpAxis linRat interpExArr (.name "x") ([-1, 2, 1, 1/2, 5].map Label.num) .f (-7) (-9) = .ok r ∧
    r.vals.shape = [2, 5] ∧
    r.vals.get [1, 0] = -7 ∧ r.vals.get [1, 1] = 120 ∧ r.vals.get [1, 2] = 110 ∧ r.vals.get [0, 3] = 5 ∧
    r.vals.get [0, 4] = -9 ∧
    interpAxis linRat (takeAxisPos interpExArr 1 [1, 2, 0]) (.name "x") ([-1, 2, 1, 1/2, 5].map Label.num) .f (-7) (-9) = .ok r := by
  have hwf : interpExArr.WF := by decide
  have hpos : axisPos interpExArr.axes (.name "x") = .ok 1 := by decide
  have hax : interpExArr.axes[1]? = some { name := "x", labels := [.num 3, .num 0, .num 1], kind := .i } := rfl
  have hnd : ([3, 0, 1] : List Rat).Nodup := by decide
  obtain ⟨r, hr, h⟩ := interpAxis_spec linRat interpExArr (.name "x") 1 _ [3, 0, 1] [-1, 2, 1, 1/2, 5] .f (-7) (-9)
    hwf hpos hax rfl (by decide) hnd
  refine ⟨r, hr, h.shape, ?_, ?_, ?_, ?_, ?_, ?_⟩
  · exact h.left_fill (by decide) hnd [1, 0] 0 (-1) rfl rfl (by decide)
  · rw [h.between hnd [1, 1] 1 2 0 2 1 3 rfl rfl rfl rfl (by decide) (by decide) (by decide)]
    show (110 : Rat) + (2 - 1) / (3 - 1) * (130 - 110) = 120
    norm_num
  · exact h.node hnd [1, 2] 2 2 1 rfl rfl rfl
  · rw [h.between hnd [0, 3] 3 1 2 (1/2) 0 1 rfl rfl rfl rfl (by norm_num) (by norm_num) (by decide)]
    show (0 : Rat) + (1/2 - 0) / (1 - 0) * (10 - 0) = 5
    norm_num
  · exact h.right_fill (by decide) hnd [0, 4] 4 5 rfl rfl (by decide)
  · rw [interpAxis_order_independent linRat interpExArr (.name "x") 1 _ [3, 0, 1] [-1, 2, 1, 1/2, 5] .f (-7) (-9) [1, 2, 0]
      hpos hax rfl (by decide) hnd (by decide)]
    exact hr

/-- the bounds theorems on concrete data: 1-D, and on the shuffled 2-D array (cell `[1, 1]`, new coordinate 2
between the labels 1 and 3 stored at positions 2 and 0: the result lies between the cells 110 and 130); the
value equation covers the in-range index `[1, 3]` and reads in-range cells only -/
example : (min 20 40 ≤ interpAt linRat [0, 2, 4] [10, 20, 40] 0 (-1) (-2) 3 ∧
      interpAt linRat [0, 2, 4] [10, 20, 40] 0 (-1) (-2) 3 ≤ max 20 40) ∧
    ∀ r, interpAxis linRat interpExArr (.name "x") ([-1, 2, 1, 1/2, 5].map Label.num) .f (-7) (-9) = .ok r →
      (min 110 130 ≤ r.vals.get [1, 1] ∧ r.vals.get [1, 1] ≤ max 110 130) ∧
      ∃ i x, ([1, 3] : List Nat)[1]? = some i ∧ ([-1, 2, 1, 1/2, 5] : List Rat)[i]? = some x ∧
        ∀ p, p < 3 → InRange interpExArr.vals.shape ([1, 3].set 1 p) := by
  have hinc : StrictInc [0, 2, 4] := by unfold StrictInc; decide
  refine ⟨interpAt_between_bounds [0, 2, 4] [10, 20, 40] 0 (-1) (-2) 3 1 (by decide) rfl hinc (by decide) (by decide), ?_⟩
  intro r hr
  have hwf : interpExArr.WF := by decide
  have hpos : axisPos interpExArr.axes (.name "x") = .ok 1 := by decide
  have hax : interpExArr.axes[1]? = some { name := "x", labels := [.num 3, .num 0, .num 1], kind := .i } := rfl
  have hnd : ([3, 0, 1] : List Rat).Nodup := by decide
  obtain ⟨r', hr', h⟩ := interpAxis_spec linRat interpExArr (.name "x") 1 _ [3, 0, 1] [-1, 2, 1, 1/2, 5] .f (-7) (-9)
    hwf hpos hax rfl (by decide) hnd
  rw [hr] at hr'
  injection hr' with hr'
  subst hr'
  refine ⟨?_, ?_⟩
  · exact h.between_bounds hnd [1, 1] 1 2 0 2 1 3 rfl rfl rfl rfl (by decide) (by decide) (by decide)
  · exact h.covers hwf hax rfl rfl [1, 3] (by rw [h.shape]; decide)

/-- the failure theorems on concrete data: an empty axis, string labels, an unknown dimension -/
example :
    interpAxis linRat ({ axes := [{ name := "x", labels := [], kind := .f }], vals := { shape := [0], get := fun _ => 0 } } : DimArray Rat)
      (.pos 0) ([1].map Label.num) .f 0 0 = .error .value ∧
    interpAxis linRat interpExArr (.name "y") ([1].map Label.num) .f 0 0 = .error .type ∧
    interpAxis linRat interpExArr (.name "z") ([1].map Label.num) .f 0 0 = .error .value := by
  refine ⟨?_, ?_, ?_⟩
  · exact interpAxis_empty_axis linRat _ (.pos 0) 0 _ [1] .f 0 0 (by decide) rfl rfl
  · exact interpAxis_nonnumeric linRat interpExArr (.name "y") 0 _ _ .f 0 0 (by decide) rfl
      (Or.inl ⟨.str "a", by decide, rfl⟩)
  · exact interpAxis_bad_axis linRat interpExArr (.name "z") _ .f 0 0 .value (by decide)

/-! ### successive interpolation along two dimensions (the step `interp_like` iterates; `interp_like` itself:
see the section on `Lib.interpLike` at the end of this file) -/

/-- interpolation does not rename any dimension -/
theorem InterpolatesAlong.names {α : Type} [Inhabited α] {lin : α → α → Rat → α} {a r : DimArray α} {pos : Nat}
    {ax : Axis} {xs nx : List Rat} {nk : Kind} {left right : α}
    (h : InterpolatesAlong lin a r pos ax xs nx nk left right) (hax : a.axes[pos]? = some ax) :
    r.axes.map (·.name) = a.axes.map (·.name) := by
  apply List.ext_getElem?
  intro i
  rw [List.getElem?_map, List.getElem?_map]
  by_cases hi : i = pos
  · subst hi
    rw [h.axis, hax]
    rfl
  · rw [h.others i hi]

/-- **two successive interpolations** along different dimensions (what `interp_like` does for every shared
dimension): if both axes of the input qualify, the second call succeeds on the result of the first, each step is a
per-fibre interpolation, both axes end up as requested and every other axis and the metadata are those of the
input -/
theorem interpAxis_successive {α : Type} [Inhabited α] (lin : α → α → Rat → α) (a : DimArray α)
    (k1 k2 : DimKey) (p1 p2 : Nat) (ax1 ax2 : Axis) (xs1 nx1 xs2 nx2 : List Rat) (nk1 nk2 : Kind) (left right : α)
    (hwf : a.WF) (hne12 : p1 ≠ p2)
    (hpos1 : axisPos a.axes k1 = .ok p1) (hax1 : a.axes[p1]? = some ax1)
    (hxs1 : ax1.labels = xs1.map Label.num) (hne1 : xs1 ≠ []) (hnd1 : xs1.Nodup)
    (hpos2 : axisPos a.axes k2 = .ok p2) (hax2 : a.axes[p2]? = some ax2)
    (hxs2 : ax2.labels = xs2.map Label.num) (hne2 : xs2 ≠ []) (hnd2 : xs2.Nodup) :
    ∃ r1 r2, interpAxis lin a k1 (nx1.map Label.num) nk1 left right = .ok r1 ∧
      interpAxis lin r1 k2 (nx2.map Label.num) nk2 left right = .ok r2 ∧
      InterpolatesAlong lin a r1 p1 ax1 xs1 nx1 nk1 left right ∧
      InterpolatesAlong lin r1 r2 p2 ax2 xs2 nx2 nk2 left right ∧
      r2.axes[p1]? = some { name := ax1.name, labels := nx1.map Label.num, kind := nk1 } ∧
      r2.axes[p2]? = some { name := ax2.name, labels := nx2.map Label.num, kind := nk2 } ∧
      (∀ i, i ≠ p1 → i ≠ p2 → r2.axes[i]? = a.axes[i]?) ∧ r2.attrs = a.attrs := by
  obtain ⟨r1, hr1, h1⟩ := interpAxis_spec lin a k1 p1 ax1 xs1 nx1 nk1 left right hwf hpos1 hax1 hxs1 hne1 hnd1
  have hpos2' : axisPos r1.axes k2 = .ok p2 := by
    rw [C17P.axisPos_congr _ _ k2 (h1.names hax1)]; exact hpos2
  have hax2' : r1.axes[p2]? = some ax2 := by rw [h1.others p2 (Ne.symm hne12)]; exact hax2
  obtain ⟨r2, hr2, h2⟩ := interpAxis_spec lin r1 k2 p2 ax2 xs2 nx2 nk2 left right h1.wf hpos2' hax2' hxs2 hne2 hnd2
  refine ⟨r1, r2, hr1, hr2, h1, h2, ?_, h2.axis, ?_, ?_⟩
  · rw [h2.others p1 hne12]; exact h1.axis
  · intro i hi1 hi2
    rw [h2.others i hi2, h1.others i hi1]
  · rw [h2.attrs, h1.attrs]

/-- a 2 x 3 array with two numeric axes, both stored out of order -/
def interpExArr2 : DimArray Rat :=
  { axes := [{ name := "y", labels := [.num 1, .num 0], kind := .i },
             { name := "x", labels := [.num 3, .num 0, .num 1], kind := .i }]
    vals := { shape := [2, 3]
              get := fun j => match j with
                | [0, c] => ([130, 100, 110] : List Rat).getD c 0
                | [1, c] => ([30, 0, 10] : List Rat).getD c 0
                | _ => 0 } }

/-- the hypotheses of `interpAxis_successive` are satisfiable (bilinear interpolation of a 2 x 3 table) -/
example : ∃ r1 r2, interpAxis linRat interpExArr2 (.name "x") ([2, 1/2].map Label.num) .f 0 0 = .ok r1 ∧
    interpAxis linRat r1 (.pos (-2)) ([1/2].map Label.num) .f 0 0 = .ok r2 ∧ r2.vals.shape = [1, 2] := by
  obtain ⟨r1, r2, h1, h2, -, hs2, -, -, -, -⟩ := interpAxis_successive linRat interpExArr2 (.name "x") (.pos (-2)) 1 0
    { name := "x", labels := [.num 3, .num 0, .num 1], kind := .i } { name := "y", labels := [.num 1, .num 0], kind := .i }
    [3, 0, 1] [2, 1/2] [1, 0] [1/2] .f .f 0 0 (by decide) (by decide) (by decide) rfl rfl (by decide) (by decide)
    (by decide) rfl rfl (by decide) (by decide)
  refine ⟨r1, r2, h1, h2, ?_⟩
  rw [hs2.shape]
  obtain ⟨r1', h1', hs1⟩ := interpAxis_spec linRat interpExArr2 (.name "x") 1 _ [3, 0, 1] [2, 1/2] .f 0 0
    (by decide) (by decide) rfl rfl (by decide) (by decide)
  rw [h1] at h1'
  injection h1' with h1'
  subst h1'
  rw [hs1.shape]
  rfl

/-! ## The Dataset variant

`Dataset.interp_axis` sorts the whole Dataset by ITS labels, computes the indices / weights once and applies
them to the raw values of every variable (`DSV.interpAxisDs`, a code path of its own).  It agrees with the
DimArray method variable by variable. -/

namespace DSV

/-- in a good Dataset every axis of the Dataset is a plain axis (it is the axis of some variable) -/
theorem GoodDs.plain {α} {ds : Ds α} (hg : GoodDs ds) {e : Axis} (he : e ∈ ds.axes) : e.members = [] := by
  obtain ⟨kv, hkv, hmem⟩ := hg.1.2.1 e he
  obtain ⟨a, ha, hn⟩ := List.mem_map.mp hmem
  have : a = e := mem_name_inj hg.1.2.2 (hg.2.1 kv hkv a ha) he hn
  rw [← this]
  exact (hg.2.2.2 kv hkv).2.2 a ha

/-- **`Dataset.interp_axis`, end to end.** On a good Dataset (shared axes, distinct keys, well-formed
variables) whose axis `name` has numeric labels `xs` stored in any order (at least one), for any new numeric
coordinates: the call succeeds; keys and Dataset metadata are kept; the Dataset's axis `name` is exactly the new
coordinates and its other axes are unchanged; every variable that has the dimension comes back EXACTLY as
`DimArray.interp_axis` of that variable (same axes, values, dtype kind, metadata), the others as they are; the
result is again a Dataset with shared axes. -/
theorem interpAxisDs_spec {α : Type} [Inhabited α] (lin : α → α → Rat → α) (ds : Ds α) (name : String) (ax : Axis)
    (xs nx : List Rat) (nk : Kind) (left right : α) (hg : GoodDs ds)
    (hfind : ds.axes.find? (fun a => a.name == name) = some ax)
    (hxs : ax.labels = xs.map Label.num) (hne : xs ≠ []) :
    ∃ out, interpAxisDs lin ds name (nx.map Label.num) nk left right = .ok out ∧
      out.keys = ds.keys ∧ out.attrs = ds.attrs ∧ SharedAxes out ∧ OwnAxes out ∧
      out.axes = ds.axes.map (fun e =>
        if e.name == name then { name := name, labels := nx.map Label.num, kind := nk } else e) ∧
      ∀ k v, (k, v) ∈ ds.vars → ∃ r, (k, r) ∈ out.vars ∧
        (name ∈ v.dims → interpAxis lin v (.name name) (nx.map Label.num) nk left right = .ok r) ∧
        (name ∉ v.dims → r = v) := by
  have hmem := find?_name_some hfind
  have hvd : ∀ kv ∈ ds.vars, kv.2.dims.Nodup := fun kv hkv => (hg.2.2.2 kv hkv).1
  have hcl := interpAxisDs_closed lin ds name ax xs nx nk left right hg.1 hg.2.1 hg.2.2.1 hvd hfind
    (hg.plain hmem.1) hxs hne
  obtain ⟨hs', hown'⟩ := interp_shared lin ds name nk (sortPos xs) xs nx left right hg.1 hg.2.1 hvd
  refine ⟨_, hcl, ?_, rfl, hs', hown', rfl, ?_⟩
  · simp only [Ds.keys, List.map_map]
    rfl
  · intro k v hkv
    refine ⟨interpVar lin name nk (sortPos xs) xs nx left right v, ?_, ?_, ?_⟩
    · exact List.mem_map_of_mem (f := fun kv => (kv.1, interpVar lin name nk (sortPos xs) xs nx left right kv.2)) hkv
    · intro hin
      have hlt : v.dims.idxOf name < v.dims.length := List.idxOf_lt_length_iff.2 hin
      have hlt' : v.dims.idxOf name < v.axes.length := by simpa [DimArray.dims] using hlt
      have hax := axes_getD_idxOf v name hin
      have haxe : v.axes.getD (v.dims.idxOf name) default = ax := hg.axis_eq hfind hkv _ hax.1 hax.2
      have hax' : v.axes[v.dims.idxOf name]? = some ax := by
        rw [← haxe, List.getD_eq_getElem?_getD, List.getElem?_eq_getElem hlt']; rfl
      rw [interpAxis_eq_core, axisPos_name v name hin]
      show interpCore lin v (v.dims.idxOf name) (nx.map Label.num) nk left right = _
      rw [interpCore_closed lin v _ ax xs nx nk left right hax' hxs hne, hmem.2]
      unfold interpVar
      rw [if_pos hlt]
    · intro hnot
      unfold interpVar
      rw [if_neg (fun hlt => hnot (List.idxOf_lt_length_iff.1 hlt))]

/-- `Dataset.interp_axis` on an unknown dimension: ValueError, as the DimArray method given a name -/
theorem interpAxisDs_bad_axis {α : Type} [Inhabited α] (lin : α → α → Rat → α) (ds : Ds α) (name : String)
    (newL : List Label) (nk : Kind) (left right : α) (h : name ∉ ds.dims) :
    interpAxisDs lin ds name newL nk left right = .error .value := by
  unfold interpAxisDs
  rw [find?_name_none h]

/-- hence every variable of the result that has the dimension satisfies the per-fibre specification
`InterpolatesAlong` (exact at the nodes, fills, chord between neighbours, whatever the stored order) -/
theorem interpAxisDs_interpolates {α : Type} [Inhabited α] (lin : α → α → Rat → α) (ds out : Ds α) (name : String)
    (ax : Axis) (xs nx : List Rat) (nk : Kind) (left right : α) (hg : GoodDs ds)
    (hfind : ds.axes.find? (fun a => a.name == name) = some ax)
    (hxs : ax.labels = xs.map Label.num) (hne : xs ≠ []) (hnd : xs.Nodup)
    (h : interpAxisDs lin ds name (nx.map Label.num) nk left right = .ok out)
    (k : String) (v : DimArray α) (hkv : (k, v) ∈ ds.vars) (hwf : v.WF) (hin : name ∈ v.dims) :
    ∃ r, (k, r) ∈ out.vars ∧ InterpolatesAlong lin v r (v.dims.idxOf name) ax xs nx nk left right := by
  obtain ⟨out', hout', -, -, -, -, -, hv⟩ := interpAxisDs_spec lin ds name ax xs nx nk left right hg hfind hxs hne
  rw [h] at hout'
  injection hout' with hout'
  subst hout'
  obtain ⟨r, hr, hyes, -⟩ := hv k v hkv
  refine ⟨r, hr, ?_⟩
  have hlt : v.dims.idxOf name < v.axes.length := by
    simpa [DimArray.dims] using (List.idxOf_lt_length_iff.2 hin : v.dims.idxOf name < v.dims.length)
  have hax := axes_getD_idxOf v name hin
  have haxe : v.axes.getD (v.dims.idxOf name) default = ax := hg.axis_eq hfind hkv _ hax.1 hax.2
  have hax' : v.axes[v.dims.idxOf name]? = some ax := by
    rw [← haxe, List.getD_eq_getElem?_getD, List.getElem?_eq_getElem hlt]; rfl
  obtain ⟨r', hr', hspec⟩ := interpAxis_spec lin v (.name name) _ ax xs nx nk left right hwf
    (axisPos_name v name hin) hax' hxs hne hnd
  rw [hyes hin] at hr'
  injection hr' with hr'
  rw [hr']
  exact hspec

/-- non-vacuity on the concrete Dataset of C14 (`x` stored as 10, 30, 20; `a` over (x, y), `b` over (y) only):
`interp_axis([15, 10, 99], axis="x")` succeeds, `b` comes back as it is, `a` as `a.interp_axis(...)` -/
example : ∃ out, interpAxisDs (fun a _ _ => a) exDs "x" ([15, 10, 99].map Label.num) .f 0 0 = .ok out ∧
    out.keys = ["a", "b"] ∧ ("b", exB) ∈ out.vars ∧
    ∃ r, ("a", r) ∈ out.vars ∧
      interpAxis (fun a _ _ => a) exA (.name "x") ([15, 10, 99].map Label.num) .f 0 0 = .ok r := by
  have hfind : exDs.axes.find? (fun a => a.name == "x") = some exX := by simp [exDs, exX]
  obtain ⟨out, hout, h1, -, -, -, -, h5⟩ :=
    interpAxisDs_spec (fun a _ _ => a) exDs "x" exX [10, 30, 20] [15, 10, 99] .f 0 0 exDs_good hfind rfl (by simp)
  refine ⟨out, hout, h1, ?_, ?_⟩
  · obtain ⟨r, hr, _, hnot⟩ := h5 "b" exB (by simp [exDs])
    rw [hnot (by simp [exB, DimArray.dims, exY])] at hr
    exact hr
  · obtain ⟨r, hr, hin, _⟩ := h5 "a" exA (by simp [exDs])
    exact ⟨r, hr, hin (by simp [exA, DimArray.dims, exX])⟩

end DSV

/-! ## `interp_like`

`interp_like(other, left, right)` (`Lib.interpLike`, mirror of core/transform.py) walks over the array's OWN axes in
their stored order and calls `interp_axis` by name along every dimension whose name the template has, with that
template axis' labels as new coordinates and the same two fills every time. -/

open C18L

/-- the dimensions an array shares with a template, in the order of the array's axes: position, the array's axis,
the template's (first) axis of that name -/
def sharedAxes (axes tmpl : List Axis) : List (Nat × Axis × Axis) :=
  axes.zipIdx.filterMap fun e => (tmpl.find? (·.name == e.1.name)).map fun t => (e.2, e.1, t)

/-- what the list contains: exactly the positions whose axis name the template has, each once, in increasing order
of position (`sharedAxes_positions`) -/
theorem mem_sharedAxes (axes tmpl : List Axis) (p : Nat) (ax t : Axis) :
    (p, ax, t) ∈ sharedAxes axes tmpl ↔ axes[p]? = some ax ∧ tmpl.find? (·.name == ax.name) = some t := by
  unfold sharedAxes
  rw [List.mem_filterMap]
  constructor
  · rintro ⟨⟨ax', p'⟩, hmem, heq⟩
    rw [List.mem_zipIdx_iff_getElem?] at hmem
    simp only at hmem heq
    cases hf : tmpl.find? (·.name == ax'.name) with
    | none => rw [hf] at heq; cases heq
    | some t' =>
      rw [hf] at heq
      simp only [Option.map_some, Option.some.injEq, Prod.mk.injEq] at heq
      obtain ⟨rfl, rfl, rfl⟩ := heq
      exact ⟨hmem, hf⟩
  · rintro ⟨hax, hf⟩
    refine ⟨(ax, p), ?_, ?_⟩
    · rw [List.mem_zipIdx_iff_getElem?]; exact hax
    · simp only [hf, Option.map_some]

theorem sharedAxes_positions (axes tmpl : List Axis) :
    ((sharedAxes axes tmpl).map (·.1)).Pairwise (· < ·) := by
  have key : ∀ (l : List Axis) (n : Nat), ((sharedFrom n l tmpl).map (·.1)).Pairwise (· < ·) ∧
      ∀ q ∈ (sharedFrom n l tmpl).map (·.1), n ≤ q := by
    intro l
    induction l with
    | nil => intro n; exact ⟨List.Pairwise.nil, fun q hq => by simp [sharedFrom] at hq⟩
    | cons ax l ih =>
      intro n
      obtain ⟨h1, h2⟩ := ih (n + 1)
      cases hf : tmpl.find? (·.name == ax.name) with
      | none =>
        rw [sharedFrom_cons_none n ax l tmpl hf]
        exact ⟨h1, fun q hq => by have := h2 q hq; omega⟩
      | some t =>
        rw [sharedFrom_cons_some n ax t l tmpl hf, List.map_cons]
        refine ⟨List.pairwise_cons.mpr ⟨fun q hq => by have := h2 q hq; omega, h1⟩, ?_⟩
        intro q hq
        rcases List.mem_cons.mp hq with rfl | hq
        · exact Nat.le_refl _
        · have := h2 q hq; omega
  exact (key axes 0).1

/-- **`interp_like` is successive `interp_axis`**, by name, along the shared dimensions only, in the order of the
array's axes (an unconditional equation: same result, same error) -/
theorem interpLike_eq_successive {α : Type} [Inhabited α] (lin : α → α → Rat → α) (a : DimArray α) (tmpl : List Axis)
    (left right : α) :
    interpLike lin a tmpl left right =
      (sharedAxes a.axes tmpl).foldlM
        (fun o e => interpAxis lin o (.name e.2.1.name) e.2.2.labels e.2.2.kind left right) a :=
  interpLike_fold lin tmpl left right a.axes 0 a

/-- no shared dimension: the array itself -/
theorem interpLike_no_shared {α : Type} [Inhabited α] (lin : α → α → Rat → α) (a : DimArray α) (tmpl : List Axis)
    (left right : α) (h : ∀ ax ∈ a.axes, tmpl.find? (·.name == ax.name) = none) :
    interpLike lin a tmpl left right = .ok a := by
  rw [interpLike_eq_successive]
  have : sharedAxes a.axes tmpl = [] := by
    unfold sharedAxes
    rw [List.filterMap_eq_nil_iff]
    intro e he
    have hm : e.1 ∈ a.axes := by
      have := List.mem_map_of_mem (f := fun e : Axis × Nat => e.1) he
      rwa [zipIdx_map_fst] at this
    rw [h e.1 hm]; rfl
  rw [this]; rfl

/-- one shared dimension: `interp_axis` along it -/
theorem interpLike_one {α : Type} [Inhabited α] (lin : α → α → Rat → α) (a : DimArray α) (tmpl : List Axis)
    (left right : α) (p : Nat) (ax t : Axis) (h : sharedAxes a.axes tmpl = [(p, ax, t)]) :
    interpLike lin a tmpl left right = interpAxis lin a (.name ax.name) t.labels t.kind left right := by
  rw [interpLike_eq_successive, h]
  simp only [List.foldlM_cons, List.foldlM_nil]
  cases interpAxis lin a (.name ax.name) t.labels t.kind left right <;> rfl

/-- the axis of the result for an axis of the array: the template's labels (and their dtype kind) under the array's
name where the template has the name, the array's axis itself where it has not -/
def likeAxis (tmpl : List Axis) (ax : Axis) : Axis :=
  match tmpl.find? (·.name == ax.name) with
  | some t => { name := ax.name, labels := t.labels, kind := t.kind }
  | none => ax

/-- `r` is reached from `a` by interpolating along the listed shared dimensions one after the other: every step is a
successful `interp_axis` call by name, on the result of the previous one, that satisfies the per-fibre specification
`InterpolatesAlong` for the numeric labels `xs` of the array's axis and the numeric labels `nx` of the template's -/
inductive InterpChain {α : Type} [Inhabited α] (lin : α → α → Rat → α) (left right : α) :
    List (Nat × Axis × Axis) → DimArray α → DimArray α → Prop
  | nil (a : DimArray α) : InterpChain lin left right [] a a
  | cons {p : Nat} {ax t : Axis} {xs nx : List Rat} {a r1 r : DimArray α} {rest : List (Nat × Axis × Axis)}
      (hxs : ax.labels = xs.map Label.num) (hnx : t.labels = nx.map Label.num)
      (hcall : interpAxis lin a (.name ax.name) t.labels t.kind left right = .ok r1)
      (hstep : InterpolatesAlong lin a r1 p ax xs nx t.kind left right)
      (hrest : InterpChain lin left right rest r1 r) :
      InterpChain lin left right ((p, ax, t) :: rest) a r

/-- the axes of an `InterpolatesAlong` result as a list -/
theorem InterpolatesAlong.axes_eq {α : Type} [Inhabited α] {lin : α → α → Rat → α} {a r : DimArray α} {pos : Nat}
    {ax : Axis} {xs nx : List Rat} {nk : Kind} {left right : α}
    (h : InterpolatesAlong lin a r pos ax xs nx nk left right) :
    r.axes = a.axes.set pos { name := ax.name, labels := nx.map Label.num, kind := nk } := by
  apply List.ext_getElem?
  intro i
  by_cases hi : i = pos
  · subst hi
    rw [h.axis]
    have hlt : i < a.axes.length := by
      rw [← h.ndim]
      exact (List.getElem?_eq_some_iff.mp h.axis).1
    rw [List.getElem?_set_self hlt]
  · rw [h.others i hi, List.getElem?_set_ne (Ne.symm hi)]

/-- the loop of `interp_like` from the `n`-th axis on, the axes before `n` being done -/
private theorem interpLike_suffix {α : Type} [Inhabited α] (lin : α → α → Rat → α) (tmpl : List Axis) (left right : α) :
    ∀ (l : List Axis) (n : Nat) (obj : DimArray α), obj.WF → obj.axes.drop n = l →
      (∀ ax ∈ l, ∀ t, tmpl.find? (·.name == ax.name) = some t →
        ∃ xs nx : List Rat, ax.labels = xs.map Label.num ∧ xs ≠ [] ∧ xs.Nodup ∧ t.labels = nx.map Label.num) →
      ∃ r, l.foldlM (interpLikeStep lin tmpl left right) obj = .ok r ∧
        InterpChain lin left right (sharedFrom n l tmpl) obj r ∧ r.WF ∧ r.attrs = obj.attrs ∧
        r.axes = obj.axes.take n ++ l.map (likeAxis tmpl) ∧
        (sharedFrom n l tmpl = [] → r = obj) ∧ (sharedFrom n l tmpl ≠ [] → r.vkind = Kind.f) := by
  intro l
  induction l with
  | nil =>
    intro n obj _ hdrop _
    refine ⟨obj, rfl, InterpChain.nil obj, ‹_›, rfl, ?_, fun _ => rfl, fun h => absurd rfl h⟩
    rw [List.map_nil, List.append_nil]
    have : obj.axes.length ≤ n := by
      rcases Nat.lt_or_ge n obj.axes.length with h | h
      · have := congrArg List.length hdrop
        simp at this; omega
      · exact h
    rw [List.take_of_length_le this]
  | cons ax l ih =>
    intro n obj hwf hdrop hnum
    obtain ⟨hlt, hax, hdrop'⟩ := drop_eq_cons hdrop
    have htake : obj.axes.take (n + 1) = obj.axes.take n ++ [ax] := by
      rw [List.take_add_one, hax]; rfl
    rw [List.foldlM_cons]
    cases hf : tmpl.find? (·.name == ax.name) with
    | none =>
      have hstep : interpLikeStep lin tmpl left right obj ax = .ok obj := by
        unfold interpLikeStep; rw [hf]; rfl
      rw [hstep]
      obtain ⟨r, hr, hch, hrwf, hat, haxes, hnil, hvk⟩ :=
        ih (n + 1) obj hwf hdrop' (fun a ha => hnum a (List.mem_cons_of_mem _ ha))
      have hlike : likeAxis tmpl ax = ax := by unfold likeAxis; rw [hf]
      rw [sharedFrom_cons_none n ax l tmpl hf]
      refine ⟨r, hr, hch, hrwf, hat, ?_, hnil, hvk⟩
      rw [haxes, htake, List.map_cons, hlike, List.append_assoc]; rfl
    | some t =>
      obtain ⟨xs, nx, hxs, hne, hnd, hnx⟩ := hnum ax (by simp) t hf
      have hpos : axisPos obj.axes (.name ax.name) = .ok n := axisPos_name_at hwf.2.1 hax
      obtain ⟨r1, hr1, h1⟩ := interpAxis_spec lin obj (.name ax.name) n ax xs nx t.kind left right hwf hpos hax hxs hne hnd
      have hcall : interpAxis lin obj (.name ax.name) t.labels t.kind left right = .ok r1 := by rw [hnx]; exact hr1
      have hstep : interpLikeStep lin tmpl left right obj ax = .ok r1 := by
        unfold interpLikeStep; rw [hf]; exact hcall
      rw [hstep]
      have hdrop1 : r1.axes.drop (n + 1) = l := by rw [h1.axes_eq, drop_succ_set]; exact hdrop'
      obtain ⟨r, hr, hch, hrwf, hat, haxes, hnil, hvk⟩ :=
        ih (n + 1) r1 h1.wf hdrop1 (fun a ha => hnum a (List.mem_cons_of_mem _ ha))
      have hlike : likeAxis tmpl ax = { name := ax.name, labels := nx.map Label.num, kind := t.kind } := by
        unfold likeAxis; rw [hf]; simp only [hnx]
      rw [sharedFrom_cons_some n ax t l tmpl hf]
      refine ⟨r, hr, InterpChain.cons hxs hnx hcall h1 hch, hrwf, hat.trans h1.attrs, ?_, (fun h => by cases h), fun _ => ?_⟩
      · rw [haxes, h1.axes_eq, take_succ_set _ _ _ hlt, List.map_cons, hlike, List.append_assoc]; rfl
      · by_cases hrest : sharedFrom (n + 1) l tmpl = []
        · rw [hnil hrest]; exact h1.vkind
        · exact hvk hrest

/-- **`interp_like`, end to end.** On a well-formed array, every dimension of which that the template shares has
distinct numeric labels (at least one, stored in any order) and numeric template labels (any, possibly none): the
call succeeds; the result is reached by interpolating successively along every shared dimension in the order of the
array's axes, each step satisfying `InterpolatesAlong` (`InterpChain`); the metadata are the array's; the axes of the
result are the array's axes, those the template shares carrying exactly the template's labels and label kind under
the array's name, the others untouched; without a shared dimension the result is the array itself, otherwise it is a
float array. -/
theorem interpLike_spec {α : Type} [Inhabited α] (lin : α → α → Rat → α) (a : DimArray α) (tmpl : List Axis)
    (left right : α) (hwf : a.WF)
    (hnum : ∀ ax ∈ a.axes, ∀ t, tmpl.find? (·.name == ax.name) = some t →
      ∃ xs nx : List Rat, ax.labels = xs.map Label.num ∧ xs ≠ [] ∧ xs.Nodup ∧ t.labels = nx.map Label.num) :
    ∃ r, interpLike lin a tmpl left right = .ok r ∧
      InterpChain lin left right (sharedAxes a.axes tmpl) a r ∧ r.WF ∧ r.attrs = a.attrs ∧
      r.axes = a.axes.map (likeAxis tmpl) ∧
      (sharedAxes a.axes tmpl = [] → r = a) ∧ (sharedAxes a.axes tmpl ≠ [] → r.vkind = Kind.f) := by
  obtain ⟨r, hr, hch, hrwf, hat, haxes, hnil, hvk⟩ :=
    interpLike_suffix lin tmpl left right a.axes 0 a hwf rfl hnum
  exact ⟨r, hr, hch, hrwf, hat, by simpa using haxes, hnil, hvk⟩

/-- the axes of the result, one by one: a shared dimension carries exactly the template's labels, a dimension the
template does not have is untouched -/
theorem interpLike_axes {α : Type} [Inhabited α] (lin : α → α → Rat → α) (a r : DimArray α) (tmpl : List Axis)
    (left right : α) (hwf : a.WF)
    (hnum : ∀ ax ∈ a.axes, ∀ t, tmpl.find? (·.name == ax.name) = some t →
      ∃ xs nx : List Rat, ax.labels = xs.map Label.num ∧ xs ≠ [] ∧ xs.Nodup ∧ t.labels = nx.map Label.num)
    (h : interpLike lin a tmpl left right = .ok r) (i : Nat) (ax : Axis) (hax : a.axes[i]? = some ax) :
    (∀ t, tmpl.find? (·.name == ax.name) = some t →
      r.axes[i]? = some { name := ax.name, labels := t.labels, kind := t.kind }) ∧
    (tmpl.find? (·.name == ax.name) = none → r.axes[i]? = some ax) := by
  obtain ⟨r', hr', -, -, -, haxes, -, -⟩ := interpLike_spec lin a tmpl left right hwf hnum
  rw [h] at hr'
  injection hr' with hr'
  subst hr'
  rw [haxes, List.getElem?_map, hax]
  constructor
  · intro t ht
    simp only [Option.map_some, likeAxis, ht]
  · intro hn
    simp only [Option.map_some, likeAxis, hn]

/-- whenever `interp_like` succeeds (no hypothesis on the labels) the array's metadata are kept; the metadata of the
axes follow from `interpLike_axes`: a shared axis is a NEW axis (`Axis(values, name)`, no metadata, as for
`interp_axis`: C16 `interpAxis_axis_attrs`), the other axes are untouched -/
theorem interpLike_attrs {α : Type} [Inhabited α] (lin : α → α → Rat → α) (a r : DimArray α) (tmpl : List Axis)
    (left right : α) (h : interpLike lin a tmpl left right = .ok r) : r.attrs = a.attrs := by
  have key : ∀ (l : List Axis) (obj : DimArray α),
      l.foldlM (interpLikeStep lin tmpl left right) obj = .ok r → r.attrs = obj.attrs := by
    intro l
    induction l with
    | nil =>
      intro obj h
      simp only [List.foldlM_nil, pure, Except.pure] at h
      injection h with h
      rw [h]
    | cons ax l ih =>
      intro obj h
      rw [List.foldlM_cons] at h
      cases hs : interpLikeStep lin tmpl left right obj ax with
      | error e => rw [hs] at h; cases h
      | ok o =>
        rw [hs] at h
        have ho : o.attrs = obj.attrs := by
          unfold interpLikeStep at hs
          cases hf : tmpl.find? (·.name == ax.name) with
          | none =>
            rw [hf] at hs
            simp only [pure, Except.pure] at hs
            injection hs with hs
            rw [hs]
          | some t =>
            rw [hf] at hs
            exact (C16.interpAxis_spec lin obj o (.name ax.name) t.labels t.kind left right hs).1
        exact (ih o h).trans ho
  exact key a.axes a h

/-- a shared dimension whose labels are not numbers (the array's or the template's), met first: TypeError -/
theorem interpLike_first_nonnumeric {α : Type} [Inhabited α] (lin : α → α → Rat → α) (a : DimArray α)
    (tmpl : List Axis) (left right : α) (p : Nat) (ax t : Axis) (rest : List (Nat × Axis × Axis))
    (hnames : (a.axes.map (·.name)).Nodup) (hsh : sharedAxes a.axes tmpl = (p, ax, t) :: rest)
    (hbad : (∃ l ∈ ax.labels, l.toRat? = none) ∨ (∃ l ∈ t.labels, l.toRat? = none)) :
    interpLike lin a tmpl left right = .error .type := by
  have hmem : (p, ax, t) ∈ sharedAxes a.axes tmpl := by rw [hsh]; simp
  obtain ⟨hax, -⟩ := (mem_sharedAxes a.axes tmpl p ax t).mp hmem
  rw [interpLike_eq_successive, hsh, List.foldlM_cons]
  rw [interpAxis_nonnumeric lin a (.name ax.name) p ax t.labels t.kind left right (axisPos_name_at hnames hax) hax hbad]
  rfl

/-- **two shared dimensions: bilinear interpolation as a composition.** If the array shares exactly the dimensions
at `p1 < p2` with the template, `interp_like` is `interp_axis` along `p1` followed by `interp_axis` along `p2`; both
steps are per-fibre interpolations, and every cell of the result is the 1-D kernel along `p2` applied to the values
that the 1-D kernel along `p1` yields on the fibres through the cells of that `p2`-fibre (both read in sorted-label
order, whatever the stored orders). -/
theorem interpLike_two {α : Type} [Inhabited α] (lin : α → α → Rat → α) (a : DimArray α) (tmpl : List Axis)
    (left right : α) (p1 p2 : Nat) (ax1 ax2 t1 t2 : Axis) (xs1 nx1 xs2 nx2 : List Rat)
    (hwf : a.WF) (hsh : sharedAxes a.axes tmpl = [(p1, ax1, t1), (p2, ax2, t2)])
    (hxs1 : ax1.labels = xs1.map Label.num) (hne1 : xs1 ≠ []) (hnd1 : xs1.Nodup) (hnx1 : t1.labels = nx1.map Label.num)
    (hxs2 : ax2.labels = xs2.map Label.num) (hne2 : xs2 ≠ []) (hnd2 : xs2.Nodup) (hnx2 : t2.labels = nx2.map Label.num) :
    ∃ r1 r, interpAxis lin a (.name ax1.name) t1.labels t1.kind left right = .ok r1 ∧
      interpAxis lin r1 (.name ax2.name) t2.labels t2.kind left right = .ok r ∧
      interpLike lin a tmpl left right = .ok r ∧
      InterpolatesAlong lin a r1 p1 ax1 xs1 nx1 t1.kind left right ∧
      InterpolatesAlong lin r1 r p2 ax2 xs2 nx2 t2.kind left right ∧
      ∀ σ1 σ2, SortsNodes xs1 σ1 → SortsNodes xs2 σ2 →
        ∀ (j : List Nat) (i1 i2 : Nat) (x1 x2 : Rat), j[p1]? = some i1 → j[p2]? = some i2 →
          nx1[i1]? = some x1 → nx2[i2]? = some x2 →
          r.vals.get j =
            interpAt lin (σ2.map (fun q => xs2.getD q 0))
              (σ2.map (fun q =>
                interpAt lin (σ1.map (fun p => xs1.getD p 0))
                  (σ1.map (fun p => a.vals.get ((j.set p2 q).set p1 p))) default left right x1))
              default left right x2 := by
  have hm1 : (p1, ax1, t1) ∈ sharedAxes a.axes tmpl := by rw [hsh]; simp
  have hm2 : (p2, ax2, t2) ∈ sharedAxes a.axes tmpl := by rw [hsh]; simp
  obtain ⟨hax1, -⟩ := (mem_sharedAxes a.axes tmpl p1 ax1 t1).mp hm1
  obtain ⟨hax2, -⟩ := (mem_sharedAxes a.axes tmpl p2 ax2 t2).mp hm2
  have hlt : p1 < p2 := by
    have := sharedAxes_positions a.axes tmpl
    rw [hsh] at this
    simpa using this
  obtain ⟨r1, r, hr1, hr2, h1, h2, -, -, -, -⟩ := interpAxis_successive lin a (.name ax1.name) (.name ax2.name) p1 p2
    ax1 ax2 xs1 nx1 xs2 nx2 t1.kind t2.kind left right hwf (by omega)
    (axisPos_name_at hwf.2.1 hax1) hax1 hxs1 hne1 hnd1 (axisPos_name_at hwf.2.1 hax2) hax2 hxs2 hne2 hnd2
  rw [← hnx1] at hr1
  rw [← hnx2] at hr2
  refine ⟨r1, r, hr1, hr2, ?_, h1, h2, ?_⟩
  · rw [interpLike_eq_successive, hsh]
    simp only [List.foldlM_cons, List.foldlM_nil, hr1, bind, Except.bind, hr2]
    rfl
  · intro σ1 σ2 hσ1 hσ2 j i1 i2 x1 x2 hj1 hj2 hx1 hx2
    rw [h2.value σ2 hσ2 j i2 x2 hj2 hx2]
    congr 1
    apply List.map_congr_left
    intro q _
    have hj1' : (j.set p2 q)[p1]? = some i1 := by
      rw [List.getElem?_set_ne (by omega)]; exact hj1
    exact h1.value σ1 hσ1 (j.set p2 q) i1 x1 hj1' hx1

/-! ### the order of the two interpolations -/

/-- **order independence (bilinear interpolation).** Over the rationals with `linRat`, for an array that shares
exactly two dimensions with the template: interpolating along the second one first gives the same axes, shape and
metadata as `interp_like`, and the same value in every cell - except, when the two fills differ, in the cells whose
two new coordinates are BOTH out of range on OPPOSITE sides (below all labels of one dimension and above all labels
of the other), where each order returns the fill of the dimension it interpolates last
(`interpLike_order_dependent_corner`).  In particular the order never matters for in-range coordinates, when only one
coordinate is out of range, or when `left = right`. -/
theorem interpLike_order_independent (a : DimArray Rat) (tmpl : List Axis) (left right : Rat) (p1 p2 : Nat)
    (ax1 ax2 t1 t2 : Axis) (xs1 nx1 xs2 nx2 : List Rat)
    (hwf : a.WF) (hsh : sharedAxes a.axes tmpl = [(p1, ax1, t1), (p2, ax2, t2)])
    (hxs1 : ax1.labels = xs1.map Label.num) (hne1 : xs1 ≠ []) (hnd1 : xs1.Nodup) (hnx1 : t1.labels = nx1.map Label.num)
    (hxs2 : ax2.labels = xs2.map Label.num) (hne2 : xs2 ≠ []) (hnd2 : xs2.Nodup) (hnx2 : t2.labels = nx2.map Label.num) :
    ∃ r r2 r', interpLike linRat a tmpl left right = .ok r ∧
      interpAxis linRat a (.name ax2.name) t2.labels t2.kind left right = .ok r2 ∧
      interpAxis linRat r2 (.name ax1.name) t1.labels t1.kind left right = .ok r' ∧
      r'.axes = r.axes ∧ r'.vals.shape = r.vals.shape ∧ r'.attrs = r.attrs ∧ r'.vkind = r.vkind ∧
      ∀ (j : List Nat) (i1 i2 : Nat) (x1 x2 : Rat), j[p1]? = some i1 → j[p2]? = some i2 →
        nx1[i1]? = some x1 → nx2[i2]? = some x2 →
        ((∀ y ∈ xs1, x1 < y) → (∀ y ∈ xs2, y < x2) → left = right) →
        ((∀ y ∈ xs1, y < x1) → (∀ y ∈ xs2, x2 < y) → left = right) →
        r'.vals.get j = r.vals.get j := by
  have hm1 : (p1, ax1, t1) ∈ sharedAxes a.axes tmpl := by rw [hsh]; simp
  have hm2 : (p2, ax2, t2) ∈ sharedAxes a.axes tmpl := by rw [hsh]; simp
  obtain ⟨hax1, -⟩ := (mem_sharedAxes a.axes tmpl p1 ax1 t1).mp hm1
  obtain ⟨hax2, -⟩ := (mem_sharedAxes a.axes tmpl p2 ax2 t2).mp hm2
  have hlt : p1 < p2 := by
    have := sharedAxes_positions a.axes tmpl
    rw [hsh] at this
    simpa using this
  have hk1 := axisPos_name_at hwf.2.1 hax1
  have hk2 := axisPos_name_at hwf.2.1 hax2
  obtain ⟨r1, r, hr1, hr, h1, h2, ha1, ha2, hao, hat⟩ := interpAxis_successive linRat a (.name ax1.name) (.name ax2.name)
    p1 p2 ax1 ax2 xs1 nx1 xs2 nx2 t1.kind t2.kind left right hwf (by omega) hk1 hax1 hxs1 hne1 hnd1 hk2 hax2 hxs2 hne2 hnd2
  obtain ⟨r2, r', hr2, hr', g2, g1, hb2, hb1, hbo, hbt⟩ := interpAxis_successive linRat a (.name ax2.name) (.name ax1.name)
    p2 p1 ax2 ax1 xs2 nx2 xs1 nx1 t2.kind t1.kind left right hwf (by omega) hk2 hax2 hxs2 hne2 hnd2 hk1 hax1 hxs1 hne1 hnd1
  rw [← hnx1] at hr1 hr'
  rw [← hnx2] at hr hr2
  refine ⟨r, r2, r', ?_, hr2, hr', ?_, ?_, hbt.trans hat.symm, g1.vkind.trans h2.vkind.symm, ?_⟩
  · rw [interpLike_eq_successive, hsh]
    simp only [List.foldlM_cons, List.foldlM_nil, hr1, bind, Except.bind, hr]
    rfl
  · apply List.ext_getElem?
    intro i
    by_cases hi1 : i = p1
    · subst hi1; rw [hb1, ha1]
    · by_cases hi2 : i = p2
      · subst hi2; rw [hb2, ha2]
      · rw [hbo i hi2 hi1, hao i hi1 hi2]
  · rw [g1.shape, g2.shape, h2.shape, h1.shape]
    exact List.set_comm _ _ (by omega)
  · intro j i1 i2 x1 x2 hj1 hj2 hx1 hx2 hc1 hc2
    obtain ⟨σ1, hσ1⟩ := sortsNodes_exists xs1 hnd1
    obtain ⟨σ2, hσ2⟩ := sortsNodes_exists xs2 hnd2
    -- the two compositions
    have e12 : r.vals.get j =
        interpAt linRat (σ2.map (fun q => xs2.getD q 0))
          (σ2.map (fun q => interpAt linRat (σ1.map (fun p => xs1.getD p 0))
            (σ1.map (fun p => a.vals.get ((j.set p1 p).set p2 q))) default left right x1)) default left right x2 := by
      rw [h2.value σ2 hσ2 j i2 x2 hj2 hx2]
      congr 1
      apply List.map_congr_left
      intro q _
      have hj1' : (j.set p2 q)[p1]? = some i1 := by rw [List.getElem?_set_ne (by omega)]; exact hj1
      rw [h1.value σ1 hσ1 (j.set p2 q) i1 x1 hj1' hx1]
      congr 1
      apply List.map_congr_left
      intro p _
      rw [List.set_comm _ _ (by omega : p2 ≠ p1)]
    have e21 : r'.vals.get j =
        interpAt linRat (σ1.map (fun p => xs1.getD p 0))
          (σ1.map (fun p => interpAt linRat (σ2.map (fun q => xs2.getD q 0))
            (σ2.map (fun q => a.vals.get ((j.set p1 p).set p2 q))) default left right x2)) default left right x1 := by
      rw [g1.value σ1 hσ1 j i1 x1 hj1 hx1]
      congr 1
      apply List.map_congr_left
      intro p _
      have hj2' : (j.set p1 p)[p2]? = some i2 := by rw [List.getElem?_set_ne (by omega)]; exact hj2
      exact g2.value σ2 hσ2 (j.set p1 p) i2 x2 hj2' hx2
    rw [e12, e21]
    -- heads and lasts of the sorted nodes
    have hS1 : σ1.map (fun p => xs1.getD p 0) ≠ [] := by
      intro he
      have := hσ1.nodes_perm
      rw [he] at this
      exact hne1 this.symm.eq_nil
    have hS2 : σ2.map (fun q => xs2.getD q 0) ≠ [] := by
      intro he
      have := hσ2.nodes_perm
      rw [he] at this
      exact hne2 this.symm.eq_nil
    have hlo1 := List.head?_eq_some_head hS1
    have hhi1 := List.getLast?_eq_some_getLast hS1
    have hlo2 := List.head?_eq_some_head hS2
    have hhi2 := List.getLast?_eq_some_getLast hS2
    symm
    apply interpAt_comm (σ1.map (fun p => xs1.getD p 0)) (σ2.map (fun q => xs2.getD q 0)) σ1 σ2
      (fun p q => a.vals.get ((j.set p1 p).set p2 q)) default left right x1 x2 _ _ _ _
      (by simp) (by simp) hlo1 hhi1 hlo2 hhi2
    · intro hx1lo _ hx2hi
      apply hc1
      · intro y hy
        exact lt_of_lt_of_le hx1lo (head_le_of_mem hσ1.2 hlo1 (hσ1.nodes_perm.mem_iff.mpr hy))
      · intro y hy
        exact lt_of_le_of_lt (le_last_of_mem hσ2.2 hhi2 (hσ2.nodes_perm.mem_iff.mpr hy)) hx2hi
    · intro _ hx1hi hx2lo
      apply hc2
      · intro y hy
        exact lt_of_le_of_lt (le_last_of_mem hσ1.2 hhi1 (hσ1.nodes_perm.mem_iff.mpr hy)) hx1hi
      · intro y hy
        exact lt_of_lt_of_le hx2lo (head_le_of_mem hσ2.2 hlo2 (hσ2.nodes_perm.mem_iff.mpr hy))

/-- a 2 x 2 table over `y = 0, 1` (rows) and `x = 0, 1` (columns) -/
def interpExCorner : DimArray Rat :=
  { axes := [{ name := "y", labels := [.num 0, .num 1], kind := .f }, { name := "x", labels := [.num 0, .num 1], kind := .f }]
    vals := { shape := [2, 2], get := fun j => match j with
      | [0, 0] => 1 | [0, 1] => 2 | [1, 0] => 3 | [1, 1] => 4 | _ => 0 } }

/-- the exception is real: at a corner cell (new `y = 2` above every label, new `x = -1` below every label) with fills
`left = 5 ≠ right = 7`, `interp_like` (`y` first, then `x`) returns the left fill of the dimension interpolated last,
the other order the right fill -/
theorem interpLike_order_dependent_corner :
    let tmpl : List Axis := [{ name := "x", labels := [.num (-1)], kind := .f }, { name := "y", labels := [.num 2], kind := .f }]
    (interpLike linRat interpExCorner tmpl 5 7).map (fun r => r.vals.get [0, 0]) = .ok 5 ∧
    ((interpAxis linRat interpExCorner (.name "x") [.num (-1)] .f 5 7).bind fun r2 =>
        interpAxis linRat r2 (.name "y") [.num 2] .f 5 7).map (fun r => r.vals.get [0, 0]) = .ok 7 := by
  constructor <;> rfl

/-- non-vacuity of `interpLike_spec`, `interpLike_two` and `interpLike_order_independent`: the 2 x 3 table
`interpExArr2` (`y` stored 1, 0; `x` stored 3, 0, 1; cell = 100 y + 10 x) and a template listing `x`, `y` in the other
order plus a dimension `z` the array does not have; the bilinear value at `y = 1/2`, `x = 2` is 70 -/
example :
    let tmpl : List Axis := [{ name := "x", labels := [.num 2, .num (1/2)], kind := .f },
                             { name := "z", labels := [.num 7], kind := .i },
                             { name := "y", labels := [.num (1/2)], kind := .f }]
    ∃ r, interpLike linRat interpExArr2 tmpl (-7) (-9) = .ok r ∧ r.dims = ["y", "x"] ∧ r.vals.shape = [1, 2] ∧
      r.vals.get [0, 0] = 70 ∧
      ∃ r2 r', interpAxis linRat interpExArr2 (.name "x") [.num 2, .num (1/2)] .f (-7) (-9) = .ok r2 ∧
        interpAxis linRat r2 (.name "y") [.num (1/2)] .f (-7) (-9) = .ok r' ∧ r'.vals.get [0, 0] = r.vals.get [0, 0] := by
  intro tmpl
  have hwf : interpExArr2.WF := by decide
  have hsh : sharedAxes interpExArr2.axes tmpl =
      [(0, { name := "y", labels := [.num 1, .num 0], kind := .i }, { name := "y", labels := [.num (1/2)], kind := .f }),
       (1, { name := "x", labels := [.num 3, .num 0, .num 1], kind := .i },
           { name := "x", labels := [.num 2, .num (1/2)], kind := .f })] := by decide +kernel
  obtain ⟨r1, r, -, -, hr, h1, h2, hval⟩ := interpLike_two linRat interpExArr2 tmpl (-7) (-9) 0 1 _ _ _ _
    [1, 0] [1/2] [3, 0, 1] [2, 1/2] hwf hsh rfl (by decide) (by decide) rfl rfl (by decide) (by decide) rfl
  obtain ⟨r₀, r2, r', hr₀, hr2, hr', -, -, -, -, hcell⟩ := interpLike_order_independent interpExArr2 tmpl (-7) (-9) 0 1 _ _ _ _
    [1, 0] [1/2] [3, 0, 1] [2, 1/2] hwf hsh rfl (by decide) (by decide) rfl rfl (by decide) (by decide) rfl
  rw [hr] at hr₀
  injection hr₀ with hr₀
  subst hr₀
  have hnum : ∀ ax ∈ interpExArr2.axes, ∀ t, tmpl.find? (·.name == ax.name) = some t →
      ∃ xs nx : List Rat, ax.labels = xs.map Label.num ∧ xs ≠ [] ∧ xs.Nodup ∧ t.labels = nx.map Label.num := by
    intro ax hax t ht
    simp only [interpExArr2, List.mem_cons, List.not_mem_nil, or_false] at hax
    rcases hax with rfl | rfl
    · have h : tmpl.find? (fun e => e.name == "y") = some { name := "y", labels := [.num (1/2)], kind := .f } := by decide +kernel
      rw [h] at ht; injection ht with ht; subst ht
      exact ⟨[1, 0], [1/2], rfl, by decide, by decide, rfl⟩
    · have h : tmpl.find? (fun e => e.name == "x") = some { name := "x", labels := [.num 2, .num (1/2)], kind := .f } := by decide +kernel
      rw [h] at ht; injection ht with ht; subst ht
      exact ⟨[3, 0, 1], [2, 1/2], rfl, by decide, by decide, rfl⟩
  obtain ⟨rs, hrs, -, -, -, haxes, -, -⟩ := interpLike_spec linRat interpExArr2 tmpl (-7) (-9) hwf hnum
  rw [hr] at hrs
  injection hrs with hrs
  subst hrs
  refine ⟨r, hr, ?_, ?_, ?_, r2, r', hr2, hr', ?_⟩
  · show r.axes.map (·.name) = _
    rw [haxes]; rfl
  · rw [h2.shape, h1.shape]; rfl
  · rw [hval [1, 0] [1, 2, 0] ⟨by decide, by unfold StrictInc; decide⟩ ⟨by decide, by unfold StrictInc; decide⟩
      [0, 0] 0 0 (1/2) 2 rfl rfl rfl rfl]
    decide +kernel
  · exact hcell [0, 0] 0 0 (1/2) 2 rfl rfl rfl rfl
      (fun h => absurd (h 0 (by simp)) (by norm_num)) (fun h => absurd (h 1 (by simp)) (by norm_num))

/-! ## `Dataset.interp_like`

`Dataset.interp_like(other, left, right)` (`DSV.interpLikeDs`) is the same loop on a Dataset: it walks over the
DATASET's axes in the order the Dataset holds them and calls `Dataset.interp_axis` by name along every dimension the
template has.  Every variable therefore comes back interpolated along those of these dimensions that it has, in the
Dataset's order - which is `interp_like` of the variable itself whenever the variable lists its dimensions in the
Dataset's order (`DSV.interpLikeDs_spec`); for a variable stored the other way round the two differ in the corner
cells of `interpLike_order_dependent_corner` when the fills differ, and only there
(`interpLike_order_independent`). -/

/-- `interp_axis`, by name and one after the other, along those of the listed dimension names that the array has and
the template shares -/
def interpAlong {α : Type} [Inhabited α] (lin : α → α → Rat → α) (tmpl : List Axis) (left right : α)
    (names : List String) (v : DimArray α) : Except Err (DimArray α) :=
  (names.filter (fun s => decide (s ∈ v.dims))).foldlM (fun o s =>
    match tmpl.find? (·.name == s) with
    | some t => interpAxis lin o (.name s) t.labels t.kind left right
    | none => pure o) v

/-- `interp_like` of an array is `interpAlong` its own dimension names -/
theorem interpLike_eq_interpAlong {α : Type} [Inhabited α] (lin : α → α → Rat → α) (v : DimArray α) (tmpl : List Axis)
    (left right : α) : interpLike lin v tmpl left right = interpAlong lin tmpl left right v.dims v := by
  unfold interpAlong
  have : v.dims.filter (fun s => decide (s ∈ v.dims)) = v.dims := by
    rw [List.filter_eq_self]; intro s hs; simpa using hs
  rw [this]
  show v.axes.foldlM (interpLikeStep lin tmpl left right) v = (v.axes.map (·.name)).foldlM _ v
  rw [foldlM_map']
  congr 1

/-- a list of names in which the array's dimensions appear in the array's own order (as a subsequence): the same -/
theorem interpAlong_of_sublist {α : Type} [Inhabited α] (lin : α → α → Rat → α) (v : DimArray α) (tmpl : List Axis)
    (left right : α) (names : List String) (hsub : v.dims.Sublist names) (hnd : names.Nodup) :
    interpAlong lin tmpl left right names v = interpLike lin v tmpl left right := by
  rw [interpLike_eq_interpAlong]
  unfold interpAlong
  rw [filter_mem_of_sublist hsub hnd]
  have : v.dims.filter (fun s => decide (s ∈ v.dims)) = v.dims := by
    rw [List.filter_eq_self]; intro s hs; simpa using hs
  rw [this]

namespace DSV

/-- two entries of a variable list with distinct keys that carry the same key are the same entry -/
theorem vars_key_inj {α : Type} {vars : List (String × DimArray α)} (hk : (vars.map (·.1)).Nodup) {k : String}
    {r r' : DimArray α} (h : (k, r) ∈ vars) (h' : (k, r') ∈ vars) : r = r' := by
  induction vars with
  | nil => cases h
  | cons kv vars ih =>
    rw [List.map_cons, List.nodup_cons] at hk
    rcases List.mem_cons.mp h with e | hm
    · rcases List.mem_cons.mp h' with e' | hm'
      · rw [← e'] at e; exact (Prod.mk.inj e).2
      · exact absurd (List.mem_map_of_mem (f := (·.1)) hm') (by have := hk.1; rw [← e] at this; exact this)
    · rcases List.mem_cons.mp h' with e' | hm'
      · exact absurd (List.mem_map_of_mem (f := (·.1)) hm) (by have := hk.1; rw [← e'] at this; exact this)
      · exact ih hk.2 hm hm'

/-- a variable of a good Dataset whose dimension names are non-empty is a well-formed array -/
theorem GoodDs.var_wf {α : Type} {ds : Ds α} (hg : GoodDs ds) (hnames : ∀ e ∈ ds.axes, e.name ≠ "") {k : String}
    {v : DimArray α} (hkv : (k, v) ∈ ds.vars) : v.WF :=
  ⟨(hg.2.2.2 (k, v) hkv).2.1, (hg.2.2.2 (k, v) hkv).1, fun ax hax => hnames ax (hg.2.1 (k, v) hkv ax hax)⟩

/-- `Dataset.interp_axis` seen from one variable that has the dimension: the variable of the result is
`DimArray.interp_axis` of the variable and satisfies the per-fibre specification -/
theorem interpAxisDs_var {α : Type} [Inhabited α] (lin : α → α → Rat → α) (ds out : Ds α) (name : String)
    (ax : Axis) (xs nx : List Rat) (nk : Kind) (left right : α) (hg : GoodDs ds)
    (hfind : ds.axes.find? (fun a => a.name == name) = some ax)
    (hxs : ax.labels = xs.map Label.num) (hne : xs ≠ []) (hnd : xs.Nodup)
    (h : interpAxisDs lin ds name (nx.map Label.num) nk left right = .ok out)
    (k : String) (v : DimArray α) (hkv : (k, v) ∈ ds.vars) (hwf : v.WF) (hin : name ∈ v.dims) :
    ∃ r, (k, r) ∈ out.vars ∧ interpAxis lin v (.name name) (nx.map Label.num) nk left right = .ok r ∧
      InterpolatesAlong lin v r (v.dims.idxOf name) ax xs nx nk left right := by
  obtain ⟨out', hout', -, -, -, -, -, hv⟩ := interpAxisDs_spec lin ds name ax xs nx nk left right hg hfind hxs hne
  rw [h] at hout'
  injection hout' with hout'
  subst hout'
  obtain ⟨r, hr, hyes, -⟩ := hv k v hkv
  refine ⟨r, hr, hyes hin, ?_⟩
  have hlt : v.dims.idxOf name < v.axes.length := by
    simpa [DimArray.dims] using (List.idxOf_lt_length_iff.2 hin : v.dims.idxOf name < v.dims.length)
  have hax := axes_getD_idxOf v name hin
  have haxe : v.axes.getD (v.dims.idxOf name) default = ax := hg.axis_eq hfind hkv _ hax.1 hax.2
  have hax' : v.axes[v.dims.idxOf name]? = some ax := by
    rw [← haxe, List.getD_eq_getElem?_getD, List.getElem?_eq_getElem hlt]; rfl
  obtain ⟨r', hr', hspec⟩ := interpAxis_spec lin v (.name name) _ ax xs nx nk left right hwf
    (axisPos_name v name hin) hax' hxs hne hnd
  rw [hyes hin] at hr'
  injection hr' with hr'
  rw [hr']
  exact hspec

/-- replacing, in a list of axes with distinct names, every axis that carries the name of the axis at position `n`
is setting position `n` -/
theorem map_repl_eq_set {axes : List Axis} (hnd : (axes.map (·.name)).Nodup) {n : Nat} {ax : Axis}
    (hax : axes[n]? = some ax) (c : Axis) :
    axes.map (fun e => if e.name == ax.name then c else e) = axes.set n c := by
  obtain ⟨hl, he⟩ := List.getElem?_eq_some_iff.mp hax
  apply List.ext_getElem?
  intro i
  rw [List.getElem?_map]
  by_cases hi : i = n
  · subst hi
    rw [hax, List.getElem?_set_self hl]
    simp
  · rw [List.getElem?_set_ne (Ne.symm hi)]
    cases hq : axes[i]? with
    | none => rfl
    | some e =>
      obtain ⟨hil, hie⟩ := List.getElem?_eq_some_iff.mp hq
      have hne : e.name ≠ ax.name := by
        intro hn
        apply hi
        have h1 : (axes.map (·.name))[i]'(by simpa using hil) = (axes.map (·.name))[n]'(by simpa using hl) := by
          simp [hie, he, hn]
        have hp := List.pairwise_iff_getElem.mp hnd
        rcases Nat.lt_trichotomy i n with hlt | heq | hgt
        · exact absurd h1 (hp i n (by simpa using hil) (by simpa using hl) hlt)
        · exact heq
        · exact absurd h1.symm (hp n i (by simpa using hl) (by simpa using hil) hgt)
      simp [hne]

/-- `Dataset.interp_axis` keeps a good Dataset good (and the dimension names as they are) -/
theorem interpAxisDs_good {α : Type} [Inhabited α] (lin : α → α → Rat → α) (ds out : Ds α) (name : String)
    (ax : Axis) (xs nx : List Rat) (nk : Kind) (left right : α) (hg : GoodDs ds) (hnames : ∀ e ∈ ds.axes, e.name ≠ "")
    (hfind : ds.axes.find? (fun a => a.name == name) = some ax)
    (hxs : ax.labels = xs.map Label.num) (hne : xs ≠ []) (hnd : xs.Nodup)
    (h : interpAxisDs lin ds name (nx.map Label.num) nk left right = .ok out) :
    GoodDs out ∧ (∀ e ∈ out.axes, e.name ≠ "") := by
  obtain ⟨out', hout', hkeys, -, hsh, hown, haxes, hv⟩ :=
    interpAxisDs_spec lin ds name ax xs nx nk left right hg hfind hxs hne
  rw [h] at hout'
  injection hout' with hout'
  subst hout'
  have hname := (find?_name_some hfind).2
  have hnames' : ∀ e ∈ out.axes, e.name ≠ "" := by
    intro e he
    rw [haxes] at he
    obtain ⟨e0, he0, rfl⟩ := List.mem_map.mp he
    by_cases hc : (e0.name == name) = true
    · rw [if_pos hc]
      show name ≠ ""
      rw [← hname]
      exact hnames ax (find?_name_some hfind).1
    · rw [if_neg hc]; exact hnames e0 he0
  have hk' : out.keys.Nodup := by rw [hkeys]; exact hg.2.2.1
  refine ⟨⟨hsh, hown, hk', ?_⟩, hnames'⟩
  rintro ⟨k, r⟩ hkr
  -- the variable of the input with this key
  have hkin : k ∈ ds.keys := by rw [← hkeys]; exact List.mem_map_of_mem (f := (·.1)) hkr
  obtain ⟨⟨k', v⟩, hkv, hk'v⟩ := List.mem_map.mp hkin
  simp only at hk'v
  subst hk'v
  by_cases hin : name ∈ v.dims
  · obtain ⟨r', hr', -, hspec⟩ := interpAxisDs_var lin ds out name ax xs nx nk left right hg hfind hxs hne hnd h
      k' v hkv (hg.var_wf hnames hkv) hin
    have : r = r' := vars_key_inj hk' hkr hr'
    subst this
    refine ⟨hspec.wf.2.1, hspec.wf.1, ?_⟩
    intro e he
    rw [hspec.axes_eq] at he
    rcases List.mem_or_eq_of_mem_set he with he | rfl
    · exact (hg.2.2.2 (k', v) hkv).2.2 e he
    · rfl
  · obtain ⟨r', hr', -, hno⟩ := hv k' v hkv
    have : r = r' := vars_key_inj hk' hkr hr'
    subst this
    rw [hno hin]
    exact hg.2.2.2 (k', v) hkv

/-- the loop of `Dataset.interp_like` from the `n`-th axis of the Dataset on -/
private theorem interpLikeDs_suffix {α : Type} [Inhabited α] (lin : α → α → Rat → α) (tmpl : List Axis) (left right : α) :
    ∀ (l : List Axis) (n : Nat) (obj : Ds α), GoodDs obj → (∀ e ∈ obj.axes, e.name ≠ "") → obj.axes.drop n = l →
      (∀ ax ∈ l, ∀ t, tmpl.find? (·.name == ax.name) = some t →
        ∃ xs nx : List Rat, ax.labels = xs.map Label.num ∧ xs ≠ [] ∧ xs.Nodup ∧ t.labels = nx.map Label.num) →
      ∃ out, l.foldlM (interpLikeDsStep lin tmpl left right) obj = .ok out ∧ out.keys = obj.keys ∧
        out.attrs = obj.attrs ∧ GoodDs out ∧ out.axes = obj.axes.take n ++ l.map (likeAxis tmpl) ∧
        ∀ k v, (k, v) ∈ obj.vars → ∃ r, (k, r) ∈ out.vars ∧
          interpAlong lin tmpl left right (l.map (·.name)) v = .ok r := by
  intro l
  induction l with
  | nil =>
    intro n obj hg _ hdrop _
    refine ⟨obj, rfl, rfl, rfl, hg, ?_, fun k v hkv => ⟨v, hkv, rfl⟩⟩
    rw [List.map_nil, List.append_nil]
    have : obj.axes.length ≤ n := by
      rcases Nat.lt_or_ge n obj.axes.length with h | h
      · have := congrArg List.length hdrop
        simp at this; omega
      · exact h
    rw [List.take_of_length_le this]
  | cons ax l ih =>
    intro n obj hg hnames hdrop hnum
    obtain ⟨hlt, hax, hdrop'⟩ := drop_eq_cons hdrop
    have htake : obj.axes.take (n + 1) = obj.axes.take n ++ [ax] := by
      rw [List.take_add_one, hax]; rfl
    have hmem : ax ∈ obj.axes := List.mem_of_getElem? hax
    have hdn : (obj.axes.map (·.name)).Nodup := hg.1.2.2
    rw [List.foldlM_cons]
    cases hf : tmpl.find? (·.name == ax.name) with
    | none =>
      have hstep : interpLikeDsStep lin tmpl left right obj ax = .ok obj := by
        unfold interpLikeDsStep; rw [hf]; rfl
      rw [hstep]
      obtain ⟨out, hout, hkeys, hat, hgo, haxes, hvars⟩ :=
        ih (n + 1) obj hg hnames hdrop' (fun a ha => hnum a (List.mem_cons_of_mem _ ha))
      have hlike : likeAxis tmpl ax = ax := by unfold likeAxis; rw [hf]
      refine ⟨out, hout, hkeys, hat, hgo, ?_, ?_⟩
      · rw [haxes, htake, List.map_cons, hlike, List.append_assoc]; rfl
      · intro k v hkv
        obtain ⟨r, hr, hal⟩ := hvars k v hkv
        refine ⟨r, hr, ?_⟩
        unfold interpAlong at hal ⊢
        rw [List.map_cons, List.filter_cons]
        split
        · rw [List.foldlM_cons, hf]
          exact hal
        · exact hal
    | some t =>
      obtain ⟨xs, nx, hxs, hne, hnd, hnx⟩ := hnum ax (by simp) t hf
      have hfind : obj.axes.find? (fun e => e.name == ax.name) = some ax := find?_name_of_mem hdn hmem
      obtain ⟨out1, hout1, hkeys1, hat1, -, -, haxes1, hv1⟩ :=
        interpAxisDs_spec lin obj ax.name ax xs nx t.kind left right hg hfind hxs hne
      have hcall : interpAxisDs lin obj ax.name t.labels t.kind left right = .ok out1 := by rw [hnx]; exact hout1
      have hstep : interpLikeDsStep lin tmpl left right obj ax = .ok out1 := by
        unfold interpLikeDsStep; rw [hf]; exact hcall
      rw [hstep]
      obtain ⟨hg1, hnames1⟩ := interpAxisDs_good lin obj out1 ax.name ax xs nx t.kind left right hg hnames hfind
        hxs hne hnd hout1
      have haxes1' : out1.axes = obj.axes.set n { name := ax.name, labels := nx.map Label.num, kind := t.kind } := by
        rw [haxes1]; exact map_repl_eq_set hdn hax _
      have hdrop1 : out1.axes.drop (n + 1) = l := by rw [haxes1', drop_succ_set]; exact hdrop'
      obtain ⟨out, hout, hkeys, hat, hgo, haxes, hvars⟩ :=
        ih (n + 1) out1 hg1 hnames1 hdrop1 (fun a ha => hnum a (List.mem_cons_of_mem _ ha))
      have hlike : likeAxis tmpl ax = { name := ax.name, labels := nx.map Label.num, kind := t.kind } := by
        unfold likeAxis; rw [hf]; simp only [hnx]
      refine ⟨out, hout, hkeys.trans hkeys1, hat.trans hat1, hgo, ?_, ?_⟩
      · rw [haxes, haxes1', take_succ_set _ _ _ hlt, List.map_cons, hlike, List.append_assoc]; rfl
      · intro k v hkv
        by_cases hin : ax.name ∈ v.dims
        · obtain ⟨r1, hr1, hcall1, hspec⟩ := interpAxisDs_var lin obj out1 ax.name ax xs nx t.kind left right hg hfind
            hxs hne hnd hout1 k v hkv (hg.var_wf hnames hkv) hin
          obtain ⟨r, hr, hal⟩ := hvars k r1 hr1
          refine ⟨r, hr, ?_⟩
          have hax' : v.axes[v.dims.idxOf ax.name]? = some ax := by
            have := hspec.axis
            have hl : v.dims.idxOf ax.name < v.axes.length := by
              rw [← hspec.ndim]; exact (List.getElem?_eq_some_iff.mp this).1
            have h2 := axes_getD_idxOf v ax.name hin
            have h3 : v.axes.getD (v.dims.idxOf ax.name) default = ax := hg.axis_eq hfind hkv _ h2.1 h2.2
            have h4 : v.axes[v.dims.idxOf ax.name]? = some (v.axes.getD (v.dims.idxOf ax.name) default) := by
              rw [List.getD_eq_getElem?_getD, List.getElem?_eq_getElem hl]; rfl
            rw [h3] at h4
            exact h4
          have hdims : r1.dims = v.dims := hspec.names hax'
          unfold interpAlong at hal ⊢
          rw [hdims] at hal
          rw [List.map_cons, List.filter_cons, if_pos (by simpa using hin), List.foldlM_cons, hf]
          simp only
          rw [hnx, hcall1]
          exact hal
        · obtain ⟨r1, hr1, -, hno⟩ := hv1 k v hkv
          rw [hno hin] at hr1
          obtain ⟨r, hr, hal⟩ := hvars k v hr1
          refine ⟨r, hr, ?_⟩
          unfold interpAlong at hal ⊢
          rw [List.map_cons, List.filter_cons, if_neg (by simpa using hin)]
          exact hal

/-- **`Dataset.interp_like`, end to end.** On a good Dataset (shared axes, distinct keys, well-formed variables) with
non-empty dimension names, every dimension of which that the template shares has distinct numeric labels (at least
one, any stored order) and numeric template labels: the call succeeds; keys and Dataset metadata are kept; the result
is again a good Dataset; its axes are the Dataset's axes, the shared ones carrying exactly the template's labels;
every variable comes back as `interp_axis` applied successively along those of the DATASET's dimensions (in the
Dataset's order) that the variable has and the template shares (`interpAlong`) - hence unchanged when it shares
no dimension with the template, and EXACTLY `interp_like` of that variable when its dimensions appear in the
Dataset's order (as a subsequence of the Dataset's dimensions). -/
theorem interpLikeDs_spec {α : Type} [Inhabited α] (lin : α → α → Rat → α) (ds : Ds α) (tmpl : List Axis)
    (left right : α) (hg : GoodDs ds) (hnames : ∀ e ∈ ds.axes, e.name ≠ "")
    (hnum : ∀ ax ∈ ds.axes, ∀ t, tmpl.find? (·.name == ax.name) = some t →
      ∃ xs nx : List Rat, ax.labels = xs.map Label.num ∧ xs ≠ [] ∧ xs.Nodup ∧ t.labels = nx.map Label.num) :
    ∃ out, interpLikeDs lin ds tmpl left right = .ok out ∧ out.keys = ds.keys ∧ out.attrs = ds.attrs ∧ GoodDs out ∧
      out.axes = ds.axes.map (likeAxis tmpl) ∧
      ∀ k v, (k, v) ∈ ds.vars → ∃ r, (k, r) ∈ out.vars ∧
        interpAlong lin tmpl left right ds.dims v = .ok r ∧
        ((∀ s ∈ v.dims, tmpl.find? (·.name == s) = none) → r = v) ∧
        (v.dims.Sublist ds.dims → interpLike lin v tmpl left right = .ok r) := by
  obtain ⟨out, hout, hkeys, hat, hgo, haxes, hvars⟩ :=
    interpLikeDs_suffix lin tmpl left right ds.axes 0 ds hg hnames rfl hnum
  refine ⟨out, hout, hkeys, hat, hgo, by simpa using haxes, ?_⟩
  intro k v hkv
  obtain ⟨r, hr, hal⟩ := hvars k v hkv
  refine ⟨r, hr, hal, ?_, ?_⟩
  · intro hnone
    have hall : ∀ (names : List String) (o : DimArray α), (∀ s ∈ names, tmpl.find? (·.name == s) = none) →
        names.foldlM (fun o s => match tmpl.find? (·.name == s) with
          | some t => interpAxis lin o (.name s) t.labels t.kind left right
          | none => pure o) o = .ok o := by
      intro names
      induction names with
      | nil => intro o _; rfl
      | cons s names ih =>
        intro o hs
        rw [List.foldlM_cons, hs s (by simp)]
        exact ih o (fun s' hs' => hs s' (List.mem_cons_of_mem _ hs'))
    unfold interpAlong at hal
    rw [hall _ v (fun s hs => hnone s (by simpa using (List.mem_filter.mp hs).2))] at hal
    injection hal with hal
    exact hal.symm
  · intro hsub
    rw [← interpAlong_of_sublist lin v tmpl left right ds.dims hsub hg.1.2.2]
    exact hal

/-- a template without any of the Dataset's dimensions: the Dataset itself -/
theorem interpLikeDs_no_shared {α : Type} [Inhabited α] (lin : α → α → Rat → α) (ds : Ds α) (tmpl : List Axis)
    (left right : α) (h : ∀ ax ∈ ds.axes, tmpl.find? (·.name == ax.name) = none) :
    interpLikeDs lin ds tmpl left right = .ok ds := by
  unfold interpLikeDs
  rw [interpLikeDs_fold lin tmpl left right ds.axes 0 ds]
  have : sharedFrom 0 ds.axes tmpl = [] := by
    unfold sharedFrom
    rw [List.filterMap_eq_nil_iff]
    intro e he
    have hm : e.1 ∈ ds.axes := by
      have := List.mem_map_of_mem (f := fun e : Axis × Nat => e.1) he
      rwa [zipIdx_map_fst] at this
    rw [h e.1 hm]; rfl
  rw [this]; rfl

/-- non-vacuity of `interpLikeDs_spec` on the concrete Dataset of C14 (`x` stored 10, 30, 20; `a` over (x, y), `b`
over (y) only) and a template over (y, x, z): the call succeeds, both variables list their dimensions in the
Dataset's order, so both come back as `interp_like` of the variable -/
example :
    let tmpl : List Axis := [{ name := "y", labels := [.num 1], kind := .i },
                             { name := "x", labels := [.num 15, .num 10, .num 99], kind := .f },
                             { name := "z", labels := [.num 0], kind := .i }]
    ∃ out, interpLikeDs (fun a _ _ => a) exDs tmpl 0 0 = .ok out ∧ out.keys = ["a", "b"] ∧ out.dims = ["x", "y"] ∧
      (∃ r, ("a", r) ∈ out.vars ∧ interpLike (fun a _ _ => a) exA tmpl 0 0 = .ok r) ∧
      (∃ r, ("b", r) ∈ out.vars ∧ interpLike (fun a _ _ => a) exB tmpl 0 0 = .ok r) := by
  intro tmpl
  have hnum : ∀ ax ∈ exDs.axes, ∀ t, tmpl.find? (·.name == ax.name) = some t →
      ∃ xs nx : List Rat, ax.labels = xs.map Label.num ∧ xs ≠ [] ∧ xs.Nodup ∧ t.labels = nx.map Label.num := by
    intro ax hax t ht
    simp only [exDs, List.mem_cons, List.not_mem_nil, or_false] at hax
    rcases hax with rfl | rfl
    · have h : tmpl.find? (fun e => e.name == exX.name) =
          some { name := "x", labels := [.num 15, .num 10, .num 99], kind := .f } := by decide
      rw [h] at ht; injection ht with ht; subst ht
      exact ⟨[10, 30, 20], [15, 10, 99], rfl, by decide, by decide, rfl⟩
    · have h : tmpl.find? (fun e => e.name == exY.name) = some { name := "y", labels := [.num 1], kind := .i } := by decide
      rw [h] at ht; injection ht with ht; subst ht
      exact ⟨[1, 2], [1], rfl, by decide, by decide, rfl⟩
  have hnames : ∀ e ∈ exDs.axes, e.name ≠ "" := by
    intro e he
    simp only [exDs, List.mem_cons, List.not_mem_nil, or_false] at he
    rcases he with rfl | rfl <;> decide
  obtain ⟨out, hout, hkeys, -, -, haxes, hvars⟩ := interpLikeDs_spec (fun a _ _ => a) exDs tmpl 0 0 exDs_good hnames hnum
  refine ⟨out, hout, hkeys, ?_, ?_, ?_⟩
  · show out.axes.map (·.name) = _
    rw [haxes]; rfl
  · obtain ⟨r, hr, -, -, hsub⟩ := hvars "a" exA (by simp [exDs])
    exact ⟨r, hr, hsub (by decide)⟩
  · obtain ⟨r, hr, -, -, hsub⟩ := hvars "b" exB (by simp [exDs])
    exact ⟨r, hr, hsub (by decide)⟩

/-- a Dataset over (y, x) holding the 2 x 2 table `interpExCorner` as `p` and the same table stored the other way
round, over (x, y), as `q` -/
def interpExCornerT : DimArray Rat :=
  { axes := [{ name := "x", labels := [.num 0, .num 1], kind := .f }, { name := "y", labels := [.num 0, .num 1], kind := .f }]
    vals := { shape := [2, 2], get := fun j => match j with
      | [0, 0] => 1 | [0, 1] => 3 | [1, 0] => 2 | [1, 1] => 4 | _ => 0 } }

def interpExCornerDs : Ds Rat :=
  { axes := interpExCorner.axes, vars := [("p", interpExCorner), ("q", interpExCornerT)] }

/-- the order is the DATASET's, not the variable's: for the variable `q`, stored over (x, y) in a Dataset whose axes
are (y, x), `Dataset.interp_like` interpolates along `y` first (as for every variable), `q.interp_like` along `x` first;
at the corner cell (`x = -1` below, `y = 2` above, fills 5 and 7) the Dataset returns 5 and the variable's own
`interp_like` 7 - the condition "the variable lists its dimensions in the Dataset's order" of `interpLikeDs_spec`
cannot be dropped when the fills differ -/
theorem interpLikeDs_order_is_the_datasets :
    let tmpl : List Axis := [{ name := "x", labels := [.num (-1)], kind := .f }, { name := "y", labels := [.num 2], kind := .f }]
    (interpLikeDs linRat interpExCornerDs tmpl 5 7).map (fun out => (out.get? "q").map (fun r => r.vals.get [0, 0])) =
      .ok (some 5) ∧
    (interpLike linRat interpExCornerT tmpl 5 7).map (fun r => r.vals.get [0, 0]) = .ok 7 := by
  constructor <;> decide +kernel

end DSV

end DimModel

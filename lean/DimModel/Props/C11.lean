import DimModel.Lib.Reshape
namespace DimModel
end DimModel

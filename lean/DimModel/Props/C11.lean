/-
C11 - property theorems: flatten / unflatten / reshape group dimensions losslessly.
Row-major index arithmetic (ravel / unravel) and the value equation of grouping, then (second half)
the end-to-end theorems about `Lib.flatten`, `Lib.unflattenAt` / `Lib.unflattenAll`, `Lib.reshape`
on a `DimArray` (helper lemmas in Proofs/C11.lean, Proofs/C11Reshape.lean).
-/
import DimModel.Lib.Reshape
import DimModel.Proofs.C11
import DimModel.Proofs.C11Reshape
namespace DimModel
open Lib

/-! ### row-major index arithmetic -/

theorem prod_nil : prod [] = 1 := rfl
theorem prod_cons (n : Nat) (s : List Nat) : prod (n :: s) = n * prod s := rfl

/-- `i < n`, `r < p` gives `i * p + r < n * p` -/
theorem mul_add_lt {i n r p : Nat} (hi : i < n) (hr : r < p) : i * p + r < n * p := by
  have h1 : (i + 1) * p ≤ n * p := Nat.mul_le_mul_right p hi
  have h2 : (i + 1) * p = i * p + p := Nat.succ_mul i p
  omega

theorem ravel_lt (s i : List Nat) (h : InRange s i) : ravel s i < prod s := by
  induction s generalizing i with
  | nil =>
    cases i with
    | nil => simp [ravel, prod]
    | cons _ _ => simp [InRange] at h
  | cons n s ih =>
    cases i with
    | nil => simp [InRange] at h
    | cons i is =>
      simp only [InRange] at h
      simp only [ravel, prod_cons]
      exact mul_add_lt h.1 (ih is h.2)

theorem unravel_ravel (s i : List Nat) (h : InRange s i) : unravel s (ravel s i) = i := by
  induction s generalizing i with
  | nil =>
    cases i with
    | nil => simp [unravel]
    | cons _ _ => simp [InRange] at h
  | cons n s ih =>
    cases i with
    | nil => simp [InRange] at h
    | cons i is =>
      simp only [InRange] at h
      have hr : ravel s is < prod s := ravel_lt s is h.2
      have hp : 0 < prod s := by omega
      simp only [ravel, unravel]
      have hd : (i * prod s + ravel s is) / prod s = i := by
        rw [Nat.add_comm, Nat.add_mul_div_right _ _ hp, Nat.div_eq_of_lt hr, Nat.zero_add]
      have hm : (i * prod s + ravel s is) % prod s = ravel s is := by
        rw [Nat.add_comm, Nat.add_mul_mod_self_right, Nat.mod_eq_of_lt hr]
      rw [hd, hm, ih is h.2]

theorem ravel_unravel (s : List Nat) (k : Nat) (h : k < prod s) : ravel s (unravel s k) = k := by
  induction s generalizing k with
  | nil =>
    simp only [prod_nil] at h
    simp only [ravel]
    omega
  | cons n s ih =>
    simp only [prod_cons] at h
    have hp : 0 < prod s := by
      cases hps : prod s with
      | zero => rw [hps, Nat.mul_zero] at h; omega
      | succ _ => omega
    simp only [unravel, ravel]
    rw [ih _ (Nat.mod_lt _ hp), Nat.mul_comm]
    exact Nat.div_add_mod k (prod s)

theorem unravel_inRange (s : List Nat) (k : Nat) (h : k < prod s) : InRange s (unravel s k) := by
  induction s generalizing k with
  | nil => simp [unravel, InRange]
  | cons n s ih =>
    simp only [prod_cons] at h
    have hp : 0 < prod s := by
      cases hps : prod s with
      | zero => rw [hps, Nat.mul_zero] at h; omega
      | succ _ => omega
    simp only [unravel, InRange]
    refine ⟨?_, ih _ (Nat.mod_lt _ hp)⟩
    apply Nat.div_lt_of_lt_mul
    rw [Nat.mul_comm]; exact h

theorem inRange_append (s1 s2 i1 i2 : List Nat) (h1 : InRange s1 i1) (h2 : InRange s2 i2) :
    InRange (s1 ++ s2) (i1 ++ i2) := by
  induction s1 generalizing i1 with
  | nil =>
    cases i1 with
    | nil => simpa using h2
    | cons _ _ => simp [InRange] at h1
  | cons n s ih =>
    cases i1 with
    | nil => simp [InRange] at h1
    | cons i is =>
      simp only [InRange] at h1
      simp only [List.cons_append, InRange]
      exact ⟨h1.1, ih is h1.2⟩

theorem prod_append (s1 s2 : List Nat) : prod (s1 ++ s2) = prod s1 * prod s2 := by
  induction s1 with
  | nil => simp [prod]
  | cons n s ih => simp only [List.cons_append, prod_cons, ih, Nat.mul_assoc]

theorem ravel_append (s1 s2 i1 i2 : List Nat) (h1 : InRange s1 i1) (h2 : InRange s2 i2) :
    ravel (s1 ++ s2) (i1 ++ i2) = ravel s1 i1 * prod s2 + ravel s2 i2 := by
  have _ := h2  -- not needed: the equation holds for any `i2`
  induction s1 generalizing i1 with
  | nil =>
    cases i1 with
    | nil => simp [ravel]
    | cons _ _ => simp [InRange] at h1
  | cons n s ih =>
    cases i1 with
    | nil => simp [InRange] at h1
    | cons i is =>
      simp only [InRange] at h1
      simp only [List.cons_append, ravel]
      rw [ih is h1.2, prod_append, Nat.add_mul, Nat.mul_assoc, Nat.add_assoc]

/-! ### grouping a block of dimensions -/

theorem inRange_singleton (n g : Nat) (h : g < n) : InRange [n] [g] := by
  simp [InRange, h]

/-- **the value equation of flatten**: after reshaping `pre ++ grp ++ post` into
`pre ++ [prod grp] ++ post` (what `values.reshape(newshape)` does for a contiguous group), the
element at grouped position `g` is the original element at the member coordinates `unravel grp g`,
i.e. the `g`-th combination of member positions in row-major order of the listed dimensions. -/
theorem group_get {α : Type} (a : NDArr α) (pre grp post : List Nat) (hshape : a.shape = pre ++ grp ++ post)
    (i1 i2 : List Nat) (g : Nat) (h1 : InRange pre i1) (hg : g < prod grp) (h2 : InRange post i2) :
    (a.reshape (pre ++ [prod grp] ++ post)).get (i1 ++ [g] ++ i2) = a.get (i1 ++ unravel grp g ++ i2) := by
  have hu : InRange grp (unravel grp g) := unravel_inRange grp g hg
  have hgs : InRange [prod grp] [g] := inRange_singleton _ _ hg
  have hL : ravel (pre ++ [prod grp] ++ post) (i1 ++ [g] ++ i2)
      = ravel (pre ++ grp ++ post) (i1 ++ unravel grp g ++ i2) := by
    rw [ravel_append _ _ _ _ (inRange_append _ _ _ _ h1 hgs) h2,
      ravel_append _ _ _ _ h1 hgs,
      ravel_append _ _ _ _ (inRange_append _ _ _ _ h1 hu) h2,
      ravel_append _ _ _ _ h1 hu, ravel_unravel grp g hg]
    simp [ravel, prod]
  show a.get (unravel a.shape (ravel (pre ++ [prod grp] ++ post) (i1 ++ [g] ++ i2))) = _
  rw [hshape, hL,
    unravel_ravel _ _ (inRange_append _ _ _ _ (inRange_append _ _ _ _ h1 hu) h2)]

/-- more generally any reshape round trip of equal size is the identity -/
theorem reshape_roundtrip_get {α : Type} (a : NDArr α) (s : List Nat) (hs : prod s = prod a.shape)
    (i : List Nat) (hi : InRange a.shape i) :
    ((a.reshape s).reshape a.shape).get i = a.get i := by
  show a.get (unravel a.shape (ravel s (unravel s (ravel a.shape i)))) = a.get i
  have hlt : ravel a.shape i < prod s := by rw [hs]; exact ravel_lt _ _ hi
  rw [ravel_unravel s _ hlt, unravel_ravel _ _ hi]

/-- **unflatten after flatten is the identity on the values**: reshaping back restores every
element at its original index -/
theorem ungroup_group_get {α : Type} (a : NDArr α) (pre grp post : List Nat) (hshape : a.shape = pre ++ grp ++ post)
    (i : List Nat) (hi : InRange a.shape i) :
    ((a.reshape (pre ++ [prod grp] ++ post)).reshape a.shape).get i = a.get i := by
  apply reshape_roundtrip_get a _ _ i hi
  rw [hshape]
  simp only [prod_append, prod_cons, prod_nil, Nat.mul_one]

/-! ### the grouped axis -/

/-- the tuple labels of a grouped axis, derived from the members (what `MultiAxis.values` computes
through `_flatten`: meshgrid 'ij' + ravel) -/
def tupleLabels : List Axis0 → List (List Label)
  | [] => [[]]
  | m :: ms => m.labels.flatMap fun l => (tupleLabels ms).map (l :: ·)

theorem tupleLabels_length (ms : List Axis0) : (tupleLabels ms).length = prod (ms.map (·.labels.length)) := by
  induction ms with
  | nil => rfl
  | cons m ms ih =>
    simp only [tupleLabels, List.map_cons, prod_cons]
    rw [← ih]
    generalize m.labels = L
    induction L with
    | nil => simp
    | cons l L ihL =>
      simp only [List.flatMap_cons, List.length_append, List.length_map, List.length_cons, ihL]
      rw [Nat.succ_mul, Nat.add_comm]

/-- indexing a block list: `q`-th block, `r`-th element of the block -/
theorem flatMap_block_get (L : List Label) (T : List (List Label)) (q r : Nat)
    (hq : q < L.length) (hr : r < T.length) :
    (L.flatMap fun l => T.map (l :: ·))[q * T.length + r]? =
      some (L.getD q Label.none :: T.getD r []) := by
  induction L generalizing q with
  | nil => simp at hq
  | cons l L ih =>
    cases q with
    | zero =>
      simp only [List.flatMap_cons, Nat.zero_mul, Nat.zero_add]
      rw [List.getElem?_append_left (by simpa using hr)]
      simp [List.getElem?_map, List.getElem?_eq_getElem hr]
    | succ q =>
      simp only [List.flatMap_cons]
      rw [List.getElem?_append_right (by
        simp only [List.length_map]; rw [Nat.succ_mul]; omega)]
      have he : (q + 1) * T.length + r - (List.map (fun x => l :: x) T).length = q * T.length + r := by
        simp only [List.length_map]; rw [Nat.succ_mul]; omega
      rw [he, ih q (by simpa using hq)]
      simp

/-- the `g`-th tuple label is the combination of member labels at `unravel sizes g` (row-major) -/
theorem tupleLabels_get (ms : List Axis0) (g : Nat) (hg : g < prod (ms.map (·.labels.length))) :
    (tupleLabels ms)[g]? = some ((ms.zip (unravel (ms.map (·.labels.length)) g)).map
        (fun (m, k) => m.labels.getD k Label.none)) := by
  induction ms generalizing g with
  | nil =>
    simp only [List.map_nil, prod_nil] at hg
    have : g = 0 := by omega
    subst this
    simp [tupleLabels, unravel]
  | cons m ms ih =>
    simp only [List.map_cons, prod_cons] at hg
    have hlen := tupleLabels_length ms
    have hp : 0 < prod (ms.map (·.labels.length)) := by
      cases hps : prod (ms.map (·.labels.length)) with
      | zero => rw [hps, Nat.mul_zero] at hg; omega
      | succ _ => omega
    have hq : g / prod (ms.map (·.labels.length)) < m.labels.length := by
      apply Nat.div_lt_of_lt_mul; rw [Nat.mul_comm]; exact hg
    have hr : g % prod (ms.map (·.labels.length)) < prod (ms.map (·.labels.length)) := Nat.mod_lt _ hp
    have hsplit : g = g / (tupleLabels ms).length * (tupleLabels ms).length
        + g % (tupleLabels ms).length := by
      rw [Nat.mul_comm]; exact (Nat.div_add_mod g _).symm
    have hblock := flatMap_block_get m.labels (tupleLabels ms) (g / (tupleLabels ms).length)
      (g % (tupleLabels ms).length) (by rw [hlen]; exact hq) (by rw [hlen]; exact hr)
    rw [← hsplit] at hblock
    simp only [tupleLabels, List.map_cons, unravel, List.zip_cons_cons]
    rw [hblock, hlen]
    have ih' := ih _ hr
    congr 2
    rw [List.getD_eq_getElem?_getD, ih']
    rfl

theorem foldl_mul_eq (l : List Nat) (a : Nat) : l.foldl (· * ·) a = a * prod l := by
  induction l generalizing a with
  | nil => simp [prod]
  | cons x l ih => simp only [List.foldl_cons, ih, prod_cons, Nat.mul_assoc]

/-- the grouped axis is named by the comma-joined member names, in the listed order, and its size
is the product of the member sizes.  (`ms ≠ []`: the model gives the degenerate `MultiAxis()` of
zero members size `0` (it has no members, hence counts as a plain axis with no labels), while the
empty product is `1`.) -/
theorem multiAxis_name_size (ms : List Axis) (hne : ms ≠ []) (hplain : ∀ m ∈ ms, m.members = []) :
    (multiAxis ms).name = ",".intercalate (ms.map (·.name)) ∧
    (multiAxis ms).size = prod (ms.map (·.size)) := by
  refine ⟨rfl, ?_⟩
  have hE : (ms.map Axis.toAxis0).isEmpty = false := by
    cases ms with
    | nil => exact absurd rfl hne
    | cons _ _ => rfl
  have hsz : ms.map (·.size) = (ms.map Axis.toAxis0).map (·.labels.length) := by
    rw [List.map_map]
    apply List.map_congr_left
    intro m hm
    simp [Axis.size, hplain m hm, Axis.toAxis0]
  rw [hsz]
  show (if (ms.map Axis.toAxis0).isEmpty then _ else _) = _
  rw [hE, foldl_mul_eq, Nat.one_mul]
  rfl

/-- non-vacuity -/
example : unravel [2, 3] 4 = [1, 1] ∧ ravel [2, 3] [1, 1] = 4 ∧ InRange [2, 3] [1, 1] := by decide

end DimModel


/-! ## End-to-end theorems about the top-level mirror functions `Lib.flatten`, `Lib.unflattenAt`,
`Lib.unflattenAll`, `Lib.reshape` on a `DimArray` -/
namespace DimModel
open Lib C11

/-- `a.axisOf d` (the axis at the first position whose name is `d`) is an axis of `a`, named `d` -/
theorem axisOf_spec {α} (a : DimArray α) (d : String) (hd : d ∈ a.dims) :
    a.axisOf d ∈ a.axes ∧ (a.axisOf d).name = d := ⟨axisOf_mem a d hd, axisOf_name a d hd⟩

/-- ... and listing `axisOf` along the dims gives back the axes -/
theorem axisOf_dims {α} (a : DimArray α) (hwf : a.WF) : a.dims.map a.axisOf = a.axes :=
  map_axisOf_dims a hwf.2.1

/-- the example array used for the non-vacuity checks below: dims a(2) x b(3) x c(2) -/
def exC11 : DimArray Nat :=
  { axes := [ { name := "a", labels := [.num 1, .num 2], kind := .i },
              { name := "b", labels := [.str "x", .str "y", .str "z"], kind := .O },
              { name := "c", labels := [.num 10, .num 20], kind := .i } ]
    vals := { shape := [2, 3, 2], get := fun i => ravel [2, 3, 2] i } }

/-- sizes of the transposed and of the flattened array -/
private theorem flatten_shapes {α} (a : DimArray α) (dims : List String) (ins : Nat)
    (hwf : a.WF) (hne : dims ≠ []) (hsub : ∀ d ∈ dims, d ∈ a.dims)
    (hplain : ∀ d ∈ dims, (a.axisOf d).members = []) :
    let rest := C11.rest a.dims dims
    let sz := fun d => (a.axisOf d).size
    (multiAxis (dims.map a.axisOf)).size = prod (dims.map sz) ∧
    (transposeBy a (perm a dims ins)).vals.shape
        = (rest.take ins).map sz ++ dims.map sz ++ (rest.drop ins).map sz ∧
    (flattenCore a dims ins).axes.map (·.size)
        = (rest.take ins).map sz ++ [prod (dims.map sz)] ++ (rest.drop ins).map sz := by
  intro rest sz
  have hmne : dims.map a.axisOf ≠ [] := by
    cases dims with
    | nil => exact absurd rfl hne
    | cons _ _ => simp only [List.map_cons, ne_eq, reduceCtorEq, not_false_eq_true]
  have hmplain : ∀ ax ∈ dims.map a.axisOf, ax.members = [] := by
    intro ax hax
    obtain ⟨d, hd, rfl⟩ := List.mem_map.mp hax
    exact hplain d hd
  have hgsize : (multiAxis (dims.map a.axisOf)).size = prod (dims.map sz) := by
    rw [(multiAxis_name_size _ hmne hmplain).2, List.map_map]; rfl
  refine ⟨hgsize, ?_, ?_⟩
  · rw [transposed_shape a dims ins hwf.1 hsub]; simp only [newdims, List.map_append]; rfl
  · rw [flattenCore_axes a dims ins hsub]
    simp only [List.map_append, List.map_map, List.map_singleton, hgsize]
    rfl

/-- **flatten, end to end.**  For a well-formed array and any non-empty list `dims` of distinct
names of plain (not already grouped) dimensions of the array, in any order, and any insert position
(`none` = default = position of the first listed dimension; positions past the remaining dimensions
are clamped), `Lib.flatten` succeeds and
* the remaining dimensions keep their order and their whole axis (name, labels, kind, metadata);
  the grouped axis sits at the insert position;
* the grouped axis is named by the comma-joined listed names, its members are the listed axes in
  the LISTED order and its size is the product of their sizes;
* shape and axes stay consistent, metadata and value kind are kept;
* VALUES: for every in-range position `c` along the remaining dimensions and every grouped position
  `g`, the result at `(c, g)` is the input at `c` along the remaining dimensions and at
  `unravel memberSizes g` along the members (`m` is that assignment: `dims.map m = unravel .. g`),
  i.e. at the `g`-th combination of member positions in row-major order of the listed dimensions. -/
theorem flatten_spec {α} (a : DimArray α) (dims : List String) (insert : Option Nat)
    (hwf : a.WF) (hne : dims ≠ []) (hnd : dims.Nodup) (hsub : ∀ d ∈ dims, d ∈ a.dims)
    (hplain : ∀ d ∈ dims, (a.axisOf d).members = []) :
    let rest := a.dims.filter (fun d => !dims.contains d)
    let ins := min (insert.getD (a.dims.idxOf (dims.head hne))) rest.length
    let msizes := dims.map (fun d => (a.axisOf d).size)
    let grouped := multiAxis (dims.map a.axisOf)
    ∃ r, flatten a dims insert = .ok r ∧
      r.axes = (rest.take ins).map a.axisOf ++ [grouped] ++ (rest.drop ins).map a.axisOf ∧
      r.dims = rest.take ins ++ [",".intercalate dims] ++ rest.drop ins ∧
      grouped.name = ",".intercalate dims ∧
      grouped.members = dims.map (fun d => (a.axisOf d).toAxis0) ∧
      grouped.size = prod msizes ∧
      r.vals.shape = r.axes.map (·.size) ∧
      r.attrs = a.attrs ∧ r.vkind = a.vkind ∧
      ∀ (c m : String → Nat) (g : Nat), (∀ d ∈ rest, c d < (a.axisOf d).size) → g < prod msizes →
        dims.map m = unravel msizes g →
        r.vals.get ((rest.take ins).map c ++ [g] ++ (rest.drop ins).map c)
          = a.at (fun d => if d ∈ dims then m d else c d) := by
  intro rest ins msizes grouped
  have hD : a.dims.Nodup := hwf.2.1
  have hins : ins = insPos a dims insert := by
    cases dims with
    | nil => exact absurd rfl hne
    | cons _ _ => rfl
  have hrest : rest = C11.rest a.dims dims := rfl
  refine ⟨flattenCore a dims ins, ?_, ?_⟩
  · rw [hins]; exact flatten_eq_core a dims insert hD hne hnd hsub
  have haxes := flattenCore_axes a dims ins hsub
  rw [← hrest] at haxes
  have hr1 : ∀ d ∈ rest.take ins, d ∈ a.dims := fun d hd => (mem_rest.mp (List.mem_of_mem_take hd)).1
  have hr2 : ∀ d ∈ rest.drop ins, d ∈ a.dims := fun d hd => (mem_rest.mp (List.mem_of_mem_drop hd)).1
  have hgname : grouped.name = ",".intercalate dims := by
    show ",".intercalate ((dims.map a.axisOf).map (·.name)) = _
    rw [map_name_axisOf a dims hsub]
  obtain ⟨hgsize, hsh, hsizes⟩ := flatten_shapes a dims ins hwf hne hsub hplain
  refine ⟨haxes, ?_, hgname, ?_, hgsize, ?_, rfl, rfl, ?_⟩
  · show (flattenCore a dims ins).axes.map (·.name) = _
    rw [haxes, List.map_append, List.map_append, map_name_axisOf a _ hr1, map_name_axisOf a _ hr2,
      List.map_singleton, hgname]
  · show (dims.map a.axisOf).map Axis.toAxis0 = _
    rw [List.map_map]; rfl
  · rw [flattenCore_vals]; rfl
  · intro c m g hc hg hm
    have hi1 : InRange ((rest.take ins).map (fun d => (a.axisOf d).size)) ((rest.take ins).map c) :=
      inRange_map _ _ _ (fun d hd => hc d (List.mem_of_mem_take hd))
    have hi2 : InRange ((rest.drop ins).map (fun d => (a.axisOf d).size)) ((rest.drop ins).map c) :=
      inRange_map _ _ _ (fun d hd => hc d (List.mem_of_mem_drop hd))
    rw [flattenCore_vals, hsizes, group_get _ _ _ _ hsh _ _ g hi1 hg hi2, ← hm]
    -- the index is `newdims.map c'`
    have hidx : (rest.take ins).map c ++ dims.map m ++ (rest.drop ins).map c
        = (transposeBy a (perm a dims ins)).dims.map (fun d => if d ∈ dims then m d else c d) := by
      show _ = ((transposeBy a (perm a dims ins)).axes.map (·.name)).map _
      rw [transposed_axes, map_name_axisOf a _ (mem_newdims a dims ins hsub)]
      simp only [newdims, List.map_append]
      congr 1
      · congr 1
        · apply List.map_congr_left
          intro d hd
          rw [if_neg (mem_rest.mp (List.mem_of_mem_take hd)).2]
        · apply List.map_congr_left
          intro d hd
          rw [if_pos hd]
      · apply List.map_congr_left
        intro d hd
        rw [if_neg (mem_rest.mp (List.mem_of_mem_drop hd)).2]
    rw [hidx]
    have hs : a.vals.shape.length = a.axes.length := by rw [hwf.1, List.length_map]
    exact transposeBy_at a (perm a dims ins) (perm_isPerm a dims ins hD hnd hsub) hs _

/-- the hypotheses of `flatten_spec` are satisfiable (non-contiguous subset, reversed order) -/
example : exC11.WF ∧ ["c", "a"] ≠ [] ∧ ["c", "a"].Nodup ∧ (∀ d ∈ ["c", "a"], d ∈ exC11.dims) ∧
    (∀ d ∈ ["c", "a"], (exC11.axisOf d).members = []) := by decide

/-- the member assignment `m` of `flatten_spec` exists for every grouped position: the member
listed at position `k` gets component `k` of `unravel memberSizes g` -/
theorem flatten_member_coords (dims : List String) (hnd : dims.Nodup) (msizes : List Nat)
    (hlen : msizes.length = dims.length) (g : Nat) :
    dims.map (fun d => (unravel msizes g).getD (dims.idxOf d) 0) = unravel msizes g :=
  exists_assignment dims hnd _ (by rw [unravel_length, hlen])

/-- **labels of the grouped axis**: the grouped axis has `prod memberSizes` tuple labels and its
`g`-th label is the tuple of the member labels at positions `unravel memberSizes g` (members in the
listed order); every component is an in-range label of its member axis. -/
theorem flatten_grouped_labels {α} (a : DimArray α) (dims : List String)
    (hplain : ∀ d ∈ dims, (a.axisOf d).members = []) (g : Nat)
    (hg : g < prod (dims.map (fun d => (a.axisOf d).size))) :
    let msizes := dims.map (fun d => (a.axisOf d).size)
    let grouped := multiAxis (dims.map a.axisOf)
    (tupleLabels grouped.members).length = prod msizes ∧
    (unravel msizes g).length = dims.length ∧
    ∃ t, (tupleLabels grouped.members)[g]? = some t ∧
      t.map some = (dims.zip (unravel msizes g)).map (fun dk => (a.axisOf dk.1).labels[dk.2]?) := by
  intro msizes grouped
  have hmem : grouped.members = dims.map (fun d => (a.axisOf d).toAxis0) := by
    show (dims.map a.axisOf).map Axis.toAxis0 = _
    rw [List.map_map]; rfl
  have hsz : grouped.members.map (·.labels.length) = msizes := by
    rw [hmem, List.map_map]
    apply List.map_congr_left
    intro d hd
    exact (plain_size _ (hplain d hd)).symm
  have hsz' : msizes = dims.map (fun d => (a.axisOf d).labels.length) := by
    apply List.map_congr_left
    intro d hd
    exact plain_size _ (hplain d hd)
  refine ⟨by rw [tupleLabels_length, hsz], by rw [unravel_length, List.length_map], ?_⟩
  have hget := tupleLabels_get grouped.members g (by rw [hsz]; exact hg)
  rw [hsz] at hget
  refine ⟨_, hget, ?_⟩
  have hin : InRange (dims.map (fun d => (a.axisOf d).labels.length)) (unravel msizes g) := by
    rw [← hsz']; exact unravel_inRange msizes g hg
  have hlt := zip_inRange dims (fun d => (a.axisOf d).labels.length) _ hin
  rw [hmem, List.zip_map_left, List.map_map, List.map_map]
  apply List.map_congr_left
  intro dk hdk
  have := hlt dk hdk
  simp only [Function.comp_apply, Prod.map, id, Axis.toAxis0]
  rw [List.getD_eq_getElem?_getD, List.getElem?_eq_getElem this, Option.getD_some]

/-- concrete check of the row-major order of the LISTED dimensions: flattening `("c","a")` of the
2x3x2 example, inserted first; grouped position 1 = (c=0, a=1) -/
example : (do let r ← flatten exC11 ["c", "a"] (some 0)
              pure (r.dims, r.vals.shape, r.vals.get [1, 2], tupleLabels ((r.axes.getD 0 default).members)))
    = .ok (["c,a", "b"], [4, 3], exC11.vals.get [1, 2, 0],
        [[.num 10, .num 1], [.num 10, .num 2], [.num 20, .num 1], [.num 20, .num 2]]) := by rfl

/-- **unflatten ∘ flatten, end to end.**  Under the hypotheses of `flatten_spec`, un-flattening the
grouped axis (position `ins`) of the flattened array restores the member axes exactly (whole axes:
names, labels, kind, metadata), contiguous in the listed order at the insert position, between the
unchanged remaining axes; and every element keeps its label coordinates: the array is the original
transposed to that order of dimensions (positional statement), so name-addressed access gives the
original element (`at` statement). -/
theorem unflatten_flatten {α} (a : DimArray α) (dims : List String) (insert : Option Nat)
    (hwf : a.WF) (hne : dims ≠ []) (hnd : dims.Nodup) (hsub : ∀ d ∈ dims, d ∈ a.dims)
    (hplain : ∀ d ∈ dims, (a.axisOf d).members = []) :
    let rest := a.dims.filter (fun d => !dims.contains d)
    let ins := min (insert.getD (a.dims.idxOf (dims.head hne))) rest.length
    let newdims := rest.take ins ++ dims ++ rest.drop ins
    ∃ r, flatten a dims insert = .ok r ∧
      (unflattenAt r ins).axes = newdims.map a.axisOf ∧
      (unflattenAt r ins).dims = newdims ∧
      newdims.Perm a.dims ∧
      (unflattenAt r ins).vals.shape = (unflattenAt r ins).axes.map (·.size) ∧
      (unflattenAt r ins).attrs = a.attrs ∧ (unflattenAt r ins).vkind = a.vkind ∧
      (∀ i, InRange (unflattenAt r ins).vals.shape i →
        (unflattenAt r ins).vals.get i
          = (transposeBy a (newdims.map (fun d => a.dims.idxOf d))).vals.get i) ∧
      (∀ c : String → Nat, (∀ d ∈ a.dims, c d < (a.axisOf d).size) →
        (unflattenAt r ins).at c = a.at c) := by
  intro rest ins nd
  have hD : a.dims.Nodup := hwf.2.1
  have hins : ins = insPos a dims insert := by
    cases dims with
    | nil => exact absurd rfl hne
    | cons _ _ => rfl
  have hle : ins ≤ rest.length := Nat.min_le_right _ _
  have hrest : rest = C11.rest a.dims dims := rfl
  have hnd' : nd = newdims a.dims dims ins := rfl
  clear_value nd; subst hnd'
  clear_value ins
  clear_value rest; subst hrest
  refine ⟨flattenCore a dims ins, ?_, ?_⟩
  · rw [hins]; exact flatten_eq_core a dims insert hD hne hnd hsub
  have haxes := flattenCore_axes a dims ins hsub
  obtain ⟨hgsize, hsh, hsizes⟩ := flatten_shapes a dims ins hwf hne hsub hplain
  have hlen : (((C11.rest a.dims dims).take ins).map a.axisOf).length = ins := by
    rw [List.length_map, List.length_take]; exact Nat.min_eq_left hle
  have hM : (multiAxis (dims.map a.axisOf)).members.map Axis0.toAxis = dims.map a.axisOf := by
    show ((dims.map a.axisOf).map Axis.toAxis0).map Axis0.toAxis = _
    rw [List.map_map, List.map_map]
    apply List.map_congr_left
    intro d hd
    exact toAxis_toAxis0 _ (hplain d hd)
  have hu := unflattenAt_mid (flattenCore a dims ins) _ _ _ _ haxes rfl hM
  rw [hlen] at hu
  have hmemnd := mem_newdims a dims ins hsub
  have hsizes' : (((C11.rest a.dims dims).take ins).map a.axisOf).map (·.size)
        ++ (dims.map a.axisOf).map (·.size)
        ++ (((C11.rest a.dims dims).drop ins).map a.axisOf).map (·.size)
      = (transposeBy a (perm a dims ins)).vals.shape := by
    rw [hsh]; simp only [List.map_map]; rfl
  rw [hsizes'] at hu
  have hperm := newdims_perm a.dims dims hD hnd hsub ins
  have hax : (unflattenAt (flattenCore a dims ins) ins).axes = (newdims a.dims dims ins).map a.axisOf := by
    rw [hu]; simp only [newdims, List.map_append]
  have hpos : ∀ i, InRange (unflattenAt (flattenCore a dims ins) ins).vals.shape i →
      (unflattenAt (flattenCore a dims ins) ins).vals.get i
        = (transposeBy a (perm a dims ins)).vals.get i := by
    intro i hi
    rw [hu] at hi ⊢
    simp only at hi ⊢
    rw [flattenCore_vals, hsizes]
    exact ungroup_group_get _ _ _ _ hsh i hi
  have hshape : (unflattenAt (flattenCore a dims ins) ins).vals.shape
      = (unflattenAt (flattenCore a dims ins) ins).axes.map (·.size) := by
    rw [hax, hu]
    show (transposeBy a (perm a dims ins)).vals.shape = _
    rw [transposed_shape a dims ins hwf.1 hsub, List.map_map]; rfl
  have hdims : (unflattenAt (flattenCore a dims ins) ins).dims = newdims a.dims dims ins := by
    show (unflattenAt (flattenCore a dims ins) ins).axes.map (·.name) = _
    rw [hax, map_name_axisOf a _ hmemnd]
  refine ⟨hax, hdims, hperm, hshape, by rw [hu]; rfl, by rw [hu]; rfl, hpos, ?_⟩
  intro c hc
  have hs : a.vals.shape.length = a.axes.length := by rw [hwf.1, List.length_map]
  rw [← transposeBy_at a (perm a dims ins) (perm_isPerm a dims ins hD hnd hsub) hs c]
  unfold DimArray.at
  have hbd : (transposeBy a (perm a dims ins)).dims = newdims a.dims dims ins := by
    show (transposeBy a (perm a dims ins)).axes.map (·.name) = _
    rw [transposed_axes, map_name_axisOf a _ hmemnd]
  rw [hdims, hbd]
  apply hpos
  rw [hshape, hax, List.map_map]
  exact inRange_map _ _ c (fun d hd => hc d (hmemnd d hd))

/-- **`unflatten()` (all grouped axes) after flatten**: when the input has no grouped axis, the
flattened array has exactly one, and the top-level `unflattenAll` is the `unflattenAt` of
`unflatten_flatten`, so that theorem describes `a.flatten(dims, insert).unflatten()`. -/
theorem unflattenAll_flatten {α} (a : DimArray α) (dims : List String) (insert : Option Nat)
    (hwf : a.WF) (hne : dims ≠ []) (hnd : dims.Nodup) (hsub : ∀ d ∈ dims, d ∈ a.dims)
    (hplain : ∀ ax ∈ a.axes, ax.members = []) :
    let rest := a.dims.filter (fun d => !dims.contains d)
    let ins := min (insert.getD (a.dims.idxOf (dims.head hne))) rest.length
    ∃ r, flatten a dims insert = .ok r ∧ unflattenAll r = unflattenAt r ins := by
  intro rest ins
  have hpl : ∀ d ∈ dims, (a.axisOf d).members = [] := fun d hd => hplain _ (axisOf_mem a d (hsub d hd))
  obtain ⟨r, hr, haxes0, _, _, hmem, _, _, _, _, _⟩ := flatten_spec a dims insert hwf hne hnd hsub hpl
  obtain ⟨r', hr', hax0, _⟩ := unflatten_flatten a dims insert hwf hne hnd hsub hpl
  rw [hr] at hr'
  injection hr' with hr'
  subst hr'
  refine ⟨r, hr, ?_⟩
  have haxes : r.axes = (rest.take ins).map a.axisOf ++ [multiAxis (dims.map a.axisOf)]
      ++ (rest.drop ins).map a.axisOf := haxes0
  have hax' : (unflattenAt r ins).axes = (newdims a.dims dims ins).map a.axisOf := hax0
  clear haxes0 hax0
  have hle : ins ≤ rest.length := Nat.min_le_right _ _
  have hrest : rest = C11.rest a.dims dims := rfl
  clear_value ins
  clear_value rest; subst hrest
  have hlen : (((C11.rest a.dims dims).take ins).map a.axisOf).length = ins := by
    rw [List.length_map, List.length_take]; exact Nat.min_eq_left hle
  have hgetD : ∀ (l : List String) (j : Nat), (∀ d ∈ l, d ∈ a.dims) →
      ((l.map a.axisOf).getD j default).isMulti = false := by
    intro l j hl
    rw [List.getD_eq_getElem?_getD]
    cases hj : (l.map a.axisOf)[j]? with
    | none => rfl
    | some ax =>
      have hm := List.mem_of_getElem? hj
      obtain ⟨d, hd, rfl⟩ := List.mem_map.mp hm
      simp only [Option.getD_some, Axis.isMulti, hplain _ (axisOf_mem a d (hl d hd)), List.isEmpty_nil,
        Bool.not_true]
  apply unflattenAll_single r ins
  · rw [haxes]; simp only [List.length_append, List.length_singleton, hlen]; omega
  · rw [haxes]
    have := getD_mid (((C11.rest a.dims dims).take ins).map a.axisOf)
      (((C11.rest a.dims dims).drop ins).map a.axisOf) (multiAxis (dims.map a.axisOf)) default
    rw [hlen] at this
    rw [this]
    simp only [Axis.isMulti, hmem]
    cases dims with
    | nil => exact absurd rfl hne
    | cons _ _ => rfl
  · intro j hj
    rw [haxes, List.append_assoc, List.getD_eq_getElem?_getD,
      List.getElem?_append_left (by rw [hlen]; exact hj), ← List.getD_eq_getElem?_getD]
    exact hgetD _ j (fun d hd => (mem_rest.mp (List.mem_of_mem_take hd)).1)
  · intro j
    rw [hax']
    exact hgetD _ j (fun d hd => mem_newdims a dims ins hsub d hd)

/-- non-vacuity of `unflattenAll_flatten` -/
example : ∀ ax ∈ exC11.axes, ax.members = [] := by decide

/-- concrete check: flatten `("c","a")` at position 1 then `unflatten()` gives dims `b, c, a` and
the element at (b=2, c=0, a=1) is the original element at (a=1, b=2, c=0) -/
example : (do let r ← flatten exC11 ["c", "a"] (some 1)
              let u := unflattenAll r
              pure (u.dims, u.vals.shape, u.vals.get [2, 0, 1]))
    = .ok (["b", "c", "a"], [3, 2, 2], exC11.vals.get [1, 2, 0]) := by rfl

end DimModel

/-! ### reshape -/
namespace DimModel
open Lib C11

/-- **reshape to a permutation of the dimensions is the transpose.**  For a well-formed array
without grouped axes and target names that are a permutation of its dims (names free of commas:
`splitOnComma d = [d]`, a decidable fact about the concrete names), `Lib.reshape` succeeds; its
squeeze / newaxis / grouping stages do nothing and the result is `transposeBy` to the target order
(the array itself when the order is unchanged): every axis travels with its data, every element
keeps its name-addressed coordinates. -/
theorem reshape_transpose {α} (a : DimArray α) (newdims : List String)
    (hwf : a.WF) (hplain : ∀ ax ∈ a.axes, ax.members = []) (hp : newdims.Perm a.dims)
    (hnc : ∀ d ∈ newdims, splitOnComma d = [d] ∧ d.contains ',' = false) :
    ∃ r, reshape a newdims = .ok r ∧
      (newdims ≠ a.dims → r = transposeBy a (newdims.map (fun d => a.dims.idxOf d))) ∧
      (newdims = a.dims → r = a) ∧
      r.axes = newdims.map a.axisOf ∧ r.dims = newdims ∧ r.vals.shape = r.axes.map (·.size) ∧
      r.attrs = a.attrs ∧ r.vkind = a.vkind ∧ ∀ c, r.at c = a.at c := by
  by_cases h : newdims = a.dims
  · refine ⟨a, ?_, fun hne => absurd h hne, fun _ => rfl, ?_, h.symm, hwf.1, rfl, rfl, fun _ => rfl⟩
    · rw [reshape_unfold, h]; simp only [beq_self_eq_true, if_true]; rfl
    · rw [h]; exact (map_axisOf_dims a hwf.2.1).symm
  · have hne : newdims ≠ [] := by
      intro e
      apply h
      have := hp.length_eq
      rw [e] at this ⊢
      exact (List.length_eq_zero_iff.mp this.symm).symm
    have hneq : (newdims == a.dims) = false := by simpa only [beq_eq_false_iff_ne, ne_eq] using h
    have hu := unflattenAll_plain a hplain
    have hcore := reshape_perm_core a newdims hneq hne (by rw [hu]; exact hwf.2.1) (by rw [hu]; exact hp)
      (flatMap_split_id newdims (fun d hd => (hnc d hd).1)) (fun d hd => (hnc d hd).2)
    rw [hu] at hcore
    have hmem : ∀ d ∈ newdims, d ∈ a.dims := fun d hd => hp.mem_iff.mp hd
    exact ⟨_, hcore, fun _ => rfl, fun e => absurd e h, transposeTo_axes a newdims,
      transposeTo_dims a newdims hmem, transposeTo_shape a newdims hwf.1 hmem, rfl, rfl,
      transposeTo_at a newdims hwf hp⟩

/-- non-vacuity of `reshape_transpose` -/
example : exC11.WF ∧ (∀ ax ∈ exC11.axes, ax.members = []) ∧ ["c", "a", "b"].Perm exC11.dims ∧
    (∀ d ∈ ["c", "a", "b"], splitOnComma d = [d] ∧ d.contains ',' = false) := by
  refine ⟨by decide, by decide, by decide, ?_⟩
  intro d hd
  simp only [List.mem_cons, List.mem_nil_iff, or_false] at hd
  rcases hd with rfl | rfl | rfl <;>
    exact ⟨by simp (decide := true) [splitOnComma, String.splitOn, String.splitOnAux], by simp⟩

/-- **reshape with one comma-joined name regroups with the transposes it needs.**  For a well-formed
array without grouped axes, target `pre ++ [J] ++ post` where `J` is the comma-joined name of `grp`
(at least two members; the string facts `splitOnComma J = grp`, `",".intercalate grp = J`, comma-free
other names are decidable facts about the concrete names) and `pre ++ grp ++ post` is a permutation
of the dims: `Lib.reshape` succeeds and is `flatten grp` (inserted at `pre.length`) of the array
transposed to `pre ++ grp ++ post`; the remaining axes are the whole original axes in the TARGET
order, the grouped axis has the listed members, and the value at grouped position `g` is the
original value at the member coordinates `unravel memberSizes g` (row-major, listed order). -/
theorem reshape_group {α} (a : DimArray α) (pre post grp : List String) (J : String)
    (hwf : a.WF) (hplain : ∀ ax ∈ a.axes, ax.members = [])
    (hsplit : splitOnComma J = grp) (hjoin : ",".intercalate grp = J) (hJ : J.contains ',' = true)
    (hlen : 2 ≤ grp.length)
    (hpre : ∀ d ∈ pre, splitOnComma d = [d] ∧ d.contains ',' = false)
    (hpost : ∀ d ∈ post, splitOnComma d = [d] ∧ d.contains ',' = false)
    (hp : (pre ++ grp ++ post).Perm a.dims) :
    let msizes := grp.map (fun d => (a.axisOf d).size)
    ∃ r, reshape a (pre ++ [J] ++ post) = .ok r ∧
      flatten (transposeBy a ((pre ++ grp ++ post).map (fun d => a.dims.idxOf d))) grp (some pre.length)
        = .ok r ∧
      r.axes = pre.map a.axisOf ++ [multiAxis (grp.map a.axisOf)] ++ post.map a.axisOf ∧
      r.dims = pre ++ [J] ++ post ∧
      (multiAxis (grp.map a.axisOf)).size = prod msizes ∧
      r.vals.shape = r.axes.map (·.size) ∧ r.attrs = a.attrs ∧ r.vkind = a.vkind ∧
      ∀ (c m : String → Nat) (g : Nat), (∀ d ∈ pre ++ post, c d < (a.axisOf d).size) →
        g < prod msizes → grp.map m = unravel msizes g →
        r.vals.get (pre.map c ++ [g] ++ post.map c)
          = a.at (fun d => if d ∈ grp then m d else c d) := by
  intro msizes
  subst hsplit
  have hD := hwf.2.1
  have hgne : splitOnComma J ≠ [] := by
    intro e; rw [e] at hlen; simp only [List.length_nil] at hlen; omega
  have hneq : (pre ++ [J] ++ post == a.dims) = false := by
    rw [beq_eq_false_iff_ne]
    intro e
    have h1 := congrArg List.length e
    have h2 := hp.length_eq
    simp only [List.length_append, List.length_singleton] at h1 h2
    omega
  have hcore := reshape_group_core a pre post J hplain hD hneq hpre hpost hJ hp hgne
  have hfnd : (pre ++ splitOnComma J ++ post).Nodup := hp.nodup_iff.mpr hD
  have hmem : ∀ d ∈ pre ++ splitOnComma J ++ post, d ∈ a.dims := fun d hd => hp.mem_iff.mp hd
  have hdims := transposeTo_dims a _ hmem
  have hgsub : ∀ d ∈ splitOnComma J, d ∈ pre ++ splitOnComma J ++ post :=
    fun d hd => List.mem_append_left _ (List.mem_append_right _ hd)
  have hax : ∀ d ∈ pre ++ splitOnComma J ++ post,
      (transposeTo a (pre ++ splitOnComma J ++ post)).axisOf d = a.axisOf d :=
    fun d hd => transposeTo_axisOf a _ hmem d hd
  have hspec := flatten_spec (transposeTo a (pre ++ splitOnComma J ++ post)) (splitOnComma J)
    (some pre.length) (transposeTo_WF a _ hwf hp) hgne (grp_nodup _ _ _ hfnd)
    (fun d hd => by rw [hdims]; exact hgsub d hd)
    (fun d hd => by rw [hax d (hgsub d hd)]; exact hplain _ (axisOf_mem a d (hmem d (hgsub d hd))))
  have hmin : min pre.length (pre ++ post).length = pre.length := by
    rw [List.length_append]; omega
  simp only [hdims, filter_out_group _ _ _ hfnd, Option.getD_some, hmin, List.take_left,
    List.drop_left] at hspec
  obtain ⟨r, hr, haxes, hrd, _, _, hgsz, hshape, hattr, hvk, hval⟩ := hspec
  have hpre' : pre.map (transposeTo a (pre ++ splitOnComma J ++ post)).axisOf = pre.map a.axisOf :=
    List.map_congr_left (fun d hd => hax d (List.mem_append_left _ (List.mem_append_left _ hd)))
  have hpost' : post.map (transposeTo a (pre ++ splitOnComma J ++ post)).axisOf = post.map a.axisOf :=
    List.map_congr_left (fun d hd => hax d (List.mem_append_right _ hd))
  have hgrp' : (splitOnComma J).map (transposeTo a (pre ++ splitOnComma J ++ post)).axisOf
      = (splitOnComma J).map a.axisOf :=
    List.map_congr_left (fun d hd => hax d (hgsub d hd))
  have hms : (splitOnComma J).map (fun d => ((transposeTo a (pre ++ splitOnComma J ++ post)).axisOf d).size)
      = msizes :=
    List.map_congr_left (fun d hd => by rw [hax d (hgsub d hd)])
  rw [hpre', hpost', hgrp'] at haxes
  rw [hgrp', hms] at hgsz
  rw [hjoin] at hrd
  rw [hms] at hval
  refine ⟨r, ?_, hr, haxes, hrd, hgsz, hshape, hattr, hvk, ?_⟩
  · rw [hcore, hr]
    show (if (r.dims != pre ++ [J] ++ post) = true then _ else _) = _
    rw [hrd]; simp only [bne_self_eq_false, Bool.false_eq_true, if_false]; rfl
  · intro c m g hc hg hm
    rw [hval c m g ?_ hg hm]
    · exact transposeTo_at a _ hwf hp _
    · intro d hd
      have hd' : d ∈ pre ++ splitOnComma J ++ post := by
        rcases List.mem_append.mp hd with h | h
        · exact List.mem_append_left _ (List.mem_append_left _ h)
        · exact List.mem_append_right _ h
      rw [hax d hd']; exact hc d hd

/-- non-vacuity of `reshape_group`: regroup with a reordering, `("b", "c,a")` -/
example : exC11.WF ∧ (∀ ax ∈ exC11.axes, ax.members = []) ∧ splitOnComma "c,a" = ["c", "a"] ∧
    ",".intercalate ["c", "a"] = "c,a" ∧ "c,a".contains ',' = true ∧ 2 ≤ ["c", "a"].length ∧
    (∀ d ∈ ["b"], splitOnComma d = [d] ∧ d.contains ',' = false) ∧
    (["b"] ++ ["c", "a"] ++ []).Perm exC11.dims := by
  refine ⟨by decide, by decide, ?_, by decide, by simp, by decide, ?_, by decide⟩
  · simp (decide := true) [splitOnComma, String.splitOn, String.splitOnAux]
  · intro d hd
    simp only [List.mem_cons, List.mem_nil_iff, or_false] at hd
    subst hd
    exact ⟨by simp (decide := true) [splitOnComma, String.splitOn, String.splitOnAux], by simp⟩

end DimModel

namespace DimModel
open Lib C11

/-- **reshape that only groups is flatten.**  Under the hypotheses of `reshape_group`, if moreover
the non-grouped target names `pre ++ post` are the array's remaining dims in their original order,
then `reshape` and `flatten grp` (inserted at `pre.length`) both succeed and give the same axes,
dims, shape, metadata and the same value at every in-range index. -/
theorem reshape_group_eq_flatten {α} (a : DimArray α) (pre post grp : List String) (J : String)
    (hwf : a.WF) (hplain : ∀ ax ∈ a.axes, ax.members = [])
    (hsplit : splitOnComma J = grp) (hjoin : ",".intercalate grp = J) (hJ : J.contains ',' = true)
    (hlen : 2 ≤ grp.length)
    (hpre : ∀ d ∈ pre, splitOnComma d = [d] ∧ d.contains ',' = false)
    (hpost : ∀ d ∈ post, splitOnComma d = [d] ∧ d.contains ',' = false)
    (hp : (pre ++ grp ++ post).Perm a.dims)
    (hrest : pre ++ post = a.dims.filter (fun d => !grp.contains d)) :
    ∃ r1 r2, reshape a (pre ++ [J] ++ post) = .ok r1 ∧ flatten a grp (some pre.length) = .ok r2 ∧
      r1.axes = r2.axes ∧ r1.dims = r2.dims ∧ r1.vals.shape = r2.vals.shape ∧
      r1.attrs = r2.attrs ∧ r1.vkind = r2.vkind ∧
      ∀ (c : String → Nat) (g : Nat), (∀ d ∈ pre ++ post, c d < (a.axisOf d).size) →
        g < prod (grp.map (fun d => (a.axisOf d).size)) →
        r1.vals.get (pre.map c ++ [g] ++ post.map c) = r2.vals.get (pre.map c ++ [g] ++ post.map c) := by
  obtain ⟨r1, h1, _, hax1, hd1, _, hsh1, hat1, hvk1, hval1⟩ :=
    reshape_group a pre post grp J hwf hplain hsplit hjoin hJ hlen hpre hpost hp
  have hfnd : (pre ++ grp ++ post).Nodup := hp.nodup_iff.mpr hwf.2.1
  have hgne : grp ≠ [] := by
    intro e; rw [e] at hlen; simp only [List.length_nil] at hlen; omega
  have hgsub : ∀ d ∈ grp, d ∈ a.dims :=
    fun d hd => hp.mem_iff.mp (List.mem_append_left _ (List.mem_append_right _ hd))
  have hgnd := grp_nodup _ _ _ hfnd
  have hspec := flatten_spec a grp (some pre.length) hwf hgne hgnd hgsub
    (fun d hd => hplain _ (axisOf_mem a d (hgsub d hd)))
  have hmin : min pre.length (pre ++ post).length = pre.length := by
    rw [List.length_append]; omega
  simp only [← hrest, Option.getD_some, hmin, List.take_left, List.drop_left] at hspec
  obtain ⟨r2, h2, hax2, hd2, _, _, _, hsh2, hat2, hvk2, hval2⟩ := hspec
  refine ⟨r1, r2, h1, h2, by rw [hax1, hax2], by rw [hd1, hd2, hjoin], by rw [hsh1, hsh2, hax1, hax2],
    by rw [hat1, hat2], by rw [hvk1, hvk2], ?_⟩
  intro c g hc hg
  have hm := flatten_member_coords grp hgnd (grp.map (fun d => (a.axisOf d).size))
    (by rw [List.length_map]) g
  rw [hval1 c _ g hc hg hm, hval2 c _ g hc hg hm]

/-- **reshape ungroups (with the transposes it needs).**  Flatten any listed dimensions of a
well-formed array without grouped axes, then `reshape` the result to any comma-free permutation of
the ORIGINAL dims: reshape succeeds (un-flattening the grouped axis, then transposing), the result
has the original whole axes in the target order and every element keeps its name-addressed
coordinates. (`(",".intercalate dims).contains ','`: the grouped name really is a joined name, i.e.
the target differs from the flattened array's dims.) -/
theorem reshape_flatten_ungroup {α} (a : DimArray α) (dims : List String) (insert : Option Nat)
    (newdims : List String)
    (hwf : a.WF) (hne : dims ≠ []) (hnd : dims.Nodup) (hsub : ∀ d ∈ dims, d ∈ a.dims)
    (hplain : ∀ ax ∈ a.axes, ax.members = [])
    (hjoin : (",".intercalate dims).contains ',' = true)
    (hp : newdims.Perm a.dims)
    (hnc : ∀ d ∈ newdims, splitOnComma d = [d] ∧ d.contains ',' = false) :
    ∃ r r', flatten a dims insert = .ok r ∧ reshape r newdims = .ok r' ∧
      r'.axes = newdims.map a.axisOf ∧ r'.dims = newdims ∧ r'.vals.shape = r'.axes.map (·.size) ∧
      r'.attrs = a.attrs ∧ r'.vkind = a.vkind ∧
      ∀ c : String → Nat, (∀ d ∈ a.dims, c d < (a.axisOf d).size) → r'.at c = a.at c := by
  have hpl : ∀ d ∈ dims, (a.axisOf d).members = [] := fun d hd => hplain _ (axisOf_mem a d (hsub d hd))
  obtain ⟨r, hr, _, hrd, _, _, _, _, _, _, _⟩ := flatten_spec a dims insert hwf hne hnd hsub hpl
  obtain ⟨r1, hr1, hall⟩ := unflattenAll_flatten a dims insert hwf hne hnd hsub hplain
  obtain ⟨r2, hr2, huax, hud, hup, hush, huat, huvk, _, huval⟩ :=
    unflatten_flatten a dims insert hwf hne hnd hsub hpl
  rw [hr] at hr1 hr2
  injection hr1 with hr1; subst hr1
  injection hr2 with hr2; subst hr2
  rw [← hall] at huax hud hush huat huvk huval
  -- `u := unflattenAll r` is a well-formed array whose dims are a permutation of `a.dims`
  generalize hu : unflattenAll r = u at huax hud hush huat huvk huval
  generalize hN : List.take _ _ ++ dims ++ List.drop _ _ = nd at huax hud hup
  have hndmem : ∀ d ∈ nd, d ∈ a.dims := fun d hd => hup.mem_iff.mp hd
  have huwf : u.WF := by
    refine ⟨hush, ?_, ?_⟩
    · have : u.dims = nd := hud
      simp only [DimArray.dims] at this
      rw [this]; exact hup.nodup_iff.mpr hwf.2.1
    · intro ax hax
      rw [huax] at hax
      obtain ⟨d, hd, rfl⟩ := List.mem_map.mp hax
      exact hwf.2.2 _ (axisOf_mem a d (hndmem d hd))
  have hpu : newdims.Perm u.dims := by rw [hud]; exact hp.trans hup.symm
  have hnn : newdims ≠ [] := by
    intro e
    obtain ⟨d, hd⟩ := List.exists_mem_of_ne_nil dims hne
    have := hp.mem_iff.mpr (hsub d hd)
    rw [e] at this; exact List.not_mem_nil this
  have hneq : (newdims == r.dims) = false := by
    rw [beq_eq_false_iff_ne]
    intro e
    have hJ : ",".intercalate dims ∈ r.dims := by
      rw [hrd]; exact List.mem_append_left _ (List.mem_append_right _ List.mem_cons_self)
    rw [← e] at hJ
    have := (hnc _ hJ).2
    rw [hjoin] at this; exact Bool.noConfusion this
  have hcore := reshape_perm_core r newdims hneq hnn (by rw [hu]; exact huwf.2.1) (by rw [hu]; exact hpu)
    (flatMap_split_id newdims (fun d hd => (hnc d hd).1)) (fun d hd => (hnc d hd).2)
  rw [hu] at hcore
  have hmemu : ∀ d ∈ newdims, d ∈ u.dims := fun d hd => hpu.mem_iff.mp hd
  have huaxis : ∀ d ∈ nd, u.axisOf d = a.axisOf d := by
    intro d hd
    unfold DimArray.axisOf
    have hi : nd.idxOf d < nd.length := List.idxOf_lt_length_of_mem hd
    have hud' : u.dims = nd := hud
    rw [hud', huax, List.getD_eq_getElem?_getD, List.getElem?_map, List.getElem?_eq_getElem hi,
      List.getElem_idxOf hi]
    rfl
  refine ⟨r, _, hr, hcore, ?_, transposeTo_dims u newdims hmemu, transposeTo_shape u newdims hush hmemu,
    huat, huvk, ?_⟩
  · rw [transposeTo_axes]
    apply List.map_congr_left
    intro d hd
    exact huaxis d (by have := hmemu d hd; rw [hud] at this; exact this)
  · intro c hc
    rw [transposeTo_at u newdims huwf hpu c]
    exact huval c hc

/-- non-vacuity of the extra hypotheses of `reshape_group_eq_flatten` / `reshape_flatten_ungroup` -/
example : ["a"] ++ [] = exC11.dims.filter (fun d => !["b", "c"].contains d) ∧
    (",".intercalate ["c", "a"]).contains ',' = true := ⟨by decide, by simp⟩

end DimModel

namespace DimModel
open Lib C11

/-- **reshape inserts the singleton dimensions it needs.**  Target = the dims of a well-formed array
without grouped axes, with one new (comma-free) name inserted at position `pre.length`: `reshape`
succeeds, its squeeze / grouping stages do nothing, and the result has the original axes with a
singleton axis (label `None`) inserted there, and the same element at every name-addressed
coordinate (the new dimension is ignored). -/
theorem reshape_add_singleton {α} (a : DimArray α) (pre post : List String) (new : String)
    (hwf : a.WF) (hplain : ∀ ax ∈ a.axes, ax.members = [])
    (hd : a.dims = pre ++ post) (hnew : new ∉ a.dims)
    (hnc : ∀ d ∈ pre ++ [new] ++ post, splitOnComma d = [d] ∧ d.contains ',' = false) :
    ∃ r, reshape a (pre ++ [new] ++ post) = .ok r ∧
      r.axes = a.axes.insertIdx pre.length { name := new, labels := [Label.none], kind := .O } ∧
      r.dims = pre ++ [new] ++ post ∧ r.vals.shape = r.axes.map (·.size) ∧
      r.attrs = a.attrs ∧ r.vkind = a.vkind ∧ ∀ c, r.at c = a.at c := by
  have hD : a.dims.Nodup := hwf.2.1
  have hneq : (pre ++ [new] ++ post == a.dims) = false := by
    rw [beq_eq_false_iff_ne]
    intro e
    have := congrArg List.length e
    rw [hd] at this
    simp only [List.length_append, List.length_singleton] at this
    omega
  have hnd : (pre ++ [new] ++ post).Nodup := by
    have hperm : (pre ++ [new] ++ post).Perm (new :: (pre ++ post)) := by
      rw [List.append_assoc]; exact List.perm_middle
    rw [hperm.nodup_iff, List.nodup_cons, ← hd]
    exact ⟨hnew, hD⟩
  have hflat := flatMap_split_id _ (fun d hd' => (hnc d hd').1)
  have hfil : (pre ++ [new] ++ post).filter (fun d => a.dims.contains d) = a.dims := by
    have h1 : pre.filter (fun d => a.dims.contains d) = pre := by
      rw [List.filter_eq_self]; intro e he
      simp only [List.contains_eq_mem, decide_eq_true_eq, hd]; exact List.mem_append_left _ he
    have h2 : post.filter (fun d => a.dims.contains d) = post := by
      rw [List.filter_eq_self]; intro e he
      simp only [List.contains_eq_mem, decide_eq_true_eq, hd]; exact List.mem_append_right _ he
    have h3 : [new].filter (fun d => a.dims.contains d) = [] := by
      rw [List.filter_eq_nil_iff]; intro e he
      simp only [List.mem_singleton] at he; subst he
      simpa only [List.contains_eq_mem, decide_eq_true_eq] using hnew
    rw [List.filter_append, List.filter_append, h1, h2, h3, List.append_nil, hd]
  obtain ⟨o', ho', hax, hsh, hat, hvk, hval⟩ := stTranspose_self a _ hwf hfil
  have hod : o'.dims = pre ++ post := by rw [← hd]; show o'.axes.map _ = _; rw [hax]; rfl
  have hk : pre.length ≤ o'.axes.length := by
    have := congrArg List.length hod
    simp only [DimArray.dims, List.length_map, List.length_append] at this
    omega
  have hrd : (withNewaxis o' new pre.length).dims = pre ++ [new] ++ post := by
    rw [withNewaxis_dims, hod, insertIdx_append_len, List.append_assoc]; rfl
  refine ⟨withNewaxis o' new pre.length, ?_, by rw [← hax]; rfl, hrd, ?_, hat, hvk, ?_⟩
  · rw [reshape_unfold, hneq, hflat, eraseDups_of_nodup _ hnd, unflattenAll_plain a hplain]
    simp only [Bool.false_eq_true, if_false, bne_self_eq_false]
    rw [stSqueeze_id _ _ (fun e he => by
      rw [hd] at he
      rcases List.mem_append.mp he with h | h
      · exact List.mem_append_left _ (List.mem_append_left _ h)
      · exact List.mem_append_right _ h), pure_bind, ho']
    show (do let o ← stNewaxis _ o'; _) = _
    rw [stNewaxis_one pre post new o' hod (by rw [hod, ← hd]; exact hnew)]
    show (do let o ← stGroup _ 0 (withNewaxis o' new pre.length); _) = _
    rw [stGroup_id _ _ _ (fun e he => (hnc e he).2)]
    show (if ((withNewaxis o' new pre.length).dims != pre ++ [new] ++ post) = true then _ else _) = _
    rw [hrd]
    simp only [bne_self_eq_false, Bool.false_eq_true, if_false]
    rfl
  · show (o'.vals.shape.insertIdx pre.length 1) = (o'.axes.insertIdx pre.length _).map (·.size)
    rw [map_insertIdx, hsh, hax, hwf.1]
    rfl
  · intro c
    rw [← hval c]
    exact newaxis_at o' new pre.length hk c

/-- non-vacuity of `reshape_add_singleton` -/
example : exC11.WF ∧ (∀ ax ∈ exC11.axes, ax.members = []) ∧ exC11.dims = ["a"] ++ ["b", "c"] ∧
    "n" ∉ exC11.dims ∧
    (∀ d ∈ ["a"] ++ ["n"] ++ ["b", "c"], splitOnComma d = [d] ∧ d.contains ',' = false) := by
  refine ⟨by decide, by decide, by decide, by decide, ?_⟩
  intro d hd
  simp only [List.cons_append, List.nil_append, List.mem_cons, List.mem_nil_iff, or_false] at hd
  rcases hd with rfl | rfl | rfl | rfl <;>
    exact ⟨by simp (decide := true) [splitOnComma, String.splitOn, String.splitOnAux], by simp⟩

/-- **reshape removes the singleton dimensions that are not in the target.**  Target = the dims of
a well-formed array without grouped axes minus one dimension `d` of size 1: `reshape` succeeds, the
result has the remaining whole axes, and its element at a coordinate is the original element at that
coordinate and position 0 along `d`. -/
theorem reshape_drop_singleton {α} (a : DimArray α) (pre post : List String) (d : String)
    (hwf : a.WF) (hplain : ∀ ax ∈ a.axes, ax.members = [])
    (hd : a.dims = pre ++ d :: post) (hsize : (a.axisOf d).size = 1)
    (hnc : ∀ e ∈ pre ++ post, splitOnComma e = [e] ∧ e.contains ',' = false) :
    ∃ r, reshape a (pre ++ post) = .ok r ∧
      r.axes = a.axes.eraseIdx pre.length ∧ r.dims = pre ++ post ∧
      r.vals.shape = r.axes.map (·.size) ∧ r.attrs = a.attrs ∧ r.vkind = a.vkind ∧
      ∀ c, r.at c = a.at (fun e => if e = d then 0 else c e) := by
  have hD : a.dims.Nodup := hwf.2.1
  have hneq : (pre ++ post == a.dims) = false := by
    rw [beq_eq_false_iff_ne]
    intro e
    have := congrArg List.length e
    rw [hd] at this
    simp only [List.length_append, List.length_cons] at this
    omega
  have hlen : pre.length < a.axes.length := by
    have := congrArg List.length hd
    simp only [DimArray.dims, List.length_map, List.length_append, List.length_cons] at this
    omega
  have h1d : (withoutAxis a pre.length).dims = pre ++ post := by
    show (a.axes.eraseIdx pre.length).map (·.name) = _
    rw [map_eraseIdx]
    have : a.axes.map (·.name) = pre ++ d :: post := hd
    rw [this, eraseIdx_append_len]
  have hnd : (pre ++ post).Nodup := by
    have hs : (pre ++ post).Sublist (pre ++ d :: post) :=
      List.Sublist.append (List.Sublist.refl _) (List.sublist_cons_self _ _)
    rw [hd] at hD
    exact hs.nodup hD
  have h1wf : (withoutAxis a pre.length).WF := by
    refine ⟨?_, ?_, ?_⟩
    · show a.vals.shape.eraseIdx pre.length = (a.axes.eraseIdx pre.length).map (·.size)
      rw [map_eraseIdx, hwf.1]
    · have := h1d
      simp only [DimArray.dims] at this
      rw [this]; exact hnd
    · intro ax hax
      exact hwf.2.2 ax (List.mem_of_mem_eraseIdx hax)
  have hflat := flatMap_split_id _ (fun e he => (hnc e he).1)
  have hfil : (pre ++ post).filter (fun e => (withoutAxis a pre.length).dims.contains e)
      = (withoutAxis a pre.length).dims := by
    rw [h1d, List.filter_eq_self]
    intro e he
    simpa only [List.contains_eq_mem, decide_eq_true_eq] using he
  obtain ⟨o', ho', hax, hsh, hat, hvk, hval⟩ := stTranspose_self _ _ h1wf hfil
  have hod : o'.dims = pre ++ post := by rw [← h1d]; show o'.axes.map _ = _; rw [hax]; rfl
  refine ⟨o', ?_, hax, hod, ?_, hat, hvk, ?_⟩
  · rw [reshape_unfold, hneq, hflat, eraseDups_of_nodup _ hnd, unflattenAll_plain a hplain]
    simp only [Bool.false_eq_true, if_false, bne_self_eq_false]
    rw [stSqueeze_one pre post d a hd hD hsize]
    show (do let o ← stTranspose _ (withoutAxis a pre.length); _) = _
    rw [ho']
    show (do let o ← stNewaxis _ o'; _) = _
    rw [stNewaxis_id _ _ (fun e he => by rw [hod]; exact he)]
    show (do let o ← stGroup _ 0 o'; _) = _
    rw [stGroup_id _ _ _ (fun e he => (hnc e he).2)]
    show (if (o'.dims != pre ++ post) = true then _ else _) = _
    rw [hod]
    simp only [bne_self_eq_false, Bool.false_eq_true, if_false]
    rfl
  · rw [hsh, hax]; exact h1wf.1
  · intro c
    rw [hval c]
    have hname : (a.axes.getD pre.length default).name = d := by
      have h := axisOf_name a d (by rw [hd]; exact List.mem_append_right _ List.mem_cons_self)
      have hidx : a.dims.idxOf d = pre.length := by
        have hdpre : d ∉ pre := by
          rw [hd, List.nodup_append] at hD
          exact fun h => hD.2.2 d h d List.mem_cons_self rfl
        rw [hd, List.idxOf_append, if_neg hdpre, List.idxOf_cons_self, Nat.zero_add]
      unfold DimArray.axisOf at h
      rwa [hidx] at h
    have := squeezeDim_at a pre.length hlen hD c
    rw [hname] at this
    exact this

/-- non-vacuity of `reshape_drop_singleton` -/
example :
    let s : DimArray Nat :=
      { axes := [ { name := "a", labels := [.num 1, .num 2], kind := .i },
                  { name := "k", labels := [.num 7], kind := .i },
                  { name := "c", labels := [.num 10, .num 20], kind := .i } ]
        vals := { shape := [2, 1, 2], get := fun i => ravel [2, 1, 2] i } }
    s.WF ∧ (∀ ax ∈ s.axes, ax.members = []) ∧ s.dims = ["a"] ++ "k" :: ["c"] ∧ (s.axisOf "k").size = 1 ∧
    (∀ e ∈ ["a"] ++ ["c"], splitOnComma e = [e] ∧ e.contains ',' = false) := by
  refine ⟨by decide, by decide, by decide, by decide, ?_⟩
  intro d hd
  simp only [List.cons_append, List.nil_append, List.mem_cons, List.mem_nil_iff, or_false] at hd
  rcases hd with rfl | rfl <;>
    exact ⟨by simp (decide := true) [splitOnComma, String.splitOn, String.splitOnAux], by simp⟩

end DimModel

namespace DimModel
open Lib C11

/-- **the value equations speak about every element**: every in-range index of the flattened
array (shape `pre ++ [G] ++ post` over the remaining dims) has the form used in `flatten_spec` /
`reshape_group`, for an in-range assignment `c` of the remaining dims and a grouped position `g < G`. -/
theorem flatten_index_cover (rest : List String) (hnd : rest.Nodup) (sz : String → Nat) (ins G : Nat)
    (i : List Nat)
    (hi : InRange ((rest.take ins).map sz ++ [G] ++ (rest.drop ins).map sz) i) :
    ∃ (c : String → Nat) (g : Nat), (∀ d ∈ rest, c d < sz d) ∧ g < G ∧
      i = (rest.take ins).map c ++ [g] ++ (rest.drop ins).map c := by
  obtain ⟨i12, i3, e1, h12, h3⟩ := inRange_append_inv _ _ _ hi
  obtain ⟨i1, i2, e2, h1, h2⟩ := inRange_append_inv _ _ _ h12
  subst e1 e2
  obtain ⟨g, rfl, hg⟩ : ∃ g, i2 = [g] ∧ g < G := by
    match i2, h2 with
    | [g], h => exact ⟨g, rfl, h.1⟩
  have h13 : InRange (rest.map sz) (i1 ++ i3) := by
    have := inRange_append _ _ _ _ h1 h3
    rwa [← List.map_append, List.take_append_drop] at this
  obtain ⟨c, hc, e⟩ := index_of_assignment rest hnd sz _ h13
  refine ⟨c, g, hc, hg, ?_⟩
  have hl1 : i1.length = (rest.take ins).length := by rw [inRange_length h1, List.length_map]
  have e' : i1 ++ i3 = (rest.take ins).map c ++ (rest.drop ins).map c := by
    rw [e, ← List.map_append, List.take_append_drop]
  have hl1' : i1.length = ((rest.take ins).map c).length := by rw [hl1, List.length_map]
  obtain ⟨ea, eb⟩ := List.append_inj e' hl1'
  rw [ea, eb]

/-- every in-range index of an array with duplicate-free dims is `dims.map c` for an in-range `c`,
so the name-addressed statements (`.at c`) of `unflatten_flatten`, `reshape_transpose`,
`reshape_flatten_ungroup` speak about every element -/
theorem at_index_cover {α} (a : DimArray α) (hwf : a.WF) (i : List Nat) (hi : InRange a.vals.shape i) :
    ∃ c : String → Nat, (∀ d ∈ a.dims, c d < (a.axisOf d).size) ∧ i = a.dims.map c ∧
      a.vals.get i = a.at c := by
  have hsh : a.vals.shape = a.dims.map (fun d => (a.axisOf d).size) := by
    rw [hwf.1, ← map_axisOf_dims a hwf.2.1, List.map_map]; rfl
  rw [hsh] at hi
  obtain ⟨c, hc, e⟩ := index_of_assignment a.dims hwf.2.1 _ i hi
  exact ⟨c, hc, e, by rw [e]; rfl⟩

/-- Why `flatten_spec` asks for plain (not already grouped) listed dimensions: the model stores the
members of a grouped axis as plain axes, so grouping an already grouped axis loses its members and
the modelled size collapses to 0 (here 0 instead of 4 * 2).  Python's `MultiAxis` nests instead
(`size = prod(ax.size for ax in axes)`), so this is a limit of the model, not of the library. -/
example :
    let g : Axis := multiAxis [ { name := "a", labels := [.num 1, .num 2], kind := .i },
                                { name := "b", labels := [.num 1, .num 2], kind := .i } ]
    let c : Axis := { name := "c", labels := [.num 1, .num 2], kind := .i }
    g.size = 4 ∧ (multiAxis [g, c]).size = 0 := by decide

end DimModel

/-
C11 - property theorems: flatten / unflatten / reshape group dimensions losslessly.
Row-major index arithmetic (ravel / unravel) and the value equation of grouping.
-/
import DimModel.Lib.Reshape
namespace DimModel
open Lib

/-! ### row-major index arithmetic -/

theorem prod_nil : prod [] = 1 := rfl
theorem prod_cons (n : Nat) (s : List Nat) : prod (n :: s) = n * prod s := rfl

/-- `i < n`, `r < p` gives `i * p + r < n * p` -/
theorem mul_add_lt {i n r p : Nat} (hi : i < n) (hr : r < p) : i * p + r < n * p := by
  have h1 : (i + 1) * p ≤ n * p := Nat.mul_le_mul_right p hi
  have h2 : (i + 1) * p = i * p + p := Nat.succ_mul i p
  omega

theorem ravel_lt (s i : List Nat) (h : InRange s i) : ravel s i < prod s := by
  induction s generalizing i with
  | nil =>
    cases i with
    | nil => simp [ravel, prod]
    | cons _ _ => simp [InRange] at h
  | cons n s ih =>
    cases i with
    | nil => simp [InRange] at h
    | cons i is =>
      simp only [InRange] at h
      simp only [ravel, prod_cons]
      exact mul_add_lt h.1 (ih is h.2)

theorem unravel_ravel (s i : List Nat) (h : InRange s i) : unravel s (ravel s i) = i := by
  induction s generalizing i with
  | nil =>
    cases i with
    | nil => simp [unravel]
    | cons _ _ => simp [InRange] at h
  | cons n s ih =>
    cases i with
    | nil => simp [InRange] at h
    | cons i is =>
      simp only [InRange] at h
      have hr : ravel s is < prod s := ravel_lt s is h.2
      have hp : 0 < prod s := by omega
      simp only [ravel, unravel]
      have hd : (i * prod s + ravel s is) / prod s = i := by
        rw [Nat.add_comm, Nat.add_mul_div_right _ _ hp, Nat.div_eq_of_lt hr, Nat.zero_add]
      have hm : (i * prod s + ravel s is) % prod s = ravel s is := by
        rw [Nat.add_comm, Nat.add_mul_mod_self_right, Nat.mod_eq_of_lt hr]
      rw [hd, hm, ih is h.2]

theorem ravel_unravel (s : List Nat) (k : Nat) (h : k < prod s) : ravel s (unravel s k) = k := by
  induction s generalizing k with
  | nil =>
    simp only [prod_nil] at h
    simp only [ravel]
    omega
  | cons n s ih =>
    simp only [prod_cons] at h
    have hp : 0 < prod s := by
      cases hps : prod s with
      | zero => rw [hps, Nat.mul_zero] at h; omega
      | succ _ => omega
    simp only [unravel, ravel]
    rw [ih _ (Nat.mod_lt _ hp), Nat.mul_comm]
    exact Nat.div_add_mod k (prod s)

theorem unravel_inRange (s : List Nat) (k : Nat) (h : k < prod s) : InRange s (unravel s k) := by
  induction s generalizing k with
  | nil => simp [unravel, InRange]
  | cons n s ih =>
    simp only [prod_cons] at h
    have hp : 0 < prod s := by
      cases hps : prod s with
      | zero => rw [hps, Nat.mul_zero] at h; omega
      | succ _ => omega
    simp only [unravel, InRange]
    refine ⟨?_, ih _ (Nat.mod_lt _ hp)⟩
    apply Nat.div_lt_of_lt_mul
    rw [Nat.mul_comm]; exact h

theorem inRange_append (s1 s2 i1 i2 : List Nat) (h1 : InRange s1 i1) (h2 : InRange s2 i2) :
    InRange (s1 ++ s2) (i1 ++ i2) := by
  induction s1 generalizing i1 with
  | nil =>
    cases i1 with
    | nil => simpa using h2
    | cons _ _ => simp [InRange] at h1
  | cons n s ih =>
    cases i1 with
    | nil => simp [InRange] at h1
    | cons i is =>
      simp only [InRange] at h1
      simp only [List.cons_append, InRange]
      exact ⟨h1.1, ih is h1.2⟩

theorem prod_append (s1 s2 : List Nat) : prod (s1 ++ s2) = prod s1 * prod s2 := by
  induction s1 with
  | nil => simp [prod]
  | cons n s ih => simp only [List.cons_append, prod_cons, ih, Nat.mul_assoc]

theorem ravel_append (s1 s2 i1 i2 : List Nat) (h1 : InRange s1 i1) (h2 : InRange s2 i2) :
    ravel (s1 ++ s2) (i1 ++ i2) = ravel s1 i1 * prod s2 + ravel s2 i2 := by
  have _ := h2  -- not needed: the equation holds for any `i2`
  induction s1 generalizing i1 with
  | nil =>
    cases i1 with
    | nil => simp [ravel]
    | cons _ _ => simp [InRange] at h1
  | cons n s ih =>
    cases i1 with
    | nil => simp [InRange] at h1
    | cons i is =>
      simp only [InRange] at h1
      simp only [List.cons_append, ravel]
      rw [ih is h1.2, prod_append, Nat.add_mul, Nat.mul_assoc, Nat.add_assoc]

/-! ### grouping a block of dimensions -/

theorem inRange_singleton (n g : Nat) (h : g < n) : InRange [n] [g] := by
  simp [InRange, h]

/-- **the value equation of flatten**: after reshaping `pre ++ grp ++ post` into
`pre ++ [prod grp] ++ post` (what `values.reshape(newshape)` does for a contiguous group), the
element at grouped position `g` is the original element at the member coordinates `unravel grp g`,
i.e. the `g`-th combination of member positions in row-major order of the listed dimensions. -/
theorem group_get {α : Type} (a : NDArr α) (pre grp post : List Nat) (hshape : a.shape = pre ++ grp ++ post)
    (i1 i2 : List Nat) (g : Nat) (h1 : InRange pre i1) (hg : g < prod grp) (h2 : InRange post i2) :
    (a.reshape (pre ++ [prod grp] ++ post)).get (i1 ++ [g] ++ i2) = a.get (i1 ++ unravel grp g ++ i2) := by
  have hu : InRange grp (unravel grp g) := unravel_inRange grp g hg
  have hgs : InRange [prod grp] [g] := inRange_singleton _ _ hg
  have hL : ravel (pre ++ [prod grp] ++ post) (i1 ++ [g] ++ i2)
      = ravel (pre ++ grp ++ post) (i1 ++ unravel grp g ++ i2) := by
    rw [ravel_append _ _ _ _ (inRange_append _ _ _ _ h1 hgs) h2,
      ravel_append _ _ _ _ h1 hgs,
      ravel_append _ _ _ _ (inRange_append _ _ _ _ h1 hu) h2,
      ravel_append _ _ _ _ h1 hu, ravel_unravel grp g hg]
    simp [ravel, prod]
  show a.get (unravel a.shape (ravel (pre ++ [prod grp] ++ post) (i1 ++ [g] ++ i2))) = _
  rw [hshape, hL,
    unravel_ravel _ _ (inRange_append _ _ _ _ (inRange_append _ _ _ _ h1 hu) h2)]

/-- more generally any reshape round trip of equal size is the identity -/
theorem reshape_roundtrip_get {α : Type} (a : NDArr α) (s : List Nat) (hs : prod s = prod a.shape)
    (i : List Nat) (hi : InRange a.shape i) :
    ((a.reshape s).reshape a.shape).get i = a.get i := by
  show a.get (unravel a.shape (ravel s (unravel s (ravel a.shape i)))) = a.get i
  have hlt : ravel a.shape i < prod s := by rw [hs]; exact ravel_lt _ _ hi
  rw [ravel_unravel s _ hlt, unravel_ravel _ _ hi]

/-- **unflatten after flatten is the identity on the values**: reshaping back restores every
element at its original index -/
theorem ungroup_group_get {α : Type} (a : NDArr α) (pre grp post : List Nat) (hshape : a.shape = pre ++ grp ++ post)
    (i : List Nat) (hi : InRange a.shape i) :
    ((a.reshape (pre ++ [prod grp] ++ post)).reshape a.shape).get i = a.get i := by
  apply reshape_roundtrip_get a _ _ i hi
  rw [hshape]
  simp only [prod_append, prod_cons, prod_nil, Nat.mul_one]

/-! ### the grouped axis -/

/-- the tuple labels of a grouped axis, derived from the members (what `MultiAxis.values` computes
through `_flatten`: meshgrid 'ij' + ravel) -/
def tupleLabels : List Axis0 → List (List Label)
  | [] => [[]]
  | m :: ms => m.labels.flatMap fun l => (tupleLabels ms).map (l :: ·)

theorem tupleLabels_length (ms : List Axis0) : (tupleLabels ms).length = prod (ms.map (·.labels.length)) := by
  induction ms with
  | nil => rfl
  | cons m ms ih =>
    simp only [tupleLabels, List.map_cons, prod_cons]
    rw [← ih]
    generalize m.labels = L
    induction L with
    | nil => simp
    | cons l L ihL =>
      simp only [List.flatMap_cons, List.length_append, List.length_map, List.length_cons, ihL]
      rw [Nat.succ_mul, Nat.add_comm]

/-- indexing a block list: `q`-th block, `r`-th element of the block -/
theorem flatMap_block_get (L : List Label) (T : List (List Label)) (q r : Nat)
    (hq : q < L.length) (hr : r < T.length) :
    (L.flatMap fun l => T.map (l :: ·))[q * T.length + r]? =
      some (L.getD q Label.none :: T.getD r []) := by
  induction L generalizing q with
  | nil => simp at hq
  | cons l L ih =>
    cases q with
    | zero =>
      simp only [List.flatMap_cons, Nat.zero_mul, Nat.zero_add]
      rw [List.getElem?_append_left (by simpa using hr)]
      simp [List.getElem?_map, List.getElem?_eq_getElem hr]
    | succ q =>
      simp only [List.flatMap_cons]
      rw [List.getElem?_append_right (by
        simp only [List.length_map]; rw [Nat.succ_mul]; omega)]
      have he : (q + 1) * T.length + r - (List.map (fun x => l :: x) T).length = q * T.length + r := by
        simp only [List.length_map]; rw [Nat.succ_mul]; omega
      rw [he, ih q (by simpa using hq)]
      simp

/-- the `g`-th tuple label is the combination of member labels at `unravel sizes g` (row-major) -/
theorem tupleLabels_get (ms : List Axis0) (g : Nat) (hg : g < prod (ms.map (·.labels.length))) :
    (tupleLabels ms)[g]? = some ((ms.zip (unravel (ms.map (·.labels.length)) g)).map
        (fun (m, k) => m.labels.getD k Label.none)) := by
  induction ms generalizing g with
  | nil =>
    simp only [List.map_nil, prod_nil] at hg
    have : g = 0 := by omega
    subst this
    simp [tupleLabels, unravel]
  | cons m ms ih =>
    simp only [List.map_cons, prod_cons] at hg
    have hlen := tupleLabels_length ms
    have hp : 0 < prod (ms.map (·.labels.length)) := by
      cases hps : prod (ms.map (·.labels.length)) with
      | zero => rw [hps, Nat.mul_zero] at hg; omega
      | succ _ => omega
    have hq : g / prod (ms.map (·.labels.length)) < m.labels.length := by
      apply Nat.div_lt_of_lt_mul; rw [Nat.mul_comm]; exact hg
    have hr : g % prod (ms.map (·.labels.length)) < prod (ms.map (·.labels.length)) := Nat.mod_lt _ hp
    have hsplit : g = g / (tupleLabels ms).length * (tupleLabels ms).length
        + g % (tupleLabels ms).length := by
      rw [Nat.mul_comm]; exact (Nat.div_add_mod g _).symm
    have hblock := flatMap_block_get m.labels (tupleLabels ms) (g / (tupleLabels ms).length)
      (g % (tupleLabels ms).length) (by rw [hlen]; exact hq) (by rw [hlen]; exact hr)
    rw [← hsplit] at hblock
    simp only [tupleLabels, List.map_cons, unravel, List.zip_cons_cons]
    rw [hblock, hlen]
    have ih' := ih _ hr
    congr 2
    rw [List.getD_eq_getElem?_getD, ih']
    rfl

theorem foldl_mul_eq (l : List Nat) (a : Nat) : l.foldl (· * ·) a = a * prod l := by
  induction l generalizing a with
  | nil => simp [prod]
  | cons x l ih => simp only [List.foldl_cons, ih, prod_cons, Nat.mul_assoc]

/-- the grouped axis is named by the comma-joined member names, in the listed order, and its size
is the product of the member sizes.  (`ms ≠ []`: the model gives the degenerate `MultiAxis()` of
zero members size `0` (it has no members, hence counts as a plain axis with no labels), while the
empty product is `1`.) -/
theorem multiAxis_name_size (ms : List Axis) (hne : ms ≠ []) (hplain : ∀ m ∈ ms, m.members = []) :
    (multiAxis ms).name = ",".intercalate (ms.map (·.name)) ∧
    (multiAxis ms).size = prod (ms.map (·.size)) := by
  refine ⟨rfl, ?_⟩
  have hE : (ms.map Axis.toAxis0).isEmpty = false := by
    cases ms with
    | nil => exact absurd rfl hne
    | cons _ _ => rfl
  have hsz : ms.map (·.size) = (ms.map Axis.toAxis0).map (·.labels.length) := by
    rw [List.map_map]
    apply List.map_congr_left
    intro m hm
    simp [Axis.size, hplain m hm, Axis.toAxis0]
  rw [hsz]
  show (if (ms.map Axis.toAxis0).isEmpty then _ else _) = _
  rw [hE, foldl_mul_eq, Nat.one_mul]
  rfl

/-- non-vacuity -/
example : unravel [2, 3] 4 = [1, 1] ∧ ravel [2, 3] [1, 1] = 4 ∧ InRange [2, 3] [1, 1] := by decide

end DimModel

/-
C09 - property theorems: cumulative, difference and arg-extremum operations keep the axis
bookkeeping right.
-/
import DimModel.Lib.Missing
namespace DimModel
open Lib

/-! ### list helpers -/

private theorem getD_set_self {β : Type} (l : List β) (i : Nat) (x d : β) (h : i < l.length) :
    (l.set i x).getD i d = x := by
  rw [List.getD_eq_getElem?_getD, List.getElem?_set_self h]; rfl

private theorem map_getD_succ_range (L : List Label) :
    ((List.range (L.length - 1)).map (· + 1)).map (fun p => L.getD p Label.none) = L.drop 1 := by
  apply List.ext_getElem
  · simp
  · intro i h1 h2
    simp only [List.length_map, List.length_range] at h1
    simp only [List.getElem_map, List.getElem_range, List.getElem_drop]
    rw [List.getD_eq_getElem?_getD, List.getElem?_eq_getElem (by omega)]
    simp [Nat.add_comm]

private theorem map_getD_range (L : List Label) :
    (List.range (L.length - 1)).map (fun p => L.getD p Label.none) = L.dropLast := by
  apply List.ext_getElem
  · simp
  · intro i h1 h2
    simp only [List.length_map, List.length_range] at h1
    simp only [List.getElem_map, List.getElem_range, List.getElem_dropLast]
    rw [List.getD_eq_getElem?_getD, List.getElem?_eq_getElem (by omega)]
    rfl

/-- cumulative transforms return all axes unchanged, and the metadata -/
theorem cum_axes_unchanged {α : Type} (scan : List α → α) (a o r : DimArray α) (ax : AxisArg) (pos : Nat)
    (hd : dealWithAxis a ax = .ok (o, some pos)) (h : cumAxis scan a ax = .ok (.inr r)) :
    r.axes = o.axes ∧ r.attrs = o.attrs ∧ r.vals.shape = o.vals.shape := by
  unfold cumAxis at h
  rw [hd] at h
  simp only [bind, Except.bind, pure, Except.pure] at h
  injection h with h
  injection h with h
  subst h
  exact ⟨rfl, rfl, rfl⟩

/-- cell `k` along the axis is the scan of the prefix of length `k+1` of the fibre through it -/
theorem cum_prefix {α : Type} (scan : List α → α) (a o r : DimArray α) (ax : AxisArg) (pos : Nat)
    (hd : dealWithAxis a ax = .ok (o, some pos)) (h : cumAxis scan a ax = .ok (.inr r)) (j : List Nat) :
    r.vals.get j = scan ((fibre o pos (j.eraseIdx pos)).take (j.getD pos 0 + 1)) := by
  unfold cumAxis at h
  rw [hd] at h
  simp only [bind, Except.bind, pure, Except.pure] at h
  injection h with h
  injection h with h
  subst h
  rfl

/-- backward differences drop the first label of the differenced axis -/
theorem diff1_backward_labels {α : Type} (sub : α → α → α) (nan : α) (o r : DimArray α) (pos : Nat)
    (hpos : pos < o.axes.length) (hplain : (o.axes.getD pos default).members = [])
    (hsz : o.vals.shape.getD pos 0 = (o.axes.getD pos default).labels.length)
    (h : diff1 sub nan o pos .backward false = .ok r) :
    (r.axes.getD pos default).labels = (o.axes.getD pos default).labels.drop 1 := by
  unfold diff1 at h
  simp only [bind, Except.bind, pure, Except.pure] at h
  injection h with h
  subst h
  simp only [getD_set_self _ _ _ _ hpos, axisSelect, hsz]
  exact map_getD_succ_range _

/-- forward differences drop the last label -/
theorem diff1_forward_labels {α : Type} (sub : α → α → α) (nan : α) (o r : DimArray α) (pos : Nat)
    (hpos : pos < o.axes.length) (hplain : (o.axes.getD pos default).members = [])
    (hsz : o.vals.shape.getD pos 0 = (o.axes.getD pos default).labels.length)
    (h : diff1 sub nan o pos .forward false = .ok r) :
    (r.axes.getD pos default).labels = (o.axes.getD pos default).labels.dropLast := by
  unfold diff1 at h
  simp only [bind, Except.bind, pure, Except.pure] at h
  injection h with h
  subst h
  simp only [getD_set_self _ _ _ _ hpos, axisSelect, hsz]
  exact map_getD_range _

/-- centered differences take successive midpoints of the (numeric) labels -/
theorem diff1_centered_labels {α : Type} (sub : α → α → α) (nan : α) (o r : DimArray α) (pos : Nat)
    (hpos : pos < o.axes.length) (h : diff1 sub nan o pos .centered false = .ok r) :
    midLabels (o.axes.getD pos default).labels = some (r.axes.getD pos default).labels := by
  unfold diff1 at h
  simp only [bind, Except.bind, pure, Except.pure] at h
  split at h
  · rename_i ls hls
    injection h with h
    subst h
    simp only [getD_set_self _ _ _ _ hpos]
    exact hls
  · cases h

/-- with keepaxis the original labels are kept -/
theorem diff1_keepaxis_labels {α : Type} (sub : α → α → α) (nan : α) (o r : DimArray α) (pos : Nat) (s : Scheme)
    (hpos : pos < o.axes.length) (h : diff1 sub nan o pos s true = .ok r) :
    (r.axes.getD pos default).labels = (o.axes.getD pos default).labels := by
  unfold diff1 at h
  simp only [bind, Except.bind, pure, Except.pure] at h
  cases s
  · simp only at h
    split at h
    · cases h
    · injection h with h
      subst h
      simp only [getD_set_self _ _ _ _ hpos]
  · simp only at h
    split at h
    · cases h
    · injection h with h
      subst h
      simp only [getD_set_self _ _ _ _ hpos]
  · cases h

/-- without keepaxis the values are the first differences of each fibre: out[k] = a[k+1] - a[k] -/
theorem diff1_values {α : Type} (sub : α → α → α) (nan : α) (o r : DimArray α) (pos : Nat) (s : Scheme)
    (h : diff1 sub nan o pos s false = .ok r) (j : List Nat) :
    r.vals.get j = sub (o.vals.get (j.set pos (j.getD pos 0 + 1))) (o.vals.get j) := by
  unfold diff1 at h
  simp only [bind, Except.bind, pure, Except.pure] at h
  cases s
  · simp only at h
    injection h with h
    subst h
    rfl
  · simp only at h
    injection h with h
    subst h
    rfl
  · simp only at h
    split at h
    · injection h with h
      subst h
      rfl
    · cases h

/-- with keepaxis the differences are padded with NaN on the matching side -/
theorem diff1_keepaxis_pad {α : Type} (sub : α → α → α) (nan : α) (o r : DimArray α) (pos : Nat)
    (h : diff1 sub nan o pos .backward true = .ok r) (j : List Nat) (hj : j.getD pos 0 = 0) :
    r.vals.get j = nan := by
  unfold diff1 at h
  simp only [bind, Except.bind, pure, Except.pure] at h
  split at h
  · cases h
  · injection h with h
    subst h
    simp only [hj, beq_self_eq_true, if_true]

/-- all other axes and the metadata are untouched by diff -/
theorem diff1_other_axes {α : Type} (sub : α → α → α) (nan : α) (o r : DimArray α) (pos : Nat) (s : Scheme) (k : Bool)
    (h : diff1 sub nan o pos s k = .ok r) (i : Nat) (hi : i ≠ pos) :
    r.axes[i]? = o.axes[i]? ∧ r.attrs = o.attrs := by
  unfold diff1 at h
  simp only [bind, Except.bind, pure, Except.pure] at h
  have key : ∀ (x : Axis) v, r = { axes := o.axes.set pos x, vals := v, vkind := o.vkind, attrs := o.attrs } →
      r.axes[i]? = o.axes[i]? ∧ r.attrs = o.attrs := by
    intro x v hr
    subst hr
    exact ⟨List.getElem?_set_ne (Ne.symm hi), rfl⟩
  cases s <;> cases k <;> simp only at h
  · injection h with h; exact key _ _ h.symm
  · split at h
    · cases h
    · injection h with h; exact key _ _ h.symm
  · injection h with h; exact key _ _ h.symm
  · split at h
    · cases h
    · injection h with h; exact key _ _ h.symm
  · split at h
    · injection h with h; exact key _ _ h.symm
    · cases h
  · cases h

/-- arg-extrema return labels: every result cell is the label picked on the fibre through it, among
the labels of the reduced axis; the remaining axes are kept in order -/
theorem arg_labels {α : Type} (pick : List α → List Label → α) (a : DimArray α) (k : DimKey) (pos : Nat) (r : DimArray α)
    (hpos : dealWithAxis a (.one k) = .ok (a, some pos)) (hrank : a.ndim ≠ 1)
    (hplain : (a.axes.getD pos default).members = [])
    (h : argAxis pick a (.one k) = .ok (.inr r)) :
    r.axes = a.axes.eraseIdx pos ∧
    ∀ j, r.vals.get j = pick (fibre a pos j) (a.axes.getD pos default).labels := by
  unfold argAxis at h
  rw [hpos] at h
  simp only [bind, Except.bind, pure, Except.pure] at h
  have hr : (a.ndim == 1) = false := by simpa using hrank
  simp only [hr, hplain, List.isEmpty_nil, if_true] at h
  injection h with h
  injection h with h
  subst h
  exact ⟨rfl, fun _ => rfl⟩

end DimModel

import DimModel.Lib.Missing
namespace DimModel
end DimModel

/-
C09 - property theorems: cumulative, difference and arg-extremum operations keep the axis
bookkeeping right.
-/
import DimModel.Lib.Missing
import DimModel.Proofs.C09
import DimModel.Props.C08
import DimModel.Props.C01
import DimModel.Proofs.C11
namespace DimModel
open Lib

/-! ### list helpers -/

private theorem getD_set_self {β : Type} (l : List β) (i : Nat) (x d : β) (h : i < l.length) :
    (l.set i x).getD i d = x := by
  rw [List.getD_eq_getElem?_getD, List.getElem?_set_self h]; rfl

private theorem map_getD_succ_range (L : List Label) :
    ((List.range (L.length - 1)).map (· + 1)).map (fun p => L.getD p Label.none) = L.drop 1 := by
  apply List.ext_getElem
  · simp
  · intro i h1 h2
    simp only [List.length_map, List.length_range] at h1
    simp only [List.getElem_map, List.getElem_range, List.getElem_drop]
    rw [List.getD_eq_getElem?_getD, List.getElem?_eq_getElem (by omega)]
    simp [Nat.add_comm]

private theorem map_getD_range (L : List Label) :
    (List.range (L.length - 1)).map (fun p => L.getD p Label.none) = L.dropLast := by
  apply List.ext_getElem
  · simp
  · intro i h1 h2
    simp only [List.length_map, List.length_range] at h1
    simp only [List.getElem_map, List.getElem_range, List.getElem_dropLast]
    rw [List.getD_eq_getElem?_getD, List.getElem?_eq_getElem (by omega)]
    rfl

/-- cumulative transforms return all axes unchanged, and the metadata -/
theorem cum_axes_unchanged {α : Type} (scan : List α → α) (a o r : DimArray α) (ax : AxisArg) (pos : Nat)
    (hd : dealWithAxis a ax = .ok (o, some pos)) (h : cumAxis scan a ax = .ok (.inr r)) :
    r.axes = o.axes ∧ r.attrs = o.attrs ∧ r.vals.shape = o.vals.shape := by
  unfold cumAxis at h
  rw [hd] at h
  simp only [bind, Except.bind, pure, Except.pure] at h
  injection h with h
  injection h with h
  subst h
  exact ⟨rfl, rfl, rfl⟩

/-- cell `k` along the axis is the scan of the prefix of length `k+1` of the fibre through it -/
theorem cum_prefix {α : Type} (scan : List α → α) (a o r : DimArray α) (ax : AxisArg) (pos : Nat)
    (hd : dealWithAxis a ax = .ok (o, some pos)) (h : cumAxis scan a ax = .ok (.inr r)) (j : List Nat) :
    r.vals.get j = scan ((fibre o pos (j.eraseIdx pos)).take (j.getD pos 0 + 1)) := by
  unfold cumAxis at h
  rw [hd] at h
  simp only [bind, Except.bind, pure, Except.pure] at h
  injection h with h
  injection h with h
  subst h
  rfl

/-- backward differences drop the first label of the differenced axis -/
theorem diff1_backward_labels {α : Type} (sub : α → α → α) (nan : α) (o r : DimArray α) (pos : Nat)
    (hpos : pos < o.axes.length) (hplain : (o.axes.getD pos default).members = [])
    (hsz : o.vals.shape.getD pos 0 = (o.axes.getD pos default).labels.length)
    (h : diff1 sub nan o pos .backward false = .ok r) :
    (r.axes.getD pos default).labels = (o.axes.getD pos default).labels.drop 1 := by
  unfold diff1 at h
  simp only [bind, Except.bind, pure, Except.pure] at h
  injection h with h
  subst h
  simp only [getD_set_self _ _ _ _ hpos, axisSelect, hsz]
  exact map_getD_succ_range _

/-- forward differences drop the last label -/
theorem diff1_forward_labels {α : Type} (sub : α → α → α) (nan : α) (o r : DimArray α) (pos : Nat)
    (hpos : pos < o.axes.length) (hplain : (o.axes.getD pos default).members = [])
    (hsz : o.vals.shape.getD pos 0 = (o.axes.getD pos default).labels.length)
    (h : diff1 sub nan o pos .forward false = .ok r) :
    (r.axes.getD pos default).labels = (o.axes.getD pos default).labels.dropLast := by
  unfold diff1 at h
  simp only [bind, Except.bind, pure, Except.pure] at h
  injection h with h
  subst h
  simp only [getD_set_self _ _ _ _ hpos, axisSelect, hsz]
  exact map_getD_range _

/-- centered differences take successive midpoints of the (numeric) labels -/
theorem diff1_centered_labels {α : Type} (sub : α → α → α) (nan : α) (o r : DimArray α) (pos : Nat)
    (hpos : pos < o.axes.length) (h : diff1 sub nan o pos .centered false = .ok r) :
    midLabels (o.axes.getD pos default).labels = some (r.axes.getD pos default).labels := by
  unfold diff1 at h
  simp only [bind, Except.bind, pure, Except.pure] at h
  split at h
  · rename_i ls hls
    injection h with h
    subst h
    simp only [getD_set_self _ _ _ _ hpos]
    exact hls
  · cases h

/-- with keepaxis the original labels are kept -/
theorem diff1_keepaxis_labels {α : Type} (sub : α → α → α) (nan : α) (o r : DimArray α) (pos : Nat) (s : Scheme)
    (hpos : pos < o.axes.length) (h : diff1 sub nan o pos s true = .ok r) :
    (r.axes.getD pos default).labels = (o.axes.getD pos default).labels := by
  unfold diff1 at h
  simp only [bind, Except.bind, pure, Except.pure] at h
  cases s
  · simp only at h
    split at h
    · cases h
    · injection h with h
      subst h
      simp only [getD_set_self _ _ _ _ hpos]
  · simp only at h
    split at h
    · cases h
    · injection h with h
      subst h
      simp only [getD_set_self _ _ _ _ hpos]
  · cases h

/-- without keepaxis the values are the first differences of each fibre: out[k] = a[k+1] - a[k] -/
theorem diff1_values {α : Type} (sub : α → α → α) (nan : α) (o r : DimArray α) (pos : Nat) (s : Scheme)
    (h : diff1 sub nan o pos s false = .ok r) (j : List Nat) :
    r.vals.get j = sub (o.vals.get (j.set pos (j.getD pos 0 + 1))) (o.vals.get j) := by
  unfold diff1 at h
  simp only [bind, Except.bind, pure, Except.pure] at h
  cases s
  · simp only at h
    injection h with h
    subst h
    rfl
  · simp only at h
    injection h with h
    subst h
    rfl
  · simp only at h
    split at h
    · injection h with h
      subst h
      rfl
    · cases h

/-- with keepaxis the differences are padded with NaN on the matching side -/
theorem diff1_keepaxis_pad {α : Type} (sub : α → α → α) (nan : α) (o r : DimArray α) (pos : Nat)
    (h : diff1 sub nan o pos .backward true = .ok r) (j : List Nat) (hj : j.getD pos 0 = 0) :
    r.vals.get j = nan := by
  unfold diff1 at h
  simp only [bind, Except.bind, pure, Except.pure] at h
  split at h
  · cases h
  · injection h with h
    subst h
    simp only [hj, beq_self_eq_true, if_true]

/-- all other axes and the metadata are untouched by diff -/
theorem diff1_other_axes {α : Type} (sub : α → α → α) (nan : α) (o r : DimArray α) (pos : Nat) (s : Scheme) (k : Bool)
    (h : diff1 sub nan o pos s k = .ok r) (i : Nat) (hi : i ≠ pos) :
    r.axes[i]? = o.axes[i]? ∧ r.attrs = o.attrs := by
  unfold diff1 at h
  simp only [bind, Except.bind, pure, Except.pure] at h
  have key : ∀ (x : Axis) v, r = { axes := o.axes.set pos x, vals := v, vkind := o.vkind, attrs := o.attrs } →
      r.axes[i]? = o.axes[i]? ∧ r.attrs = o.attrs := by
    intro x v hr
    subst hr
    exact ⟨List.getElem?_set_ne (Ne.symm hi), rfl⟩
  cases s <;> cases k <;> simp only at h
  · injection h with h; exact key _ _ h.symm
  · split at h
    · cases h
    · injection h with h; exact key _ _ h.symm
  · injection h with h; exact key _ _ h.symm
  · split at h
    · cases h
    · injection h with h; exact key _ _ h.symm
  · split at h
    · injection h with h; exact key _ _ h.symm
    · cases h
  · cases h

/-- arg-extrema return labels: every result cell is the label picked on the fibre through it, among
the labels of the reduced axis; the remaining axes are kept in order -/
theorem arg_labels {α : Type} (pick : List α → List Label → α) (a : DimArray α) (k : DimKey) (pos : Nat) (r : DimArray α)
    (hpos : dealWithAxis a (.one k) = .ok (a, some pos)) (hrank : a.ndim ≠ 1)
    (hplain : (a.axes.getD pos default).members = [])
    (h : argAxis pick a (.one k) = .ok (.inr r)) :
    r.axes = a.axes.eraseIdx pos ∧
    ∀ j, r.vals.get j = pick (fibre a pos j) (a.axes.getD pos default).labels := by
  unfold argAxis at h
  rw [hpos] at h
  simp only [bind, Except.bind, pure, Except.pure] at h
  have hr : (a.ndim == 1) = false := by simpa using hrank
  simp only [hr, hplain, List.isEmpty_nil, if_true] at h
  injection h with h
  injection h with h
  subst h
  exact ⟨rfl, fun _ => rfl⟩

/-! ## end-to-end statements: `diff` of order `n`, cumulative scan vs reduction, arg-extrema -/

open AxisLemmas

/-- **diff recurses on `n`**: `n = 0` is the AssertionError, `n = 1` is one differencing step of the
(possibly flattened) array and `n + 2` is one more differencing step applied to the result for `n + 1`
(same axis position, scheme and keepaxis) -/
theorem diffAxis_iterate {α : Type} (sub : α → α → α) (nan : α) (a o : DimArray α) (ax : AxisArg) (pos : Nat)
    (s : Scheme) (k : Bool) (hd : dealWithAxis a ax = .ok (o, some pos)) :
    diffAxis sub nan a ax s k 0 = .error .assertion ∧
    diffAxis sub nan a ax s k 1 = diff1 sub nan o pos s k ∧
    ∀ n, diffAxis sub nan a ax s k (n + 2) =
      (diffAxis sub nan a ax s k (n + 1) >>= fun r => diff1 sub nan r pos s k) := by
  refine ⟨?_, ?_, ?_⟩
  · unfold diffAxis
    simp only [hd, bind, Except.bind, beq_self_eq_true, if_true]
  · rw [diffAxis_eq_go sub nan a o ax pos s k 1 hd (by omega)]
    rfl
  · intro n
    rw [diffAxis_eq_go sub nan a o ax pos s k (n + 2) hd (by omega),
      diffAxis_eq_go sub nan a o ax pos s k (n + 1) hd (by omega), diffGo_succ]

/-- spec: the `n`-th finite difference at 0 of the sequence `f`, in the symbolic subtraction:
`Δ⁰f = f 0`, `Δⁿ⁺¹f = Δⁿ(f shifted by one) - Δⁿf` -/
def nthDiff {α : Type} (sub : α → α → α) : Nat → (Nat → α) → α
  | 0, f => f 0
  | n + 1, f => sub (nthDiff sub n fun m => f (m + 1)) (nthDiff sub n f)

/-- closed forms for `n = 1, 2`: `a[1]-a[0]` and `(a[2]-a[1]) - (a[1]-a[0])` -/
theorem nthDiff_one_two {α : Type} (sub : α → α → α) (f : Nat → α) :
    nthDiff sub 1 f = sub (f 1) (f 0) ∧
    nthDiff sub 2 f = sub (sub (f 2) (f 1)) (sub (f 1) (f 0)) := ⟨rfl, rfl⟩

/-- **values and shape of `diff(n)`** (keepaxis=False, every scheme): the differenced dimension
shrinks by `n` (to 0 when `n` exceeds its size: an empty axis, never an error), the other dimensions,
the rank and the metadata are kept, and the cell at index `j` is the `n`-th finite difference of the
input cells `j, j+1, .., j+n` along the axis -/
theorem diffN_values {α : Type} (sub : α → α → α) (nan : α) (a o r : DimArray α) (ax : AxisArg) (pos : Nat)
    (s : Scheme) (n : Nat) (hd : dealWithAxis a ax = .ok (o, some pos))
    (h : diffAxis sub nan a ax s false n = .ok r) :
    r.vals.shape = o.vals.shape.set pos (o.vals.shape.getD pos 0 - n) ∧
    r.axes.length = o.axes.length ∧ r.attrs = o.attrs ∧
    ∀ j : List Nat, pos < j.length →
      r.vals.get j = nthDiff sub n fun m => o.vals.get (j.set pos (j.getD pos 0 + m)) := by
  have hn : n ≠ 0 := by
    intro h0; subst h0
    rw [(diffAxis_iterate sub nan a o ax pos s false hd).1] at h; cases h
  rw [diffAxis_eq_go sub nan a o ax pos s false n hd hn] at h
  refine diffGo_induct sub nan s false pos o
    (fun m o' => o'.vals.shape = o.vals.shape.set pos (o.vals.shape.getD pos 0 - m) ∧
      o'.axes.length = o.axes.length ∧ o'.attrs = o.attrs ∧
      ∀ j : List Nat, pos < j.length →
        o'.vals.get j = nthDiff sub m fun t => o.vals.get (j.set pos (j.getD pos 0 + t)))
    ?_ ?_ n r h
  · refine ⟨?_, rfl, rfl, ?_⟩
    · rw [Nat.sub_zero, set_getD_self]
    · intro j hj
      show o.vals.get j = o.vals.get (j.set pos (j.getD pos 0 + 0))
      rw [Nat.add_zero, set_getD_self]
  · intro m o' r' ⟨hsh, hlen, hat, hval⟩ hstep
    obtain ⟨h1, h2, h3, _⟩ := diff1_shape sub nan o' r' pos s hstep
    refine ⟨?_, h2.trans hlen, h3.trans hat, ?_⟩
    · rw [h1, hsh, set_set_getD_pred, Nat.sub_sub]
    · intro j hj
      rw [diff1_values sub nan o' r' pos s hstep j, hval j hj,
        hval (j.set pos (j.getD pos 0 + 1)) (by simpa using hj)]
      show _ = sub _ _
      congr 2
      funext t
      rw [getD_set_self' j pos _ 0 hj, List.set_set, Nat.add_assoc, Nat.add_comm 1 t]

/-- `n = 2` in closed form: `out[k] = (a[k+2] - a[k+1]) - (a[k+1] - a[k])` along the axis -/
theorem diff2_values {α : Type} (sub : α → α → α) (nan : α) (a o r : DimArray α) (ax : AxisArg) (pos : Nat)
    (s : Scheme) (hd : dealWithAxis a ax = .ok (o, some pos))
    (h : diffAxis sub nan a ax s false 2 = .ok r) (j : List Nat) (hj : pos < j.length) :
    r.vals.get j =
      sub (sub (o.vals.get (j.set pos (j.getD pos 0 + 2))) (o.vals.get (j.set pos (j.getD pos 0 + 1))))
          (sub (o.vals.get (j.set pos (j.getD pos 0 + 1))) (o.vals.get (j.set pos (j.getD pos 0 + 0)))) :=
  (diffN_values sub nan a o r ax pos s 2 hd h).2.2.2 j hj

/-- backward and forward differences of any order `n ≥ 1` never fail (keepaxis=False), whatever the
size of the axis -/
theorem diffN_total {α : Type} (sub : α → α → α) (nan : α) (a o : DimArray α) (ax : AxisArg) (pos : Nat)
    (s : Scheme) (hs : s ≠ .centered) (n : Nat) (hn : 1 ≤ n) (hd : dealWithAxis a ax = .ok (o, some pos)) :
    ∃ r, diffAxis sub nan a ax s false n = .ok r := by
  rw [diffAxis_eq_go sub nan a o ax pos s false n hd (by omega)]
  clear hn hd
  induction n with
  | zero => exact ⟨o, rfl⟩
  | succ n ih =>
    obtain ⟨o', ho'⟩ := ih
    obtain ⟨r, hr⟩ := diff1_total sub nan o' pos s hs
    exact ⟨r, by rw [diffGo_succ, ho']; exact hr⟩

/-- the labels `L'` of the differenced axis after `n` steps on labels `L`, per scheme -/
def DiffLabels (s : Scheme) (n : Nat) (L L' : List Label) : Prop :=
  match s with
  | .backward => L' = L.drop n
  | .forward => L' = L.take (L.length - n)
  | .centered => midLabelsN n L = some L'

/-- **labels of `diff(n)`**, keepaxis=False: the axis at the differenced position keeps its name;
backward differencing drops the FIRST `n` labels, forward differencing the LAST `n`, centered
differencing takes `n` times the successive midpoints. All other axes are untouched. -/
theorem diffN_labels {α : Type} (sub : α → α → α) (nan : α) (a o r : DimArray α) (ax : AxisArg) (pos : Nat)
    (s : Scheme) (n : Nat) (hd : dealWithAxis a ax = .ok (o, some pos))
    (hpos : pos < o.axes.length) (hshape : pos < o.vals.shape.length)
    (hsz : o.vals.shape.getD pos 0 = (o.axes.getD pos default).labels.length)
    (h : diffAxis sub nan a ax s false n = .ok r) :
    (r.axes.getD pos default).name = (o.axes.getD pos default).name ∧
    (∀ i, i ≠ pos → r.axes[i]? = o.axes[i]?) ∧
    r.vals.shape.getD pos 0 = (r.axes.getD pos default).labels.length ∧
    DiffLabels s n (o.axes.getD pos default).labels (r.axes.getD pos default).labels := by
  have hn : n ≠ 0 := by
    intro h0; subst h0
    rw [(diffAxis_iterate sub nan a o ax pos s false hd).1] at h; cases h
  rw [diffAxis_eq_go sub nan a o ax pos s false n hd hn] at h
  refine (diffGo_induct sub nan s false pos o
    (fun m o' => (pos < o'.axes.length ∧ pos < o'.vals.shape.length) ∧
      (o'.axes.getD pos default).name = (o.axes.getD pos default).name ∧
      (∀ i, i ≠ pos → o'.axes[i]? = o.axes[i]?) ∧
      o'.vals.shape.getD pos 0 = (o'.axes.getD pos default).labels.length ∧
      DiffLabels s m (o.axes.getD pos default).labels (o'.axes.getD pos default).labels)
    ?_ ?_ n r h).2
  · refine ⟨⟨hpos, hshape⟩, rfl, fun _ _ => rfl, hsz, ?_⟩
    cases s
    · simp [DiffLabels]
    · simp [DiffLabels]
    · rfl
  · intro m o' r' ⟨⟨hp', hs'⟩, hname, hoth, hsz', hlab⟩ hstep
    obtain ⟨newax, haxes, hnm, _, hnew⟩ := diff1_axes sub nan o' r' pos s hstep
    obtain ⟨hsh1, hlen1, _, _⟩ := diff1_shape sub nan o' r' pos s hstep
    have hget : r'.axes.getD pos default = newax := by
      rw [haxes]; exact getD_set_self' _ _ _ _ hp'
    have hshp : r'.vals.shape.getD pos 0 = o'.vals.shape.getD pos 0 - 1 := by
      rw [hsh1]; exact getD_set_self' _ _ _ _ hs'
    refine ⟨⟨by rw [hlen1]; exact hp', by rw [hsh1, List.length_set]; exact hs'⟩, ?_, ?_, ?_, ?_⟩
    · rw [hget, hnm, hname]
    · intro i hi
      rw [haxes, List.getElem?_set_ne (Ne.symm hi)]
      exact hoth i hi
    · rw [hshp, hget]
      cases s
      · simp only at hnew; rw [hnew]; simp
      · simp only at hnew; rw [hnew]; simp
      · simp only at hnew
        rw [midLabels_length _ _ hnew, hsz']
    · rw [hget]
      cases s
      · simp only [DiffLabels] at hnew hlab ⊢
        rw [hnew, hsz', map_getD_succ_range', hlab, List.drop_drop]
      · simp only [DiffLabels] at hnew hlab ⊢
        rw [hnew, hsz', map_getD_range', hlab, List.dropLast_eq_take, List.take_take, List.length_take]
        congr 1
        omega
      · simp only [DiffLabels] at hnew hlab ⊢
        show (midLabelsN m _).bind midLabels = _
        rw [hlab]
        exact hnew

/-- **`n` at least the axis size**: the differenced axis is EMPTY (no labels, size 0), not an error -/
theorem diffN_empty {α : Type} (sub : α → α → α) (nan : α) (a o r : DimArray α) (ax : AxisArg) (pos : Nat)
    (s : Scheme) (hs : s ≠ .centered) (n : Nat) (hd : dealWithAxis a ax = .ok (o, some pos))
    (hpos : pos < o.axes.length) (hshape : pos < o.vals.shape.length)
    (hsz : o.vals.shape.getD pos 0 = (o.axes.getD pos default).labels.length)
    (hbig : o.vals.shape.getD pos 0 ≤ n)
    (h : diffAxis sub nan a ax s false n = .ok r) :
    (r.axes.getD pos default).labels = [] ∧ r.vals.shape.getD pos 0 = 0 := by
  obtain ⟨_, _, hsz', hlab⟩ := diffN_labels sub nan a o r ax pos s n hd hpos hshape hsz h
  have : (r.axes.getD pos default).labels = [] := by
    cases s
    · simp only [DiffLabels] at hlab
      rw [hlab]; exact List.drop_eq_nil_of_le (by omega)
    · simp only [DiffLabels] at hlab
      rw [hlab, show (o.axes.getD pos default).labels.length - n = 0 by omega]; rfl
    · exact absurd rfl hs
  exact ⟨this, by rw [hsz', this]; rfl⟩

/-- **keepaxis=True, any order**: the labels of the differenced axis, the shape, the rank and the
metadata are those of the input -/
theorem diffN_keepaxis {α : Type} (sub : α → α → α) (nan : α) (a o r : DimArray α) (ax : AxisArg) (pos : Nat)
    (s : Scheme) (n : Nat) (hd : dealWithAxis a ax = .ok (o, some pos)) (hpos : pos < o.axes.length)
    (h : diffAxis sub nan a ax s true n = .ok r) :
    (r.axes.getD pos default).labels = (o.axes.getD pos default).labels ∧
    r.vals.shape = o.vals.shape ∧ r.axes.length = o.axes.length ∧ r.attrs = o.attrs := by
  have hn : n ≠ 0 := by
    intro h0; subst h0
    rw [(diffAxis_iterate sub nan a o ax pos s true hd).1] at h; cases h
  rw [diffAxis_eq_go sub nan a o ax pos s true n hd hn] at h
  refine diffGo_induct sub nan s true pos o
    (fun _ o' => (o'.axes.getD pos default).labels = (o.axes.getD pos default).labels ∧
      o'.vals.shape = o.vals.shape ∧ o'.axes.length = o.axes.length ∧ o'.attrs = o.attrs)
    ⟨rfl, rfl, rfl, rfl⟩ ?_ n r h
  intro m o' r' ⟨h1, h2, h3, h4⟩ hstep
  obtain ⟨g1, g2, g3⟩ := diff1_keepaxis_shape sub nan o' r' pos s hstep
  exact ⟨(diff1_keepaxis_labels sub nan o' r' pos s (h3 ▸ hpos) hstep).trans h1, g1.trans h2,
    g2.trans h3, g3.trans h4⟩

/-! ### cumulative scans end in the reduction -/

/-- **the last cell of the cumulative scan is the reduction of the whole fibre**, for every fibre
(rank ≥ 2 after the optional flattening): `cumsum(axis)[.., -1, ..] = sum(axis)` and likewise for
every function `f` of a 1-D list, whatever the size of the axis -/
theorem cum_last_eq_reduce {α : Type} (f : List α → α) (a o : DimArray α) (ax : AxisArg) (pos : Nat)
    (hd : dealWithAxis a ax = .ok (o, some pos)) (hrank : o.ndim ≠ 1) :
    ∃ rc rr, cumAxis f a ax = .ok (.inr rc) ∧ reduceAxis f a ax = .ok (.inr rr) ∧
      rc.axes = o.axes ∧ rr.axes = o.axes.eraseIdx pos ∧
      ∀ j : List Nat, pos ≤ j.length →
        rc.vals.get (j.insertIdx pos (o.vals.shape.getD pos 0 - 1)) = rr.vals.get j := by
  have hr : (o.ndim == 1) = false := by simpa using hrank
  refine ⟨{ axes := o.axes,
            vals := { shape := o.vals.shape,
                      get := fun j => f ((fibre o pos (j.eraseIdx pos)).take (j.getD pos 0 + 1)) },
            vkind := o.vkind, attrs := o.attrs },
          { axes := o.axes.eraseIdx pos,
            vals := { shape := o.vals.shape.eraseIdx pos, get := fun j => f (fibre o pos j) },
            vkind := o.vkind, attrs := o.attrs }, ?_, ?_, rfl, rfl, ?_⟩
  · unfold cumAxis
    simp only [hd, bind, Except.bind, pure, Except.pure]
  · unfold reduceAxis
    simp only [hd, bind, Except.bind, pure, Except.pure, hr, Bool.false_eq_true, if_false]
  · intro j hj
    show f ((fibre o pos ((j.insertIdx pos _).eraseIdx pos)).take ((j.insertIdx pos _).getD pos 0 + 1))
      = f (fibre o pos j)
    rw [List.eraseIdx_insertIdx_self, List.getD_eq_getElem?_getD, List.getElem?_insertIdx_self,
      if_pos hj]
    congr 1
    apply List.take_of_length_le
    rw [fibre_length]
    simp only [Option.getD_some]
    omega

/-- the same for a 1-D array (the reduction is then a scalar) -/
theorem cum_last_eq_reduce_rank1 {α : Type} (f : List α → α) (a o : DimArray α) (ax : AxisArg) (pos : Nat)
    (hd : dealWithAxis a ax = .ok (o, some pos)) (hrank : o.ndim = 1) (hp0 : pos = 0) :
    ∃ rc, cumAxis f a ax = .ok (.inr rc) ∧
      reduceAxis f a ax = .ok (.inl (rc.vals.get [o.vals.shape.getD pos 0 - 1])) := by
  subst hp0
  refine ⟨{ axes := o.axes,
            vals := { shape := o.vals.shape,
                      get := fun j => f ((fibre o 0 (j.eraseIdx 0)).take (j.getD 0 0 + 1)) },
            vkind := o.vkind, attrs := o.attrs }, ?_, ?_⟩
  · unfold cumAxis
    simp only [hd, bind, Except.bind, pure, Except.pure]
  · unfold reduceAxis
    simp only [hd, bind, Except.bind, pure, Except.pure, hrank, beq_self_eq_true, if_true]
    congr 3
    show fibre o 0 [] = (fibre o 0 []).take (o.vals.shape.getD 0 0 - 1 + 1)
    rw [List.take_of_length_le]
    rw [fibre_length]; omega

/-- axis=None: the flat cumulative result has one entry per cell and its last entry is the
reduction of all cells in row-major order -/
theorem cum_none_last {α : Type} (f : List α → α) (a : DimArray α) :
    ∃ l, cumAxis f a .none = .ok (.inl l) ∧ l.length = a.vals.toList.length ∧
      ∀ h : 0 < l.length, l[l.length - 1] = f a.vals.toList := by
  refine ⟨(List.range a.vals.toList.length).map fun k => f (a.vals.toList.take (k + 1)), ?_, by simp, ?_⟩
  · simp [cumAxis, dealWithAxis, bind, Except.bind, pure, Except.pure]
  · intro h
    simp only [List.length_map, List.length_range] at h ⊢
    simp only [List.getElem_map, List.getElem_range]
    rw [List.take_of_length_le (by omega)]

/-- **default axis** (`axis=-1`): cumsum / cumprod (and diff) operate along the LAST dimension: all
axes are returned unchanged and cell `j` is the scan of the prefix of the fibre along the last
dimension -/
theorem cum_default_last_axis {α : Type} (scan : List α → α) (a : DimArray α) (h1 : 1 ≤ a.ndim) :
    ∃ r, cumAxis scan a (.one (.pos (-1))) = .ok (.inr r) ∧ r.axes = a.axes ∧ r.attrs = a.attrs ∧
      r.vals.shape = a.vals.shape ∧
      ∀ j, r.vals.get j =
        scan ((fibre a (a.ndim - 1) (j.eraseIdx (a.ndim - 1))).take (j.getD (a.ndim - 1) 0 + 1)) := by
  have hd : dealWithAxis a (.one (.pos (-((1 : Nat) : Int)))) = .ok (a, some (a.ndim - 1)) :=
    dealWithAxis_neg a 1 (Nat.le_refl 1) h1
  refine ⟨{ axes := a.axes,
            vals := { shape := a.vals.shape,
                      get := fun j => scan ((fibre a (a.ndim - 1) (j.eraseIdx (a.ndim - 1))).take
                        (j.getD (a.ndim - 1) 0 + 1)) },
            vkind := a.vkind, attrs := a.attrs }, ?_, rfl, rfl, rfl, fun _ => rfl⟩
  unfold cumAxis
  have hd' : dealWithAxis a (.one (.pos (-1))) = .ok (a, some (a.ndim - 1)) := hd
  simp only [hd', bind, Except.bind, pure, Except.pure]

/-! ### arg-extrema: the returned label indexes the extremum -/

/-- the instance of `pick` the harness evaluates: the label at NumPy's arg-position `argp cells` -/
def pickLabel {α : Type} (argp : List α → Nat) (lab : Label → α) : List α → List Label → α :=
  fun cs L => lab (L.getD (argp cs) Label.none)

/-- **per-fibre arg-extremum** (rank ≥ 2): for every result cell `j`, with `p` the position NumPy's
arg function returns on the fibre through `j`: `p` is a valid position of the axis, the result cell
is the axis label at `p`, looking that label up on the axis gives back `p` (labels are distinct),
and the input cell at `p` along the axis through `j` is the fibre's entry number `p`, i.e. the
extremum NumPy designated. -/
theorem arg_value_spec {α : Type} (argp : List α → Nat) (lab : Label → α) (a : DimArray α) (k : DimKey)
    (pos : Nat) (r : DimArray α)
    (hpos : dealWithAxis a (.one k) = .ok (a, some pos)) (hrank : a.ndim ≠ 1)
    (hplain : (a.axes.getD pos default).members = [])
    (hsz : a.vals.shape.getD pos 0 = (a.axes.getD pos default).labels.length)
    (hnd : (a.axes.getD pos default).labels.Nodup)
    (hargp : ∀ cs : List α, cs ≠ [] → argp cs < cs.length)
    (hne : 0 < a.vals.shape.getD pos 0)
    (h : argAxis (pickLabel argp lab) a (.one k) = .ok (.inr r)) (j : List Nat) :
    ∃ hp : argp (fibre a pos j) < (a.axes.getD pos default).labels.length,
      r.vals.get j = lab ((a.axes.getD pos default).labels[argp (fibre a pos j)]) ∧
      locateOne (a.axes.getD pos default).labels
        ((a.axes.getD pos default).labels[argp (fibre a pos j)]) none = .ok (argp (fibre a pos j)) ∧
      a.vals.get (j.insertIdx pos (argp (fibre a pos j))) =
        (fibre a pos j)[argp (fibre a pos j)]'(by rw [fibre_length, hsz]; exact hp) := by
  have hlen : (fibre a pos j).length = (a.axes.getD pos default).labels.length := by
    rw [fibre_length, hsz]
  have hne' : fibre a pos j ≠ [] := by
    intro e; rw [e] at hlen; simp only [List.length_nil] at hlen; omega
  have hp : argp (fibre a pos j) < (a.axes.getD pos default).labels.length := hlen ▸ hargp _ hne'
  refine ⟨hp, ?_, ?_, ?_⟩
  · rw [(arg_labels (pickLabel argp lab) a k pos r hpos hrank hplain h).2 j]
    show lab _ = lab _
    rw [List.getD_eq_getElem?_getD, List.getElem?_eq_getElem hp]; rfl
  · rw [locateOne_none, if_pos (List.getElem_mem hp), firstIdx_unique hnd hp]
  · rw [fibre_get a pos j _ (by rw [hsz]; exact hp)]

/-- the same for a 1-D array: the result is the single label at NumPy's arg-position -/
theorem arg_value_spec_rank1 {α : Type} (argp : List α → Nat) (lab : Label → α) (a : DimArray α) (k : DimKey)
    (hpos : dealWithAxis a (.one k) = .ok (a, some 0)) (hrank : a.ndim = 1)
    (hplain : (a.axes.getD 0 default).members = [])
    (hsz : a.vals.shape.getD 0 0 = (a.axes.getD 0 default).labels.length)
    (hnd : (a.axes.getD 0 default).labels.Nodup)
    (hargp : ∀ cs : List α, cs ≠ [] → argp cs < cs.length)
    (hne : 0 < a.vals.shape.getD 0 0) :
    ∃ hp : argp (fibre a 0 []) < (a.axes.getD 0 default).labels.length,
      argAxis (pickLabel argp lab) a (.one k) =
        .ok (.inl (lab ((a.axes.getD 0 default).labels[argp (fibre a 0 [])]))) ∧
      locateOne (a.axes.getD 0 default).labels
        ((a.axes.getD 0 default).labels[argp (fibre a 0 [])]) none = .ok (argp (fibre a 0 [])) ∧
      a.vals.get [argp (fibre a 0 [])] =
        (fibre a 0 [])[argp (fibre a 0 [])]'(by rw [fibre_length, hsz]; exact hp) := by
  have hlen : (fibre a 0 []).length = (a.axes.getD 0 default).labels.length := by
    rw [fibre_length, hsz]
  have hne' : fibre a 0 [] ≠ [] := by
    intro e; rw [e] at hlen; simp only [List.length_nil] at hlen; omega
  have hp : argp (fibre a 0 []) < (a.axes.getD 0 default).labels.length := hlen ▸ hargp _ hne'
  refine ⟨hp, ?_, ?_, ?_⟩
  · unfold argAxis
    simp only [hpos, bind, Except.bind, pure, Except.pure, hrank, beq_self_eq_true, if_true, hplain,
      List.isEmpty_nil, pickLabel]
    rw [List.getD_eq_getElem?_getD, List.getElem?_eq_getElem hp]; rfl
  · rw [locateOne_none, if_pos (List.getElem_mem hp), firstIdx_unique hnd hp]
  · rw [fibre_get a 0 [] _ (by rw [hsz]; exact hp)]; rfl

/-- distinct labels are needed: with a repeated label the returned label designates the FIRST
position carrying it, which need not be the extremum's position -/
theorem arg_label_dup_counterexample :
    locateOne [Label.num 1, Label.num 1] ([Label.num 1, Label.num 1][1]) none = .ok 0 := by rfl

/-- **whole-array arg-extremum** (axis=None; not a `Lib` function: `argAxis` does not model it, this is
the specification of the tuple `np.unravel_index` + label lookup builds): the labels at the
unravelled flat position `p` -/
def argWholeLabels {α : Type} (a : DimArray α) (p : Nat) : List Label :=
  (a.axes.zip (unravel a.vals.shape p)).map fun (ax, i) => ax.labels.getD i Label.none

/-- for a flat position `p` (NumPy's arg-position over all cells in row-major order) the unravelled
index is inside the array, holds the `p`-th cell of the row-major list, and each label of the
returned tuple, looked up on its axis, gives back the corresponding component of that index -/
theorem arg_whole_spec {α : Type} (a : DimArray α) (p : Nat)
    (hshape : a.vals.shape = a.axes.map (·.labels.length))
    (hnd : ∀ ax ∈ a.axes, ax.labels.Nodup) (hp : p < a.vals.toList.length) :
    InRange a.vals.shape (unravel a.vals.shape p) ∧
    a.vals.get (unravel a.vals.shape p) = a.vals.toList[p] ∧
    (argWholeLabels a p).length = a.axes.length ∧
    ∀ i (hi : i < a.axes.length) (hl : i < (argWholeLabels a p).length),
      locateOne a.axes[i].labels (argWholeLabels a p)[i] none = .ok ((unravel a.vals.shape p).getD i 0) := by
  have hp' : p < prod a.vals.shape := by rw [← toList_length]; exact hp
  have hin := unravel_inRange a.vals.shape p hp'
  have hlenU : (unravel a.vals.shape p).length = a.axes.length := by
    rw [inRange_length _ _ hin, hshape, List.length_map]
  refine ⟨hin, ?_, ?_, ?_⟩
  · have := toList_getElem?_ravel a.vals _ hin
    rw [ravel_unravel _ _ hp', List.getElem?_eq_getElem hp] at this
    exact (Option.some.inj this).symm
  · simp [argWholeLabels, hlenU]
  · intro i hi hl
    have hiU : i < (unravel a.vals.shape p).length := hlenU ▸ hi
    have hbound : (unravel a.vals.shape p)[i] < a.axes[i].labels.length := by
      have := inRange_getElem a.vals.shape _ hin i (by rw [hshape, List.length_map]; exact hi) hiU
      simpa [hshape] using this
    have e1 : (argWholeLabels a p)[i] = a.axes[i].labels[(unravel a.vals.shape p)[i]] := by
      simp only [argWholeLabels, List.getElem_map, List.getElem_zip]
      rw [List.getD_eq_getElem?_getD, List.getElem?_eq_getElem hbound]; rfl
    have e2 : (unravel a.vals.shape p).getD i 0 = (unravel a.vals.shape p)[i] := by
      rw [List.getD_eq_getElem?_getD, List.getElem?_eq_getElem hiU]; rfl
    rw [e1, e2, locateOne_none, if_pos (List.getElem_mem hbound),
      firstIdx_unique (hnd _ (List.getElem_mem hi)) hbound]

/-! ### the hypotheses are satisfiable: the 2 x 3 example of C08 -/

open C08 in
/-- hypotheses of `diffAxis_iterate`, `diffN_values`, `diffN_labels`, `diffN_empty`, `cum_last_eq_reduce` -/
example : dealWithAxis ex23 (.one (.name "y")) = .ok (ex23, some 1) ∧ 1 < ex23.axes.length ∧
    1 < ex23.vals.shape.length ∧ ex23.vals.shape.getD 1 0 = (ex23.axes.getD 1 default).labels.length ∧
    ex23.ndim ≠ 1 :=
  ⟨dealWithAxis_name ex23 1 (by decide) (by decide), by decide⟩

open C08 in
/-- second backward differences along "y": one label left (the last one), `(2-1)-(1-0) = 0` -/
example : (match diffAxis (· - ·) 0 ex23 (.one (.name "y")) .backward false 2 with
    | .ok r => (r.vals.shape, (r.axes.getD 1 default).labels, r.vals.get [1, 0])
    | _ => ([], [], 7)) = ([2, 1], [.str "c"], 0) := by decide

open C08 in
/-- `n` = size of the axis: an empty axis, not an error -/
example : (match diffAxis (· - ·) 0 ex23 (.one (.name "y")) .forward false 3 with
    | .ok r => (r.vals.shape, (r.axes.getD 1 default).labels)
    | _ => ([7], [])) = ([2, 0], []) := by decide

open C08 in
/-- last cell of the cumulative sum along "y" = the sum along "y" -/
example : (match cumAxis isum ex23 (.one (.name "y")) with
    | .ok (.inr r) => [r.vals.get [0, 2], r.vals.get [1, 2]] | _ => []) = [3, 12] := by decide

open C08 in
/-- hypotheses of `arg_value_spec` (with the trivially valid position function `fun _ => 0`) and of
`arg_whole_spec` -/
example : (ex23.axes.getD 1 default).members = [] ∧ (ex23.axes.getD 1 default).labels.Nodup ∧
    0 < ex23.vals.shape.getD 1 0 ∧ (∀ cs : List Int, cs ≠ [] → (fun _ => 0) cs < cs.length) ∧
    ex23.vals.shape = ex23.axes.map (·.labels.length) ∧ (∀ ax ∈ ex23.axes, ax.labels.Nodup) ∧
    4 < ex23.vals.toList.length ∧ argWholeLabels ex23 4 = [.num 2, .str "b"] :=
  ⟨by decide, by decide, by decide, fun cs h => List.length_pos_iff.mpr h, by decide, by decide,
   by decide, by decide⟩

/-! ### whole-array arg-extremum: the mirror `Lib.argWhole` (axis=None) -/

/-- **the mirror returns the specification tuple**: with `p` the position NumPy's arg function returns on the
row-major list of ALL cells, `argWhole` succeeds on a non-empty array with plain axes and returns, dimension by
dimension, the label at component `i` of `np.unravel_index(p, shape)` (`argWholeLabels`, stored through `lab`) -/
theorem argWhole_eq_labels {α : Type} (argp : List α → Nat) (lab : Label → α) (a : DimArray α)
    (hlen : a.vals.shape.length = a.axes.length)
    (hplain : ∀ ax ∈ a.axes, ax.members = [])
    (hne : a.vals.toList ≠ [])
    (hargp : argp a.vals.toList < a.vals.toList.length) :
    argWhole (pickLabel argp lab) a = .ok ((argWholeLabels a (argp a.vals.toList)).map lab) := by
  have hE : a.vals.toList.isEmpty = false := by
    cases hl : a.vals.toList with
    | nil => exact absurd hl hne
    | cons _ _ => rfl
  have hlenU : (unravel a.vals.shape (argp a.vals.toList)).length = a.axes.length := by
    rw [C11.unravel_length, hlen]
  unfold argWhole
  simp only [dealWithAxis, bind, Except.bind, pure, Except.pure, hE, Bool.false_eq_true, if_false]
  congr 1
  apply List.ext_getElem
  · simp [argWholeLabels, hlenU]
  · intro i h1 h2
    have hi : i < a.axes.length := by simpa using h1
    have hiU : i < (unravel a.vals.shape (argp a.vals.toList)).length := hlenU ▸ hi
    have hm : (a.axes[i]).members.isEmpty = true := by
      rw [hplain _ (List.getElem_mem hi)]; rfl
    simp only [List.getElem_map, List.getElem_zipIdx, argWholeLabels, List.getElem_zip, Nat.zero_add,
      pickLabel, hm, if_true]
    congr 1
    rw [List.getD_eq_getElem?_getD, List.getElem?_map, List.getElem?_range hargp]
    simp only [Option.map_some, Option.getD_some]
    rw [List.getD_eq_getElem?_getD (l := unravel _ _), List.getElem?_eq_getElem hiU]
    rfl

/-- **whole-array arg-extremum, end to end on the mirror** (`a.argmin()` / `a.argmax()`, any rank, any `skipna`:
`argp` is NumPy's flat arg-position on the row-major cell list). On a non-empty array whose axes are plain, as long as
the values announce and carry distinct labels, `argWhole` succeeds and returns one cell per dimension; with
`u = np.unravel_index(p, shape)`, `p = argp cells`:
* `u` is a valid index of the array and the cell at `u` is entry `p` of the row-major cell list - the extremum NumPy
  designated;
* the `i`-th returned cell is the label of axis `i` at `u[i]`;
* looking that label up on axis `i` (`locateOne`, exact match) gives back `u[i]`: indexing with the returned tuple
  addresses exactly the extremum (distinct labels are needed: `arg_label_dup_counterexample`). -/
theorem argWhole_spec {α : Type} (argp : List α → Nat) (lab : Label → α) (a : DimArray α)
    (hshape : a.vals.shape = a.axes.map (·.labels.length))
    (hplain : ∀ ax ∈ a.axes, ax.members = [])
    (hnd : ∀ ax ∈ a.axes, ax.labels.Nodup)
    (hargp : ∀ cs : List α, cs ≠ [] → argp cs < cs.length)
    (hne : a.vals.toList ≠ []) :
    ∃ (r : List α) (hp : argp a.vals.toList < a.vals.toList.length),
      argWhole (pickLabel argp lab) a = .ok r ∧ r.length = a.axes.length ∧
      InRange a.vals.shape (unravel a.vals.shape (argp a.vals.toList)) ∧
      a.vals.get (unravel a.vals.shape (argp a.vals.toList)) = a.vals.toList[argp a.vals.toList] ∧
      ∀ i (hi : i < a.axes.length) (hr : i < r.length),
        ∃ hb : (unravel a.vals.shape (argp a.vals.toList)).getD i 0 < a.axes[i].labels.length,
          r[i] = lab (a.axes[i].labels[(unravel a.vals.shape (argp a.vals.toList)).getD i 0]) ∧
          locateOne a.axes[i].labels (a.axes[i].labels[(unravel a.vals.shape (argp a.vals.toList)).getD i 0]) none =
            .ok ((unravel a.vals.shape (argp a.vals.toList)).getD i 0) := by
  have hp := hargp _ hne
  have hlen : a.vals.shape.length = a.axes.length := by rw [hshape, List.length_map]
  obtain ⟨hin, hget, hl, hloc⟩ := arg_whole_spec a (argp a.vals.toList) hshape hnd hp
  refine ⟨_, hp, argWhole_eq_labels argp lab a hlen hplain hne hp, by rw [List.length_map, hl], hin, hget, ?_⟩
  intro i hi hr
  have hlenU : (unravel a.vals.shape (argp a.vals.toList)).length = a.axes.length := by
    rw [C11.unravel_length, hlen]
  have hiU : i < (unravel a.vals.shape (argp a.vals.toList)).length := hlenU ▸ hi
  have e2 : (unravel a.vals.shape (argp a.vals.toList)).getD i 0 = (unravel a.vals.shape (argp a.vals.toList))[i] := by
    rw [List.getD_eq_getElem?_getD, List.getElem?_eq_getElem hiU]; rfl
  have hb : (unravel a.vals.shape (argp a.vals.toList)).getD i 0 < a.axes[i].labels.length := by
    have := inRange_getElem a.vals.shape _ hin i (by rw [hlen]; exact hi) hiU
    rw [e2]
    simpa [hshape] using this
  have hli : i < (argWholeLabels a (argp a.vals.toList)).length := by rw [hl]; exact hi
  have e1 : (argWholeLabels a (argp a.vals.toList))[i] =
      a.axes[i].labels[(unravel a.vals.shape (argp a.vals.toList)).getD i 0] := by
    simp only [argWholeLabels, List.getElem_map, List.getElem_zip]
    rw [← e2, List.getD_eq_getElem?_getD, List.getElem?_eq_getElem hb]; rfl
  refine ⟨hb, ?_, ?_⟩
  · rw [List.getElem_map, e1]
  · have := hloc i hi hli
    rw [e1] at this
    exact this

/-- **indexing back through `Lib.take`**: reading the array at the returned tuple of labels (label mode, one scalar
label per dimension: `a[labels]`) succeeds, drops every dimension, keeps the metadata, and the single cell of the
result is entry `p` of the row-major cell list - the extremum NumPy designated.  (`Label.none` is the placeholder label
of `newaxis`; it is not a label one can index with, hence the side condition.) -/
theorem argWhole_index_back {α : Type} (argp : List α → Nat) (a : DimArray α) (cfg : IndexCfg)
    (hm : cfg.mode = .label) (ht : cfg.tol = none) (hk : cfg.keepdims = false)
    (hshape : a.vals.shape = a.axes.map (·.labels.length))
    (hplain : ∀ ax ∈ a.axes, ax.members = [])
    (hnd : ∀ ax ∈ a.axes, ax.labels.Nodup)
    (hnone : ∀ ax ∈ a.axes, Label.none ∉ ax.labels)
    (hp : argp a.vals.toList < a.vals.toList.length) :
    ∃ r, Lib.take a (.tuple ((argWholeLabels a (argp a.vals.toList)).map Ix.scalar)) cfg = .ok r ∧
      r.axes = [] ∧ r.vals.shape = [] ∧ r.attrs = a.attrs ∧
      r.vals.get [] = a.vals.toList[argp a.vals.toList] := by
  have hlen : a.vals.shape.length = a.axes.length := by rw [hshape, List.length_map]
  obtain ⟨hin, hget, hl, hloc⟩ := arg_whole_spec a (argp a.vals.toList) hshape hnd hp
  generalize hu : unravel a.vals.shape (argp a.vals.toList) = u at hin hget hloc
  have hlenU : u.length = a.axes.length := by rw [← hu, C11.unravel_length, hlen]
  -- every returned label is a label of its axis, at position `u[i]`
  have hlab : ∀ i (hi : i < a.axes.length), ∃ hb : u.getD i 0 < a.axes[i].labels.length,
      (argWholeLabels a (argp a.vals.toList))[i]'(by rw [hl]; exact hi) = a.axes[i].labels[u.getD i 0] := by
    intro i hi
    have hiU : i < u.length := hlenU ▸ hi
    have e2 : u.getD i 0 = u[i] := by
      rw [List.getD_eq_getElem?_getD, List.getElem?_eq_getElem hiU]; rfl
    have hb : u.getD i 0 < a.axes[i].labels.length := by
      have := inRange_getElem a.vals.shape _ hin i (by rw [hlen]; exact hi) hiU
      rw [e2]; simpa [hshape] using this
    refine ⟨hb, ?_⟩
    simp only [argWholeLabels, List.getElem_map, List.getElem_zip, hu]
    rw [← e2, List.getD_eq_getElem?_getD, List.getElem?_eq_getElem hb]; rfl
  -- the specification of label indexing applies
  have hspec : Lib.take a (.tuple ((argWholeLabels a (argp a.vals.toList)).map Ix.scalar)) cfg =
      Spec.take a ((argWholeLabels a (argp a.vals.toList)).map Ix.scalar) := by
    apply take_spec a _ cfg hm ht hk (by rw [List.length_map, hl])
    · intro ix hix
      obtain ⟨l, hlm, rfl⟩ := List.mem_map.mp hix
      obtain ⟨i, hi, rfl⟩ := List.getElem_of_mem hlm
      have hi' : i < a.axes.length := hl ▸ hi
      obtain ⟨hb, e⟩ := hlab i hi'
      show (argWholeLabels a (argp a.vals.toList))[i] ≠ Label.none
      rw [e]
      intro h0
      exact hnone _ (List.getElem_mem hi') (h0 ▸ List.getElem_mem hb)
    · intro ax hax; exact ⟨hnd ax hax, hplain ax hax⟩
  -- ... and finds, on every axis, the unravelled position
  have hpos : (((argWholeLabels a (argp a.vals.toList)).map Ix.scalar).zip a.axes).mapM
      (fun (x : Ix × Axis) => Spec.positions x.2.labels x.1) = some (u.map PosIx.scalar) := by
    apply positions_scalars a.axes _ u hl hlenU
    intro i h1 h2 h3
    obtain ⟨hb, e⟩ := hlab i h1
    have e2 : u.getD i 0 = u[i] := by
      rw [List.getD_eq_getElem?_getD, List.getElem?_eq_getElem h3]; rfl
    rw [e]
    exact ⟨List.getElem_mem hb, by rw [firstIdx_unique (hnd _ (List.getElem_mem h1)) hb, e2]⟩
  refine ⟨{ axes := Spec.takeAxes a.axes (u.map PosIx.scalar), vals := a.vals.outer (u.map PosIx.scalar),
            vkind := a.vkind, attrs := a.attrs }, ?_, takeAxes_scalars a.axes u, outerShape_scalars u, rfl, ?_⟩
  · rw [hspec]
    unfold Spec.take
    rw [hpos]
  · show a.vals.get (expandIx (u.map PosIx.scalar) []) = _
    rw [expandIx_scalars, hget]

open C08 in
/-- hypotheses of `argWhole_eq_labels`, `argWhole_spec`, `argWhole_index_back` on the 2 x 3 example (position function
"the last cell", which is a valid position of every non-empty list), and the mirror evaluated on it: flat position 5
unravels to (1, 2), the labels there are `2` and `"c"` (stored through a `lab` that keeps the number / the length) -/
example : ex23.vals.shape = ex23.axes.map (·.labels.length) ∧ (∀ ax ∈ ex23.axes, ax.members = []) ∧
    (∀ ax ∈ ex23.axes, ax.labels.Nodup) ∧ (∀ ax ∈ ex23.axes, Label.none ∉ ax.labels) ∧ ex23.vals.toList ≠ [] ∧
    (∀ cs : List Int, cs ≠ [] → (fun cs : List Int => cs.length - 1) cs < cs.length) ∧
    (match argWhole (pickLabel (fun cs : List Int => cs.length - 1)
        (fun l => match l with | .num q => q.num | .str s => s.length | .none => -1)) ex23 with
      | .ok r => r | _ => []) = [2, 1] ∧
    argWholeLabels ex23 5 = [.num 2, .str "c"] ∧
    (match Lib.take ex23 (.tuple [.scalar (.num 2), .scalar (.str "c")]) {} with
      | .ok r => (r.vals.shape, r.vals.get []) | _ => ([7], 7)) = ([], 5) :=
  ⟨by decide, by decide, by decide, by decide, by decide,
   fun cs h => by have := List.length_pos_iff.mpr h; show cs.length - 1 < cs.length; omega,
   by decide, by decide, by decide⟩

end DimModel

/-
C15 - property theorems over the object-level model (Lib/Heap.lean).

* FRAME: every non-in-place operation of the model (create, copy, transpose, squeeze, a[:], take with a
  scalar or a list, a + k, sort_axis) only allocates: the snapshot of every array that was live before the
  operation is the same after it - for every heap (whatever is shared with whatever), every operand and
  every argument, and hence along every history of such operations.
* COPY INDEPENDENCE: `copy()` returns an array with the same snapshot whose objects are all new and refer
  to new objects only (separation).  For any interleaving of in-place mutations made through the copy (or
  anything derived from it later) and through older arrays, each side's snapshot depends on its own side's
  mutations only - mutable metadata values included.
-/
import DimModel.Lib.Heap
import DimModel.Proofs.C15
import DimModel.Lib.HeapX
import DimModel.Proofs.C15X
import DimModel.Proofs.C15XWF
import DimModel.Proofs.C15T
import DimModel.Proofs.C15Flat
namespace DimModel
namespace Heap

/- `refs`, `WFObj`, `WF`, `EnvOK`, `Sep`, `mutateAll` are defined in DimModel/Proofs/C15.lean (moved there
verbatim so that the helper lemmas can use them). -/

/-! ### FRAME -/

/-- a non-in-place operation only allocates -/
theorem apply_extends (h : H) (env : List Ref) (op : Op) (h' : H) (r : Ref)
    (hop : apply h env op = some (h', r)) : ∃ new, h' = h ++ new ∧ r < h'.length := by
  obtain ⟨⟨new, hn⟩, hr⟩ := apply_grows hop
  exact ⟨new, hn, hr⟩

/-- snapshots do not see allocations -/
theorem obsArr_append (h new : H) (hwf : WF h) (q : Ref) (hq : q < h.length) :
    obsArr (h ++ new) q = obsArr h q :=
  obsArr_grows hwf (Grows.append h new) hq

/-
STATEMENT CHANGED (two hypotheses and one conjunct added; name kept).  As originally written,
  theorem wf_step (s : St) (op : Op) (hwf : WF s.h) (henv : EnvOK s) : WF (step s op).h ∧ EnvOK (step s op)
is FALSE: `WF` does not say that an array has as many Axis objects as dimensions, `create` accepts any
`shape`/`axes` pair, and `transpose` / `squeeze` / `takeList` address the Axis objects with
`axes.getD k 0` for `k < shape.length`, so with fewer axes than dimensions the fallback reference `0`
ends up in the `axes` of the result (or `selectAxis` allocates its ill-formed fallback `axis "?" 0 [] 0`).
Counterexample (proved as theorem `wf_step_counterexample` below: the heap by `rfl`, then `¬ WF`):
  s = run St.init [.create [2,3] [1,2,3,4,5,6] [] []]   -- WF, EnvOK; the array has 2 dimensions and 0 axes
  step s (.transpose 0 [1,0])                            -- allocates `arr 0 _ [3,2] [0,0] 3`; object 0 is a buffer
Added: `hdim : DimOK s` (every live array has `axes.length = shape.length`), `hop : OpOK op` (a `create`
is given as many axes as dimensions), and `DimOK (step s op)` in the conclusion (so that the invariant
can be iterated).  `DimOK` and `OpOK` are defined in DimModel/Proofs/C15.lean.
-/
/-- well-formedness is an invariant of every step (in-place mutations included) -/
theorem wf_step (s : St) (op : Op) (hwf : WF s.h) (henv : EnvOK s) (hdim : DimOK s) (hop : OpOK op) :
    WF (step s op).h ∧ EnvOK (step s op) ∧ DimOK (step s op) := by
  obtain ⟨h1, h2⟩ := step_inv hwf (arrAt_of_env henv hdim) hop
  exact ⟨h1, env_of_arrAt h2⟩

/- STATEMENT CHANGED in the same way as `wf_step` (same counterexample: the two-step history above run from
`St.init`, which is WF and EnvOK): hypotheses `DimOK s` and `∀ op ∈ ops, OpOK op` added, `DimOK` of the
final state added to the conclusion. -/
theorem wf_run (s : St) (ops : List Op) (hwf : WF s.h) (henv : EnvOK s) (hdim : DimOK s)
    (hops : ∀ op ∈ ops, OpOK op) :
    WF (run s ops).h ∧ EnvOK (run s ops) ∧ DimOK (run s ops) := by
  obtain ⟨h1, h2⟩ := run_inv ops hwf (arrAt_of_env henv hdim) hops
  exact ⟨h1, env_of_arrAt h2⟩

/-- the counterexample to the original `wf_step`: from the empty state (trivially WF / EnvOK), `create` with
two dimensions and no axes, then `transpose`: the result array lists object 0 - a buffer - as its axes -/
theorem wf_step_counterexample :
    (run St.init [.create [2, 3] [1, 2, 3, 4, 5, 6] [] [], .transpose 0 [1, 0]]).h =
      [.buf [1, 2, 3, 4, 5, 6], .dict [], .arr 0 [0, 1, 2, 3, 4, 5] [2, 3] [] 1,
       .dict [], .arr 0 [0, 3, 1, 4, 2, 5] [3, 2] [0, 0] 3] ∧
    ¬ WF (run St.init [.create [2, 3] [1, 2, 3, 4, 5, 6] [] [], .transpose 0 [1, 0]]).h := by
  have e : (run St.init [.create [2, 3] [1, 2, 3, 4, 5, 6] [] [], .transpose 0 [1, 0]]).h =
      [.buf [1, 2, 3, 4, 5, 6], .dict [], .arr 0 [0, 1, 2, 3, 4, 5] [2, 3] [] 1,
       .dict [], .arr 0 [0, 3, 1, 4, 2, 5] [3, 2] [0, 0] 3] := by rfl
  refine ⟨e, ?_⟩
  rw [e]
  intro hwf
  have hw := hwf (.arr 0 [0, 3, 1, 4, 2, 5] [3, 2] [0, 0] 3) (by simp)
  obtain ⟨_, _, hax⟩ := hw
  obtain ⟨n, l, v, t, hh⟩ := hax 0 (by simp)
  simp at hh

/-- NO NON-IN-PLACE OPERATION CHANGES AN OPERAND (or any other live array) -/
theorem nonmut_frame (s : St) (op : Op) (hwf : WF s.h) (henv : EnvOK s) (hnm : isMut op = false)
    (q : Ref) (hq : q ∈ s.env) :
    obsArr (step s op).h q = obsArr s.h q := by
  obtain ⟨v, w, sh, ax, t, hx⟩ := henv q hq
  exact obsArr_grows hwf (step_nonmut_grows hnm).1 (lt_of_get hx)

/-- ... along every history of non-in-place operations -/
theorem nonmut_history_frame (s : St) (ops : List Op) (hwf : WF s.h) (henv : EnvOK s)
    (hnm : ∀ op ∈ ops, isMut op = false) (q : Ref) (hq : q ∈ s.env) :
    obsArr (run s ops).h q = obsArr s.h q := by
  obtain ⟨v, w, sh, ax, t, hx⟩ := henv q hq
  exact obsArr_grows hwf (run_nonmut_grows ops hnm) (lt_of_get hx)

/-! ### COPY INDEPENDENCE -/

/-- `copy()`: same snapshot, every object new, the new objects separated from the old ones -/
theorem deepCopy_spec (h h' : H) (r r' : Ref) (hwf : WF h) (hc : deepCopy h r = some (h', r')) :
    (∃ new, h' = h ++ new) ∧ h.length ≤ r' ∧ r' < h'.length ∧ Sep h.length h' ∧ WF h' ∧
    obsArr h' r' = obsArr h r := by
  obtain ⟨he, h1, h2, h3, _⟩ := deepCopy_full hwf hc
  exact ⟨he.grows, h1, h2, he.sep hwf, he.wf hwf, h3⟩

/-- a mutation made through an array below the separation line writes below it only, and keeps separation -/
theorem mutate_below (n : Nat) (h : H) (hsep : Sep n h) (r : Ref) (hr : r < n) (m : Mut) :
    Sep n (mutate h r m) ∧ (mutate h r m).length = h.length ∧ ∀ i, n ≤ i → (mutate h r m)[i]? = h[i]? := by
  refine ⟨mutate_sep hsep r m, mutate_length h r m, ?_⟩
  intro i hi
  exact mutate_frame (S := fun i => i < n) hsep.below hr m i (Nat.not_lt.mpr hi)

theorem mutate_above (n : Nat) (h : H) (hsep : Sep n h) (r : Ref) (hr : n ≤ r) (m : Mut) :
    Sep n (mutate h r m) ∧ (mutate h r m).length = h.length ∧ ∀ i, i < n → (mutate h r m)[i]? = h[i]? := by
  refine ⟨mutate_sep hsep r m, mutate_length h r m, ?_⟩
  intro i hi
  exact mutate_frame (S := fun i => n ≤ i) hsep.above hr m i (Nat.not_le.mpr hi)

/-- a snapshot below the line reads below the line only -/
theorem obsArr_below (n : Nat) (h h2 : H) (hsep : Sep n h) (hag : ∀ i, i < n → h2[i]? = h[i]?)
    (q : Ref) (hq : q < n) : obsArr h2 q = obsArr h q :=
  obsArr_agree (S := fun i => i < n) hsep.below hag hq

theorem obsArr_above (n : Nat) (h h2 : H) (hsep : Sep n h) (hag : ∀ i, n ≤ i → h2[i]? = h[i]?)
    (q : Ref) (hq : n ≤ q) : obsArr h2 q = obsArr h q :=
  obsArr_agree (S := fun i => n ≤ i) hsep.above hag hq

/-- SEPARATION: with the heap separated at `n`, whatever is mutated through arrays on the other side is
invisible: an array below the line shows exactly the mutations made below the line ... -/
theorem separation_below (n : Nat) (h : H) (hsep : Sep n h) (ms : List (Ref × Mut)) (q : Ref) (hq : q < n) :
    obsArr (mutateAll h ms) q = obsArr (mutateAll h (ms.filter fun rm => decide (rm.1 < n))) q :=
  separation_gen (S := fun i => i < n) (T := fun i => n ≤ i) (fun _ h1 h2 => Nat.not_le.mpr h1 h2)
    (fun _ h1 => Nat.not_lt.mp h1) hsep.below hsep.above ms hq

/-- ... and an array above the line exactly those made above it -/
theorem separation_above (n : Nat) (h : H) (hsep : Sep n h) (ms : List (Ref × Mut)) (q : Ref) (hq : n ≤ q) :
    obsArr (mutateAll h ms) q = obsArr (mutateAll h (ms.filter fun rm => decide (n ≤ rm.1))) q :=
  separation_gen (S := fun i => n ≤ i) (T := fun i => i < n) (fun _ h1 h2 => Nat.not_le.mpr h2 h1)
    (fun _ h1 => Nat.not_le.mp h1) hsep.above hsep.below ms hq

/-- COPY IS DEEP: after `b = a.copy()`, any sequence of in-place changes made through `b` (values, labels,
axis names, metadata, mutable metadata values) leaves `a` - and every other array that existed - as it was -/
theorem copy_independent (h h' : H) (r r' : Ref) (hwf : WF h) (hc : deepCopy h r = some (h', r'))
    (ms : List Mut) (q : Ref) (hq : q < h.length) :
    obsArr (mutateAll h' (ms.map fun m => (r', m))) q = obsArr h q := by
  obtain ⟨⟨new, hn⟩, h1, _, hsep, _, _⟩ := deepCopy_spec h h' r r' hwf hc
  rw [separation_below h.length h' hsep _ q hq]
  have hf : ((ms.map fun m => (r', m)).filter fun rm => decide (rm.1 < h.length)) = [] := by
    rw [List.filter_eq_nil_iff]
    intro rm hrm
    rw [List.mem_map] at hrm
    obtain ⟨m, _, rfl⟩ := hrm
    simpa using h1
  rw [hf, mutateAll_nil, hn]
  exact obsArr_append h new hwf q hq

/-- ... and vice versa: changes made through any array that existed before never show in the copy -/
theorem copy_independent_rev (h h' : H) (r r' : Ref) (hwf : WF h) (hc : deepCopy h r = some (h', r'))
    (ms : List (Ref × Mut)) (hold : ∀ rm ∈ ms, rm.1 < h.length) :
    obsArr (mutateAll h' ms) r' = obsArr h r := by
  obtain ⟨_, h1, _, hsep, _, hobs⟩ := deepCopy_spec h h' r r' hwf hc
  rw [separation_above h.length h' hsep ms r' h1]
  have hf : (ms.filter fun rm => decide (h.length ≤ rm.1)) = [] := by
    rw [List.filter_eq_nil_iff]
    intro rm hrm
    have := hold rm hrm
    simpa using this
  rw [hf, mutateAll_nil]
  exact hobs

/-! ### non-vacuity: a concrete history (a shared Axis object, a mutable metadata value, a copy) -/
def exOps : List Op :=
  [ .create [2] [10, 11] [("x", [5, 3], [("hist", some ["h"])])] [("units", none), ("hist", some ["a"])],
    .transpose 0 [0],          -- var 1 shares the Axis object and the metadata values of var 0
    .copy 0,                   -- var 2 is a deep copy
    .mut 2 (.setLabel 0 0 9), .mut 2 (.appendAttr "hist" "z"), .mut 2 (.setVal 1 (-1)),
    .mut 1 (.rename 0 "q") ]

example : ((run St.init exOps).obs.map fun o => o.map fun x => (x.values, x.axes.map (·.name), x.axes.map (·.labels),
      x.attrs)) =
    [ some ([10, 11], ["q"], [[5, 3]], [("units", .atom "K"), ("hist", .list ["a"])]),
      some ([10, 11], ["q"], [[5, 3]], [("units", .atom "K"), ("hist", .list ["a"])]),
      some ([10, -1], ["x"], [[9, 3]], [("units", .atom "K"), ("hist", .list ["a", "z"])]) ] := by
  rfl

/-- the invariants of `wf_run` hold along the example history (its hypotheses are satisfiable from `St.init`) -/
example : WF (run St.init exOps).h ∧ EnvOK (run St.init exOps) ∧ DimOK (run St.init exOps) :=
  wf_run St.init exOps (by intro o ho; cases ho) (by intro r hr; cases hr) (by intro r hr; cases hr)
    (by simp [exOps, OpOK])

/-- `copy_independent` / `copy_independent_rev` instantiated on the example: the heap after the first two steps
is well-formed and the copy of variable 0 (the array object at reference 7) succeeds -/
example : (run St.init (exOps.take 2)).env = [7, 9] ∧
    (deepCopy (run St.init (exOps.take 2)).h 7).isSome = true ∧
    WF (run St.init (exOps.take 2)).h :=
  ⟨by rfl, by rfl, (wf_run St.init (exOps.take 2) (by intro o ho; cases ho) (by intro r hr; cases hr)
    (by intro r hr; cases hr) (by simp [exOps, OpOK])).1⟩

/-! ### the extended operation set (Lib/HeapX.lean): swapaxes, rollaxis, T, newaxis, position slices, sum over an
axis, a + b, reindex_axis - FRAME and SHARING -/

/-- every operation of the extended set only allocates (`T` of a rank-0 array allocates nothing: it returns the operand) -/
theorem xapply_extends (h : H) (env : List Ref) (x : XOp) (h' : H) (r : Ref)
    (hop : xapply h env x = some (h', r)) : ∃ new, h' = h ++ new ∧ r < h'.length := by
  obtain ⟨⟨new, hn⟩, hr⟩ := xapply_grows hop
  exact ⟨new, hn, hr⟩

/-- NO OPERATION OF THE EXTENDED SET CHANGES AN OPERAND (or any other live array) -/
theorem xnonmut_frame (s : St) (x : XOp) (hwf : WF s.h) (henv : EnvOK s) (hnm : xisMut x = false)
    (q : Ref) (hq : q ∈ s.env) :
    obsArr (xstep s x).h q = obsArr s.h q := by
  obtain ⟨v, w, sh, ax, t, hx⟩ := henv q hq
  exact obsArr_grows hwf (xstep_nonmut_grows hnm).1 (lt_of_get hx)

/-- ... along every history of such operations -/
theorem xnonmut_history_frame (s : St) (xs : List XOp) (hwf : WF s.h) (henv : EnvOK s)
    (hnm : ∀ x ∈ xs, xisMut x = false) (q : Ref) (hq : q ∈ s.env) :
    obsArr (xrun s xs).h q = obsArr s.h q := by
  obtain ⟨v, w, sh, ax, t, hx⟩ := henv q hq
  exact obsArr_grows hwf (xrun_nonmut_grows xs hnm) (lt_of_get hx)

/-! ### the heap invariant over the extended operation set, mixed histories -/

/-- well-formedness (`WF`, `EnvOK`, `DimOK`) is an invariant of every step of the extended set - the nine new operations, every
base operation and every in-place mutation (`XOpOK` = `OpOK` of a base `create`: as many axes as dimensions) -/
theorem xwf_step (s : St) (x : XOp) (hwf : WF s.h) (henv : EnvOK s) (hdim : DimOK s) (hop : XOpOK x) :
    WF (xstep s x).h ∧ EnvOK (xstep s x) ∧ DimOK (xstep s x) := by
  obtain ⟨h1, h2⟩ := xstep_inv hwf (arrAt_of_env henv hdim) hop
  exact ⟨h1, env_of_arrAt h2⟩

/-- ... and of every history, mutating steps interleaved with non-mutating ones -/
theorem xwf_run (s : St) (xs : List XOp) (hwf : WF s.h) (henv : EnvOK s) (hdim : DimOK s)
    (hops : ∀ x ∈ xs, XOpOK x) :
    WF (xrun s xs).h ∧ EnvOK (xrun s xs) ∧ DimOK (xrun s xs) := by
  obtain ⟨h1, h2⟩ := xrun_inv xs hwf (arrAt_of_env henv hdim) hops
  exact ⟨h1, env_of_arrAt h2⟩

/-- the hypothesis `XOpOK` is needed: the counterexample of `wf_step`, with the transpose made by `swapaxes` -/
theorem xwf_step_counterexample :
    ¬ WF (xrun St.init [.base (.create [2, 3] [1, 2, 3, 4, 5, 6] [] []), .swapaxes 0 0 1]).h := by
  have e : (xrun St.init [.base (.create [2, 3] [1, 2, 3, 4, 5, 6] [] []), .swapaxes 0 0 1]).h =
      [.buf [1, 2, 3, 4, 5, 6], .dict [], .arr 0 [0, 1, 2, 3, 4, 5] [2, 3] [] 1,
       .dict [], .arr 0 [0, 3, 1, 4, 2, 5] [3, 2] [0, 0] 3] := by rfl
  rw [e]
  intro hwf
  have hw := hwf (.arr 0 [0, 3, 1, 4, 2, 5] [3, 2] [0, 0] 3) (by simp)
  obtain ⟨_, _, hax⟩ := hw
  obtain ⟨n, l, v, t, hh⟩ := hax 0 (by simp)
  simp at hh

/-- MIXED HISTORIES: after ANY history `pre` (in-place mutations interleaved with base and extended operations) run from a
well-formed state, every following run `xs` of non-mutating operations leaves the snapshot of every array live at that point
unchanged.  Only the INITIAL heap has to be well-formed. -/
theorem xmixed_history_frame (s : St) (pre xs : List XOp) (hwf : WF s.h) (henv : EnvOK s) (hdim : DimOK s)
    (hops : ∀ x ∈ pre, XOpOK x) (hnm : ∀ x ∈ xs, xisMut x = false) (q : Ref) (hq : q ∈ (xrun s pre).env) :
    obsArr (xrun s (pre ++ xs)).h q = obsArr (xrun s pre).h q := by
  obtain ⟨h1, h2, _⟩ := xwf_run s pre hwf henv hdim hops
  rw [xrun_append]
  exact xnonmut_history_frame (xrun s pre) xs h1 h2 hnm q hq

/-- ... in particular every single non-mutating step anywhere in a mixed history -/
theorem xmixed_step_frame (s : St) (pre : List XOp) (x : XOp) (hwf : WF s.h) (henv : EnvOK s) (hdim : DimOK s)
    (hops : ∀ y ∈ pre, XOpOK y) (hnm : xisMut x = false) (q : Ref) (hq : q ∈ (xrun s pre).env) :
    obsArr (xstep (xrun s pre) x).h q = obsArr (xrun s pre).h q := by
  obtain ⟨h1, h2, _⟩ := xwf_run s pre hwf henv hdim hops
  exact xnonmut_frame (xrun s pre) x h1 h2 hnm q hq

/-- the hypotheses of `xwf_run` / `xmixed_history_frame` are satisfiable from the empty state by a history that uses every new
operation and in-place writes in between -/
example : let xs : List XOp := [.base (.create [2, 2] [1, 2, 3, 4] [("x", [5, 3], []), ("y", [0, 1], [("u", some ["m"])])] [("k", none)]),
      .tT 0, .base (.mut 1 (.setVal 1 (-7))), .swapaxes 0 0 1, .rollaxis 0 1, .newaxis 0 "z" 1, .base (.mut 0 (.rename 1 "q")),
      .sliceRange 0 0 0 2 1, .reduceSum 0 0, .addArr 0 0, .reindexAxis 0 0 [3, 5], .base (.mut 7 (.setVal 0 9))]
    WF (xrun St.init xs).h ∧ EnvOK (xrun St.init xs) ∧ DimOK (xrun St.init xs) ∧ (xrun St.init xs).env.length = 9 := by
  intro xs
  obtain ⟨a, b, c⟩ := xwf_run St.init xs (by intro o ho; cases ho) (by intro r hr; cases hr) (by intro r hr; cases hr)
    (by intro x hx; simp only [xs, List.mem_cons, List.not_mem_nil, or_false] at hx
        rcases hx with rfl | rfl | rfl | rfl | rfl | rfl | rfl | rfl | rfl | rfl | rfl | rfl <;> simp [XOpOK, OpOK])
  exact ⟨a, b, c, by rfl⟩

/-- SHARING, Dataset variable (`ds = Dataset(); ds['v'] = a; b = ds['v']`): `b` is a new array object over THE SAME values
buffer with the same view and THE SAME metadata dict as `a`; every Axis object of `b` is new (the Dataset's own copies) -/
theorem dsVar_shares (h h' : H) (r r' : Ref) (v : Ref) (w sh : List Nat) (ax : List Ref) (t : Ref) (hwf : WF h)
    (hx : h[r]? = some (.arr v w sh ax t)) (hop : dsVar h r = some (h', r')) :
    ∃ ax', h'[r']? = some (.arr v w sh ax' t) ∧ h.length ≤ r' ∧ ax'.length = ax.length ∧ ∀ a ∈ ax', h.length ≤ a :=
  dsVar_result hwf hx hop

/-- ... hence on a concrete history: a value written through the Dataset variable and a metadata entry set through it REACH
the assigned array (cell 1 := -7, attrs["n"]); renaming an axis and writing a label through it do NOT -/
example : ((xrun St.init [.base (.create [2] [1, 2] [("x", [5, 3], [])] [("k", none)]), .dsVar 0,
      .base (.mut 1 (.setVal 1 (-7))), .base (.mut 1 (.setAttr "n" "1")), .base (.mut 1 (.rename 0 "q")),
      .base (.mut 1 (.setLabel 0 0 9))]).obs.map
      fun o => o.map fun a => (a.values, a.axes.map (·.name), a.axes.map (·.labels), a.attrs.map (·.1))) =
    [some ([1, -7], ["x"], [[5, 3]], ["k", "n"]), some ([1, -7], ["q"], [[9, 3]], ["k", "n"])] := by
  rfl

/-- SHARING, transpose (hence swapaxes / rollaxis / T of rank 1, 2): the result is a new array object over THE SAME
value buffer and THE SAME Axis objects (permuted), with a new metadata dict -/
theorem transpose_shares (h h' : H) (r r' : Ref) (perm : List Nat) (v : Ref) (w sh : List Nat) (ax : List Ref) (t : Ref)
    (hx : h[r]? = some (.arr v w sh ax t)) (hop : transpose h r perm = some (h', r')) :
    ∃ w' sh' t', h'[r']? = some (.arr v w' sh' (perm.map fun k => ax.getD k 0) t') ∧ h.length ≤ t' ∧ h.length ≤ r' :=
  transpose_result hx hop

theorem swapaxes_shares (h h' : H) (r r' : Ref) (a b : Nat) (v : Ref) (w sh : List Nat) (ax : List Ref) (t : Ref)
    (hx : h[r]? = some (.arr v w sh ax t)) (hop : swapaxes h r a b = some (h', r')) :
    ∃ w' sh' t', h'[r']? = some (.arr v w' sh' ((swapPerm sh.length a b).map fun k => ax.getD k 0) t') ∧
      h.length ≤ t' ∧ h.length ≤ r' := by
  unfold swapaxes at hop
  rw [hx] at hop
  simp only [] at hop
  split at hop
  · cases hop
  · exact transpose_result hx hop

theorem rollaxis_shares (h h' : H) (r r' : Ref) (d : Nat) (v : Ref) (w sh : List Nat) (ax : List Ref) (t : Ref)
    (hx : h[r]? = some (.arr v w sh ax t)) (hop : rollaxis h r d = some (h', r')) :
    ∃ w' sh' t', h'[r']? = some (.arr v w' sh' ((d :: (List.range sh.length).filter (· != d)).map fun k => ax.getD k 0) t') ∧
      h.length ≤ t' ∧ h.length ≤ r' := by
  unfold rollaxis at hop
  rw [hx] at hop
  simp only [] at hop
  split at hop
  · cases hop
  · exact transpose_result hx hop

/-- `T` of a rank-0 array IS the operand (no new object at all) -/
theorem tT_rank0_same (h h' : H) (r r' : Ref) (v : Ref) (w : List Nat) (ax : List Ref) (t : Ref)
    (hx : h[r]? = some (.arr v w [] ax t)) (hop : tT h r = some (h', r')) : h' = h ∧ r' = r := by
  unfold tT at hop
  rw [hx] at hop
  simp only [List.length_nil, Option.some.injEq, Prod.mk.injEq] at hop
  exact ⟨hop.1.symm, hop.2.symm⟩

/-- newaxis: the same value buffer seen through the same view (a size-1 dimension inserted), a new metadata dict -/
theorem newaxis_shares_values (h h' : H) (r r' : Ref) (name : String) (pos : Nat) (v : Ref) (w sh : List Nat)
    (ax : List Ref) (t : Ref) (hx : h[r]? = some (.arr v w sh ax t)) (hop : newaxis h r name pos = some (h', r')) :
    ∃ ax' t', h'[r']? = some (.arr v w (sh.take pos ++ [1] ++ sh.drop pos) ax' t') ∧ h.length ≤ t' :=
  newaxis_result hx hop

/-- sum over an axis: a NEW value buffer (the first object allocated), the remaining Axis objects THE SAME objects -/
theorem reduceSum_shares_axes (h h' : H) (r r' : Ref) (d : Nat) (v : Ref) (w sh : List Nat) (ax : List Ref) (t : Ref)
    (hx : h[r]? = some (.arr v w sh ax t)) (hop : reduceSum h r d = some (h', r')) :
    ∃ w' t', h'[r']? = some (.arr h.length w' (sh.eraseIdx d) (ax.eraseIdx d) t') ∧ h.length ≤ t' :=
  reduceSum_result hx hop

/-- WRITE-THROUGH: two arrays over one buffer whose views both show cell `c` (the result of transpose / swapaxes / T /
squeeze / newaxis / a[:] / take(scalar) and its operand): a value written through one at its position of `c` is read
by the other at its position of `c` -/
theorem write_through_view (h : H) (r r' v : Ref) (w sh : List Nat) (ax : List Ref) (t : Ref)
    (w' sh' : List Nat) (ax' : List Ref) (t' : Ref) (cells : List Int) (c p p' : Nat) (x : Int)
    (hr : h[r]? = some (.arr v w sh ax t)) (hr' : h[r']? = some (.arr v w' sh' ax' t'))
    (hb : h[v]? = some (.buf cells)) (hc : c < cells.length) (hp' : w'[p']? = some c) (hp : w[p]? = some c) :
    ∃ o, obsArr (mutate h r' (.setVal p' x)) r = some o ∧ o.values[p]? = some x :=
  write_through_view_aux x hr hr' hb hc hp' hp

/-- THE INDEX MAP OF A TRANSPOSE (`transpose(perm)`; `swapaxes`, `rollaxis`, `T` of rank ≥ 1 are transposes, see below):
the result is an array over the SAME buffer, with the permuted shape, whose view at the row-major position of every
in-range multi-index `j` IS the operand's view at the row-major position of the un-permuted multi-index
(`unperm n perm j = [j[perm.index d] for d in range(n)]`) -/
theorem transpose_view_cell (h h' : H) (r r' v : Ref) (w sh : List Nat) (ax : List Ref) (t : Ref) (perm : List Nat)
    (hx : h[r]? = some (.arr v w sh ax t)) (hop : transpose h r perm = some (h', r')) :
    ∃ w' ax' t', h'[r']? = some (.arr v w' (perm.map fun k => sh.getD k 0) ax' t') ∧
      ∀ j, InRange j (perm.map fun k => sh.getD k 0) →
        w'[ravelN (perm.map fun k => sh.getD k 0) j]? = some (w.getD (ravelN sh (unperm sh.length perm j)) 0) :=
  transpose_view_cell_aux hx hop

/-- `a.swapaxes(a, b)` IS `a.transpose(swapPerm n a b)` (so `transpose_view_cell` / `write_through_transpose` apply) -/
theorem swapaxes_is_transpose (h : H) (r v : Ref) (w sh : List Nat) (ax : List Ref) (t : Ref) (a b : Nat) (res : H × Ref)
    (hx : h[r]? = some (.arr v w sh ax t)) (hop : swapaxes h r a b = some res) :
    transpose h r (swapPerm sh.length a b) = some res := swapaxes_eq_transpose hx hop

/-- `a.rollaxis(d)` IS `a.transpose([d] + [the others in order])` -/
theorem rollaxis_is_transpose (h : H) (r v : Ref) (w sh : List Nat) (ax : List Ref) (t : Ref) (d : Nat) (res : H × Ref)
    (hx : h[r]? = some (.arr v w sh ax t)) (hop : rollaxis h r d = some res) :
    transpose h r (d :: (List.range sh.length).filter (· != d)) = some res := rollaxis_eq_transpose hx hop

/-- `a.T` of rank 1 / 2 IS the transpose with the reversed order (rank 0 returns the operand itself: `tT_rank0_same`) -/
theorem tT_is_transpose (h : H) (r v : Ref) (w sh : List Nat) (ax : List Ref) (t : Ref) (res : H × Ref)
    (hx : h[r]? = some (.arr v w sh ax t)) (hrk : sh.length ≠ 0) (hop : tT h r = some res) :
    transpose h r (List.range sh.length).reverse = some res := tT_eq_transpose hx hrk hop

/-- WRITE-THROUGH A TRANSPOSE without a hypothesis on the viewed cell: for a well-shaped operand (as many view entries
as the shape has cells, all inside the buffer), a value written through the result at the position of ANY in-range
multi-index `j` is read by the operand at the position of the un-permuted multi-index -/
theorem write_through_transpose (h h' : H) (r r' v : Ref) (w sh : List Nat) (ax : List Ref) (t : Ref)
    (perm : List Nat) (cells : List Int)
    (hx : h[r]? = some (.arr v w sh ax t)) (hb : h[v]? = some (.buf cells))
    (hwl : w.length = prodN sh) (hwb : ∀ c ∈ w, c < cells.length)
    (hop : transpose h r perm = some (h', r')) (j : List Nat) (hj : InRange j (perm.map fun k => sh.getD k 0)) (x : Int) :
    ∃ o, obsArr (mutate h' r' (.setVal (ravelN (perm.map fun k => sh.getD k 0) j) x)) r = some o ∧
      o.values[ravelN sh (unperm sh.length perm j)]? = some x :=
  write_through_transpose_aux hx hb hwl hwb hop j hj x

/-- ... through `swapaxes` -/
theorem write_through_swapaxes (h h' : H) (r r' v : Ref) (w sh : List Nat) (ax : List Ref) (t : Ref)
    (a b : Nat) (cells : List Int)
    (hx : h[r]? = some (.arr v w sh ax t)) (hb : h[v]? = some (.buf cells))
    (hwl : w.length = prodN sh) (hwb : ∀ c ∈ w, c < cells.length)
    (hop : swapaxes h r a b = some (h', r')) (j : List Nat)
    (hj : InRange j ((swapPerm sh.length a b).map fun k => sh.getD k 0)) (x : Int) :
    ∃ o, obsArr (mutate h' r' (.setVal (ravelN ((swapPerm sh.length a b).map fun k => sh.getD k 0) j) x)) r = some o ∧
      o.values[ravelN sh (unperm sh.length (swapPerm sh.length a b) j)]? = some x :=
  write_through_transpose_aux hx hb hwl hwb (swapaxes_eq_transpose hx hop) j hj x

/-- ... through `rollaxis` -/
theorem write_through_rollaxis (h h' : H) (r r' v : Ref) (w sh : List Nat) (ax : List Ref) (t : Ref)
    (d : Nat) (cells : List Int)
    (hx : h[r]? = some (.arr v w sh ax t)) (hb : h[v]? = some (.buf cells))
    (hwl : w.length = prodN sh) (hwb : ∀ c ∈ w, c < cells.length)
    (hop : rollaxis h r d = some (h', r')) (j : List Nat)
    (hj : InRange j ((d :: (List.range sh.length).filter (· != d)).map fun k => sh.getD k 0)) (x : Int) :
    ∃ o, obsArr (mutate h' r' (.setVal
        (ravelN ((d :: (List.range sh.length).filter (· != d)).map fun k => sh.getD k 0) j) x)) r = some o ∧
      o.values[ravelN sh (unperm sh.length (d :: (List.range sh.length).filter (· != d)) j)]? = some x :=
  write_through_transpose_aux hx hb hwl hwb (rollaxis_eq_transpose hx hop) j hj x

/-- ... through `T` (rank 1 / 2) -/
theorem write_through_tT (h h' : H) (r r' v : Ref) (w sh : List Nat) (ax : List Ref) (t : Ref) (cells : List Int)
    (hx : h[r]? = some (.arr v w sh ax t)) (hb : h[v]? = some (.buf cells))
    (hwl : w.length = prodN sh) (hwb : ∀ c ∈ w, c < cells.length) (hrk : sh.length ≠ 0)
    (hop : tT h r = some (h', r')) (j : List Nat)
    (hj : InRange j ((List.range sh.length).reverse.map fun k => sh.getD k 0)) (x : Int) :
    ∃ o, obsArr (mutate h' r' (.setVal (ravelN ((List.range sh.length).reverse.map fun k => sh.getD k 0) j) x)) r = some o ∧
      o.values[ravelN sh (unperm sh.length (List.range sh.length).reverse j)]? = some x :=
  write_through_transpose_aux hx hb hwl hwb (tT_eq_transpose hx hrk hop) j hj x

/-- the hypothesis "well-shaped operand" of `write_through_transpose` is needed: an array object whose view is shorter
than its shape (no constructor of the model makes one) has no position 1 = `ravelN [2] [1]` to read the value at -/
theorem write_through_transpose_counterexample :
    let h : H := [.buf [1, 2], .dict [], .arr 0 [0] [2] [] 1]
    ∃ h' r', transpose h 2 [0] = some (h', r') ∧ InRange [1] [2] ∧
      (obsArr (mutate h' r' (.setVal (ravelN [2] [1]) 9)) 2).map (·.values) = some [9] :=
  ⟨_, _, rfl, .cons (by decide) .nil, rfl⟩

/-- the hypotheses of `write_through_transpose` are satisfiable: a 2 x 3 array, `transpose([1, 0])`, `j = (2, 1)` of the
result is `(1, 2)` of the operand: position 5 of the result's 3 x 2 enumeration, position 5 of the operand's ... -/
example : unperm 2 [1, 0] [2, 1] = [1, 2] ∧ InRange [2, 1] ([1, 0].map fun k => [2, 3].getD k 0) ∧
    ravelN [3, 2] [2, 1] = 5 ∧ ravelN [2, 3] [1, 2] = 5 ∧ ravelN [3, 2] [1, 0] = 2 ∧ ravelN [2, 3] (unperm 2 [1, 0] [1, 0]) = 1 :=
  ⟨rfl, .cons (by decide) (.cons (by decide) .nil), rfl, rfl, rfl, rfl⟩

/-- FLATTEN: VIEW IFF CONTIGUOUS.  `b = a.flatten()` of a non-empty array: `b` is a rank-1 array of `a`'s size, and
np.shares_memory(b.values, a.values) (= same buffer object and overlapping views) holds exactly when `a`'s index map is
the identity enumeration of a block of its buffer (a C-contiguous array); otherwise the values are a NEW buffer -/
theorem flatten_shares_iff_contiguous (h h' : H) (r r' v : Ref) (w sh : List Nat) (ax : List Ref) (t : Ref)
    (hx : h[r]? = some (.arr v w sh ax t)) (hv : v < h.length) (hne : w ≠ [])
    (hop : flattenAll h r = some (h', r')) :
    ∃ v' w' ax' t', h'[r']? = some (.arr v' w' [w.length] ax' t') ∧ ((v == v' && overlap w w') = contiguous w) :=
  flatten_shares_aux hx hv hne hop

/-- the hypothesis "non-empty" is needed: an empty array is contiguous and shares nothing (np.shares_memory is False) -/
theorem flatten_shares_iff_contiguous_counterexample :
    flattenObs (xrun St.init [.base (.create [0, 2] [] [("x", [], []), ("y", [0, 1], [])] [])]) 0 = some (false, [0], [], "x,y")
      ∧ contiguous [] = true := by
  exact ⟨rfl, rfl⟩

/-- on concrete histories: `a.flatten()` is a view, `a.T.flatten()` a copy (of the transposed values), the transpose of a
1 x 3 array is still contiguous and flattens to a view -/
example : flattenObs (xrun St.init [.base (.create [2, 3] [1, 2, 3, 4, 5, 6] [("x", [5, 3], []), ("y", [0, 1, 2], [])] []), .tT 0]) 0
      = some (true, [6], [1, 2, 3, 4, 5, 6], "x,y") ∧
    flattenObs (xrun St.init [.base (.create [2, 3] [1, 2, 3, 4, 5, 6] [("x", [5, 3], []), ("y", [0, 1, 2], [])] []), .tT 0]) 1
      = some (false, [6], [1, 4, 2, 5, 3, 6], "y,x") ∧
    flattenObs (xrun St.init [.base (.create [1, 3] [1, 2, 3] [("x", [5], []), ("y", [0, 1, 2], [])] []), .tT 0]) 1
      = some (true, [3], [1, 2, 3], "y,x") := by
  exact ⟨rfl, rfl, rfl⟩

/-- the hypothesis "same buffer" of `write_through_view` is needed: through a position slice (a copy) nothing shows -/
theorem write_through_view_counterexample :
    (xrun St.init [.base (.create [2] [10, 11] [("x", [5, 3], [])] []), .sliceRange 0 0 0 2 1,
        .base (.mut 1 (.setVal 0 (-1)))]).obs.map (fun o => o.map (·.values)) = [some [10, 11], some [-1, 11]] := by
  rfl

/-- NO WRITE-THROUGH where the value buffer of the result is new (position slices, take(list), a + k, a + b, sum,
sort_axis, reindex_axis, copy): a value written through the result is invisible to every array that existed -/
theorem fresh_values_independent (h h' : H) (r' v : Ref) (w sh : List Nat) (ax : List Ref) (t : Ref) (hwf : WF h)
    (hg : ∃ new, h' = h ++ new) (hx : h'[r']? = some (.arr v w sh ax t)) (hv : h.length ≤ v) (p : Nat) (x : Int)
    (q : Ref) (hq : q < h.length) : obsArr (mutate h' r' (.setVal p x)) q = obsArr h q :=
  fresh_values_aux hwf hg hx hv p x hq

/-- the prediction on a concrete history: `b = a.T` writes through (cell (0,1) of b is cell (1,0) of a), `c = a.sum(axis=0)`
shares the Axis object of `y` with `a` (renaming it through `c` renames it in `a` and in `b`) but not the values -/
example : ((xrun St.init [.base (.create [2, 2] [1, 2, 3, 4] [("x", [5, 3], []), ("y", [0, 1], [])] []), .tT 0, .reduceSum 0 0,
      .base (.mut 1 (.setVal 1 (-7))), .base (.mut 2 (.setVal 0 99)), .base (.mut 2 (.rename 0 "q"))]).obs.map
      fun o => o.map fun a => (a.values, a.axes.map (·.name))) =
    [some ([1, 2, -7, 4], ["x", "q"]), some ([1, -7, 2, 4], ["q", "x"]), some ([99, 6], ["q"])] := by
  rfl

/-- ... and what the harness observes with np.shares_memory / `is` on it: a.T shares values and both Axis objects (crosswise)
with a; the sum shares the Axis object `y` (dimension 1 of a, dimension 0 of a.T) and no values -/
example : ((xrun St.init [.base (.create [2, 2] [1, 2, 3, 4] [("x", [5, 3], []), ("y", [0, 1], [])] []), .tT 0,
      .reduceSum 0 0]).share.map fun o => o.map fun s => (s.i, s.j, s.vals, s.axes)) =
    [some (0, 1, true, [(0, 1), (1, 0)]), some (0, 2, false, [(1, 0)]), some (1, 2, false, [(0, 0)])] := by
  rfl

end Heap
end DimModel

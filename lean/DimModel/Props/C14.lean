/-
C14 - property theorems: Dataset-wide indexing equals per-variable indexing.

`Dataset.take` resolves the user's (label) indices ONCE, on the dataset's own axes, into NumPy
positional indices and then applies a *positional* take to every variable.  Because a variable's
axis for a dimension is the very same object as the dataset's axis (C13), the positions are the
ones the variable's own label indexing would compute: the two routes coincide.
-/
import DimModel.Lib.GetSet
import DimModel.Lib.DatasetOps
import DimModel.Proofs.C14
import DimModel.Proofs.C14Ops
import DimModel.Proofs.C14Ops2
import DimModel.Proofs.C14Ops3
import DimModel.Proofs.C14Take
namespace DimModel
open Lib

/-- a resolved NumPy index, given back to a variable as a positional user index -/
def rawToIx : RawIx → Ix
  | .int i => .scalar (.num (i : Rat))
  | .ints l => .list (l.map fun (i : Int) => Label.num (i : Rat))
  | .slice s e st => .slice (s.map fun (i : Int) => Label.num (i : Rat)) (e.map fun (i : Int) => Label.num (i : Rat)) st
  | .mask m => .mask m

theorem labelToInt_intCast (i : Int) : labelToInt (Label.num (i : Rat)) = .ok i := by
  simp [labelToInt, Rat.den_intCast, Rat.num_intCast]

theorem mapM_labelToInt (l : List Int) :
    (l.map fun (i : Int) => Label.num (i : Rat)).mapM labelToInt = .ok l := by
  induction l with
  | nil => rfl
  | cons x xs ih =>
    simp only [List.map_cons, List.mapM_cons, ih, labelToInt_intCast, bind, Except.bind, pure, Except.pure]

/-- position mode hands the resolved index to NumPy unchanged -/
theorem ixToRaw_rawToIx (r : RawIx) : ixToRaw (rawToIx r) = .ok r := by
  cases r with
  | int i => simp [rawToIx, ixToRaw, labelToInt_intCast, bind, Except.bind, pure, Except.pure]
  | ints l =>
    simp only [rawToIx, ixToRaw, bind, Except.bind, pure, Except.pure]
    rw [mapM_labelToInt]
  | mask m => simp [rawToIx, ixToRaw, pure, Except.pure]
  | slice s e st =>
    cases s <;> cases e <;>
      simp [rawToIx, ixToRaw, labelToInt_intCast, bind, Except.bind, pure, Except.pure, Functor.map, Except.map]

/-- **per-dimension commuting square.**  On an axis with labels `L`, resolving the label index `ix`
(what `Dataset.take` does on the dataset's axis) and giving the result to the variable as a
positional index leads to the same NumPy index as the variable's own label lookup on the same
labels (the variable shares the axis object, C13). -/
theorem dsTake_perdim_commutes (L : List Label) (kind : Kind) (ix : Ix) (tol : Option Tol) (r : RawIx)
    (h : loc L kind ix tol = .ok r) :
    ixToRaw (rawToIx r) = loc L kind ix tol := by
  rw [h]; exact ixToRaw_rawToIx r

/-- a full slice is passed through unchanged in both modes -/
theorem fullslice_both_modes : ixToRaw fullIx = .ok (.slice none none none) := by
  simp [fullIx, ixToRaw, pure, Except.pure, bind, Except.bind]


/-! ### Dataset operations by value (round 2): the Dataset code paths of dataset.py (`reduce_axis` on raw values,
one label resolution on the Dataset's axes, per-variable patching in `reindex_axis`) against the DimArray
operation on every variable -/

namespace DSV

/-- same data: dimension names, labels of every axis, shape, every cell of the shape, metadata.  (The first drafts of
the statements below were made modulo this relation because `Dataset.take_axis` rebuilt the operated axis as a bare
`Axis`; since it uses `Axis.take` like `DimArray.take_axis` the statements are equations, and the `SameData` forms
follow with `sameData_refl`.) -/
def SameData {α} (r r' : DimArray α) : Prop :=
  r.dims = r'.dims ∧ r.axes.map (·.labels) = r'.axes.map (·.labels) ∧ r.vals.shape = r'.vals.shape ∧
  (∀ j, InRange r.vals.shape j → r.vals.get j = r'.vals.get j) ∧ r.attrs = r'.attrs

/-- the datasets the statements speak about: shared axes (C13) - by value this is `SharedAxes` (names and labels)
together with `OwnAxes`: every axis of a variable IS the Dataset's axis of that name (in dimarray they are the same
object, and `setItem` / `__setitem__` stores exactly that) -, distinct keys, every variable well-formed (distinct
dimension names, values of the shape its axes announce, plain axes).

CHANGE with respect to the first draft: the conjunct `OwnAxes ds` was added.  With `SharedAxes` alone (equal names
and labels only) the statements below are false: `setItem` re-links every stored variable to the Dataset's axes
found by name, so a variable that does not have the operated dimension comes back with the Dataset's axis objects -
counterexample: `ds.axes = [x(kind i), y]`, variables `a` over `[x(kind i), y]`, `b` over `[y]`, `c` over
`[x(kind f, attrs [("u",1)])]` with the same labels for `x`: `takeAxisPosDs ds "y" [1]` returns `c` over `x(kind i)`
without the attribute, i.e. not `c` "as it is"; and `takeDs` resolves the index with the *Dataset's* axis kind and
size, which `SharedAxes` does not relate to the variable's. -/
def GoodDs {α} (ds : Ds α) : Prop :=
  SharedAxes ds ∧ OwnAxes ds ∧ ds.keys.Nodup ∧
  ∀ kv ∈ ds.vars, kv.2.dims.Nodup ∧ kv.2.vals.shape = kv.2.axes.map (·.size) ∧ ∀ ax ∈ kv.2.axes, ax.members = []

/-! machine-checked counterexample to the first draft (`GoodDs` without `OwnAxes`): the Dataset `cexDs` satisfies
the first-draft hypotheses, but `take_axis` along `y` does not return the variable `c` (which has no `y`) as it is:
its axis `x` (kind f, one attribute) is replaced by the Dataset's axis `x` (kind i, no attribute) -/

def cexX : Axis := { name := "x", labels := [.num 10, .num 30], kind := .i }
def cexXf : Axis := { name := "x", labels := [.num 10, .num 30], kind := .f, attrs := [("u", 1)] }
def cexY : Axis := { name := "y", labels := [.num 1, .num 2], kind := .i }
def cexC : DimArray Nat := { axes := [cexXf], vals := NDArr.const [2] 0 }
def cexB : DimArray Nat := { axes := [cexY], vals := NDArr.const [2] 0 }
def cexDs : Ds Nat := { axes := [cexX, cexY], vars := [("c", cexC), ("b", cexB)] }

def varAxes (r : Except Err (Ds Nat)) : Option (List (String × List Axis)) :=
  match r with
  | .ok o => some (o.vars.map fun kv => (kv.1, kv.2.axes))
  | .error _ => none

theorem firstDraft_counterexample :
    (SharedAxes cexDs ∧ cexDs.keys.Nodup ∧
      ∀ kv ∈ cexDs.vars, kv.2.dims.Nodup ∧ kv.2.vals.shape = kv.2.axes.map (·.size) ∧ ∀ ax ∈ kv.2.axes, ax.members = []) ∧
    ¬ ∀ out, takeAxisPosDs cexDs "y" [1] = .ok out →
        ∀ k v, (k, v) ∈ cexDs.vars → ∃ r, (k, r) ∈ out.vars ∧ ("y" ∉ v.dims → r = v) := by
  refine ⟨⟨⟨?_, ?_, ?_⟩, ?_, ?_⟩, ?_⟩
  · intro kv hkv ax hax
    simp only [cexDs, List.mem_cons, List.not_mem_nil, or_false] at hkv
    rcases hkv with rfl | rfl
    · simp only [cexC, List.mem_cons, List.not_mem_nil, or_false] at hax
      subst hax
      exact ⟨cexX, by simp [cexDs], rfl, rfl⟩
    · simp only [cexB, List.mem_cons, List.not_mem_nil, or_false] at hax
      subst hax
      exact ⟨cexY, by simp [cexDs], rfl, rfl⟩
  · intro e he
    simp only [cexDs, List.mem_cons, List.not_mem_nil, or_false] at he
    rcases he with rfl | rfl
    · exact ⟨("c", cexC), by simp [cexDs], by simp [cexC, DimArray.dims, cexX, cexXf]⟩
    · exact ⟨("b", cexB), by simp [cexDs], by simp [cexB, DimArray.dims]⟩
  · simp [cexDs, Ds.dims, cexX, cexY]
  · simp [cexDs, Ds.keys]
  · intro kv hkv
    simp only [cexDs, List.mem_cons, List.not_mem_nil, or_false] at hkv
    rcases hkv with rfl | rfl
    · simp [cexC, DimArray.dims, cexXf, NDArr.const, Axis.size]
    · simp [cexB, DimArray.dims, cexY, NDArr.const, Axis.size]
  · intro H
    have hax : varAxes (takeAxisPosDs cexDs "y" [1]) =
        some [("c", [cexX]), ("b", [{ name := "y", labels := [.num 2], kind := .i }])] := by decide
    cases hto : takeAxisPosDs cexDs "y" [1] with
    | error e => rw [hto] at hax; cases hax
    | ok out =>
      rw [hto] at hax
      obtain ⟨r, hr, hnot⟩ := H out hto "c" cexC (by simp [cexDs])
      rw [hnot (by simp [cexC, DimArray.dims, cexXf])] at hr
      have hmem := List.mem_map_of_mem (f := fun kv : String × DimArray Nat => (kv.1, kv.2.axes)) hr
      simp only [varAxes, Option.some.injEq] at hax
      rw [hax] at hmem
      revert hmem
      decide

/-- the Dataset's axis of a name is the axis of that name of every variable -/
theorem GoodDs.axis_eq {α} {ds : Ds α} (hg : GoodDs ds) {name : String} {ax : Axis}
    (hfind : ds.axes.find? (fun a => a.name == name) = some ax) {k : String} {v : DimArray α}
    (hv : (k, v) ∈ ds.vars) : ∀ a ∈ v.axes, a.name = name → a = ax := by
  intro a ha hn
  have hmem := find?_name_some hfind
  exact mem_name_inj hg.1.2.2 (hg.2.1 (k, v) hv a ha) hmem.1 (hn.trans hmem.2.symm)

/-- TAKE_AXIS (positions): every variable that has the dimension comes back as `take_axis` of that variable,
the others as they are; keys and dataset metadata kept; the result is again a Dataset with shared axes.

CHANGE (axis metadata kept by `Dataset.take_axis`): the conclusion for a variable that has the dimension is the
equation `r = takeAxisPos v ...` (axes with kind and metadata, value kind included), no longer `SameData`.

CHANGE: the hypothesis `hin` (positions in range) of the first draft is not needed and was dropped (the statement
relates two models that treat out-of-range positions in the same way); `OwnAxes out` was added to the conclusion. -/
theorem takeAxisPosDs_spec {α : Type} (ds out : Ds α) (name : String) (ps : List Nat) (hg : GoodDs ds)
    (h : takeAxisPosDs ds name ps = .ok out) :
    out.keys = ds.keys ∧ out.attrs = ds.attrs ∧ SharedAxes out ∧ OwnAxes out ∧
    ∀ k v, (k, v) ∈ ds.vars → ∃ r, (k, r) ∈ out.vars ∧
      (name ∈ v.dims → r = takeAxisPos v (v.dims.idxOf name) ps) ∧ (name ∉ v.dims → r = v) := by
  obtain ⟨ax, hfind, hout⟩ := takeAxisPosDs_closed ds out name ps hg.2.1 hg.1.2.2 hg.2.2.1 h
  have hsh := reduce_shared ds name (takeNewAxis name ax ps) (takeVals ps) rfl hg.1 hg.2.1 out hout
  refine ⟨?_, ?_, hsh.1, hsh.2, ?_⟩
  · subst hout
    simp only [Ds.keys, List.map_map]
    rfl
  · subst hout; rfl
  · intro k v hkv
    refine ⟨reduceVar name (takeNewAxis name ax ps) (takeVals ps) v, ?_, ?_, ?_⟩
    · subst hout
      exact List.mem_map_of_mem (f := fun kv => (kv.1, reduceVar name (takeNewAxis name ax ps) (takeVals ps) kv.2)) hkv
    · intro hmem
      exact reduceVar_take_eq v name ax ps (hg.2.2.2 (k, v) hkv).1 hmem (find?_name_some hfind).2
        (hg.axis_eq hfind hkv)
    · intro hmem
      exact reduceVar_of_not_mem name _ _ v hmem

/-- SORT_AXIS: the Dataset sorts by the argsort of ITS labels; every variable that has the dimension comes back
as `sort_axis` of that variable (`OwnAxes out` added to the conclusion) -/
theorem sortAxisDs_spec {α : Type} (ds out : Ds α) (name : String) (hg : GoodDs ds)
    (h : sortAxisDs ds name = .ok out) :
    out.keys = ds.keys ∧ out.attrs = ds.attrs ∧ SharedAxes out ∧ OwnAxes out ∧
    ∀ k v, (k, v) ∈ ds.vars → ∃ r, (k, r) ∈ out.vars ∧
      (name ∈ v.dims → sortAxis v (.name name) = .ok r) ∧ (name ∉ v.dims → r = v) := by
  unfold sortAxisDs at h
  split at h
  · cases h
  · rename_i ax hfind
    obtain ⟨h1, h2, h3, h4, h5⟩ := takeAxisPosDs_spec ds out name _ hg h
    refine ⟨h1, h2, h3, h4, ?_⟩
    intro k v hkv
    obtain ⟨r, hr, hin, hnot⟩ := h5 k v hkv
    refine ⟨r, hr, ?_, hnot⟩
    intro hmem
    have hax := axes_getD_idxOf v name hmem
    rw [sortAxis_name_eq v name hmem, hg.axis_eq hfind hkv _ hax.1 hax.2, hin hmem]

/-- REINDEX_AXIS (method=None, raise_error=False): every variable that has the dimension comes back as
`reindex_axis` of that variable with the same fill; variables without the dimension are left alone
(`SharedAxes out ∧ OwnAxes out` added to the conclusion of the first draft) -/
theorem reindexAxisDs_spec {α : Type} (ds out : Ds α) (name : String) (newL : List Label) (newKind fillKind : Kind)
    (fill : α) (hg : GoodDs ds) (h : reindexAxisDs ds name newL newKind fill fillKind = .ok out) :
    out.keys = ds.keys ∧ out.attrs = ds.attrs ∧ SharedAxes out ∧ OwnAxes out ∧
    ∀ k v, (k, v) ∈ ds.vars → ∃ r, (k, r) ∈ out.vars ∧
      (name ∈ v.dims → reindexAxis v (.name name) newL newKind fill fillKind false none = .ok r) ∧
      (name ∉ v.dims → r = v) := by
  obtain ⟨ax, taken, hfind, hne, htk, hout⟩ := reindexAxisDs_closed ds out name newL newKind fillKind fill h
  obtain ⟨t1, t2, t3, t4, t5⟩ := takeAxisPosDs_spec ds taken name _ hg htk
  have haxn : ax.name = name := (find?_name_some hfind).2
  have hgetD : ∀ k v, (k, v) ∈ ds.vars → name ∈ v.dims → v.axes.getD (v.dims.idxOf name) default = ax := by
    intro k v hkv hmem
    have hax := axes_getD_idxOf v name hmem
    exact hg.axis_eq hfind hkv _ hax.1 hax.2
  by_cases hany : (mismatchMask ax.labels (locateMany ax.labels newL .left) newL).any id = true
  · -- some requested label is absent: the patched variables
    rw [if_pos hany] at hout
    obtain ⟨ax', hfind', htaken⟩ := takeAxisPosDs_closed ds taken name _ hg.2.1 hg.1.2.2 hg.2.2.1 htk
    rw [hfind] at hfind'
    cases hfind'
    have hsh := rx_shared taken name ax newL newKind fill fillKind t3 t4
    refine ⟨?_, ?_, by rw [hout]; exact hsh.1, by rw [hout]; exact hsh.2, ?_⟩
    · rw [← t1, hout]
      simp only [Ds.keys, List.map_map]
      apply List.map_congr_left
      intro kv _
      exact rxPatch_fst name ax newL newKind fill fillKind kv
    · rw [← t2, hout]
    · intro k v hkv
      have hmemt : (k, reduceVar name (takeNewAxis name ax (locateMany ax.labels newL .left))
          (takeVals (locateMany ax.labels newL .left)) v) ∈ taken.vars := by
        rw [htaken]
        exact List.mem_map_of_mem (f := fun kv => (kv.1, reduceVar name (takeNewAxis name ax
          (locateMany ax.labels newL .left)) (takeVals (locateMany ax.labels newL .left)) kv.2)) hkv
      have hmemo := List.mem_map_of_mem (f := rxPatch name ax newL newKind fill fillKind) hmemt
      by_cases hmem : name ∈ v.dims
      · rw [rxPatch_reduceVar_eq v k name ax hmem (hg.2.2.2 (k, v) hkv).1 haxn newL newKind fill fillKind _ rfl hany]
          at hmemo
        exact ⟨_, by rw [hout]; exact hmemo,
          fun _ => reindexAxis_name_ok v name hmem ax (hgetD k v hkv hmem) newL newKind fill fillKind hne,
          fun hn => absurd hmem hn⟩
      · rw [reduceVar_of_not_mem name _ _ v hmem, rxPatch_of_not_mem name ax newL newKind fill fillKind (k, v) hmem] at hmemo
        exact ⟨v, by rw [hout]; exact hmemo, fun hm => absurd hm hmem, fun _ => rfl⟩
  · -- every requested label is present: the clipped take is the result
    rw [if_neg hany] at hout
    subst hout
    refine ⟨t1, t2, t3, t4, ?_⟩
    intro k v hkv
    obtain ⟨r, hr, hin, hnot⟩ := t5 k v hkv
    refine ⟨r, hr, ?_, hnot⟩
    intro hmem
    rw [reindexAxis_name_ok v name hmem ax (hgetD k v hkv hmem) newL newKind fill fillKind hne, hin hmem]
    unfold rxResult
    rw [if_neg hany]

theorem sameData_refl {α} (r : DimArray α) : SameData r r := ⟨rfl, rfl, rfl, fun _ _ => rfl, rfl⟩

/-- TAKE ({dim: index}): the index is resolved once on the Dataset's axis; every variable that has the dimension
comes back as the variable's own `take` of the same index along that dimension - in full generality (any index,
label or position mode, tolerance, keepdims).

CHANGE: the first draft asked for `∃ r', take v ... = .ok r' ∧ SameData r r'`; under `GoodDs` (with `OwnAxes`) the
stored variable IS the result of the variable's own `take` (axes with kind and metadata, value kind included), so
the conclusion is stated as the equation `take v ... = .ok r` (the `SameData` form follows with `sameData_refl`, see
`takeDs_sameData`).  `SharedAxes out ∧ OwnAxes out` was added to the conclusion. -/
theorem takeDs_spec {α : Type} (ds out : Ds α) (name : String) (ix : Ix) (cfg : IndexCfg) (hg : GoodDs ds)
    (h : takeDs ds name ix cfg = .ok out) :
    out.keys = ds.keys ∧ out.attrs = ds.attrs ∧ SharedAxes out ∧ OwnAxes out ∧
    ∀ k v, (k, v) ∈ ds.vars → ∃ r, (k, r) ∈ out.vars ∧
      (name ∈ v.dims → take v (.dict [(.name name, ix)]) cfg = .ok r) ∧
      (name ∉ v.dims → r = v) := by
  obtain ⟨ax, raw, p, hfind, hraw, hp, hout⟩ := takeDs_closed ds out name ix cfg hg.2.1 hg.1.2.2 hg.2.2.1
    (fun kv hkv => (hg.2.2.2 kv hkv).1) h
  have hsh := take_shared ds name p hg.1 hg.2.1 out hout
  refine ⟨?_, ?_, hsh.1, hsh.2, ?_⟩
  · subst hout
    simp only [Ds.keys, List.map_map]
    rfl
  · subst hout; rfl
  · intro k v hkv
    refine ⟨takeVar name p v, ?_, ?_, ?_⟩
    · subst hout
      exact List.mem_map_of_mem (f := fun kv => (kv.1, takeVar name p kv.2)) hkv
    · intro hmem
      exact take_dict_ok v name ix cfg hmem ax (hg.axis_eq hfind hkv) (hg.2.2.2 (k, v) hkv).2.2 raw p hraw hp
    · intro hmem
      exact takeVar_of_not_mem name p v hmem

/-- TAKE, every form of index (tuple / dict over several dimensions / `(indices, axis=)` / tolerance / keepdims) and
`names=`: the index is resolved ONCE on the Dataset's axes (`getIndices ds.axes ui cfg = .ok raw`); the keys of the
result are the requested names in the order asked for (all keys when `names = none`); Dataset metadata kept; the axes
of the result are the Dataset's selected axes and every variable of the result carries axes of that list (`OwnAxes`,
distinct dimension names); and EVERY variable of the result IS the DimArray-level positional read of the variable of
that name, with the resolved indices restricted to the dimensions the variable has (`Lib.takeRaw v (rawFor ...)`).

Hypothesis `hn`: an explicit `names=` list has no repeated name (with a repeated name `__setitem__` overwrites: the
keys of the result are then the de-duplicated list, see `takeDsMulti_dup_counterexample`).

NOT in this statement (open): (a) the second step `takeRaw v (rawFor ..) = take v (.dict <index restricted to v.dims>)
cfg` - needs `getIndices v.axes (.dict ...) cfg = rawFor ds.dims raw v.axes` under `GoodDs`, i.e. commuting
`normalizeIndex` with the restriction of the dimension list; (b) the conjunct of `SharedAxes out` "every axis of the
Dataset is used by some variable" - it is FALSE for the mirror (and for dimarray) when `names=` leaves out the only
variables over some dimension: `data.axes` is laid out from ALL selected axes first. -/
theorem takeDsMulti_spec_raw {α : Type} (ds out : Ds α) (names : Option (List String)) (ui : UserIndex) (cfg : IndexCfg)
    (hg : GoodDs ds) (hn : ∀ l, names = some l → l.Nodup) (h : takeDsMulti ds names ui cfg = .ok out) :
    ∃ raw pix, getIndices ds.axes ui cfg = .ok raw ∧
      (raw.zip ds.axes).mapM (fun (x : RawIx × Axis) => resolveRaw x.1 x.2.size) = .ok pix ∧
      out.axes = getAxesOrtho ds.axes raw pix ∧
      out.keys = names.getD ds.keys ∧ out.attrs = ds.attrs ∧ OwnAxes out ∧ out.dims.Nodup ∧
      ∀ kr ∈ out.vars, ∃ v, (kr.1, v) ∈ ds.vars ∧ takeRaw v (rawFor ds.dims raw v.axes) = .ok kr.2 := by
  have hget : ∀ k v, ds.get? k = some v → (k, v) ∈ ds.vars := by
    intro k v hk
    unfold Ds.get? at hk
    cases hf : ds.vars.find? (·.1 == k) with
    | none => rw [hf] at hk; cases hk
    | some kv =>
      rw [hf] at hk
      simp only [Option.map_some, Option.some.injEq] at hk
      have h1 := List.mem_of_find?_eq_some hf
      have h2 := List.find?_some hf
      have h3 : kv.1 = k := by simpa using h2
      rw [← h3, ← hk]
      exact h1
  have hsub : ∀ raw pix, getIndices ds.axes ui cfg = .ok raw →
      (raw.zip ds.axes).mapM (fun (x : RawIx × Axis) => resolveRaw x.1 x.2.size) = .ok pix →
      ∀ k v r, ds.get? k = some v → takeRaw v (rawFor ds.dims raw v.axes) = .ok r →
        ∀ ax ∈ r.axes, ax ∈ getAxesOrtho ds.axes raw pix := by
    intro raw pix hraw hpix k v r hk hr
    exact takeRaw_axes_sub ds.axes raw pix v r hg.1.2.2 (hg.2.1 (k, v) (hget k v hk))
      (getIndices_length _ _ _ _ hraw) hpix hr
  have hnn : (names.getD ds.keys).Nodup := by
    cases names with
    | none => exact hg.2.2.1
    | some l => exact hn l rfl
  obtain ⟨raw, pix, hraw, hpix, h1, h2, h3, h4⟩ := takeDsMulti_closed ds out names ui cfg hg.1.2.2 hnn hsub h
  refine ⟨raw, pix, hraw, hpix, h1, h3, h2, ?_, ?_, ?_⟩
  · intro kr hkr ax hax
    obtain ⟨v, hv, hr⟩ := h4 kr hkr
    rw [h1]
    exact hsub raw pix hraw hpix kr.1 v kr.2 hv hr ax hax
  · unfold Ds.dims
    rw [h1]
    exact getAxesOrtho_names_nodup ds.axes raw pix hg.1.2.2
  · intro kr hkr
    obtain ⟨v, hv, hr⟩ := h4 kr hkr
    exact ⟨v, hget kr.1 v hv, hr⟩

/-- second step of `takeDsMulti_spec_raw`, reduced to ONE open obligation: every variable of the result is the variable's
own `take` (any index `ui'`, any configuration `cfg'`) as soon as `_get_indices` on the VARIABLE's axes resolves `ui'` to
the Dataset's resolved indices restricted to the variable's dimensions (`hres`; under `GoodDs`, for `ui'` = the normalised
index restricted to `v.dims` this is obligation (2), not proved here). -/
theorem takeDsMulti_spec_take {α : Type} (ds out : Ds α) (names : Option (List String)) (ui : UserIndex) (cfg : IndexCfg)
    (hg : GoodDs ds) (hn : ∀ l, names = some l → l.Nodup) (h : takeDsMulti ds names ui cfg = .ok out) :
    ∃ raw, getIndices ds.axes ui cfg = .ok raw ∧
      ∀ kr ∈ out.vars, ∃ v, (kr.1, v) ∈ ds.vars ∧
        ∀ ui' cfg', getIndices v.axes ui' cfg' = .ok (rawFor ds.dims raw v.axes) → take v ui' cfg' = .ok kr.2 := by
  obtain ⟨raw, pix, hraw, _, _, _, _, _, _, h8⟩ := takeDsMulti_spec_raw ds out names ui cfg hg hn h
  refine ⟨raw, hraw, fun kr hkr => ?_⟩
  obtain ⟨v, hv, hr⟩ := h8 kr hkr
  exact ⟨v, hv, fun ui' cfg' hres => by rw [← takeRaw_eq_take v ui' cfg' _ hres]; exact hr⟩

/-- the keys a run leaves behind (`none`: the call failed) -/
def keysOf (r : Except Err (Ds Nat)) : Option (List String) :=
  match r with
  | .ok o => some o.keys
  | .error _ => none

def dupDs : Ds Nat := { axes := [cexY], vars := [("b", cexB)] }

/-- `hn` of `takeDsMulti_spec_raw` is needed: with a repeated name the keys of the result are not the list asked for -/
theorem takeDsMulti_dup_counterexample :
    keysOf (takeDsMulti dupDs (some ["b", "b"]) (.dict []) {}) = some ["b"] := by decide

/-- the hypotheses of `takeDsMulti_spec_raw` are satisfiable by a non-trivial call (a boolean index along `y`, one name) -/
example : keysOf (takeDsMulti dupDs (some ["b"]) (.dict [(.name "y", .mask [false, true])]) {}) = some ["b"] := by decide

/-- the first-draft form of `takeDs_spec` -/
theorem takeDs_sameData {α : Type} (ds out : Ds α) (name : String) (ix : Ix) (cfg : IndexCfg) (hg : GoodDs ds)
    (h : takeDs ds name ix cfg = .ok out) :
    out.keys = ds.keys ∧ out.attrs = ds.attrs ∧
    ∀ k v, (k, v) ∈ ds.vars → ∃ r, (k, r) ∈ out.vars ∧
      (name ∈ v.dims → ∃ r', take v (.dict [(.name name, ix)]) cfg = .ok r' ∧ SameData r r') ∧
      (name ∉ v.dims → r = v) := by
  obtain ⟨h1, h2, _, _, h5⟩ := takeDs_spec ds out name ix cfg hg h
  refine ⟨h1, h2, fun k v hkv => ?_⟩
  obtain ⟨r, hr, hin, hnot⟩ := h5 k v hkv
  exact ⟨r, hr, fun hmem => ⟨r, hin hmem, sameData_refl r⟩, hnot⟩

/-- `__setitem__` keeps the shared-axes rule (names and labels; the statement is about an accepted value - a
rejected one returns `.error` and there is no new state) -/
theorem setItem_shared {α : Type} (ds out : Ds α) (k : String) (v : DimArray α)
    (hs : ∀ kv ∈ ds.vars, ∀ ax ∈ kv.2.axes, ∃ e ∈ ds.axes, e.name = ax.name ∧ e.labels = ax.labels)
    (hd : ds.dims.Nodup) (hv : v.dims.Nodup) (h : setItem ds k v = .ok out) :
    (∀ kv ∈ out.vars, ∀ ax ∈ kv.2.axes, ∃ e ∈ out.axes, e.name = ax.name ∧ e.labels = ax.labels) ∧
    out.dims.Nodup ∧ (∃ r, (k, r) ∈ out.vars ∧ r.dims = v.dims ∧ r.vals = v.vals ∧
      r.axes.map (·.labels) = v.axes.map (·.labels)) :=
  setItem_shared_aux ds out k v hs hd hv h

/-- the hypothesis `takeAxisPosDs ds name ps = .ok out` of `takeAxisPosDs_spec` is satisfiable for every good
Dataset: `take_axis` on an existing dimension only fails on the NumPy error "take from an empty axis" -/
theorem takeAxisPosDs_ok {α : Type} (ds : Ds α) (name : String) (ps : List Nat) (hg : GoodDs ds) (ax : Axis)
    (hfind : ds.axes.find? (fun a => a.name == name) = some ax) (hsz : ¬ (ax.size == 0 && !ps.isEmpty) = true) :
    ∃ out, takeAxisPosDs ds name ps = .ok out := by
  have hmem := find?_name_some hfind
  have hin : name ∈ ds.dims := hmem.2 ▸ List.mem_map_of_mem hmem.1
  unfold takeAxisPosDs
  rw [hfind]
  simp only []
  rw [if_neg hsz]
  exact ⟨_, reduceAxisKeep_closed ds name _ (takeVals ps) rfl hin hg.2.1 hg.1.2.2 hg.2.2.1⟩

/-! ### non-vacuity: a concrete Dataset with two variables over integer-labelled dimensions, one of them lacking
the operated dimension -/

def exX : Axis := { name := "x", labels := [.num 10, .num 30, .num 20], kind := .i }
def exY : Axis := { name := "y", labels := [.num 1, .num 2], kind := .i }
def exA : DimArray Int := { axes := [exX, exY], vals := NDArr.ofFlat [3, 2] [1, 2, 3, 4, 5, 6], vkind := .i }
def exB : DimArray Int := { axes := [exY], vals := NDArr.ofFlat [2] [7, 8], vkind := .i, attrs := [("units", 1)] }
def exDs : Ds Int := { axes := [exX, exY], vars := [("a", exA), ("b", exB)], attrs := [("title", 2)] }

theorem exDs_good : GoodDs exDs := by
  refine ⟨⟨?_, ?_, ?_⟩, ?_, ?_, ?_⟩
  · intro kv hkv ax hax
    exact ⟨ax, by
      simp only [exDs, List.mem_cons, List.not_mem_nil, or_false] at hkv
      rcases hkv with rfl | rfl <;> simp [exA, exB, exDs] at hax ⊢ <;> simp [hax], rfl, rfl⟩
  · intro e he
    simp only [exDs, List.mem_cons, List.not_mem_nil, or_false] at he
    rcases he with rfl | rfl
    · exact ⟨("a", exA), by simp [exDs], by simp [exA, DimArray.dims]⟩
    · exact ⟨("b", exB), by simp [exDs], by simp [exB, DimArray.dims]⟩
  · simp [exDs, Ds.dims, exX, exY]
  · intro kv hkv ax hax
    simp only [exDs, List.mem_cons, List.not_mem_nil, or_false] at hkv
    rcases hkv with rfl | rfl <;> simp [exA, exB, exDs] at hax ⊢ <;> simp [hax]
  · simp [exDs, Ds.keys]
  · intro kv hkv
    simp only [exDs, List.mem_cons, List.not_mem_nil, or_false] at hkv
    rcases hkv with rfl | rfl
    · simp [exA, DimArray.dims, exX, exY, NDArr.ofFlat, Axis.size]
    · simp [exB, DimArray.dims, exY, NDArr.ofFlat, Axis.size]

/-- `takeAxisPosDs_spec` applied to the concrete Dataset: `take_axis([2, 0], axis="x")` succeeds, keeps the keys,
returns `b` (which has no dimension `x`) as it is and `a` as `a.take_axis([2, 0], axis=0)` -/
example : ∃ out, takeAxisPosDs exDs "x" [2, 0] = .ok out ∧ out.keys = ["a", "b"] ∧ SharedAxes out ∧
    ("b", exB) ∈ out.vars ∧ ("a", takeAxisPos exA 0 [2, 0]) ∈ out.vars := by
  have hfind : exDs.axes.find? (fun a => a.name == "x") = some exX := by simp [exDs, exX]
  obtain ⟨out, hout⟩ := takeAxisPosDs_ok exDs "x" [2, 0] exDs_good exX hfind (by simp [exX, Axis.size])
  obtain ⟨h1, _, h3, _, h5⟩ := takeAxisPosDs_spec exDs out "x" [2, 0] exDs_good hout
  refine ⟨out, hout, h1, h3, ?_, ?_⟩
  · obtain ⟨r, hr, _, hnot⟩ := h5 "b" exB (by simp [exDs])
    rw [hnot (by simp [exB, DimArray.dims, exY])] at hr
    exact hr
  · obtain ⟨r, hr, hin, _⟩ := h5 "a" exA (by simp [exDs])
    have hpos : exA.dims.idxOf "x" = 0 := by simp [exA, DimArray.dims, exX]
    have := hin (by simp [exA, DimArray.dims, exX])
    rw [hpos] at this
    exact this ▸ hr

/-! ### round 5: reductions, arithmetic, stack_ds / concatenate_ds (the operations that re-assemble a Dataset with
`Dataset(dict)` / `__setitem__`)

Vocabulary (`DimModel/Proofs/C14Ops.lean`): `SameVar r v` - the stored variable `r` is the assigned value `v`: same
dimension names, labels, values, value kind and metadata (what `__setitem__` replaces is the identity of the axis
objects; when the axes of `v` already are the Dataset's, `r = v`). -/

/-- REDUCTIONS, GENERIC FORM (`Dataset._apply_dimarray_axis(funcname, axis=name)`), for any DimArray method `f` whose
result carries axes of its argument (every along-axis transformation does: it removes or keeps the axis) and has
distinct dimension names.  On a good Dataset, when the call succeeds:
* `name` is a dimension of the Dataset (otherwise `self.axes[axis]` raises);
* the keys and their order are kept; **the Dataset's metadata is NOT kept** (`Dataset(d)` is a fresh Dataset);
* every variable that has the dimension is `f(variable)`, the others are unchanged (the very same value);
* the result again has shared, own axes; its axes are axis objects of the input Dataset - exactly those still in
  use by a variable -, listed in the order of first appearance in the variables. -/
theorem applyAxis_spec {α : Type} (nan : α) (ds out : Ds α) (name : String)
    (f : DimArray α → Except Err (DimArray α)) (hg : GoodDs ds)
    (hf : ∀ k v, (k, v) ∈ ds.vars → name ∈ v.dims → ∀ r, f v = .ok r → (∀ ax ∈ r.axes, ax ∈ v.axes) ∧ r.dims.Nodup)
    (h : applyAxis nan ds name f = .ok out) :
    name ∈ ds.dims ∧ out.keys = ds.keys ∧ out.attrs = [] ∧ SharedAxes out ∧ OwnAxes out ∧
    (∀ k v, (k, v) ∈ ds.vars → ∃ r, (k, r) ∈ out.vars ∧ (name ∈ v.dims → f v = .ok r) ∧ (name ∉ v.dims → r = v)) ∧
    (∀ e ∈ out.axes, e ∈ ds.axes) ∧ (∀ e, e ∈ out.axes ↔ ∃ kv ∈ out.vars, e ∈ kv.2.axes) ∧
    out.dims = getDims (out.vars.map (·.2.axes)) := by
  obtain ⟨hin, hat, hsh, hown, hdm, hax, hrel⟩ := applyAxis_closed nan ds out name f hg.2.1 hg.1.2.2
    (by
      intro e he
      obtain ⟨kv, hkv, hm⟩ := (axes_iff_used hg.1 hg.2.1 e).1 he
      exact (hg.2.2.2 kv hkv).2.2 e hm)
    hg.2.2.1 (fun kv hkv => (hg.2.2.2 kv hkv).1) (fun kv hkv => hf kv.1 kv.2 hkv) h
  refine ⟨hin, ?_, hat, hsh, hown, ?_, hax, axes_iff_used hsh hown, hdm⟩
  · exact (hrel.map_eq (·.1) (·.1) fun a b hab => hab.1.symm).symm
  · intro k v hkv
    obtain ⟨kv', hkv', h1, h2, h3⟩ := hrel.mem_left (k, v) hkv
    refine ⟨kv'.2, ?_, h2, h3⟩
    have : kv' = (k, kv'.2) := Prod.ext h1 rfl
    rw [← this]
    exact hkv'

/-- PRESERVATION for `_apply_dimarray_axis`: when moreover the values of `f(variable)` have the shape its axes
announce, the result is again a good Dataset -/
theorem applyAxis_good {α : Type} (nan : α) (ds out : Ds α) (name : String)
    (f : DimArray α → Except Err (DimArray α)) (hg : GoodDs ds)
    (hf : ∀ k v, (k, v) ∈ ds.vars → name ∈ v.dims → ∀ r, f v = .ok r →
      (∀ ax ∈ r.axes, ax ∈ v.axes) ∧ r.dims.Nodup ∧ r.vals.shape = r.axes.map (·.size))
    (h : applyAxis nan ds name f = .ok out) : GoodDs out := by
  obtain ⟨_, hk, _, hsh, hown, hv, _, _, _⟩ := applyAxis_spec nan ds out name f hg
    (fun k v hkv hm r hr => ⟨(hf k v hkv hm r hr).1, (hf k v hkv hm r hr).2.1⟩) h
  refine ⟨hsh, hown, hk ▸ hg.2.2.1, ?_⟩
  intro kv hkv
  obtain ⟨v0, hkv0⟩ := var_of_key (l := ds.vars) hk hkv
  obtain ⟨r, hr, h1, h2⟩ := hv kv.1 v0 hkv0
  have hnd : (out.vars.map (·.1)).Nodup := by
    have := hg.2.2.1
    rw [← hk] at this
    exact this
  have hrk : r = kv.2 := value_unique hnd hr hkv
  subst hrk
  by_cases hm : name ∈ v0.dims
  · obtain ⟨ha, hn, hs⟩ := hf kv.1 v0 hkv0 hm _ (h1 hm)
    exact ⟨hn, hs, fun ax hax => (hg.2.2.2 _ hkv0).2.2 ax (ha ax hax)⟩
  · rw [h2 hm]
    exact hg.2.2.2 _ hkv0

/-- REDUCTIONS (`Dataset.mean / std / var / median / sum (axis=name)`): on a good Dataset, when the call succeeds
* `name` was a dimension of the Dataset and is not a dimension of the result: the axes of the result are exactly
  the other axes of the Dataset (the same objects; listed in the order of first appearance in the variables);
* keys and their order are kept; the Dataset's metadata is dropped;
* every variable that has the dimension is the DimArray reduction (`Lib.reduceAxis`, the C08 mirror) of that
  variable along `name` - a scalar result (1-D variable) being stored as the 0-d `DimArray(scalar)`, without
  metadata -, the others are unchanged;
* the result is again a good Dataset (shared, own axes; distinct keys; well-formed variables). -/
theorem reduceDs_spec {α : Type} (nan : α) (red : List α → α) (ds out : Ds α) (name : String) (hg : GoodDs ds)
    (h : reduceDs nan red ds name = .ok out) :
    name ∈ ds.dims ∧ name ∉ out.dims ∧ (∀ e, e ∈ out.axes ↔ e ∈ ds.axes ∧ e.name ≠ name) ∧
    out.dims = getDims (out.vars.map (·.2.axes)) ∧
    out.keys = ds.keys ∧ out.attrs = [] ∧ GoodDs out ∧
    ∀ k v, (k, v) ∈ ds.vars → ∃ r, (k, r) ∈ out.vars ∧
      (name ∈ v.dims → ∃ s, reduceAxis red v (.one (.name name)) = .ok s ∧
        r = match s with
            | .inl c => scalarVar c v.vkind
            | .inr a => a) ∧
      (name ∉ v.dims → r = v) := by
  have hf : ∀ k v, (k, v) ∈ ds.vars → name ∈ v.dims → ∀ r, reduceVarDs red name v = .ok r →
      (∀ ax ∈ r.axes, ax ∈ v.axes) ∧ r.dims.Nodup ∧ r.vals.shape = r.axes.map (·.size) := by
    intro k v hkv hm r hr
    rw [reduceVarDs_of_mem red name v hm] at hr
    rw [← Except.ok.inj hr]
    exact ⟨reducedVar_axes_mem red name v, (reducedVar_dims red name v (hg.2.2.2 (k, v) hkv).1).1,
      reducedVar_shape red name v (hg.2.2.2 (k, v) hkv).2.1⟩
  have hgood := applyAxis_good nan ds out name (reduceVarDs red name) hg hf h
  obtain ⟨hin, hk, hat, hsh, hown, hv, hax, hiff, hdm⟩ := applyAxis_spec nan ds out name (reduceVarDs red name) hg
    (fun k v hkv hm r hr => ⟨(hf k v hkv hm r hr).1, (hf k v hkv hm r hr).2.1⟩) h
  -- no variable of the result has the dimension
  have hnone : ∀ kv ∈ out.vars, name ∉ kv.2.dims := by
    intro kv hkv
    obtain ⟨v0, hkv0⟩ := var_of_key (l := ds.vars) hk hkv
    obtain ⟨r, hr, h1, h2⟩ := hv kv.1 v0 hkv0
    have hrk : r = kv.2 := value_unique hgood.2.2.1 hr hkv
    subst hrk
    by_cases hm : name ∈ v0.dims
    · have := h1 hm
      rw [reduceVarDs_of_mem red name v0 hm] at this
      rw [← Except.ok.inj this]
      exact (reducedVar_dims red name v0 (hg.2.2.2 _ hkv0).1).2
    · rw [h2 hm]; exact hm
  have hnot : name ∉ out.dims := by
    intro hmem
    obtain ⟨e, he, hn⟩ := List.mem_map.1 hmem
    obtain ⟨kv, hkv, hm⟩ := hsh.2.1 e he
    exact hnone kv hkv (hn ▸ hm)
  refine ⟨hin, hnot, ?_, hdm, hk, hat, hgood, ?_⟩
  · intro e
    constructor
    · intro he
      exact ⟨hax e he, fun hn => hnot (hn ▸ List.mem_map_of_mem he)⟩
    · rintro ⟨he, hne⟩
      obtain ⟨kv0, hkv0, hm0⟩ := (axes_iff_used hg.1 hg.2.1 e).1 he
      obtain ⟨r, hr, h1, h2⟩ := hv kv0.1 kv0.2 hkv0
      refine (hiff e).2 ⟨_, hr, ?_⟩
      by_cases hm : name ∈ kv0.2.dims
      · have := h1 hm
        rw [reduceVarDs_of_mem red name kv0.2 hm] at this
        rw [← Except.ok.inj this]
        exact reducedVar_keeps red name kv0.2 hm e hm0 hne
      · rw [h2 hm]; exact hm0
  · intro k v hkv
    obtain ⟨r, hr, h1, h2⟩ := hv k v hkv
    refine ⟨r, hr, ?_, h2⟩
    intro hm
    have h3 := h1 hm
    unfold reduceVarDs at h3
    cases hs : reduceAxis red v (.one (.name name)) with
    | error e => simp [hs, bind, Except.bind] at h3
    | ok s =>
      refine ⟨s, rfl, ?_⟩
      simp only [hs, bind, Except.bind] at h3
      cases s with
      | inl c => simpa [pure, Except.pure] using h3.symm
      | inr a => simpa [pure, Except.pure] using h3.symm

/-- a reduction along an existing dimension of a good Dataset always succeeds: the hypothesis of `reduceDs_spec`
is satisfiable for every good Dataset and every one of its dimensions -/
theorem reduceDs_ok {α : Type} (nan : α) (red : List α → α) (ds : Ds α) (name : String) (hg : GoodDs ds)
    (hin : name ∈ ds.dims) : ∃ out, reduceDs nan red ds name = .ok out := by
  apply applyAxis_ok nan ds name (reduceVarDs red name) hg.2.1 hg.1.2.2 _ hin
  · intro kv _ hm
    exact ⟨_, reduceVarDs_of_mem red name kv.2 hm, reducedVar_axes_mem red name kv.2⟩
  · intro e he
    obtain ⟨kv, hkv, hm⟩ := (axes_iff_used hg.1 hg.2.1 e).1 he
    exact (hg.2.2.2 kv hkv).2.2 e hm

/-! machine-checked counterexample to `applyAxis_spec` WITHOUT the hypothesis `hf` (for an arbitrary method `f`):
`Dataset(dict)` re-links every value to the axes of the Dataset under construction, found by name and accepted
when the labels agree.  A method that returns, for the variable `c`, an axis `x` of another kind (labels unchanged)
is accepted, but the stored variable `c` carries the axis object first met (kind `i`), not the one `f(c)` has (kind
`f`): the stored variable is not `f(variable)`.  Every along-axis method of dimarray returns axes of its argument,
which is what `hf` asks. -/

def cexA2 : DimArray Nat := { axes := [cexX, cexY], vals := NDArr.const [2, 2] 0 }
def cexC2 : DimArray Nat := { axes := [cexX, cexY], vals := NDArr.const [2, 2] 0, attrs := [("m", 1)] }
def cexDs2 : Ds Nat := { axes := [cexX, cexY], vars := [("a", cexA2), ("c", cexC2)] }
/-- drops the dimension `y`; for a variable with metadata, also changes the kind of the remaining axes -/
def cexF (v : DimArray Nat) : Except Err (DimArray Nat) :=
  .ok { axes := (v.axes.filter (·.name != "y")).map fun ax => if v.attrs.isEmpty then ax else { ax with kind := .f }
        vals := NDArr.const [2] 0, attrs := v.attrs }

theorem cexDs2_good : GoodDs cexDs2 := by
  refine ⟨⟨?_, ?_, ?_⟩, ?_, ?_, ?_⟩
  · intro kv hkv ax hax
    exact ⟨ax, by
      simp only [cexDs2, List.mem_cons, List.not_mem_nil, or_false] at hkv
      rcases hkv with rfl | rfl <;> simp [cexA2, cexC2, cexDs2] at hax ⊢ <;> simp [hax], rfl, rfl⟩
  · intro e he
    exact ⟨("a", cexA2), by simp [cexDs2], by
      simp only [cexDs2, List.mem_cons, List.not_mem_nil, or_false] at he
      rcases he with rfl | rfl <;> simp [cexA2, DimArray.dims]⟩
  · simp [cexDs2, Ds.dims, cexX, cexY]
  · intro kv hkv ax hax
    simp only [cexDs2, List.mem_cons, List.not_mem_nil, or_false] at hkv
    rcases hkv with rfl | rfl <;> simp [cexA2, cexC2, cexDs2] at hax ⊢ <;> simp [hax]
  · simp [cexDs2, Ds.keys]
  · intro kv hkv
    simp only [cexDs2, List.mem_cons, List.not_mem_nil, or_false] at hkv
    rcases hkv with rfl | rfl <;> simp [cexA2, cexC2, DimArray.dims, cexX, cexY, NDArr.const, Axis.size]

theorem applyAxis_arbitrary_f_counterexample :
    GoodDs cexDs2 ∧
    ¬ ∀ out, applyAxis 0 cexDs2 "y" cexF = .ok out →
        ∀ k v, (k, v) ∈ cexDs2.vars → ∃ r, (k, r) ∈ out.vars ∧ ("y" ∈ v.dims → cexF v = .ok r) := by
  refine ⟨cexDs2_good, ?_⟩
  intro H
  have hax : varAxes (applyAxis 0 cexDs2 "y" cexF) = some [("a", [cexX]), ("c", [cexX])] := by decide
  cases hto : applyAxis 0 cexDs2 "y" cexF with
  | error e => rw [hto] at hax; cases hax
  | ok out =>
    rw [hto] at hax
    obtain ⟨r, hr, hin⟩ := H out hto "c" cexC2 (by simp [cexDs2])
    have hfr := hin (by simp [cexC2, DimArray.dims, cexX, cexY])
    have hmem := List.mem_map_of_mem (f := fun kv : String × DimArray Nat => (kv.1, kv.2.axes)) hr
    simp only [varAxes, Option.some.injEq] at hax
    rw [hax] at hmem
    have hra : r.axes = [cexX] := by
      simp only [List.mem_cons, Prod.mk.injEq, List.not_mem_nil, or_false] at hmem
      rcases hmem with ⟨h1, _⟩ | ⟨_, h2⟩
      · exact absurd h1 (by decide)
      · exact h2
    have : r.axes = [{ cexX with kind := .f }] := by
      rw [← Except.ok.inj hfr]
      decide
    rw [hra] at this
    revert this
    decide

/-! #### arithmetic (`Dataset._binary_op`) -/

/-- the variables the arithmetic theorems speak about: the inputs of the C04 / C06 theorems (`AlignInput`: distinct
dimension names, unique labels, no `None` label, plain non-empty axes, values of the announced shape) with
comma-free dimension names (a comma is the separator of grouped dimensions, see C04) -/
def OpInput {α} (v : DimArray α) : Prop := AlignInput v ∧ ∀ d ∈ v.dims, ',' ∉ d.toList

/-- DATASET op DATASET.  When `self op other` succeeds:
* the result holds the keys of `self` that `other` has too, in `self`'s order (the other variables are dropped
  silently), no Dataset metadata;
* variable `k` of the result is `self[k] op other[k]` - the C04 mirror `Lib.operation`, which aligns the two
  variables by name and label (`SameVar`: same dimensions, labels, values, kind, metadata; the axis objects are the
  result Dataset's);
* the result again has shared, own axes (every axis object comes from one of the per-variable results), distinct
  keys, variables with distinct dimension names and values of the shape their labels announce.
The Datasets need not be related: a variable-wise result whose axis disagrees with an earlier one makes
`__setitem__` raise, and then there is no result. -/
theorem binaryOpDs_spec {α : Type} (nan : α) (f : α → α → α) (self o out : Ds α)
    (hk1 : self.keys.Nodup) (hk2 : o.keys.Nodup)
    (hin1 : ∀ kv ∈ self.vars, OpInput kv.2) (hin2 : ∀ kv ∈ o.vars, OpInput kv.2)
    (h : binaryOpDs nan f self (.ds o) = .ok out) :
    out.keys = self.keys.filter (fun k => o.keys.contains k) ∧ out.attrs = [] ∧
    SharedAxes out ∧ OwnAxes out ∧ out.keys.Nodup ∧
    (∀ k v1 v2, (k, v1) ∈ self.vars → (k, v2) ∈ o.vars →
      ∃ r res, (k, r) ∈ out.vars ∧ operation nan f v1 v2 = .ok res ∧ SameVar r res.1) ∧
    (∀ e ∈ out.axes, ∃ k v1 v2 res, (k, v1) ∈ self.vars ∧ (k, v2) ∈ o.vars ∧
      operation nan f v1 v2 = .ok res ∧ e ∈ res.1.axes) ∧
    (∀ kv ∈ out.vars, kv.2.dims.Nodup ∧ kv.2.vals.shape = kv.2.axes.map (·.labels.length)) := by
  have hres : ∀ k v1 v2 res, (k, v1) ∈ self.vars → (k, v2) ∈ o.vars → operation nan f v1 v2 = .ok res →
      res.1.dims.Nodup := by
    intro k v1 v2 res h1 h2 hop
    obtain ⟨r, k1, k2⟩ := res
    exact (operation_dims_cover nan f v1 v2 r k1 k2 (hin1 _ h1).1 (hin2 _ h2).1 (hin1 _ h1).2 (hin2 _ h2).2 hop).1
  obtain ⟨hk, hat, hsh, hown, hv, hax⟩ := binaryOpDs_ds_core nan f self o out hk1 hk2 hres h
  have hknd : out.keys.Nodup := hk ▸ hk1.sublist List.filter_sublist
  refine ⟨hk, hat, hsh, hown, hknd, hv, hax, ?_⟩
  intro kv hkv
  have hkin : kv.1 ∈ self.keys.filter (fun k => o.keys.contains k) := hk ▸ List.mem_map_of_mem (f := (·.1)) hkv
  obtain ⟨hk1', hk2'⟩ := List.mem_filter.1 hkin
  obtain ⟨kv1, hkv1, he1⟩ := List.mem_map.1 hk1'
  obtain ⟨kv2, hkv2, he2⟩ := List.mem_map.1 (by simpa using hk2' : kv.1 ∈ o.keys)
  have h1 : (kv.1, kv1.2) ∈ self.vars := by rw [← he1]; exact hkv1
  have h2 : (kv.1, kv2.2) ∈ o.vars := by rw [← he2]; exact hkv2
  obtain ⟨r, res, hr, hop, hsame⟩ := hv kv.1 kv1.2 kv2.2 h1 h2
  have : r = kv.2 := value_unique hknd hr hkv
  subst this
  obtain ⟨res1, k1, k2⟩ := res
  obtain ⟨_, _, _, hshape, _⟩ := operation_general_spec nan f kv1.2 kv2.2 res1 k1 k2
    (hin1 _ h1).1 (hin2 _ h2).1 (hin1 _ h1).2 (hin2 _ h2).2 hop
  refine ⟨hsame.1 ▸ hres _ _ _ _ h1 h2 hop, ?_⟩
  rw [hsame.2.2.1, hshape]
  have := congrArg (List.map List.length) hsame.2.1
  simp only [List.map_map] at this
  exact this.symm

/-- `Dataset op DimArray` (or an ndarray, a list): refused with an AssertionError - the Python code only combines a
Dataset with a Dataset or a scalar -/
theorem binaryOpDs_other {α : Type} (nan : α) (f : α → α → α) (self : Ds α) :
    binaryOpDs nan f self .other = .error .assertion := rfl

/-- DATASET op SCALAR on a good Dataset: every variable `k` of the result IS `self[k] op scalar` (the mirror
`Lib.operationNd` of `operation` with a non-DimArray operand; the stored variable keeps the axes of `self[k]`,
which are the Dataset's), same keys, the same axis objects (in the order of first appearance in the variables), no
Dataset metadata (and, as for DimArrays, no variable metadata); the result is again a good Dataset. -/
theorem binaryOpDs_scalar_spec {α : Type} (nan : α) (f : α → α → α) (self out : Ds α) (c : α) (hg : GoodDs self)
    (h : binaryOpDs nan f self (.scalar c) = .ok out) :
    out.keys = self.keys ∧ out.attrs = [] ∧ GoodDs out ∧ (∀ e, e ∈ out.axes ↔ e ∈ self.axes) ∧
    ∀ k v, (k, v) ∈ self.vars → ∃ r, (k, r) ∈ out.vars ∧ operationNd f v (scalarNd c) false = .ok r := by
  obtain ⟨hk, hat, hsh, hown, hv, hax⟩ := binaryOpDs_scalar_core f nan self out c hg.2.2.1
    (fun kv hkv => (hg.2.2.2 kv hkv).1) h
  have haxU : ∀ e ∈ out.axes, e ∈ self.axes := by
    intro e he
    obtain ⟨kv, hkv, hm⟩ := hax e he
    exact hg.2.1 kv hkv e hm
  -- the stored variable is the per-variable result itself
  have hv' : ∀ k v, (k, v) ∈ self.vars → ∃ r, (k, r) ∈ out.vars ∧ operationNd f v (scalarNd c) false = .ok r := by
    intro k v hkv
    obtain ⟨r, res, hr, hop, hsame⟩ := hv k v hkv
    have : r = res := sameVar_own self.axes hg.1.2.2 r res hsame
      (fun a ha => haxU a (hown (k, r) hr a ha))
      (fun a ha => hg.2.1 (k, v) hkv a ((operationNd_axes f v res _ _ hop).1 ▸ ha))
    exact ⟨r, hr, this ▸ hop⟩
  have hknd : out.keys.Nodup := hk ▸ hg.2.2.1
  refine ⟨hk, hat, ⟨hsh, hown, hknd, ?_⟩, ?_, hv'⟩
  · intro kv hkv
    obtain ⟨v0, hkv0⟩ := var_of_key (l := self.vars) hk hkv
    obtain ⟨r, hr, hop⟩ := hv' kv.1 v0 hkv0
    have : r = kv.2 := value_unique hknd hr hkv
    rw [this] at hop
    obtain ⟨h1, _, _, h4⟩ := operationNd_axes f v0 kv.2 _ _ hop
    refine ⟨?_, h4, ?_⟩
    · show (kv.2.axes.map (·.name)).Nodup
      rw [h1]; exact (hg.2.2.2 _ hkv0).1
    · rw [h1]; exact (hg.2.2.2 _ hkv0).2.2
  · intro e
    refine ⟨haxU e, ?_⟩
    intro he
    obtain ⟨kv, hkv, hm⟩ := (axes_iff_used hg.1 hg.2.1 e).1 he
    obtain ⟨r, hr, hop⟩ := hv' kv.1 kv.2 hkv
    exact hown _ hr e ((operationNd_axes f kv.2 r _ _ hop).1 ▸ hm)

/-! #### stack_ds / concatenate_ds (align=False) -/

/-- STACK_DS.  When `stack_ds(datasets, axis, keys)` succeeds on a non-empty list of Datasets (the first with
distinct keys):
* the new dimension `name` (`_check_stack_axis` on the dimensions of all Datasets) is a dimension of none of them,
  and every Dataset holds the keys of the first one (in any order);
* the result holds the keys of the first Dataset, in its order, and no metadata;
* variable `k` of the result is `stack([ds[k] for ds in datasets], axis=name, keys)` - the C12 mirror `Lib.stack`
  (align=False), `gather datasets k` being the list of the variables `k`, one per Dataset, in order;
* the result has shared, own axes, every axis object coming from one of the stacked variables; the stacked
  variables have distinct dimension names, the first of which is `name`. -/
theorem stackDs_spec {α : Type} [Inhabited α] (nan : α) (d0 : Ds α) (rest : List (Ds α)) (axis : Option String)
    (keys : List Label) (kk : Kind) (out : Ds α) (hk : d0.keys.Nodup)
    (h : stackDs nan (d0 :: rest) axis keys kk = .ok out) :
    ∃ name, checkStackAxis axis (getDims ((d0 :: rest).map (·.axes))) = .ok name ∧
      (∀ ds ∈ d0 :: rest, name ∉ ds.dims ∧ ds.keys.Perm d0.keys) ∧
      out.keys = d0.keys ∧ out.attrs = [] ∧ SharedAxes out ∧ OwnAxes out ∧
      (∀ k ∈ d0.keys, ∃ arrays s r, gather (d0 :: rest) k = .ok arrays ∧
        Rel2 (fun ds a => (k, a) ∈ ds.vars) (d0 :: rest) arrays ∧
        stack nan arrays (some name) keys kk false false = .ok s ∧ (k, r) ∈ out.vars ∧ SameVar r s ∧
        s.dims.Nodup ∧ s.dims.head? = some name) ∧
      (∀ e ∈ out.axes, ∃ k ∈ d0.keys, ∃ arrays s, gather (d0 :: rest) k = .ok arrays ∧
        stack nan arrays (some name) keys kk false false = .ok s ∧ e ∈ s.axes) := by
  rw [stackDs_eq] at h
  cases hname : checkStackAxis axis (getDims ((d0 :: rest).map (·.axes))) with
  | error e => rw [hname] at h; cases h
  | ok name =>
    rw [hname] at h
    replace h : ((d0 :: rest).foldlM (stackChk name) none >>= fun variables =>
        match variables with
        | none => .error .type
        | some vars =>
          vars.foldlM (joinStep (fun arrays => stack nan arrays (some name) keys kk false false) (d0 :: rest)) {}) =
        .ok out := h
    cases hvars : (d0 :: rest).foldlM (stackChk name) none with
    | error e => rw [hvars] at h; cases h
    | ok variables =>
      rw [hvars] at h
      obtain ⟨rfl, hchk⟩ := stackChk_spec name d0 rest variables hvars
      replace h : d0.keys.foldlM
          (joinStep (fun arrays => stack nan arrays (some name) keys kk false false) (d0 :: rest)) {} = .ok out := h
      obtain ⟨h1, h2, h3, h4, h5, h6⟩ := joinLoop_core _ (d0 :: rest) d0.keys out hk
        (fun v _ arrays r _ hs => (stack_dims_nodup nan arrays name keys kk r hs).1) h
      refine ⟨name, rfl, hchk, h1, h2, h3, h4, ?_, h6⟩
      intro k hkm
      obtain ⟨arrays, s, r, hg, hs, hr, hsame⟩ := h5 k hkm
      have hd := stack_dims_nodup nan arrays name keys kk s hs
      exact ⟨arrays, s, r, hg, gather_rel _ _ _ hg, hs, hr, hsame, hd.1, hd.2.1⟩

/-- CONCATENATE_DS.  When `concatenate_ds(datasets, axis)` succeeds on a non-empty list of Datasets (the first with
distinct keys and variables with distinct dimension names):
* `axis` resolves, ON THE FIRST DATASET, to a dimension name `name` (`datasets[0].axes[axis].name`, the mirror
  `dsAxisName`: a name is itself, an integer - negative ones from the end - is a position in the first Dataset's
  dimensions), and `name` is a dimension of the first Dataset;
* every Dataset holds the keys of the first one; the result holds them in the first one's order, no metadata;
* variable `k` of the result is `concatenate([ds[k] for ds in datasets], axis=name)` - the C12 mirror
  `Lib.concatenate` (align=False), BY NAME whatever the position of the dimension in the variable; it lists the
  dimensions of the first Dataset's variable `k`.  In particular EVERY variable must have the dimension: a variable
  that lacks it makes `concatenate` raise (`concatenateDs_lacking`);
* the result has shared, own axes, every axis object coming from one of the concatenated variables. -/
theorem concatenateDs_spec {α : Type} (nan : α) (d0 : Ds α) (rest : List (Ds α)) (axis : DimKey) (out : Ds α)
    (hk : d0.keys.Nodup) (hnd : ∀ kv ∈ d0.vars, kv.2.dims.Nodup)
    (h : concatenateDs nan (d0 :: rest) axis = .ok out) :
    ∃ name, dsAxisName d0 axis = .ok name ∧ name ∈ d0.dims ∧
    (∀ ds ∈ d0 :: rest, ds.keys.Perm d0.keys) ∧
    out.keys = d0.keys ∧ out.attrs = [] ∧ SharedAxes out ∧ OwnAxes out ∧
    (∀ k v0, (k, v0) ∈ d0.vars → ∃ arrays s r, gather (d0 :: rest) k = .ok arrays ∧
      Rel2 (fun ds a => (k, a) ∈ ds.vars) (d0 :: rest) arrays ∧
      concatenate nan arrays (.name name) false false = .ok s ∧ (k, r) ∈ out.vars ∧ SameVar r s ∧ s.dims = v0.dims) ∧
    (∀ e ∈ out.axes, ∃ k ∈ d0.keys, ∃ arrays s, gather (d0 :: rest) k = .ok arrays ∧
      concatenate nan arrays (.name name) false false = .ok s ∧ e ∈ s.axes) := by
  rw [concatenateDs_eq] at h
  cases hvars : (d0 :: rest).foldlM catChk none with
  | error e => rw [hvars] at h; cases h
  | ok variables =>
    rw [hvars] at h
    obtain ⟨rfl, hchk⟩ := catChk_spec d0 rest variables hvars
    replace h : (dsAxisName d0 axis >>= fun name => d0.keys.foldlM
        (joinStep (fun arrays => concatenate nan arrays (.name name) false false) (d0 :: rest)) {}) = .ok out := h
    cases hname : dsAxisName d0 axis with
    | error e => rw [hname] at h; cases h
    | ok name =>
    rw [hname] at h
    replace h : d0.keys.foldlM
        (joinStep (fun arrays => concatenate nan arrays (.name name) false false) (d0 :: rest)) {} = .ok out := h
    -- the first gathered variable is the first Dataset's
    have hhead : ∀ k arrays, gather (d0 :: rest) k = .ok arrays → ∃ a0 t, arrays = a0 :: t ∧ (k, a0) ∈ d0.vars := by
      intro k arrays hg
      have := gather_rel _ _ _ hg
      cases this with
      | cons h1 _ => exact ⟨_, _, rfl, h1⟩
    have hdims : ∀ k arrays s, gather (d0 :: rest) k = .ok arrays →
        concatenate nan arrays (.name name) false false = .ok s → ∃ a0, (k, a0) ∈ d0.vars ∧ s.dims = a0.dims := by
      intro k arrays s hg hs
      obtain ⟨a0, t, rfl, h0⟩ := hhead k arrays hg
      exact ⟨a0, h0, concatenate_dims nan a0 t (.name name) s hs⟩
    obtain ⟨h1, h2, h3, h4, h5, h6⟩ := joinLoop_core _ (d0 :: rest) d0.keys out hk
      (fun v _ arrays r hg hs => by
        obtain ⟨a0, h0, hd⟩ := hdims v arrays r hg hs
        rw [hd]; exact hnd _ h0) h
    refine ⟨name, rfl, dsAxisName_mem d0 axis name hname, hchk, h1, h2, h3, h4, ?_, h6⟩
    intro k v0 hkv0
    obtain ⟨arrays, s, r, hg, hs, hr, hsame⟩ := h5 k (List.mem_map_of_mem (f := (·.1)) hkv0)
    obtain ⟨a0, h0, hd⟩ := hdims k arrays s hg hs
    have : a0 = v0 := value_unique hk h0 hkv0
    subst this
    exact ⟨arrays, s, r, hg, gather_rel _ _ _ hg, hs, hr, hsame, hd⟩

/-- AN INTEGER AXIS IS A POSITION IN THE (FIRST) DATASET: `concatenate_ds(datasets, axis)` is
`concatenate_ds(datasets, axis=datasets[0].dims[axis])` - whatever position the dimension has in each variable -/
theorem concatenateDs_key_eq_name {α : Type} (nan : α) (d0 : Ds α) (rest : List (Ds α)) (axis : DimKey)
    (name : String) (hname : dsAxisName d0 axis = .ok name) :
    concatenateDs nan (d0 :: rest) axis = concatenateDs nan (d0 :: rest) (.name name) := by
  rw [concatenateDs_eq, concatenateDs_eq]
  show (_ >>= fun variables => dsAxisName d0 axis >>= _) = (_ >>= fun variables => dsAxisName d0 (.name name) >>= _)
  rw [hname, dsAxisName_name d0 name (dsAxisName_mem d0 axis name hname)]

/-- VARIABLES LACKING THE DIMENSION, any spelling of the axis: `concatenate_ds` along a dimension (a name, or a
position in the first Dataset) that some variable of the first Dataset does not have never succeeds - the
per-variable `concatenate` raises (the docstring's "will raise an error if variables are there which do not contain
the required dimension") -/
theorem concatenateDs_lacking_key {α : Type} (nan : α) (d0 : Ds α) (rest : List (Ds α)) (axis : DimKey)
    (name : String) (hname : dsAxisName d0 axis = .ok name)
    (hk : d0.keys.Nodup) (hnd : ∀ kv ∈ d0.vars, kv.2.dims.Nodup) (k : String) (v0 : DimArray α)
    (hkv : (k, v0) ∈ d0.vars) (hlack : name ∉ v0.dims) :
    ¬ ∃ out, concatenateDs nan (d0 :: rest) axis = .ok out := by
  rintro ⟨out, h⟩
  obtain ⟨name', hname', _, _, _, _, _, _, hv, _⟩ := concatenateDs_spec nan d0 rest axis out hk hnd h
  have : name' = name := Except.ok.inj (hname'.symm.trans hname)
  subst this
  obtain ⟨arrays, s, r, _, hrel, hs, _⟩ := hv k v0 hkv
  cases hrel with
  | cons h1 _ =>
    have := value_unique hk h1 hkv
    subst this
    rw [concatenate_name_missing nan _ _ name' hlack] at hs
    cases hs

/-- VARIABLES LACKING THE DIMENSION: `concatenate_ds` along a dimension (given by name) that some variable of the
first Dataset does not have never succeeds -/
theorem concatenateDs_lacking {α : Type} (nan : α) (d0 : Ds α) (rest : List (Ds α)) (name : String)
    (hk : d0.keys.Nodup) (hnd : ∀ kv ∈ d0.vars, kv.2.dims.Nodup) (k : String) (v0 : DimArray α)
    (hkv : (k, v0) ∈ d0.vars) (hlack : name ∉ v0.dims) :
    ¬ ∃ out, concatenateDs nan (d0 :: rest) (.name name) = .ok out := by
  rintro ⟨out, h⟩
  obtain ⟨name', hname', _⟩ := concatenateDs_spec nan d0 rest (.name name) out hk hnd h
  have : name' = name := dsAxisName_name_inv d0 name name' hname'
  subst this
  exact concatenateDs_lacking_key nan d0 rest (.name name') name' hname' hk hnd k v0 hkv hlack ⟨out, h⟩

/-! #### copy -/

/-- COPY (`Dataset.copy()` = `Dataset({k: v})` + the metadata): on a good Dataset it always succeeds and returns
the same variables (keys, order, values, axes, metadata), the same set of axis objects and the metadata (for
distinct metadata keys, as in a dict) - a good Dataset again.  The axes are listed in the order of first appearance
in the variables, which need NOT be the order of the original (`copy_reorders_axes`). -/
theorem copyDs_spec {α : Type} (nan : α) (ds : Ds α) (hg : GoodDs ds) (hat : (ds.attrs.map (·.1)).Nodup) :
    ∃ out, copyDs nan ds = .ok out ∧ out.vars = ds.vars ∧ out.attrs = ds.attrs ∧ GoodDs out ∧
      (∀ e, e ∈ out.axes ↔ e ∈ ds.axes) ∧ out.dims = getDims (ds.vars.map (·.2.axes)) := by
  have hpl : ∀ e ∈ ds.axes, e.members = [] := by
    intro e he
    obtain ⟨kv, hkv, hm⟩ := (axes_iff_used hg.1 hg.2.1 e).1 he
    exact (hg.2.2.2 kv hkv).2.2 e hm
  obtain ⟨o2, ho2⟩ := fromVars_own_ok nan ds.axes hg.1.2.2 hpl ds.vars hg.2.1
  obtain ⟨hv, hat2, hsh, hown, hdm, hax⟩ := fromVars_own nan ds.axes hg.1.2.2 hpl ds.vars o2 hg.2.1 hg.2.2.1
    (fun kv hkv => (hg.2.2.2 kv hkv).1) ho2
  refine ⟨{ o2 with attrs := Attrs.update o2.attrs ds.attrs }, ?_, hv, ?_, ⟨?_, ?_, ?_, ?_⟩, ?_, hdm⟩
  · unfold copyDs
    rw [ho2]
    rfl
  · show Attrs.update o2.attrs ds.attrs = ds.attrs
    rw [hat2]
    exact attrs_update_nil ds.attrs hat
  · exact hsh
  · exact hown
  · show (o2.vars.map (·.1)).Nodup
    rw [hv]; exact hg.2.2.1
  · intro kv hkv
    exact hg.2.2.2 kv (hv ▸ hkv)
  · intro e
    refine ⟨hax e, ?_⟩
    intro he
    obtain ⟨kv, hkv, hm⟩ := (axes_iff_used hg.1 hg.2.1 e).1 he
    exact hown kv (hv ▸ hkv) e hm

/-! FINDING (minor): `copy` lists the axes in the order of first appearance in the variables, so the copy of a good
Dataset whose axes are listed otherwise has its axes in another order - in dimarray `ds.copy() == ds` is then
`False` (`Dataset.__eq__` compares the lists of axes).  Here: axes `[x, y]`, variables `a` over `(y, x)`, `c` over
`(x)`; the copy lists `[y, x]`. -/
def exC3 : DimArray Int := { axes := [exX], vals := NDArr.ofFlat [3] [100, 200, 300], vkind := .i }
def exB3 : DimArray Int := { axes := [exY], vals := NDArr.ofFlat [2] [70, 80], vkind := .i }
def exDs3 : Ds Int := { axes := [exX, exY], vars := [("c", exC3), ("b", exB3)] }
def exA5 : DimArray Int := { axes := [exY, exX], vals := NDArr.ofFlat [2, 3] [1, 2, 3, 4, 5, 6], vkind := .i }
def exDs5 : Ds Int := { axes := [exX, exY], vars := [("a", exA5), ("c", exC3)] }

theorem exDs5_good : GoodDs exDs5 := by
  refine ⟨⟨?_, ?_, ?_⟩, ?_, ?_, ?_⟩
  · intro kv hkv ax hax
    refine ⟨ax, ?_, rfl, rfl⟩
    simp only [exDs5, List.mem_cons, List.not_mem_nil, or_false] at hkv
    rcases hkv with rfl | rfl
    · simp only [exA5, List.mem_cons, List.not_mem_nil, or_false] at hax
      rcases hax with rfl | rfl <;> simp [exDs5]
    · simp only [exC3, List.mem_cons, List.not_mem_nil, or_false] at hax
      subst hax
      simp [exDs5]
  · intro e he
    exact ⟨("a", exA5), by simp [exDs5], by
      simp only [exDs5, List.mem_cons, List.not_mem_nil, or_false] at he
      rcases he with rfl | rfl <;> simp [exA5, DimArray.dims]⟩
  · simp [exDs5, Ds.dims, exX, exY]
  · intro kv hkv ax hax
    simp only [exDs5, List.mem_cons, List.not_mem_nil, or_false] at hkv
    rcases hkv with rfl | rfl
    · simp only [exA5, List.mem_cons, List.not_mem_nil, or_false] at hax
      rcases hax with rfl | rfl <;> simp [exDs5]
    · simp only [exC3, List.mem_cons, List.not_mem_nil, or_false] at hax
      subst hax
      simp [exDs5]
  · simp [exDs5, Ds.keys]
  · intro kv hkv
    simp only [exDs5, List.mem_cons, List.not_mem_nil, or_false] at hkv
    rcases hkv with rfl | rfl
    · simp [exA5, DimArray.dims, exX, exY, NDArr.ofFlat, Axis.size]
    · simp [exC3, DimArray.dims, exX, NDArr.ofFlat, Axis.size]

theorem copy_reorders_axes :
    GoodDs exDs5 ∧ ∃ out, copyDs 0 exDs5 = .ok out ∧ out.dims = ["y", "x"] ∧ exDs5.dims = ["x", "y"] := by
  refine ⟨exDs5_good, ?_⟩
  obtain ⟨out, hout, _, _, _, _, hd⟩ := copyDs_spec 0 exDs5 exDs5_good (by decide)
  exact ⟨out, hout, by rw [hd]; decide, by decide⟩

/-! #### non-vacuity of the round-5 theorems: concrete Datasets (`exDs` above: `a` over (x, y), `b` over (y) with
metadata, Dataset metadata; `exDs3`: same axes, variables `c` over (x) and `b` over (y)) -/


/-- keys of a result, for the `decide` checks below -/
def okKeys (r : Except Err (Ds Int)) : Option (List String) :=
  match r with
  | .ok o => some o.keys
  | .error _ => none

theorem okKeys_some {r : Except Err (Ds Int)} {ks : List String} (h : okKeys r = some ks) : ∃ out, r = .ok out := by
  cases r with
  | error e => cases h
  | ok o => exact ⟨o, rfl⟩

def exSum (l : List Int) : Int := l.foldl (· + ·) 0

/-- `reduceDs_spec` on the concrete Dataset: `ds.sum(axis="x")` succeeds, drops `x` and the Dataset metadata, keeps
the keys, leaves `b` (no dimension `x`) as it is - with its metadata - and stores the reduction of `a` -/
example : ∃ out, reduceDs 0 exSum exDs "x" = .ok out ∧ out.keys = ["a", "b"] ∧ out.attrs = [] ∧ "x" ∉ out.dims ∧
    GoodDs out ∧ ("b", exB) ∈ out.vars ∧
    ∃ r, ("a", r) ∈ out.vars ∧ reduceAxis exSum exA (.one (.name "x")) = .ok (.inr r) := by
  obtain ⟨out, hout⟩ := reduceDs_ok 0 exSum exDs "x" exDs_good (by simp [exDs, Ds.dims, exX])
  obtain ⟨_, h2, _, _, h5, h6, h7, h8⟩ := reduceDs_spec 0 exSum exDs out "x" exDs_good hout
  refine ⟨out, hout, h5, h6, h2, h7, ?_, ?_⟩
  · obtain ⟨r, hr, _, hnot⟩ := h8 "b" exB (by simp [exDs])
    rw [hnot (by simp [exB, DimArray.dims, exY])] at hr
    exact hr
  · obtain ⟨r, hr, hin, _⟩ := h8 "a" exA (by simp [exDs])
    obtain ⟨s, hs, hrs⟩ := hin (by simp [exA, DimArray.dims, exX])
    refine ⟨r, hr, ?_⟩
    rw [hs]
    cases s with
    | inl c =>
      exfalso
      have : reduceAxis exSum exA (.one (.name "x")) = .ok (.inr (reducedVar exSum "x" exA)) := by
        simp [reduceAxis, dealWithAxis, reducedVar, exA, DimArray.dims, DimArray.ndim, exX, exY, bind, Except.bind,
          pure, Except.pure]
      rw [this] at hs
      cases hs
    | inr a => rw [hrs]

theorem exDs_opInput : ∀ kv ∈ exDs.vars, OpInput kv.2 := by
  intro kv hkv
  simp only [exDs, List.mem_cons, List.not_mem_nil, or_false] at hkv
  rcases hkv with rfl | rfl <;> (unfold OpInput AlignInput; decide)

theorem exDs3_opInput : ∀ kv ∈ exDs3.vars, OpInput kv.2 := by
  intro kv hkv
  simp only [exDs3, List.mem_cons, List.not_mem_nil, or_false] at hkv
  rcases hkv with rfl | rfl <;> (unfold OpInput AlignInput; decide)

/-- `binaryOpDs_spec` on concrete Datasets with partially overlapping keys: `exDs + exDs3` succeeds, holds only the
common key `b` (the variables `a` and `c` are dropped), and `b` is `exB + exB3` -/
example : ∃ out, binaryOpDs 0 (· + ·) exDs (.ds exDs3) = .ok out ∧ out.keys = ["b"] ∧ SharedAxes out ∧
    ∃ r res, ("b", r) ∈ out.vars ∧ operation 0 (· + ·) exB exB3 = .ok res ∧ SameVar r res.1 := by
  obtain ⟨out, hout⟩ := okKeys_some (r := binaryOpDs 0 (· + ·) exDs (.ds exDs3)) (ks := ["b"]) (by decide)
  obtain ⟨h1, _, h3, _, _, h6, _⟩ := binaryOpDs_spec 0 (· + ·) exDs exDs3 out (by decide) (by decide)
    exDs_opInput exDs3_opInput hout
  refine ⟨out, hout, by rw [h1]; decide, h3, ?_⟩
  exact h6 "b" exB exB3 (by simp [exDs]) (by simp [exDs3])

/-- `binaryOpDs_scalar_spec` on the concrete Dataset -/
example : ∃ out, binaryOpDs 0 (· + ·) exDs (.scalar 5) = .ok out ∧ out.keys = ["a", "b"] ∧ GoodDs out ∧
    ∃ r, ("a", r) ∈ out.vars ∧ operationNd (· + ·) exA (scalarNd 5) false = .ok r := by
  obtain ⟨out, hout⟩ := okKeys_some (r := binaryOpDs 0 (· + ·) exDs (.scalar 5)) (ks := ["a", "b"]) (by decide)
  obtain ⟨h1, _, h3, _, h5⟩ := binaryOpDs_scalar_spec 0 (· + ·) exDs out 5 exDs_good hout
  exact ⟨out, hout, h1, h3, h5 "a" exA (by simp [exDs])⟩

/-- `stackDs_spec` on two concrete Datasets (the second lists its variables in the other order): `stack_ds` along the
new dimension `s` succeeds, keeps the keys of the first, and `b` is the stack of the two variables `b` -/
def exDs4 : Ds Int := { axes := [exX, exY], vars := [("b", exB3), ("a", exA)] }

example : ∃ out, stackDs 0 [exDs, exDs4] (some "s") [.num 0, .num 1] .i = .ok out ∧ out.keys = ["a", "b"] ∧
    SharedAxes out ∧ OwnAxes out ∧
    ∃ s r, stack 0 [exB, exB3] (some "s") [.num 0, .num 1] .i false false = .ok s ∧ ("b", r) ∈ out.vars ∧
      SameVar r s := by
  obtain ⟨out, hout⟩ := okKeys_some (r := stackDs 0 [exDs, exDs4] (some "s") [.num 0, .num 1] .i)
    (ks := ["a", "b"]) (by decide)
  obtain ⟨name, hname, _, h1, _, h3, h4, h5, _⟩ := stackDs_spec 0 exDs [exDs4] (some "s") [.num 0, .num 1] .i out
    (by decide) hout
  have hn : name = "s" := by
    have : checkStackAxis (some "s") (getDims ([exDs, exDs4].map (·.axes))) = .ok "s" := by
      have hc : (getDims ([exDs, exDs4].map (·.axes))).contains "s" = false := by decide
      simp only [checkStackAxis, hc, Bool.false_eq_true, if_false]
    rw [this] at hname
    exact (Except.ok.inj hname).symm
  subst hn
  obtain ⟨arrays, s, r, hg, _, hs, hr, hsame, _⟩ := h5 "b" (by decide)
  have : gather [exDs, exDs4] "b" = .ok [exB, exB3] := rfl
  rw [this] at hg
  cases hg
  exact ⟨out, hout, h1, h3, h4, s, r, hs, hr, hsame⟩

/-- `concatenateDs_spec` on two concrete Datasets: along `y` (which every variable has) `concatenate_ds` succeeds;
along `x` (which `b` lacks) it does not -/
example : (∃ out, concatenateDs 0 [exDs, exDs4] (.name "y") = .ok out ∧ out.keys = ["a", "b"] ∧ SharedAxes out ∧
      ∃ s r, concatenate 0 [exB, exB3] (.name "y") false false = .ok s ∧ ("b", r) ∈ out.vars ∧ SameVar r s) ∧
    ¬ ∃ out, concatenateDs 0 [exDs, exDs4] (.name "x") = .ok out := by
  have hnd : ∀ kv ∈ exDs.vars, kv.2.dims.Nodup := fun kv hkv => (exDs_good.2.2.2 kv hkv).1
  constructor
  · obtain ⟨out, hout⟩ := okKeys_some (r := concatenateDs 0 [exDs, exDs4] (.name "y")) (ks := ["a", "b"]) (by decide)
    obtain ⟨name, hname, _, _, h1, _, h3, _, h5, _⟩ := concatenateDs_spec 0 exDs [exDs4] (.name "y") out (by decide) hnd hout
    have hn : name = "y" := dsAxisName_name_inv exDs "y" name hname
    subst hn
    obtain ⟨arrays, s, r, hg, _, hs, hr, hsame, _⟩ := h5 "b" exB (by simp [exDs])
    have : gather [exDs, exDs4] "b" = .ok [exB, exB3] := rfl
    rw [this] at hg
    cases hg
    exact ⟨out, hout, h1, h3, s, r, hs, hr, hsame⟩
  · exact concatenateDs_lacking 0 exDs [exDs4] "x" (by decide) hnd "b" exB (by simp [exDs])
      (by simp [exB, DimArray.dims, exY])

/-! #### unary operators (`Dataset._unary_op`), reflected operators with a scalar (`Dataset._rbinary_op`) -/

/-- ONE DIMARRAY OPERATION ON EVERY VARIABLE, generic form of the loop `res = Dataset(); for k in self.keys():
res[k] = g(self[k])` (`mapVarsDs`; `_binary_op` with a scalar, `_rbinary_op`, `_unary_op` are instances): for an
operation `g` that returns the axes of its argument and values of the announced shape, on a good Dataset every
variable `k` of the result IS `g(self[k])`, same keys, the same axis objects, no Dataset metadata; the result is
again a good Dataset. -/
theorem mapVarsDs_spec {α : Type} (g : DimArray α → Except Err (DimArray α)) (self out : Ds α) (hg : GoodDs self)
    (hax : ∀ v r, g v = .ok r → r.axes = v.axes)
    (hshape : ∀ kv ∈ self.vars, ∀ r, g kv.2 = .ok r → r.vals.shape = r.axes.map (·.size))
    (h : mapVarsDs g self = .ok out) :
    out.keys = self.keys ∧ out.attrs = [] ∧ GoodDs out ∧ (∀ e, e ∈ out.axes ↔ e ∈ self.axes) ∧
    ∀ k v, (k, v) ∈ self.vars → ∃ r, (k, r) ∈ out.vars ∧ g v = .ok r := by
  obtain ⟨hk, hat, hsh, hown, hv, haxs⟩ := mapVarsDs_core g self out hg.2.2.1
    (fun kv hkv => (hg.2.2.2 kv hkv).1) hax h
  have haxU : ∀ e ∈ out.axes, e ∈ self.axes := by
    intro e he
    obtain ⟨kv, hkv, hm⟩ := haxs e he
    exact hg.2.1 kv hkv e hm
  -- the stored variable is the per-variable result itself
  have hv' : ∀ k v, (k, v) ∈ self.vars → ∃ r, (k, r) ∈ out.vars ∧ g v = .ok r := by
    intro k v hkv
    obtain ⟨r, res, hr, hop, hsame⟩ := hv k v hkv
    have : r = res := sameVar_own self.axes hg.1.2.2 r res hsame
      (fun a ha => haxU a (hown (k, r) hr a ha))
      (fun a ha => hg.2.1 (k, v) hkv a ((hax v res hop) ▸ ha))
    exact ⟨r, hr, this ▸ hop⟩
  have hknd : out.keys.Nodup := hk ▸ hg.2.2.1
  refine ⟨hk, hat, ⟨hsh, hown, hknd, ?_⟩, ?_, hv'⟩
  · intro kv hkv
    obtain ⟨v0, hkv0⟩ := var_of_key (l := self.vars) hk hkv
    obtain ⟨r, hr, hop⟩ := hv' kv.1 v0 hkv0
    have : r = kv.2 := value_unique hknd hr hkv
    rw [this] at hop
    have h1 := hax v0 kv.2 hop
    refine ⟨?_, hshape (kv.1, v0) hkv0 kv.2 hop, ?_⟩
    · show (kv.2.axes.map (·.name)).Nodup
      rw [h1]; exact (hg.2.2.2 _ hkv0).1
    · rw [h1]; exact (hg.2.2.2 _ hkv0).2.2
  · intro e
    refine ⟨haxU e, ?_⟩
    intro he
    obtain ⟨kv, hkv, hm⟩ := (axes_iff_used hg.1 hg.2.1 e).1 he
    obtain ⟨r, hr, hop⟩ := hv' kv.1 kv.2 hkv
    exact hown _ hr e ((hax kv.2 r hop) ▸ hm)

/-- UNARY OPERATORS (`-ds`, `+ds`, `~ds`: `Dataset._unary_op`).  On a good Dataset the call always succeeds; every
variable `k` of the result IS `func(self[k])` (`Lib.unaryOp`, the mirror of `DimArray._unary_op`: the function on the
values, the axes of the variable - which are the Dataset's -, no variable metadata), same keys in the same order, the
same axis objects, no Dataset metadata; the result is again a good Dataset. -/
theorem unaryOpDs_spec {α : Type} (u : α → α) (self : Ds α) (hg : GoodDs self) :
    ∃ out, unaryOpDs u self = .ok out ∧ out.keys = self.keys ∧ out.attrs = [] ∧ GoodDs out ∧
      (∀ e, e ∈ out.axes ↔ e ∈ self.axes) ∧ ∀ k v, (k, v) ∈ self.vars → (k, unaryOp u v) ∈ out.vars := by
  obtain ⟨out, hout⟩ := mapVarsDs_ok (fun v => .ok (unaryOp u v)) self hg.2.1 hg.1.2.2
    (fun kv _ => ⟨_, rfl, rfl⟩)
  obtain ⟨h1, h2, h3, h4, h5⟩ := mapVarsDs_spec (fun v => .ok (unaryOp u v)) self out hg
    (fun v r hr => by cases hr; rfl)
    (fun kv hkv r hr => by cases hr; exact (hg.2.2.2 kv hkv).2.1) hout
  refine ⟨out, hout, h1, h2, h3, h4, ?_⟩
  intro k v hkv
  obtain ⟨r, hr, he⟩ := h5 k v hkv
  cases he
  exact hr

/-- SCALAR op DATASET for the operators that do not commute (`3 - ds`, `2 / ds`, `2 // ds`, `2 ** ds`:
`Dataset._rbinary_op`) on a good Dataset: every variable `k` of the result IS `scalar op self[k]` (`Lib.operationNd`
with `flip = true`: the scalar is the LEFT argument of the function; the stored variable keeps the axes of `self[k]`,
which are the Dataset's), same keys, the same axis objects, no Dataset metadata (and, as for DimArrays, no variable
metadata); the result is again a good Dataset. -/
theorem rbinaryOpDs_scalar_spec {α : Type} (f : α → α → α) (self out : Ds α) (c : α) (hg : GoodDs self)
    (h : rbinaryOpDs f self (.scalar c) = .ok out) :
    out.keys = self.keys ∧ out.attrs = [] ∧ GoodDs out ∧ (∀ e, e ∈ out.axes ↔ e ∈ self.axes) ∧
    ∀ k v, (k, v) ∈ self.vars → ∃ r, (k, r) ∈ out.vars ∧ operationNd f v (scalarNd c) true = .ok r :=
  mapVarsDs_spec (fun v => operationNd f v (scalarNd c) true) self out hg
    (fun v r hr => (operationNd_axes f v r _ _ hr).1)
    (fun kv _ r hr => (operationNd_axes f kv.2 r _ _ hr).2.2.2) h

/-- `Dataset._rbinary_op` with anything but a scalar on the left: AssertionError -/
theorem rbinaryOpDs_other {α : Type} (f : α → α → α) (self o : Ds α) :
    rbinaryOpDs f self .other = .error .assertion ∧ rbinaryOpDs f self (.ds o) = .error .assertion := ⟨rfl, rfl⟩

/-- THE SIDE OF THE SCALAR MATTERS: `10 - ds` is not `ds - 10` (the reflected operator may not be computed by the
plain one) -/
theorem rbinaryOpDs_not_binaryOpDs :
    (rbinaryOpDs (· - ·) exDs (.scalar 10)).toOption.map (fun o => (o.get? "b").map fun v => v.vals.get [0]) = some (some 3) ∧
    (binaryOpDs 0 (· - ·) exDs (.scalar 10)).toOption.map (fun o => (o.get? "b").map fun v => v.vals.get [0]) = some (some (-3)) := by
  decide

/-- `unaryOpDs_spec` on the concrete Dataset: `-exDs` holds `-a` and `-b` -/
example : ∃ out, unaryOpDs (fun x : Int => -x) exDs = .ok out ∧ out.keys = ["a", "b"] ∧ GoodDs out ∧
    ("a", unaryOp (fun x : Int => -x) exA) ∈ out.vars ∧ ("b", unaryOp (fun x : Int => -x) exB) ∈ out.vars := by
  obtain ⟨out, hout, h1, _, h3, _, h5⟩ := unaryOpDs_spec (fun x : Int => -x) exDs exDs_good
  exact ⟨out, hout, h1, h3, h5 "a" exA (by simp [exDs]), h5 "b" exB (by simp [exDs])⟩

/-- `rbinaryOpDs_scalar_spec` on the concrete Dataset: `10 - exDs` -/
example : ∃ out, rbinaryOpDs (· - ·) exDs (.scalar 10) = .ok out ∧ out.keys = ["a", "b"] ∧ GoodDs out ∧
    ∃ r, ("a", r) ∈ out.vars ∧ operationNd (· - ·) exA (scalarNd 10) true = .ok r := by
  obtain ⟨out, hout⟩ := okKeys_some (r := rbinaryOpDs (· - ·) exDs (.scalar 10)) (ks := ["a", "b"]) (by decide)
  obtain ⟨h1, _, h3, _, h5⟩ := rbinaryOpDs_scalar_spec (· - ·) exDs out 10 exDs_good hout
  exact ⟨out, hout, h1, h3, h5 "a" exA (by simp [exDs])⟩

/-! #### stack_ds / concatenate_ds with align=True (`DSV.stackDsA`, `DSV.concatenateDsA`) -/

/-- without align the extended mirrors are the round-5 mirrors -/
theorem stackDsA_noalign {α : Type} [Inhabited α] (nan : α) (datasets : List (Ds α)) (axis : Option String)
    (keys : List Label) (kk : Kind) (join : Join) (sort : Bool) :
    stackDsA nan datasets axis keys kk false join sort = stackDs nan datasets axis keys kk := by
  unfold stackDsA stackDs
  cases checkStackAxis axis (getDims (datasets.map (·.axes))) <;> rfl

theorem concatenateDsA_noalign {α : Type} (nan : α) (datasets : List (Ds α)) (axis : DimKey) (join : Join)
    (sort : Bool) : concatenateDsA nan datasets axis false join sort = concatenateDs nan datasets axis := rfl

/-- STACK_DS with align=True.  When `stack_ds(datasets, axis, keys, align=True, join=, sort=)` succeeds: the new
dimension `name` passed `_check_stack_axis` on the dimensions of the Datasets AS GIVEN, the alignment of the Datasets
(`alignDs`: `align(datasets, strict=True, join, sort)`, i.e. `Dataset.reindex_axis` of every Dataset onto the common
axis of every dimension) succeeded with `aligned`, and the result IS `stack_ds(aligned, name, keys)` without align -
so that `stackDs_spec` applies to it: every variable `k` is `stack([ds[k] for ds in aligned], axis=name, keys)`, keys
of the first Dataset, shared own axes. -/
theorem stackDsA_spec {α : Type} [Inhabited α] (nan : α) (datasets : List (Ds α)) (axis : Option String)
    (keys : List Label) (kk : Kind) (join : Join) (sort : Bool) (out : Ds α)
    (h : stackDsA nan datasets axis keys kk true join sort = .ok out) :
    ∃ name aligned, checkStackAxis axis (getDims (datasets.map (·.axes))) = .ok name ∧
      alignDs nan datasets join none sort true = .ok aligned ∧
      stackDs nan aligned (some name) keys kk = .ok out := by
  replace h : (checkStackAxis axis (getDims (datasets.map (·.axes))) >>= fun name =>
      alignDs nan datasets join none sort true >>= fun aligned => stackDsBody nan name aligned keys kk) = .ok out := h
  cases hname : checkStackAxis axis (getDims (datasets.map (·.axes))) with
  | error e => rw [hname] at h; cases h
  | ok name =>
    rw [hname] at h
    cases hal : alignDs nan datasets join none sort true with
    | error e =>
      replace h : (alignDs nan datasets join none sort true >>= fun aligned =>
        stackDsBody nan name aligned keys kk) = .ok out := h
      rw [hal] at h; cases h
    | ok aligned =>
      replace h : (alignDs nan datasets join none sort true >>= fun aligned =>
        stackDsBody nan name aligned keys kk) = .ok out := h
      rw [hal] at h
      replace h : stackDsBody nan name aligned keys kk = .ok out := h
      exact ⟨name, aligned, rfl, rfl, stackDsBody_stackDs nan name aligned keys kk out h⟩

/-! #### extension "c14ops3": take_axis with raw positions and mode=, reindex_axis with method= / raise_error= -/

/-- TAKE_AXIS (indexing='position', mode='raise' / 'clip' / 'wrap', raw integers - negative and out-of-range ones
included; the axis by name or by position among the DATASET's dimensions).  The Dataset resolves the positions ONCE,
against its own axis (`Axis.take(indices, mode)`), and hands `np.take(..., mode)` to `reduce_axis`; when it succeeds
the axis key named a dimension `name` of the Dataset and every variable that has the dimension comes back as that
variable's own `take_axis(indices, axis=name, indexing='position', mode=mode)`, the others as they are; keys and
Dataset metadata kept; shared own axes. -/
theorem takeAxisIntsDs_spec {α : Type} (ds out : Ds α) (axis : DimKey) (is : List Int) (mode : TakeMode)
    (hg : GoodDs ds) (h : takeAxisIntsDs ds axis is mode = .ok out) :
    ∃ name, dsAxisName ds axis = .ok name ∧
    out.keys = ds.keys ∧ out.attrs = ds.attrs ∧ SharedAxes out ∧ OwnAxes out ∧
    ∀ k v, (k, v) ∈ ds.vars → ∃ r, (k, r) ∈ out.vars ∧
      (name ∈ v.dims → takeAxisInts v (.name name) is mode = .ok r) ∧ (name ∉ v.dims → r = v) := by
  unfold takeAxisIntsDs at h
  cases hn : dsAxisName ds axis with
  | error e => rw [hn] at h; cases h
  | ok name =>
    rw [hn] at h
    simp only [bind, Except.bind] at h
    split at h
    · cases h
    · rename_i ax hfind
      cases hps : is.mapM (takePos ax.size mode) with
      | error e => rw [hps] at h; cases h
      | ok ps =>
        rw [hps] at h
        simp only at h
        obtain ⟨h1, h2, h3, h4, h5⟩ := takeAxisPosDs_spec ds out name ps hg h
        refine ⟨name, rfl, h1, h2, h3, h4, ?_⟩
        intro k v hkv
        obtain ⟨r, hr, hin, hnot⟩ := h5 k v hkv
        refine ⟨r, hr, ?_, hnot⟩
        intro hmem
        have hax := axes_getD_idxOf v name hmem
        rw [takeAxisInts_name_ok v name hmem ax (hg.axis_eq hfind hkv _ hax.1 hax.2) is mode ps hps
          (takeAxisPosDs_size ds out name ps ax hfind h), hin hmem]

/-- totality of `takeAxisIntsDs` on a good Dataset: it only fails where NumPy does - an axis key that names no
dimension, a position that `np.take(mode=...)` rejects, a non-empty take from an empty axis -/
theorem takeAxisIntsDs_ok {α : Type} (ds : Ds α) (axis : DimKey) (is : List Int) (mode : TakeMode) (hg : GoodDs ds)
    (name : String) (hname : dsAxisName ds axis = .ok name) (ax : Axis)
    (hfind : ds.axes.find? (fun a => a.name == name) = some ax) (ps : List Nat)
    (hps : is.mapM (takePos ax.size mode) = .ok ps) (hsz : ¬ (ax.size == 0 && !ps.isEmpty) = true) :
    ∃ out, takeAxisIntsDs ds axis is mode = .ok out := by
  obtain ⟨out, hout⟩ := takeAxisPosDs_ok ds name ps hg ax hfind hsz
  refine ⟨out, ?_⟩
  unfold takeAxisIntsDs
  rw [hname]
  simp only [bind, Except.bind]
  rw [hfind]
  simp only
  rw [hps]
  exact hout

/-- the three modes differ (so the mode must reach NumPy unchanged): position 4 along an axis of length 3 -/
theorem takePos_modes : (takePos 3 .raise 4).toOption = none ∧ (takePos 3 .clip 4).toOption = some 2 ∧
    (takePos 3 .wrap 4).toOption = some 1 ∧ (takePos 3 .raise (-1)).toOption = some 2 ∧
    (takePos 3 .clip (-1)).toOption = some 0 ∧ (takePos 3 .wrap (-4)).toOption = some 2 := by decide

/-- `takeAxisIntsDs_spec` is not vacuous: `exDs.take_axis([-1, 4], axis=0, indexing='position', mode='wrap')` -/
example : ∃ out, takeAxisIntsDs exDs (.pos 0) [-1, 4] .wrap = .ok out ∧ out.keys = ["a", "b"] ∧
    (∃ r, ("a", r) ∈ out.vars ∧ takeAxisInts exA (.name "x") [-1, 4] .wrap = .ok r) ∧ ("b", exB) ∈ out.vars := by
  obtain ⟨out, hout⟩ := okKeys_some (r := takeAxisIntsDs exDs (.pos 0) [-1, 4] .wrap) (ks := ["a", "b"]) (by decide)
  obtain ⟨name, hn, h1, _, _, _, h5⟩ := takeAxisIntsDs_spec exDs out (.pos 0) [-1, 4] .wrap exDs_good hout
  have hx : name = "x" := by
    have : (dsAxisName exDs (.pos 0)).toOption = some "x" := by decide
    rw [hn] at this
    exact (Option.some.inj this)
  subst hx
  obtain ⟨ra, hra, hina, _⟩ := h5 "a" exA (by simp [exDs])
  obtain ⟨rb, hrb, _, hnotb⟩ := h5 "b" exB (by simp [exDs])
  refine ⟨out, hout, h1, ⟨ra, hra, hina (by decide)⟩, ?_⟩
  rw [← hnotb (by decide)]
  exact hrb

/-- REINDEX_AXIS in full (`method=None / 'left' / 'right'`, `raise_error=`): when `Dataset.reindex_axis(values, axis=name,
fill_value, raise_error, method)` succeeds, every variable that has the dimension comes back as
`reindex_axis(values, axis=name, fill_value, raise_error, method)` of that variable - the same side of `searchsorted`,
the requested labels written into the axis, filled (and widened) with method=None only - and the variables without the
dimension are left alone; keys and Dataset metadata kept; shared own axes. -/
theorem reindexAxisDsM_spec {α : Type} (ds out : Ds α) (name : String) (newL : List Label) (newKind fillKind : Kind)
    (fill : α) (raiseErr : Bool) (method : Option Side) (hg : GoodDs ds)
    (h : reindexAxisDsM ds name newL newKind fill fillKind raiseErr method = .ok out) :
    out.keys = ds.keys ∧ out.attrs = ds.attrs ∧ SharedAxes out ∧ OwnAxes out ∧
    ∀ k v, (k, v) ∈ ds.vars → ∃ r, (k, r) ∈ out.vars ∧
      (name ∈ v.dims → reindexAxis v (.name name) newL newKind fill fillKind raiseErr method = .ok r) ∧
      (name ∉ v.dims → r = v) := by
  obtain ⟨ax, taken, hfind, hne, htk, hre, hout⟩ :=
    reindexAxisDsM_closed ds out name newL newKind fillKind fill raiseErr method h
  obtain ⟨t1, t2, t3, t4, t5⟩ := takeAxisPosDs_spec ds taken name _ hg htk
  have haxn : ax.name = name := (find?_name_some hfind).2
  have hgetD : ∀ k v, (k, v) ∈ ds.vars → name ∈ v.dims → v.axes.getD (v.dims.idxOf name) default = ax := by
    intro k v hkv hmem
    have hax := axes_getD_idxOf v name hmem
    exact hg.axis_eq hfind hkv _ hax.1 hax.2
  by_cases hany : (mismatchMask ax.labels (locateMany ax.labels newL (method.getD .left)) newL).any id = true
  · -- some requested label is absent: the patched variables
    rw [if_pos hany] at hout
    obtain ⟨ax', hfind', htaken⟩ := takeAxisPosDs_closed ds taken name _ hg.2.1 hg.1.2.2 hg.2.2.1 htk
    rw [hfind] at hfind'
    cases hfind'
    have hsh := rxM_shared taken name ax newL newKind fill fillKind method t3 t4
    refine ⟨?_, ?_, by rw [hout]; exact hsh.1, by rw [hout]; exact hsh.2, ?_⟩
    · rw [← t1, hout]
      simp only [rxOutM, Ds.keys, List.map_map]
      apply List.map_congr_left
      intro kv _
      exact rxPatchM_fst name ax newL newKind fill fillKind method kv
    · rw [← t2, hout]
      rfl
    · intro k v hkv
      have hmemt : (k, reduceVar name (takeNewAxis name ax (locateMany ax.labels newL (method.getD .left)))
          (takeVals (locateMany ax.labels newL (method.getD .left))) v) ∈ taken.vars := by
        rw [htaken]
        exact List.mem_map_of_mem (f := fun kv => (kv.1, reduceVar name (takeNewAxis name ax
          (locateMany ax.labels newL (method.getD .left))) (takeVals (locateMany ax.labels newL (method.getD .left))) kv.2)) hkv
      have hmemo := List.mem_map_of_mem (f := rxPatchM name ax newL newKind fill fillKind method) hmemt
      by_cases hmem : name ∈ v.dims
      · rw [rxPatchM_reduceVar_eq v k name ax hmem (hg.2.2.2 (k, v) hkv).1 haxn newL newKind fill fillKind method _ rfl hany]
          at hmemo
        exact ⟨_, by rw [hout]; exact hmemo,
          fun _ => reindexAxis_name_okM v name hmem ax (hgetD k v hkv hmem) newL newKind fill fillKind raiseErr method hne hre,
          fun hn => absurd hmem hn⟩
      · rw [reduceVar_of_not_mem name _ _ v hmem, rxPatchM_of_not_mem name ax newL newKind fill fillKind method (k, v) hmem] at hmemo
        exact ⟨v, by rw [hout]; exact hmemo, fun hm => absurd hm hmem, fun _ => rfl⟩
  · -- every requested label is present: the clipped take is the result
    rw [if_neg hany] at hout
    subst hout
    refine ⟨t1, t2, t3, t4, ?_⟩
    intro k v hkv
    obtain ⟨r, hr, hin, hnot⟩ := t5 k v hkv
    refine ⟨r, hr, ?_, hnot⟩
    intro hmem
    rw [reindexAxis_name_okM v name hmem ax (hgetD k v hkv hmem) newL newKind fill fillKind raiseErr method hne hre, hin hmem]
    unfold rxResultM
    rw [if_neg hany]

/-- with the defaults the full mirror is the round-2 mirror -/
theorem reindexAxisDsM_default {α : Type} (ds : Ds α) (name : String) (newL : List Label) (newKind fillKind : Kind)
    (fill : α) : reindexAxisDsM ds name newL newKind fill fillKind false none =
      reindexAxisDs ds name newL newKind fill fillKind := by
  unfold reindexAxisDsM reindexAxisDs
  cases ds.axes.find? (·.name == name) with
  | none => rfl
  | some ax =>
    simp only [Option.getD_none, Option.isNone_none, if_true, Bool.false_eq_true, if_false]

/-- RAISE_ERROR=True: a requested label that the Dataset's axis lacks makes `Dataset.reindex_axis` fail (IndexError),
as `DimArray.reindex_axis` of every variable that has the dimension does -/
theorem reindexAxisDsM_raise {α : Type} (ds out : Ds α) (name : String) (newL : List Label) (newKind fillKind : Kind)
    (fill : α) (method : Option Side) (ax : Axis) (hfind : ds.axes.find? (fun a => a.name == name) = some ax)
    (h : reindexAxisDsM ds name newL newKind fill fillKind true method = .ok out) :
    (mismatchMask ax.labels (locateMany ax.labels newL (method.getD .left)) newL).any id = false := by
  obtain ⟨ax', _, hfind', _, _, hre, _⟩ := reindexAxisDsM_closed ds out name newL newKind fillKind fill true method h
  rw [hfind] at hfind'
  cases hfind'
  exact hre rfl

/-- the hypothesis of `reindexAxisDsM_spec` is satisfiable for every good Dataset: `reindex_axis` along an existing
dimension only fails on NumPy's "take from an empty axis" and - with raise_error=True - on an absent label -/
theorem reindexAxisDsM_ok {α : Type} (ds : Ds α) (name : String) (newL : List Label) (newKind fillKind : Kind)
    (fill : α) (raiseErr : Bool) (method : Option Side) (hg : GoodDs ds) (ax : Axis)
    (hfind : ds.axes.find? (fun a => a.name == name) = some ax)
    (hne : ¬ (ax.labels.isEmpty && !newL.isEmpty) = true) (hsz : ¬ (ax.size == 0 && !newL.isEmpty) = true)
    (hre : raiseErr = true →
      (mismatchMask ax.labels (locateMany ax.labels newL (method.getD .left)) newL).any id = false) :
    ∃ out, reindexAxisDsM ds name newL newKind fill fillKind raiseErr method = .ok out := by
  have hlen : (locateMany ax.labels newL (method.getD .left)).length = newL.length := by
    simp [locateMany]
  obtain ⟨taken, htk⟩ := takeAxisPosDs_ok ds name (locateMany ax.labels newL (method.getD .left)) hg ax hfind
    (by rw [isEmpty_of_length_eq _ _ hlen]; exact hsz)
  unfold reindexAxisDsM
  rw [hfind]
  simp only [bind, Except.bind, pure, Except.pure]
  rw [if_neg hne, htk]
  simp only
  by_cases hany : (mismatchMask ax.labels (locateMany ax.labels newL (method.getD .left)) newL).any id = true
  · have hrf : raiseErr = false := by
      cases raiseErr
      · rfl
      · rw [hre rfl] at hany; cases hany
    subst hrf
    simp [hany]
  · simp [hany]

/-! #### reductions without an axis (`Dataset.mean(axis=None)` ...) -/

/-- REDUCTIONS with axis=None (`_apply_dimarray_axis(funcname, axis=None)`): on a Dataset with distinct keys the call
always succeeds; the result has the keys of the Dataset in their order, NO axes and no metadata, and every variable
`k` - whatever its dimensions, the 0-d ones included - IS the DimArray reduction of that variable over all its cells
(`Lib.reduceAxis` with `AxisArg.none`, a scalar `c`) stored as the 0-d `DimArray(c)`; the result is a good Dataset. -/
theorem reduceAllDs_spec {α : Type} (nan : α) (red : List α → α) (ds : Ds α) (hk : ds.keys.Nodup) :
    ∃ out, reduceAllDs nan red ds = .ok out ∧
    out.keys = ds.keys ∧ out.axes = [] ∧ out.attrs = [] ∧ GoodDs out ∧
    ∀ k v, (k, v) ∈ ds.vars → ∃ c, reduceAxis red v .none = .ok (.inl c) ∧ (k, scalarVar c v.vkind) ∈ out.vars := by
  have hsub : ∀ kv ∈ reducedAllVars red ds, ∀ ax ∈ kv.2.axes, ax ∈ ([] : List Axis) := by
    intro kv hkv ax hax
    obtain ⟨kv0, _, rfl⟩ := List.mem_map.1 hkv
    exact hax
  have hkeys : (reducedAllVars red ds).map (·.1) = ds.keys := by
    simp only [reducedAllVars, Ds.keys, List.map_map]
    rfl
  obtain ⟨out, hout⟩ := fromVars_own_ok nan [] List.nodup_nil (fun e he => by cases he) (reducedAllVars red ds) hsub
  obtain ⟨hv, hat, hsh, hown, _, hax⟩ := fromVars_own nan [] List.nodup_nil (fun e he => by cases he)
    (reducedAllVars red ds) out hsub (hkeys ▸ hk)
    (by
      intro kv hkv
      obtain ⟨kv0, _, rfl⟩ := List.mem_map.1 hkv
      exact List.nodup_nil) hout
  have haxes : out.axes = [] := List.eq_nil_iff_forall_not_mem.2 fun e he => by cases hax e he
  refine ⟨out, (reduceAllDs_eq nan red ds).trans hout, ?_, haxes, hat, ⟨hsh, hown, ?_, ?_⟩, ?_⟩
  · show out.vars.map (·.1) = ds.keys
    rw [hv, hkeys]
  · show (out.vars.map (·.1)).Nodup
    rw [hv, hkeys]
    exact hk
  · intro kv hkv
    rw [hv] at hkv
    obtain ⟨kv0, _, rfl⟩ := List.mem_map.1 hkv
    exact ⟨List.nodup_nil, rfl, fun ax hax => by cases hax⟩
  · intro k v hkv
    refine ⟨red v.vals.toList, reduceAxis_none_eq red v, ?_⟩
    rw [hv]
    exact List.mem_map_of_mem (f := fun kv : String × DimArray α => (kv.1, scalarVar (red kv.2.vals.toList) kv.2.vkind)) hkv

/-- axis=None is not "the default axis": `exDs.sum()` (axis=0) keeps `y`, `exDs.sum(axis=None)` has no axis left and
reduces `b` (which lacks `x`) too -/
example : ∃ out, reduceAllDs 0 exSum exDs = .ok out ∧ out.keys = ["a", "b"] ∧ out.axes = [] ∧
    ("a", scalarVar 21 .i) ∈ out.vars ∧ ("b", scalarVar 15 .i) ∈ out.vars := by
  obtain ⟨out, hout, h1, h2, _, _, h5⟩ := reduceAllDs_spec 0 exSum exDs (by decide)
  obtain ⟨ca, hca, hma⟩ := h5 "a" exA (by simp [exDs])
  obtain ⟨cb, hcb, hmb⟩ := h5 "b" exB (by simp [exDs])
  have ha : ca = 21 := by
    rw [reduceAxis_none_eq] at hca
    have := Sum.inl.inj (Except.ok.inj hca)
    rw [← this]; decide
  have hb : cb = 15 := by
    rw [reduceAxis_none_eq] at hcb
    have := Sum.inl.inj (Except.ok.inj hcb)
    rw [← this]; decide
  subst ha hb
  exact ⟨out, hout, h1, h2, hma, hmb⟩

/-! #### concatenate_ds with align=True, totality of the reflected operators -/

/-- the alignment step of `concatenate_ds(..., align=True)`: one `align(datasets, axis=d, strict=True, join, sort)` per
dimension `d` of any of the Datasets other than the concatenation dimension -/
def concatAlign {α} (nan : α) (datasets : List (Ds α)) (name : String) (join : Join) (sort : Bool) :
    Except Err (List (Ds α)) :=
  ((getDims (datasets.map (·.axes))).filter (· != name)).foldlM
    (fun dss d => alignDs nan dss join (some d) sort true) datasets

/-- CONCATENATE_DS with align=True (the shape of `stackDsA_spec` and `concatenateDs_spec`).  When
`concatenate_ds(datasets, axis, align=True, join=, sort=)` succeeds: `axis` resolves ON THE FIRST DATASET AS GIVEN to a
dimension `name`; every Dataset holds the keys of the first; the alignment (`concatAlign`: `Dataset.reindex_axis` of
every Dataset onto the common axis of every OTHER dimension) succeeded with `aligned`; the result holds the keys of the
first Dataset in its order, no metadata, shared own axes; and every variable `k` IS
`concatenate([ds[k] for ds in aligned], axis=name, _no_check=True)` (`concatenateNoCheck`), which lists the dimensions of
the first aligned Dataset's variable `k`.  The hypothesis `hnd` (the variables of the first ALIGNED Dataset have distinct
dimension names) is what `__setitem__` needs to re-link the stored variables. -/
theorem concatenateDsA_spec {α : Type} (nan : α) (d0 : Ds α) (rest : List (Ds α)) (axis : DimKey) (join : Join)
    (sort : Bool) (out : Ds α) (hk : d0.keys.Nodup)
    (hnd : ∀ name a0 t, concatAlign nan (d0 :: rest) name join sort = .ok (a0 :: t) → ∀ kv ∈ a0.vars, kv.2.dims.Nodup)
    (h : concatenateDsA nan (d0 :: rest) axis true join sort = .ok out) :
    ∃ name aligned, dsAxisName d0 axis = .ok name ∧ concatAlign nan (d0 :: rest) name join sort = .ok aligned ∧
    (∀ ds ∈ d0 :: rest, ds.keys.Perm d0.keys) ∧
    out.keys = d0.keys ∧ out.attrs = [] ∧ SharedAxes out ∧ OwnAxes out ∧
    (∀ k ∈ d0.keys, ∃ arrays s r, gather aligned k = .ok arrays ∧ concatenateNoCheck arrays name = .ok s ∧
      (k, r) ∈ out.vars ∧ SameVar r s ∧ ∀ a0 t, arrays = a0 :: t → s.dims = a0.dims) := by
  replace h : ((d0 :: rest).foldlM catChk none >>= fun variables => dsAxisName d0 axis >>= fun name =>
      concatAlign nan (d0 :: rest) name join sort >>= fun aligned =>
      match variables with
      | none => .error .type
      | some vars => vars.foldlM (joinStep (fun arrays => concatenateNoCheck arrays name) aligned) {}) = .ok out := h
  cases hvars : (d0 :: rest).foldlM catChk none with
  | error e => rw [hvars] at h; cases h
  | ok variables =>
    rw [hvars] at h
    obtain ⟨rfl, hchk⟩ := catChk_spec d0 rest variables hvars
    replace h : (dsAxisName d0 axis >>= fun name => concatAlign nan (d0 :: rest) name join sort >>= fun aligned =>
        d0.keys.foldlM (joinStep (fun arrays => concatenateNoCheck arrays name) aligned) {}) = .ok out := h
    cases hname : dsAxisName d0 axis with
    | error e => rw [hname] at h; cases h
    | ok name =>
      rw [hname] at h
      replace h : (concatAlign nan (d0 :: rest) name join sort >>= fun aligned =>
          d0.keys.foldlM (joinStep (fun arrays => concatenateNoCheck arrays name) aligned) {}) = .ok out := h
      cases hal : concatAlign nan (d0 :: rest) name join sort with
      | error e => rw [hal] at h; cases h
      | ok aligned =>
        rw [hal] at h
        replace h : d0.keys.foldlM (joinStep (fun arrays => concatenateNoCheck arrays name) aligned) {} = .ok out := h
        have hdims : ∀ k arrays s, gather aligned k = .ok arrays → concatenateNoCheck arrays name = .ok s →
            (∀ a0 t, arrays = a0 :: t → s.dims = a0.dims) ∧ s.dims.Nodup := by
          intro k arrays s hg hs
          cases arrays with
          | nil => simp [concatenateNoCheck, bind, Except.bind] at hs
          | cons a0 t =>
            have hd := concatenateNoCheck_dims a0 t name s hs
            refine ⟨fun b0 t' he => by cases he; exact hd, ?_⟩
            have hrel := gather_rel _ _ _ hg
            cases hrel with
            | cons h1 _ =>
              rw [hd]
              exact hnd name _ _ hal _ h1
        obtain ⟨h1, h2, h3, h4, h5, _⟩ := joinLoop_core _ aligned d0.keys out hk
          (fun v _ arrays r hg hs => (hdims v arrays r hg hs).2) h
        refine ⟨name, aligned, rfl, hal, hchk, h1, h2, h3, h4, ?_⟩
        intro k hkm
        obtain ⟨arrays, s, r, hg, hs, hr, hsame⟩ := h5 k hkm
        exact ⟨arrays, s, r, hg, hs, hr, hsame, (hdims k arrays s hg hs).1⟩

/-- REFLECTED OPERATORS, totality: `scalar op ds` fails exactly when `scalar op ds[k]` fails for some variable - on a
good Dataset the re-assembly through `__setitem__` never does -/
theorem rbinaryOpDs_ok {α : Type} (f : α → α → α) (self : Ds α) (c : α) (hg : GoodDs self)
    (hv : ∀ kv ∈ self.vars, ∃ r, operationNd f kv.2 (scalarNd c) true = .ok r) :
    ∃ out, rbinaryOpDs f self (.scalar c) = .ok out := by
  rw [rbinaryOpDs_eq]
  apply mapVarsDs_ok _ self hg.2.1 hg.1.2.2
  intro kv hkv
  obtain ⟨r, hr⟩ := hv kv hkv
  exact ⟨r, hr, (operationNd_axes f kv.2 r _ _ hr).1⟩

/-- and conversely: when the Dataset operation succeeds every per-variable operation did (`rbinaryOpDs_scalar_spec`) -/
theorem rbinaryOpDs_ok_iff {α : Type} (f : α → α → α) (self : Ds α) (c : α) (hg : GoodDs self) :
    (∃ out, rbinaryOpDs f self (.scalar c) = .ok out) ↔
      ∀ kv ∈ self.vars, ∃ r, operationNd f kv.2 (scalarNd c) true = .ok r := by
  constructor
  · rintro ⟨out, hout⟩ kv hkv
    obtain ⟨_, _, _, _, h5⟩ := rbinaryOpDs_scalar_spec f self out c hg hout
    obtain ⟨r, _, hr⟩ := h5 kv.1 kv.2 hkv
    exact ⟨r, hr⟩
  · exact rbinaryOpDs_ok f self c hg

end DSV

end DimModel

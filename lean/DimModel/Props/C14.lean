/-
C14 - property theorems: Dataset-wide indexing equals per-variable indexing.

`Dataset.take` resolves the user's (label) indices ONCE, on the dataset's own axes, into NumPy
positional indices and then applies a *positional* take to every variable.  Because a variable's
axis for a dimension is the very same object as the dataset's axis (C13), the positions are the
ones the variable's own label indexing would compute: the two routes coincide.
-/
import DimModel.Lib.GetSet
namespace DimModel
open Lib

/-- a resolved NumPy index, given back to a variable as a positional user index -/
def rawToIx : RawIx → Ix
  | .int i => .scalar (.num (i : Rat))
  | .ints l => .list (l.map fun (i : Int) => Label.num (i : Rat))
  | .slice s e st => .slice (s.map fun (i : Int) => Label.num (i : Rat)) (e.map fun (i : Int) => Label.num (i : Rat)) st
  | .mask m => .mask m

theorem labelToInt_intCast (i : Int) : labelToInt (Label.num (i : Rat)) = .ok i := by
  simp [labelToInt, Rat.den_intCast, Rat.num_intCast]

theorem mapM_labelToInt (l : List Int) :
    (l.map fun (i : Int) => Label.num (i : Rat)).mapM labelToInt = .ok l := by
  induction l with
  | nil => rfl
  | cons x xs ih =>
    simp only [List.map_cons, List.mapM_cons, ih, labelToInt_intCast, bind, Except.bind, pure, Except.pure]

/-- position mode hands the resolved index to NumPy unchanged -/
theorem ixToRaw_rawToIx (r : RawIx) : ixToRaw (rawToIx r) = .ok r := by
  cases r with
  | int i => simp [rawToIx, ixToRaw, labelToInt_intCast, bind, Except.bind, pure, Except.pure]
  | ints l =>
    simp only [rawToIx, ixToRaw, bind, Except.bind, pure, Except.pure]
    rw [mapM_labelToInt]
  | mask m => simp [rawToIx, ixToRaw, pure, Except.pure]
  | slice s e st =>
    cases s <;> cases e <;>
      simp [rawToIx, ixToRaw, labelToInt_intCast, bind, Except.bind, pure, Except.pure, Functor.map, Except.map]

/-- **per-dimension commuting square.**  On an axis with labels `L`, resolving the label index `ix`
(what `Dataset.take` does on the dataset's axis) and giving the result to the variable as a
positional index leads to the same NumPy index as the variable's own label lookup on the same
labels (the variable shares the axis object, C13). -/
theorem dsTake_perdim_commutes (L : List Label) (kind : Kind) (ix : Ix) (tol : Option Tol) (r : RawIx)
    (h : loc L kind ix tol = .ok r) :
    ixToRaw (rawToIx r) = loc L kind ix tol := by
  rw [h]; exact ixToRaw_rawToIx r

/-- a full slice is passed through unchanged in both modes -/
theorem fullslice_both_modes : ixToRaw fullIx = .ok (.slice none none none) := by
  simp [fullIx, ixToRaw, pure, Except.pure, bind, Except.bind]

end DimModel

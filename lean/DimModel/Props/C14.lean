/-
C14 - property theorems: Dataset-wide indexing equals per-variable indexing.

`Dataset.take` resolves the user's (label) indices ONCE, on the dataset's own axes, into NumPy
positional indices and then applies a *positional* take to every variable.  Because a variable's
axis for a dimension is the very same object as the dataset's axis (C13), the positions are the
ones the variable's own label indexing would compute: the two routes coincide.
-/
import DimModel.Lib.GetSet
import DimModel.Lib.DatasetOps
import DimModel.Proofs.C14
namespace DimModel
open Lib

/-- a resolved NumPy index, given back to a variable as a positional user index -/
def rawToIx : RawIx → Ix
  | .int i => .scalar (.num (i : Rat))
  | .ints l => .list (l.map fun (i : Int) => Label.num (i : Rat))
  | .slice s e st => .slice (s.map fun (i : Int) => Label.num (i : Rat)) (e.map fun (i : Int) => Label.num (i : Rat)) st
  | .mask m => .mask m

theorem labelToInt_intCast (i : Int) : labelToInt (Label.num (i : Rat)) = .ok i := by
  simp [labelToInt, Rat.den_intCast, Rat.num_intCast]

theorem mapM_labelToInt (l : List Int) :
    (l.map fun (i : Int) => Label.num (i : Rat)).mapM labelToInt = .ok l := by
  induction l with
  | nil => rfl
  | cons x xs ih =>
    simp only [List.map_cons, List.mapM_cons, ih, labelToInt_intCast, bind, Except.bind, pure, Except.pure]

/-- position mode hands the resolved index to NumPy unchanged -/
theorem ixToRaw_rawToIx (r : RawIx) : ixToRaw (rawToIx r) = .ok r := by
  cases r with
  | int i => simp [rawToIx, ixToRaw, labelToInt_intCast, bind, Except.bind, pure, Except.pure]
  | ints l =>
    simp only [rawToIx, ixToRaw, bind, Except.bind, pure, Except.pure]
    rw [mapM_labelToInt]
  | mask m => simp [rawToIx, ixToRaw, pure, Except.pure]
  | slice s e st =>
    cases s <;> cases e <;>
      simp [rawToIx, ixToRaw, labelToInt_intCast, bind, Except.bind, pure, Except.pure, Functor.map, Except.map]

/-- **per-dimension commuting square.**  On an axis with labels `L`, resolving the label index `ix`
(what `Dataset.take` does on the dataset's axis) and giving the result to the variable as a
positional index leads to the same NumPy index as the variable's own label lookup on the same
labels (the variable shares the axis object, C13). -/
theorem dsTake_perdim_commutes (L : List Label) (kind : Kind) (ix : Ix) (tol : Option Tol) (r : RawIx)
    (h : loc L kind ix tol = .ok r) :
    ixToRaw (rawToIx r) = loc L kind ix tol := by
  rw [h]; exact ixToRaw_rawToIx r

/-- a full slice is passed through unchanged in both modes -/
theorem fullslice_both_modes : ixToRaw fullIx = .ok (.slice none none none) := by
  simp [fullIx, ixToRaw, pure, Except.pure, bind, Except.bind]


/-! ### Dataset operations by value (round 2): the Dataset code paths of dataset.py (`reduce_axis` on raw values,
one label resolution on the Dataset's axes, per-variable patching in `reindex_axis`) against the DimArray
operation on every variable -/

namespace DSV

/-- same data: dimension names, labels of every axis, shape, every cell of the shape, metadata (the kind and the
metadata of the *axes* are not compared: `Dataset.take_axis` rebuilds the operated axis as a bare `Axis`) -/
def SameData {α} (r r' : DimArray α) : Prop :=
  r.dims = r'.dims ∧ r.axes.map (·.labels) = r'.axes.map (·.labels) ∧ r.vals.shape = r'.vals.shape ∧
  (∀ j, InRange r.vals.shape j → r.vals.get j = r'.vals.get j) ∧ r.attrs = r'.attrs

/-- the datasets the statements speak about: shared axes (C13) - by value this is `SharedAxes` (names and labels)
together with `OwnAxes`: every axis of a variable IS the Dataset's axis of that name (in dimarray they are the same
object, and `setItem` / `__setitem__` stores exactly that) -, distinct keys, every variable well-formed (distinct
dimension names, values of the shape its axes announce, plain axes).

CHANGE with respect to the first draft: the conjunct `OwnAxes ds` was added.  With `SharedAxes` alone (equal names
and labels only) the statements below are false: `setItem` re-links every stored variable to the Dataset's axes
found by name, so a variable that does not have the operated dimension comes back with the Dataset's axis objects -
counterexample: `ds.axes = [x(kind i), y]`, variables `a` over `[x(kind i), y]`, `b` over `[y]`, `c` over
`[x(kind f, attrs [("u",1)])]` with the same labels for `x`: `takeAxisPosDs ds "y" [1]` returns `c` over `x(kind i)`
without the attribute, i.e. not `c` "as it is"; and `takeDs` resolves the index with the *Dataset's* axis kind and
size, which `SharedAxes` does not relate to the variable's. -/
def GoodDs {α} (ds : Ds α) : Prop :=
  SharedAxes ds ∧ OwnAxes ds ∧ ds.keys.Nodup ∧
  ∀ kv ∈ ds.vars, kv.2.dims.Nodup ∧ kv.2.vals.shape = kv.2.axes.map (·.size) ∧ ∀ ax ∈ kv.2.axes, ax.members = []

/-! machine-checked counterexample to the first draft (`GoodDs` without `OwnAxes`): the Dataset `cexDs` satisfies
the first-draft hypotheses, but `take_axis` along `y` does not return the variable `c` (which has no `y`) as it is:
its axis `x` (kind f, one attribute) is replaced by the Dataset's axis `x` (kind i, no attribute) -/

def cexX : Axis := { name := "x", labels := [.num 10, .num 30], kind := .i }
def cexXf : Axis := { name := "x", labels := [.num 10, .num 30], kind := .f, attrs := [("u", 1)] }
def cexY : Axis := { name := "y", labels := [.num 1, .num 2], kind := .i }
def cexC : DimArray Nat := { axes := [cexXf], vals := NDArr.const [2] 0 }
def cexB : DimArray Nat := { axes := [cexY], vals := NDArr.const [2] 0 }
def cexDs : Ds Nat := { axes := [cexX, cexY], vars := [("c", cexC), ("b", cexB)] }

def varAxes (r : Except Err (Ds Nat)) : Option (List (String × List Axis)) :=
  match r with
  | .ok o => some (o.vars.map fun kv => (kv.1, kv.2.axes))
  | .error _ => none

theorem firstDraft_counterexample :
    (SharedAxes cexDs ∧ cexDs.keys.Nodup ∧
      ∀ kv ∈ cexDs.vars, kv.2.dims.Nodup ∧ kv.2.vals.shape = kv.2.axes.map (·.size) ∧ ∀ ax ∈ kv.2.axes, ax.members = []) ∧
    ¬ ∀ out, takeAxisPosDs cexDs "y" [1] = .ok out →
        ∀ k v, (k, v) ∈ cexDs.vars → ∃ r, (k, r) ∈ out.vars ∧ ("y" ∉ v.dims → r = v) := by
  refine ⟨⟨⟨?_, ?_, ?_⟩, ?_, ?_⟩, ?_⟩
  · intro kv hkv ax hax
    simp only [cexDs, List.mem_cons, List.not_mem_nil, or_false] at hkv
    rcases hkv with rfl | rfl
    · simp only [cexC, List.mem_cons, List.not_mem_nil, or_false] at hax
      subst hax
      exact ⟨cexX, by simp [cexDs], rfl, rfl⟩
    · simp only [cexB, List.mem_cons, List.not_mem_nil, or_false] at hax
      subst hax
      exact ⟨cexY, by simp [cexDs], rfl, rfl⟩
  · intro e he
    simp only [cexDs, List.mem_cons, List.not_mem_nil, or_false] at he
    rcases he with rfl | rfl
    · exact ⟨("c", cexC), by simp [cexDs], by simp [cexC, DimArray.dims, cexX, cexXf]⟩
    · exact ⟨("b", cexB), by simp [cexDs], by simp [cexB, DimArray.dims]⟩
  · simp [cexDs, Ds.dims, cexX, cexY]
  · simp [cexDs, Ds.keys]
  · intro kv hkv
    simp only [cexDs, List.mem_cons, List.not_mem_nil, or_false] at hkv
    rcases hkv with rfl | rfl
    · simp [cexC, DimArray.dims, cexXf, NDArr.const, Axis.size]
    · simp [cexB, DimArray.dims, cexY, NDArr.const, Axis.size]
  · intro H
    have hax : varAxes (takeAxisPosDs cexDs "y" [1]) =
        some [("c", [cexX]), ("b", [{ name := "y", labels := [.num 2], kind := .i }])] := by decide
    cases hto : takeAxisPosDs cexDs "y" [1] with
    | error e => rw [hto] at hax; cases hax
    | ok out =>
      rw [hto] at hax
      obtain ⟨r, hr, hnot⟩ := H out hto "c" cexC (by simp [cexDs])
      rw [hnot (by simp [cexC, DimArray.dims, cexXf])] at hr
      have hmem := List.mem_map_of_mem (f := fun kv : String × DimArray Nat => (kv.1, kv.2.axes)) hr
      simp only [varAxes, Option.some.injEq] at hax
      rw [hax] at hmem
      revert hmem
      decide

/-- the Dataset's axis of a name is the axis of that name of every variable -/
theorem GoodDs.axis_eq {α} {ds : Ds α} (hg : GoodDs ds) {name : String} {ax : Axis}
    (hfind : ds.axes.find? (fun a => a.name == name) = some ax) {k : String} {v : DimArray α}
    (hv : (k, v) ∈ ds.vars) : ∀ a ∈ v.axes, a.name = name → a = ax := by
  intro a ha hn
  have hmem := find?_name_some hfind
  exact mem_name_inj hg.1.2.2 (hg.2.1 (k, v) hv a ha) hmem.1 (hn.trans hmem.2.symm)

/-- TAKE_AXIS (positions): every variable that has the dimension comes back as `take_axis` of that variable,
the others as they are; keys and dataset metadata kept; the result is again a Dataset with shared axes.

CHANGE: the hypothesis `hin` (positions in range) of the first draft is not needed and was dropped (the statement
relates two models that treat out-of-range positions in the same way); `OwnAxes out` was added to the conclusion. -/
theorem takeAxisPosDs_spec {α : Type} (ds out : Ds α) (name : String) (ps : List Nat) (hg : GoodDs ds)
    (h : takeAxisPosDs ds name ps = .ok out) :
    out.keys = ds.keys ∧ out.attrs = ds.attrs ∧ SharedAxes out ∧ OwnAxes out ∧
    ∀ k v, (k, v) ∈ ds.vars → ∃ r, (k, r) ∈ out.vars ∧
      (name ∈ v.dims → SameData r (takeAxisPos v (v.dims.idxOf name) ps)) ∧ (name ∉ v.dims → r = v) := by
  obtain ⟨ax, hfind, hout⟩ := takeAxisPosDs_closed ds out name ps hg.2.1 hg.1.2.2 hg.2.2.1 h
  have hsh := reduce_shared ds name (takeNewAxis name ax ps) (takeVals ps) rfl hg.1 hg.2.1 out hout
  refine ⟨?_, ?_, hsh.1, hsh.2, ?_⟩
  · subst hout
    simp only [Ds.keys, List.map_map]
    rfl
  · subst hout; rfl
  · intro k v hkv
    refine ⟨reduceVar name (takeNewAxis name ax ps) (takeVals ps) v, ?_, ?_, ?_⟩
    · subst hout
      exact List.mem_map_of_mem (f := fun kv => (kv.1, reduceVar name (takeNewAxis name ax ps) (takeVals ps) kv.2)) hkv
    · intro hmem
      have hax : ∀ a ∈ v.axes, a.name = name → a.labels = ax.labels := by
        intro a ha hn
        rw [hg.axis_eq hfind hkv a ha hn]
      obtain ⟨h1, h2, h3, h4, _⟩ := reduceVar_take v name ax ps (hg.2.2.2 (k, v) hkv).1 hmem hax
      exact ⟨h1, h2, by rw [h3], fun j _ => by rw [h3], h4⟩
    · intro hmem
      exact reduceVar_of_not_mem name _ _ v hmem

/-- SORT_AXIS: the Dataset sorts by the argsort of ITS labels; every variable that has the dimension comes back
as `sort_axis` of that variable (`OwnAxes out` added to the conclusion) -/
theorem sortAxisDs_spec {α : Type} (ds out : Ds α) (name : String) (hg : GoodDs ds)
    (h : sortAxisDs ds name = .ok out) :
    out.keys = ds.keys ∧ out.attrs = ds.attrs ∧ SharedAxes out ∧ OwnAxes out ∧
    ∀ k v, (k, v) ∈ ds.vars → ∃ r, (k, r) ∈ out.vars ∧
      (name ∈ v.dims → ∃ r', sortAxis v (.name name) = .ok r' ∧ SameData r r') ∧ (name ∉ v.dims → r = v) := by
  unfold sortAxisDs at h
  split at h
  · cases h
  · rename_i ax hfind
    obtain ⟨h1, h2, h3, h4, h5⟩ := takeAxisPosDs_spec ds out name _ hg h
    refine ⟨h1, h2, h3, h4, ?_⟩
    intro k v hkv
    obtain ⟨r, hr, hin, hnot⟩ := h5 k v hkv
    refine ⟨r, hr, ?_, hnot⟩
    intro hmem
    refine ⟨_, sortAxis_name_eq v name hmem, ?_⟩
    have hax := axes_getD_idxOf v name hmem
    rw [hg.axis_eq hfind hkv _ hax.1 hax.2]
    exact hin hmem

/-- REINDEX_AXIS (method=None, raise_error=False): every variable that has the dimension comes back as
`reindex_axis` of that variable with the same fill; variables without the dimension are left alone
(`SharedAxes out ∧ OwnAxes out` added to the conclusion of the first draft) -/
theorem reindexAxisDs_spec {α : Type} (ds out : Ds α) (name : String) (newL : List Label) (newKind fillKind : Kind)
    (fill : α) (hg : GoodDs ds) (h : reindexAxisDs ds name newL newKind fill fillKind = .ok out) :
    out.keys = ds.keys ∧ out.attrs = ds.attrs ∧ SharedAxes out ∧ OwnAxes out ∧
    ∀ k v, (k, v) ∈ ds.vars → ∃ r, (k, r) ∈ out.vars ∧
      (name ∈ v.dims → ∃ r', reindexAxis v (.name name) newL newKind fill fillKind false none = .ok r' ∧ SameData r r') ∧
      (name ∉ v.dims → r = v) := by
  obtain ⟨ax, taken, hfind, hne, htk, hout⟩ := reindexAxisDs_closed ds out name newL newKind fillKind fill h
  obtain ⟨t1, t2, t3, t4, t5⟩ := takeAxisPosDs_spec ds taken name _ hg htk
  have haxn : ax.name = name := (find?_name_some hfind).2
  have hgetD : ∀ k v, (k, v) ∈ ds.vars → name ∈ v.dims → v.axes.getD (v.dims.idxOf name) default = ax := by
    intro k v hkv hmem
    have hax := axes_getD_idxOf v name hmem
    exact hg.axis_eq hfind hkv _ hax.1 hax.2
  by_cases hany : (mismatchMask ax.labels (locateMany ax.labels newL .left) newL).any id = true
  · -- some requested label is absent: the patched variables
    rw [if_pos hany] at hout
    obtain ⟨ax', hfind', htaken⟩ := takeAxisPosDs_closed ds taken name _ hg.2.1 hg.1.2.2 hg.2.2.1 htk
    rw [hfind] at hfind'
    cases hfind'
    have hsh := rx_shared taken name ax newL newKind fill fillKind t3 t4
    refine ⟨?_, ?_, by rw [hout]; exact hsh.1, by rw [hout]; exact hsh.2, ?_⟩
    · rw [← t1, hout]
      simp only [Ds.keys, List.map_map]
      apply List.map_congr_left
      intro kv _
      exact rxPatch_fst name ax newL newKind fill fillKind kv
    · rw [← t2, hout]
    · intro k v hkv
      have hmemt : (k, reduceVar name (takeNewAxis name ax (locateMany ax.labels newL .left))
          (takeVals (locateMany ax.labels newL .left)) v) ∈ taken.vars := by
        rw [htaken]
        exact List.mem_map_of_mem (f := fun kv => (kv.1, reduceVar name (takeNewAxis name ax
          (locateMany ax.labels newL .left)) (takeVals (locateMany ax.labels newL .left)) kv.2)) hkv
      have hmemo := List.mem_map_of_mem (f := rxPatch name ax newL newKind fill fillKind) hmemt
      by_cases hmem : name ∈ v.dims
      · obtain ⟨r, hr, hax, hvals, hattrs, _⟩ := rxPatch_reduceVar v k name ax hmem newL newKind fill fillKind _ rfl hany
        rw [hr] at hmemo
        refine ⟨r, by rw [hout]; exact hmemo, ?_, fun hn => absurd hmem hn⟩
        intro _
        refine ⟨_, reindexAxis_name_ok v name hmem ax (hgetD k v hkv hmem) newL newKind fill fillKind hne, ?_⟩
        have hax' := rxResult_axes v name ax newL newKind fill fillKind (hg.2.2.2 (k, v) hkv).1 hany
        refine ⟨?_, ?_, by rw [hvals], fun j _ => by rw [hvals], hattrs⟩
        · show r.axes.map (·.name) = (rxResult v name ax newL newKind fill fillKind).axes.map (·.name)
          rw [hax, hax', List.map_map, List.map_map]
          apply List.map_congr_left
          intro a _
          simp only [Function.comp]
          split
          · exact haxn.symm
          · rfl
        · rw [hax, hax', List.map_map, List.map_map]
          apply List.map_congr_left
          intro a _
          simp only [Function.comp]
          split <;> rfl
      · rw [reduceVar_of_not_mem name _ _ v hmem, rxPatch_of_not_mem name ax newL newKind fill fillKind (k, v) hmem] at hmemo
        exact ⟨v, by rw [hout]; exact hmemo, fun hm => absurd hm hmem, fun _ => rfl⟩
  · -- every requested label is present: the clipped take is the result
    rw [if_neg hany] at hout
    subst hout
    refine ⟨t1, t2, t3, t4, ?_⟩
    intro k v hkv
    obtain ⟨r, hr, hin, hnot⟩ := t5 k v hkv
    refine ⟨r, hr, ?_, hnot⟩
    intro hmem
    refine ⟨_, reindexAxis_name_ok v name hmem ax (hgetD k v hkv hmem) newL newKind fill fillKind hne, ?_⟩
    unfold rxResult
    rw [if_neg hany]
    exact hin hmem

theorem sameData_refl {α} (r : DimArray α) : SameData r r := ⟨rfl, rfl, rfl, fun _ _ => rfl, rfl⟩

/-- TAKE ({dim: index}): the index is resolved once on the Dataset's axis; every variable that has the dimension
comes back as the variable's own `take` of the same index along that dimension - in full generality (any index,
label or position mode, tolerance, keepdims).

CHANGE: the first draft asked for `∃ r', take v ... = .ok r' ∧ SameData r r'`; under `GoodDs` (with `OwnAxes`) the
stored variable IS the result of the variable's own `take` (axes with kind and metadata, value kind included), so
the conclusion is stated as the equation `take v ... = .ok r` (the `SameData` form follows with `sameData_refl`, see
`takeDs_sameData`).  `SharedAxes out ∧ OwnAxes out` was added to the conclusion. -/
theorem takeDs_spec {α : Type} (ds out : Ds α) (name : String) (ix : Ix) (cfg : IndexCfg) (hg : GoodDs ds)
    (h : takeDs ds name ix cfg = .ok out) :
    out.keys = ds.keys ∧ out.attrs = ds.attrs ∧ SharedAxes out ∧ OwnAxes out ∧
    ∀ k v, (k, v) ∈ ds.vars → ∃ r, (k, r) ∈ out.vars ∧
      (name ∈ v.dims → take v (.dict [(.name name, ix)]) cfg = .ok r) ∧
      (name ∉ v.dims → r = v) := by
  obtain ⟨ax, raw, p, hfind, hraw, hp, hout⟩ := takeDs_closed ds out name ix cfg hg.2.1 hg.1.2.2 hg.2.2.1
    (fun kv hkv => (hg.2.2.2 kv hkv).1) h
  have hsh := take_shared ds name p hg.1 hg.2.1 out hout
  refine ⟨?_, ?_, hsh.1, hsh.2, ?_⟩
  · subst hout
    simp only [Ds.keys, List.map_map]
    rfl
  · subst hout; rfl
  · intro k v hkv
    refine ⟨takeVar name p v, ?_, ?_, ?_⟩
    · subst hout
      exact List.mem_map_of_mem (f := fun kv => (kv.1, takeVar name p kv.2)) hkv
    · intro hmem
      exact take_dict_ok v name ix cfg hmem ax (hg.axis_eq hfind hkv) (hg.2.2.2 (k, v) hkv).2.2 raw p hraw hp
    · intro hmem
      exact takeVar_of_not_mem name p v hmem

/-- the first-draft form of `takeDs_spec` -/
theorem takeDs_sameData {α : Type} (ds out : Ds α) (name : String) (ix : Ix) (cfg : IndexCfg) (hg : GoodDs ds)
    (h : takeDs ds name ix cfg = .ok out) :
    out.keys = ds.keys ∧ out.attrs = ds.attrs ∧
    ∀ k v, (k, v) ∈ ds.vars → ∃ r, (k, r) ∈ out.vars ∧
      (name ∈ v.dims → ∃ r', take v (.dict [(.name name, ix)]) cfg = .ok r' ∧ SameData r r') ∧
      (name ∉ v.dims → r = v) := by
  obtain ⟨h1, h2, _, _, h5⟩ := takeDs_spec ds out name ix cfg hg h
  refine ⟨h1, h2, fun k v hkv => ?_⟩
  obtain ⟨r, hr, hin, hnot⟩ := h5 k v hkv
  exact ⟨r, hr, fun hmem => ⟨r, hin hmem, sameData_refl r⟩, hnot⟩

/-- `__setitem__` keeps the shared-axes rule (names and labels; the statement is about an accepted value - a
rejected one returns `.error` and there is no new state) -/
theorem setItem_shared {α : Type} (ds out : Ds α) (k : String) (v : DimArray α)
    (hs : ∀ kv ∈ ds.vars, ∀ ax ∈ kv.2.axes, ∃ e ∈ ds.axes, e.name = ax.name ∧ e.labels = ax.labels)
    (hd : ds.dims.Nodup) (hv : v.dims.Nodup) (h : setItem ds k v = .ok out) :
    (∀ kv ∈ out.vars, ∀ ax ∈ kv.2.axes, ∃ e ∈ out.axes, e.name = ax.name ∧ e.labels = ax.labels) ∧
    out.dims.Nodup ∧ (∃ r, (k, r) ∈ out.vars ∧ r.dims = v.dims ∧ r.vals = v.vals ∧
      r.axes.map (·.labels) = v.axes.map (·.labels)) :=
  setItem_shared_aux ds out k v hs hd hv h

/-- the hypothesis `takeAxisPosDs ds name ps = .ok out` of `takeAxisPosDs_spec` is satisfiable for every good
Dataset: `take_axis` on an existing dimension only fails on the NumPy error "take from an empty axis" -/
theorem takeAxisPosDs_ok {α : Type} (ds : Ds α) (name : String) (ps : List Nat) (hg : GoodDs ds) (ax : Axis)
    (hfind : ds.axes.find? (fun a => a.name == name) = some ax) (hsz : ¬ (ax.size == 0 && !ps.isEmpty) = true) :
    ∃ out, takeAxisPosDs ds name ps = .ok out := by
  have hmem := find?_name_some hfind
  have hin : name ∈ ds.dims := hmem.2 ▸ List.mem_map_of_mem hmem.1
  unfold takeAxisPosDs
  rw [hfind]
  simp only []
  rw [if_neg hsz]
  exact ⟨_, reduceAxisKeep_closed ds name _ (takeVals ps) rfl hin hg.2.1 hg.1.2.2 hg.2.2.1⟩

/-! ### non-vacuity: a concrete Dataset with two variables over integer-labelled dimensions, one of them lacking
the operated dimension -/

def exX : Axis := { name := "x", labels := [.num 10, .num 30, .num 20], kind := .i }
def exY : Axis := { name := "y", labels := [.num 1, .num 2], kind := .i }
def exA : DimArray Int := { axes := [exX, exY], vals := NDArr.ofFlat [3, 2] [1, 2, 3, 4, 5, 6], vkind := .i }
def exB : DimArray Int := { axes := [exY], vals := NDArr.ofFlat [2] [7, 8], vkind := .i, attrs := [("units", 1)] }
def exDs : Ds Int := { axes := [exX, exY], vars := [("a", exA), ("b", exB)], attrs := [("title", 2)] }

theorem exDs_good : GoodDs exDs := by
  refine ⟨⟨?_, ?_, ?_⟩, ?_, ?_, ?_⟩
  · intro kv hkv ax hax
    exact ⟨ax, by
      simp only [exDs, List.mem_cons, List.not_mem_nil, or_false] at hkv
      rcases hkv with rfl | rfl <;> simp [exA, exB, exDs] at hax ⊢ <;> simp [hax], rfl, rfl⟩
  · intro e he
    simp only [exDs, List.mem_cons, List.not_mem_nil, or_false] at he
    rcases he with rfl | rfl
    · exact ⟨("a", exA), by simp [exDs], by simp [exA, DimArray.dims]⟩
    · exact ⟨("b", exB), by simp [exDs], by simp [exB, DimArray.dims]⟩
  · simp [exDs, Ds.dims, exX, exY]
  · intro kv hkv ax hax
    simp only [exDs, List.mem_cons, List.not_mem_nil, or_false] at hkv
    rcases hkv with rfl | rfl <;> simp [exA, exB, exDs] at hax ⊢ <;> simp [hax]
  · simp [exDs, Ds.keys]
  · intro kv hkv
    simp only [exDs, List.mem_cons, List.not_mem_nil, or_false] at hkv
    rcases hkv with rfl | rfl
    · simp [exA, DimArray.dims, exX, exY, NDArr.ofFlat, Axis.size]
    · simp [exB, DimArray.dims, exY, NDArr.ofFlat, Axis.size]

/-- `takeAxisPosDs_spec` applied to the concrete Dataset: `take_axis([2, 0], axis="x")` succeeds, keeps the keys,
returns `b` (which has no dimension `x`) as it is and `a` as `a.take_axis([2, 0], axis=0)` -/
example : ∃ out, takeAxisPosDs exDs "x" [2, 0] = .ok out ∧ out.keys = ["a", "b"] ∧ SharedAxes out ∧
    ("b", exB) ∈ out.vars ∧ ∃ r, ("a", r) ∈ out.vars ∧ SameData r (takeAxisPos exA 0 [2, 0]) := by
  have hfind : exDs.axes.find? (fun a => a.name == "x") = some exX := by simp [exDs, exX]
  obtain ⟨out, hout⟩ := takeAxisPosDs_ok exDs "x" [2, 0] exDs_good exX hfind (by simp [exX, Axis.size])
  obtain ⟨h1, _, h3, _, h5⟩ := takeAxisPosDs_spec exDs out "x" [2, 0] exDs_good hout
  refine ⟨out, hout, h1, h3, ?_, ?_⟩
  · obtain ⟨r, hr, _, hnot⟩ := h5 "b" exB (by simp [exDs])
    rw [hnot (by simp [exB, DimArray.dims, exY])] at hr
    exact hr
  · obtain ⟨r, hr, hin, _⟩ := h5 "a" exA (by simp [exDs])
    have hpos : exA.dims.idxOf "x" = 0 := by simp [exA, DimArray.dims, exX]
    have := hin (by simp [exA, DimArray.dims, exX])
    rw [hpos] at this
    exact ⟨r, hr, this⟩

end DSV

end DimModel

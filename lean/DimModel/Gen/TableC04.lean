/- GENERATED on every run by harness/props/c04.py: every operator of DimArray, in every operand form,
   evaluated by the implementation on the probe operands 8 and 2 -/
import DimModel.Lib.Operation
namespace DimModel.Gen
open DimModel.Lib

/-- (operator, form, returned a DimArray without raising, result numerator, denominator) -/
def opTable : List (Op × String × Bool × Int × Nat) := [
  (.add, "arr_arr", true, (10 : Int), 1),
  (.add, "arr_scalar", true, (10 : Int), 1),
  (.add, "scalar_arr", true, (10 : Int), 1),
  (.add, "arr_nd", true, (10 : Int), 1),
  (.add, "arr_arr_rev", true, (10 : Int), 1),
  (.sub, "arr_arr", true, (6 : Int), 1),
  (.sub, "arr_scalar", true, (6 : Int), 1),
  (.sub, "scalar_arr", true, (6 : Int), 1),
  (.sub, "arr_nd", true, (6 : Int), 1),
  (.sub, "arr_arr_rev", true, (-6 : Int), 1),
  (.mul, "arr_arr", true, (16 : Int), 1),
  (.mul, "arr_scalar", true, (16 : Int), 1),
  (.mul, "scalar_arr", true, (16 : Int), 1),
  (.mul, "arr_nd", true, (16 : Int), 1),
  (.mul, "arr_arr_rev", true, (16 : Int), 1),
  (.truediv, "arr_arr", true, (4 : Int), 1),
  (.truediv, "arr_scalar", true, (4 : Int), 1),
  (.truediv, "scalar_arr", true, (4 : Int), 1),
  (.truediv, "arr_nd", true, (4 : Int), 1),
  (.truediv, "arr_arr_rev", true, (1 : Int), 4),
  (.floordiv, "arr_arr", true, (4 : Int), 1),
  (.floordiv, "arr_scalar", true, (4 : Int), 1),
  (.floordiv, "scalar_arr", true, (4 : Int), 1),
  (.floordiv, "arr_nd", true, (4 : Int), 1),
  (.floordiv, "arr_arr_rev", true, (0 : Int), 1),
  (.pow, "arr_arr", true, (64 : Int), 1),
  (.pow, "arr_scalar", true, (64 : Int), 1),
  (.pow, "scalar_arr", true, (64 : Int), 1),
  (.pow, "arr_nd", true, (64 : Int), 1),
  (.pow, "arr_arr_rev", true, (256 : Int), 1)]

end DimModel.Gen

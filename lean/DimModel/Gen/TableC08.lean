/- GENERATED on every run by harness/props/c08.py from dimarray.core.transform._get_func -/
namespace DimModel.Gen

/-- (function name, skipna, selected family) -/
def getFuncTable : List (String × Bool × String) := [
  ("sum", false, "plain"),
  ("sum", true, "nanfunc"),
  ("prod", false, "plain"),
  ("prod", true, "nanfunc"),
  ("mean", false, "plain"),
  ("mean", true, "nanfunc"),
  ("var", false, "plain"),
  ("var", true, "nanfunc"),
  ("std", false, "plain"),
  ("std", true, "nanfunc"),
  ("min", false, "plain"),
  ("min", true, "nanfunc"),
  ("max", false, "plain"),
  ("max", true, "nanfunc"),
  ("ptp", false, "plain"),
  ("ptp", true, "masked"),
  ("all", false, "plain"),
  ("all", true, "masked"),
  ("any", false, "plain"),
  ("any", true, "masked"),
  ("median", false, "mediannan"),
  ("median", true, "nanfunc"),
  ("cumsum", false, "plain"),
  ("cumsum", true, "nanfunc"),
  ("cumprod", false, "plain"),
  ("cumprod", true, "nanfunc"),
  ("argmin", false, "plain"),
  ("argmin", true, "nanfunc"),
  ("argmax", false, "plain"),
  ("argmax", true, "nanfunc")]

end DimModel.Gen

/-
C01 - definitional spec of label indexing (no algorithm in it).
-/
import DimModel.Lib.GetSet
namespace DimModel.Spec

/-- positions a label index denotes on an axis with labels `L`; `none` = IndexError.
(label slices other than the full one are C02's subject) -/
def positions (L : List Label) : Ix → Option PosIx
  | .scalar v => if v ∈ L then some (.scalar (firstIdx L v)) else none
  | .list vs => if vs.all (fun v => decide (v ∈ L)) then some (.list (vs.map (firstIdx L))) else none
  | .mask m => if m.length = L.length then some (.list (nonzero m)) else none
  | .slice none none none => some (.list (List.range L.length))
  | _ => none

/-- the index forms this spec speaks about -/
def SimpleIx : Ix → Prop
  | .scalar v => v ≠ Label.none
  | .list _ => True
  | .mask _ => True
  | .slice none none none => True
  | _ => False

/-- result axes: scalar-indexed dimensions are dropped, the others carry the selected labels -/
def takeAxes : List Axis → List PosIx → List Axis
  | _ :: axes, .scalar _ :: ps => takeAxes axes ps
  | ax :: axes, .list p :: ps => Lib.axisSelect ax p :: takeAxes axes ps
  | _, _ => []

/-- `a[ix_0, ..., ix_{n-1}]` in label mode: every dimension sampled independently -/
def take {α} (a : DimArray α) (ixs : List Ix) : Except Err (DimArray α) :=
  match (ixs.zip a.axes).mapM (fun (ix, ax) => positions ax.labels ix) with
  | none => .error .index
  | some ps => .ok { axes := takeAxes a.axes ps, vals := a.vals.outer ps, vkind := a.vkind, attrs := a.attrs }

end DimModel.Spec

/-
C10 - spec-level vocabulary for "rearranging dimensions preserves every element's label coordinates":
the coordinate of an index along a *named* dimension, "same element at the same named coordinates",
and the resolution of a dimension key (name / position / negative position) to a dimension.
Nothing here is executed by the driver; the definitions are only used to state theorems.
-/
import DimModel.Lib.Reshape
namespace DimModel
open Lib

/-- `p` is a permutation of `0 .. n-1` -/
def IsPerm (p : List Nat) (n : Nat) : Prop := p.length = n ∧ p.Nodup ∧ ∀ k ∈ p, k < n

/-- The coordinate of the index tuple `j` along the dimension called `name`, for an array whose
dimensions are `dims` (in storage order).  `none` when there is no such dimension (or `j` is too
short): no default value is ever substituted. -/
def coordOf (dims : List String) (j : List Nat) (name : String) : Option Nat := j[dims.idxOf name]?

/-- **Every element keeps its named coordinates**: each in-range index `j` of the result `r` reads
the element of `a` at an in-range index `i` whose coordinate along *every* dimension of `a`, looked
up by dimension name, is `j`'s coordinate along the dimension of that name in `r`.
(`i` is unique when `a`'s dimension names are distinct: `coordOf_ext`.) -/
def SameByName {α} (a r : DimArray α) : Prop :=
  ∀ j, InRange r.vals.shape j →
    ∃ i, InRange a.vals.shape i ∧
      (∀ name ∈ a.dims, coordOf a.dims i name = coordOf r.dims j name) ∧
      r.vals.get j = a.vals.get i

/-- The same, for the dimensions listed in `names` only (used when `r` has fewer or more dimensions
than `a`: squeeze, newaxis, repeat, broadcast).  Each in-range index `j` of `r` reads the element
of `a` at an in-range index `i` with the same coordinate along every dimension in `names`.
When the dimensions of `a` outside `names` have a single position, `i` is still unique (an in-range
coordinate along a dimension of size 1 is 0). -/
def SameOn {α} (names : List String) (a r : DimArray α) : Prop :=
  ∀ j, InRange r.vals.shape j →
    ∃ i, InRange a.vals.shape i ∧
      (∀ name ∈ names, coordOf a.dims i name = coordOf r.dims j name) ∧
      r.vals.get j = a.vals.get i

/-- the names of the dimensions of `a` that do not have exactly one position -/
def properDims {α} (a : DimArray α) : List String := (a.axes.filter (fun ax => ax.size != 1)).map (·.name)

/-- The key `k` - a name, a position, or a negative position counted from the end - designates
dimension number `d` of `a`. -/
def Resolves {α} (a : DimArray α) (k : DimKey) (d : Nat) : Prop :=
  d < a.ndim ∧
  match k with
  | .name s => a.dims[d]? = some s
  | .pos i => i = (d : Int) ∨ i = (d : Int) - (a.ndim : Int)

/-- **`r` is `a` with its dimensions rearranged**: the axes of `r` are the axes of `a` in another
order - each axis whole, with its name, labels, kind and metadata, none lost, none invented -, the
array metadata and value kind are kept, the result is well formed (one axis per dimension, sizes
match), every element of `r` is the element of `a` at the same named coordinates, and every element
of `a` is found in `r` at the same named coordinates. -/
structure Rearranged {α} (a r : DimArray α) : Prop where
  axes_perm : r.axes.Perm a.axes
  wf : r.WF
  attrs : r.attrs = a.attrs
  vkind : r.vkind = a.vkind
  same : SameByName a r
  onto : SameByName r a

/-- where `np.rollaxis(axis = d, start = s)` puts the axis: `s`, minus one when the axis came from before `s` -/
def rollDest (d s : Nat) : Nat := if s > d then s - 1 else s

/-- the singleton axis `newaxis` creates: one `None` label -/
def noneAxis (name : String) : Axis := { name := name, labels := [Label.none], kind := .O }

/-- A dimension name that the library does not read as a grouped ("a,b") name: it is not empty, has
no comma, and the library's comma-splitting leaves it alone.  (`String.splitOn` does not reduce in
the kernel and core Lean has no lemma relating it to `String.contains`, hence the two facts are
stated side by side; `#guard` checks them on concrete names.) -/
def PlainName (s : String) : Prop := s ≠ "" ∧ s.contains ',' = false ∧ splitOnComma s = [s]

instance (s : String) : Decidable (PlainName s) := by unfold PlainName; exact inferInstance

/-- the axis that `a.broadcast(target)` gives to the target axis `t`: `a`'s own axis of that name
when it has one - unless that one has a single label and the target has not, then a fresh axis with the
target's name and labels (`t.bare`: the target's metadata is NOT taken over); such a fresh axis too when `a`
has no dimension of that name. -/
def bcastAxis {α} (a : DimArray α) (t : Axis) : Axis :=
  match a.axes.find? (·.name == t.name) with
  | some ax => if ax.size == 1 && t.size != 1 then t.bare else ax
  | none => t.bare

/-- Plain arrays: no grouped (`MultiAxis`) axis. -/
def PlainAxes (axes : List Axis) : Prop := ∀ ax ∈ axes, ax.members = []

instance (axes : List Axis) : Decidable (PlainAxes axes) := by unfold PlainAxes; exact inferInstance

end DimModel

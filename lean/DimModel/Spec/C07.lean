/-
C07 - definitional spec of reindexing: the new axis is exactly the requested labels; the slice at a
requested label is the original slice at that label when it existed, the fill value otherwise.
-/
import DimModel.Lib.Align
namespace DimModel.Spec

def reindexLabels (ax : Axis) (newL : List Label) : Axis := { ax with labels := newL, members := [] }

/-- values of the reindexed array -/
def reindexVals {α} (a : DimArray α) (pos : Nat) (newL : List Label) (fill : α) : NDArr α :=
  let L := (a.axes.getD pos default).labels
  { shape := a.vals.shape.set pos newL.length
    get := fun j =>
      let v := newL.getD (j.getD pos 0) Label.none
      if v ∈ L then a.vals.get (j.set pos (firstIdx L v)) else fill }

end DimModel.Spec

/-
C07 - definitional spec of reindexing: the new axis is exactly the requested labels; the slice at a
requested label is the original slice at that label when it existed, the fill value otherwise.
-/
import DimModel.Lib.Align
namespace DimModel.Spec

def reindexLabels (ax : Axis) (newL : List Label) : Axis := { ax with labels := newL, members := [] }

/-- values of the reindexed array -/
def reindexVals {α} (a : DimArray α) (pos : Nat) (newL : List Label) (fill : α) : NDArr α :=
  let L := (a.axes.getD pos default).labels
  { shape := a.vals.shape.set pos newL.length
    get := fun j =>
      let v := newL.getD (j.getD pos 0) Label.none
      if v ∈ L then a.vals.get (j.set pos (firstIdx L v)) else fill }

end DimModel.Spec

namespace DimModel.Spec
open DimModel

/-- the predicate that `numpy.searchsorted(sorted, v, side)` looks for: it returns the first sorted
position whose element `x` satisfies `v ≤ x` (side left) resp. `v < x` (side right) -/
def sideCond (s : Side) (v x : Label) : Bool :=
  match s with
  | .left => Label.le v x
  | .right => Label.lt v x

/-- `w` is the existing label that `method=side` associates with the requested value `v` on an axis
with labels `L` (stored in any order): the LEAST label `x` of the axis with `v ≤ x` (left) resp. `v < x`
(right); when no label qualifies (`v` lies beyond the largest label) the GREATEST label of the axis. -/
def IsNeighbour (s : Side) (L : List Label) (v w : Label) : Prop :=
  w ∈ L ∧
  ((sideCond s v w = true ∧ ∀ x ∈ L, sideCond s v x = true → Label.le w x = true) ∨
   ((∀ x ∈ L, sideCond s v x = false) ∧ ∀ x ∈ L, Label.le x w = true))

/-- `reindex_like`: the template axis (first one of that name) matched with axis `i` of the array -/
def tmplFor (axes tmpl : List Axis) (i : Nat) : Option Axis :=
  tmpl.find? (·.name == (axes.getD i default).name)

/-- `reindex_like` without method: source index of result index `j` (all requested labels present):
along every axis shared with the template, the position of the requested label; other coordinates unchanged -/
def reindexLikeIdx (axes tmpl : List Axis) (j : List Nat) : List Nat :=
  j.mapIdx fun i x =>
    match tmplFor axes tmpl i with
    | some t => firstIdx (axes.getD i default).labels (t.labels.getD x Label.none)
    | none => x

end DimModel.Spec

/-
C02 - definitional spec of label slices: inclusive bounding box on monotonic numeric axes,
first-to-second label on the others; never a wrapped-around selection.
-/
import DimModel.Lib.Indexing
namespace DimModel.Spec

/-- every `k`-th element of a list, starting with the first (`k ≥ 1`) -/
def everyKth (k : Nat) : List Nat → List Nat
  | [] => []
  | x :: xs => x :: everyKth k (xs.drop (k - 1))
termination_by l => l.length
decreasing_by simp; omega

def leOpt (lo : Option Label) (x : Label) : Bool := match lo with | none => true | some l => Label.le l x
def geOpt (hi : Option Label) (x : Label) : Bool := match hi with | none => true | some h => Label.le x h

/-- positions whose label lies in the closed interval `[lo, hi]` (open where `none`), in axis order -/
def bbox (L : List Label) (lo hi : Option Label) : List Nat :=
  (List.range L.length).filter fun p => leOpt lo (L.getD p Label.none) && geOpt hi (L.getD p Label.none)

/-- closed range of positions `[i, j]` (open where `none`), in axis order -/
def posRange (n : Nat) (i j : Option Nat) : List Nat :=
  (List.range n).filter fun p => (match i with | none => true | some a => a ≤ p) &&
                                 (match j with | none => true | some b => p ≤ b)

/-- Is the label slice treated as a bounding box?  (numeric axis, monotonic) -/
def isBBoxAxis (L : List Label) (kind : Kind) : Bool :=
  kind.isNumeric && Lib.isMonotonicEq L

/-- direction of a monotonic axis: increasing unless the last label is smaller than the first -/
def isIncreasingAxis (L : List Label) : Bool := Lib.headLeLast L

/-- positions selected by the label slice `start:stop:step`; `none` = error (a bound that must be
an existing label is absent, non numeric bound on a numeric axis, or step 0) -/
def sliceSel (L : List Label) (kind : Kind) (start stop : Option Label) (step : Option Int) :
    Option (List Nat) :=
  let k : Int := step.getD 1
  if k == 0 then none else
  let pos := k > 0
  let stride := k.natAbs
  if isBBoxAxis L kind then
    if (start.map Label.isNum).getD true == false || (stop.map Label.isNum).getD true == false then none
    else
      let inc := isIncreasingAxis L
      -- in axis order the first bound is `start` for a positive step and `stop` for a negative one
      let (first, last) := if pos then (start, stop) else (stop, start)
      let (lo, hi) := if inc then (first, last) else (last, first)
      let sel := bbox L lo hi
      some (everyKth stride (if pos then sel else sel.reverse))
  else
    -- both bounds must be existing labels; the slice runs from the first to the second, inclusive
    let find (b : Option Label) : Option (Option Nat) :=
      match b with
      | none => some none
      | some v => if v ∈ L then some (some (firstIdx L v)) else none
    match find start, find stop with
    | some i, some j =>
      let sel := if pos then posRange L.length i j else (posRange L.length j i).reverse
      some (everyKth stride sel)
    | _, _ => none

end DimModel.Spec

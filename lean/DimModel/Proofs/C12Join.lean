/-
C12 - helper lemmas for the end-to-end theorems on `Lib.concatenate` / `Lib.stack`
(statements to audit are at the end of `DimModel/Props/C12.lean`).
-/
import DimModel.Lib.Join
import DimModel.Props.C10
import DimModel.Props.C06
import DimModel.Proofs.C04
namespace DimModel
open Lib

/-! ### spec-level vocabulary of the C12 statements -/

/-- the axis of `a` named `s` (used for names `s ∈ a.dims` only) -/
def DimArray.axisNamed {α : Type} (a : DimArray α) (s : String) : Axis := a.axes.getD (a.dims.idxOf s) default

/-- the inputs the join theorems speak about: well-formed (C05: values of the shape the axes announce, distinct
non-empty dimension names) with plain (not grouped) axes -/
def JoinInput {α : Type} (a : DimArray α) : Prop := a.WF ∧ ∀ ax ∈ a.axes, ax.members = []

/-- the `axis` argument designates dimension `d`, found at position `pos` of the first input: it is either the
name `d` or the (non-negative) position `pos` -/
def DesignatesAxis {α : Type} (a0 : DimArray α) (axis : DimKey) (pos : Nat) (d : String) : Prop :=
  a0.dims[pos]? = some d ∧ (axis = .name d ∨ axis = .pos (pos : Int))

/-- joined position at which input `k` starts along `d`: the total number of labels the inputs before it carry on `d` -/
def joinOffset {α : Type} (arrays : List (DimArray α)) (d : String) (k : Nat) : Nat :=
  ((arrays.take k).map (fun a => (a.axisNamed d).labels.length)).sum

namespace C12J

/-! ### A. `np.concatenate` of a list of value arrays (the `foldl` of `concat2`) -/

/-- extent of a value array along `pos` -/
def extent {α : Type} (pos : Nat) (v : NDArr α) : Nat := v.shape.getD pos 0

/-- joined position at which input `k` starts: the sum of the extents of the inputs before it -/
def offsetOf {α : Type} (pos : Nat) (vs : List (NDArr α)) (k : Nat) : Nat := ((vs.take k).map (extent pos)).sum

theorem offsetOf_zero {α : Type} (pos : Nat) (vs : List (NDArr α)) : offsetOf pos vs 0 = 0 := by
  simp [offsetOf]

theorem offsetOf_succ {α : Type} (pos : Nat) (v : NDArr α) (vs : List (NDArr α)) (k : Nat) :
    offsetOf pos (v :: vs) (k + 1) = extent pos v + offsetOf pos vs k := by
  simp [offsetOf]

theorem getD_set_self {β : Type} (l : List β) (i : Nat) (x d : β) (h : i < l.length) :
    (l.set i x).getD i d = x := by
  simp [List.getD_eq_getElem?_getD, h]

theorem extent_concat2 {α : Type} (pos : Nat) (a b : NDArr α) (h : pos < a.shape.length) :
    extent pos (a.concat2 b pos) = extent pos a + extent pos b := by
  simp only [extent, NDArr.concat2]
  exact getD_set_self _ _ _ _ h

theorem concat2_get_set_lt {α : Type} (a b : NDArr α) (pos : Nat) (j : List Nat) (q : Nat) (hj : pos < j.length)
    (hq : q < extent pos a) : (a.concat2 b pos).get (j.set pos q) = a.get (j.set pos q) := by
  simp only [NDArr.concat2, getD_set_self _ _ _ _ hj]
  simp only [extent] at hq
  rw [if_pos hq]

theorem concat2_get_set_ge {α : Type} (a b : NDArr α) (pos : Nat) (j : List Nat) (q : Nat) (hj : pos < j.length) :
    (a.concat2 b pos).get (j.set pos (extent pos a + q)) = b.get (j.set pos q) := by
  simp only [NDArr.concat2, getD_set_self _ _ _ _ hj, extent, List.set_set]
  have h1 : ¬ (a.shape.getD pos 0 + q < a.shape.getD pos 0) := by omega
  rw [if_neg h1]
  congr 2
  omega

theorem foldl_concat2_shape {α : Type} (pos : Nat) : ∀ (rest : List (NDArr α)) (v : NDArr α),
    pos < v.shape.length →
    (rest.foldl (fun acc x => acc.concat2 x pos) v).shape =
      v.shape.set pos (((v :: rest).map (extent pos)).sum) := by
  intro rest
  induction rest with
  | nil =>
    intro v h
    simp only [List.foldl_nil, List.map_cons, List.map_nil, List.sum_cons, List.sum_nil, Nat.add_zero, extent]
    apply List.ext_getElem
    · simp
    · intro i h1 h2
      rw [List.getElem_set]
      split
      · rename_i hi; subst hi; simp [List.getD_eq_getElem?_getD, h]
      · rfl
  | cons y ys ih =>
    intro v h
    rw [List.foldl_cons, ih (v.concat2 y pos) (by simpa [NDArr.concat2] using h)]
    simp only [List.map_cons, List.sum_cons, extent_concat2 pos v y h]
    simp only [NDArr.concat2, List.set_set, extent, Nat.add_assoc]

theorem foldl_concat2_get {α : Type} (pos : Nat) : ∀ (rest : List (NDArr α)) (v : NDArr α) (j : List Nat)
    (k q : Nat) (x : NDArr α), pos < v.shape.length → pos < j.length → (v :: rest)[k]? = some x →
    q < extent pos x →
    (rest.foldl (fun acc x => acc.concat2 x pos) v).get (j.set pos (offsetOf pos (v :: rest) k + q)) =
      x.get (j.set pos q) := by
  intro rest
  induction rest with
  | nil =>
    intro v j k q x _ _ hk _
    cases k with
    | zero =>
      simp only [List.getElem?_cons_zero, Option.some.injEq] at hk
      subst hk
      simp [offsetOf_zero]
    | succ k => simp at hk
  | cons y ys ih =>
    intro v j k q x hv hj hk hq
    rw [List.foldl_cons]
    have hv' : pos < (v.concat2 y pos).shape.length := by simpa [NDArr.concat2] using hv
    have hext := extent_concat2 pos v y hv
    match k, hk with
    | 0, hk =>
      simp only [List.getElem?_cons_zero, Option.some.injEq] at hk
      subst hk
      have := ih (v.concat2 y pos) j 0 q (v.concat2 y pos) hv' hj rfl (by rw [hext]; omega)
      rw [offsetOf_zero] at this ⊢
      rw [Nat.zero_add] at this ⊢
      rw [this]
      exact concat2_get_set_lt _ _ _ _ _ hj hq
    | 1, hk =>
      simp only [List.getElem?_cons_succ, List.getElem?_cons_zero, Option.some.injEq] at hk
      subst hk
      have := ih (v.concat2 y pos) j 0 (extent pos v + q) (v.concat2 y pos) hv' hj rfl (by rw [hext]; omega)
      rw [offsetOf_zero, Nat.zero_add] at this
      rw [offsetOf_succ, offsetOf_zero, Nat.add_zero, this]
      exact concat2_get_set_ge _ _ _ _ _ hj
    | k + 2, hk =>
      simp only [List.getElem?_cons_succ] at hk
      have := ih (v.concat2 y pos) j (k + 1) q x hv' hj (by simpa using hk) hq
      rw [offsetOf_succ, hext] at this
      rw [offsetOf_succ, offsetOf_succ, ← Nat.add_assoc]
      exact this

/-! ### B. by-name reordering (`reorderLikeFirst`) -/

theorem eraseDups_of_nodup {β : Type} [BEq β] [LawfulBEq β] : ∀ (l : List β), l.Nodup → l.eraseDups = l
  | [], _ => by simp
  | a :: l, h => by
    rw [List.nodup_cons] at h
    rw [List.eraseDups_cons]
    have : l.filter (fun b => !b == a) = l := by
      rw [List.filter_eq_self]
      intro b hb
      have : b ≠ a := fun e => h.1 (e ▸ hb)
      simpa using this
    rw [this, eraseDups_of_nodup l h.2]

def normOne (n : Nat) (i : Int) : Except Err Nat :=
    let j : Int := if i < 0 then i + (n : Int) else i
    if j < 0 || j ≥ (n : Int) then (.error .value : Except Err Nat)
    else .ok j.toNat

theorem mapM_normOne (n : Nat) : ∀ (l : List Nat), (∀ k ∈ l, k < n) →
    (l.map (fun (k : Nat) => (k : Int))).mapM (normOne n) = .ok l := by
  intro l
  induction l with
  | nil => intro _; rfl
  | cons k l ih =>
    intro hk
    rw [List.map_cons, List.mapM_cons, ih (fun k' hk' => hk k' (List.mem_cons_of_mem _ hk'))]
    have hkn : k < n := hk k List.mem_cons_self
    have h1 : ¬ ((k : Int) < 0) := by omega
    have h2 : ¬ ((k : Int) ≥ (n : Int)) := by omega
    simp [normOne, h1, h2, bind, Except.bind, pure, Except.pure]

theorem normPerm_ok (n : Nat) (l : List Nat) (hp : IsPerm l n) :
    normPerm n (l.map (fun (k : Nat) => (k : Int))) = .ok l := by
  unfold normPerm
  have hdef : ∀ (p : List Int), p.mapM (fun (i : Int) =>
    let j : Int := if i < 0 then i + (n : Int) else i
    if j < 0 || j ≥ (n : Int) then (.error .value : Except Err Nat)
    else .ok j.toNat) = p.mapM (normOne n) := fun _ => rfl
  rw [hdef, mapM_normOne n l hp.2.2]
  simp only [bind, Except.bind, pure, Except.pure, List.length_map, hp.1, bne_self_eq_false, Bool.false_eq_true,
    if_false, eraseDups_of_nodup l hp.2.1]

def posOfKey {α : Type} (a : DimArray α) (k : DimKey) : Except Err Int :=
  match k with
    | .name s =>
      let p := a.dims.idxOf s
      if p < a.dims.length then .ok (p : Int) else .error .value
    | .pos i => if i < -(a.ndim : Int) || i ≥ (a.ndim : Int) then .error .index else .ok i

theorem axesPositions_names_ok {α : Type} (a : DimArray α) : ∀ (names : List String), (∀ s ∈ names, s ∈ a.dims) →
    axesPositions a (names.map DimKey.name) = .ok (names.map (fun s => ((a.dims.idxOf s : Nat) : Int))) := by
  have hdef : ∀ ks, axesPositions a ks = ks.mapM (posOfKey a) := fun _ => rfl
  simp only [hdef]
  intro names
  induction names with
  | nil => intro _; rfl
  | cons s names ih =>
    intro h
    rw [List.map_cons, List.mapM_cons, ih (fun s' hs' => h s' (List.mem_cons_of_mem _ hs'))]
    have hs : a.dims.idxOf s < a.dims.length := List.idxOf_lt_length_of_mem (h s List.mem_cons_self)
    simp [posOfKey, hs, bind, Except.bind, pure, Except.pure]

/-- positions, in `a`, of the dimension names `names` -/
def namePerm {α : Type} (a : DimArray α) (names : List String) : List Nat := names.map (fun s => a.dims.idxOf s)

theorem namePerm_isPerm {α : Type} (a : DimArray α) (names : List String) (hp : names.Perm a.dims)
    (hn : a.dims.Nodup) : IsPerm (namePerm a names) a.axes.length := by
  have hnn : names.Nodup := hp.nodup_iff.mpr hn
  refine ⟨?_, ?_, ?_⟩
  · simp only [namePerm, List.length_map, hp.length_eq, DimArray.dims]
  · unfold namePerm
    rw [List.Nodup, List.pairwise_map]
    refine List.Pairwise.imp_of_mem ?_ hnn
    intro x y hx hy hxy heq
    have hx' : x ∈ a.dims := hp.mem_iff.mp hx
    have hy' : y ∈ a.dims := hp.mem_iff.mp hy
    have e1 := List.getElem_idxOf (List.idxOf_lt_length_of_mem hx')
    have e2 := List.getElem_idxOf (List.idxOf_lt_length_of_mem hy')
    apply hxy
    rw [← e1, ← e2]
    simp only [heq]
  · intro k hk
    obtain ⟨s, hs, rfl⟩ := List.mem_map.mp hk
    have := List.idxOf_lt_length_of_mem (hp.mem_iff.mp hs)
    simpa [DimArray.dims] using this

theorem transpose_names_ok {α : Type} (a : DimArray α) (names : List String) (hne : names ≠ [])
    (hp : names.Perm a.dims) (hn : a.dims.Nodup) :
    transpose a (some (names.map DimKey.name)) = .ok (transposeBy a (namePerm a names)) := by
  unfold transpose
  have he : (names.map DimKey.name).isEmpty = false := by
    cases names with
    | nil => exact absurd rfl hne
    | cons s t => rfl
  have hpi : names.map (fun s => ((a.dims.idxOf s : Nat) : Int)) = (namePerm a names).map (fun (k : Nat) => (k : Int)) := by
    simp [namePerm, List.map_map]
  simp only [he, bind, Except.bind, pure, Except.pure, Bool.and_false, Bool.false_eq_true, if_false,
    axesPositions_names_ok a names (fun s hs => hp.mem_iff.mp hs), hpi,
    normPerm_ok a.ndim _ (namePerm_isPerm a names hp hn)]

/-- the per-array step of `reorderLikeFirst` -/
def reorderStep {α : Type} (a0 a : DimArray α) : Except Err (DimArray α) :=
  if a.dims == a0.dims then pure a
  else match transpose a (some (a0.dims.map DimKey.name)) with
    | .ok r => pure r
    | .error _ => .error .value

theorem reorderLikeFirst_eq {α : Type} (a0 : DimArray α) (rest : List (DimArray α)) :
    reorderLikeFirst (a0 :: rest) = (a0 :: rest).mapM (reorderStep a0) := rfl

/-- SPEC of the by-name reordering: `a` with its dimensions listed in the order of `a0` -/
def reorderTo {α : Type} (a0 a : DimArray α) : DimArray α :=
  if a.dims = a0.dims then a else transposeBy a (namePerm a a0.dims)

theorem reorderStep_ok {α : Type} (a0 a : DimArray α) (hp : a.dims.Perm a0.dims) (hn : a.dims.Nodup) :
    reorderStep a0 a = .ok (reorderTo a0 a) := by
  unfold reorderStep reorderTo
  by_cases hd : a.dims = a0.dims
  · simp [hd, pure, Except.pure]
  · have hne : a0.dims ≠ [] := by
      intro h0
      apply hd
      rw [h0] at hp ⊢
      exact List.Perm.eq_nil hp
    have : (a.dims == a0.dims) = false := by simpa using hd
    simp only [this, Bool.false_eq_true, if_false, hd, transpose_names_ok a a0.dims hne hp.symm hn, pure, Except.pure]

theorem mapM_ok_of_forall {ε β γ : Type} (f : β → Except ε γ) (g : β → γ) : ∀ (l : List β),
    (∀ x ∈ l, f x = .ok (g x)) → l.mapM f = .ok (l.map g) := by
  intro l
  induction l with
  | nil => intro _; rfl
  | cons x l ih =>
    intro h
    rw [List.mapM_cons, h x List.mem_cons_self, ih (fun y hy => h y (List.mem_cons_of_mem _ hy))]
    rfl

theorem reorderTo_self {α : Type} (a0 : DimArray α) : reorderTo a0 a0 = a0 := by simp [reorderTo]

/-- inputs over the same set of dimension names are reordered by name, never refused -/
theorem reorderLikeFirst_ok {α : Type} (a0 : DimArray α) (rest : List (DimArray α))
    (hp : ∀ a ∈ rest, a.dims.Perm a0.dims) (hn : a0.dims.Nodup) :
    reorderLikeFirst (a0 :: rest) = .ok (a0 :: rest.map (reorderTo a0)) := by
  rw [reorderLikeFirst_eq, mapM_ok_of_forall (reorderStep a0) (reorderTo a0)]
  · rw [List.map_cons, reorderTo_self]
  · intro a ha
    rcases List.mem_cons.mp ha with rfl | ha
    · exact reorderStep_ok _ _ (List.Perm.refl _) hn
    · exact reorderStep_ok a0 a (hp a ha) ((hp a ha).nodup_iff.mpr hn)

theorem reorderTo_axes {α : Type} (a0 a : DimArray α) (hn : a.dims.Nodup) :
    (reorderTo a0 a).axes = a0.dims.map a.axisNamed := by
  unfold reorderTo
  by_cases hd : a.dims = a0.dims
  · simp only [hd, if_true]
    apply List.ext_getElem
    · have := congrArg List.length hd
      simpa [DimArray.dims] using this
    · intro k h1 h2
      have hk : k < a.dims.length := by simpa [DimArray.dims] using h1
      simp only [List.getElem_map, DimArray.axisNamed]
      have : a0.dims[k]'(by simpa using h2) = a.dims[k] := by simp only [hd]
      rw [this, idxOf_name_eq a.dims hn k hk]
      simp [List.getD_eq_getElem?_getD, h1]
  · simp only [hd, if_false, transposeBy, namePerm, List.map_map]
    rfl

theorem reorderTo_dims {α : Type} (a0 a : DimArray α) (hp : a.dims.Perm a0.dims) (hn : a.dims.Nodup) :
    (reorderTo a0 a).dims = a0.dims := by
  unfold DimArray.dims
  rw [reorderTo_axes a0 a hn, List.map_map]
  conv => rhs; rw [← DimArray.dims, ← List.map_id a0.dims]
  apply List.map_congr_left
  intro s hs
  have hs' : s ∈ a.axes.map (·.name) := hp.mem_iff.mpr hs
  exact (findName_some a.axes s hs').2.2

theorem reorderTo_at {α : Type} (a0 a : DimArray α) (hp : a.dims.Perm a0.dims) (hn : a.dims.Nodup)
    (hs : a.vals.shape.length = a.axes.length) (c : String → Nat) :
    (reorderTo a0 a).at c = a.at c := by
  unfold reorderTo
  by_cases hd : a.dims = a0.dims
  · simp only [hd, if_true]
  · simp only [hd, if_false]
    exact transposeBy_at a _ (namePerm_isPerm a a0.dims hp.symm hn) hs c

theorem reorderTo_shape {α : Type} (a0 a : DimArray α) (hp : a.dims.Perm a0.dims) (hn : a.dims.Nodup)
    (hs : a.vals.shape = a.axes.map (·.size)) :
    (reorderTo a0 a).vals.shape = (reorderTo a0 a).axes.map (·.size) := by
  unfold reorderTo
  by_cases hd : a.dims = a0.dims
  · simp only [hd, if_true, hs]
  · simp only [hd, if_false, transposeBy, NDArr.transpose, List.map_map]
    apply List.map_congr_left
    intro k hk
    have hk' := (namePerm_isPerm a a0.dims hp.symm hn).2.2 k hk
    simp [hs, List.getD_eq_getElem?_getD, hk']

theorem reorderTo_meta {α : Type} (a0 a : DimArray α) :
    (reorderTo a0 a).vkind = a.vkind ∧ (reorderTo a0 a).attrs = a.attrs := by
  unfold reorderTo
  split <;> exact ⟨rfl, rfl⟩

/-! ### C. unfolding `concatenate` (no alignment) once the inputs are reordered -/

/-- `axis` (a dimension name, or a non-negative position) designates position `pos` of the first input -/
def JoinAxis {α : Type} (a0 : DimArray α) : DimKey → Nat → Prop
  | .name s, pos => s ∈ a0.dims ∧ pos = a0.dims.idxOf s
  | .pos i, pos => i = (pos : Int) ∧ pos < a0.ndim

theorem JoinAxis.lt {α : Type} {a0 : DimArray α} {axis : DimKey} {pos : Nat} (h : JoinAxis a0 axis pos) :
    pos < a0.axes.length := by
  cases axis with
  | name s =>
    obtain ⟨h1, h2⟩ := h
    have := List.idxOf_lt_length_of_mem h1
    rw [h2]; simpa [DimArray.dims] using this
  | pos i => exact h.2

theorem take_eraseIdx_append {β : Type} (x : β) : ∀ (l : List β) (pos : Nat), pos < l.length →
    (l.eraseIdx pos).take pos ++ [x] ++ (l.eraseIdx pos).drop pos = l.set pos x
  | [], _, h => by simp at h
  | y :: l, 0, _ => by simp
  | y :: l, pos + 1, h => by
    have h' : pos < l.length := by simpa using h
    have := take_eraseIdx_append x l pos h'
    simp only [List.eraseIdx_cons_succ, List.take_succ_cons, List.drop_succ_cons, List.set_cons_succ,
      List.cons_append] at this ⊢
    rw [this]

/-- the result record of `concatenate` -/
def concatResult {α : Type} (a0 : DimArray α) (arrs : List (DimArray α)) (pos : Nat) (v : NDArr α) : DimArray α :=
  let newaxis : Axis :=
    { name := a0.dims.getD pos ""
      labels := arrs.flatMap (fun a => (a.axes.getD pos default).labels)
      kind := arrs.foldl (fun k a => (getCastKind k (a.axes.getD pos default).kind).1) (a0.axes.getD pos default).kind }
  { axes := a0.axes.set pos newaxis, vals := v, vkind := a0.vkind, attrs := [] }

/-- `concatenate(..., align=False)` once the axis is resolved and the inputs are listed in the order of the
first one: the NumPy shape check, the secondary-axes check, then the joined record -/
theorem concatenate_noalign_eq {α : Type} (nan : α) (a0 : DimArray α) (rest t : List (DimArray α)) (axis : DimKey)
    (pos : Nat) (sort : Bool) (hpos : JoinAxis a0 axis pos)
    (hre : reorderLikeFirst (a0 :: rest) = .ok (a0 :: t)) :
    concatenate nan (a0 :: rest) axis false sort =
      if (a0 :: t).any (fun a => a.vals.shape.eraseIdx pos != a0.vals.shape.eraseIdx pos || a.ndim != a0.ndim)
      then .error .value else
      if (a0 :: t).any (fun a => (a0.axes.eraseIdx pos).any fun ax =>
          match a.axes.find? (·.name == ax.name) with
          | some x => x.labels != ax.labels
          | none => true) then .error .value else
      .ok (concatResult a0 (a0 :: t) pos
        ((t.map (·.vals)).foldl (fun acc x => acc.concat2 x pos) a0.vals)) := by
  have hlt := hpos.lt
  unfold concatenate
  cases axis with
  | name s =>
    obtain ⟨h1, h2⟩ := hpos
    have hp : a0.dims.idxOf s < a0.dims.length := List.idxOf_lt_length_of_mem h1
    subst h2
    simp only [hp, if_true, bind, Except.bind, pure, Except.pure, Bool.false_eq_true, if_false, hre,
      List.headD_cons, Bool.not_false, Bool.true_and, concatVals, List.map_cons, List.map_id',
      take_eraseIdx_append _ _ _ hlt, concatResult]
    rfl
  | pos i =>
    obtain ⟨h1, h2⟩ := hpos
    subst h1
    have hp : ¬ ((pos : Int) < 0 || (pos : Int) ≥ (a0.ndim : Int)) = true := by
      simp only [Bool.or_eq_true, decide_eq_true_eq, not_or]
      omega
    have hneg : ¬ ((pos : Int) < 0) := by omega
    have hge : ¬ ((pos : Int) ≥ (a0.ndim : Int)) := by
      simp only [Bool.or_eq_true, decide_eq_true_eq, not_or] at hp; exact hp.2
    simp only [hneg, hge, decide_false, Bool.or_self, if_false, Int.toNat_natCast, bind, Except.bind, pure, Except.pure, Bool.false_eq_true, hre,
      List.headD_cons, Bool.not_false, Bool.true_and, concatVals, List.map_cons, List.map_id',
      take_eraseIdx_append _ _ _ hlt, concatResult]
    rfl

/-! ### D. the checks of `concatenate` pass on inputs that agree by name -/

/-- a (reordered) input of a join along `pos`: the dims of the first input, values of the shape the (plain) axes
announce, and the labels of the first input on every dimension but `pos` -/
structure Joinable {α : Type} (a0 : DimArray α) (pos : Nat) (a : DimArray α) : Prop where
  dims : a.dims = a0.dims
  shape : a.vals.shape = a.axes.map (·.labels.length)
  sec : ∀ k, k ≠ pos → k < a0.axes.length → (a.axes.getD k default).labels = (a0.axes.getD k default).labels

theorem Joinable.length {α : Type} {a0 a : DimArray α} {pos : Nat} (h : Joinable a0 pos a) :
    a.axes.length = a0.axes.length := by
  have := congrArg List.length h.dims
  simpa [DimArray.dims] using this

theorem eraseIdx_congr {β : Type} (l1 l2 : List β) (pos : Nat) (hl : l1.length = l2.length)
    (h : ∀ k, k ≠ pos → k < l1.length → l1[k]? = l2[k]?) : l1.eraseIdx pos = l2.eraseIdx pos := by
  apply List.ext_getElem?
  intro j
  rw [List.getElem?_eraseIdx, List.getElem?_eraseIdx]
  split
  · by_cases hj : j < l1.length
    · exact h j (by omega) hj
    · rw [List.getElem?_eq_none (by omega), List.getElem?_eq_none (by omega)]
  · by_cases hj : j + 1 < l1.length
    · exact h (j + 1) (by omega) hj
    · rw [List.getElem?_eq_none (by omega), List.getElem?_eq_none (by omega)]

theorem shapeCheck_false {α : Type} (a0 : DimArray α) (pos : Nat) (arrs : List (DimArray α))
    (h0 : Joinable a0 pos a0) (h : ∀ a ∈ arrs, Joinable a0 pos a) :
    arrs.any (fun a => a.vals.shape.eraseIdx pos != a0.vals.shape.eraseIdx pos || a.ndim != a0.ndim) = false := by
  rw [List.any_eq_false]
  intro a ha
  have hj := h a ha
  have hlen := hj.length
  have h1 : a.vals.shape.eraseIdx pos = a0.vals.shape.eraseIdx pos := by
    rw [hj.shape, h0.shape]
    apply eraseIdx_congr
    · simp [hlen]
    · intro k hk hkl
      have hk0 : k < a0.axes.length := by simpa [hlen] using hkl
      have := hj.sec k hk hk0
      simp only [List.getD_eq_getElem?_getD] at this
      rw [List.getElem?_map, List.getElem?_map]
      have e1 : a.axes[k]? = some a.axes[k] := List.getElem?_eq_getElem (by omega)
      have e2 : a0.axes[k]? = some a0.axes[k] := List.getElem?_eq_getElem hk0
      rw [e1, e2] at this ⊢
      simp only [Option.getD_some] at this
      simp [this]
  simp [h1, DimArray.ndim, hlen]

theorem labelCheck_false {α : Type} (a0 : DimArray α) (pos : Nat) (arrs : List (DimArray α))
    (hn : a0.dims.Nodup) (h : ∀ a ∈ arrs, Joinable a0 pos a) :
    arrs.any (fun a => (a0.axes.eraseIdx pos).any fun ax =>
          match a.axes.find? (·.name == ax.name) with
          | some x => x.labels != ax.labels
          | none => true) = false := by
  rw [List.any_eq_false]
  intro a ha
  have hj := h a ha
  have hlen := hj.length
  rw [Bool.not_eq_true, List.any_eq_false]
  intro ax hax
  obtain ⟨k, hk, hkp, rfl⟩ := List.mem_eraseIdx_iff_getElem.mp hax
  have hka : k < a.axes.length := by omega
  have hname : a0.axes[k].name = a.dims[k]'(by simpa [DimArray.dims] using hka) := by
    simp only [hj.dims]
    simp [DimArray.dims]
  have hmem : a0.axes[k].name ∈ a.axes.map (·.name) := by
    rw [hname]; exact List.getElem_mem _
  obtain ⟨_, hf, _⟩ := findName_some a.axes _ hmem
  have hidx : (a.axes.map (·.name)).idxOf a0.axes[k].name = k := by
    rw [hname]
    exact idxOf_name_eq a.dims (hj.dims ▸ hn) k (by simpa [DimArray.dims] using hka)
  rw [hidx] at hf
  rw [hf]
  have := hj.sec k hkp hk
  simp only [List.getD_eq_getElem?_getD, List.getElem?_eq_getElem hk, Option.getD_some] at this
  simp [this]

theorem concatenate_ok_of_joinable {α : Type} (nan : α) (a0 : DimArray α) (rest t : List (DimArray α))
    (axis : DimKey) (pos : Nat) (sort : Bool) (hpos : JoinAxis a0 axis pos)
    (hre : reorderLikeFirst (a0 :: rest) = .ok (a0 :: t)) (hn : a0.dims.Nodup)
    (h : ∀ a ∈ a0 :: t, Joinable a0 pos a) :
    concatenate nan (a0 :: rest) axis false sort = .ok (concatResult a0 (a0 :: t) pos
        ((t.map (·.vals)).foldl (fun acc x => acc.concat2 x pos) a0.vals)) := by
  rw [concatenate_noalign_eq nan a0 rest t axis pos sort hpos hre,
    shapeCheck_false a0 pos (a0 :: t) (h a0 List.mem_cons_self) h, labelCheck_false a0 pos (a0 :: t) hn h]
  rfl

/-! ### E. the joined record -/

theorem concatResult_dims {α : Type} (a0 : DimArray α) (arrs : List (DimArray α)) (pos : Nat) (v : NDArr α)
    (hpos : pos < a0.axes.length) : (concatResult a0 arrs pos v).dims = a0.dims := by
  have hp : pos < a0.dims.length := by simpa [DimArray.dims] using hpos
  simp only [concatResult, DimArray.dims, List.map_set]
  have : (a0.axes.map (·.name)).getD pos "" = (a0.axes.map (·.name))[pos]'(by simpa using hpos) := by
    simp [List.getD_eq_getElem?_getD, hpos]
  rw [this, List.set_getElem_self]

theorem concatResult_axis_pos {α : Type} (a0 : DimArray α) (arrs : List (DimArray α)) (pos : Nat) (v : NDArr α)
    (hpos : pos < a0.axes.length) :
    ((concatResult a0 arrs pos v).axes.getD pos default).labels =
      arrs.flatMap (fun a => (a.axes.getD pos default).labels) := by
  simp only [concatResult]
  rw [getD_set_self _ _ _ _ hpos]

theorem concatResult_axis_other {α : Type} (a0 : DimArray α) (arrs : List (DimArray α)) (pos : Nat) (v : NDArr α)
    (k : Nat) (hk : k ≠ pos) :
    (concatResult a0 arrs pos v).axes.getD k default = a0.axes.getD k default := by
  simp only [concatResult, List.getD_eq_getElem?_getD, List.getElem?_set]
  rw [if_neg (fun e => hk e.symm)]

theorem Joinable.extent {α : Type} {a0 a : DimArray α} {pos : Nat} (h : Joinable a0 pos a) :
    extent pos a.vals = (a.axes.getD pos default).labels.length := by
  simp only [C12J.extent, h.shape, List.getD_eq_getElem?_getD, List.getElem?_map]
  cases a.axes[pos]? with
  | none => rfl
  | some x => rfl

theorem sum_extent_eq {α : Type} (a0 : DimArray α) (pos : Nat) : ∀ (l : List (DimArray α)),
    (∀ a ∈ l, Joinable a0 pos a) →
    ((l.map (·.vals)).map (extent pos)).sum = (l.map (fun a => (a.axes.getD pos default).labels.length)).sum := by
  intro l
  induction l with
  | nil => intro _; rfl
  | cons x l ih =>
    intro h
    simp only [List.map_cons, List.sum_cons]
    rw [ih (fun a ha => h a (List.mem_cons_of_mem _ ha)), (h x List.mem_cons_self).extent]

theorem concatResult_shape {α : Type} (a0 : DimArray α) (t : List (DimArray α)) (pos : Nat)
    (hpos : pos < a0.axes.length) (h : ∀ a ∈ a0 :: t, Joinable a0 pos a) :
    let r := concatResult a0 (a0 :: t) pos ((t.map (·.vals)).foldl (fun acc x => acc.concat2 x pos) a0.vals)
    r.vals.shape = r.axes.map (·.labels.length) := by
  intro r
  have h0 := h a0 List.mem_cons_self
  have hs : pos < a0.vals.shape.length := by rw [h0.shape]; simpa using hpos
  simp only [r, concatResult, foldl_concat2_shape pos _ _ hs, List.map_set, List.length_flatMap]
  have e : a0.vals :: t.map (·.vals) = (a0 :: t).map (·.vals) := rfl
  rw [e, sum_extent_eq a0 pos (a0 :: t) h, h0.shape]

theorem map_update_eq_set {l : List String} (hn : l.Nodup) (pos : Nat) (d : String) (hd : l[pos]? = some d)
    (c : String → Nat) (v : Nat) :
    l.map (fun s => if s = d then v else c s) = (l.map c).set pos v := by
  obtain ⟨hpos, hd'⟩ := List.getElem?_eq_some_iff.mp hd
  apply List.ext_getElem
  · simp
  · intro i h1 h2
    have hi : i < l.length := by simpa using h1
    rw [List.getElem_set, List.getElem_map, List.getElem_map]
    by_cases hip : pos = i
    · subst hip; simp [hd']
    · have hne : ¬ (l[i] = d) := fun heq => hip ((List.getElem_inj hn).mp (hd'.trans heq.symm))
      simp only [hip, hne, if_false]

theorem offsetOf_eq {α : Type} (a0 : DimArray α) (pos : Nat) (l : List (DimArray α)) (k : Nat)
    (h : ∀ a ∈ l, Joinable a0 pos a) :
    offsetOf pos (l.map (·.vals)) k = ((l.take k).map (fun a => (a.axes.getD pos default).labels.length)).sum := by
  unfold offsetOf
  rw [← List.map_take]
  exact sum_extent_eq a0 pos (l.take k) (fun a ha => h a (List.mem_of_mem_take ha))

/-- the value equation: in the joined record, the block of input `k` (starting at the sum of the extents of the
inputs before it) holds input `k`'s elements, addressed by dimension name -/
theorem concatResult_at {α : Type} (a0 : DimArray α) (t : List (DimArray α)) (pos : Nat) (d : String)
    (hn : a0.dims.Nodup) (hd : a0.dims[pos]? = some d) (h : ∀ a ∈ a0 :: t, Joinable a0 pos a)
    (k : Nat) (x : DimArray α) (hx : (a0 :: t)[k]? = some x) (c : String → Nat)
    (hq : c d < (x.axes.getD pos default).labels.length) :
    (concatResult a0 (a0 :: t) pos ((t.map (·.vals)).foldl (fun acc x => acc.concat2 x pos) a0.vals)).at
        (fun s => if s = d then
          (((a0 :: t).take k).map (fun a => (a.axes.getD pos default).labels.length)).sum + c d else c s) =
      x.at c := by
  obtain ⟨hposd, hd'⟩ := List.getElem?_eq_some_iff.mp hd
  have hpos : pos < a0.axes.length := by simpa [DimArray.dims] using hposd
  have h0 := h a0 List.mem_cons_self
  have hxj := h x (List.mem_of_getElem? hx)
  have hs : pos < a0.vals.shape.length := by rw [h0.shape]; simpa using hpos
  unfold DimArray.at
  rw [concatResult_dims _ _ _ _ hpos, map_update_eq_set hn pos d hd c, ← offsetOf_eq a0 pos (a0 :: t) k h]
  simp only [concatResult, List.map_cons]
  have hxv : (a0.vals :: t.map (·.vals))[k]? = some x.vals := by
    have e : a0.vals :: t.map (·.vals) = (a0 :: t).map (·.vals) := rfl
    rw [e, List.getElem?_map, hx]; rfl
  rw [foldl_concat2_get pos (t.map (·.vals)) a0.vals (a0.dims.map c) k (c d) x.vals hs (by simpa using hposd) hxv
    (by rw [hxj.extent]; exact hq)]
  rw [hxj.dims]
  congr 1
  have : c d = (a0.dims.map c)[pos]'(by simpa using hposd) := by simp [hd']
  rw [this, List.set_getElem_self]

/-! ### F. from the hypotheses on the inputs (by name) to `Joinable` (by position, after reordering) -/

theorem joinAxis_of_designates {α : Type} (a0 : DimArray α) (axis : DimKey) (pos : Nat) (d : String)
    (hn : a0.dims.Nodup) (h : DesignatesAxis a0 axis pos d) : JoinAxis a0 axis pos := by
  obtain ⟨hd, hax⟩ := h
  obtain ⟨hpos, hd'⟩ := List.getElem?_eq_some_iff.mp hd
  rcases hax with rfl | rfl
  · refine ⟨hd' ▸ List.getElem_mem _, ?_⟩
    rw [← hd', idxOf_name_eq a0.dims hn pos hpos]
  · exact ⟨rfl, by simpa [DimArray.dims, DimArray.ndim] using hpos⟩

theorem joinInput_shape {α : Type} (a : DimArray α) (h : JoinInput a) :
    a.vals.shape = a.axes.map (·.labels.length) := by
  rw [h.1.1]
  apply List.map_congr_left
  intro ax hax
  simp [Axis.size, h.2 ax hax]

theorem axisNamed_getElem {α : Type} (a : DimArray α) (hn : a.dims.Nodup) (k : Nat) (hk : k < a.dims.length) :
    a.axisNamed a.dims[k] = a.axes.getD k default := by
  simp only [DimArray.axisNamed, idxOf_name_eq a.dims hn k hk]

theorem axisNamed_mem {α : Type} (a : DimArray α) (s : String) (hs : s ∈ a.dims) :
    a.axisNamed s ∈ a.axes ∧ (a.axisNamed s).name = s := by
  obtain ⟨h1, _, h3⟩ := findName_some a.axes s hs
  refine ⟨?_, h3⟩
  simp only [DimArray.axisNamed, DimArray.dims, List.getD_eq_getElem?_getD, List.getElem?_eq_getElem h1,
    Option.getD_some]
  exact List.getElem_mem _

theorem reorderTo_getD {α : Type} (a0 a : DimArray α) (hn : a.dims.Nodup) (k : Nat) (hk : k < a0.dims.length) :
    (reorderTo a0 a).axes.getD k default = a.axisNamed a0.dims[k] := by
  rw [reorderTo_axes a0 a hn]
  simp [List.getD_eq_getElem?_getD, hk]

theorem joinable_self {α : Type} (a0 : DimArray α) (pos : Nat) (h : JoinInput a0) : Joinable a0 pos a0 :=
  ⟨rfl, joinInput_shape a0 h, fun _ _ _ => rfl⟩

/-- what the reordering lemmas need of an array: values of the shape the axes announce, distinct dimension names,
plain axes -/
structure Plain {α : Type} (a : DimArray α) : Prop where
  shape : a.vals.shape = a.axes.map (·.size)
  nodup : a.dims.Nodup
  plain : ∀ ax ∈ a.axes, ax.members = []

theorem plain_of_joinInput {α : Type} (a : DimArray α) (h : JoinInput a) : Plain a := ⟨h.1.1, h.1.2.1, h.2⟩

theorem reorderTo_plain {α : Type} (a0 a : DimArray α) (h : Plain a) (hp : a.dims.Perm a0.dims) :
    ∀ ax ∈ (reorderTo a0 a).axes, ax.members = [] := by
  intro ax hax
  rw [reorderTo_axes a0 a h.nodup] at hax
  obtain ⟨s, hs, rfl⟩ := List.mem_map.mp hax
  exact h.plain _ (axisNamed_mem a s (hp.mem_iff.mpr hs)).1

theorem joinable_reorderTo' {α : Type} (a0 a : DimArray α) (pos : Nat)
    (h0 : Plain a0) (h : Plain a) (hp : a.dims.Perm a0.dims)
    (hsec : ∀ k (hk : k < a0.dims.length), k ≠ pos →
      (a.axisNamed a0.dims[k]).labels = (a0.axisNamed a0.dims[k]).labels) :
    Joinable a0 pos (reorderTo a0 a) := by
  have hn0 : a0.dims.Nodup := h0.nodup
  have hn : a.dims.Nodup := h.nodup
  refine ⟨reorderTo_dims a0 a hp hn, ?_, ?_⟩
  · rw [reorderTo_shape a0 a hp hn h.shape]
    apply List.map_congr_left
    intro ax hax
    simp [Axis.size, reorderTo_plain a0 a h hp ax hax]
  · intro k hk hkl
    have hkd : k < a0.dims.length := by simpa [DimArray.dims] using hkl
    rw [reorderTo_getD a0 a hn k hkd, ← axisNamed_getElem a0 hn0 k hkd]
    exact hsec k hkd hk

theorem joinable_reorderTo {α : Type} (a0 a : DimArray α) (pos : Nat) (d : String)
    (h0 : JoinInput a0) (h : JoinInput a) (hp : a.dims.Perm a0.dims) (hd : a0.dims[pos]? = some d)
    (hsec : ∀ s ∈ a0.dims, s ≠ d → (a.axisNamed s).labels = (a0.axisNamed s).labels) :
    Joinable a0 pos (reorderTo a0 a) := by
  obtain ⟨hpos, hd'⟩ := List.getElem?_eq_some_iff.mp hd
  apply joinable_reorderTo' a0 a pos (plain_of_joinInput a0 h0) (plain_of_joinInput a h) hp
  intro k hk hkp
  apply hsec _ (List.getElem_mem _)
  intro he
  exact hkp ((List.getElem_inj h0.1.2.1).mp (he.trans hd'.symm))

theorem joinable_all {α : Type} (a0 : DimArray α) (rest : List (DimArray α)) (pos : Nat) (d : String)
    (hin : ∀ a ∈ a0 :: rest, JoinInput a) (hperm : ∀ a ∈ rest, a.dims.Perm a0.dims)
    (hd : a0.dims[pos]? = some d)
    (hsec : ∀ a ∈ rest, ∀ s ∈ a0.dims, s ≠ d → (a.axisNamed s).labels = (a0.axisNamed s).labels) :
    ∀ x ∈ a0 :: rest.map (reorderTo a0), Joinable a0 pos x := by
  intro x hx
  rcases List.mem_cons.mp hx with rfl | hx
  · exact joinable_self _ pos (hin _ List.mem_cons_self)
  · obtain ⟨a, ha, rfl⟩ := List.mem_map.mp hx
    exact joinable_reorderTo a0 a pos d (hin _ List.mem_cons_self) (hin a (List.mem_cons_of_mem _ ha))
      (hperm a ha) hd (hsec a ha)

theorem reorderTo_axisNamed_pos {α : Type} (a0 a : DimArray α) (pos : Nat) (d : String) (hn : a.dims.Nodup)
    (hd : a0.dims[pos]? = some d) : (reorderTo a0 a).axes.getD pos default = a.axisNamed d := by
  obtain ⟨hpos, hd'⟩ := List.getElem?_eq_some_iff.mp hd
  rw [reorderTo_getD a0 a hn pos hpos, hd']

theorem concatResult_joinInput {α : Type} (a0 : DimArray α) (t : List (DimArray α)) (pos : Nat)
    (hpos : pos < a0.axes.length) (h0 : JoinInput a0) (h : ∀ a ∈ a0 :: t, Joinable a0 pos a) :
    JoinInput (concatResult a0 (a0 :: t) pos ((t.map (·.vals)).foldl (fun acc x => acc.concat2 x pos) a0.vals)) := by
  have hplain : ∀ ax ∈ (concatResult a0 (a0 :: t) pos
      ((t.map (·.vals)).foldl (fun acc x => acc.concat2 x pos) a0.vals)).axes, ax.members = [] := by
    intro ax hax
    simp only [concatResult] at hax
    rcases List.mem_or_eq_of_mem_set hax with hax | rfl
    · exact h0.2 ax hax
    · rfl
  refine ⟨⟨?_, ?_, ?_⟩, hplain⟩
  · rw [concatResult_shape a0 t pos hpos h]
    apply List.map_congr_left
    intro ax hax
    simp [Axis.size, hplain ax hax]
  · have := concatResult_dims a0 (a0 :: t) pos
      ((t.map (·.vals)).foldl (fun acc x => acc.concat2 x pos) a0.vals) hpos
    simp only [DimArray.dims] at this
    rw [this]
    exact h0.1.2.1
  · intro ax hax
    simp only [concatResult] at hax
    rcases List.mem_or_eq_of_mem_set hax with hax | rfl
    · exact h0.1.2.2 ax hax
    · simp only
      have hp : pos < a0.dims.length := by simpa [DimArray.dims] using hpos
      have : a0.dims.getD pos "" = a0.axes[pos].name := by
        simp [DimArray.dims, List.getD_eq_getElem?_getD, hpos]
      rw [this]
      exact h0.1.2.2 _ (List.getElem_mem _)

/-! ### G. the refusal side -/

/-- in an array listing the dimensions of `a0`, the axis found under the name of `a0`'s axis `k` is its axis `k` -/
theorem find_by_pos {α : Type} (a0 a : DimArray α) (hn : a0.dims.Nodup) (hd : a.dims = a0.dims) (k : Nat)
    (hk : k < a0.axes.length) :
    a.axes.find? (·.name == a0.axes[k].name) = some (a.axes.getD k default) := by
  have hlen : a.axes.length = a0.axes.length := by
    have := congrArg List.length hd
    simpa [DimArray.dims] using this
  have hka : k < a.axes.length := by omega
  have hname : a0.axes[k].name = a.dims[k]'(by simpa [DimArray.dims] using hka) := by
    simp only [hd]
    simp [DimArray.dims]
  have hmem : a0.axes[k].name ∈ a.axes.map (·.name) := by
    rw [hname]; exact List.getElem_mem _
  obtain ⟨_, hf, _⟩ := findName_some a.axes _ hmem
  have hidx : (a.axes.map (·.name)).idxOf a0.axes[k].name = k := by
    rw [hname]
    exact idxOf_name_eq a.dims (hd ▸ hn) k (by simpa [DimArray.dims] using hka)
  rw [hidx] at hf
  exact hf

theorem labelCheck_true {α : Type} (a0 : DimArray α) (pos : Nat) (arrs : List (DimArray α))
    (hn : a0.dims.Nodup) (x : DimArray α) (hx : x ∈ arrs) (hd : x.dims = a0.dims) (k : Nat)
    (hk : k < a0.axes.length) (hkp : k ≠ pos)
    (hne : (x.axes.getD k default).labels ≠ (a0.axes.getD k default).labels) :
    arrs.any (fun a => (a0.axes.eraseIdx pos).any fun ax =>
          match a.axes.find? (·.name == ax.name) with
          | some x => x.labels != ax.labels
          | none => true) = true := by
  rw [List.any_eq_true]
  refine ⟨x, hx, ?_⟩
  rw [List.any_eq_true]
  refine ⟨a0.axes[k], List.mem_eraseIdx_iff_getElem.mpr ⟨k, hk, hkp, rfl⟩, ?_⟩
  rw [find_by_pos a0 x hn hd k hk]
  simp only [List.getD_eq_getElem?_getD, List.getElem?_eq_getElem hk, Option.getD_some] at hne
  simpa using hne

/-! ### H. `stack` once the inputs are aligned and reordered -/

theorem getDims_same (axs0 : List Axis) (rest : List (List Axis)) (hn : (axs0.map (·.name)).Nodup)
    (h : ∀ axs ∈ rest, ∀ ax ∈ axs, ax.name ∈ axs0.map (·.name)) :
    getDims (axs0 :: rest) = axs0.map (·.name) := by
  unfold getDims
  rw [List.foldl_cons, getDims_fold_fresh axs0 [] (by simpa using hn), List.nil_append]
  induction rest with
  | nil => rfl
  | cons x xs ih =>
    rw [List.foldl_cons, getDims_fold_known x _ (h x List.mem_cons_self)]
    exact ih (fun axs ha => h axs (List.mem_cons_of_mem _ ha))

/-- the accumulation step of `_get_axes` -/
def gaStep (acc : Except Err (Option Axis)) (ax : Axis) : Except Err (Option Axis) := do
  let c ← acc
  let common := match c with
    | none => ax
    | some c => if c.size == 1 && ax.size != 1 then ax else c
  if !(ax.size == 1 || ax.labels == common.labels) then .error .value else pure (some common)

theorem getAxesAligned_eq (arrays : List (List Axis)) :
    getAxesAligned arrays = (getDims arrays).mapM fun d =>
      match (arrays.filterMap (fun axes => axes.find? (·.name == d))).foldl gaStep (.ok none) with
      | .ok (some c) => .ok c
      | .ok none => .error .other
      | .error e => .error e := rfl

theorem gaStep_fold_same (A : Axis) : ∀ (L : List Axis),
    (∀ ax ∈ L, ax.labels = A.labels ∧ ax.size = A.size) → L.foldl gaStep (.ok (some A)) = .ok (some A) := by
  intro L
  induction L with
  | nil => intro _; rfl
  | cons x xs ih =>
    intro h
    obtain ⟨hl, hs⟩ := h x List.mem_cons_self
    rw [List.foldl_cons]
    have : gaStep (.ok (some A)) x = .ok (some A) := by
      simp only [gaStep, bind, Except.bind, hs, hl, pure, Except.pure]
      by_cases h1 : A.size = 1
      · simp [h1]
      · simp [h1]
    rw [this]
    exact ih (fun ax ha => h ax (List.mem_cons_of_mem _ ha))

theorem gaStep_first (A : Axis) : gaStep (.ok none) A = .ok (some A) := by
  simp [gaStep, bind, Except.bind, pure, Except.pure]

theorem filterMap_eq_map_of {β γ : Type} (f : β → Option γ) (g : β → γ) : ∀ (l : List β),
    (∀ x ∈ l, f x = some (g x)) → l.filterMap f = l.map g := by
  intro l
  induction l with
  | nil => intro _; rfl
  | cons x xs ih =>
    intro h
    rw [List.filterMap_cons, h x List.mem_cons_self, List.map_cons,
      ih (fun y hy => h y (List.mem_cons_of_mem _ hy))]

theorem map_axisNamed_self {α : Type} (a : DimArray α) (hn : a.dims.Nodup) : a.dims.map a.axisNamed = a.axes := by
  have := reorderTo_axes a a hn
  rw [reorderTo_self] at this
  exact this.symm

/-- an input of `stack` after alignment and reordering: the dims of the first input, values of the shape the plain
axes announce, and the labels of the first input on every dimension -/
structure Stackable {α : Type} (a0 a : DimArray α) : Prop where
  join : Joinable a0 a0.axes.length a
  plain : ∀ ax ∈ a.axes, ax.members = []

theorem Stackable.labels {α : Type} {a0 a : DimArray α} (h : Stackable a0 a) (k : Nat) (hk : k < a0.axes.length) :
    (a.axes.getD k default).labels = (a0.axes.getD k default).labels := h.join.sec k (by omega) hk

theorem Stackable.size {α : Type} {a0 a : DimArray α} (h0 : Stackable a0 a0) (h : Stackable a0 a) (k : Nat)
    (hk : k < a0.axes.length) : (a.axes.getD k default).size = (a0.axes.getD k default).size := by
  have hka : k < a.axes.length := by rw [h.join.length]; exact hk
  have e1 : a.axes.getD k default = a.axes[k] := by simp [List.getD_eq_getElem?_getD, hka]
  have e2 : a0.axes.getD k default = a0.axes[k] := by simp [List.getD_eq_getElem?_getD, hk]
  have := h.labels k hk
  rw [e1, e2] at this ⊢
  simp [Axis.size, h.plain _ (List.getElem_mem hka), h0.plain _ (List.getElem_mem hk), this]

theorem getAxesAligned_stackable {α : Type} (a0 : DimArray α) (t : List (DimArray α)) (hn : a0.dims.Nodup)
    (h : ∀ a ∈ a0 :: t, Stackable a0 a) :
    getAxesAligned ((a0 :: t).map (·.axes)) = .ok a0.axes := by
  have h0 := h a0 List.mem_cons_self
  rw [getAxesAligned_eq, List.map_cons, getDims_same a0.axes (t.map (·.axes)) hn]
  · conv => rhs; rw [← map_axisNamed_self a0 hn]
    apply mapM_ok_of_forall
    intro d hd
    have hk : a0.dims.idxOf d < a0.dims.length := List.idxOf_lt_length_of_mem hd
    have hka : a0.dims.idxOf d < a0.axes.length := by simpa [DimArray.dims] using hk
    have hkd : a0.axes[a0.dims.idxOf d].name = d := by
      have := List.getElem_idxOf hk
      simp only [DimArray.dims, List.getElem_map] at this
      exact this
    have hhav : (a0.axes :: t.map (·.axes)).filterMap (fun axes => axes.find? (·.name == d)) =
        (a0 :: t).map (fun a => a.axes.getD (a0.dims.idxOf d) default) := by
      have e : a0.axes :: t.map (·.axes) = (a0 :: t).map (·.axes) := rfl
      rw [e, List.filterMap_map]
      apply filterMap_eq_map_of
      intro a ha
      have := find_by_pos a0 a hn (h a ha).join.dims _ hka
      rw [hkd] at this
      exact this
    rw [hhav, List.map_cons, List.foldl_cons, gaStep_first, gaStep_fold_same]
    · rfl
    · intro ax hax
      obtain ⟨a, ha, rfl⟩ := List.mem_map.mp hax
      have ha' : a ∈ a0 :: t := List.mem_cons_of_mem _ ha
      exact ⟨(h a ha').labels _ hka, Stackable.size h0 (h a ha') _ hka⟩
  · intro axs haxs ax hax
    obtain ⟨a, ha, rfl⟩ := List.mem_map.mp haxs
    have := (h a (List.mem_cons_of_mem _ ha)).join.dims
    simp only [DimArray.dims] at this
    rw [← this]
    exact List.mem_map.mpr ⟨ax, hax, rfl⟩

theorem Stackable.shape_eq {α : Type} {a0 a : DimArray α} (h0 : Stackable a0 a0) (h : Stackable a0 a) :
    a.vals.shape = a0.vals.shape := by
  rw [h.join.shape, h0.join.shape]
  apply List.ext_getElem
  · simp [h.join.length]
  · intro k h1 h2
    have hk : k < a0.axes.length := by simpa using h2
    have hka : k < a.axes.length := by simpa using h1
    have := h.labels k hk
    simp only [List.getD_eq_getElem?_getD, List.getElem?_eq_getElem hk, List.getElem?_eq_getElem hka,
      Option.getD_some] at this
    simp [this]

/-- the result record of `stack` -/
def stackResult {α : Type} [Inhabited α] (name : String) (keys : List Label) (kk : Kind) (a0 : DimArray α)
    (arrs : List (DimArray α)) : DimArray α :=
  { axes := { name := name, labels := keys, kind := kk } :: a0.axes
    vals := NDArr.stackNew (arrs.map (·.vals)), vkind := a0.vkind, attrs := [] }

/-- `stack` once its name check passed, the (optional) alignment returned `arrs0`, and these reorder into inputs
that agree with the first one on every dimension -/
theorem stack_eq_of_stackable {α : Type} [Inhabited α] (nan : α) (arrays arrs0 : List (DimArray α))
    (axis : Option String) (keys : List Label) (kk : Kind) (doAlign sort : Bool) (name : String)
    (a0 : DimArray α) (t : List (DimArray α))
    (hname : checkStackAxis axis (getDims (arrays.map (·.axes))) = .ok name)
    (halign : (if doAlign then align nan arrays .outer none sort true else pure arrays) = .ok arrs0)
    (hre : reorderLikeFirst arrs0 = .ok (a0 :: t))
    (hn : a0.dims.Nodup) (h : ∀ a ∈ a0 :: t, Stackable a0 a) (hkeys : keys.length = (a0 :: t).length) :
    stack nan arrays axis keys kk doAlign sort = .ok (stackResult name keys kk a0 (a0 :: t)) := by
  have h0 := h a0 List.mem_cons_self
  have hshape : (a0 :: t).any (fun a => a.vals.shape != a0.vals.shape) = false := by
    rw [List.any_eq_false]
    intro a ha
    simp [Stackable.shape_eq h0 (h a ha)]
  have hlab : (a0 :: t).any (fun a => a.axes.any fun ax =>
      match a0.axes.find? (·.name == ax.name) with
      | some c => c.labels != ax.labels
      | none => true) = false := by
    rw [List.any_eq_false]
    intro a ha
    rw [Bool.not_eq_true, List.any_eq_false]
    intro ax hax
    obtain ⟨k, hk, rfl⟩ := List.getElem_of_mem hax
    have hk0 : k < a0.axes.length := by rw [← (h a ha).join.length]; exact hk
    have hnm : a.axes[k].name = a0.axes[k].name := by
      have := congrArg (fun l => l[k]?) (h a ha).join.dims
      simpa [DimArray.dims, hk, hk0] using this
    rw [hnm, findName_unique a0.axes hn a0.axes[k] (List.getElem_mem hk0)]
    have := (h a ha).labels k hk0
    simp only [List.getD_eq_getElem?_getD, List.getElem?_eq_getElem hk, List.getElem?_eq_getElem hk0,
      Option.getD_some] at this
    simp [this]
  unfold stack
  cases doAlign
  · simp only [Bool.false_eq_true, if_false, pure, Except.pure, Except.ok.injEq] at halign
    subst halign
    simp only [hname, bind, Except.bind, hre, List.head?_cons, Option.map_some, Option.getD_some, hshape,
      Bool.false_eq_true, if_false, getAxesAligned_stackable a0 t hn h, hkeys, bne_self_eq_false,
      List.map_id', pure, Except.pure, stackResult]
    exact if_neg (by rw [Bool.not_eq_true]; exact hlab)
  · simp only [if_true] at halign
    simp only [hname, bind, Except.bind, halign, hre, List.head?_cons, Option.map_some, Option.getD_some, hshape,
      Bool.false_eq_true, if_false, if_true, getAxesAligned_stackable a0 t hn h, hkeys, bne_self_eq_false,
      List.map_id', pure, Except.pure, stackResult]
    exact if_neg (by rw [Bool.not_eq_true]; exact hlab)

/-! ### I. `stack(..., align=True)`: the strict outer alignment, then the reordering -/

theorem mapM_congr {ε β γ : Type} (f g : β → Except ε γ) : ∀ (l : List β), (∀ x ∈ l, f x = g x) →
    l.mapM f = l.mapM g := by
  intro l
  induction l with
  | nil => intro _; rfl
  | cons x xs ih =>
    intro h
    rw [List.mapM_cons, List.mapM_cons, h x List.mem_cons_self, ih (fun y hy => h y (List.mem_cons_of_mem _ hy))]

/-- `strict=True` changes nothing when every array has every dimension that is aligned -/
theorem getAlignedAxes_strict (arrays : List (List Axis)) (join : Join) (axis : Option String) (sort : Bool)
    (h : ∀ d ∈ alignedDims arrays axis, ∀ axes ∈ arrays, d ∈ axes.map (·.name)) :
    getAlignedAxes arrays join axis sort true = getAlignedAxes arrays join axis sort false := by
  unfold getAlignedAxes
  apply mapM_congr
  intro d hd
  have hd' : d ∈ alignedDims arrays axis := by
    cases axis <;> exact hd
  have hlen : (arrays.filterMap (fun axes => axes.find? (·.name == d))).length = arrays.length := by
    rw [filterMap_eq_map_of _ (fun axes => axes.getD ((axes.map (·.name)).idxOf d) default) arrays
      (fun axes ha => (findName_some axes d (h d hd' axes ha)).2.1)]
    simp
  simp [hlen]

theorem align_strict {α : Type} (nan : α) (arrays : List (DimArray α)) (join : Join) (axis : Option String)
    (sort : Bool) (h : ∀ d ∈ alignedDims (arrays.map (·.axes)) axis, ∀ a ∈ arrays, d ∈ a.dims) :
    align nan arrays join axis sort true = align nan arrays join axis sort false := by
  rw [align_eq, align_eq, getAlignedAxes_strict]
  intro d hd axes haxes
  obtain ⟨a, ha, rfl⟩ := List.mem_map.mp haxes
  exact h d hd a ha

theorem plain_shape {α : Type} (a : DimArray α) (h : Plain a) : a.vals.shape = a.axes.map (·.labels.length) := by
  rw [h.shape]
  apply List.map_congr_left
  intro ax hax
  simp [Axis.size, h.plain ax hax]

theorem stackable_self {α : Type} (a0 : DimArray α) (h : Plain a0) : Stackable a0 a0 :=
  ⟨⟨rfl, plain_shape a0 h, fun _ _ _ => rfl⟩, h.plain⟩

theorem stackable_reorderTo {α : Type} (a0 a : DimArray α) (h0 : Plain a0) (h : Plain a) (hp : a.dims.Perm a0.dims)
    (hlab : ∀ s ∈ a0.dims, (a.axisNamed s).labels = (a0.axisNamed s).labels) : Stackable a0 (reorderTo a0 a) :=
  ⟨joinable_reorderTo' a0 a _ h0 h hp (fun _ _ _ => hlab _ (List.getElem_mem _)), reorderTo_plain a0 a h hp⟩

theorem stackable_all {α : Type} (a0 : DimArray α) (rest : List (DimArray α))
    (hin : ∀ a ∈ a0 :: rest, Plain a) (hperm : ∀ a ∈ rest, a.dims.Perm a0.dims)
    (hlab : ∀ a ∈ rest, ∀ s ∈ a0.dims, (a.axisNamed s).labels = (a0.axisNamed s).labels) :
    ∀ x ∈ a0 :: rest.map (reorderTo a0), Stackable a0 x := by
  intro x hx
  rcases List.mem_cons.mp hx with rfl | hx
  · exact stackable_self _ (hin _ List.mem_cons_self)
  · obtain ⟨a, ha, rfl⟩ := List.mem_map.mp hx
    exact stackable_reorderTo a0 a (hin _ List.mem_cons_self) (hin a (List.mem_cons_of_mem _ ha))
      (hperm a ha) (hlab a ha)

/-! ### J. the outer alignment of arrays over the same set of dimensions -/

/-- labels of the common axis named `s` -/
def commonLabels (commons : List Axis) (s : String) : List Label :=
  match commons.find? (·.name == s) with
  | some c => c.labels
  | none => []

theorem commonLabels_of_mem (commons : List Axis) (hn : (commons.map (·.name)).Nodup) (c : Axis) (hc : c ∈ commons) :
    commonLabels commons c.name = c.labels := by
  simp only [commonLabels, findName_unique commons hn c hc]

theorem inRange_map (l : List String) (f c : String → Nat) (h : ∀ s ∈ l, c s < f s) :
    InRange (l.map f) (l.map c) := by
  induction l with
  | nil => exact trivial
  | cons x xs ih =>
    simp only [List.map_cons, InRange]
    exact ⟨h x List.mem_cons_self, ih (fun s hs => h s (List.mem_cons_of_mem _ hs))⟩

theorem axes_labels_by_name {α : Type} (o : DimArray α) (hn : o.dims.Nodup) (U : String → List Label)
    (h : ∀ s ∈ o.dims, (o.axisNamed s).labels = U s) : o.axes.map (·.labels) = o.dims.map U := by
  conv => lhs; rw [← map_axisNamed_self o hn]
  rw [List.map_map]
  apply List.map_congr_left
  intro s hs
  exact h s hs

/-- OUTER ALIGNMENT (strict, all dimensions) of `n ≥ 1` arrays over the same set of dimension names: it succeeds;
output `i` keeps the dims of input `i`, is plain, carries on each dimension `s` the common labels `U s`, and holds
input `i`'s values at their labels (`alignVals`); `U s` carries each label once, the union of the inputs' labels on
`s`, ascending when `sort` -/
theorem align_outer_same_dims {α : Type} (nan : α) (a0 : DimArray α) (rest : List (DimArray α)) (sort : Bool)
    (hin : ∀ a ∈ a0 :: rest, AlignInput a) (hperm : ∀ a ∈ rest, a.dims.Perm a0.dims) :
    ∃ (o0 : DimArray α) (t : List (DimArray α)) (U : String → List Label),
      align nan (a0 :: rest) .outer none sort true = .ok (o0 :: t) ∧
      t.length = rest.length ∧
      (∀ i (hi : i < (a0 :: rest).length) (ho : i < (o0 :: t).length),
        (o0 :: t)[i].dims = (a0 :: rest)[i].dims ∧ Plain (o0 :: t)[i] ∧
        (∀ s ∈ a0.dims, ((o0 :: t)[i].axisNamed s).labels = U s) ∧
        ∀ j, InRange ((o0 :: t)[i].axes.map (·.labels.length)) j →
          (o0 :: t)[i].vals.get j = (alignVals (a0 :: rest)[i] ((o0 :: t)[i].axes.map (·.labels)) nan).get j) ∧
      ∀ s ∈ a0.dims, (U s).Nodup ∧ (∀ v, v ∈ U s ↔ ∃ a ∈ a0 :: rest, v ∈ (a.axisNamed s).labels) ∧
        (sort = true → (U s).Pairwise (fun x y => Label.le x y = true)) := by
  have hpall : ∀ a ∈ a0 :: rest, a.dims.Perm a0.dims := by
    intro a ha
    rcases List.mem_cons.mp ha with rfl | ha
    · exact List.Perm.refl _
    · exact hperm a ha
  -- strict = not strict here
  have hstrict : align nan (a0 :: rest) .outer none sort true = align nan (a0 :: rest) .outer none sort false := by
    apply align_strict
    intro d hd a ha
    obtain ⟨axes, haxes, hmem⟩ := alignedDims_none_mem _ d hd
    obtain ⟨b, hb, rfl⟩ := List.mem_map.mp haxes
    exact (hpall a ha).mem_iff.mpr ((hpall b hb).mem_iff.mp hmem)
  obtain ⟨outs, hal⟩ := align_succeeds nan (a0 :: rest) .outer none sort hin (fun d hd => by cases hd)
  obtain ⟨hl, commons, hg, hs⟩ := align_all_spec nan (a0 :: rest) outs .outer sort hin hal
  obtain ⟨hcn, hcmem, hclab⟩ := align_all_labels (a0 :: rest) .outer sort hin commons hg
  have hmem := align_members nan (a0 :: rest) outs .outer none sort
    (fun x hx ax hax => ((hin x hx).2.2 ax hax).2.2.1) hal
  obtain ⟨o0, t, rfl⟩ : ∃ o0 t, outs = o0 :: t := by
    match outs, hl with
    | o0 :: t, _ => exact ⟨o0, t, rfl⟩
  refine ⟨o0, t, commonLabels commons, hstrict.trans hal, by simpa using hl, ?_, ?_⟩
  · intro i hi ho
    obtain ⟨hd, _, hk, hsh, hv⟩ := hs i hi ho
    have hA := hin _ (List.getElem_mem hi)
    have hno : (o0 :: t)[i].dims.Nodup := hd ▸ hA.1
    have hpl : Plain (o0 :: t)[i] := by
      refine ⟨?_, hno, hmem _ (List.getElem_mem ho)⟩
      rw [hsh]
      apply List.map_congr_left
      intro ax hax
      simp [Axis.size, hmem _ (List.getElem_mem ho) ax hax]
    refine ⟨hd, hpl, ?_, hv⟩
    intro s hs0
    have hsa : s ∈ (a0 :: rest)[i].dims := (hpall _ (List.getElem_mem hi)).mem_iff.mpr hs0
    have hkl : (a0 :: rest)[i].dims.idxOf s < (a0 :: rest)[i].dims.length := List.idxOf_lt_length_of_mem hsa
    obtain ⟨c, hc, hcname, hcl⟩ := hk ((a0 :: rest)[i].dims.idxOf s) (by simpa [DimArray.dims] using hkl)
    have hnm : ((a0 :: rest)[i].axes.getD ((a0 :: rest)[i].dims.idxOf s) default).name = s :=
      (axisNamed_mem _ s hsa).2
    have hcname' : c.name = s := hcname.trans hnm
    simp only [DimArray.axisNamed, hd]
    rw [hcl, ← hcname', commonLabels_of_mem commons hcn c hc]
  · intro s hs0
    obtain ⟨c, hc, hcname⟩ := List.mem_map.mp ((hcmem s).mpr ⟨a0, List.mem_cons_self, hs0⟩)
    have hcname' : c.name = s := hcname
    have hU : commonLabels commons s = c.labels := by rw [← hcname', commonLabels_of_mem commons hcn c hc]
    rw [hU]
    refine ⟨(hclab c hc Label.none).1, ?_, (hclab c hc Label.none).2.2.2⟩
    intro v
    rw [(hclab c hc v).2.1 rfl]
    constructor
    · rintro ⟨a, ha, ax, hax, hname, hv⟩
      refine ⟨a, ha, ?_⟩
      have hsa : s ∈ a.dims := (hpall a ha).mem_iff.mpr hs0
      obtain ⟨h1, h2⟩ := axisNamed_mem a s hsa
      rw [← axis_eq_of_name a.axes (hin a ha).1 ax hax _ h1 (by rw [hname, hcname', h2])]
      exact hv
    · rintro ⟨a, ha, hv⟩
      have hsa : s ∈ a.dims := (hpall a ha).mem_iff.mpr hs0
      obtain ⟨h1, h2⟩ := axisNamed_mem a s hsa
      exact ⟨a, ha, _, h1, by rw [h2, hcname'], hv⟩

/-! ### K. the stacked record -/

theorem getDims_of_perm {α : Type} (a0 : DimArray α) (rest : List (DimArray α)) (hn : a0.dims.Nodup)
    (hperm : ∀ a ∈ rest, a.dims.Perm a0.dims) : getDims ((a0 :: rest).map (·.axes)) = a0.dims := by
  rw [List.map_cons, getDims_same a0.axes _ hn]
  · rfl
  · intro axs haxs ax hax
    obtain ⟨a, ha, rfl⟩ := List.mem_map.mp haxs
    exact (hperm a ha).mem_iff.mp (List.mem_map.mpr ⟨ax, hax, rfl⟩)

/-- slice `i` of the stacked record, addressed by dimension name, is reordered input `i` -/
theorem stackResult_get {α : Type} [Inhabited α] (name : String) (keys : List Label) (kk : Kind) (o0 : DimArray α)
    (t : List (DimArray α)) (hp : ∀ o ∈ o0 :: t, Plain o ∧ o.dims.Perm o0.dims)
    (i : Nat) (hi : i < (o0 :: t).length) (c : String → Nat) :
    (stackResult name keys kk o0 (o0 :: t.map (reorderTo o0))).vals.get (i :: o0.dims.map c) = ((o0 :: t)[i]).at c := by
  have harrs : o0 :: t.map (reorderTo o0) = (o0 :: t).map (reorderTo o0) := by
    rw [List.map_cons, reorderTo_self]
  have hmem : (o0 :: t)[i] ∈ o0 :: t := List.getElem_mem hi
  obtain ⟨hpl, hperm⟩ := hp _ hmem
  simp only [stackResult, NDArr.stackNew]
  rw [harrs, List.map_map, List.getD_eq_getElem?_getD, List.getElem?_map, List.getElem?_eq_getElem hi]
  simp only [Option.map_some, Option.getD_some, Function.comp_apply]
  rw [← reorderTo_at o0 _ hperm hpl.nodup (by rw [hpl.shape]; simp) c]
  unfold DimArray.at
  rw [reorderTo_dims o0 _ hperm hpl.nodup]

/-! ### L. `alignVals` by dimension name -/

/-- the label found at coordinate `c s` of the common labels `U s` -/
def labelAt (U : String → List Label) (c : String → Nat) (s : String) : Label := (U s).getD (c s) Label.none

/-- the aligned values, addressed by dimension name: at coordinates `c` (in the common labels `U`), the input's
element at the positions of the same labels when the input carries all of them, `nan` otherwise -/
theorem alignVals_by_name {α : Type} (a : DimArray α) (hn : a.dims.Nodup) (U : String → List Label) (nan : α)
    (c : String → Nat) :
    (alignVals a (a.dims.map U) nan).get (a.dims.map c) =
      if ∀ s ∈ a.dims, labelAt U c s ∈ (a.axisNamed s).labels then
        a.at (fun s => firstIdx (a.axisNamed s).labels (labelAt U c s))
      else nan := by
  let g : String → Option Nat := fun s =>
    if labelAt U c s ∈ (a.axisNamed s).labels then some (firstIdx (a.axisNamed s).labels (labelAt U c s)) else none
  have hsrc : alignSrc a (a.dims.map U) (a.dims.map c) = a.dims.map g := by
    apply List.ext_getElem
    · simp [alignSrc, DimArray.dims]
    · intro k h1 h2
      have hk : k < a.dims.length := by simpa using h2
      simp only [alignSrc, List.getElem_map, List.getElem_range, g, labelAt]
      rw [← axisNamed_getElem a hn k hk]
      simp [List.getD_eq_getElem?_getD, hk]
  rw [alignVals_get, hsrc]
  by_cases hall : ∀ s ∈ a.dims, labelAt U c s ∈ (a.axisNamed s).labels
  · have h1 : (a.dims.map g).all (·.isSome) = true := by
      rw [List.all_eq_true]
      intro x hx
      obtain ⟨s, hs, rfl⟩ := List.mem_map.mp hx
      simp [g, hall s hs]
    rw [if_pos h1, if_pos hall]
    unfold DimArray.at
    congr 1
    rw [List.map_map]
    apply List.map_congr_left
    intro s hs
    simp [g, hall s hs]
  · have h1 : ¬ (a.dims.map g).all (·.isSome) = true := by
      intro h
      apply hall
      intro s hs
      rw [List.all_eq_true] at h
      have := h (g s) (List.mem_map.mpr ⟨s, hs, rfl⟩)
      simp only [g] at this
      split at this
      · assumption
      · simp at this
    rw [if_neg h1, if_neg hall]

/-! ### M. the alignment loop of `concatenate(..., align=True)` -/

/-- one turn of the loop `for ax in arrays[0].axes: if ax.name != dim: arrays = align(arrays, axis=ax.name, strict=True)` -/
def catAlignStep {α : Type} (nan : α) (dim : String) (sort : Bool) (arrs : List (DimArray α)) (ax : Axis) :
    Except Err (List (DimArray α)) :=
  if ax.name != dim then align nan arrs .outer (some ax.name) sort true else pure arrs

/-- invariant of the loop: the current arrays descend from the original ones (same dims, values at their labels,
plain axes) and still carry the ORIGINAL axis on every dimension that is pending -/
structure CatInv {α : Type} (nan : α) (arrays arrs : List (DimArray α)) (pending : List String) : Prop where
  len : arrs.length = arrays.length
  each : ∀ i (hi : i < arrays.length) (ho : i < arrs.length),
    arrs[i].dims = arrays[i].dims ∧ ValsInv nan arrays[i] arrs[i] ∧ (∀ ax ∈ arrs[i].axes, ax.members = []) ∧
    ∀ k, k < arrays[i].axes.length → (arrays[i].axes.getD k default).name ∈ pending →
      arrs[i].axes.getD k default = arrays[i].axes.getD k default

theorem havingAxes_eq_map (arrays : List (List Axis)) (s : String) (h : ∀ axes ∈ arrays, s ∈ axes.map (·.name)) :
    havingAxes arrays s = arrays.map (fun axes => axes.getD ((axes.map (·.name)).idxOf s) default) := by
  unfold havingAxes
  exact filterMap_eq_map_of _ _ arrays (fun axes ha => (findName_some axes s (h axes ha)).2.1)

theorem getAlignedAxes_some_eq (X Y : List (List Axis)) (join : Join) (s : String) (sort : Bool)
    (h : havingAxes X s = havingAxes Y s) :
    getAlignedAxes X join (some s) sort false = getAlignedAxes Y join (some s) sort false := by
  unfold getAlignedAxes
  unfold havingAxes at h
  simp only [List.mapM_cons, List.mapM_nil, h, Bool.false_and]

/-- one aligning turn of the loop, on a dimension `s` that is pending and that every input has -/
theorem catAlign_step {α : Type} (nan : α) (sort : Bool) (arrays arrs : List (DimArray α)) (pending : List String)
    (hin : ∀ a ∈ arrays, AlignInput a) (hinv : CatInv nan arrays arrs pending) (s : String) (hs : s ∈ pending)
    (hall : ∀ a ∈ arrays, s ∈ a.dims) (hne : arrays ≠ []) :
    ∃ (c : Axis) (arrs1 : List (DimArray α)),
      getAlignedAxes (arrays.map (·.axes)) .outer (some s) sort false = .ok [c] ∧ c.name = s ∧
      align nan arrs .outer (some s) sort true = .ok arrs1 ∧ arrs1.length = arrs.length ∧
      ∀ i (hi : i < arrs.length) (ho : i < arrs1.length), alignStep nan c arrs[i] = .ok arrs1[i] := by
  -- the common axis, from the original arrays
  obtain ⟨commons, hg⟩ := getAlignedAxes_succeeds (arrays.map (·.axes)) .outer (some s) sort (by
    intro d hd
    have : d = s := by simpa [alignedDims] using hd
    subst this
    obtain ⟨a, ha⟩ := List.exists_mem_of_ne_nil arrays hne
    exact ⟨a.axes, List.mem_map.mpr ⟨a, ha, rfl⟩, hall a ha⟩)
  have hcl : commons.length = 1 := (getAlignedAxes_ok _ .outer (some s) sort commons hg).1
  obtain ⟨c, rfl⟩ : ∃ c, commons = [c] := by
    match commons, hcl with
    | [c], _ => exact ⟨c, rfl⟩
  have hcname : c.name = s := (align_axis_labels arrays .outer s sort hin c hg Label.none).1
  -- every current array has `s`, and its axis named `s` is the original one
  have hdimsEq : ∀ i (hi : i < arrays.length) (ho : i < arrs.length), arrs[i].dims = arrays[i].dims :=
    fun i hi ho => (hinv.each i hi ho).1
  have hallc : ∀ o ∈ arrs, s ∈ o.dims := by
    intro o ho
    obtain ⟨i, hi, rfl⟩ := List.getElem_of_mem ho
    have hi' : i < arrays.length := hinv.len ▸ hi
    rw [hdimsEq i hi' hi]
    exact hall _ (List.getElem_mem hi')
  have hhav : havingAxes (arrs.map (·.axes)) s = havingAxes (arrays.map (·.axes)) s := by
    rw [havingAxes_eq_map _ s (by
        intro axes ha
        obtain ⟨o, ho, rfl⟩ := List.mem_map.mp ha
        exact hallc o ho),
      havingAxes_eq_map _ s (by
        intro axes ha
        obtain ⟨a, ha', rfl⟩ := List.mem_map.mp ha
        exact hall a ha')]
    apply List.ext_getElem
    · simp [hinv.len]
    · intro i h1 h2
      have hi : i < arrays.length := by simpa using h2
      have ho : i < arrs.length := by simpa using h1
      simp only [List.getElem_map]
      obtain ⟨hd, _, _, hk⟩ := hinv.each i hi ho
      have hd' : arrs[i].axes.map (·.name) = arrays[i].axes.map (·.name) := hd
      rw [hd']
      have hsa := hall _ (List.getElem_mem hi)
      obtain ⟨hlt, _, hnm⟩ := findName_some arrays[i].axes s hsa
      exact hk _ hlt (by rw [hnm]; exact hs)
  have hg' : getAlignedAxes (arrs.map (·.axes)) .outer (some s) sort false = .ok [c] := by
    rw [getAlignedAxes_some_eq _ _ .outer s sort hhav, hg]
  -- every step succeeds
  have hstep : ∀ o ∈ arrs, ∃ b, alignStep nan c o = .ok b := by
    intro o ho
    obtain ⟨i, hi, rfl⟩ := List.getElem_of_mem ho
    have hi' : i < arrays.length := hinv.len ▸ hi
    obtain ⟨hd, _, _, hk⟩ := hinv.each i hi' hi
    exact alignStep_ok nan arrays[i] arrs[i] c hd
      (fun k hk' hnm => hk k hk' (by rw [hnm, hcname]; exact hs))
      (alignInput_labels _ (hin _ (List.getElem_mem hi')))
  obtain ⟨arrs1, h1⟩ := exMapM_of_forall (alignStep nan c) arrs hstep
  obtain ⟨hl1, hs1⟩ := exMapM_ok (alignStep nan c) arrs arrs1 h1
  refine ⟨c, arrs1, hg, hcname, ?_, hl1, hs1⟩
  rw [align_strict nan arrs .outer (some s) sort (by
    intro d hd a ha
    have : d = s := by simpa [alignedDims] using hd
    subst this
    exact hallc a ha), align_eq, hg']
  simp only [bind, Except.bind, List.foldlM_cons, List.foldlM_nil, h1, pure, Except.pure]

/-- THE LOOP: it succeeds; each output keeps the dims of its input, is plain, holds the input's values at their
labels; on a dimension that was aligned it carries the common labels of the ORIGINAL arrays on that dimension; on the
other dimensions (the concatenation dimension) it keeps the axis it had -/
theorem catAlign_fold {α : Type} (nan : α) (dim : String) (sort : Bool) (arrays : List (DimArray α))
    (hin : ∀ a ∈ arrays, AlignInput a) (hne : arrays ≠ []) :
    ∀ (axs : List Axis) (arrs : List (DimArray α)), (axs.map (·.name)).Nodup →
      (∀ ax ∈ axs, ax.name ≠ dim → ∀ a ∈ arrays, ax.name ∈ a.dims) →
      CatInv nan arrays arrs (axs.map (·.name)) →
      ∃ outs, axs.foldlM (catAlignStep nan dim sort) arrs = .ok outs ∧ CatInv nan arrays outs [] ∧
        ∀ i (hi : i < arrays.length) (ho : i < arrs.length) (ho' : i < outs.length) (k : Nat),
          k < arrays[i].axes.length →
          ((arrays[i].axes.getD k default).name ∈ axs.map (·.name) → (arrays[i].axes.getD k default).name ≠ dim →
            ∃ c, getAlignedAxes (arrays.map (·.axes)) .outer (some (arrays[i].axes.getD k default).name) sort false
                = .ok [c] ∧ (outs[i].axes.getD k default).labels = c.labels) ∧
          (((arrays[i].axes.getD k default).name ∉ axs.map (·.name) ∨ (arrays[i].axes.getD k default).name = dim) →
            outs[i].axes.getD k default = arrs[i].axes.getD k default) := by
  intro axs
  induction axs with
  | nil =>
    intro arrs _ _ hinv
    refine ⟨arrs, rfl, hinv, ?_⟩
    intro i hi ho ho' k hk
    exact ⟨fun h => absurd h (by simp), fun _ => rfl⟩
  | cons ax axs ih =>
    intro arrs hnd hdims hinv
    simp only [List.map_cons, List.nodup_cons] at hnd
    rw [List.foldlM_cons]
    have up : ∀ x, x ∈ axs.map (·.name) → x ∈ (ax :: axs).map (·.name) := fun x hx => List.mem_cons_of_mem _ hx
    have hsp : ax.name ∈ (ax :: axs).map (·.name) := List.mem_cons_self
    by_cases hax : ax.name = dim
    · -- the concatenation dimension is skipped
      have hstep : catAlignStep nan dim sort arrs ax = .ok arrs := by
        simp [catAlignStep, hax, pure, Except.pure]
      have hinv' : CatInv nan arrays arrs (axs.map (·.name)) :=
        ⟨hinv.len, fun i hi ho => by
          obtain ⟨h1, h2, h3, h4⟩ := hinv.each i hi ho
          exact ⟨h1, h2, h3, fun k hk hm => h4 k hk (up _ hm)⟩⟩
      obtain ⟨outs, hout, hinvo, hres⟩ := ih arrs hnd.2 (fun x hx => hdims x (List.mem_cons_of_mem _ hx)) hinv'
      refine ⟨outs, by simp only [hstep, bind, Except.bind]; exact hout, hinvo, ?_⟩
      intro i hi ho ho' k hk
      obtain ⟨r1, r2⟩ := hres i hi ho ho' k hk
      refine ⟨?_, ?_⟩
      · intro hm hnd'
        simp only [List.map_cons, List.mem_cons] at hm
        rcases hm with hm | hm
        · exact absurd (hm.trans hax) hnd'
        · exact r1 hm hnd'
      · intro h
        apply r2
        rcases h with h | h
        · left; intro hm; exact h (up _ hm)
        · right; exact h
    · -- an aligning turn
      obtain ⟨c, arrs1, hg, hcname, hal, hl1, hs1⟩ := catAlign_step nan sort arrays arrs _ hin hinv ax.name hsp
        (hdims ax List.mem_cons_self hax) hne
      have hstep : catAlignStep nan dim sort arrs ax = .ok arrs1 := by
        have : (ax.name != dim) = true := by simpa using hax
        simp only [catAlignStep, this, if_true, hal]
      -- what the turn did to array `i`
      have hturn : ∀ i (hi : i < arrays.length) (ho : i < arrs.length) (ho1 : i < arrs1.length),
          arrs1[i].dims = arrays[i].dims ∧ ValsInv nan arrays[i] arrs1[i] ∧
          (∀ x ∈ arrs1[i].axes, x.members = []) ∧
          (arrs1[i].axes.getD (arrays[i].dims.idxOf ax.name) default).labels = c.labels ∧
          ∀ k, k ≠ arrays[i].dims.idxOf ax.name → arrs1[i].axes.getD k default = arrs[i].axes.getD k default := by
        intro i hi ho ho1
        obtain ⟨hd, hv, hm, hk⟩ := hinv.each i hi ho
        have hA := hin _ (List.getElem_mem hi)
        obtain ⟨h1, _, h3, _, h5⟩ := alignStep_spec nan arrays[i] arrs[i] arrs1[i] c hd
          (fun k hk' hnm => hk k hk' (by rw [hnm, hcname]; exact hsp)) (alignInput_labels _ hA) hv (hs1 i ho ho1)
        have hcd : c.name ∈ arrays[i].dims := hcname ▸ hdims ax List.mem_cons_self hax _ (List.getElem_mem hi)
        obtain ⟨h5a, h5b⟩ := h5 hcd
        rw [hcname] at h5a h5b
        exact ⟨h1, h3, alignStep_members nan c arrs[i] arrs1[i] hm (hs1 i ho ho1), h5a, h5b⟩
      have hinv1 : CatInv nan arrays arrs1 (axs.map (·.name)) := by
        refine ⟨hl1.trans hinv.len, ?_⟩
        intro i hi ho1
        have ho : i < arrs.length := hl1 ▸ ho1
        obtain ⟨t1, t2, t3, _, t5⟩ := hturn i hi ho ho1
        refine ⟨t1, t2, t3, ?_⟩
        intro k hk hm
        have hA := hin _ (List.getElem_mem hi)
        have hne' : k ≠ arrays[i].dims.idxOf ax.name := by
          intro he
          have hnm : (arrays[i].axes.getD k default).name = ax.name := by
            rw [he]
            exact (findName_some arrays[i].axes ax.name
              (hdims ax List.mem_cons_self hax _ (List.getElem_mem hi))).2.2
          exact hnd.1 (hnm ▸ hm)
        rw [t5 k hne']
        exact (hinv.each i hi ho).2.2.2 k hk (up _ hm)
      obtain ⟨outs, hout, hinvo, hres⟩ := ih arrs1 hnd.2 (fun x hx => hdims x (List.mem_cons_of_mem _ hx)) hinv1
      refine ⟨outs, by simp only [hstep, bind, Except.bind]; exact hout, hinvo, ?_⟩
      intro i hi ho ho' k hk
      have ho1 : i < arrs1.length := hl1 ▸ ho
      obtain ⟨r1, r2⟩ := hres i hi ho1 ho' k hk
      obtain ⟨_, _, _, t4, t5⟩ := hturn i hi ho ho1
      have hA := hin _ (List.getElem_mem hi)
      refine ⟨?_, ?_⟩
      · intro hm hnd'
        simp only [List.map_cons, List.mem_cons] at hm
        rcases hm with hm | hm
        · -- the dimension aligned at this turn
          have hk' : k = arrays[i].dims.idxOf ax.name := by
            rw [← hm]; exact (idxOf_of_name arrays[i].axes hA.1 k hk).symm
          refine ⟨c, by rw [hm]; exact hg, ?_⟩
          rw [r2 (Or.inl (hm ▸ hnd.1)), hk']
          exact t4
        · exact r1 hm hnd'
      · intro h
        have hne' : (arrays[i].axes.getD k default).name ≠ ax.name := by
          rcases h with h | h
          · intro he; exact h (by rw [he]; exact hsp)
          · intro he; exact hax (he ▸ h)
        have hk' : k ≠ arrays[i].dims.idxOf ax.name := by
          intro he
          apply hne'
          rw [he]
          exact (findName_some arrays[i].axes ax.name
            (hdims ax List.mem_cons_self hax _ (List.getElem_mem hi))).2.2
        rw [← t5 k hk']
        apply r2
        rcases h with h | h
        · left; intro hm; exact h (up _ hm)
        · right; exact h

/-- `concatenate(..., align=True)` once the axis is resolved, the alignment loop returned `arrs0` and these reorder
into `o0 :: t`: the NumPy shape check, then the joined record (the secondary-axes check is skipped) -/
theorem concatenate_align_eq {α : Type} (nan : α) (a0 : DimArray α) (rest arrs0 : List (DimArray α))
    (o0 : DimArray α) (t : List (DimArray α)) (axis : DimKey)
    (pos : Nat) (sort : Bool) (hpos : JoinAxis a0 axis pos)
    (hloop : a0.axes.foldlM (catAlignStep nan (a0.dims.getD pos "") sort) (a0 :: rest) = .ok arrs0)
    (hre : reorderLikeFirst arrs0 = .ok (o0 :: t)) (hd : o0.dims = a0.dims) :
    concatenate nan (a0 :: rest) axis true sort =
      if (o0 :: t).any (fun a => a.vals.shape.eraseIdx pos != o0.vals.shape.eraseIdx pos || a.ndim != o0.ndim)
      then .error .value else
      .ok (concatResult o0 (o0 :: t) pos
        ((t.map (·.vals)).foldl (fun acc x => acc.concat2 x pos) o0.vals)) := by
  have hlt := hpos.lt
  have hlt' : pos < o0.axes.length := by
    have := congrArg List.length hd
    simp only [DimArray.dims, List.length_map] at this
    omega
  have hloop' : a0.axes.foldlM (fun arrs ax => if ax.name != a0.dims.getD pos "" then
      align nan arrs .outer (some ax.name) sort true else Except.ok arrs) (a0 :: rest) = .ok arrs0 := hloop
  unfold concatenate
  cases axis with
  | name s =>
    obtain ⟨h1, h2⟩ := hpos
    have hp : a0.dims.idxOf s < a0.dims.length := List.idxOf_lt_length_of_mem h1
    subst h2
    simp only [hp, if_true, bind, Except.bind, pure, Except.pure, hloop', hre,
      List.headD_cons, Bool.not_true, Bool.false_and, Bool.false_eq_true, if_false, concatVals, List.map_cons,
      List.map_id', take_eraseIdx_append _ _ _ hlt', concatResult, hd]
  | pos i =>
    obtain ⟨h1, h2⟩ := hpos
    subst h1
    have hp : ¬ ((pos : Int) < 0 || (pos : Int) ≥ (a0.ndim : Int)) = true := by
      simp only [Bool.or_eq_true, decide_eq_true_eq, not_or]
      omega
    have hneg : ¬ ((pos : Int) < 0) := by omega
    have hge : ¬ ((pos : Int) ≥ (a0.ndim : Int)) := by
      simp only [Bool.or_eq_true, decide_eq_true_eq, not_or] at hp; exact hp.2
    simp only [hneg, hge, decide_false, Bool.or_self, if_false, Int.toNat_natCast, bind, Except.bind, pure, Except.pure, hloop', hre,
      List.headD_cons, Bool.not_true, Bool.false_and, Bool.false_eq_true, concatVals, List.map_cons,
      List.map_id', take_eraseIdx_append _ _ _ hlt', concatResult, hd]
    rfl

/-- labels of the common axis (outer join) of the original arrays on dimension `s` -/
def unionLabelsOn {α : Type} (arrays : List (DimArray α)) (sort : Bool) (s : String) : List Label :=
  match getAlignedAxes (arrays.map (·.axes)) .outer (some s) sort false with
  | .ok [c] => c.labels
  | _ => []

theorem map_eq_of_getElem {β γ δ : Type} (l1 : List β) (l2 : List γ) (f : β → δ) (g : γ → δ)
    (hl : l1.length = l2.length) (h : ∀ i (h1 : i < l1.length) (h2 : i < l2.length), f l1[i] = g l2[i]) :
    l1.map f = l2.map g := by
  apply List.ext_getElem
  · simpa using hl
  · intro i h1 h2
    simp only [List.getElem_map]
    exact h i (by simpa using h1) (by simpa using h2)

/-- THE ALIGNMENT LOOP of `concatenate(..., align=True)` on `n ≥ 1` arrays over the same set of dimension names,
`d` being the concatenation dimension: it succeeds; output `i` keeps the dims of input `i`, is plain, keeps input
`i`'s axis on `d`, carries on every other dimension `s` the common labels `U s`, and holds input `i`'s values at
their labels; `U s` carries each label once, the union of the inputs' labels on `s`, ascending when `sort` -/
theorem catAlign_outputs {α : Type} (nan : α) (a0 : DimArray α) (rest : List (DimArray α)) (d : String) (sort : Bool)
    (hin : ∀ a ∈ a0 :: rest, AlignInput a) (hperm : ∀ a ∈ rest, a.dims.Perm a0.dims) :
    ∃ (o0 : DimArray α) (t : List (DimArray α)) (U : String → List Label),
      a0.axes.foldlM (catAlignStep nan d sort) (a0 :: rest) = .ok (o0 :: t) ∧
      t.length = rest.length ∧
      (∀ i (hi : i < (a0 :: rest).length) (ho : i < (o0 :: t).length),
        (o0 :: t)[i].dims = (a0 :: rest)[i].dims ∧ Plain (o0 :: t)[i] ∧
        (o0 :: t)[i].axisNamed d = (a0 :: rest)[i].axisNamed d ∧
        (∀ s ∈ a0.dims, s ≠ d → ((o0 :: t)[i].axisNamed s).labels = U s) ∧
        ∀ j, InRange ((o0 :: t)[i].axes.map (·.labels.length)) j →
          (o0 :: t)[i].vals.get j = (alignVals (a0 :: rest)[i] ((o0 :: t)[i].axes.map (·.labels)) nan).get j) ∧
      ∀ s ∈ a0.dims, s ≠ d → (U s).Nodup ∧ (∀ v, v ∈ U s ↔ ∃ a ∈ a0 :: rest, v ∈ (a.axisNamed s).labels) ∧
        (sort = true → (U s).Pairwise (fun x y => Label.le x y = true)) := by
  have hpall : ∀ a ∈ a0 :: rest, a.dims.Perm a0.dims := by
    intro a ha
    rcases List.mem_cons.mp ha with rfl | ha
    · exact List.Perm.refl _
    · exact hperm a ha
  have hn0 : (a0.axes.map (·.name)).Nodup := (hin a0 List.mem_cons_self).1
  have hinv0 : CatInv nan (a0 :: rest) (a0 :: rest) (a0.axes.map (·.name)) :=
    ⟨rfl, fun i hi _ => ⟨rfl, alignInput_valsInv nan _ (hin _ (List.getElem_mem hi)),
      fun ax hax => ((hin _ (List.getElem_mem hi)).2.2 ax hax).2.2.1, fun _ _ _ => rfl⟩⟩
  obtain ⟨outs, hloop, hinvo, hres⟩ := catAlign_fold nan d sort (a0 :: rest) hin (by simp) a0.axes (a0 :: rest) hn0
    (fun ax hax _ a ha => (hpall a ha).mem_iff.mpr (List.mem_map.mpr ⟨ax, hax, rfl⟩)) hinv0
  obtain ⟨o0, t, rfl⟩ : ∃ o0 t, outs = o0 :: t := by
    match outs, hinvo.len with
    | o0 :: t, _ => exact ⟨o0, t, rfl⟩
  refine ⟨o0, t, unionLabelsOn (a0 :: rest) sort, hloop, by simpa using hinvo.len, ?_, ?_⟩
  · intro i hi ho
    obtain ⟨hd, hv, hm, _⟩ := hinvo.each i hi ho
    have hA := hin _ (List.getElem_mem hi)
    have hpl : Plain (o0 :: t)[i] := by
      refine ⟨?_, hd ▸ hA.1, hm⟩
      rw [hv.1]
      apply List.map_congr_left
      intro ax hax
      simp [Axis.size, hm ax hax]
    refine ⟨hd, hpl, ?_, ?_, hv.2⟩
    · -- the axis on `d` is untouched
      simp only [DimArray.axisNamed, hd]
      by_cases hdd : d ∈ (a0 :: rest)[i].dims
      · obtain ⟨hlt, _, hnm⟩ := findName_some (a0 :: rest)[i].axes d hdd
        exact (hres i hi hi ho _ hlt).2 (Or.inr hnm)
      · have h1 : ¬ (a0 :: rest)[i].dims.idxOf d < (a0 :: rest)[i].axes.length := by
          intro h
          apply hdd
          have h' : (a0 :: rest)[i].dims.idxOf d < (a0 :: rest)[i].dims.length := by
            simpa [DimArray.dims] using h
          exact List.idxOf_lt_length_iff.mp h' 
        have hlen : (o0 :: t)[i].axes.length = (a0 :: rest)[i].axes.length := by
          simpa [DimArray.dims] using congrArg List.length hd
        rw [List.getD_eq_getElem?_getD, List.getD_eq_getElem?_getD, List.getElem?_eq_none (by omega),
          List.getElem?_eq_none (by omega)]
    · intro s hs hsd
      have hsa : s ∈ (a0 :: rest)[i].dims := (hpall _ (List.getElem_mem hi)).mem_iff.mpr hs
      obtain ⟨hlt, _, hnm⟩ := findName_some (a0 :: rest)[i].axes s hsa
      obtain ⟨c, hc, hcl⟩ := (hres i hi hi ho _ hlt).1 (by rw [hnm]; exact hs) (by rw [hnm]; exact hsd)
      rw [hnm] at hc
      simp only [DimArray.axisNamed, hd]
      refine hcl.trans ?_
      simp only [unionLabelsOn, hc]
  · intro s hs hsd
    obtain ⟨commons, hg⟩ := getAlignedAxes_succeeds ((a0 :: rest).map (·.axes)) .outer (some s) sort (by
      intro d' hd'
      have : d' = s := by simpa [alignedDims] using hd'
      subst this
      exact ⟨a0.axes, List.mem_map.mpr ⟨a0, List.mem_cons_self, rfl⟩, hs⟩)
    have hcl : commons.length = 1 := (getAlignedAxes_ok _ .outer (some s) sort commons hg).1
    obtain ⟨c, rfl⟩ : ∃ c, commons = [c] := by
      match commons, hcl with
      | [c], _ => exact ⟨c, rfl⟩
    have hU : unionLabelsOn (a0 :: rest) sort s = c.labels := by simp only [unionLabelsOn, hg]
    rw [hU]
    have hlab := fun v => align_axis_labels (a0 :: rest) .outer s sort hin c hg v
    refine ⟨(hlab Label.none).2.1, ?_, (hlab Label.none).2.2.2.2⟩
    intro v
    rw [(hlab v).2.2.1 rfl]
    constructor
    · rintro ⟨a, ha, ax, hax, hname, hv⟩
      refine ⟨a, ha, ?_⟩
      have hsa : s ∈ a.dims := (hpall a ha).mem_iff.mpr hs
      obtain ⟨h1, h2⟩ := axisNamed_mem a s hsa
      rw [← axis_eq_of_name a.axes (hin a ha).1 ax hax _ h1 (by rw [hname, h2])]
      exact hv
    · rintro ⟨a, ha, hv⟩
      have hsa : s ∈ a.dims := (hpall a ha).mem_iff.mpr hs
      obtain ⟨h1, h2⟩ := axisNamed_mem a s hsa
      exact ⟨a, ha, _, h1, h2, hv⟩

end C12J
end DimModel

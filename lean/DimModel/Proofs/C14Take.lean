/-
C14: helper lemmas about `DSV.takeDsMulti` (Lib/DatasetOps4.lean).
-/
import DimModel.Lib.DatasetOps4
namespace DimModel
namespace DSV
open Lib

/-- `data.attrs.update(self.attrs)`: the indexed Dataset carries the Dataset's metadata, whatever the index and `names=` -/
theorem takeDsMulti_attrs {α : Type} (ds out : Ds α) (names : Option (List String)) (ui : UserIndex) (cfg : IndexCfg)
    (h : takeDsMulti ds names ui cfg = .ok out) : out.attrs = ds.attrs := by
  unfold takeDsMulti at h
  simp only [bind, Except.bind, pure, Except.pure] at h
  split at h
  · cases h
  · split at h
    · cases h
    · split at h
      · cases h
      · cases h; rfl

end DSV
end DimModel

/-
C14: helper lemmas about `DSV.takeDsMulti` (Lib/DatasetOps4.lean).
-/
import DimModel.Lib.DatasetOps4
import DimModel.Proofs.C14
namespace DimModel
namespace DSV
open Lib

/-- `data.attrs.update(self.attrs)`: the indexed Dataset carries the Dataset's metadata, whatever the index and `names=` -/
theorem takeDsMulti_attrs {α : Type} (ds out : Ds α) (names : Option (List String)) (ui : UserIndex) (cfg : IndexCfg)
    (h : takeDsMulti ds names ui cfg = .ok out) : out.attrs = ds.attrs := by
  unfold takeDsMulti at h
  simp only [bind, Except.bind, pure, Except.pure] at h
  split at h
  · cases h
  · split at h
    · cases h
    · split at h
      · cases h
      · cases h; rfl


theorem getAxesOrtho_names_sublist : ∀ (axes : List Axis) (raw : List RawIx) (pix : List PosIx),
    ((getAxesOrtho axes raw pix).map (·.name)).Sublist (axes.map (·.name))
  | [], raw, pix => by simp [getAxesOrtho]
  | a :: axes, [], pix => by simp [getAxesOrtho]
  | a :: axes, r :: raw, [] => by simp [getAxesOrtho]
  | a :: axes, r :: raw, p :: pix => by
    have ih := getAxesOrtho_names_sublist axes raw pix
    unfold getAxesOrtho at ih ⊢
    rw [List.zip_cons_cons, List.zip_cons_cons]
    cases p with
    | scalar q =>
      rw [List.filterMap_cons_none rfl, List.map_cons]
      exact List.Sublist.cons _ ih
    | list ps =>
      by_cases hr : (r == RawIx.slice none none none) = true
      · rw [List.filterMap_cons_some (b := a) (by simp only [hr, if_true]), List.map_cons, List.map_cons]
        exact List.Sublist.cons_cons _ ih
      · rw [List.filterMap_cons_some (b := axisSelect a ps) (by simp only [hr]; rfl), List.map_cons, List.map_cons]
        exact List.Sublist.cons_cons _ ih

theorem getAxesOrtho_names_nodup (axes : List Axis) (raw : List RawIx) (pix : List PosIx)
    (hd : (axes.map (·.name)).Nodup) : ((getAxesOrtho axes raw pix).map (·.name)).Nodup :=
  List.Nodup.sublist (getAxesOrtho_names_sublist axes raw pix) hd

theorem mapM_ok_idx {ε β γ : Type} (f : β → Except ε γ) : ∀ (l : List β) (out : List γ),
    l.mapM f = .ok out → ∀ (i : Nat) (x : β), l[i]? = some x → ∃ y, out[i]? = some y ∧ f x = .ok y
  | [], _, _, i, x, hx => by simp at hx
  | a :: l, out, h, i, x, hx => by
    obtain ⟨b, bs, hb, hbs, rfl⟩ := mapM_cons_ok f a l out h
    cases i with
    | zero =>
      simp only [List.getElem?_cons_zero, Option.some.injEq] at hx
      subst hx
      exact ⟨b, by simp, hb⟩
    | succ i =>
      simp only [List.getElem?_cons_succ] at hx ⊢
      exact mapM_ok_idx f l bs hbs i x hx

/-- the size check of a boolean index in position mode hands an accepted index over as it is -/
theorem maskCheck_id : ∀ (l : List (RawIx × Axis)) (out : List RawIx),
    l.mapM (fun (x : RawIx × Axis) =>
      match x with
      | (r, ax) =>
        match r with
        | .mask m => if m.length == ax.size then pure (RawIx.mask m) else (.error .index : Except Err RawIx)
        | r => pure r) = .ok out → out = l.map (·.1)
  | [], out, h => by
    simp only [List.mapM_nil, pure, Except.pure, Except.ok.injEq] at h
    subst h; rfl
  | (r, ax) :: l, out, h => by
    obtain ⟨b, bs, hb, hbs, rfl⟩ := mapM_cons_ok _ _ l out h
    rw [maskCheck_id l bs hbs, List.map_cons]
    congr 1
    cases r with
    | mask m =>
      simp only [] at hb
      split at hb
      · simp only [pure, Except.pure, Except.ok.injEq] at hb; exact hb.symm
      · cases hb
    | int i => simp only [pure, Except.pure, Except.ok.injEq] at hb; exact hb.symm
    | ints li => simp only [pure, Except.pure, Except.ok.injEq] at hb; exact hb.symm
    | slice a b c => simp only [pure, Except.pure, Except.ok.injEq] at hb; exact hb.symm

/-- (1a) the axes of a variable indexed by position with the Dataset's resolved indices (restricted to the variable's
dimensions) are axes of the Dataset's selection: the hypothesis `hsub` of `foldlM_takeStep` under `OwnAxes` -/
theorem takeRaw_axes_sub {α : Type} (AXs : List Axis) (raw : List RawIx) (pix : List PosIx) (v r : DimArray α)
    (hd : (AXs.map (·.name)).Nodup) (hown : ∀ ax ∈ v.axes, ax ∈ AXs) (hlen : raw.length = AXs.length)
    (hpix : (raw.zip AXs).mapM (fun (x : RawIx × Axis) => resolveRaw x.1 x.2.size) = .ok pix)
    (ht : takeRaw v (rawFor (AXs.map (·.name)) raw v.axes) = .ok r) :
    ∀ ax ∈ r.axes, ax ∈ getAxesOrtho AXs raw pix := by
  unfold takeRaw at ht
  obtain ⟨raw1, h1, ht⟩ := except_bind_ok _ _ _ ht
  obtain ⟨pix1, h2, ht⟩ := except_bind_ok _ _ _ ht
  simp only [pure, Except.pure, Except.ok.injEq] at ht
  subst ht
  have hR : raw1 = rawFor (AXs.map (·.name)) raw v.axes := by
    rw [maskCheck_id _ raw1 h1]
    exact List.map_fst_zip (by simp [rawFor])
  subst hR
  have hl1 := mapM_ok_length _ _ _ h2
  have hlp := mapM_ok_length _ _ _ hpix
  simp only [List.length_zip, rawFor, List.length_map, Nat.min_self] at hl1
  simp only [List.length_zip, hlen, Nat.min_self] at hlp
  intro ax' hax'
  simp only [getAxesOrtho, List.mem_filterMap] at hax' ⊢
  obtain ⟨⟨⟨a, rr⟩, p⟩, hmem, hf⟩ := hax'
  obtain ⟨i, hi, hget⟩ := List.mem_iff_getElem.1 hmem
  simp only [List.length_zip, rawFor, List.length_map] at hi
  simp only [List.getElem_zip, Prod.mk.injEq, rawFor, List.getElem_map] at hget
  obtain ⟨⟨ha, hrr⟩, hp⟩ := hget
  rw [ha] at hrr
  have hiv : i < v.axes.length := by omega
  have haAX : a ∈ AXs := hown a (ha ▸ List.getElem_mem hiv)
  -- the resolved position of the variable's index
  obtain ⟨y, hy1, hy2⟩ := mapM_ok_idx _ _ _ h2 i (rr, a) (by
    rw [List.getElem?_eq_getElem (by simp [rawFor]; omega)]
    simp only [List.getElem_zip, rawFor, List.getElem_map, ha, hrr])
  have hyp : y = p := by
    rw [List.getElem?_eq_getElem (by omega)] at hy1
    simp only [Option.some.injEq] at hy1
    rw [← hy1, hp]
  subst hyp
  -- the Dataset's side
  have hjm : a.name ∈ AXs.map (·.name) := List.mem_map_of_mem haAX
  have hj : (AXs.map (·.name)).idxOf a.name < (AXs.map (·.name)).length := List.idxOf_lt_length_iff.2 hjm
  have hj' : (AXs.map (·.name)).idxOf a.name < AXs.length := by simpa using hj
  have hname : (AXs[(AXs.map (·.name)).idxOf a.name]).name = a.name := by
    have := List.getElem_idxOf hj
    simpa only [List.getElem_map] using this
  have hax : AXs[(AXs.map (·.name)).idxOf a.name] = a := mem_name_inj hd (List.getElem_mem hj') haAX hname
  have hrj : raw[(AXs.map (·.name)).idxOf a.name]'(by omega) = rr := by
    rw [← hrr, List.getD_eq_getElem?_getD, List.getElem?_eq_getElem (by omega), Option.getD_some]
  obtain ⟨z, hz1, hz2⟩ := mapM_ok_idx _ _ _ hpix ((AXs.map (·.name)).idxOf a.name) (rr, a) (by
    rw [List.getElem?_eq_getElem (by simp; omega)]
    simp only [List.getElem_zip, hrj, hax])
  simp only at hy2 hz2
  rw [hy2] at hz2
  cases hz2
  refine ⟨((a, rr), y), ?_, hf⟩
  rw [List.mem_iff_getElem]
  refine ⟨(AXs.map (·.name)).idxOf a.name, by simp; omega, ?_⟩
  rw [List.getElem?_eq_getElem (by omega)] at hz1
  simp only [Option.some.injEq] at hz1
  simp only [List.getElem_zip, hax, hrj, hz1]

/-- one step of the loop of `Dataset.take`: read the variable, index it by position, store it -/
def takeStep {α} (ds : Ds α) (raw : List RawIx) (acc : Ds α) (nm : String) : Except Err (Ds α) :=
  match ds.get? nm with
  | none => .error .key
  | some v => do
    let r ← takeRaw v (rawFor ds.dims raw v.axes)
    setItem acc nm r

/-- the loop of `Dataset.take` in closed form: when every indexed variable comes back over axes of the Dataset under
construction (`hsub`), the run of `__setitem__` over distinct names builds the variable list in the order of the names,
each entry being the positional read (`takeRaw`) of the variable of that name -/
theorem foldlM_takeStep {α : Type} (ds : Ds α) (raw : List RawIx) (AX : List Axis) (hnd : (AX.map (·.name)).Nodup)
    (hsub : ∀ k v r, ds.get? k = some v → takeRaw v (rawFor ds.dims raw v.axes) = .ok r → ∀ ax ∈ r.axes, ax ∈ AX) :
    ∀ (names : List String) (pre : List (String × DimArray α)) (att : Attrs) (out : Ds α), names.Nodup →
      (∀ k ∈ names, ∀ kv' ∈ pre, kv'.1 ≠ k) →
      names.foldlM (takeStep ds raw) ({ axes := AX, vars := pre, attrs := att } : Ds α) = .ok out →
      out.axes = AX ∧ out.attrs = att ∧ ∃ rs : List (String × DimArray α), out.vars = pre ++ rs ∧ rs.map (·.1) = names ∧
        ∀ kr ∈ rs, ∃ v, ds.get? kr.1 = some v ∧ takeRaw v (rawFor ds.dims raw v.axes) = .ok kr.2
  | [], pre, att, out, _, _, h => by
    simp only [List.foldlM_nil, pure, Except.pure, Except.ok.injEq] at h
    subst h
    exact ⟨rfl, rfl, [], by simp, rfl, by simp⟩
  | k :: names, pre, att, out, hn, hpre, h => by
    rw [List.foldlM_cons] at h
    obtain ⟨acc, hstep, h⟩ := except_bind_ok _ _ _ h
    unfold takeStep at hstep
    cases hget : ds.get? k with
    | none => rw [hget] at hstep; cases hstep
    | some v =>
      rw [hget] at hstep
      simp only [] at hstep
      obtain ⟨r, hr, hset⟩ := except_bind_ok _ _ _ hstep
      rw [setItem_own { axes := AX, vars := pre, attrs := att } k r hnd (hsub k v r hget hr)] at hset
      have hf : pre.filter (·.1 != k) = pre := by
        rw [List.filter_eq_self]
        intro kv' hkv'
        have := hpre k (by simp) kv' hkv'
        simpa using this
      simp only [hf, Except.ok.injEq] at hset
      subst hset
      rw [List.nodup_cons] at hn
      obtain ⟨h1, h2, rs, h3, h4, h5⟩ := foldlM_takeStep ds raw AX hnd hsub names (pre ++ [(k, r)]) att out hn.2
        (by
          intro k' hk' kv' hkv'
          rcases List.mem_append.1 hkv' with hkv' | hkv'
          · exact hpre k' (by simp [hk']) kv' hkv'
          · simp only [List.mem_singleton] at hkv'
            subst hkv'
            intro heq
            simp only at heq
            subst heq
            exact hn.1 hk') h
      refine ⟨h1, h2, (k, r) :: rs, by rw [h3]; simp, by simp [h4], ?_⟩
      intro kr hkr
      rcases List.mem_cons.1 hkr with rfl | hkr
      · exact ⟨v, hget, hr⟩
      · exact h5 kr hkr

/-- `Dataset.take` (any form of index, `names=`) in closed form, given `hsub` -/
theorem takeDsMulti_closed {α : Type} (ds out : Ds α) (names : Option (List String)) (ui : UserIndex) (cfg : IndexCfg)
    (hd : ds.dims.Nodup) (hn : (names.getD ds.keys).Nodup)
    (hsub : ∀ raw pix, getIndices ds.axes ui cfg = .ok raw →
      (raw.zip ds.axes).mapM (fun (x : RawIx × Axis) => resolveRaw x.1 x.2.size) = .ok pix →
      ∀ k v r, ds.get? k = some v → takeRaw v (rawFor ds.dims raw v.axes) = .ok r →
        ∀ ax ∈ r.axes, ax ∈ getAxesOrtho ds.axes raw pix)
    (h : takeDsMulti ds names ui cfg = .ok out) :
    ∃ raw pix, getIndices ds.axes ui cfg = .ok raw ∧
      (raw.zip ds.axes).mapM (fun (x : RawIx × Axis) => resolveRaw x.1 x.2.size) = .ok pix ∧
      out.axes = getAxesOrtho ds.axes raw pix ∧ out.attrs = ds.attrs ∧ out.keys = names.getD ds.keys ∧
      (∀ kr ∈ out.vars, ∃ v, ds.get? kr.1 = some v ∧ takeRaw v (rawFor ds.dims raw v.axes) = .ok kr.2) := by
  unfold takeDsMulti at h
  obtain ⟨raw, hraw, h⟩ := except_bind_ok _ _ _ h
  obtain ⟨pix, hpix, h⟩ := except_bind_ok _ _ _ h
  obtain ⟨o, hfold, h⟩ := except_bind_ok _ _ _ h
  simp only [pure, Except.pure, Except.ok.injEq] at h
  subst h
  have hnd : ((getAxesOrtho ds.axes raw pix).map (·.name)).Nodup := getAxesOrtho_names_nodup ds.axes raw pix hd
  obtain ⟨h1, _, rs, h3, h4, h5⟩ := foldlM_takeStep ds raw (getAxesOrtho ds.axes raw pix) hnd
    (hsub raw pix hraw hpix) (names.getD ds.keys) [] [] o hn (by simp) hfold
  refine ⟨raw, pix, hraw, hpix, h1, rfl, ?_, ?_⟩
  · simp only [Ds.keys, h3, List.nil_append, h4]
  · simp only [h3, List.nil_append]
    exact h5

/-! ### step (3): `takeRaw` with the indices resolved on the variable's own axes is `take` -/

theorem loc_not_mask (L : List Label) (kind : Kind) (ix : Ix) (tol : Option Tol) (m : List Bool)
    (hix : ∀ m', ix ≠ .mask m') (h : loc L kind ix tol = .ok (.mask m)) : False := by
  unfold loc at h
  simp only [] at h
  split at h
  · obtain ⟨ab, _, h⟩ := except_bind_ok _ _ _ h
    cases h
  · split at h <;> cases h
  · obtain ⟨p, _, h⟩ := except_bind_ok _ _ _ h
    cases h
  · exact hix _ rfl
  · split at h
    · obtain ⟨p, _, h⟩ := except_bind_ok _ _ _ h
      cases h
    · split at h
      · cases h
      · split at h
        · cases h
        · split at h <;> cases h
  · cases h

theorem ixToRaw_not_mask (ix : Ix) (m : List Bool)
    (hix : ∀ m', ix ≠ .mask m') (h : ixToRaw ix = .ok (.mask m)) : False := by
  cases ix with
  | scalar v => obtain ⟨p, _, h⟩ := except_bind_ok _ _ _ h; cases h
  | list vs => obtain ⟨p, _, h⟩ := except_bind_ok _ _ _ h; cases h
  | mask m' => exact hix _ rfl
  | ellipsis => cases h
  | slice s e st =>
    unfold ixToRaw at h
    simp only [] at h
    cases s <;> cases e <;>
    · simp only [bind, Except.bind, pure, Except.pure, Functor.map, Except.map] at h
      repeat' (first | cases h | split at h)

/-- what `_get_indices` hands over: a boolean index has the size of its axis -/
theorem getIndices_mask (axes : List Axis) (ui : UserIndex) (cfg : IndexCfg) (raw : List RawIx)
    (h : getIndices axes ui cfg = .ok raw) :
    ∀ x ∈ raw.zip axes, ∀ m, x.1 = .mask m → (m.length == x.2.size) = true := by
  unfold getIndices at h
  obtain ⟨key, hkey, h⟩ := except_bind_ok _ _ _ h
  intro x hx m hm
  obtain ⟨i, hi, hget⟩ := List.mem_iff_getElem.1 hx
  have hl := mapM_ok_length _ _ _ h
  simp only [List.length_zip] at hi hl
  obtain ⟨y, hy1, hF⟩ := mapM_ok_idx _ _ _ h i ((key.zip axes)[i]'(by simp only [List.length_zip]; omega))
    (List.getElem?_eq_getElem _)
  rw [List.getElem?_eq_getElem (by omega)] at hy1
  simp only [Option.some.injEq] at hy1
  simp only [List.getElem_zip] at hget hF
  have hx1 : x.1 = raw[i] := by rw [← hget]
  have hx2 : x.2 = axes[i] := by rw [← hget]
  rw [hx2]
  rw [hx1, hy1] at hm
  subst hm
  generalize key[i] = ix at hF
  generalize axes[i] = ax at hF
  cases ix with
  | mask m' =>
    simp only [] at hF
    split at hF
    · rename_i hc
      obtain ⟨r, hr, hF⟩ := except_bind_ok _ _ _ hF
      cases hr
      simp only [pure, Except.pure, Except.ok.injEq, RawIx.mask.injEq] at hF
      subst hF
      exact hc
    · obtain ⟨r, hr, hF⟩ := except_bind_ok _ _ _ hF
      cases hr
  | scalar v =>
    simp only [] at hF
    exfalso
    split at hF
    · obtain ⟨r, hr, hF⟩ := except_bind_ok _ _ _ hF
      have hrm : r = .mask m := by
        cases r <;> simp only [pure, Except.pure, Except.ok.injEq] at hF <;>
          first | exact hF | (split at hF <;> cases hF)
      subst hrm
      exact loc_not_mask _ _ _ _ _ (fun _ he => by cases he) hr
    · obtain ⟨r, hr, hF⟩ := except_bind_ok _ _ _ hF
      have hrm : r = .mask m := by
        cases r <;> simp only [pure, Except.pure, Except.ok.injEq] at hF <;>
          first | exact hF | (split at hF <;> cases hF)
      subst hrm
      exact ixToRaw_not_mask _ _ (fun _ he => by cases he) hr
  | list v =>
    simp only [] at hF
    exfalso
    split at hF
    · obtain ⟨r, hr, hF⟩ := except_bind_ok _ _ _ hF
      have hrm : r = .mask m := by
        cases r <;> simp only [pure, Except.pure, Except.ok.injEq] at hF <;>
          first | exact hF | (split at hF <;> cases hF)
      subst hrm
      exact loc_not_mask _ _ _ _ _ (fun _ he => by cases he) hr
    · obtain ⟨r, hr, hF⟩ := except_bind_ok _ _ _ hF
      have hrm : r = .mask m := by
        cases r <;> simp only [pure, Except.pure, Except.ok.injEq] at hF <;>
          first | exact hF | (split at hF <;> cases hF)
      subst hrm
      exact ixToRaw_not_mask _ _ (fun _ he => by cases he) hr
  | slice a b c =>
    simp only [] at hF
    exfalso
    split at hF
    · obtain ⟨r, hr, hF⟩ := except_bind_ok _ _ _ hF
      have hrm : r = .mask m := by
        cases r <;> simp only [pure, Except.pure, Except.ok.injEq] at hF <;>
          first | exact hF | (split at hF <;> cases hF)
      subst hrm
      exact loc_not_mask _ _ _ _ _ (fun _ he => by cases he) hr
    · obtain ⟨r, hr, hF⟩ := except_bind_ok _ _ _ hF
      have hrm : r = .mask m := by
        cases r <;> simp only [pure, Except.pure, Except.ok.injEq] at hF <;>
          first | exact hF | (split at hF <;> cases hF)
      subst hrm
      exact ixToRaw_not_mask _ _ (fun _ he => by cases he) hr
  | ellipsis =>
    simp only [] at hF
    exfalso
    split at hF
    · obtain ⟨r, hr, hF⟩ := except_bind_ok _ _ _ hF
      have hrm : r = .mask m := by
        cases r <;> simp only [pure, Except.pure, Except.ok.injEq] at hF <;>
          first | exact hF | (split at hF <;> cases hF)
      subst hrm
      exact loc_not_mask _ _ _ _ _ (fun _ he => by cases he) hr
    · obtain ⟨r, hr, hF⟩ := except_bind_ok _ _ _ hF
      have hrm : r = .mask m := by
        cases r <;> simp only [pure, Except.pure, Except.ok.injEq] at hF <;>
          first | exact hF | (split at hF <;> cases hF)
      subst hrm
      exact ixToRaw_not_mask _ _ (fun _ he => by cases he) hr

/-- (3) the positional read with the indices `_get_indices` resolves on the variable's own axes IS the variable's `take` -/
theorem takeRaw_eq_take {α : Type} (v : DimArray α) (ui : UserIndex) (cfg : IndexCfg) (raw : List RawIx)
    (h : getIndices v.axes ui cfg = .ok raw) : takeRaw v raw = take v ui cfg := by
  have hlen := getIndices_length _ _ _ _ h
  have hm := getIndices_mask _ _ _ _ h
  unfold takeRaw take
  rw [h, mapM_ok_map _ (·.1) (raw.zip v.axes) (by
    intro x hx
    obtain ⟨r, ax⟩ := x
    cases r with
    | mask m => simp only []; rw [if_pos (hm (.mask m, ax) hx m rfl)]; rfl
    | int i => rfl
    | ints l => rfl
    | slice a b c => rfl), List.map_fst_zip (by omega)]

end DSV
end DimModel

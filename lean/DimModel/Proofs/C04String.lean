/-
C04 - a dimension name without a comma is not split by `splitOnComma` (the legacy `String.splitOn`) and is not
seen as a grouped name by `reshape` (`d.contains ','`).
-/
import DimModel.Lib.Reshape
namespace DimModel
open Lib

/-- UTF-8 size of a list of characters -/
def bsize : List Char → Nat
  | [] => 0
  | c :: cs => c.utf8Size + bsize cs

theorem bsize_append (l₁ l₂ : List Char) : bsize (l₁ ++ l₂) = bsize l₁ + bsize l₂ := by
  induction l₁ with
  | nil => simp [bsize]
  | cons c cs ih => simp [bsize, ih, Nat.add_assoc]

theorem utf8ByteSize_ofList_eq (l : List Char) : (String.ofList l).utf8ByteSize = bsize l := by
  induction l with
  | nil => simp [bsize]
  | cons c cs ih =>
    rw [String.ofList_cons, String.utf8ByteSize_append, String.utf8ByteSize_singleton, ih]
    rfl

theorem utf8ByteSize_eq_bsize (s : String) : s.utf8ByteSize = bsize s.toList := by
  rw [← utf8ByteSize_ofList_eq, String.ofList_toList]

theorem utf8GetAux_at (pre suf : List Char) (c : Char) : ∀ (i : String.Pos.Raw),
    String.Pos.Raw.utf8GetAux (pre ++ c :: suf) i ⟨i.byteIdx + bsize pre⟩ = c := by
  induction pre with
  | nil => intro i; simp [String.Pos.Raw.utf8GetAux, bsize]
  | cons x pre ih =>
    intro i
    have hx := Char.utf8Size_pos x
    have hne : ¬ (i = (⟨i.byteIdx + bsize (x :: pre)⟩ : String.Pos.Raw)) := by
      intro h
      have := congrArg String.Pos.Raw.byteIdx h
      simp only [bsize] at this
      omega
    simp only [List.cons_append, String.Pos.Raw.utf8GetAux, hne, if_false]
    have := ih (i + x)
    simp only [String.Pos.Raw.byteIdx_add_char] at this
    have e : i.byteIdx + bsize (x :: pre) = i.byteIdx + x.utf8Size + bsize pre := by
      simp only [bsize]; omega
    rw [e]
    exact this

theorem extract_go₂_all (l : List Char) : ∀ (i : String.Pos.Raw),
    String.Pos.Raw.extract.go₂ l i ⟨i.byteIdx + bsize l⟩ = l := by
  induction l with
  | nil => intro i; simp [String.Pos.Raw.extract.go₂]
  | cons c cs ih =>
    intro i
    have hc := Char.utf8Size_pos c
    have hne : ¬ (i = (⟨i.byteIdx + bsize (c :: cs)⟩ : String.Pos.Raw)) := by
      intro h
      have := congrArg String.Pos.Raw.byteIdx h
      simp only [bsize] at this
      omega
    simp only [String.Pos.Raw.extract.go₂, hne, if_false, List.cons.injEq, true_and]
    have := ih (i + c)
    simp only [String.Pos.Raw.byteIdx_add_char] at this
    have e : i.byteIdx + bsize (c :: cs) = i.byteIdx + c.utf8Size + bsize cs := by
      simp only [bsize]; omega
    rw [e]
    exact this

theorem extract_all (s : String) : String.Pos.Raw.extract s 0 ⟨bsize s.toList⟩ = s := by
  unfold String.Pos.Raw.extract
  cases hl : s.toList with
  | nil =>
    have : s = "" := String.toList_eq_nil_iff.mp hl
    simp [bsize, this]
  | cons c cs =>
    have hc := Char.utf8Size_pos c
    have h1 : ¬ ((0 : String.Pos.Raw).byteIdx ≥ bsize (c :: cs)) := by
      simp only [bsize, String.Pos.Raw.byteIdx_zero]; omega
    simp only [h1, if_false]
    rw [hl]
    simp only [String.Pos.Raw.extract.go₁, if_true]
    have := extract_go₂_all (c :: cs) 0
    simp only [String.Pos.Raw.byteIdx_zero, Nat.zero_add] at this
    rw [this, ← hl, String.ofList_toList]

theorem splitOnAux_no_comma (s : String) : ∀ (suf pre : List Char), s.toList = pre ++ suf → ',' ∉ suf →
    String.splitOnAux s "," 0 ⟨bsize pre⟩ 0 [] = [s] := by
  intro suf
  induction suf with
  | nil =>
    intro pre hs _
    rw [String.splitOnAux]
    have hend : String.Pos.Raw.atEnd s ⟨bsize pre⟩ = true := by
      simp only [String.Pos.Raw.atEnd, utf8ByteSize_eq_bsize, hs, List.append_nil, ge_iff_le, Nat.le_refl,
        decide_true]
    simp only [hend, if_true, List.reverse_cons, List.reverse_nil, List.nil_append, List.cons.injEq, and_true]
    have : pre = s.toList := by simpa using hs.symm
    rw [this]
    exact extract_all s
  | cons c suf ih =>
    intro pre hs hc
    rw [String.splitOnAux]
    have hcpos := Char.utf8Size_pos c
    have hend : String.Pos.Raw.atEnd s ⟨bsize pre⟩ = false := by
      simp only [String.Pos.Raw.atEnd, utf8ByteSize_eq_bsize, hs, bsize_append, bsize, ge_iff_le,
        decide_eq_false_iff_not]
      omega
    have hget : String.Pos.Raw.get s ⟨bsize pre⟩ = c := by
      unfold String.Pos.Raw.get
      rw [hs]
      have := utf8GetAux_at pre suf c 0
      simpa using this
    have hsep : String.Pos.Raw.get "," 0 = ',' := by
      unfold String.Pos.Raw.get
      simp [String.Pos.Raw.utf8GetAux]
    have hne : (c == ',') = false := by
      have : c ≠ ',' := fun h => hc (by simp [h])
      simpa using this
    simp only [hend, Bool.false_eq_true, if_false, hget, hsep, hne]
    have hnext : String.Pos.Raw.next s (String.Pos.Raw.unoffsetBy ⟨bsize pre⟩ 0) = ⟨bsize (pre ++ [c])⟩ := by
      have e0 : String.Pos.Raw.unoffsetBy ⟨bsize pre⟩ 0 = ⟨bsize pre⟩ := by
        simp [String.Pos.Raw.unoffsetBy]
      rw [e0]
      unfold String.Pos.Raw.next
      rw [hget]
      apply String.Pos.Raw.ext
      simp [String.Pos.Raw.byteIdx_add_char, bsize_append, bsize]
    rw [hnext]
    exact ih (pre ++ [c]) (by simp [hs]) (fun h => hc (by simp [h]))

/-- a name without a comma is one name -/
theorem splitOnComma_no_comma (d : String) (h : ',' ∉ d.toList) : splitOnComma d = [d] := by
  unfold splitOnComma String.splitOn
  have : ("," == "") = false := by decide
  simp only [this, Bool.false_eq_true, if_false]
  have := splitOnAux_no_comma d d.toList [] (by simp) h
  simpa [bsize] using this

theorem contains_comma_false (d : String) (h : ',' ∉ d.toList) : d.contains ',' = false := by
  rw [String.contains_char_eq]
  simpa using h

/-- ... whereas a name WITH a comma is read as two names (evaluated by unfolding the legacy `String.splitOn`) -/
theorem splitOnComma_xy : splitOnComma "x,y" = ["x", "y"] := by
  unfold splitOnComma String.splitOn
  have h0 : ("," == "") = false := by decide
  simp only [h0, Bool.false_eq_true, if_false]
  -- 'x'
  rw [String.splitOnAux]
  have a1 : String.Pos.Raw.atEnd "x,y" 0 = false := by decide
  have g1 : (String.Pos.Raw.get "x,y" 0 == String.Pos.Raw.get "," 0) = false := by decide
  have n1 : String.Pos.Raw.next "x,y" (String.Pos.Raw.unoffsetBy 0 0) = ⟨1⟩ := by decide
  simp only [a1, g1, n1, Bool.false_eq_true, if_false]
  -- ','
  rw [String.splitOnAux]
  have a2 : String.Pos.Raw.atEnd "x,y" ⟨1⟩ = false := by decide
  have g2 : (String.Pos.Raw.get "x,y" ⟨1⟩ == String.Pos.Raw.get "," 0) = true := by decide
  have n2 : String.Pos.Raw.next "x,y" ⟨1⟩ = ⟨2⟩ := by decide
  have j2 : String.Pos.Raw.atEnd "," (String.Pos.Raw.next "," 0) = true := by decide
  have e2 : String.Pos.Raw.extract "x,y" 0 (String.Pos.Raw.unoffsetBy ⟨2⟩ (String.Pos.Raw.next "," 0)) = "x" := by decide
  simp only [a2, g2, n2, j2, e2, Bool.false_eq_true, if_false, if_true]
  -- 'y'
  rw [String.splitOnAux]
  have a3 : String.Pos.Raw.atEnd "x,y" ⟨2⟩ = false := by decide
  have g3 : (String.Pos.Raw.get "x,y" ⟨2⟩ == String.Pos.Raw.get "," 0) = false := by decide
  have n3 : String.Pos.Raw.next "x,y" (String.Pos.Raw.unoffsetBy ⟨2⟩ 0) = ⟨3⟩ := by decide
  simp only [a3, g3, n3, Bool.false_eq_true, if_false]
  -- end
  rw [String.splitOnAux]
  have a4 : String.Pos.Raw.atEnd "x,y" ⟨3⟩ = true := by decide
  have e4 : String.Pos.Raw.extract "x,y" ⟨2⟩ ⟨3⟩ = "y" := by decide
  simp only [a4, e4, if_true, List.reverse_cons, List.reverse_nil, List.nil_append, List.cons_append]

/-- non-vacuity -/
example : ',' ∉ "x".toList ∧ ',' ∉ "time".toList := by decide

end DimModel

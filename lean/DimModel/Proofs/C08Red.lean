/-
Helper lemmas for the fibre-level semantics of the reductions (Lib/Reduce.lean): NaN absorbs, the NaN-skipping
variants are the plain functions on the fibre without its NaNs, the infinities are values, order independence.
-/
import DimModel.Lib.Reduce
namespace DimModel
open Lib Lib.XVal

namespace Lib.XVal

@[simp] theorem add_nan_left (a : XVal) : add nan a = nan := by cases a <;> rfl
@[simp] theorem add_nan_right (a : XVal) : add a nan = nan := by cases a <;> rfl
@[simp] theorem mul_nan_left (a : XVal) : mul nan a = nan := by cases a <;> rfl
@[simp] theorem mul_nan_right (a : XVal) : mul a nan = nan := by cases a <;> rfl
@[simp] theorem min_nan_left (a : XVal) : XVal.min nan a = nan := by simp [XVal.min, isNan]
@[simp] theorem min_nan_right (a : XVal) : XVal.min a nan = nan := by simp [XVal.min, isNan]
@[simp] theorem max_nan_left (a : XVal) : XVal.max nan a = nan := by simp [XVal.max, isNan]
@[simp] theorem max_nan_right (a : XVal) : XVal.max a nan = nan := by simp [XVal.max, isNan]
@[simp] theorem sub_nan_right (a : XVal) : sub a nan = nan := by simp [sub, neg]
@[simp] theorem sub_nan_left (a : XVal) : sub nan a = nan := by simp [sub]

theorem isNan_iff (a : XVal) : a.isNan = true ↔ a = nan := by cases a <;> simp [isNan]
theorem isNan_false_iff (a : XVal) : a.isNan = false ↔ a ≠ nan := by cases a <;> simp [isNan]

theorem add_zero (a : XVal) : add a (fin 0) = a := by
  cases a <;> simp [add, Rat.add_zero]

theorem sgn_one : sgn (fin 1) = 1 := by
  have h1 : ¬ ((1 : Rat) < 0) := by decide
  have h2 : ¬ ((1 : Rat) = 0) := by decide
  simp [sgn, h1, h2]

theorem mul_one (a : XVal) : mul a (fin 1) = a := by
  cases a with
  | nan => rfl
  | fin q => simp [mul, Rat.mul_one]
  | ninf => simp only [mul, sgn_one]; simp [sgn]
  | pinf => simp only [mul, sgn_one]; simp [sgn]

theorem add_right_comm (a b c : XVal) : add (add a b) c = add (add a c) b := by
  cases a <;> cases b <;> cases c <;> simp [add]
  grind

theorem min_eq_or (a b : XVal) : XVal.min a b = a ∨ XVal.min a b = b := by
  unfold XVal.min
  split
  · cases a <;> cases b <;> simp_all [isNan]
  · split <;> simp

theorem max_eq_or (a b : XVal) : XVal.max a b = a ∨ XVal.max a b = b := by
  unfold XVal.max
  split
  · cases a <;> cases b <;> simp_all [isNan]
  · split <;> simp

theorem min_pinf_left (a : XVal) : XVal.min pinf a = a := by cases a <;> simp [XVal.min, isNan, le]
theorem max_ninf_left (a : XVal) : XVal.max ninf a = a := by cases a <;> simp [XVal.max, isNan, le]

theorem max_pinf_left (a : XVal) (h : a ≠ nan) : XVal.max pinf a = pinf := by cases a <;> simp_all [XVal.max, isNan, le]
theorem max_pinf_right (a : XVal) (h : a ≠ nan) : XVal.max a pinf = pinf := by cases a <;> simp_all [XVal.max, isNan, le]
theorem min_ninf_left (a : XVal) (h : a ≠ nan) : XVal.min ninf a = ninf := by cases a <;> simp_all [XVal.min, isNan, le]
theorem min_ninf_right (a : XVal) (h : a ≠ nan) : XVal.min a ninf = ninf := by cases a <;> simp_all [XVal.min, isNan, le]

theorem add_pinf_left (a : XVal) (h : a ≠ nan) (h' : a ≠ ninf) : add pinf a = pinf := by cases a <;> simp_all [add]
theorem add_pinf_right (a : XVal) (h : a ≠ nan) (h' : a ≠ ninf) : add a pinf = pinf := by cases a <;> simp_all [add]

end Lib.XVal

/-- a fold of an operation that NaN absorbs is NaN as soon as the start value or a cell is NaN -/
theorem foldl_absorb (op : XVal → XVal → XVal) (hl : ∀ a, op nan a = nan) (hr : ∀ a, op a nan = nan) :
    ∀ (l : List XVal) (acc : XVal), (acc = nan ∨ nan ∈ l) → l.foldl op acc = nan := by
  intro l
  induction l with
  | nil => intro acc h; simpa using h
  | cons x xs ih =>
    intro acc h
    rw [List.foldl_cons]
    apply ih
    rcases h with h | h
    · left; rw [h, hl]
    · rcases List.mem_cons.mp h with h | h
      · left; rw [← h, hr]
      · right; exact h

theorem mem_dropNan {x : XVal} {l : List XVal} : x ∈ dropNan l ↔ x ∈ l ∧ x ≠ nan := by
  simp [dropNan, List.mem_filter, XVal.isNan_false_iff]

theorem dropNan_no_nan (l : List XVal) : nan ∉ dropNan l := by
  intro h; exact (mem_dropNan.mp h).2 rfl

theorem dropNan_eq_self {l : List XVal} (h : nan ∉ l) : dropNan l = l := by
  unfold dropNan
  rw [List.filter_eq_self]
  intro a ha
  cases a <;> simp_all [isNan]

theorem dropNan_any (l : List XVal) : (dropNan l).any isNan = false := by
  rw [List.any_eq_false]
  intro x hx
  have := (mem_dropNan.mp hx).2
  cases x <;> simp_all [isNan]

theorem any_isNan_of_mem {l : List XVal} (h : nan ∈ l) : l.any isNan = true :=
  List.any_eq_true.mpr ⟨nan, h, rfl⟩

theorem any_isNan_false {l : List XVal} (h : nan ∉ l) : l.any isNan = false := by
  rw [List.any_eq_false]
  intro x hx
  cases x <;> simp_all [isNan]

/-! ### plain functions: a NaN in the fibre gives NaN -/

theorem xsum_nan {l : List XVal} (h : nan ∈ l) : xsum l = nan :=
  foldl_absorb add add_nan_left add_nan_right l _ (Or.inr h)

theorem xprod_nan {l : List XVal} (h : nan ∈ l) : xprod l = nan :=
  foldl_absorb mul mul_nan_left mul_nan_right l _ (Or.inr h)

theorem xmean_nan {l : List XVal} (h : nan ∈ l) : xmean l = nan := by
  unfold xmean
  have : l.isEmpty = false := by cases l <;> simp_all
  simp [this, xsum_nan h]

theorem xmin_nan {l : List XVal} (h : nan ∈ l) : xmin l = .ok nan := by
  cases l with
  | nil => simp at h
  | cons x xs =>
    show Except.ok _ = _
    rw [foldl_absorb XVal.min min_nan_left min_nan_right xs x (by simpa [eq_comm] using h)]

theorem xmax_nan {l : List XVal} (h : nan ∈ l) : xmax l = .ok nan := by
  cases l with
  | nil => simp at h
  | cons x xs =>
    show Except.ok _ = _
    rw [foldl_absorb XVal.max max_nan_left max_nan_right xs x (by simpa [eq_comm] using h)]

theorem xptp_nan {l : List XVal} (h : nan ∈ l) : xptp l = .ok nan := by
  simp [xptp, xmin_nan h, xmax_nan h, bind, Except.bind, pure, Except.pure]

theorem xmedian_nan {l : List XVal} (h : nan ∈ l) : xmedian l = nan := by
  simp [xmedian, any_isNan_of_mem h]

theorem xvar_nan {l : List XVal} (h : nan ∈ l) : xvar l = nan := by
  unfold xvar
  simp only [xmean_nan h, sub_nan_right, mul_nan_left]
  apply xmean_nan
  exact List.mem_map.mpr ⟨nan, h, rfl⟩

/-! ### NaN-skipping variants = the plain function on the fibre without its NaNs -/

theorem foldl_add_replace (l : List XVal) : ∀ acc,
    (l.map fun x => if x.isNan then fin 0 else x).foldl add acc = (dropNan l).foldl add acc := by
  induction l with
  | nil => intro acc; rfl
  | cons x xs ih =>
    intro acc
    cases x <;> simp [dropNan, isNan, XVal.add_zero] <;> exact ih _

theorem foldl_mul_replace (l : List XVal) : ∀ acc,
    (l.map fun x => if x.isNan then fin 1 else x).foldl mul acc = (dropNan l).foldl mul acc := by
  induction l with
  | nil => intro acc; rfl
  | cons x xs ih =>
    intro acc
    cases x <;> simp [dropNan, isNan, XVal.mul_one] <;> exact ih _

theorem xnansum_eq (l : List XVal) : xnansum l = xsum (dropNan l) := foldl_add_replace l _
theorem xnanprod_eq (l : List XVal) : xnanprod l = xprod (dropNan l) := foldl_mul_replace l _

theorem dropNan_isEmpty_false {l : List XVal} (h : dropNan l ≠ []) : (dropNan l).isEmpty = false ∧ l.isEmpty = false := by
  cases l with
  | nil => simp [dropNan] at h
  | cons x xs => cases hd : dropNan (x :: xs) <;> simp_all

theorem xnanmin_eq {l : List XVal} (h : dropNan l ≠ []) : xnanmin l = xmin (dropNan l) := by
  simp [xnanmin, dropNan_isEmpty_false h]
theorem xnanmax_eq {l : List XVal} (h : dropNan l ≠ []) : xnanmax l = xmax (dropNan l) := by
  simp [xnanmax, dropNan_isEmpty_false h]
theorem xmaptp_eq {l : List XVal} (h : dropNan l ≠ []) : xmaptp l = xptp (dropNan l) := by
  simp [xmaptp, dropNan_isEmpty_false h]
theorem xnanmedian_eq (l : List XVal) : xnanmedian l = xmedian (dropNan l) := by
  simp [xnanmedian, xmedian, dropNan_any]

/-! ### the infinities are values -/

theorem foldl_max_pinf : ∀ (l : List XVal) (acc : XVal), nan ∉ l → acc ≠ nan → (acc = pinf ∨ pinf ∈ l) →
    l.foldl XVal.max acc = pinf := by
  intro l
  induction l with
  | nil => intro acc _ _ h; simpa using h
  | cons x xs ih =>
    intro acc hn ha h
    have hx : x ≠ nan := fun e => hn (by simp [e])
    have hxs : nan ∉ xs := fun e => hn (by simp [e])
    rw [List.foldl_cons]
    have hm : XVal.max acc x ≠ nan := by rcases max_eq_or acc x with e | e <;> rw [e] <;> assumption
    apply ih _ hxs hm
    rcases h with h | h
    · left; rw [h]; exact max_pinf_left x hx
    · rcases List.mem_cons.mp h with h | h
      · left; rw [← h]; exact max_pinf_right acc ha
      · right; exact h

theorem foldl_min_ninf : ∀ (l : List XVal) (acc : XVal), nan ∉ l → acc ≠ nan → (acc = ninf ∨ ninf ∈ l) →
    l.foldl XVal.min acc = ninf := by
  intro l
  induction l with
  | nil => intro acc _ _ h; simpa using h
  | cons x xs ih =>
    intro acc hn ha h
    have hx : x ≠ nan := fun e => hn (by simp [e])
    have hxs : nan ∉ xs := fun e => hn (by simp [e])
    rw [List.foldl_cons]
    have hm : XVal.min acc x ≠ nan := by rcases min_eq_or acc x with e | e <;> rw [e] <;> assumption
    apply ih _ hxs hm
    rcases h with h | h
    · left; rw [h]; exact min_ninf_left x hx
    · rcases List.mem_cons.mp h with h | h
      · left; rw [← h]; exact min_ninf_right acc ha
      · right; exact h

theorem foldl_add_pinf : ∀ (l : List XVal) (acc : XVal), nan ∉ l → ninf ∉ l → acc ≠ nan → acc ≠ ninf →
    (acc = pinf ∨ pinf ∈ l) → l.foldl add acc = pinf := by
  intro l
  induction l with
  | nil => intro acc _ _ _ _ h; simpa using h
  | cons x xs ih =>
    intro acc hn hi ha ha' h
    have hx : x ≠ nan := fun e => hn (by simp [e])
    have hx' : x ≠ ninf := fun e => hi (by simp [e])
    have hxs : nan ∉ xs := fun e => hn (by simp [e])
    have hxs' : ninf ∉ xs := fun e => hi (by simp [e])
    rw [List.foldl_cons]
    have hm : add acc x ≠ nan ∧ add acc x ≠ ninf := by
      cases acc <;> cases x <;> simp_all [add]
    apply ih _ hxs hxs' hm.1 hm.2
    rcases h with h | h
    · left; rw [h]; exact add_pinf_left x hx hx'
    · rcases List.mem_cons.mp h with h | h
      · left; rw [← h]; exact add_pinf_right acc ha ha'
      · right; exact h

/-! ### order independence -/

theorem xsum_perm' {l₁ l₂ : List XVal} (p : l₁.Perm l₂) : xsum l₁ = xsum l₂ :=
  List.Perm.foldl_eq' p (fun x _ y _ z => XVal.add_right_comm z x y) _

/-- for a non-empty fibre `np.min` is the fold started at +inf -/
theorem xmin_eq_foldl {l : List XVal} (h : l ≠ []) : xmin l = .ok (l.foldl XVal.min pinf) := by
  cases l with
  | nil => exact absurd rfl h
  | cons x xs => simp [xmin, List.foldl_cons, min_pinf_left]

theorem xmax_eq_foldl {l : List XVal} (h : l ≠ []) : xmax l = .ok (l.foldl XVal.max ninf) := by
  cases l with
  | nil => exact absurd rfl h
  | cons x xs => simp [xmax, List.foldl_cons, max_ninf_left]

theorem foldl_min_mem : ∀ (l : List XVal) (acc : XVal), l.foldl XVal.min acc = acc ∨ l.foldl XVal.min acc ∈ l := by
  intro l
  induction l with
  | nil => intro acc; left; rfl
  | cons x xs ih =>
    intro acc
    rw [List.foldl_cons]
    rcases ih (XVal.min acc x) with h | h
    · rcases min_eq_or acc x with e | e
      · left; rw [h, e]
      · right; rw [h, e]; simp
    · right; exact List.mem_cons_of_mem _ h

theorem foldl_max_mem : ∀ (l : List XVal) (acc : XVal), l.foldl XVal.max acc = acc ∨ l.foldl XVal.max acc ∈ l := by
  intro l
  induction l with
  | nil => intro acc; left; rfl
  | cons x xs ih =>
    intro acc
    rw [List.foldl_cons]
    rcases ih (XVal.max acc x) with h | h
    · rcases max_eq_or acc x with e | e
      · left; rw [h, e]
      · right; rw [h, e]; simp
    · right; exact List.mem_cons_of_mem _ h

theorem xmin_mem {l : List XVal} {m : XVal} (h : xmin l = .ok m) : m ∈ l := by
  cases l with
  | nil => simp [xmin] at h
  | cons x xs =>
    simp only [xmin, Except.ok.injEq] at h
    rcases foldl_min_mem xs x with e | e
    · rw [← h, e]; simp
    · rw [← h]; exact List.mem_cons_of_mem _ e

theorem xmax_mem {l : List XVal} {m : XVal} (h : xmax l = .ok m) : m ∈ l := by
  cases l with
  | nil => simp [xmax] at h
  | cons x xs =>
    simp only [xmax, Except.ok.injEq] at h
    rcases foldl_max_mem xs x with e | e
    · rw [← h, e]; simp
    · rw [← h]; exact List.mem_cons_of_mem _ e

/-- a successful `reduceX` is `reduceAxis` with the (totalised) fibre function, and no fibre raised -/
theorem reduceX_ok {f : List XVal → Except Err XVal} {a : DimArray XVal} {ax : AxisArg} {r : Sum XVal (DimArray XVal)}
    (h : reduceX f a ax = .ok r) :
    reduceAxis (totalize f) a ax = .ok r ∧
      ∀ o idx, dealWithAxis a ax = .ok (o, idx) → ∀ l ∈ fibresOf o idx, f l = .ok (totalize f l) := by
  unfold reduceX at h
  cases hd : dealWithAxis a ax with
  | error e => simp [hd, bind, Except.bind] at h
  | ok p =>
    obtain ⟨o, idx⟩ := p
    simp only [hd, bind, Except.bind] at h
    split at h
    · cases h
    · rename_i hnone
      refine ⟨h, ?_⟩
      intro o' idx' e l hl
      simp only [Except.ok.injEq, Prod.mk.injEq] at e
      obtain ⟨rfl, rfl⟩ := e
      have := List.findSome?_eq_none_iff.mp hnone l hl
      unfold totalize
      cases hf : f l <;> simp_all

end DimModel

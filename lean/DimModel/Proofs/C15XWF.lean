/-
C15 - the extended operation set of Lib/HeapX.lean preserves the heap invariant (`WF`, and `ArrAt` = `EnvOK` + `DimOK`
of the live arrays): one lemma per operation (`Ext 0 h h' ∧ ArrAt h' r'`, the shape of the base lemmas `*_wf` of
Proofs/C15.lean), then steps and histories over `XOp` (in-place mutations included).
-/
import DimModel.Lib.HeapX
import DimModel.Proofs.C15
import DimModel.Proofs.C15X
namespace DimModel
namespace Heap

section XOps
variable {h h' : H} {r r' : Ref} {v : Ref} {w sh : List Nat} {ax : List Ref} {t : Ref}

theorem swapPerm_ok (n a b : Nat) (ha : a < n) (hb : b < n) :
    (swapPerm n a b).length = n ∧ ∀ x, x < n → x ∈ swapPerm n a b := by
  refine ⟨by simp [swapPerm], ?_⟩
  intro x hx
  unfold swapPerm
  rw [List.mem_map]
  by_cases h1 : x = a
  · refine ⟨b, List.mem_range.mpr hb, ?_⟩
    by_cases h2 : b = a
    · simp [h2, h1]
    · simp [h2, h1]
  · by_cases h2 : x = b
    · exact ⟨a, List.mem_range.mpr ha, by simp [h2]⟩
    · exact ⟨x, List.mem_range.mpr hx, by simp [h1, h2]⟩

theorem swapaxes_wf {a b : Nat} (hwf : WF h) (hx : h[r]? = some (.arr v w sh ax t))
    (hdim : ax.length = sh.length) (hop : swapaxes h r a b = some (h', r')) :
    Ext 0 h h' ∧ ArrAt h' r' := by
  unfold swapaxes at hop
  rw [hx] at hop
  simp only [] at hop
  split at hop
  · cases hop
  · exact transpose_wf hwf hx hdim hop

theorem rollaxis_wf {d : Nat} (hwf : WF h) (hx : h[r]? = some (.arr v w sh ax t))
    (hdim : ax.length = sh.length) (hop : rollaxis h r d = some (h', r')) :
    Ext 0 h h' ∧ ArrAt h' r' := by
  unfold rollaxis at hop
  rw [hx] at hop
  simp only [] at hop
  split at hop
  · cases hop
  · exact transpose_wf hwf hx hdim hop

theorem tT_wf (hwf : WF h) (hx : h[r]? = some (.arr v w sh ax t))
    (hdim : ax.length = sh.length) (hop : tT h r = some (h', r')) :
    Ext 0 h h' ∧ ArrAt h' r' := by
  unfold tT at hop
  rw [hx] at hop
  simp only [] at hop
  split at hop
  · simp only [Option.some.injEq, Prod.mk.injEq] at hop
    obtain ⟨rfl, rfl⟩ := hop
    exact ⟨Ext.refl _ _, v, w, sh, ax, t, hx, hdim⟩
  · exact transpose_wf hwf hx hdim hop
  · exact transpose_wf hwf hx hdim hop
  · cases hop

theorem sliceRange_wf {d a b c : Nat} (hwf : WF h) (hx : h[r]? = some (.arr v w sh ax t))
    (hdim : ax.length = sh.length) (hop : sliceRange h r d a b c = some (h', r')) :
    Ext 0 h h' ∧ ArrAt h' r' := by
  unfold sliceRange at hop
  rw [hx] at hop
  simp only [] at hop
  split at hop
  · cases hop
  · exact takeList_wf hwf hx hdim hop

theorem emptyDict_ext (g : H) : Ext 0 g (alloc g (.dict [])).1 :=
  Ext.alloc (by rw [WFObj_dict]; intro k r he; cases he) (fun _ _ => Nat.zero_le _)

theorem buf_ext (g : H) (cells : List Int) : Ext 0 g (g ++ [.buf cells]) :=
  Ext.alloc (o := .buf cells) trivial (by simp [refs])

theorem newaxis_wf {name : String} {pos : Nat} (hwf : WF h) (hx : h[r]? = some (.arr v w sh ax t))
    (hdim : ax.length = sh.length) (hop : newaxis h r name pos = some (h', r')) :
    Ext 0 h h' ∧ ArrAt h' r' := by
  obtain ⟨hv, ht, hax⟩ := hwf _ (List.mem_of_getElem? hx)
  unfold newaxis at hop
  rw [hx] at hop
  simp only [] at hop
  split at hop
  · cases hop
  · obtain ⟨he1, hgood, _, hlen⟩ := mapAlloc_deepAxis_spec (n := 0) ax hwf (Nat.zero_le _) hax
    generalize mapAlloc deepAxis h ax = A at hop he1 hgood hlen
    have he2 : Ext 0 A.1 (A.1 ++ [Obj.buf [noneLabel]]) := buf_ext _ _
    have he3 : Ext 0 (A.1 ++ [Obj.buf [noneLabel]]) (A.1 ++ [Obj.buf [noneLabel]] ++ [Obj.dict []]) := emptyDict_ext _
    have hb3 : (A.1 ++ [Obj.buf [noneLabel]] ++ [Obj.dict []])[A.1.length]? = some (.buf [noneLabel]) :=
      he3.grows.get (get_append_last _ _)
    have hd3 : (A.1 ++ [Obj.buf [noneLabel]] ++ [Obj.dict []])[(A.1 ++ [Obj.buf [noneLabel]]).length]? = some (.dict []) :=
      get_append_last _ _
    have he4 : Ext 0 (A.1 ++ [Obj.buf [noneLabel]] ++ [Obj.dict []])
        (A.1 ++ [Obj.buf [noneLabel]] ++ [Obj.dict []] ++ [Obj.axis name A.1.length [0] (A.1 ++ [Obj.buf [noneLabel]]).length]) :=
      Ext.alloc ⟨⟨_, (Grows.append _ _).get hb3⟩, ⟨_, (Grows.append _ _).get hd3⟩⟩ (fun _ _ => Nat.zero_le _)
    have he14 := ((he1.trans he2).trans he3).trans he4
    have hwf4 := he14.wf hwf
    generalize hD : A.1 ++ [Obj.buf [noneLabel]] ++ [Obj.dict []] ++
      [Obj.axis name A.1.length [0] (A.1 ++ [Obj.buf [noneLabel]]).length] = D at he4 he14 hwf4
    have hnax : IsAxis D (A.1 ++ [Obj.buf [noneLabel]] ++ [Obj.dict []]).length := by
      rw [← hD]; exact ⟨_, _, _, _, get_append_last _ _⟩
    obtain ⟨he5, hd5⟩ := shallowDict_spec t hwf4
    have hop2 : some (alloc (shallowDict D t).1 (.arr v w (sh.take pos ++ [1] ++ sh.drop pos)
        (A.2.take pos ++ [(A.1 ++ [Obj.buf [noneLabel]] ++ [Obj.dict []]).length] ++ A.2.drop pos) (shallowDict D t).2))
        = some (h', r') := by rw [← hD]; exact hop
    have hg : Grows h (shallowDict D t).1 := (he14.trans he5).grows
    refine alloc_arr_res (he14.trans he5) (IsBuf.mono hg hv) hd5 ?_ ?_ hop2
    · intro a ha
      simp only [List.mem_append, List.mem_singleton] at ha
      rcases ha with (ha | rfl) | ha
      · exact ((hgood a (List.mem_of_mem_take ha)).2.mono ((he2.trans he3).grows)).mono
          (by rw [← hD]; exact (Grows.append _ _).trans (by rw [hD]; exact he5.grows))
      · exact hnax.mono he5.grows
      · exact ((hgood a (List.mem_of_mem_drop ha)).2.mono ((he2.trans he3).grows)).mono
          (by rw [← hD]; exact (Grows.append _ _).trans (by rw [hD]; exact he5.grows))
    · simp only [List.length_append, List.length_take, List.length_drop, List.length_singleton, hlen, hdim]

theorem reduceSum_wf {d : Nat} (hwf : WF h) (hx : h[r]? = some (.arr v w sh ax t))
    (hdim : ax.length = sh.length) (hop : reduceSum h r d = some (h', r')) :
    Ext 0 h h' ∧ ArrAt h' r' := by
  obtain ⟨hv, ht, hax⟩ := hwf _ (List.mem_of_getElem? hx)
  unfold reduceSum at hop
  rw [hx] at hop
  simp only [] at hop
  split at hop
  · cases hop
  · generalize List.map _ (allIdxN (sh.eraseIdx d)) = cells at hop
    have he1 : Ext 0 h (h ++ [.buf cells]) := buf_ext _ _
    have hwf1 := he1.wf hwf
    obtain ⟨he2, hd2⟩ := shallowDict_spec t hwf1
    have hg : Grows h (shallowDict (h ++ [.buf cells]) t).1 := (he1.trans he2).grows
    refine alloc_arr_res (he1.trans he2) ⟨_, he2.grows.get (get_append_last _ _)⟩ hd2 ?_ ?_ hop
    · intro a ha
      exact IsAxis.mono hg (hax a (List.mem_of_mem_eraseIdx ha))
    · rw [List.length_eraseIdx, List.length_eraseIdx, hdim]

theorem mem_zipWith_pick {f : Nat → Bool} : ∀ (l1 l2 : List Nat) (a : Nat),
    a ∈ List.zipWith (fun x y => if f x then y else x) l1 l2 → a ∈ l1 ∨ a ∈ l2
  | [], _, a, ha => by simp at ha
  | _ :: _, [], a, ha => by simp at ha
  | x :: l1, y :: l2, a, ha => by
    simp only [List.zipWith_cons_cons, List.mem_cons] at ha
    rcases ha with rfl | ha
    · by_cases hf : f x
      · simp [hf]
      · simp [hf]
    · rcases mem_zipWith_pick l1 l2 a ha with h1 | h1
      · exact Or.inl (List.mem_cons_of_mem _ h1)
      · exact Or.inr (List.mem_cons_of_mem _ h1)

theorem addArr_wf {r2 v2 : Ref} {w2 s2 : List Nat} {ax2 : List Ref} {t2 : Ref} (hwf : WF h)
    (hx : h[r]? = some (.arr v w sh ax t)) (hdim : ax.length = sh.length)
    (hx2 : h[r2]? = some (.arr v2 w2 s2 ax2 t2))
    (hop : addArr h r r2 = some (h', r')) :
    Ext 0 h h' ∧ ArrAt h' r' := by
  obtain ⟨_, _, hax⟩ := hwf _ (List.mem_of_getElem? hx)
  obtain ⟨_, _, hax2⟩ := hwf _ (List.mem_of_getElem? hx2)
  unfold addArr at hop
  rw [hx, hx2] at hop
  simp only [] at hop
  split at hop
  · cases hop
  · next hc =>
    simp only [Bool.or_eq_true, not_or, Bool.not_eq_true, bne_eq_false_iff_eq] at hc
    have hlen12 : ax.length = ax2.length := by
      have := hc.1.1.2
      simpa using this
    generalize List.zipWith (· + ·) (readBuf h v w) (readBuf h v2 w2) = cells at hop
    generalize hsrcs : List.zipWith (fun a b => if (obsAxis h a).labels.head? == some noneLabel then b else a) ax ax2
      = srcs at hop
    have hsrc : ∀ a ∈ srcs, IsAxis h a := by
      intro a ha
      rw [← hsrcs] at ha
      rcases mem_zipWith_pick (f := fun a => (obsAxis h a).labels.head? == some noneLabel) ax ax2 a ha with h1 | h1
      · exact hax a h1
      · exact hax2 a h1
    have hsl : srcs.length = ax.length := by
      rw [← hsrcs, List.length_zipWith, ← hlen12, Nat.min_self]
    have he1 : Ext 0 h (alloc h (.buf cells)).1 := buf_ext _ _
    have hwf1 := he1.wf hwf
    obtain ⟨he2, hgood, _, hlen⟩ := mapAlloc_deepAxis_spec (n := 0) srcs hwf1 (Nat.zero_le _)
      (fun a ha => (hsrc a ha).mono he1.grows)
    generalize mapAlloc deepAxis (alloc h (.buf cells)).1 srcs = A at hop he2 hgood hlen
    have he3 : Ext 0 A.1 (alloc A.1 (.dict [])).1 := emptyDict_ext _
    refine alloc_arr_res ((he1.trans he2).trans he3) ⟨_, (he2.trans he3).grows.get (get_append_last _ _)⟩
      ⟨_, get_append_last _ _⟩ (fun a ha => (hgood a ha).2.mono he3.grows) (by rw [hlen, hsl, hdim]) hop

theorem reorderAxis_wf {d : Nat} {ps : List Nat} (hwf : WF h) (hx : h[r]? = some (.arr v w sh ax t))
    (hdim : ax.length = sh.length) (hop : reorderAxis h r d ps = some (h', r')) :
    Ext 0 h h' ∧ ArrAt h' r' := by
  obtain ⟨hv, ht, hax⟩ := hwf _ (List.mem_of_getElem? hx)
  unfold reorderAxis at hop
  rw [hx] at hop
  simp only [] at hop
  split at hop
  · cases hop
  · simp only [freshBuf_eq] at hop
    generalize readBuf h v _ = cells at hop
    rw [foldl_step_eq _ (fun hh i => if i == d then selectAxis hh (ax.getD i 0) ps else deepAxis hh (ax.getD i 0))
      (fun acc i => rfl)] at hop
    simp only [List.nil_append] at hop
    have he1 : Ext 0 h (h ++ [.buf cells]) := buf_ext _ _
    have hwf1 := he1.wf hwf
    obtain ⟨he2, hgood, _, hlen⟩ := mapAccum_heap
      (fun hh i => if i == d then selectAxis hh (ax.getD i 0) ps else deepAxis hh (ax.getD i 0)) 0
      (fun hh i => IsAxis hh (ax.getD i 0)) IsAxis (fun _ => ()) (fun _ _ => ())
      (fun _ _ _ _ hg hp => hp.mono hg) (fun _ _ _ _ hg hb => hb.mono hg) (fun _ _ _ _ _ _ => rfl)
      (fun hh i hw _ hp => by
        simp only []
        split
        · exact ⟨(selectAxis_spec ps hw hp).1, (selectAxis_spec ps hw hp).2, trivial⟩
        · obtain ⟨e1, _, e3, _⟩ := deepAxis_spec (n := 0) hw (Nat.zero_le _) hp
          exact ⟨e1, e3, trivial⟩)
      (List.range ax.length) _ hwf1 (Nat.zero_le _)
      (fun i hi => IsAxis.mono he1.grows (hax _ (getD_mem (List.mem_range.mp hi))))
    generalize mapAccum _ (h ++ [.buf cells]) (List.range ax.length) = A at hop he2 hgood hlen
    have hwf2 := he2.wf hwf1
    obtain ⟨he3, hd3⟩ := shallowDict_spec t hwf2
    generalize shallowDict A.1 t = D at hop he3 hd3
    refine alloc_arr_res ((he1.trans he2).trans he3) ⟨_, (he2.trans he3).grows.get (get_append_last _ _)⟩ hd3
      (fun a ha => (hgood a ha).mono he3.grows) (by rw [hlen, List.length_range, hdim, List.length_set]) hop

theorem reindexAxis_wf {d : Nat} {labels : List Int} (hwf : WF h) (hx : h[r]? = some (.arr v w sh ax t))
    (hdim : ax.length = sh.length) (hop : reindexAxis h r d labels = some (h', r')) :
    Ext 0 h h' ∧ ArrAt h' r' := by
  unfold reindexAxis at hop
  rw [hx] at hop
  simp only [] at hop
  split at hop
  · cases hop
  · split at hop
    · cases hop
    · exact reorderAxis_wf hwf hx hdim hop

theorem dsVar_wf (hwf : WF h) (hx : h[r]? = some (.arr v w sh ax t))
    (hdim : ax.length = sh.length) (hop : dsVar h r = some (h', r')) :
    Ext 0 h h' ∧ ArrAt h' r' := by
  obtain ⟨hv, ht, hax⟩ := hwf _ (List.mem_of_getElem? hx)
  unfold dsVar at hop
  rw [hx] at hop
  simp only [] at hop
  obtain ⟨he1, hgood, _, hlen⟩ := mapAlloc_deepAxis_spec (n := 0) ax hwf (Nat.zero_le _) hax
  generalize mapAlloc deepAxis h ax = A at hop he1 hgood hlen
  exact alloc_arr_res he1 (IsBuf.mono he1.grows hv) (IsDict.mono he1.grows ht) (fun a ha => (hgood a ha).2)
    (by rw [hlen, hdim]) hop

/-- what a Dataset variable is made of: the values buffer, the view and the metadata dict OF THE ASSIGNED ARRAY, Axis objects
that did not exist before -/
theorem dsVar_result (hwf : WF h) (hx : h[r]? = some (.arr v w sh ax t)) (hop : dsVar h r = some (h', r')) :
    ∃ ax', h'[r']? = some (.arr v w sh ax' t) ∧ h.length ≤ r' ∧ ax'.length = ax.length ∧ ∀ a ∈ ax', h.length ≤ a := by
  obtain ⟨hv, ht, hax⟩ := hwf _ (List.mem_of_getElem? hx)
  unfold dsVar at hop
  rw [hx] at hop
  simp only [] at hop
  obtain ⟨he1, hgood, _, hlen⟩ := mapAlloc_deepAxis_spec (n := h.length) ax hwf (Nat.le_refl _) hax
  generalize mapAlloc deepAxis h ax = A at hop he1 hgood hlen
  obtain ⟨e1, e2⟩ := alloc_get hop
  exact ⟨A.2, e1, by rw [e2]; exact he1.grows.le, hlen, fun a ha => (hgood a ha).1⟩

end XOps

/-! ### steps and histories -/

/-- `create` is given as many axes as dimensions (the hypothesis `OpOK` of `wf_step`, lifted) -/
def XOpOK : XOp → Prop
  | .base op => OpOK op
  | _ => True

theorem xapply_wf {h h' : H} {env : List Ref} {x : XOp} {r' : Ref} (hwf : WF h)
    (henv : ∀ r ∈ env, ArrAt h r) (hok : XOpOK x) (hop : xapply h env x = some (h', r')) :
    Ext 0 h h' ∧ ArrAt h' r' := by
  cases x with
  | base op => exact apply_wf hwf henv hok hop
  | swapaxes k a b =>
    simp only [xapply, Option.bind_eq_some_iff] at hop
    obtain ⟨q, hq1, hq⟩ := hop
    obtain ⟨v, w, sh, ax, t, hx, hd⟩ := henv q (List.mem_of_getElem? hq1)
    exact swapaxes_wf hwf hx hd hq
  | rollaxis k d =>
    simp only [xapply, Option.bind_eq_some_iff] at hop
    obtain ⟨q, hq1, hq⟩ := hop
    obtain ⟨v, w, sh, ax, t, hx, hd⟩ := henv q (List.mem_of_getElem? hq1)
    exact rollaxis_wf hwf hx hd hq
  | tT k =>
    simp only [xapply, Option.bind_eq_some_iff] at hop
    obtain ⟨q, hq1, hq⟩ := hop
    obtain ⟨v, w, sh, ax, t, hx, hd⟩ := henv q (List.mem_of_getElem? hq1)
    exact tT_wf hwf hx hd hq
  | newaxis k name pos =>
    simp only [xapply, Option.bind_eq_some_iff] at hop
    obtain ⟨q, hq1, hq⟩ := hop
    obtain ⟨v, w, sh, ax, t, hx, hd⟩ := henv q (List.mem_of_getElem? hq1)
    exact newaxis_wf hwf hx hd hq
  | sliceRange k d a b c =>
    simp only [xapply, Option.bind_eq_some_iff] at hop
    obtain ⟨q, hq1, hq⟩ := hop
    obtain ⟨v, w, sh, ax, t, hx, hd⟩ := henv q (List.mem_of_getElem? hq1)
    exact sliceRange_wf hwf hx hd hq
  | reduceSum k d =>
    simp only [xapply, Option.bind_eq_some_iff] at hop
    obtain ⟨q, hq1, hq⟩ := hop
    obtain ⟨v, w, sh, ax, t, hx, hd⟩ := henv q (List.mem_of_getElem? hq1)
    exact reduceSum_wf hwf hx hd hq
  | addArr k j =>
    simp only [xapply, Option.bind_eq_some_iff] at hop
    obtain ⟨q, hq1, q2, hq2, hq⟩ := hop
    obtain ⟨v, w, sh, ax, t, hx, hd⟩ := henv q (List.mem_of_getElem? hq1)
    obtain ⟨v2, w2, sh2, ax2, t2, hx2, _⟩ := henv q2 (List.mem_of_getElem? hq2)
    exact addArr_wf hwf hx hd hx2 hq
  | reindexAxis k d labels =>
    simp only [xapply, Option.bind_eq_some_iff] at hop
    obtain ⟨q, hq1, hq⟩ := hop
    obtain ⟨v, w, sh, ax, t, hx, hd⟩ := henv q (List.mem_of_getElem? hq1)
    exact reindexAxis_wf hwf hx hd hq
  | dsVar k =>
    simp only [xapply, Option.bind_eq_some_iff] at hop
    obtain ⟨q, hq1, hq⟩ := hop
    obtain ⟨v, w, sh, ax, t, hx, hd⟩ := henv q (List.mem_of_getElem? hq1)
    exact dsVar_wf hwf hx hd hq

theorem xstep_inv {s : St} {x : XOp} (hwf : WF s.h) (henv : ∀ r ∈ s.env, ArrAt s.h r) (hok : XOpOK x) :
    WF (xstep s x).h ∧ ∀ r ∈ (xstep s x).env, ArrAt (xstep s x).h r := by
  cases hm : xisMut x with
  | false =>
    rw [xstep_nonmut hm]
    cases hx : xapply s.h s.env x with
    | none => exact ⟨hwf, henv⟩
    | some p =>
      obtain ⟨he, ha⟩ := xapply_wf hwf henv hok hx
      refine ⟨he.wf hwf, ?_⟩
      intro r hr
      simp only [List.mem_append, List.mem_singleton] at hr
      rcases hr with hr | rfl
      · exact (henv r hr).mono he.grows
      · exact ha
  | true =>
    cases x with
    | base op => exact step_inv hwf henv hok
    | _ => simp [xisMut] at hm

theorem xrun_inv (xs : List XOp) : ∀ {s : St}, WF s.h → (∀ r ∈ s.env, ArrAt s.h r) → (∀ x ∈ xs, XOpOK x) →
    WF (xrun s xs).h ∧ ∀ r ∈ (xrun s xs).env, ArrAt (xrun s xs).h r := by
  induction xs with
  | nil => intro s hwf henv _; exact ⟨hwf, henv⟩
  | cons x xs ih =>
    intro s hwf henv hok
    rw [xrun_cons]
    obtain ⟨h1, h2⟩ := xstep_inv hwf henv (hok x (List.mem_cons_self ..))
    exact ih h1 h2 (fun o ho => hok o (List.mem_cons_of_mem _ ho))

theorem xrun_append (s : St) (xs ys : List XOp) : xrun s (xs ++ ys) = xrun (xrun s xs) ys := by
  unfold xrun
  exact List.foldl_append

end Heap
end DimModel

/-
Helper lemmas for C10: integer dimension positions are validated by `_get_axis_info` (`self.axes[idx]`), the first bad
key decides the error class, and the calls succeed exactly on the keys that designate dimensions.
The statements a reader audits are at the end of `DimModel/Props/C10.lean`.
-/
import DimModel.Proofs.C10
namespace DimModel
open Lib
namespace C10

/-- the key is one `_get_axis_info` accepts: the name of a dimension, or a position in `[-ndim, ndim)` -/
def KeyGood {α} (a : DimArray α) (k : DimKey) : Prop :=
  match k with
  | .name s => s ∈ a.dims
  | .pos i => -(a.ndim : Int) ≤ i ∧ i < (a.ndim : Int)

instance {α} (a : DimArray α) (k : DimKey) : Decidable (KeyGood a k) := by
  unfold KeyGood; cases k <;> exact inferInstance

/-- the error class `_get_axis_info` raises for a key it does not accept: `tuple.index` -> ValueError for a name,
`list.__getitem__` -> IndexError for a position -/
def keyErr (k : DimKey) : Err :=
  match k with
  | .name _ => .value
  | .pos _ => .index

/-- `_get_axis_info(k)[0]` -/
def keyRes {α} (a : DimArray α) (k : DimKey) : Except Err Int :=
  match k with
  | .name s =>
    let p := a.dims.idxOf s
    if p < a.dims.length then .ok (p : Int) else .error .value
  | .pos i => if i < -(a.ndim : Int) || i ≥ (a.ndim : Int) then .error .index else .ok i

theorem axesPositions_eq {α} (a : DimArray α) (ks : List DimKey) : axesPositions a ks = ks.mapM (keyRes a) := rfl

theorem keyRes_good {α} (a : DimArray α) (k : DimKey) (h : KeyGood a k) : keyRes a k = .ok (keyInt a k) := by
  cases k with
  | name s =>
    have : a.dims.idxOf s < a.dims.length := List.idxOf_lt_length_of_mem h
    simp only [keyRes, keyInt, this, if_true]
  | pos i => exact posInRange_if _ _ h

theorem keyRes_bad {α} (a : DimArray α) (k : DimKey) (h : ¬ KeyGood a k) : keyRes a k = .error (keyErr k) := by
  cases k with
  | name s =>
    have : ¬ a.dims.idxOf s < a.dims.length := fun hlt => h (List.idxOf_lt_length_iff.mp hlt)
    simp only [keyRes, keyErr, this, if_false]
  | pos i =>
    have h' : ¬ (-(a.ndim : Int) ≤ i ∧ i < (a.ndim : Int)) := h
    have : (i < -(a.ndim : Int) || i ≥ (a.ndim : Int)) = true := by
      simp only [Bool.or_eq_true, decide_eq_true_eq]; omega
    simp only [keyRes, keyErr, this, if_true]

/-- a key is accepted exactly when it designates a dimension -/
theorem keyGood_iff_resolves {α} (a : DimArray α) (k : DimKey) : KeyGood a k ↔ ∃ d, Resolves a k d := by
  cases k with
  | name s =>
    constructor
    · intro h
      have hlt : a.dims.idxOf s < a.dims.length := List.idxOf_lt_length_of_mem h
      refine ⟨a.dims.idxOf s, by simpa [DimArray.ndim, DimArray.dims] using hlt, ?_⟩
      show a.dims[a.dims.idxOf s]? = some s
      rw [List.getElem?_eq_getElem hlt, List.getElem_idxOf hlt]
    · rintro ⟨d, _, hd⟩
      have hd' : a.dims[d]? = some s := hd
      exact List.mem_of_getElem? hd'
  | pos i =>
    constructor
    · intro h
      have h' : -(a.ndim : Int) ≤ i ∧ i < (a.ndim : Int) := h
      by_cases c : i < 0
      · refine ⟨(i + (a.ndim : Int)).toNat, ?_, Or.inr ?_⟩ <;> omega
      · refine ⟨i.toNat, ?_, Or.inl ?_⟩ <;> omega
    · rintro ⟨d, hd, hk⟩
      have hk' : i = (d : Int) ∨ i = (d : Int) - (a.ndim : Int) := hk
      show -(a.ndim : Int) ≤ i ∧ i < (a.ndim : Int)
      omega

/-- keys are examined from left to right: the first key that is not accepted decides the error class -/
theorem mapM_first_bad {β γ : Type} (f : β → Except Err γ) (e : Err) :
    ∀ (pre : List β) (k : β) (post : List β), (∀ x ∈ pre, ∃ y, f x = .ok y) → f k = .error e →
      (pre ++ k :: post).mapM f = .error e
  | [], k, post, _, hk => by rw [List.nil_append, List.mapM_cons, hk]; rfl
  | x :: pre, k, post, hpre, hk => by
    obtain ⟨y, hy⟩ := hpre x List.mem_cons_self
    rw [List.cons_append, List.mapM_cons, hy,
      mapM_first_bad f e pre k post (fun z hz => hpre z (List.mem_cons_of_mem _ hz)) hk]
    rfl

theorem axesPositions_first_bad {α} (a : DimArray α) (pre : List DimKey) (k : DimKey) (post : List DimKey)
    (hpre : ∀ x ∈ pre, KeyGood a x) (hk : ¬ KeyGood a k) :
    axesPositions a (pre ++ k :: post) = .error (keyErr k) := by
  rw [axesPositions_eq]
  exact mapM_first_bad _ _ pre k post (fun x hx => ⟨_, keyRes_good a x (hpre x hx)⟩) (keyRes_bad a k hk)

theorem axesPositions_good {α} (a : DimArray α) (ks : List DimKey) (h : ∀ k ∈ ks, KeyGood a k) :
    axesPositions a ks = .ok (ks.map (keyInt a)) := by
  rw [axesPositions_eq]
  exact exMapM_ok_of_forall _ _ ks (fun k hk => keyRes_good a k (h k hk))

/-- a list with a bad element splits at its first bad element -/
theorem split_first_bad {β : Type} (p : β → Prop) [DecidablePred p] :
    ∀ (l : List β), (∃ x ∈ l, ¬ p x) → ∃ pre k post, l = pre ++ k :: post ∧ (∀ x ∈ pre, p x) ∧ ¬ p k
  | [], h => by obtain ⟨x, hx, _⟩ := h; cases hx
  | y :: l, h => by
    by_cases hy : p y
    · have h' : ∃ x ∈ l, ¬ p x := by
        obtain ⟨x, hx, hnx⟩ := h
        rcases List.mem_cons.mp hx with rfl | hx
        · exact absurd hy hnx
        · exact ⟨x, hx, hnx⟩
      obtain ⟨pre, k, post, e, h1, h2⟩ := split_first_bad p l h'
      refine ⟨y :: pre, k, post, by rw [e]; rfl, ?_, h2⟩
      intro x hx
      rcases List.mem_cons.mp hx with rfl | hx
      · exact hy
      · exact h1 x hx
    · exact ⟨[], y, l, rfl, (fun _ hx => by cases hx), hy⟩

/-- some key is not accepted: `_get_axes_info` raises, ValueError or IndexError -/
theorem axesPositions_some_bad {α} (a : DimArray α) (ks : List DimKey) (h : ∃ k ∈ ks, ¬ KeyGood a k) :
    axesPositions a ks = .error .value ∨ axesPositions a ks = .error .index := by
  obtain ⟨pre, k, post, e, h1, h2⟩ := split_first_bad (KeyGood a) ks h
  rw [e, axesPositions_first_bad a pre k post h1 h2]
  cases k <;> simp [keyErr]

/-! ### `normPerm` read backwards -/

theorem normOne_inv (n : Nat) (i : Int) (m : Nat)
    (h : (let j : Int := if i < 0 then i + (n : Int) else i
          if j < 0 || j ≥ (n : Int) then (.error .value : Except Err Nat) else .ok j.toNat) = .ok m) :
    (i = (m : Int) ∨ i = (m : Int) - (n : Int)) ∧ m < n := by
  by_cases c : i < 0
  · simp only [c, if_true] at h
    by_cases c2 : (i + (n : Int) < 0 || i + (n : Int) ≥ (n : Int)) = true
    · rw [if_pos c2] at h; cases h
    · rw [if_neg c2] at h
      simp only [Bool.or_eq_true, decide_eq_true_eq, not_or] at c2
      cases h
      omega
  · simp only [c, if_false] at h
    by_cases c2 : i ≥ (n : Int)
    · simp [c2] at h
    · simp [c2] at h
      omega

theorem normPerm_inv (n : Nat) (p : List Int) (q : List Nat) (h : normPerm n p = .ok q) :
    IsPerm q n ∧ p.length = q.length ∧
      ∀ k (h1 : k < p.length) (h2 : k < q.length), p[k] = (q[k] : Int) ∨ p[k] = (q[k] : Int) - (n : Int) := by
  unfold normPerm at h
  split at h
  · cases h
  · rename_i hlen
    simp only [bind, Except.bind] at h
    split at h
    · cases h
    · rename_i q' hq
      split at h
      · cases h
      · rename_i hdup
        cases h
        obtain ⟨hl, hel⟩ := exMapM_ok _ _ _ hq
        have hlen' : p.length = n := by simpa using hlen
        have hfacts : ∀ k (h1 : k < p.length) (h2 : k < q.length),
            (p[k] = (q[k] : Int) ∨ p[k] = (q[k] : Int) - (n : Int)) ∧ q[k] < n := by
          intro k h1 h2
          exact normOne_inv n _ _ (hel k h1 h2)
        refine ⟨⟨by omega, ?_, ?_⟩, by omega, fun k h1 h2 => (hfacts k h1 h2).1⟩
        · apply (eraseDups_length_eq_iff q).mp; simpa using hdup
        · intro x hx
          obtain ⟨k, hk, rfl⟩ := List.getElem_of_mem hx
          exact (hfacts k (by omega) hk).2

theorem keyInt_resolves {α} (a : DimArray α) (k : DimKey) (hg : KeyGood a k) (d : Nat) (hd : d < a.ndim)
    (h : keyInt a k = (d : Int) ∨ keyInt a k = (d : Int) - (a.ndim : Int)) : Resolves a k d := by
  refine ⟨hd, ?_⟩
  cases k with
  | name s =>
    have hlt : a.dims.idxOf s < a.dims.length := List.idxOf_lt_length_of_mem hg
    have hn : a.dims.length = a.ndim := by simp [DimArray.ndim, DimArray.dims]
    have he : a.dims.idxOf s = d := by
      simp only [keyInt] at h
      omega
    show a.dims[d]? = some s
    rw [← he, List.getElem?_eq_getElem hlt, List.getElem_idxOf hlt]
  | pos i => exact h

/-! ### transpose -/

theorem transpose_ok_inv {α} (a : DimArray α) (ks : List DimKey) (hne : ks ≠ []) (r : DimArray α)
    (h : transpose a (some ks) = .ok r) :
    ∃ q, IsPerm q a.ndim ∧ ks.length = q.length ∧
      (∀ k (h1 : k < ks.length) (h2 : k < q.length), Resolves a ks[k] q[k]) ∧ r = transposeBy a q := by
  rw [transpose_some_nonempty a ks hne] at h
  by_cases hg : ∀ k ∈ ks, KeyGood a k
  · rw [axesPositions_good a ks hg] at h
    simp only [bind, Except.bind] at h
    split at h
    · cases h
    · rename_i q hq
      cases h
      obtain ⟨hp, hl, hk⟩ := normPerm_inv _ _ _ hq
      have hl' : ks.length = q.length := by simpa using hl
      refine ⟨q, hp, hl', ?_, rfl⟩
      intro k h1 h2
      have := hk k (by simpa using h1) h2
      rw [List.getElem_map] at this
      exact keyInt_resolves a _ (hg _ (List.getElem_mem h1)) _ (hp.2.2 _ (List.getElem_mem h2)) this
  · have hb : ∃ k ∈ ks, ¬ KeyGood a k := by
      apply Classical.byContradiction
      intro hno
      apply hg
      intro k hk
      apply Classical.byContradiction
      intro hnk
      exact hno ⟨k, hk, hnk⟩
    rcases axesPositions_some_bad a ks hb with e | e <;> rw [e] at h <;> cases h

theorem transpose_first_bad {α} (a : DimArray α) (pre : List DimKey) (k : DimKey) (post : List DimKey)
    (hpre : ∀ x ∈ pre, KeyGood a x) (hk : ¬ KeyGood a k) :
    transpose a (some (pre ++ k :: post)) = .error (keyErr k) := by
  rw [transpose_some_nonempty a _ (by simp), axesPositions_first_bad a pre k post hpre hk]
  rfl

/-! ### swapaxes, rollaxis -/

theorem swapaxes_first_bad {α} (a : DimArray α) (k1 k2 : DimKey) :
    (¬ KeyGood a k1 → swapaxes a k1 k2 = .error (keyErr k1)) ∧
    (KeyGood a k1 → ¬ KeyGood a k2 → swapaxes a k1 k2 = .error (keyErr k2)) := by
  refine ⟨fun h1 => ?_, fun h1 h2 => ?_⟩
  · rw [swapaxes_eq, show [k1, k2] = [] ++ k1 :: [k2] from rfl,
      axesPositions_first_bad a [] k1 [k2] (fun _ hx => by cases hx) h1]
    rfl
  · rw [swapaxes_eq, show [k1, k2] = [k1] ++ k2 :: [] from rfl,
      axesPositions_first_bad a [k1] k2 [] (fun x hx => by
        rcases List.mem_cons.mp hx with rfl | hx
        · exact h1
        · cases hx) h2]
    rfl

theorem rollaxis_bad_key {α} (a : DimArray α) (k : DimKey) (start : Int) (h : ¬ KeyGood a k) :
    rollaxis a k start = .error (keyErr k) := by
  rw [rollaxis_eq, show [k] = [] ++ k :: [] from rfl,
    axesPositions_first_bad a [] k [] (fun _ hx => by cases hx) h]
  rfl

theorem keyInt_range {α} (a : DimArray α) (k : DimKey) (h : KeyGood a k) :
    -(a.ndim : Int) ≤ keyInt a k ∧ keyInt a k < (a.ndim : Int) := by
  cases k with
  | name s =>
    have hlt : a.dims.idxOf s < a.dims.length := List.idxOf_lt_length_of_mem h
    have hn : a.dims.length = a.ndim := by simp [DimArray.ndim, DimArray.dims]
    simp only [keyInt]
    omega
  | pos i => exact h

theorem rollPerm_bad_start (n : Nat) (axis start : Int) (ha : -(n : Int) ≤ axis ∧ axis < (n : Int))
    (hs : start < -(n : Int) ∨ start > (n : Int)) : rollPerm n axis start = .error .index := by
  unfold rollPerm
  have c1 : ((if axis < 0 then axis + (n : Int) else axis) < 0
      || (if axis < 0 then axis + (n : Int) else axis) ≥ (n : Int)) = false := by
    simp only [Bool.or_eq_false_iff, decide_eq_false_iff_not]
    split <;> omega
  have c2 : ((if start < 0 then start + (n : Int) else start) < 0
      || (if start < 0 then start + (n : Int) else start) > (n : Int)) = true := by
    simp only [Bool.or_eq_true, decide_eq_true_eq]
    split <;> omega
  simp only [c1, c2, Bool.false_eq_true, if_false, if_true]

theorem rollaxis_bad_start {α} (a : DimArray α) (k : DimKey) (start : Int) (h : KeyGood a k)
    (hs : start < -(a.ndim : Int) ∨ start > (a.ndim : Int)) : rollaxis a k start = .error .index := by
  rw [rollaxis_eq, axesPositions_good a [k] (fun x hx => by
    rcases List.mem_cons.mp hx with rfl | hx
    · exact h
    · cases hx)]
  simp only [Except.bind, List.map_cons, List.map_nil, List.getD_cons_zero]
  rw [rollPerm_bad_start a.ndim _ start (keyInt_range a k h) hs]

/-! ### squeeze, repeat -/

theorem axisPos_pos_out_of_range (axes : List Axis) (i : Int)
    (h : i < -(axes.length : Int) ∨ i ≥ (axes.length : Int)) : axisPos axes (.pos i) = .error .index := by
  unfold axisPos
  have c : ((if i < 0 then i + (axes.length : Int) else i) < 0
      || (if i < 0 then i + (axes.length : Int) else i) ≥ (axes.length : Int)) = true := by
    simp only [Bool.or_eq_true, decide_eq_true_eq]
    split <;> omega
  simp only [c, if_true]

theorem axisPos_bad {α} (a : DimArray α) (k : DimKey) (h : ¬ KeyGood a k) : axisPos a.axes k = .error (keyErr k) := by
  cases k with
  | name s =>
    have : ¬ (a.axes.map (·.name)).idxOf s < a.axes.length := by
      intro hlt
      apply h
      have hlt' : (a.axes.map (·.name)).idxOf s < (a.axes.map (·.name)).length := by simpa using hlt
      exact List.idxOf_lt_length_iff.mp hlt'
    simp only [axisPos, keyErr, this, if_false]
  | pos i =>
    have h' : ¬ (-(a.ndim : Int) ≤ i ∧ i < (a.ndim : Int)) := h
    apply axisPos_pos_out_of_range
    simp only [DimArray.ndim] at h'
    omega

theorem axisPos_good {α} (a : DimArray α) (k : DimKey) (d : Nat) (h : Resolves a k d) (hn : a.dims.Nodup) :
    axisPos a.axes k = .ok d := by
  obtain ⟨hd, hk⟩ := h
  cases k with
  | name s =>
    obtain ⟨h1, _, h3⟩ := idxOf_eq_of_getElem? hn hk
    have h1' : (a.axes.map (·.name)).idxOf s = d := h1
    have : d < a.axes.length := hd
    simp only [axisPos, h1', this, if_true]
  | pos i =>
    have hk' : i = (d : Int) ∨ i = (d : Int) - (a.ndim : Int) := hk
    have hd' : d < a.axes.length := hd
    unfold axisPos
    simp only [DimArray.ndim] at hk'
    have c : ((if i < 0 then i + (a.axes.length : Int) else i) < 0
        || (if i < 0 then i + (a.axes.length : Int) else i) ≥ (a.axes.length : Int)) = false := by
      simp only [Bool.or_eq_false_iff, decide_eq_false_iff_not]
      split <;> omega
    simp only [c, Bool.false_eq_true, if_false]
    congr 1
    split <;> omega

end C10
end DimModel

/-
Helper lemmas for C05, Dataset part: every variable of the Dataset a mirror function of `Lib/DatasetOps.lean` /
`Lib/DatasetInterp.lean` returns is well-formed.

Two routes.  The functions that assemble their result through `__setitem__` (`setItem`, `fromVars`, `copyDs`,
`binaryOpDs`, `stackDs`, `concatenateDs`) are handled by the invariant `DsOK` of the Dataset under construction;
the functions that go through `reduce_axis` / `take` on the Dataset's own axes (`takeAxisPosDs`, `sortAxisDs`,
`reindexAxisDs`, `takeDs`, `interpAxisDs`, `reduceDs`) need the shared-axes invariant `GoodDs` of C14 and are read
off the C14 / C18 closed forms.
-/
import DimModel.Proofs.C05WF
import DimModel.Props.C14
import DimModel.Props.C18
namespace DimModel
open Lib DSV

/-- the size of the axis is its number of labels (true of every plain axis) -/
def LabelSized (ax : Axis) : Prop := ax.size = ax.labels.length

namespace DSV

/-- every variable is well-formed -/
def DsWF {α} (ds : Ds α) : Prop := ∀ kv ∈ ds.vars, kv.2.WF

/-- a variable `__setitem__` can store without breaking well-formedness -/
def VarOK {α} (v : DimArray α) : Prop := v.WF ∧ ∀ ax ∈ v.axes, LabelSized ax

/-- invariant of a Dataset under construction: well-formed variables, axes sized by their labels -/
def DsOK {α} (ds : Ds α) : Prop := (∀ kv ∈ ds.vars, VarOK kv.2) ∧ ∀ e ∈ ds.axes, LabelSized e

end DSV

namespace C05
open C16

variable {α : Type}

theorem labelSized_of_plain {ax : Axis} (h : ax.members = []) : LabelSized ax := plain_size ax h

theorem varOK_of_plain {v : DimArray α} (hw : v.WF) (hp : PlainAxes v.axes) : VarOK v :=
  ⟨hw, fun ax hax => labelSized_of_plain (hp ax hax)⟩

theorem dsOK_empty : DsOK ({} : Ds α) := by
  refine ⟨?_, ?_⟩
  · intro kv hkv; cases hkv
  · intro e he; cases he

theorem DsOK.wf {ds : Ds α} (h : DsOK ds) : DsWF ds := fun kv hkv => (h.1 kv hkv).1

/-! ### `__setitem__` -/

/-- what `__setitem__` substitutes for an axis of the stored value has the same name and size -/
theorem setItem_repl (ds : Ds α) (v : DimArray α)
    (hchk : ¬ (v.axes.any (fun ax => match ds.axes.find? (·.name == ax.name) with
      | some e => !(axisEq ax e)
      | none => false)) = true)
    (hnd : v.dims.Nodup) (hl : ∀ e ∈ ds.axes, LabelSized e) (hlv : ∀ ax ∈ v.axes, LabelSized ax)
    (ax : Axis) (hax : ax ∈ v.axes) :
    let e := ((ds.axes ++ v.axes.filter fun ax => !(ds.dims.contains ax.name)).find? (·.name == ax.name)).getD ax
    e.name = ax.name ∧ e.size = ax.size ∧ LabelSized e := by
  intro e
  have hfa : (ds.axes ++ v.axes.filter fun ax => !(ds.dims.contains ax.name)).find? (·.name == ax.name)
      = (ds.axes.find? (·.name == ax.name)).or
          ((v.axes.filter fun ax => !(ds.dims.contains ax.name)).find? (·.name == ax.name)) := List.find?_append
  cases hfd : ds.axes.find? (·.name == ax.name) with
  | some e' =>
    have he : e = e' := by
      show Option.getD _ ax = e'
      rw [hfa, hfd]; rfl
    rw [he]
    have hn : e'.name = ax.name := by simpa using List.find?_some hfd
    have hmem := List.mem_of_find?_eq_some hfd
    have heq : axisEq ax e' = true := by
      simp only [List.any_eq_true, not_exists, not_and] at hchk
      have := hchk ax hax
      rw [hfd] at this
      simpa using this
    have hlab : ax.labels = e'.labels := by
      unfold axisEq at heq
      simp only [Bool.and_eq_true, beq_iff_eq] at heq
      exact heq.1
    refine ⟨hn, ?_, hl e' hmem⟩
    rw [hl e' hmem, hlv ax hax, hlab]
  | none =>
    cases hfn : (v.axes.filter fun ax => !(ds.dims.contains ax.name)).find? (·.name == ax.name) with
    | none =>
      have he : e = ax := by
        show Option.getD _ ax = ax
        rw [hfa, hfd, hfn]; rfl
      rw [he]; exact ⟨rfl, rfl, hlv ax hax⟩
    | some e'' =>
      have he : e = e'' := by
        show Option.getD _ ax = e''
        rw [hfa, hfd, hfn]; rfl
      have hn : e''.name = ax.name := by simpa using List.find?_some hfn
      have hmem : e'' ∈ v.axes := (List.mem_filter.mp (List.mem_of_find?_eq_some hfn)).1
      have : e'' = ax := name_inj hnd hmem hax hn
      rw [he, this]; exact ⟨rfl, rfl, hlv ax hax⟩

theorem setItem_ok (ds out : Ds α) (k : String) (v : DimArray α) (hds : DsOK ds) (hv : VarOK v)
    (h : setItem ds k v = .ok out) : DsOK out := by
  unfold setItem at h
  split at h
  · cases h
  · rename_i hchk
    cases h
    have hrepl := setItem_repl ds v hchk hv.1.2.1 hds.2 hv.2
    refine ⟨?_, ?_⟩
    · intro kv hkv
      rcases List.mem_append.mp hkv with hkv | hkv
      · exact hds.1 kv (List.mem_filter.mp hkv).1
      · rw [List.mem_singleton] at hkv
        subst hkv
        simp only
        have hnames : (v.axes.map fun ax =>
            ((ds.axes ++ v.axes.filter fun ax => !(ds.dims.contains ax.name)).find? (·.name == ax.name)).getD ax).map
              (·.name) = v.axes.map (·.name) := by
          rw [List.map_map]
          exact List.map_congr_left (fun ax hax => (hrepl ax hax).1)
        have hsizes : (v.axes.map fun ax =>
            ((ds.axes ++ v.axes.filter fun ax => !(ds.dims.contains ax.name)).find? (·.name == ax.name)).getD ax).map
              (·.size) = v.axes.map (·.size) := by
          rw [List.map_map]
          exact List.map_congr_left (fun ax hax => (hrepl ax hax).2.1)
        refine ⟨wf_mk ?_ ?_, ?_⟩
        · show v.vals.shape = _
          rw [hsizes]; exact hv.1.1
        · show NamesOK (List.map _ _)
          rw [hnames]; exact wf_names hv.1
        · intro e he
          obtain ⟨ax, hax, rfl⟩ := List.mem_map.mp he
          exact (hrepl ax hax).2.2
    · intro e he
      rcases List.mem_append.mp he with he | he
      · exact hds.2 e he
      · exact hv.2 e (List.mem_filter.mp he).1

/-- a loop of `__setitem__` over computed values -/
theorem storeLoop_ok {β : Type} (g : β → Except Err (String × DimArray α)) :
    ∀ (l : List β) (ds out : Ds α), DsOK ds → (∀ x ∈ l, ∀ kv, g x = .ok kv → VarOK kv.2) →
      l.foldlM (fun (acc : Ds α) x => do let kv ← g x; setItem acc kv.1 kv.2) ds = .ok out → DsOK out := by
  intro l ds out hds hg h
  refine foldlM_inv (fun acc : Ds α => DsOK acc) _ _ _ _ ?_ hds h
  intro s x s' hx hs hstep
  obtain ⟨kv, hkv, hstep⟩ := bind_ok hstep
  exact setItem_ok s s' kv.1 kv.2 hs (hg x hx kv hkv) hstep

/-! ### `Dataset(dict)`, `copy` -/

theorem fromVars_ok (nan : α) (vars : List (String × DimArray α)) (out : Ds α)
    (hin : ∀ kv ∈ vars, kv.2.WF ∧ PlainAxes kv.2.axes) (h : fromVars nan vars = .ok out) : DsOK out := by
  unfold fromVars at h
  obtain ⟨al, hal, h⟩ := bind_ok h
  have hw := align_wf nan _ al _ _ _ _ (by
    intro a ha
    obtain ⟨kv, hkv, rfl⟩ := List.mem_map.mp ha
    exact (hin kv hkv).1) hal
  have hp := align_plain nan _ al _ _ _ _ (by
    intro a ha
    obtain ⟨kv, hkv, rfl⟩ := List.mem_map.mp ha
    exact (hin kv hkv).2) hal
  refine foldlM_inv (fun acc : Ds α => DsOK acc) _ _ _ _ ?_ dsOK_empty h
  intro s x s' hx hs hstep
  have hx2 : x.2 ∈ al := (List.of_mem_zip hx).2
  exact setItem_ok s s' x.1 x.2 hs (varOK_of_plain (hw _ hx2) (hp _ hx2)) hstep

theorem copyDs_ok (nan : α) (ds out : Ds α) (hin : ∀ kv ∈ ds.vars, kv.2.WF ∧ PlainAxes kv.2.axes)
    (h : copyDs nan ds = .ok out) : DsOK out := by
  unfold copyDs at h
  obtain ⟨ds2, h2, h⟩ := bind_ok h
  cases h
  exact fromVars_ok nan ds.vars ds2 hin h2

/-! ### arithmetic -/

theorem operationNd_plain (f : α → α → α) (a r : DimArray α) (nd : NDArr α) (flip : Bool)
    (hp : PlainAxes a.axes) (h : operationNd f a nd flip = .ok r) : PlainAxes r.axes := by
  rw [(operationNd_spec f a r nd flip h).2]; exact hp

theorem binaryOpDs_scalar_ok (nan : α) (f : α → α → α) (self out : Ds α) (c : α)
    (hin : ∀ kv ∈ self.vars, kv.2.WF ∧ PlainAxes kv.2.axes)
    (h : binaryOpDs nan f self (.scalar c) = .ok out) : DsOK out := by
  unfold binaryOpDs at h
  simp only at h
  refine foldlM_inv (fun acc : Ds α => DsOK acc) _ _ _ _ ?_ dsOK_empty h
  intro s kv1 s' hkv1 hs hstep
  obtain ⟨r, hr, hstep⟩ := bind_ok hstep
  exact setItem_ok s s' kv1.1 r hs
    (varOK_of_plain (operationNd_wf f kv1.2 r _ false (hin kv1 hkv1).1 hr)
      (operationNd_plain f kv1.2 r _ false (hin kv1 hkv1).2 hr)) hstep

/-- the result of a binary operation between two alignable arrays with comma-free names stores as many values along
every dimension as the axis has labels -/
theorem operation_varOK (nan : α) (f : α → α → α) (a b : DimArray α) (r : DimArray α × Kind × Kind)
    (ha : OpInput a) (hb : OpInput b) (hwa : a.WF) (hwb : b.WF) (h : operation nan f a b = .ok r) : VarOK r.1 := by
  have hw := operation_wf nan f a b r hwa hwb h
  obtain ⟨r1, k1, k2⟩ := r
  obtain ⟨_, _, _, hshape, _⟩ := operation_general_spec nan f a b r1 k1 k2 ha.1 hb.1 ha.2 hb.2 h
  refine ⟨hw, ?_⟩
  have e : r1.axes.map (·.size) = r1.axes.map (·.labels.length) := hw.1.symm.trans hshape
  intro ax hax
  obtain ⟨i, hi, rfl⟩ := List.getElem_of_mem hax
  have := congrArg (fun l => l[i]?) e
  simpa [LabelSized, hi] using this

theorem binaryOpDs_ds_ok (nan : α) (f : α → α → α) (self o out : Ds α)
    (hin1 : ∀ kv ∈ self.vars, kv.2.WF ∧ OpInput kv.2) (hin2 : ∀ kv ∈ o.vars, kv.2.WF ∧ OpInput kv.2)
    (h : binaryOpDs nan f self (.ds o) = .ok out) : DsOK out := by
  unfold binaryOpDs at h
  simp only at h
  refine foldlM_inv (fun acc : Ds α => DsOK acc) _ _ _ _ ?_ dsOK_empty h
  intro s kv1 s' hkv1 hs hstep
  refine foldlM_inv (fun acc : Ds α => DsOK acc) _ _ _ _ ?_ hs hstep
  intro t kv2 t' hkv2 ht hstep2
  split at hstep2
  · obtain ⟨r, hr, hstep2⟩ := bind_ok hstep2
    exact setItem_ok t t' kv1.1 r.1 ht
      (operation_varOK nan f kv1.2 kv2.2 r (hin1 kv1 hkv1).2 (hin2 kv2 hkv2).2 (hin1 kv1 hkv1).1 (hin2 kv2 hkv2).1 hr)
      hstep2
  · cases hstep2; exact ht

/-! ### stack_ds / concatenate_ds -/

theorem gather_mem (datasets : List (Ds α)) (v : String) (arrays : List (DimArray α))
    (h : gather datasets v = .ok arrays) : ∀ a ∈ arrays, ∃ ds ∈ datasets, (v, a) ∈ ds.vars := by
  intro a ha
  unfold gather at h
  obtain ⟨ds, hds, hstep⟩ := mapM_mem _ _ _ h a ha
  refine ⟨ds, hds, ?_⟩
  split at hstep
  · rename_i a' hget
    cases hstep
    unfold Ds.get? at hget
    cases hf : ds.vars.find? (·.1 == v) with
    | none => simp [hf] at hget
    | some kv =>
      simp only [hf, Option.map_some, Option.some.injEq] at hget
      have hm := List.mem_of_find?_eq_some hf
      have hk : kv.1 = v := by simpa using List.find?_some hf
      rw [← hget, ← hk]
      exact hm
  · cases hstep

theorem stack_plain [Inhabited α] (nan : α) (arrays : List (DimArray α)) (axis : Option String) (keys : List Label)
    (kk : Kind) (doAlign sort : Bool) (r : DimArray α) (hp : ∀ a ∈ arrays, PlainAxes a.axes)
    (h : stack nan arrays axis keys kk doAlign sort = .ok r) : PlainAxes r.axes := by
  obtain ⟨_, name, rest, hr, hrest⟩ := stack_spec' nan arrays axis keys kk doAlign sort r h
  rw [hr]
  intro x hx
  rcases List.mem_cons.mp hx with rfl | hx
  · rfl
  · obtain ⟨a, ha, y, hy, hle⟩ := hrest x hx
    exact plain_of_axesLe (new := [x]) (old := a.axes)
      (fun z hz => by rw [List.mem_singleton] at hz; subst hz; exact ⟨y, hy, hle⟩) (hp a ha) x (List.mem_singleton.mpr rfl)

theorem stackDs_ok [Inhabited α] (nan : α) (datasets : List (Ds α)) (axis : Option String) (keys : List Label)
    (kk : Kind) (out : Ds α) (hin : ∀ ds ∈ datasets, ∀ kv ∈ ds.vars, kv.2.WF ∧ PlainAxes kv.2.axes)
    (hname : ∀ name, checkStackAxis axis (getDims (datasets.map (·.axes))) = .ok name → name ≠ "")
    (h : stackDs nan datasets axis keys kk = .ok out) : DsOK out := by
  unfold stackDs at h
  obtain ⟨name, hn, h⟩ := bind_ok h
  obtain ⟨vs, _, h⟩ := bind_ok h
  have hne := hname name hn
  cases vs with
  | none => cases h
  | some vars =>
    simp only at h
    refine foldlM_inv (fun acc : Ds α => DsOK acc) _ _ _ _ ?_ dsOK_empty h
    intro s v s' _ hs hstep
    obtain ⟨arrays, hga, hstep⟩ := bind_ok hstep
    obtain ⟨array, hst, hstep⟩ := bind_ok hstep
    have hmem := gather_mem datasets v arrays hga
    have hw : ∀ a ∈ arrays, a.WF := fun a ha => by
      obtain ⟨ds, hds, hkv⟩ := hmem a ha
      exact (hin ds hds _ hkv).1
    have hp : ∀ a ∈ arrays, PlainAxes a.axes := fun a ha => by
      obtain ⟨ds, hds, hkv⟩ := hmem a ha
      exact (hin ds hds _ hkv).2
    refine setItem_ok s s' v array hs (varOK_of_plain ?_ (stack_plain nan arrays _ keys kk false false array hp hst)) hstep
    refine stack_wf nan arrays (some name) keys kk false false array hw ?_ hst
    intro nm hnm
    obtain ⟨rfl, hfresh⟩ := checkStackAxis_some name _ nm hnm
    exact ⟨hne, hfresh⟩

theorem concatenate_plain (nan : α) (arrays : List (DimArray α)) (axis : DimKey) (doAlign sort : Bool) (r : DimArray α)
    (hp : ∀ a ∈ arrays, PlainAxes a.axes) (h : concatenate nan arrays axis doAlign sort = .ok r) :
    PlainAxes r.axes := by
  cases arrays with
  | nil => simp [concatenate, bind, Except.bind] at h
  | cons a0 rest =>
    rw [concatenate_eq] at h
    obtain ⟨pos, hpos, h⟩ := bind_ok h
    obtain ⟨arrays1, h1, h⟩ := bind_ok h
    have hp1 : ∀ x ∈ arrays1, PlainAxes x.axes := by
      unfold catAlign at h1
      split at h1
      · refine foldlM_inv (fun arrs : List (DimArray α) => ∀ x ∈ arrs, PlainAxes x.axes) _ _ _ _ ?_ hp h1
        intro s ax s' _ hs hstep
        split at hstep
        · exact align_plain nan _ _ _ _ _ _ hs hstep
        · cases hstep; exact hs
      · cases h1; exact hp
    unfold catCore at h
    obtain ⟨arrays2, h2, h⟩ := bind_ok h
    cases arrays1 with
    | nil => simp [reorderLikeFirst] at h2
    | cons b0 rest1 =>
      obtain ⟨t, rfl⟩ := C12.reorderLikeFirst_head b0 rest1 arrays2 h2
      simp only [List.headD_cons] at h
      have h := ite_ok (ite_ok h)
      split at h
      · cases h
      · cases h
        intro x hx
        simp only [List.map_id'] at hx
        rcases List.mem_append.mp hx with hx | hx
        · rcases List.mem_append.mp hx with hx | hx
          · exact hp1 b0 List.mem_cons_self x (List.mem_of_mem_eraseIdx (List.mem_of_mem_take hx))
          · rw [List.mem_singleton] at hx; subst hx; rfl
        · exact hp1 b0 List.mem_cons_self x (List.mem_of_mem_eraseIdx (List.mem_of_mem_drop hx))

theorem concatenateDs_ok (nan : α) (datasets : List (Ds α)) (axis : DimKey) (out : Ds α)
    (hin : ∀ ds ∈ datasets, ∀ kv ∈ ds.vars, kv.2.WF ∧ PlainAxes kv.2.axes)
    (h : concatenateDs nan datasets axis = .ok out) : DsOK out := by
  unfold concatenateDs at h
  obtain ⟨vs, _, h⟩ := bind_ok h
  obtain ⟨name, _, h⟩ := bind_ok h
  cases vs with
  | none => cases h
  | some vars =>
    simp only at h
    refine foldlM_inv (fun acc : Ds α => DsOK acc) _ _ _ _ ?_ dsOK_empty h
    intro s v s' _ hs hstep
    obtain ⟨arrays, hga, hstep⟩ := bind_ok hstep
    obtain ⟨array, hst, hstep⟩ := bind_ok hstep
    have hmem := gather_mem datasets v arrays hga
    have hw : ∀ a ∈ arrays, a.WF := fun a ha => by
      obtain ⟨ds, hds, hkv⟩ := hmem a ha
      exact (hin ds hds _ hkv).1
    have hp : ∀ a ∈ arrays, PlainAxes a.axes := fun a ha => by
      obtain ⟨ds, hds, hkv⟩ := hmem a ha
      exact (hin ds hds _ hkv).2
    exact setItem_ok s s' v array hs
      (varOK_of_plain (concatenate_wf nan arrays _ false false array hw hp hst)
        (concatenate_plain nan arrays _ false false array hp hst)) hstep

/-! ### the functions that work on the Dataset's own axes (shared-axes invariant `GoodDs`) -/

theorem goodDs_mk {ds : Ds α} (hs : SharedAxes ds) (hown : OwnAxes ds) (hk : ds.keys.Nodup)
    (hv : ∀ kv ∈ ds.vars, kv.2.WF ∧ PlainAxes kv.2.axes) : GoodDs ds ∧ DsWF ds :=
  ⟨⟨hs, hown, hk, fun kv hkv => ⟨(hv kv hkv).1.2.1, (hv kv hkv).1.1, (hv kv hkv).2⟩⟩, fun kv hkv => (hv kv hkv).1⟩

theorem good_varPlain {ds : Ds α} (hg : GoodDs ds) {kv : String × DimArray α} (hkv : kv ∈ ds.vars) :
    PlainAxes kv.2.axes := (hg.2.2.2 kv hkv).2.2

/-- a good Dataset whose axes have non-empty names has well-formed variables -/
theorem goodDs_wf {ds : Ds α} (hg : GoodDs ds) (hne : ∀ e ∈ ds.axes, e.name ≠ "") : DsWF ds := by
  intro kv hkv
  obtain ⟨hnd, hsh, _⟩ := hg.2.2.2 kv hkv
  exact ⟨hsh, hnd, fun ax hax => hne ax (hg.2.1 kv hkv ax hax)⟩

/-- in a good Dataset with well-formed variables the axes have non-empty names -/
theorem goodDs_axes_ne {ds : Ds α} (hg : GoodDs ds) (hw : DsWF ds) : ∀ e ∈ ds.axes, e.name ≠ "" := by
  intro e he
  obtain ⟨kv, hkv, hmem⟩ := hg.1.2.1 e he
  exact (wf_names (hw kv hkv)).2 _ hmem

/-- every variable of the result comes from the variable of the same key -/
theorem vars_transfer {ds out : Ds α} (hk : out.keys = ds.keys) (hnd : ds.keys.Nodup)
    (P : DimArray α → DimArray α → Prop)
    (h : ∀ k v, (k, v) ∈ ds.vars → ∃ r, (k, r) ∈ out.vars ∧ P v r) :
    ∀ kv ∈ out.vars, ∃ v, (kv.1, v) ∈ ds.vars ∧ P v kv.2 := by
  intro kv hkv
  obtain ⟨v, hv⟩ := var_of_key (l := ds.vars) (l' := out.vars) hk hkv
  obtain ⟨r, hr, hP⟩ := h kv.1 v hv
  have hnd' : (out.vars.map (·.1)).Nodup := by
    have : out.vars.map (·.1) = ds.vars.map (·.1) := hk
    rw [this]; exact hnd
  have : r = kv.2 := value_unique hnd' hr hkv
  exact ⟨v, hv, this ▸ hP⟩

theorem takeAxisPos_plain (a : DimArray α) (pos : Nat) (ps : List Nat) (hp : PlainAxes a.axes) :
    PlainAxes (takeAxisPos a pos ps).axes := plain_of_axesLe (takeAxisPos_le a pos ps) hp

theorem takeAxisPosDs_good (ds out : Ds α) (name : String) (ps : List Nat) (hg : GoodDs ds) (hw : DsWF ds)
    (h : takeAxisPosDs ds name ps = .ok out) : GoodDs out ∧ DsWF out := by
  obtain ⟨hk, _, hs, hown, hv⟩ := DSV.takeAxisPosDs_spec ds out name ps hg h
  refine goodDs_mk hs hown (hk ▸ hg.2.2.1) ?_
  intro kv hkv
  obtain ⟨v, hv0, hin, hnot⟩ := vars_transfer hk hg.2.2.1
    (fun v r => (name ∈ v.dims → r = takeAxisPos v (v.dims.idxOf name) ps) ∧ (name ∉ v.dims → r = v)) hv kv hkv
  by_cases hm : name ∈ v.dims
  · rw [hin hm]
    exact ⟨takeAxisPos_wf _ _ _ (hw _ hv0), takeAxisPos_plain _ _ _ (good_varPlain hg hv0)⟩
  · rw [hnot hm]
    exact ⟨hw _ hv0, good_varPlain hg hv0⟩

theorem sortAxisDs_good (ds out : Ds α) (name : String) (hg : GoodDs ds) (hw : DsWF ds)
    (h : sortAxisDs ds name = .ok out) : GoodDs out ∧ DsWF out := by
  unfold sortAxisDs at h
  split at h
  · cases h
  · exact takeAxisPosDs_good ds out name _ hg hw h

theorem takeAxisLabel_good (ds out : Ds α) (name : String) (labels : List Label) (clip : Bool) (hg : GoodDs ds)
    (hw : DsWF ds) (h : takeAxisLabel ds name labels clip = .ok out) : GoodDs out ∧ DsWF out := by
  unfold takeAxisLabel at h
  split at h
  · cases h
  · obtain ⟨r, _, h⟩ := bind_ok h
    split at h
    · exact takeAxisPosDs_good ds out name _ hg hw h
    · cases h

theorem reindexAxisDs_good (ds out : Ds α) (name : String) (newL : List Label) (newKind fillKind : Kind) (fill : α)
    (hg : GoodDs ds) (hw : DsWF ds) (h : reindexAxisDs ds name newL newKind fill fillKind = .ok out) :
    GoodDs out ∧ DsWF out := by
  obtain ⟨hk, _, hs, hown, hv⟩ := DSV.reindexAxisDs_spec ds out name newL newKind fillKind fill hg h
  refine goodDs_mk hs hown (hk ▸ hg.2.2.1) ?_
  intro kv hkv
  obtain ⟨v, hv0, hin, hnot⟩ := vars_transfer hk hg.2.2.1
    (fun v r => (name ∈ v.dims → reindexAxis v (.name name) newL newKind fill fillKind false none = .ok r) ∧
      (name ∉ v.dims → r = v)) hv kv hkv
  by_cases hm : name ∈ v.dims
  · exact ⟨reindexAxis_wf _ _ _ _ _ _ _ _ _ (hw _ hv0) (hin hm),
      plain_of_axesLe (reindexAxis_same _ _ _ _ _ _ _ _ _ (hin hm)).2.2 (good_varPlain hg hv0)⟩
  · rw [hnot hm]
    exact ⟨hw _ hv0, good_varPlain hg hv0⟩

theorem reindexLikeDs_good (nan : α) (ds out : Ds α) (tmpl : List Axis) (hg : GoodDs ds) (hw : DsWF ds)
    (h : reindexLikeDs nan ds tmpl = .ok out) : GoodDs out ∧ DsWF out := by
  unfold reindexLikeDs at h
  refine foldlM_inv (fun acc : Ds α => GoodDs acc ∧ DsWF acc) _ _ _ _ ?_ ⟨hg, hw⟩ h
  intro s ax s' _ hs hstep
  split at hstep
  · exact reindexAxisDs_good s s' _ _ _ _ _ hs.1 hs.2 hstep
  · cases hstep; exact hs

theorem getAxesOrtho_plain (axes : List Axis) (raw : List RawIx) (pix : List PosIx) (hp : PlainAxes axes) :
    PlainAxes (getAxesOrtho axes raw pix) := by
  intro x hx
  unfold getAxesOrtho at hx
  obtain ⟨⟨⟨ax, r⟩, p⟩, hmem, hsome⟩ := List.mem_filterMap.mp hx
  cases p with
  | scalar _ => simp at hsome
  | list ps =>
    simp only at hsome
    split at hsome
    · cases hsome
      exact hp _ (List.of_mem_zip (List.of_mem_zip hmem).1).1
    · cases hsome; rfl

theorem take_plain (a r : DimArray α) (ui : UserIndex) (cfg : IndexCfg) (hp : PlainAxes a.axes)
    (h : take a ui cfg = .ok r) : PlainAxes r.axes := by
  unfold take at h
  obtain ⟨raw, _, h⟩ := bind_ok h
  obtain ⟨pix, _, h⟩ := bind_ok h
  cases h
  exact getAxesOrtho_plain _ _ _ hp

theorem takeDs_good (ds out : Ds α) (name : String) (ix : Ix) (cfg : IndexCfg) (hg : GoodDs ds) (hw : DsWF ds)
    (h : takeDs ds name ix cfg = .ok out) : GoodDs out ∧ DsWF out := by
  obtain ⟨hk, _, hs, hown, hv⟩ := DSV.takeDs_spec ds out name ix cfg hg h
  refine goodDs_mk hs hown (hk ▸ hg.2.2.1) ?_
  intro kv hkv
  obtain ⟨v, hv0, hin, hnot⟩ := vars_transfer hk hg.2.2.1
    (fun v r => (name ∈ v.dims → take v (.dict [(.name name, ix)]) cfg = .ok r) ∧ (name ∉ v.dims → r = v)) hv kv hkv
  by_cases hm : name ∈ v.dims
  · exact ⟨take_wf _ _ _ _ (hw _ hv0) (hin hm), take_plain _ _ _ _ (good_varPlain hg hv0) (hin hm)⟩
  · rw [hnot hm]
    exact ⟨hw _ hv0, good_varPlain hg hv0⟩

theorem reduceDs_good (nan : α) (red : List α → α) (ds out : Ds α) (name : String) (hg : GoodDs ds) (hw : DsWF ds)
    (h : reduceDs nan red ds name = .ok out) : GoodDs out ∧ DsWF out := by
  obtain ⟨_, _, hax, _, _, _, hgo, _⟩ := DSV.reduceDs_spec nan red ds out name hg h
  exact ⟨hgo, goodDs_wf hgo (fun e he => goodDs_axes_ne hg hw e ((hax e).mp he).1)⟩

/-- `reduce_axis(..., keepdims=True, newaxis=...)` with a plain replacement axis and a kernel that sets the extent of
the operated dimension to the size of that axis -/
theorem reduceAxisKeep_good (ds out : Ds α) (name : String) (newAxis : Axis) (f : Nat → DimArray α → NDArr α)
    (hname : newAxis.name = name) (hpl : newAxis.members = [])
    (hf : ∀ pos v, (f pos v).shape = v.vals.shape.set pos newAxis.size)
    (hg : GoodDs ds) (hw : DsWF ds) (h : reduceAxisKeep ds name newAxis f = .ok out) : GoodDs out ∧ DsWF out := by
  have hin : name ∈ ds.dims := by
    unfold reduceAxisKeep at h
    split at h
    · cases h
    · rename_i hc; simpa using hc
  rw [reduceAxisKeep_closed ds name newAxis f hname hin hg.2.1 hg.1.2.2 hg.2.2.1] at h
  cases h
  obtain ⟨hs, hown⟩ := reduce_shared ds name newAxis f hname hg.1 hg.2.1 _ rfl
  refine goodDs_mk hs hown ?_ ?_
  · show ((ds.vars.map (fun kv => (kv.1, reduceVar name newAxis f kv.2))).map (·.1)).Nodup
    rw [List.map_map]
    exact hg.2.2.1
  · intro kv hkv
    obtain ⟨kv0, hkv0, rfl⟩ := List.mem_map.mp hkv
    have hw0 := hw kv0 hkv0
    have hp0 := good_varPlain hg hkv0
    show (reduceVar name newAxis f kv0.2).WF ∧ PlainAxes (reduceVar name newAxis f kv0.2).axes
    unfold reduceVar
    split
    · rename_i hlt
      rw [replAxis_eq_set name newAxis kv0.2 hw0.2.1]
      refine ⟨wf_mk ?_ ?_, ?_⟩
      · show (f _ kv0.2).shape = _
        rw [hf, List.map_set, hw0.1]
      · show NamesOK ((kv0.2.axes.set _ newAxis).map (·.name))
        rw [names_set_same]
        · exact wf_names hw0
        · rw [hname]
          exact (axes_getD_idxOf kv0.2 name (List.idxOf_lt_length_iff.mp hlt)).2.symm
      · intro x hx
        rcases List.mem_or_eq_of_mem_set hx with hx | rfl
        · exact hp0 x hx
        · exact hpl
    · exact ⟨hw0, hp0⟩

/-- patching the value kind of the variables changes nothing the invariants speak about -/
theorem good_patch (ds : Ds α) (g : String × DimArray α → String × DimArray α)
    (hg1 : ∀ kv, (g kv).1 = kv.1) (hg2 : ∀ kv, (g kv).2.axes = kv.2.axes) (hg3 : ∀ kv, (g kv).2.vals = kv.2.vals)
    (h : GoodDs ds ∧ DsWF ds) : GoodDs { ds with vars := ds.vars.map g } ∧ DsWF { ds with vars := ds.vars.map g } := by
  obtain ⟨hg, hw⟩ := h
  have hdims : ∀ kv, (g kv).2.dims = kv.2.dims := fun kv => by unfold DimArray.dims; rw [hg2]
  refine goodDs_mk ⟨?_, ?_, hg.1.2.2⟩ ?_ ?_ ?_
  · intro kv hkv ax hax
    obtain ⟨kv0, hkv0, rfl⟩ := List.mem_map.mp hkv
    rw [hg2] at hax
    exact hg.1.1 kv0 hkv0 ax hax
  · intro e he
    obtain ⟨kv, hkv, hm⟩ := hg.1.2.1 e he
    exact ⟨g kv, List.mem_map_of_mem hkv, by rw [hdims]; exact hm⟩
  · intro kv hkv ax hax
    obtain ⟨kv0, hkv0, rfl⟩ := List.mem_map.mp hkv
    rw [hg2] at hax
    exact hg.2.1 kv0 hkv0 ax hax
  · show ((ds.vars.map g).map (·.1)).Nodup
    rw [List.map_map]
    have : ((fun x => x.1) ∘ g) = (fun x : String × DimArray α => x.1) := by funext kv; exact hg1 kv
    rw [this]; exact hg.2.2.1
  · intro kv hkv
    obtain ⟨kv0, hkv0, rfl⟩ := List.mem_map.mp hkv
    have hw0 := hw kv0 hkv0
    refine ⟨⟨?_, ?_, ?_⟩, ?_⟩
    · rw [hg3, hg2]; exact hw0.1
    · rw [hg2]; exact hw0.2.1
    · rw [hg2]; exact hw0.2.2
    · rw [hg2]; exact good_varPlain hg hkv0

theorem interpSortedDs_good [Inhabited α] (lin : α → α → Rat → α) (o out : Ds α) (name : String) (newL : List Label)
    (nk : Kind) (left right : α) (hg : GoodDs o) (hw : DsWF o)
    (h : interpSortedDs lin o name newL nk left right = .ok out) : GoodDs out ∧ DsWF out := by
  unfold interpSortedDs at h
  split at h
  · cases h
  · split at h
    · rename_i xs nx hxs hnx
      split at h
      · cases h
      · obtain ⟨o2, ho2, h⟩ := bind_ok h
        cases h
        have hl : nx.length = newL.length := optMapM_length _ _ _ hnx
        have h2 := reduceAxisKeep_good o o2 name { name := name, labels := newL, kind := nk }
          (interpVals lin xs nx left right) rfl rfl
          (by intro pos v; simp [interpVals, Axis.size, hl]) hg hw ho2
        exact good_patch o2 _
          (by intro kv; split <;> rfl) (by intro kv; split <;> rfl) (by intro kv; split <;> rfl) h2
    · cases h

theorem interpAxisDs_good [Inhabited α] (lin : α → α → Rat → α) (ds out : Ds α) (name : String) (newL : List Label)
    (nk : Kind) (left right : α) (hg : GoodDs ds) (hw : DsWF ds)
    (h : interpAxisDs lin ds name newL nk left right = .ok out) : GoodDs out ∧ DsWF out := by
  unfold interpAxisDs at h
  split at h
  · cases h
  · simp only at h
    split at h
    · obtain ⟨o, ho, h⟩ := bind_ok h
      cases ho
      exact interpSortedDs_good lin _ out name newL nk left right hg hw h
    · obtain ⟨o, ho, h⟩ := bind_ok h
      have hgo := sortAxisDs_good ds o name hg hw ho
      exact interpSortedDs_good lin o out name newL nk left right hgo.1 hgo.2 h

end C05
end DimModel

/-
Helper lemmas for C19 (serialisation round trips): chunking a row-major cell list, `flat`/`inferShape`
of `nest`, `filterMap` over an injective constructor, and the explicit form of the store that
`writeDs` builds from an empty store.
-/
import DimModel.Lib.Serial
namespace DimModel
namespace Serial

theorem flatMap_congr' {α β} (l : List α) (f g : α → List β) (h : ∀ x ∈ l, f x = g x) :
    l.flatMap f = l.flatMap g := by
  induction l with
  | nil => rfl
  | cons a t ih =>
    simp only [List.flatMap_cons]
    rw [h a (by simp), ih (fun x hx => h x (by simp [hx]))]

theorem chunks_take {α} (p : Nat) (l : List α) (n : Nat) :
    (List.range n).flatMap (fun i => (l.drop (i * p)).take p) = l.take (n * p) := by
  induction n with
  | zero => simp
  | succ n ih =>
    rw [List.range_succ, List.flatMap_append, ih, Nat.succ_mul, List.take_add]
    simp

theorem chunk_length {α} (p n i : Nat) (l : List α) (hl : l.length = n * p) (hi : i < n) :
    ((l.drop (i * p)).take p).length = p := by
  rw [List.length_take, List.length_drop, hl]
  have : (i + 1) * p ≤ n * p := Nat.mul_le_mul_right p hi
  rw [Nat.succ_mul] at this
  omega

theorem flat_nest_aux (s : List Nat) (l : List JVal) (hlen : l.length = prod s) :
    flat s.length (nest s l) = l := by
  induction s generalizing l with
  | nil =>
    match l, hlen with
    | [v], _ => rfl
  | cons n s ih =>
    have hp : prod (n :: s) = n * prod s := rfl
    rw [hp] at hlen
    simp only [nest, List.length_cons, flat, List.flatMap_map]
    rw [flatMap_congr' _ _ (fun i => (l.drop (i * prod s)).take (prod s))]
    · rw [chunks_take, ← hlen, List.take_length]
    · intro i hi
      exact ih _ (chunk_length _ n i l hlen (List.mem_range.mp hi))

theorem inferShape_nest_aux (s : List Nat) (l : List JVal) (hlen : l.length = prod s)
    (hz : s.dropLast.all (· != 0) = true) :
    inferShape s.length (nest s l) = s := by
  induction s generalizing l with
  | nil => rfl
  | cons n s ih =>
    have hp : prod (n :: s) = n * prod s := rfl
    rw [hp] at hlen
    cases n with
    | zero =>
      cases s with
      | nil => rfl
      | cons a t => simp at hz
    | succ n =>
      have hz' : s.dropLast.all (· != 0) = true := by
        cases s with
        | nil => rfl
        | cons a t =>
          simp only [List.dropLast_cons_cons, List.all_cons, Bool.and_eq_true] at hz
          exact hz.2
      simp only [nest, List.length_cons, List.range_succ_eq_map, List.map_cons, inferShape,
        List.length_map, List.length_range]
      rw [ih _ (chunk_length _ (n+1) 0 l hlen (Nat.succ_pos _)) hz']

theorem filterMap_map_some {α β} (g : α → β) (f : β → Option α) (h : ∀ x, f (g x) = some x)
    (l : List α) : (l.map g).filterMap f = l := by
  induction l with
  | nil => rfl
  | cons a t ih => simp only [List.map_cons, List.filterMap_cons, h, ih]

theorem filterMap_map_some' {α β} (g : α → β) (f : β → Option α) (l : List α)
    (h : ∀ x ∈ l, f (g x) = some x) : (l.map g).filterMap f = l := by
  induction l with
  | nil => rfl
  | cons a t ih =>
    simp only [List.map_cons, List.filterMap_cons, h a (by simp)]
    rw [ih (fun x hx => h x (by simp [hx]))]

def axDim (ax : DsAxis) : String × Nat := (ax.name, ax.labels.length)
def axVar (ax : DsAxis) : NcVar :=
  { name := ax.name, dims := [ax.name], cells := ax.labels, kind := ax.kind, attrs := ax.attrs }
def mkVar (v : DsVar) : NcVar :=
  { name := v.key, dims := v.dims, cells := v.cells, kind := v.kind, attrs := v.attrs }

theorem foldl_appendAxis (axes : List DsAxis) (st : NcStore)
    (hnd : (axes.map (·.name)).Nodup)
    (hnew : ∀ ax ∈ axes, ∀ d ∈ st.dims, d.1 ≠ ax.name) :
    axes.foldl appendAxis st =
      { st with dims := st.dims ++ axes.map axDim, vars := st.vars ++ axes.map axVar } := by
  induction axes generalizing st with
  | nil => simp
  | cons a t ih =>
    simp only [List.map_cons, List.nodup_cons, List.mem_map, not_exists, not_and] at hnd
    have h1 : st.dims.any (·.1 == a.name) = false := by
      simp only [List.any_eq_false, beq_iff_eq]
      exact fun d hd => hnew a (by simp) d hd
    simp only [List.foldl_cons, appendAxis, h1, Bool.false_eq_true, if_false]
    rw [ih _ hnd.2]
    · simp [axDim, axVar]
    · intro ax hax d hd
      simp only [List.mem_append, List.mem_singleton] at hd
      rcases hd with hd | hd
      · exact hnew ax (by simp [hax]) d hd
      · subst hd
        exact fun e => hnd.1 ax hax e.symm

theorem foldl_writeVar (vars : List DsVar) (st : NcStore)
    (hnd : (vars.map (·.key)).Nodup)
    (hnew : ∀ v ∈ vars, ∀ w ∈ st.vars, w.name ≠ v.key) :
    vars.foldl writeVar st = { st with vars := st.vars ++ vars.map mkVar } := by
  induction vars generalizing st with
  | nil => simp
  | cons a t ih =>
    simp only [List.map_cons, List.nodup_cons, List.mem_map, not_exists, not_and] at hnd
    have h1 : st.vars.any (·.name == a.key) = false := by
      simp only [List.any_eq_false, beq_iff_eq]
      exact fun d hd => hnew a (by simp) d hd
    simp only [List.foldl_cons, writeVar, h1, Bool.false_eq_true, if_false]
    rw [ih _ hnd.2]
    · simp [mkVar]
    · intro v hv w hw
      simp only [List.mem_append, List.mem_singleton] at hw
      rcases hw with hw | hw
      · exact hnew v (by simp [hv]) w hw
      · subst hw
        exact fun e => hnd.1 v hv e.symm

theorem find_axVar (axes : List DsAxis) (hnd : (axes.map (·.name)).Nodup) (ax : DsAxis)
    (hax : ax ∈ axes) : (axes.map axVar).find? (·.name == ax.name) = some (axVar ax) := by
  induction axes with
  | nil => simp at hax
  | cons a t ih =>
    simp only [List.map_cons, List.nodup_cons, List.mem_map, not_exists, not_and] at hnd
    simp only [List.map_cons, List.find?_cons]
    rcases List.mem_cons.mp hax with rfl | hmem
    · simp [axVar]
    · have : (axVar a).name ≠ ax.name := fun e => hnd.1 ax hmem e.symm
      have : ((axVar a).name == ax.name) = false := by simpa using this
      rw [this]
      exact ih hnd.2 hmem

end Serial
end DimModel

/-
Helper lemmas for the C01 statements about reads with a full-shape boolean array (`Lib.takeMaskNd`, Lib/TakeNd.lean) and
with an Axes object as index (`Lib.takeAxesIndex`).

`Props/C17.lean` states `compressNd_spec` / `_complete` / `_coord` from the lemmas of Proofs/C17Key.lean; those files sit
ABOVE Props/C01.lean in the import graph (Proofs/C17 -> Proofs/C20 -> Props/C01), so the few facts about `allIdx`,
`coordLabels` and `compressNd` that the C01 statement needs are proved here again, without that dependency.
-/
import DimModel.Lib.TakeNd
namespace DimModel
namespace C01Nd
open Lib

theorem mem_allIdx (s c : List Nat) (h : c ∈ allIdx s) : InRange s c := by
  induction s generalizing c with
  | nil =>
    simp only [allIdx, List.mem_singleton] at h
    subst h; trivial
  | cons n s ih =>
    simp only [allIdx, List.mem_flatMap, List.mem_range, List.mem_map] at h
    obtain ⟨i, hi, c', hc', rfl⟩ := h
    exact ⟨hi, ih c' hc'⟩

theorem inRange_mem_allIdx : ∀ (s j : List Nat), InRange s j → j ∈ allIdx s
  | [], [], _ => by simp [allIdx]
  | [], _ :: _, h => by simp [InRange] at h
  | _ :: _, [], h => by simp [InRange] at h
  | n :: s, i :: is, h => by
    simp only [InRange] at h
    simp only [allIdx, List.mem_flatMap, List.mem_range, List.mem_map]
    exact ⟨i, h.1, is, inRange_mem_allIdx s is h.2, rfl⟩

theorem inRange_length : ∀ (s j : List Nat), InRange s j → j.length = s.length
  | [], [], _ => rfl
  | _ :: s, _ :: is, h => by
    simp only [List.length_cons, Nat.add_right_cancel_iff]
    exact inRange_length s is h.2
  | [], _ :: _, h => by simp [InRange] at h
  | _ :: _, [], h => by simp [InRange] at h

theorem allIdx_nodup : ∀ (s : List Nat), (allIdx s).Nodup
  | [] => by simp [allIdx]
  | n :: s => by
    unfold allIdx
    unfold List.Nodup
    rw [List.pairwise_flatMap]
    refine ⟨?_, ?_⟩
    · intro i _
      rw [List.pairwise_map]
      exact List.Pairwise.imp (fun {x y} (h : x ≠ y) (e : i :: x = i :: y) => h (by injection e)) (allIdx_nodup s)
    · refine List.Pairwise.imp_of_mem ?_ (List.nodup_range (n := n))
      intro i j _ _ hij x hx y hy e
      obtain ⟨u, -, rfl⟩ := List.mem_map.mp hx
      obtain ⟨v, -, hv⟩ := List.mem_map.mp hy
      rw [← hv] at e
      injection e with h1 _
      exact hij h1

theorem coordLabels_getElem? : ∀ (axes : List Axis) (j : List Nat) (i : Nat) (ax : Axis) (p : Nat),
    axes[i]? = some ax → j[i]? = some p → (coordLabels axes j)[i]? = some (ax.labels.getD p Label.none) := by
  intro axes j i ax p h1 h2
  unfold coordLabels
  rw [List.getElem?_map, List.getElem?_zip_eq_some (z := (ax, p)) |>.mpr ⟨h1, h2⟩]
  rfl

theorem coordLabels_length (axes : List Axis) (j : List Nat) (h : j.length = axes.length) :
    (coordLabels axes j).length = axes.length := by
  unfold coordLabels
  rw [List.length_map, List.length_zip, h, Nat.min_self]

theorem compressNd_eq_tuple {α : Type} (a : DimArray α) (mask : NDArr Bool) (hrank : a.ndim ≠ 1)
    (hshape : mask.shape = a.vals.shape) (hnd : a.vals.shape.length = a.ndim) :
    compressNd a mask = .ok (.inr { name := ",".intercalate a.dims
                                    coords := ((allIdx a.vals.shape).filter mask.get).map (coordLabels a.axes)
                                    cells := ((allIdx a.vals.shape).filter mask.get).map a.vals.get
                                    vkind := a.vkind, attrs := a.attrs }) := by
  unfold compressNd
  have h1 : (mask.shape.length != a.ndim) = false := by rw [hshape, hnd]; simp
  have h2 : (mask.shape != a.vals.shape) = false := by rw [hshape]; simp
  have h3 : (a.ndim == 1) = false := by simpa using hrank
  simp only [h1, h2, h3, Bool.false_eq_true, if_false]

theorem compressNd_err_rank {α : Type} (a : DimArray α) (mask : NDArr Bool) (h : mask.shape.length ≠ a.ndim) :
    compressNd a mask = .error .value := by
  unfold compressNd
  have h1 : (mask.shape.length != a.ndim) = true := by simpa using h
  simp only [h1, if_true]

theorem compressNd_err_shape {α : Type} (a : DimArray α) (mask : NDArr Bool) (h : mask.shape.length = a.ndim)
    (h' : mask.shape ≠ a.vals.shape) : compressNd a mask = .error .index := by
  unfold compressNd
  have h1 : (mask.shape.length != a.ndim) = false := by simp [h]
  have h2 : (mask.shape != a.vals.shape) = true := by simpa using h'
  simp only [h1, h2, Bool.false_eq_true, if_false, if_true]

end C01Nd
end DimModel

/-
Helper lemmas for C02: partition-point characterisation of searchsorted on sorted lists, Python
slices with natural bounds, interval filters of `List.range`.
-/
import DimModel.Spec.C02
import DimModel.Proofs.C01
namespace DimModel

variable {β : Type}

section search
variable (le : β → β → Bool)
  (htrans : ∀ a b c, le a b = true → le b c = true → le a c = true)
  (htot : ∀ a b, (le a b || le b a) = true)
include htrans htot

/-- on a sorted list, `searchsorted(side='left')` is the partition point of `x < v` -/
theorem searchLeft_partition (s : List β) (hs : s.Pairwise (fun a b => le a b = true)) (v : β)
    (i : Nat) (hi : i < s.length) :
    i < searchLeft (fun a b => !(le b a)) s v ↔ le v s[i] = false := by
  unfold searchLeft
  constructor
  · intro h
    have := List.not_of_lt_findIdx (p := fun x => !(!(le v x))) (xs := s) h
    simpa using this
  · intro h
    by_cases hk : i < List.findIdx (fun x => !(!(le v x))) s
    · exact hk
    · exfalso
      have hk' : List.findIdx (fun x => !(!(le v x))) s ≤ i := Nat.le_of_not_lt hk
      have hlt : List.findIdx (fun x => !(!(le v x))) s < s.length := Nat.lt_of_le_of_lt hk' hi
      have h1 := List.findIdx_getElem (p := fun x => !(!(le v x))) (xs := s) (w := hlt)
      rw [Bool.not_not] at h1
      have h2 : le s[List.findIdx (fun x => !(!(le v x))) s] s[i] = true := by
        rcases Nat.lt_or_eq_of_le hk' with hlt' | heq
        · exact (List.pairwise_iff_getElem.mp hs) _ _ hlt hi hlt'
        · have hr : ∀ a, le a a = true := fun a => by simpa using htot a a
          simp only [heq, hr]
      have := htrans _ _ _ h1 h2
      simp [h] at this

/-- on a sorted list, `searchsorted(side='right')` is the partition point of `x ≤ v` -/
theorem searchRight_partition (s : List β) (hs : s.Pairwise (fun a b => le a b = true)) (v : β)
    (i : Nat) (hi : i < s.length) :
    i < searchRight (fun a b => !(le b a)) s v ↔ le s[i] v = true := by
  unfold searchRight
  constructor
  · intro h
    have := List.not_of_lt_findIdx (p := fun x => !(le x v)) (xs := s) h
    simpa using this
  · intro h
    by_cases hk : i < List.findIdx (fun x => !(le x v)) s
    · exact hk
    · exfalso
      have hk' : List.findIdx (fun x => !(le x v)) s ≤ i := Nat.le_of_not_lt hk
      have hlt : List.findIdx (fun x => !(le x v)) s < s.length := Nat.lt_of_le_of_lt hk' hi
      have h1 := List.findIdx_getElem (p := fun x => !(le x v)) (xs := s) (w := hlt)
      have h2 : le s[List.findIdx (fun x => !(le x v)) s] s[i] = true := by
        rcases Nat.lt_or_eq_of_le hk' with hlt' | heq
        · exact (List.pairwise_iff_getElem.mp hs) _ _ hlt hi hlt'
        · have hr : ∀ a, le a a = true := fun a => by simpa using htot a a
          simp only [heq, hr]
      have := htrans _ _ _ h2 h
      simp [this] at h1

end search

theorem searchLeft_le_length (lt : β → β → Bool) (s : List β) (v : β) : searchLeft lt s v ≤ s.length :=
  List.findIdx_le_length
theorem searchRight_le_length (lt : β → β → Bool) (s : List β) (v : β) : searchRight lt s v ≤ s.length :=
  List.findIdx_le_length

/-- interval filter of a range -/
theorem filter_range_interval (n s e : Nat) (he : e ≤ n) :
    (List.range n).filter (fun p => decide (s ≤ p) && decide (p < e)) = List.range' s (e - s) := by
  induction n generalizing e with
  | zero =>
    have : e = 0 := by omega
    subst this; simp
  | succ n ih =>
    rw [List.range_succ, List.filter_append]
    by_cases hen : e ≤ n
    · rw [ih e hen]
      have : List.filter (fun p => decide (s ≤ p) && decide (p < e)) [n] = [] := by
        have hne : decide (n < e) = false := by simp; omega
        show (match (decide (s ≤ n) && decide (n < e)) with | true => n :: List.filter _ [] | false => List.filter _ []) = []
        rw [hne, Bool.and_false]
        rfl
      rw [this, List.append_nil]
    · have : e = n + 1 := by omega
      subst this
      have h1 : (List.range n).filter (fun p => decide (s ≤ p) && decide (p < n + 1))
          = (List.range n).filter (fun p => decide (s ≤ p) && decide (p < n)) := by
        apply List.filter_congr
        intro x hx
        have hxn := List.mem_range.mp hx
        have e1 : decide (x < n + 1) = true := decide_eq_true (by omega)
        have e2 : decide (x < n) = true := decide_eq_true hxn
        rw [e1, e2]
      rw [h1, ih n (Nat.le_refl _)]
      by_cases hsn : s ≤ n
      · simp [hsn]
        have : n + 1 - s = (n - s) + 1 := by omega
        rw [this, List.range'_concat]
        congr 2; omega
      · have h2 : n - s = 0 := by omega
        have h3 : n + 1 - s = 0 := by omega
        simp [hsn, h2, h3]

/-- a Python slice with natural (in-range) bounds and no step denotes the half-open interval -/
theorem slicePositions_nat (a b : Option Nat) (n : Nat)
    (ha : ∀ x, a = some x → x ≤ n) (hb : ∀ x, b = some x → x ≤ n) :
    slicePositions (a.map Int.ofNat) (b.map Int.ofNat) none n =
      .ok ((List.range n).filter (fun p => decide (a.getD 0 ≤ p) && decide (p < b.getD n))) := by
  have hbn : b.getD n ≤ n := by
    cases b with
    | none => simp
    | some x => simpa using hb x rfl
  rw [filter_range_interval n (a.getD 0) (b.getD n) hbn]
  unfold slicePositions sliceIndices
  simp only [Option.getD_none]
  have h1 : ((1 : Int) == 0) = false := by decide
  have h2 : ¬ ((1 : Int) < 0) := by decide
  simp only [h1, Bool.false_eq_true, if_false, h2, bind, Except.bind, pure, Except.pure]
  congr 1
  have hr : ∀ (x y : Nat), x ≤ n → y ≤ n →
      rangeList (x : Int) (y : Int) 1 = List.range' x (y - x) := by
    intro x y _ _
    unfold rangeList rangeLen
    have h3 : (1 : Int) > 0 := by decide
    simp only [h3, if_true]
    by_cases hlt : (x : Int) < (y : Int)
    · simp only [hlt, if_true]
      have : ((y : Int) - (x : Int) - 1) / 1 + 1 = ((y - x : Nat) : Int) := by omega
      rw [this]
      simp only [Int.toNat_natCast]
      apply List.ext_getElem
      · simp
      · intro i h1 h2
        simp
        omega
    · simp only [hlt, if_false]
      have : y - x = 0 := by omega
      simp [this]
  rcases a with _ | x <;> rcases b with _ | y
  · simpa using hr 0 n (Nat.zero_le _) (Nat.le_refl _)
  · have hy := hb y rfl
    have h1 : ¬ ((y : Int) < 0) := by omega
    by_cases h2 : (y : Int) ≥ (n : Int)
    · have : y = n := by omega
      subst this
      simpa [h1] using hr 0 y (Nat.zero_le _) (Nat.le_refl _)
    · simpa [h1, h2] using hr 0 y (Nat.zero_le _) hy
  · have hx := ha x rfl
    have h1 : ¬ ((x : Int) < 0) := by omega
    by_cases h2 : (x : Int) ≥ (n : Int)
    · have : x = n := by omega
      subst this
      simpa [h1] using hr x x (Nat.le_refl _) (Nat.le_refl _)
    · simpa [h1, h2] using hr x n hx (Nat.le_refl _)
  · have hx := ha x rfl
    have hy := hb y rfl
    have h1 : ¬ ((x : Int) < 0) := by omega
    have h1' : ¬ ((y : Int) < 0) := by omega
    by_cases h2 : (x : Int) ≥ (n : Int) <;> by_cases h2' : (y : Int) ≥ (n : Int)
    · have : x = n := by omega
      have : y = n := by omega
      subst_vars
      simpa [h1] using hr y y (Nat.le_refl _) (Nat.le_refl _)
    · have : x = n := by omega
      subst this
      simpa [h1, h1', h2'] using hr x y (Nat.le_refl _) hy
    · have : y = n := by omega
      subst this
      simpa [h1, h1', h2] using hr x y hx (Nat.le_refl _)
    · simpa [h1, h1', h2, h2'] using hr x y hx hy


/-! ### slices with a step: `range(start, stop, step)` is `everyKth` of an interval -/

theorem everyKth_nil (k : Nat) : Spec.everyKth k [] = [] := by
  rw [Spec.everyKth]

theorem everyKth_cons (k : Nat) (x : Nat) (xs : List Nat) :
    Spec.everyKth k (x :: xs) = x :: Spec.everyKth k (xs.drop (k - 1)) := by
  rw [Spec.everyKth]

theorem everyKth_getElem? (k : Nat) (hk : 0 < k) :
    ∀ (j : Nat) (l : List Nat), (Spec.everyKth k l)[j]? = l[j * k]?
  | j, [] => by simp [everyKth_nil]
  | 0, x :: xs => by simp [everyKth_cons]
  | j+1, x :: xs => by
    rw [everyKth_cons, List.getElem?_cons_succ, everyKth_getElem? k hk j, List.getElem?_drop]
    have : (j+1)*k = (k - 1 + j*k) + 1 := by rw [Nat.succ_mul]; omega
    rw [this, List.getElem?_cons_succ]

/-- `everyKth` as an explicit arithmetic progression of indices -/
theorem everyKth_eq_map (k : Nat) (hk : 0 < k) (l : List Nat) (m : Nat) (f : Nat → Nat)
    (hm : ∀ j, j < m ↔ j * k < l.length) (hf : ∀ j (h : j * k < l.length), f j = l[j * k]) :
    Spec.everyKth k l = (List.range m).map f := by
  apply List.ext_getElem?
  intro j
  rw [everyKth_getElem? k hk]
  by_cases hj : j < m
  · have h := (hm j).mp hj
    simp [hj, h, hf j h]
  · have h : ¬ j * k < l.length := fun h => hj ((hm j).mpr h)
    simp [hj]
    omega

theorem lt_div_succ_iff (x K j : Nat) (hK : 0 < K) : j < x / K + 1 ↔ j * K ≤ x := by
  rw [Nat.lt_succ_iff, Nat.le_div_iff_mul_le hK]

theorem rangeLen_pos_iff (A B K : Nat) (hK : 0 < K) (j : Nat) :
    j < rangeLen (A : Int) (B : Int) (K : Int) ↔ A + j * K < B := by
  unfold rangeLen
  have h1 : (K : Int) > 0 := by omega
  simp only [h1, if_true]
  by_cases hlt : (A : Int) < (B : Int)
  · simp only [hlt, if_true]
    have e : (B : Int) - (A : Int) - 1 = ((B - A - 1 : Nat) : Int) := by omega
    rw [e, ← Int.natCast_ediv]
    have e2 : (((B - A - 1) / K : Nat) : Int) + 1 = (((B - A - 1) / K + 1 : Nat) : Int) := by omega
    rw [e2, Int.toNat_natCast, lt_div_succ_iff _ _ _ hK]
    omega
  · simp only [hlt, if_false]
    have : B ≤ A := by omega
    constructor
    · intro h; omega
    · intro h
      have : 0 ≤ j * K := Nat.zero_le _
      omega

theorem rangeLen_neg_iff (A B K : Nat) (hK : 0 < K) (j : Nat) :
    j < rangeLen ((B : Int) - 1) ((A : Int) - 1) (-(K : Int)) ↔ A + j * K < B := by
  unfold rangeLen
  have h1 : ¬ (-(K : Int) > 0) := by omega
  have h2 : (-(K : Int) < 0) := by omega
  simp only [h1, h2, if_true, if_false]
  by_cases hlt : (A : Int) - 1 < (B : Int) - 1
  · simp only [hlt, if_true]
    have e : (B : Int) - 1 - ((A : Int) - 1) - 1 = ((B - A - 1 : Nat) : Int) := by omega
    rw [e, Int.neg_neg, ← Int.natCast_ediv]
    have e2 : (((B - A - 1) / K : Nat) : Int) + 1 = (((B - A - 1) / K + 1 : Nat) : Int) := by omega
    rw [e2, Int.toNat_natCast, lt_div_succ_iff _ _ _ hK]
    omega
  · simp only [hlt, if_false]
    have : B ≤ A := by omega
    constructor
    · intro h; omega
    · intro h
      have : 0 ≤ j * K := Nat.zero_le _
      omega

theorem rangeList_pos (A B K : Nat) (hK : 0 < K) :
    rangeList (A : Int) (B : Int) (K : Int) = Spec.everyKth K (List.range' A (B - A)) := by
  unfold rangeList
  symm
  apply everyKth_eq_map K hK
  · intro j
    rw [rangeLen_pos_iff A B K hK, List.length_range']
    omega
  · intro j h
    rw [List.length_range'] at h
    rw [List.getElem_range']
    have : (A : Int) + (j : Int) * (K : Int) = ((A + j * K : Nat) : Int) := by
      simp
    rw [this, Int.toNat_natCast]
    omega

theorem rangeList_neg (A B K : Nat) (hK : 0 < K) :
    rangeList ((B : Int) - 1) ((A : Int) - 1) (-(K : Int))
      = Spec.everyKth K (List.range' A (B - A)).reverse := by
  unfold rangeList
  symm
  apply everyKth_eq_map K hK
  · intro j
    rw [rangeLen_neg_iff A B K hK, List.length_reverse, List.length_range']
    omega
  · intro j h
    rw [List.length_reverse, List.length_range'] at h
    rw [List.getElem_reverse, List.getElem_range']
    simp only [List.length_range']
    have : (B : Int) - 1 + (j : Int) * (-(K : Int)) = ((B - 1 - j * K : Nat) : Int) := by
      have : ((j * K : Nat) : Int) = (j : Int) * (K : Int) := by simp
      rw [Int.mul_neg]
      omega
    rw [this, Int.toNat_natCast]
    omega


theorem sliceIndices_adj_pos (v n x : Int) (h0 : 0 ≤ v) (hn : v ≤ n) :
    (if v < 0 then x else if v ≥ n then n else v) = v := by
  rw [if_neg (by omega)]
  split <;> omega

theorem sliceIndices_adj_neg (v n x : Int) (h0 : 0 ≤ v) (hn : v < n) :
    (if v < 0 then x else if v ≥ n then n - 1 else v) = v := by
  rw [if_neg (by omega), if_neg (by omega)]

theorem sliceIndices_pos (s e step : Option Int) (n A B : Nat)
    (hk : 0 < step.getD 1) (hA : A ≤ n) (hB : B ≤ n)
    (hs : s = none ∧ A = 0 ∨ s = some (A : Int))
    (he : e = none ∧ B = n ∨ e = some (B : Int)) :
    sliceIndices s e step n = .ok ((A : Int), (B : Int), step.getD 1) := by
  unfold sliceIndices
  have h0 : (step.getD 1 == 0) = false := by
    rw [beq_eq_false_iff_ne]; omega
  have h1 : ¬ (step.getD 1 < 0) := by omega
  simp only [h0, Bool.false_eq_true, if_false, h1]
  have a1 := sliceIndices_adj_pos (A : Int) n
  have a2 := sliceIndices_adj_pos (B : Int) n
  rcases hs with ⟨rfl, rfl⟩ | rfl <;> rcases he with ⟨rfl, rfl⟩ | rfl <;> dsimp only
  · rfl
  · rw [a2 _ (by omega) (by omega)]; rfl
  · rw [a1 _ (by omega) (by omega)]
  · rw [a1 _ (by omega) (by omega), a2 _ (by omega) (by omega)]

theorem sliceIndices_neg (s e step : Option Int) (n A B : Nat)
    (hk : step.getD 1 < 0) (hA : A ≤ n) (hB : B ≤ n)
    (hs : s = none ∧ B = n ∨ s = some ((B : Int) - 1) ∧ 0 < B)
    (he : e = none ∧ A = 0 ∨ e = some ((A : Int) - 1) ∧ 0 < A) :
    sliceIndices s e step n = .ok ((B : Int) - 1, (A : Int) - 1, step.getD 1) := by
  unfold sliceIndices
  have h0 : (step.getD 1 == 0) = false := by
    rw [beq_eq_false_iff_ne]; omega
  simp only [h0, Bool.false_eq_true, if_false, hk, if_true]
  have a1 := sliceIndices_adj_neg ((A : Int) - 1) n
  have a2 := sliceIndices_adj_neg ((B : Int) - 1) n
  rcases hs with ⟨rfl, rfl⟩ | ⟨rfl, hB0⟩ <;> rcases he with ⟨rfl, rfl⟩ | ⟨rfl, hA0⟩ <;> dsimp only
  · rfl
  · rw [a1 _ (by omega) (by omega)]
  · rw [a2 _ (by omega) (by omega)]; rfl
  · rw [a1 _ (by omega) (by omega), a2 _ (by omega) (by omega)]


theorem slicePositions_step_pos (s e step : Option Int) (n A B : Nat)
    (hk : 0 < step.getD 1) (hA : A ≤ n) (hB : B ≤ n)
    (hs : s = none ∧ A = 0 ∨ s = some (A : Int))
    (he : e = none ∧ B = n ∨ e = some (B : Int)) :
    slicePositions s e step n
      = .ok (Spec.everyKth (step.getD 1).natAbs (List.range' A (B - A))) := by
  unfold slicePositions
  rw [sliceIndices_pos s e step n A B hk hA hB hs he]
  simp only [bind, Except.bind, pure, Except.pure]
  congr 1
  generalize step.getD 1 = k at hk
  obtain ⟨K, rfl⟩ := Int.eq_ofNat_of_zero_le (Int.le_of_lt hk)
  rw [Int.natAbs_natCast]
  exact rangeList_pos A B K (by omega)

theorem slicePositions_step_neg (s e step : Option Int) (n A B : Nat)
    (hk : step.getD 1 < 0) (hA : A ≤ n) (hB : B ≤ n)
    (hs : s = none ∧ B = n ∨ s = some ((B : Int) - 1) ∧ 0 < B)
    (he : e = none ∧ A = 0 ∨ e = some ((A : Int) - 1) ∧ 0 < A) :
    slicePositions s e step n
      = .ok (Spec.everyKth (step.getD 1).natAbs (List.range' A (B - A)).reverse) := by
  unfold slicePositions
  rw [sliceIndices_neg s e step n A B hk hA hB hs he]
  simp only [bind, Except.bind, pure, Except.pure]
  congr 1
  generalize step.getD 1 = k at hk
  obtain ⟨K, hK⟩ := Int.eq_ofNat_of_zero_le (a := -k) (by omega)
  have : k = -(K : Int) := by omega
  subst this
  rw [Int.natAbs_neg, Int.natAbs_natCast]
  exact rangeList_neg A B K (by omega)

/-- the empty slice `0:0:step` -/
theorem slicePositions_zero_zero (step : Option Int) (n : Nat) (hstep : step ≠ some 0) :
    slicePositions (some 0) (some 0) step n = .ok [] := by
  have h0 : (step.getD 1 == 0) = false := by
    rw [beq_eq_false_iff_ne]
    cases step with
    | none => decide
    | some k => simp at hstep ⊢; exact hstep
  unfold slicePositions sliceIndices
  simp only [h0, Bool.false_eq_true, if_false, bind, Except.bind, pure, Except.pure]
  congr 1
  unfold rangeList rangeLen
  simp

theorem stepPos_eq (step : Option Int) : Lib.stepPos step = decide (0 < step.getD 1) := by
  cases step with
  | none => rfl
  | some k => simp [Lib.stepPos]


/-- assembling, positive step: `start ↦ A`, `stop ↦ B` -/
theorem slice_assemble_pos (start stop : Option Label) (step : Option Int) (n : Nat)
    (gA gB : Label → Int) (fA fB : Label → Nat)
    (hgA : ∀ v, gA v = (fA v : Int)) (hgB : ∀ v, gB v = (fB v : Int))
    (hA : ∀ v, fA v ≤ n) (hB : ∀ v, fB v ≤ n) (hpos : 0 < step.getD 1) :
    slicePositions (start.map gA) (stop.bind fun v => some (gB v)) step n
      = .ok (Spec.everyKth (step.getD 1).natAbs
          (List.range' ((start.map fA).getD 0) ((stop.map fB).getD n - (start.map fA).getD 0))) := by
  apply slicePositions_step_pos _ _ _ _ _ _ hpos
  · cases start with
    | none => simp
    | some v => exact hA v
  · cases stop with
    | none => simp
    | some v => exact hB v
  · cases start with
    | none => exact Or.inl ⟨rfl, rfl⟩
    | some v => exact Or.inr (by simp [hgA])
  · cases stop with
    | none => exact Or.inl ⟨rfl, rfl⟩
    | some v => exact Or.inr (by simp [hgB])

/-- assembling, negative step: `start ↦ B - 1` (empty selection if that is `-1`), `stop ↦ A - 1` or open -/
theorem slice_assemble_neg (start stop : Option Label) (step : Option Int) (n : Nat)
    (gA gB : Label → Int) (fA fB : Label → Nat)
    (hgA : ∀ v, gA v = (fA v : Int)) (hgB : ∀ v, gB v = (fB v : Int))
    (hA : ∀ v, fA v ≤ n) (hB : ∀ v, fB v ≤ n) (hneg : step.getD 1 < 0) :
    ((if (start.map (fun v => gB v - 1) == some (-1)) = true then
        (Except.ok (some 0, some 0) : Except Err (Option Int × Option Int))
      else Except.ok (start.map (fun v => gB v - 1),
        stop.bind fun v => if (gA v == 0) = true then none else some (gA v - 1))).bind
      fun ab => slicePositions ab.fst ab.snd step n)
      = .ok (Spec.everyKth (step.getD 1).natAbs
          (List.range' ((stop.map fA).getD 0) ((start.map fB).getD n - (stop.map fA).getD 0)).reverse) := by
  have hstep : step ≠ some 0 := by intro h; rw [h] at hneg; simp at hneg
  by_cases h1 : (start.map (fun v => gB v - 1) == some (-1)) = true
  · rw [if_pos h1]
    simp only [Except.bind]
    rw [slicePositions_zero_zero step n hstep]
    cases start with
    | none => simp at h1
    | some v =>
      simp [hgB] at h1
      have : fB v = 0 := by omega
      simp [this, everyKth_nil]
  · rw [if_neg h1]
    simp only [Except.bind]
    apply slicePositions_step_neg _ _ _ _ _ _ hneg
    · cases stop with
      | none => simp
      | some v => exact hA v
    · cases start with
      | none => simp
      | some v => exact hB v
    · cases start with
      | none => exact Or.inl ⟨rfl, rfl⟩
      | some v =>
        simp [hgB] at h1
        exact Or.inr ⟨by simp [hgB], by simp; omega⟩
    · cases stop with
      | none => exact Or.inl ⟨rfl, rfl⟩
      | some v =>
        by_cases h2 : (gA v == 0) = true
        · left
          simp [hgA] at h2
          simp [hgA, h2]
        · right
          simp [hgA] at h2
          simp [hgA, h2]
          omega

end DimModel

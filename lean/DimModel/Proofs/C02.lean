/-
Helper lemmas for C02: partition-point characterisation of searchsorted on sorted lists, Python
slices with natural bounds, interval filters of `List.range`.
-/
import DimModel.Spec.C02
import DimModel.Proofs.C01
namespace DimModel

variable {β : Type}

section search
variable (le : β → β → Bool)
  (htrans : ∀ a b c, le a b = true → le b c = true → le a c = true)
  (htot : ∀ a b, (le a b || le b a) = true)
include htrans htot

/-- on a sorted list, `searchsorted(side='left')` is the partition point of `x < v` -/
theorem searchLeft_partition (s : List β) (hs : s.Pairwise (fun a b => le a b = true)) (v : β)
    (i : Nat) (hi : i < s.length) :
    i < searchLeft (fun a b => !(le b a)) s v ↔ le v s[i] = false := by
  unfold searchLeft
  constructor
  · intro h
    have := List.not_of_lt_findIdx (p := fun x => !(!(le v x))) (xs := s) h
    simpa using this
  · intro h
    by_cases hk : i < List.findIdx (fun x => !(!(le v x))) s
    · exact hk
    · exfalso
      have hk' : List.findIdx (fun x => !(!(le v x))) s ≤ i := Nat.le_of_not_lt hk
      have hlt : List.findIdx (fun x => !(!(le v x))) s < s.length := Nat.lt_of_le_of_lt hk' hi
      have h1 := List.findIdx_getElem (p := fun x => !(!(le v x))) (xs := s) (w := hlt)
      rw [Bool.not_not] at h1
      have h2 : le s[List.findIdx (fun x => !(!(le v x))) s] s[i] = true := by
        rcases Nat.lt_or_eq_of_le hk' with hlt' | heq
        · exact (List.pairwise_iff_getElem.mp hs) _ _ hlt hi hlt'
        · have hr : ∀ a, le a a = true := fun a => by simpa using htot a a
          simp only [heq, hr]
      have := htrans _ _ _ h1 h2
      simp [h] at this

/-- on a sorted list, `searchsorted(side='right')` is the partition point of `x ≤ v` -/
theorem searchRight_partition (s : List β) (hs : s.Pairwise (fun a b => le a b = true)) (v : β)
    (i : Nat) (hi : i < s.length) :
    i < searchRight (fun a b => !(le b a)) s v ↔ le s[i] v = true := by
  unfold searchRight
  constructor
  · intro h
    have := List.not_of_lt_findIdx (p := fun x => !(le x v)) (xs := s) h
    simpa using this
  · intro h
    by_cases hk : i < List.findIdx (fun x => !(le x v)) s
    · exact hk
    · exfalso
      have hk' : List.findIdx (fun x => !(le x v)) s ≤ i := Nat.le_of_not_lt hk
      have hlt : List.findIdx (fun x => !(le x v)) s < s.length := Nat.lt_of_le_of_lt hk' hi
      have h1 := List.findIdx_getElem (p := fun x => !(le x v)) (xs := s) (w := hlt)
      have h2 : le s[List.findIdx (fun x => !(le x v)) s] s[i] = true := by
        rcases Nat.lt_or_eq_of_le hk' with hlt' | heq
        · exact (List.pairwise_iff_getElem.mp hs) _ _ hlt hi hlt'
        · have hr : ∀ a, le a a = true := fun a => by simpa using htot a a
          simp only [heq, hr]
      have := htrans _ _ _ h2 h
      simp [this] at h1

end search

theorem searchLeft_le_length (lt : β → β → Bool) (s : List β) (v : β) : searchLeft lt s v ≤ s.length :=
  List.findIdx_le_length
theorem searchRight_le_length (lt : β → β → Bool) (s : List β) (v : β) : searchRight lt s v ≤ s.length :=
  List.findIdx_le_length

/-- interval filter of a range -/
theorem filter_range_interval (n s e : Nat) (he : e ≤ n) :
    (List.range n).filter (fun p => decide (s ≤ p) && decide (p < e)) = List.range' s (e - s) := by
  induction n generalizing e with
  | zero =>
    have : e = 0 := by omega
    subst this; simp
  | succ n ih =>
    rw [List.range_succ, List.filter_append]
    by_cases hen : e ≤ n
    · rw [ih e hen]
      have : List.filter (fun p => decide (s ≤ p) && decide (p < e)) [n] = [] := by
        have hne : decide (n < e) = false := by simp; omega
        show (match (decide (s ≤ n) && decide (n < e)) with | true => n :: List.filter _ [] | false => List.filter _ []) = []
        rw [hne, Bool.and_false]
        rfl
      rw [this, List.append_nil]
    · have : e = n + 1 := by omega
      subst this
      have h1 : (List.range n).filter (fun p => decide (s ≤ p) && decide (p < n + 1))
          = (List.range n).filter (fun p => decide (s ≤ p) && decide (p < n)) := by
        apply List.filter_congr
        intro x hx
        have hxn := List.mem_range.mp hx
        have e1 : decide (x < n + 1) = true := decide_eq_true (by omega)
        have e2 : decide (x < n) = true := decide_eq_true hxn
        rw [e1, e2]
      rw [h1, ih n (Nat.le_refl _)]
      by_cases hsn : s ≤ n
      · simp [hsn]
        have : n + 1 - s = (n - s) + 1 := by omega
        rw [this, List.range'_concat]
        congr 2; omega
      · have h2 : n - s = 0 := by omega
        have h3 : n + 1 - s = 0 := by omega
        simp [hsn, h2, h3]

/-- a Python slice with natural (in-range) bounds and no step denotes the half-open interval -/
theorem slicePositions_nat (a b : Option Nat) (n : Nat)
    (ha : ∀ x, a = some x → x ≤ n) (hb : ∀ x, b = some x → x ≤ n) :
    slicePositions (a.map Int.ofNat) (b.map Int.ofNat) none n =
      .ok ((List.range n).filter (fun p => decide (a.getD 0 ≤ p) && decide (p < b.getD n))) := by
  have hbn : b.getD n ≤ n := by
    cases b with
    | none => simp
    | some x => simpa using hb x rfl
  rw [filter_range_interval n (a.getD 0) (b.getD n) hbn]
  unfold slicePositions sliceIndices
  simp only [Option.getD_none]
  have h1 : ((1 : Int) == 0) = false := by decide
  have h2 : ¬ ((1 : Int) < 0) := by decide
  simp only [h1, Bool.false_eq_true, if_false, h2, bind, Except.bind, pure, Except.pure]
  congr 1
  have hr : ∀ (x y : Nat), x ≤ n → y ≤ n →
      rangeList (x : Int) (y : Int) 1 = List.range' x (y - x) := by
    intro x y _ _
    unfold rangeList rangeLen
    have h3 : (1 : Int) > 0 := by decide
    simp only [h3, if_true]
    by_cases hlt : (x : Int) < (y : Int)
    · simp only [hlt, if_true]
      have : ((y : Int) - (x : Int) - 1) / 1 + 1 = ((y - x : Nat) : Int) := by omega
      rw [this]
      simp only [Int.toNat_natCast]
      apply List.ext_getElem
      · simp
      · intro i h1 h2
        simp
        omega
    · simp only [hlt, if_false]
      have : y - x = 0 := by omega
      simp [this]
  rcases a with _ | x <;> rcases b with _ | y
  · simpa using hr 0 n (Nat.zero_le _) (Nat.le_refl _)
  · have hy := hb y rfl
    have h1 : ¬ ((y : Int) < 0) := by omega
    by_cases h2 : (y : Int) ≥ (n : Int)
    · have : y = n := by omega
      subst this
      simpa [h1] using hr 0 y (Nat.zero_le _) (Nat.le_refl _)
    · simpa [h1, h2] using hr 0 y (Nat.zero_le _) hy
  · have hx := ha x rfl
    have h1 : ¬ ((x : Int) < 0) := by omega
    by_cases h2 : (x : Int) ≥ (n : Int)
    · have : x = n := by omega
      subst this
      simpa [h1] using hr x x (Nat.le_refl _) (Nat.le_refl _)
    · simpa [h1, h2] using hr x n hx (Nat.le_refl _)
  · have hx := ha x rfl
    have hy := hb y rfl
    have h1 : ¬ ((x : Int) < 0) := by omega
    have h1' : ¬ ((y : Int) < 0) := by omega
    by_cases h2 : (x : Int) ≥ (n : Int) <;> by_cases h2' : (y : Int) ≥ (n : Int)
    · have : x = n := by omega
      have : y = n := by omega
      subst_vars
      simpa [h1] using hr y y (Nat.le_refl _) (Nat.le_refl _)
    · have : x = n := by omega
      subst this
      simpa [h1, h1', h2'] using hr x y (Nat.le_refl _) hy
    · have : y = n := by omega
      subst this
      simpa [h1, h1', h2] using hr x y hx (Nat.le_refl _)
    · simpa [h1, h1', h2, h2'] using hr x y hx hy

end DimModel

/-
C15 - the index map of a transpose, cell by cell: the view of `a.transpose(perm)` at the row-major position of a
multi-index `j` IS the view of `a` at the row-major position of the un-permuted multi-index; write-through follows
without a hypothesis on the viewed cell.
-/
import DimModel.Proofs.C15X
namespace DimModel
namespace Heap

/-- the multi-index `j` is in range of the shape `s` (same rank, every component below the size) -/
inductive InRange : List Nat → List Nat → Prop
  | nil : InRange [] []
  | cons {i n : Nat} {j s : List Nat} : i < n → InRange j s → InRange (i :: j) (n :: s)

theorem flatMap_uniform_length {α : Type} (f : Nat → List α) (m : Nat) (hf : ∀ i, (f i).length = m) :
    ∀ n, ((List.range n).flatMap f).length = n * m := by
  intro n
  induction n with
  | zero => simp
  | succ n ih =>
    rw [List.range_succ, List.flatMap_append, List.length_append, ih]
    simp [hf, Nat.succ_mul]

theorem flatMap_uniform_get {α : Type} (f : Nat → List α) (m : Nat) (hf : ∀ i, (f i).length = m) :
    ∀ n i k, i < n → k < m → ((List.range n).flatMap f)[i * m + k]? = (f i)[k]? := by
  intro n
  induction n with
  | zero => intro i k hi; omega
  | succ n ih =>
    intro i k hi hk
    rw [List.range_succ, List.flatMap_append]
    have hlen := flatMap_uniform_length f m hf n
    cases Nat.lt_or_ge i n with
    | inl hlt =>
      have : i * m + k < ((List.range n).flatMap f).length := by
        rw [hlen]
        calc i * m + k < i * m + m := by omega
          _ = (i + 1) * m := by rw [Nat.succ_mul]
          _ ≤ n * m := Nat.mul_le_mul_right m hlt
      rw [List.getElem?_append_left this]
      exact ih i k hlt hk
    | inr hge =>
      have hin : i = n := by omega
      subst hin
      have : ((List.range i).flatMap f).length ≤ i * m + k := by rw [hlen]; omega
      rw [List.getElem?_append_right this, hlen]
      simp

theorem allIdxN_length : ∀ s, (allIdxN s).length = prodN s
  | [] => rfl
  | n :: s => by
    unfold allIdxN
    rw [flatMap_uniform_length _ (prodN s) (fun i => by rw [List.length_map]; exact allIdxN_length s)]
    rfl

theorem ravelN_lt {j s : List Nat} (hj : InRange j s) : ravelN s j < prodN s := by
  induction hj with
  | nil => exact Nat.lt_succ_self 0
  | @cons i n j s hin _ ih =>
    show i * prodN s + ravelN s j < n * prodN s
    calc i * prodN s + ravelN s j < i * prodN s + prodN s := by omega
      _ = (i + 1) * prodN s := by rw [Nat.succ_mul]
      _ ≤ n * prodN s := Nat.mul_le_mul_right _ hin

/-- the row-major enumeration at the row-major position of `j` is `j` -/
theorem allIdxN_get {j s : List Nat} (hj : InRange j s) : (allIdxN s)[ravelN s j]? = some j := by
  induction hj with
  | nil => rfl
  | @cons i n j s hin hrest ih =>
    show (allIdxN (n :: s))[i * prodN s + ravelN s j]? = some (i :: j)
    unfold allIdxN
    rw [flatMap_uniform_get _ (prodN s) (fun i => by rw [List.length_map]; exact allIdxN_length s) n i _ hin
      (ravelN_lt hrest)]
    rw [List.getElem?_map, ih]
    rfl

theorem inRange_of_getD : ∀ (l1 l2 : List Nat), l1.length = l2.length →
    (∀ i, i < l1.length → l1.getD i 0 < l2.getD i 0) → InRange l1 l2
  | [], [], _, _ => .nil
  | [], _ :: _, hl, _ => by cases hl
  | _ :: _, [], hl, _ => by cases hl
  | a :: l1, b :: l2, hl, hr => by
    refine .cons (hr 0 (Nat.succ_pos _)) (inRange_of_getD l1 l2 (by simpa using hl) ?_)
    intro i hi
    exact hr (i + 1) (Nat.succ_lt_succ hi)

theorem inRange_getD {l1 l2 : List Nat} (hf : InRange l1 l2) :
    l1.length = l2.length ∧ ∀ i, i < l1.length → l1.getD i 0 < l2.getD i 0 := by
  induction hf with
  | nil => exact ⟨rfl, fun i hi => absurd hi (Nat.not_lt_zero _)⟩
  | cons hab _ ih =>
    refine ⟨by simp [ih.1], ?_⟩
    intro i hi
    cases i with
    | zero => exact hab
    | succ i => exact ih.2 i (by simpa using hi)

/-- the multi-index of the operand shown at the multi-index `j` of `a.transpose(perm)` -/
def unperm (n : Nat) (perm j : List Nat) : List Nat := (List.range n).map fun d => j.getD (perm.idxOf d) 0

/-- `perm` is accepted by `transpose` for rank `n` -/
def PermOK (n : Nat) (perm : List Nat) : Prop := perm.length = n ∧ ∀ d, d < n → d ∈ perm

/-- in range of the transposed shape -> the un-permuted multi-index is in range of the operand's shape -/
theorem unperm_inRange {sh perm j : List Nat} (hp : PermOK sh.length perm)
    (hj : InRange j (perm.map fun k => sh.getD k 0)) : InRange (unperm sh.length perm j) sh := by
  obtain ⟨hl, hr⟩ := inRange_getD hj
  refine inRange_of_getD _ _ (by simp [unperm]) ?_
  intro d hd
  have hd' : d < sh.length := by simpa [unperm] using hd
  have hmem := hp.2 d hd'
  have hidx : perm.idxOf d < perm.length := List.idxOf_lt_length_iff.mpr hmem
  have hk := hr (perm.idxOf d) (by rw [hl, List.length_map]; exact hidx)
  have e1 : (unperm sh.length perm j).getD d 0 = j.getD (perm.idxOf d) 0 := by
    simp [unperm, List.getD_eq_getElem?_getD, hd']
  have e2 : (perm.map fun k => sh.getD k 0).getD (perm.idxOf d) 0 = sh.getD d 0 := by
    rw [List.getD_eq_getElem?_getD, List.getElem?_map, List.getElem?_eq_getElem hidx, List.getElem_idxOf hidx]
    rfl
  rw [e1]
  rw [e2] at hk
  exact hk

theorem transpose_permOK {h h' : H} {r r' v : Ref} {w sh : List Nat} {ax : List Ref} {t : Ref} {perm : List Nat}
    (hx : h[r]? = some (.arr v w sh ax t)) (hop : transpose h r perm = some (h', r')) : PermOK sh.length perm := by
  unfold transpose at hop
  rw [hx] at hop
  simp only [] at hop
  split at hop
  · cases hop
  · rename_i hc
    simp only [Bool.or_eq_true, not_or, bne_iff_ne, ne_eq, Decidable.not_not, Bool.not_eq_true', Bool.not_eq_false,
      Bool.not_eq_eq_eq_not, Bool.not_true] at hc
    refine ⟨hc.1, ?_⟩
    intro d hd
    have := List.all_eq_true.mp hc.2 d (List.mem_range.mpr hd)
    simpa using this

/-- THE INDEX MAP OF A TRANSPOSE: the result is an array over the same buffer with the permuted shape whose view at
the row-major position of every in-range multi-index `j` is the operand's view at the row-major position of the
un-permuted multi-index -/
theorem transpose_view_cell_aux {h h' : H} {r r' v : Ref} {w sh : List Nat} {ax : List Ref} {t : Ref} {perm : List Nat}
    (hx : h[r]? = some (.arr v w sh ax t)) (hop : transpose h r perm = some (h', r')) :
    ∃ w' ax' t', h'[r']? = some (.arr v w' (perm.map fun k => sh.getD k 0) ax' t') ∧
      ∀ j, InRange j (perm.map fun k => sh.getD k 0) →
        w'[ravelN (perm.map fun k => sh.getD k 0) j]? = some (w.getD (ravelN sh (unperm sh.length perm j)) 0) := by
  unfold transpose at hop
  rw [hx] at hop
  simp only [] at hop
  split at hop
  · cases hop
  · obtain ⟨e1, _⟩ := alloc_get hop
    refine ⟨_, _, _, e1, ?_⟩
    intro j hj
    rw [List.getElem?_map, allIdxN_get hj]
    rfl

theorem swapaxes_eq_transpose {h : H} {r v : Ref} {w sh : List Nat} {ax : List Ref} {t : Ref} {a b : Nat} {res : H × Ref}
    (hx : h[r]? = some (.arr v w sh ax t)) (hop : swapaxes h r a b = some res) :
    transpose h r (swapPerm sh.length a b) = some res := by
  unfold swapaxes at hop
  rw [hx] at hop
  simp only [] at hop
  split at hop
  · cases hop
  · exact hop

theorem rollaxis_eq_transpose {h : H} {r v : Ref} {w sh : List Nat} {ax : List Ref} {t : Ref} {d : Nat} {res : H × Ref}
    (hx : h[r]? = some (.arr v w sh ax t)) (hop : rollaxis h r d = some res) :
    transpose h r (d :: (List.range sh.length).filter (· != d)) = some res := by
  unfold rollaxis at hop
  rw [hx] at hop
  simp only [] at hop
  split at hop
  · cases hop
  · exact hop

/-- `a.T` for rank ≥ 1 is the transpose with the reversed order (rank 0: the operand itself, nothing to relate) -/
theorem tT_eq_transpose {h : H} {r v : Ref} {w sh : List Nat} {ax : List Ref} {t : Ref} {res : H × Ref}
    (hx : h[r]? = some (.arr v w sh ax t)) (hrk : sh.length ≠ 0) (hop : tT h r = some res) :
    transpose h r (List.range sh.length).reverse = some res := by
  unfold tT at hop
  rw [hx] at hop
  simp only [] at hop
  split at hop
  · rename_i h0; exact absurd h0 hrk
  · rename_i h1; rw [h1]; exact hop
  · rename_i h2; rw [h2]; exact hop
  · cases hop

/-- WRITE-THROUGH A TRANSPOSE, unconditionally in the position: the operand well-shaped (`w.length = prodN sh`, its
view inside the buffer); a value written through the result at the row-major position of ANY in-range `j` is read by
the operand at the row-major position of the un-permuted multi-index -/
theorem write_through_transpose_aux {h h' : H} {r r' v : Ref} {w sh : List Nat} {ax : List Ref} {t : Ref}
    {perm : List Nat} {cells : List Int}
    (hx : h[r]? = some (.arr v w sh ax t)) (hb : h[v]? = some (.buf cells))
    (hwl : w.length = prodN sh) (hwb : ∀ c ∈ w, c < cells.length)
    (hop : transpose h r perm = some (h', r')) (j : List Nat) (hj : InRange j (perm.map fun k => sh.getD k 0)) (x : Int) :
    ∃ o, obsArr (mutate h' r' (.setVal (ravelN (perm.map fun k => sh.getD k 0) j) x)) r = some o ∧
      o.values[ravelN sh (unperm sh.length perm j)]? = some x := by
  obtain ⟨w', ax', t', hr', hcell⟩ := transpose_view_cell_aux hx hop
  have hg := (transpose_grows hop).1
  have hin := unperm_inRange (transpose_permOK hx hop) hj
  have hlt : ravelN sh (unperm sh.length perm j) < w.length := by rw [hwl]; exact ravelN_lt hin
  have hp : w[ravelN sh (unperm sh.length perm j)]? = some (w.getD (ravelN sh (unperm sh.length perm j)) 0) := by
    rw [List.getD_eq_getElem?_getD, List.getElem?_eq_getElem hlt]; rfl
  have hc : w.getD (ravelN sh (unperm sh.length perm j)) 0 < cells.length := by
    rw [List.getD_eq_getElem?_getD, List.getElem?_eq_getElem hlt]
    exact hwb _ (List.getElem_mem hlt)
  exact write_through_view_aux x (hg.get hx) hr' (hg.get hb) hc (hcell j hj) hp

end Heap
end DimModel

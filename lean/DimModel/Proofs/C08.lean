/-
Helper lemmas for C08 / C09 (along-axis transforms): resolution of the `axis=` argument, row-major
tabulation, index surgery (insert / erase / set at the operated position), name-addressed fibres.
-/
import DimModel.Lib.Missing
import DimModel.Props.C10
import DimModel.Proofs.C20
namespace DimModel
namespace AxisLemmas
open Lib

variable {α : Type}

/-! ### resolution of a single key -/

theorem ndim_eq_dims_length (a : DimArray α) : a.ndim = a.dims.length := by
  simp [DimArray.ndim, DimArray.dims]

/-- a single key that resolves, resolves to the array itself and to an in-range position -/
theorem dealWithAxis_one_ok (a o : DimArray α) (k : DimKey) (pos : Nat)
    (h : dealWithAxis a (.one k) = .ok (o, some pos)) : o = a ∧ pos < a.ndim := by
  cases k with
  | name s =>
    simp only [dealWithAxis, pure, Except.pure] at h
    split at h
    · rename_i hlt
      injection h with h
      injection h with h1 h2
      injection h2 with h2
      subst h1; subst h2
      exact ⟨rfl, by rw [ndim_eq_dims_length]; exact hlt⟩
    · cases h
  | pos i =>
    simp only [dealWithAxis, pure, Except.pure] at h
    generalize hj : (if i < 0 then i + (a.ndim : Int) else i) = j at h
    by_cases hb : (decide (j < 0) || decide (j ≥ (a.ndim : Int))) = true
    · rw [if_pos hb] at h; cases h
    · rw [if_neg hb] at h
      injection h with h
      injection h with h1 h2
      injection h2 with h2
      subst h1; subst h2
      refine ⟨rfl, ?_⟩
      simp only [Bool.or_eq_true, decide_eq_true_eq, not_or, Int.not_lt, Int.not_le] at hb
      omega

theorem dealWithAxis_name (a : DimArray α) (pos : Nat) (hpos : pos < a.dims.length) (hn : a.dims.Nodup) :
    dealWithAxis a (.one (.name (a.dims[pos]))) = .ok (a, some pos) := by
  have h1 : a.dims.idxOf a.dims[pos] = pos := List.Nodup.idxOf_getElem hn pos hpos
  simp [dealWithAxis, pure, Except.pure, h1, hpos]

/-- a tuple of names of the array resolves to the flattened array and position 0 -/
theorem dealWithAxis_many (a o : DimArray α) (names : List String)
    (hall : ∀ s ∈ names, a.dims.contains s = true) (hf : flatten a names (some 0) = .ok o) :
    dealWithAxis a (.many (names.map DimKey.name)) = .ok (o, some 0) := by
  have hm : (names.map DimKey.name).mapM (keyName a) = .ok names := by
    clear hf
    induction names with
    | nil => rfl
    | cons s rest ih =>
      have hs := hall s (by simp)
      have ih' := ih (fun t ht => hall t (by simp [ht]))
      have h1 : keyName a (DimKey.name s) = .ok s := by simp only [keyName, hs, if_true]
      simp only [List.map_cons, List.mapM_cons, h1, ih', bind, Except.bind, pure, Except.pure]
  simp only [dealWithAxis, bind, Except.bind, hm, hf, pure, Except.pure]

/-! ### row-major tabulation -/

theorem toList_length (v : NDArr α) : v.toList.length = prod v.shape := by
  simp [NDArr.toList, allIdx_length]

theorem toList_getElem?_ravel (v : NDArr α) (j : List Nat) (h : InRange v.shape j) :
    v.toList[ravel v.shape j]? = some (v.get j) := by
  simp [NDArr.toList, List.getElem?_map, allIdx_getElem? v.shape j h]

theorem toList_rank1 (v : NDArr α) (n : Nat) (h : v.shape = [n]) :
    v.toList = (List.range n).map (fun k => v.get [k]) := by
  simp only [NDArr.toList, h, allIdx, List.map_flatMap, List.map_cons, List.map_nil]
  induction (List.range n) with
  | nil => rfl
  | cons x l ih => simp [List.flatMap_cons, ih]

theorem fibre_rank1 (a : DimArray α) (n : Nat) (h : a.vals.shape = [n]) :
    fibre a 0 [] = a.vals.toList := by
  rw [toList_rank1 a.vals n h]
  simp [fibre, h]

theorem inRange_getElem : ∀ (s j : List Nat), InRange s j → ∀ (i : Nat) (hs : i < s.length) (hj : i < j.length),
    j[i] < s[i]
  | [], [], _, i, hs, _ => absurd hs (Nat.not_lt_zero _)
  | n :: s, x :: j, h, 0, _, _ => h.1
  | n :: s, x :: j, h, i + 1, hs, hj => by
    simp only [List.getElem_cons_succ]
    exact inRange_getElem s j h.2 i (by simpa using hs) (by simpa using hj)
  | [], _ :: _, h, _, _, _ => by simp [InRange] at h
  | _ :: _, [], h, _, _, _ => by simp [InRange] at h

/-! ### index surgery at the operated position -/

/-- coordinates `c` with the coordinate of dimension `d` replaced by `k` -/
def setCoord (c : String → Nat) (d : String) (k : Nat) : String → Nat :=
  fun d' => if d' = d then k else c d'

/-- inserting `k` at `pos` into the coordinates of the remaining dimensions gives the coordinates
of all dimensions with dimension `l[pos]` sent to `k` -/
theorem map_eraseIdx_insertIdx : ∀ (l : List String) (pos : Nat) (hpos : pos < l.length), l.Nodup →
    ∀ (c : String → Nat) (k : Nat),
    ((l.eraseIdx pos).map c).insertIdx pos k = l.map (setCoord c l[pos] k)
  | [], _, h, _, _, _ => absurd h (Nat.not_lt_zero _)
  | x :: l, 0, _, hn, c, k => by
    have hx : x ∉ l := (List.nodup_cons.mp hn).1
    simp only [List.eraseIdx_cons_zero, List.insertIdx_zero, List.map_cons, List.getElem_cons_zero,
      setCoord, if_true]
    congr 1
    apply List.map_congr_left
    intro d hd
    have : d ≠ x := fun e => hx (e ▸ hd)
    show c d = if d = x then k else c d
    simp only [this, if_false]
  | x :: l, pos + 1, h, hn, c, k => by
    have hx : x ∉ l := (List.nodup_cons.mp hn).1
    have h' : pos < l.length := by simpa using h
    have hne : x ≠ l[pos] := fun e => hx (e ▸ List.getElem_mem h')
    have ih := map_eraseIdx_insertIdx l pos h' (List.nodup_cons.mp hn).2 c k
    simp only [List.eraseIdx_cons_succ, List.map_cons, List.insertIdx_succ_cons,
      List.getElem_cons_succ, ih]
    congr 1
    simp only [setCoord, hne, if_false]

/-- the fibre through the cell with name-addressed coordinates `c` lists the cells at `c` with the
operated dimension running over its positions -/
theorem fibre_at (a : DimArray α) (pos : Nat) (hpos : pos < a.dims.length) (hn : a.dims.Nodup)
    (c : String → Nat) :
    fibre a pos ((a.dims.eraseIdx pos).map c) =
      (List.range (a.vals.shape.getD pos 0)).map fun k => a.at (setCoord c a.dims[pos] k) := by
  unfold fibre DimArray.at
  apply List.map_congr_left
  intro k _
  rw [map_eraseIdx_insertIdx a.dims pos hpos hn c k]

theorem dims_eraseIdx (axes : List Axis) (pos : Nat) :
    (axes.eraseIdx pos).map (·.name) = (axes.map (·.name)).eraseIdx pos := by
  induction axes generalizing pos with
  | nil => rfl
  | cons x l ih =>
    cases pos with
    | zero => rfl
    | succ n => simp only [List.eraseIdx_cons_succ, List.map_cons, ih]

/-! ### transposition -/

theorem isPerm_perm_range {p : List Nat} {n : Nat} (h : IsPerm p n) : p.Perm (List.range n) := by
  rw [List.perm_ext_iff_of_nodup h.2.1 List.nodup_range]
  intro k
  constructor
  · intro hk; exact List.mem_range.mpr (h.2.2 k hk)
  · intro hk; exact isPerm_mem h k (List.mem_range.mp hk)

theorem map_getD_range_id {β : Type} (l : List β) (d : β) :
    (List.range l.length).map (fun k => l.getD k d) = l := by
  apply List.ext_getElem
  · simp
  · intro i h1 h2
    simp only [List.getElem_map, List.getElem_range]
    rw [List.getD_eq_getElem?_getD, List.getElem?_eq_getElem h2]; rfl

theorem transposeBy_axes_perm (a : DimArray α) (p : List Nat) (hp : IsPerm p a.axes.length) :
    (transposeBy a p).axes.Perm a.axes := by
  have h1 := (isPerm_perm_range hp).map (fun k => a.axes.getD k default)
  rw [map_getD_range_id] at h1
  exact h1

theorem transposeBy_dims_perm (a : DimArray α) (p : List Nat) (hp : IsPerm p a.axes.length) :
    (transposeBy a p).dims.Perm a.dims :=
  (transposeBy_axes_perm a p hp).map _

theorem transposeBy_dims_getElem (a : DimArray α) (p : List Nat) (hp : IsPerm p a.axes.length)
    (i : Nat) (hi : i < p.length) :
    (transposeBy a p).dims[i]'(by simpa [transposeBy, DimArray.dims] using hi) =
      a.dims[p[i]]'(by simpa [DimArray.dims] using hp.2.2 _ (List.getElem_mem hi)) := by
  have hlt : p[i] < a.axes.length := hp.2.2 _ (List.getElem_mem hi)
  simp only [transposeBy, DimArray.dims, List.getElem_map]
  rw [List.getD_eq_getElem?_getD, List.getElem?_eq_getElem hlt]; rfl

theorem mem_eraseIdx_nodup {β : Type} {l : List β} (hn : l.Nodup) (i : Nat) (hi : i < l.length) (x : β) :
    x ∈ l.eraseIdx i ↔ x ∈ l ∧ x ≠ l[i] := by
  rw [List.mem_eraseIdx_iff_getElem]
  constructor
  · rintro ⟨j, hj, hne, rfl⟩
    exact ⟨List.getElem_mem hj, fun e => hne ((List.getElem_inj hn).mp e)⟩
  · rintro ⟨hx, hne⟩
    obtain ⟨j, hj, rfl⟩ := List.getElem_of_mem hx
    exact ⟨j, hj, fun e => hne (by subst e; rfl), rfl⟩

theorem nodup_of_map_nodup {β γ : Type} (f : β → γ) {l : List β} (h : (l.map f).Nodup) : l.Nodup := by
  induction l with
  | nil => exact List.nodup_nil
  | cons x l ih =>
    simp only [List.map_cons, List.nodup_cons, List.mem_map, not_exists, not_and] at h ⊢
    exact ⟨fun hx => h.1 x hx rfl, ih h.2⟩

end AxisLemmas
end DimModel

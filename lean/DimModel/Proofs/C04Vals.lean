/-
Helpers for the value-level theorems of C04 (Props/C04.lean): NaN-absorbing operators, and "a coordinate is missing
from an operand" in terms of labels.
-/
import DimModel.Lib.OpVals
import DimModel.Props.C06
namespace DimModel
open Lib

/-- an operator that returns NaN as soon as one operand is NaN -/
def NanAbsorbing (f : XVal → XVal → XVal) : Prop := ∀ x, f XVal.nan x = XVal.nan ∧ f x XVal.nan = XVal.nan

/-- the coordinate `j` (positions on the new labels `nl`, one list per dimension of `a`) is MISSING from `a`: on some
dimension of `a` the label found there is not on `a`'s axis -/
def MissingAt {α} (a : DimArray α) (nl : List (List Label)) (j : List Nat) : Prop :=
  ∃ k, k < a.axes.length ∧ (nl.getD k []).getD (j.getD k 0) Label.none ∉ (a.axes.getD k default).labels

theorem alignSrc_all_isSome_iff {α} (a : DimArray α) (nl : List (List Label)) (j : List Nat) :
    (alignSrc a nl j).all (·.isSome) = true ↔ ¬ MissingAt a nl j := by
  unfold alignSrc MissingAt
  simp only [List.all_map, List.all_eq_true, List.mem_range, Function.comp]
  constructor
  · intro h ⟨k, hk, hm⟩
    have := h k hk
    rw [if_neg hm] at this
    exact Bool.noConfusion this
  · intro h k hk
    by_cases hm : (nl.getD k []).getD (j.getD k 0) Label.none ∈ (a.axes.getD k default).labels
    · rw [if_pos hm]; rfl
    · exact absurd ⟨k, hk, hm⟩ h

/-- the cell of `a` at the labels found at `j` (positions of the labels on `a`'s own axes) -/
def cellAt {α} (a : DimArray α) (nl : List (List Label)) (j : List Nat) : α :=
  a.vals.get ((alignSrc a nl j).map (·.getD 0))

theorem alignVals_get_missing {α} (a : DimArray α) (nl : List (List Label)) (nan : α) (j : List Nat)
    (h : MissingAt a nl j) : (alignVals a nl nan).get j = nan := by
  rw [alignVals_get]
  have : ¬ ((alignSrc a nl j).all (·.isSome) = true) := fun hh => (alignSrc_all_isSome_iff a nl j).mp hh h
  simp [this]

theorem alignVals_get_present {α} (a : DimArray α) (nl : List (List Label)) (nan : α) (j : List Nat)
    (h : ¬ MissingAt a nl j) : (alignVals a nl nan).get j = cellAt a nl j := by
  rw [alignVals_get, (alignSrc_all_isSome_iff a nl j).mpr h]
  rfl

namespace Lib.XVal

theorem add_nan_left (x : XVal) : add nan x = nan := by cases x <;> rfl
theorem add_nan_right (x : XVal) : add x nan = nan := by cases x <;> rfl
theorem mul_nan_left (x : XVal) : mul nan x = nan := by cases x <;> rfl
theorem mul_nan_right (x : XVal) : mul x nan = nan := by cases x <;> rfl
theorem div_nan_left (x : XVal) : div nan x = nan := by cases x <;> rfl
theorem div_nan_right (x : XVal) : div x nan = nan := by cases x <;> rfl
theorem floordiv_nan_left (x : XVal) : floordiv nan x = nan := by cases x <;> rfl
theorem floordiv_nan_right (x : XVal) : floordiv x nan = nan := by cases x <;> rfl

theorem pow_zero (x : XVal) : pow x (fin 0) = fin 1 := by simp [pow]
theorem one_pow (y : XVal) : pow (fin 1) y = fin 1 := by
  unfold pow; split <;> simp

theorem pow_nan_right_of_ne (x : XVal) (h : x ≠ fin 1) : pow x nan = nan := by
  unfold pow
  cases x <;> simp_all

theorem pow_nan_left_of_ne (y : XVal) (h : y ≠ fin 0) : pow nan y = nan := by
  unfold pow
  cases y <;> simp_all

end Lib.XVal
end DimModel

/-
Order facts about labels: `Label.le` is a total preorder, antisymmetric; `lt` is its strict part.
-/
import DimModel.Core.Basic
namespace DimModel.Label

theorem le_total (a b : Label) : (le a b || le b a) = true := by
  cases a <;> cases b <;> simp [le, rank]
  · exact Rat.le_total
  · exact String.le_total _ _

theorem le_trans (a b c : Label) : le a b = true → le b c = true → le a c = true := by
  cases a <;> cases b <;> cases c <;> simp [le, rank]
  · exact Rat.le_trans
  · exact String.le_trans

theorem le_refl (a : Label) : le a a = true := by
  cases a <;> simp [le, rank]

theorem le_antisymm (a b : Label) : le a b = true → le b a = true → a = b := by
  cases a <;> cases b <;> simp [le, rank]
  · exact Rat.le_antisymm
  · exact String.le_antisymm

theorem lt_iff (a b : Label) : lt a b = true ↔ le b a = false := by simp [lt]

theorem lt_irrefl (a : Label) : lt a a = false := by simp [lt, le_refl]

theorem not_lt_of_le {a b : Label} (h : le a b = true) : lt b a = false := by simp [lt, h]

theorem le_of_lt {a b : Label} (h : lt a b = true) : le a b = true := by
  have := le_total a b
  simp [lt] at h
  simpa [h] using this

theorem lt_of_le_of_ne {a b : Label} (h : le a b = true) (hne : a ≠ b) : lt a b = true := by
  simp only [lt, Bool.not_eq_eq_eq_not, Bool.not_true]
  cases hb : le b a
  · rfl
  · exact absurd (le_antisymm a b h hb) hne

end DimModel.Label

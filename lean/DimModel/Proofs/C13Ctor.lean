/-
Helper lemmas for `construct_vars_spec` (C13): what a variable of the heap-level Dataset resolves to (names and labels of
its axis objects, through the ids) after an accepted `setVar`, and that later `setVar`s of other keys do not change it.
-/
import DimModel.Proofs.C13
import DimModel.Proofs.C10
import DimModel.Lib.DatasetCtor
namespace DimModel
namespace DS

/-- name and labels of the axis object with identity `i` -/
def look (axes : List AxisObj) (i : Nat) : Option (String × List Label) :=
  (axes.find? (·.id == i)).map fun ax => (ax.name, ax.labels)

/-- the dataset has a variable `key` whose axes, resolved through the heap ids, are `spec` (names and labels, in order) -/
def Has (s : State) (key : String) (spec : List (String × List Label)) : Prop :=
  ∃ ids, (key, ids) ∈ s.vars ∧ ids.map (look s.axes) = spec.map some

theorem look_of_mem {axes : List AxisObj} (hnd : (axes.map (·.id)).Nodup) {ax : AxisObj} (h : ax ∈ axes) :
    look axes ax.id = some (ax.name, ax.labels) := by
  unfold look
  rw [find?_eq_some_of_nodup (f := fun x : AxisObj => x.id) hnd h]
  rfl

theorem look_append_of_some {axes extra : List AxisObj} {i : Nat} {v : String × List Label}
    (h : look axes i = some v) : look (axes ++ extra) i = some v := by
  unfold look at h ⊢
  rw [List.find?_append]
  cases hf : axes.find? (·.id == i) with
  | none => simp [hf] at h
  | some a => simpa [hf] using h

theorem look_clearDirect (ids : List Nat) (axes : List AxisObj) (i : Nat) :
    look (axes.map (clearDirect ids)) i = look axes i := by
  unfold look
  rw [List.find?_map]
  have : ((fun x : AxisObj => x.id == i) ∘ clearDirect ids) = fun x => x.id == i := by
    funext a; simp [clearDirect_id]
  rw [this]
  cases axes.find? (·.id == i) with
  | none => rfl
  | some a =>
    simp only [Option.map_some]
    unfold clearDirect
    split <;> rfl

theorem look_maybeDelete (s : State) (ids : List Nat) (i : Nat) (hu : used s i = true) :
    look (maybeDelete s ids).axes i = look s.axes i := by
  unfold look maybeDelete
  simp only
  rw [List.find?_filter]
  congr 2
  funext a
  by_cases ha : a.id = i
  · subst ha; simp [hu]
  · simp [ha]

/-- the substitution loop of `setVar` resolves, in order, to the names and labels of the axes it was given -/
theorem fold_look : ∀ (axs : List (String × List Label × Kind)) (acc : State × List Nat) (done : List (String × List Label)),
    (acc.1.axes.map (·.id)).Nodup → (∀ ax ∈ acc.1.axes, ax.id < acc.1.next) →
    (axs.map (·.1)).Nodup →
    (∀ x ∈ axs, ∀ ex ∈ acc.1.axes, ex.name = x.1 → ex.labels = x.2.1) →
    acc.2.map (look acc.1.axes) = done.map some →
    (axs.foldl addAx acc).2.map (look (axs.foldl addAx acc).1.axes)
      = (done ++ axs.map (fun x => (x.1, x.2.1))).map some
  | [], acc, done, _, _, _, _, hd => by simpa using hd
  | x :: axs, acc, done, hnd, hlt, hn, hsame, hd => by
    rw [List.foldl_cons]
    rw [List.map_cons, List.nodup_cons] at hn
    have hgoal : (done ++ (x :: axs).map (fun x => (x.1, x.2.1))) =
        ((done ++ [(x.1, x.2.1)]) ++ axs.map (fun x => (x.1, x.2.1))) := by simp
    rw [hgoal]
    cases hf : findAxis acc.1 x.1 with
    | some ex =>
      have hex : ex ∈ acc.1.axes := List.mem_of_find?_eq_some hf
      have hname : ex.name = x.1 := by
        have := List.find?_some hf
        simpa using this
      have hacc : addAx acc x = (acc.1, acc.2 ++ [ex.id]) := by simp only [addAx, hf]
      rw [hacc]
      refine fold_look axs _ _ hnd hlt hn.2 (fun y hy => hsame y (List.mem_cons_of_mem _ hy)) ?_
      simp only [List.map_append, hd, List.map_cons, List.map_nil]
      rw [look_of_mem hnd hex, hname, hsame x List.mem_cons_self ex hex hname]
    | none =>
      have hacc : addAx acc x =
          ({ acc.1 with axes := acc.1.axes ++ [{ id := acc.1.next, name := x.1, labels := x.2.1, kind := x.2.2 }],
                        next := acc.1.next + 1 }, acc.2 ++ [acc.1.next]) := by simp only [addAx, hf]
      rw [hacc]
      have hnd' : ((acc.1.axes ++ [({ id := acc.1.next, name := x.1, labels := x.2.1, kind := x.2.2 } : AxisObj)]).map (·.id)).Nodup := by
        rw [List.map_append, List.nodup_append]
        refine ⟨hnd, by simp, ?_⟩
        intro a ha b hb
        simp only [List.map_cons, List.map_nil, List.mem_singleton] at hb
        obtain ⟨a', ha', rfl⟩ := List.mem_map.1 ha
        have := hlt a' ha'
        omega
      refine fold_look axs _ _ hnd' ?_ hn.2 ?_ ?_
      · intro ax hm
        show ax.id < acc.1.next + 1
        rcases List.mem_append.1 hm with hm | hm
        · have := hlt ax hm; omega
        · simp only [List.mem_singleton] at hm
          subst hm; simp
      · intro y hy ex hex hnm
        rcases List.mem_append.1 hex with hex | hex
        · exact hsame y (List.mem_cons_of_mem _ hy) ex hex hnm
        · simp only [List.mem_singleton] at hex
          subst hex
          exfalso
          exact hn.1 (List.mem_map.2 ⟨y, hy, hnm.symm⟩)
      · show (acc.2 ++ [acc.1.next]).map (look (acc.1.axes ++ [_])) = _
        rw [List.map_append, List.map_append]
        congr 1
        · -- old ids keep resolving
          have : ∀ (ids : List Nat) (dn : List (String × List Label)), ids.map (look acc.1.axes) = dn.map some →
              ids.map (look (acc.1.axes ++ [({ id := acc.1.next, name := x.1, labels := x.2.1, kind := x.2.2 } : AxisObj)])) = dn.map some := by
            intro ids
            induction ids with
            | nil => intro dn h; simpa using h
            | cons i ids ih =>
              intro dn h
              cases dn with
              | nil => simp at h
              | cons d dn =>
                simp only [List.map_cons, List.cons.injEq] at h ⊢
                exact ⟨look_append_of_some h.1, ih dn h.2⟩
          exact this _ _ hd
        · simp only [List.map_cons, List.map_nil, List.cons.injEq, and_true]
          have := look_of_mem hnd' (ax := { id := acc.1.next, name := x.1, labels := x.2.1, kind := x.2.2 })
            (List.mem_append.2 (Or.inr (List.mem_singleton.2 rfl)))
          simpa using this

/-- an accepted `setVar`: the variable resolves to the names and labels it was given -/
theorem setVarBody_has (s : State) (key : String) (axs : List (String × List Label × Kind)) (h : Inv s)
    (hn : (axs.map (·.1)).Nodup)
    (hsame : ∀ x ∈ axs, ∀ ex ∈ s.axes, ex.name = x.1 → ex.labels = x.2.1) :
    Has (setVarBody s key axs) key (axs.map fun x => (x.1, x.2.1)) := by
  have hfl := fold_look axs (s, []) [] h.2.1 h.2.2.2.1 hn hsame (by simp)
  unfold setVarBody
  generalize axs.foldl addAx (s, []) = r at hfl
  refine ⟨r.2, mem_updVars_self _ _ _, ?_⟩
  simp only [List.nil_append] at hfl
  rw [← hfl]
  apply List.map_congr_left
  intro i hi
  rw [look_maybeDelete _ _ _ ?_]
  · exact look_clearDirect _ _ _
  · rw [used_iff]
    exact ⟨(key, r.2), mem_updVars_self _ _ _, hi⟩

/-- ... and every other variable keeps resolving to what it resolved to -/
theorem setVarBody_frame (s : State) (key : String) (axs : List (String × List Label × Kind)) (h : Inv s)
    (key' : String) (hk : key' ≠ key) (spec : List (String × List Label)) (hh : Has s key' spec) :
    Has (setVarBody s key axs) key' spec := by
  have hF : FoldInv s (axs.foldl addAx (s, [])) := foldInv_foldl axs _ (foldInv_init h)
  obtain ⟨ids, hmem, hres⟩ := hh
  unfold setVarBody
  generalize axs.foldl addAx (s, []) = r at hF
  obtain ⟨hv, ⟨extra, hpre, -⟩, -, -, -, -⟩ := hF
  have hmem' : (key', ids) ∈ updVars r.1.vars key r.2 := mem_updVars_of_ne _ (hv ▸ hmem) hk
  refine ⟨ids, hmem', ?_⟩
  rw [← hres]
  apply List.map_congr_left
  intro i hi
  rw [look_maybeDelete _ _ _ ?_]
  · rw [look_clearDirect]
    -- `i` resolves in `s`, hence also in the extended list
    have hsome : ∃ v, look s.axes i = some v := by
      have : (ids.map (look s.axes)) = spec.map some := hres
      have hm : look s.axes i ∈ ids.map (look s.axes) := List.mem_map.2 ⟨i, hi, rfl⟩
      rw [this] at hm
      obtain ⟨v, -, hv⟩ := List.mem_map.1 hm
      exact ⟨v, hv.symm⟩
    obtain ⟨v, hv⟩ := hsome
    rw [hpre, look_append_of_some hv, hv]
  · rw [used_iff]
    exact ⟨(key', ids), hmem', hi⟩

/-- the validation of `setVar` (fix F8) read as a statement: an accepted array agrees with the existing axes of its names -/
theorem setVar_accepted_same (s : State) (hnn : NamesNodup s) (axs : List (String × List Label × Kind))
    (hacc : axs.any (fun (n, l, _) => match findAxis s n with
        | some ex => !sameAxis ex n l
        | none => false) = false) :
    ∀ x ∈ axs, ∀ ex ∈ s.axes, ex.name = x.1 → ex.labels = x.2.1 := by
  intro x hx ex hex hnm
  have := List.any_eq_false.1 hacc x hx
  have hf : findAxis s x.1 = some ex := hnm ▸ findAxis_of_mem hnn hex
  obtain ⟨n, l, k⟩ := x
  simp only at hf this hnm ⊢
  rw [hf] at this
  simp only [sameAxis, Bool.not_eq_true, Bool.not_eq_false', Bool.and_eq_true, beq_iff_eq] at this
  simpa using this.2

theorem step_setVar_ok (s s' : State) (key : String) (axs : List (String × List Label × Kind)) (u : Unit)
    (hst : step s (.setVar key axs) = (s', .ok u)) :
    s' = setVarBody s key axs ∧ (axs.map (·.1)).Nodup ∧
    axs.any (fun (n, l, _) => match findAxis s n with
        | some ex => !sameAxis ex n l
        | none => false) = false := by
  rw [step_setVar] at hst
  split at hst
  · cases hst
  · rename_i h1
    split at hst
    · cases hst
    · rename_i h2
      simp only [Prod.mk.injEq] at hst
      refine ⟨hst.1.symm, ?_, Bool.eq_false_iff.mpr h2⟩
      apply (C10.eraseDups_length_eq_iff _).mp
      simpa using h1

/-- a run of `setVar`s of keys other than `key'` leaves what `key'` resolves to -/
theorem runAll_frame : ∀ (kvs : List (String × List (String × List Label × Kind))) (s s' : State),
    Inv s → NamesNodup s → runAll s (kvs.map fun kv => .setVar kv.1 kv.2) = .ok s' →
    ∀ (key' : String) (spec : List (String × List Label)), key' ∉ kvs.map (·.1) → Has s key' spec → Has s' key' spec
  | [], s, s', _, _, h, key', spec, _, hh => by
    simp only [List.map_nil, runAll, Except.ok.injEq] at h
    subst h; exact hh
  | kv :: kvs, s, s', hinv, hnn, h, key', spec, hk, hh => by
    simp only [List.map_cons] at h
    unfold runAll at h
    rcases hst : step s (.setVar kv.1 kv.2) with ⟨s1, r⟩
    rw [hst] at h
    cases r with
    | error e => cases h
    | ok u =>
      simp only at h
      obtain ⟨rfl, -, -⟩ := step_setVar_ok s s1 kv.1 kv.2 u hst
      have hinv1 : Inv (setVarBody s kv.1 kv.2) :=
        inv_setVarBody s kv.1 kv.2 hinv (fun ax hm _ => findAxis_of_mem hnn hm)
      have hnn1 := names_setVarBody s kv.1 kv.2 hinv hnn
      simp only [List.map_cons, List.mem_cons, not_or] at hk
      exact runAll_frame kvs _ s' hinv1 hnn1 h key' spec hk.2
        (setVarBody_frame s kv.1 kv.2 hinv key' hk.1 spec hh)

/-- **after a run of accepted `setVar`s every key that is not assigned again later resolves to the names and labels of the
array it was given** -/
theorem runAll_has : ∀ (kvs : List (String × List (String × List Label × Kind))) (s s' : State),
    Inv s → NamesNodup s → runAll s (kvs.map fun kv => .setVar kv.1 kv.2) = .ok s' →
    ∀ (i : Nat) (kv : String × List (String × List Label × Kind)), kvs[i]? = some kv →
      kv.1 ∉ (kvs.drop (i + 1)).map (·.1) → Has s' kv.1 (kv.2.map fun x => (x.1, x.2.1))
  | [], s, s', _, _, _, i, kv, hi, _ => by simp at hi
  | kv0 :: kvs, s, s', hinv, hnn, h, i, kv, hi, hlater => by
    simp only [List.map_cons] at h
    unfold runAll at h
    rcases hst : step s (.setVar kv0.1 kv0.2) with ⟨s1, r⟩
    rw [hst] at h
    cases r with
    | error e => cases h
    | ok u =>
      simp only at h
      obtain ⟨rfl, hnd, hacc⟩ := step_setVar_ok s s1 kv0.1 kv0.2 u hst
      have hinv1 : Inv (setVarBody s kv0.1 kv0.2) :=
        inv_setVarBody s kv0.1 kv0.2 hinv (fun ax hm _ => findAxis_of_mem hnn hm)
      have hnn1 := names_setVarBody s kv0.1 kv0.2 hinv hnn
      cases i with
      | zero =>
        simp only [List.getElem?_cons_zero, Option.some.injEq] at hi
        subst hi
        simp only [Nat.zero_add, List.drop_succ_cons, List.drop_zero] at hlater
        exact runAll_frame kvs _ s' hinv1 hnn1 h kv0.1 _ hlater
          (setVarBody_has s kv0.1 kv0.2 hinv hnd (setVar_accepted_same s hnn kv0.2 hacc))
      | succ n =>
        simp only [List.getElem?_cons_succ] at hi
        simp only [List.drop_succ_cons] at hlater
        exact runAll_has kvs _ s' hinv1 hnn1 h n kv hi hlater

end DS
end DimModel

/-
Helper lemmas for C10, part 2: squeeze / newaxis / repeat (one dimension dropped, inserted, or
repeated) and the generic `SameOn` calculus (composition, restriction, replication).
-/
import DimModel.Proofs.C10
namespace DimModel
open Lib
namespace C10

/-! ### `InRange` under insertion / removal / overwrite of one position -/

theorem inRange_insert : ∀ (s j : List Nat) (d n x : Nat), InRange s j → d ≤ s.length → x < n →
    InRange (s.insertIdx d n) (j.insertIdx d x)
  | s, j, 0, n, x, h, _, hx => by simpa [InRange] using ⟨hx, h⟩
  | [], [], d + 1, n, x, _, hd, _ => by simp at hd
  | [], _ :: _, _ + 1, _, _, h, _, _ => by simp [InRange] at h
  | _ :: _, [], _ + 1, _, _, h, _, _ => by simp [InRange] at h
  | m :: s, y :: j, d + 1, n, x, h, hd, hx => by
    simp only [List.insertIdx_succ_cons, InRange] at h ⊢
    exact ⟨h.1, inRange_insert s j d n x h.2 (by simpa using hd) hx⟩

theorem inRange_erase : ∀ (s j : List Nat) (d : Nat), InRange s j → InRange (s.eraseIdx d) (j.eraseIdx d)
  | [], [], _, _ => by simp [InRange]
  | [], _ :: _, _, h => by simp [InRange] at h
  | _ :: _, [], _, h => by simp [InRange] at h
  | m :: s, y :: j, 0, h => by simpa [InRange] using h.2
  | m :: s, y :: j, d + 1, h => by
    simp only [List.eraseIdx_cons_succ, InRange] at h ⊢
    exact ⟨h.1, inRange_erase s j d h.2⟩

theorem inRange_set : ∀ (s j : List Nat) (d n x : Nat), InRange s j → x < n →
    InRange (s.set d n) (j.set d x)
  | [], [], _, _, _, _, _ => by simp [InRange]
  | [], _ :: _, _, _, _, h, _ => by simp [InRange] at h
  | _ :: _, [], _, _, _, h, _ => by simp [InRange] at h
  | m :: s, y :: j, 0, n, x, h, hx => by simpa [InRange] using ⟨hx, h.2⟩
  | m :: s, y :: j, d + 1, n, x, h, hx => by
    simp only [List.set_cons_succ, InRange] at h ⊢
    exact ⟨h.1, inRange_set s j d n x h.2 hx⟩

theorem inRange_getElem? : ∀ (s j : List Nat) (k n : Nat), InRange s j → s[k]? = some n →
    ∃ x, j[k]? = some x ∧ x < n
  | [], [], _, _, _, h => by simp at h
  | [], _ :: _, _, _, h, _ => by simp [InRange] at h
  | _ :: _, [], _, _, h, _ => by simp [InRange] at h
  | m :: s, y :: j, 0, n, h, hk => by
    simp only [List.getElem?_cons_zero, Option.some.injEq] at hk ⊢
    exact ⟨y, rfl, hk ▸ h.1⟩
  | m :: s, y :: j, k + 1, n, h, hk => by
    simp only [List.getElem?_cons_succ] at hk ⊢
    exact inRange_getElem? s j k n h.2 hk

theorem inRange_length' (s j : List Nat) (h : InRange s j) : j.length = s.length :=
  ((inRange_iff_getD s j).mp h).1

/-- overwriting a position of size 1 of an in-range index with 0 changes nothing -/
theorem set_zero_of_inRange (s j : List Nat) (d : Nat) (h : InRange s j) (h1 : s[d]? = some 1) :
    j.set d 0 = j := by
  obtain ⟨x, hx, hlt⟩ := inRange_getElem? s j d 1 h h1
  have : x = 0 := by omega
  subst this
  apply List.ext_getElem?
  intro k
  by_cases hk : d = k
  · subst hk
    rw [List.getElem?_set_self (List.getElem?_eq_some_iff.mp hx).1, hx]
  · rw [List.getElem?_set_ne hk]

/-! ### named coordinates under removal / overwrite of one dimension -/

theorem coord_drop (l : List String) (hn : l.Nodup) (d : Nat) (i : List Nat) (name : String)
    (hname : name ∈ l.eraseIdx d) : coordOf (l.eraseIdx d) (i.eraseIdx d) name = coordOf l i name := by
  unfold coordOf
  have hk := getElem?_idxOf_of_mem hname
  generalize (l.eraseIdx d).idxOf name = kr at hk
  rw [List.getElem?_eraseIdx] at hk
  rw [List.getElem?_eraseIdx]
  by_cases c : kr < d
  · rw [if_pos c] at hk ⊢
    rw [(idxOf_eq_of_getElem? hn hk).1]
  · rw [if_neg c] at hk ⊢
    rw [(idxOf_eq_of_getElem? hn hk).1]

theorem coord_set (l : List String) (d : Nat) (j : List Nat) (x : Nat) (name : String)
    (h : l.idxOf name ≠ d) : coordOf l (j.set d x) name = coordOf l j name := by
  unfold coordOf
  rw [List.getElem?_set_ne (Ne.symm h)]

theorem idxOf_ne_of_mem_eraseIdx {l : List String} (hn : l.Nodup) {d : Nat} {name : String}
    (h : name ∈ l.eraseIdx d) : l.idxOf name ≠ d := by
  obtain ⟨k, hkd, hk⟩ := List.mem_eraseIdx_iff_getElem?.mp h
  rw [(idxOf_eq_of_getElem? hn hk).1]
  exact hkd

theorem mem_of_mem_eraseIdx' {β} {l : List β} {d : Nat} {x : β} (h : x ∈ l.eraseIdx d) : x ∈ l := by
  obtain ⟨k, _, hk⟩ := List.mem_eraseIdx_iff_getElem?.mp h
  exact List.mem_of_getElem? hk

/-! ### the `SameOn` calculus -/

theorem _root_.DimModel.SameOn.mono {α} {N N' : List String} {a r : DimArray α} (h : SameOn N' a r)
    (hsub : ∀ x ∈ N, x ∈ N') : SameOn N a r := by
  intro j hj
  obtain ⟨i, hi, hc, hv⟩ := h j hj
  exact ⟨i, hi, fun name hn => hc name (hsub name hn), hv⟩

theorem _root_.DimModel.SameOn.trans {α} {N : List String} {a b c : DimArray α} (h1 : SameOn N a b) (h2 : SameOn N b c) :
    SameOn N a c := by
  intro j hj
  obtain ⟨i, hi, hc, hv⟩ := h2 j hj
  obtain ⟨i', hi', hc', hv'⟩ := h1 i hi
  exact ⟨i', hi', fun name hn => (hc' name hn).trans (hc name hn), hv.trans hv'⟩

theorem _root_.DimModel.SameOn.refl {α} (N : List String) (a : DimArray α) : SameOn N a a :=
  fun j hj => ⟨j, hj, fun _ _ => rfl, rfl⟩

theorem sameByName_iff_sameOn {α} (a r : DimArray α) : SameByName a r ↔ SameOn a.dims a r := Iff.rfl

/-! ### one singleton dimension dropped -/

/-- the array `squeeze(axis)` builds -/
def squeezeAt {α} (a : DimArray α) (d : Nat) : DimArray α :=
  { axes := a.axes.eraseIdx d, vals := a.vals.dropDim d, vkind := a.vkind, attrs := a.attrs }

theorem squeezeAt_dims {α} (a : DimArray α) (d : Nat) : (squeezeAt a d).dims = a.dims.eraseIdx d := by
  simp only [squeezeAt, DimArray.dims, map_eraseIdx']

theorem squeezeAt_sameOn {α} (a : DimArray α) (d : Nat) (hn : a.dims.Nodup) (hd : d < a.vals.shape.length)
    (h1 : a.vals.shape[d]? = some 1) :
    SameOn (a.dims.eraseIdx d) a (squeezeAt a d) := by
  intro j hj
  have hshape : (squeezeAt a d).vals.shape = a.vals.shape.eraseIdx d := rfl
  rw [hshape] at hj
  refine ⟨j.insertIdx d 0, ?_, ?_, rfl⟩
  · have := inRange_insert _ _ d 1 0 hj (by rw [List.length_eraseIdx_of_lt hd]; omega) (by omega)
    rw [insertIdx_eraseIdx_same 1 _ d hd] at this
    have hs : a.vals.shape.set d 1 = a.vals.shape := by
      apply List.ext_getElem?
      intro k
      by_cases hk : d = k
      · subst hk; rw [List.getElem?_set_self hd, h1]
      · rw [List.getElem?_set_ne hk]
    rwa [hs] at this
  · intro name hname
    rw [squeezeAt_dims]
    have := coord_drop a.dims hn d (j.insertIdx d 0) name hname
    rw [List.eraseIdx_insertIdx_self] at this
    exact this.symm

theorem squeezeAt_sameOn_rev {α} (a : DimArray α) (d : Nat) (hn : a.dims.Nodup) (hd : d < a.vals.shape.length)
    (h1 : a.vals.shape[d]? = some 1) :
    SameOn (a.dims.eraseIdx d) (squeezeAt a d) a := by
  intro i hi
  refine ⟨i.eraseIdx d, inRange_erase _ _ d hi, ?_, ?_⟩
  · intro name hname
    rw [squeezeAt_dims]
    exact coord_drop a.dims hn d i name hname
  · show a.vals.get i = a.vals.get ((i.eraseIdx d).insertIdx d 0)
    have hil := inRange_length' _ _ hi
    rw [insertIdx_eraseIdx_same 0 i d (by omega), set_zero_of_inRange _ _ d hi h1]

theorem squeezeAt_wf {α} (a : DimArray α) (d : Nat) (hw : a.WF) : (squeezeAt a d).WF := by
  obtain ⟨hs, hn, hne⟩ := hw
  refine ⟨?_, ?_, ?_⟩
  · simp only [squeezeAt, NDArr.dropDim, hs, map_eraseIdx']
  · have : (squeezeAt a d).axes.map (·.name) = (a.axes.map (·.name)).eraseIdx d := by
      simp only [squeezeAt, map_eraseIdx']
    rw [this]
    exact List.Nodup.sublist (List.eraseIdx_sublist _ _) hn
  · intro ax hax
    exact hne ax (mem_of_mem_eraseIdx' hax)

/-! ### one singleton dimension inserted -/

/-- the array `newaxis(name, pos)` builds before any repetition -/
def insertAt {α} (a : DimArray α) (p : Nat) (ax : Axis) : DimArray α :=
  { axes := a.axes.insertIdx p ax, vals := a.vals.insertDim p, vkind := a.vkind, attrs := a.attrs }

theorem insertAt_dims {α} (a : DimArray α) (p : Nat) (ax : Axis) :
    (insertAt a p ax).dims = a.dims.insertIdx p ax.name := by
  simp only [insertAt, DimArray.dims, map_insertIdx']

theorem nodup_insertIdx {β} {l : List β} {p : Nat} {x : β} (hn : l.Nodup) (hx : x ∉ l) :
    (l.insertIdx p x).Nodup := by
  by_cases hp : p ≤ l.length
  · exact ((List.perm_insertIdx x l hp).nodup_iff).mpr (List.nodup_cons.mpr ⟨hx, hn⟩)
  · rw [List.insertIdx_of_length_lt (by omega)]; exact hn

theorem insertAt_sameOn {α} (a : DimArray α) (p : Nat) (ax : Axis) (hn : a.dims.Nodup) (hp : p ≤ a.vals.shape.length)
    (hnew : ax.name ∉ a.dims) :
    SameOn a.dims a (insertAt a p ax) ∧ SameOn a.dims (insertAt a p ax) a := by
  have hn' : (insertAt a p ax).dims.Nodup := by rw [insertAt_dims]; exact nodup_insertIdx hn hnew
  have he : (insertAt a p ax).dims.eraseIdx p = a.dims := by
    rw [insertAt_dims, List.eraseIdx_insertIdx_self]
  constructor
  · intro j hj
    have hshape : (insertAt a p ax).vals.shape = a.vals.shape.insertIdx p 1 := rfl
    rw [hshape] at hj
    refine ⟨j.eraseIdx p, ?_, ?_, rfl⟩
    · have := inRange_erase _ _ p hj
      rwa [List.eraseIdx_insertIdx_self] at this
    · intro name hname
      have := coord_drop (insertAt a p ax).dims hn' p j name (he ▸ hname)
      rw [he] at this
      exact this
  · intro i hi
    refine ⟨i.insertIdx p 0, inRange_insert _ _ p 1 0 hi hp (by omega), ?_, ?_⟩
    · intro name hname
      have := coord_drop (insertAt a p ax).dims hn' p (i.insertIdx p 0) name (he ▸ hname)
      rw [he, List.eraseIdx_insertIdx_self] at this
      exact this.symm
    · show a.vals.get i = a.vals.get ((i.insertIdx p 0).eraseIdx p)
      rw [List.eraseIdx_insertIdx_self]

theorem insertAt_wf {α} (a : DimArray α) (p : Nat) (ax : Axis) (hw : a.WF) (hnew : ax.name ∉ a.dims)
    (hne : ax.name ≠ "") (hsz : ax.size = 1) : (insertAt a p ax).WF := by
  obtain ⟨hs, hn, hnn⟩ := hw
  refine ⟨?_, ?_, ?_⟩
  · simp only [insertAt, NDArr.insertDim, hs, map_insertIdx', hsz]
  · have : (insertAt a p ax).axes.map (·.name) = (a.axes.map (·.name)).insertIdx p ax.name := by
      simp only [insertAt, map_insertIdx']
    rw [this]
    exact nodup_insertIdx hn hnew
  · intro x hx
    by_cases hp : p ≤ a.axes.length
    · rcases List.mem_cons.mp ((List.perm_insertIdx ax a.axes hp).mem_iff.mp hx) with rfl | h
      · exact hne
      · exact hnn x h
    · have : (insertAt a p ax).axes = a.axes := by
        simp only [insertAt]; exact List.insertIdx_of_length_lt (by omega)
      rw [this] at hx
      exact hnn x hx

/-! ### one singleton dimension repeated -/

/-- the array `repeat(values, axis)` builds -/
def repeatAt {α} (a : DimArray α) (d : Nat) (newax : Axis) : DimArray α :=
  { axes := a.axes.set d { newax with name := (a.axes.getD d default).name },
    vals := a.vals.repeatDim d newax.labels.length, vkind := a.vkind, attrs := a.attrs }

theorem repeatAt_dims {α} (a : DimArray α) (d : Nat) (newax : Axis) : (repeatAt a d newax).dims = a.dims := by
  simp only [repeatAt, DimArray.dims, List.map_set]
  apply List.ext_getElem?
  intro k
  by_cases hk : d = k
  · subst hk
    by_cases hd : d < a.axes.length
    · rw [List.getElem?_set_self (by simpa using hd), List.getElem?_map, List.getElem?_eq_getElem hd,
        axis_getD_eq a d hd]
      rfl
    · rw [List.set_eq_of_length_le (by simpa using Nat.le_of_not_lt hd)]
  · rw [List.getElem?_set_ne hk]

theorem repeatAt_sameOn {α} (a : DimArray α) (d : Nat) (newax : Axis) (hn : a.dims.Nodup)
    (h1 : a.vals.shape[d]? = some 1) :
    SameOn (a.dims.eraseIdx d) a (repeatAt a d newax) := by
  intro j hj
  have hshape : (repeatAt a d newax).vals.shape = a.vals.shape.set d newax.labels.length := rfl
  rw [hshape] at hj
  refine ⟨j.set d 0, ?_, ?_, rfl⟩
  · have := inRange_set _ _ d 1 0 hj (by omega)
    rw [List.set_set] at this
    have hs : a.vals.shape.set d 1 = a.vals.shape := by
      apply List.ext_getElem?
      intro k
      by_cases hk : d = k
      · subst hk; rw [List.getElem?_set_self (List.getElem?_eq_some_iff.mp h1).1, h1]
      · rw [List.getElem?_set_ne hk]
    rwa [hs] at this
  · intro name hname
    rw [repeatAt_dims]
    exact coord_set a.dims d j 0 name (idxOf_ne_of_mem_eraseIdx hn hname)

theorem repeatAt_sameOn_rev {α} (a : DimArray α) (d : Nat) (newax : Axis)
    (h1 : a.vals.shape[d]? = some 1) (hpos : newax.labels ≠ []) :
    SameOn a.dims (repeatAt a d newax) a := by
  intro i hi
  refine ⟨i, ?_, ?_, ?_⟩
  · show InRange (a.vals.shape.set d newax.labels.length) i
    have hx : i.set d 0 = i := set_zero_of_inRange _ _ d hi h1
    have := inRange_set _ _ d newax.labels.length 0 hi (List.length_pos_iff.mpr hpos)
    rwa [hx] at this
  · intro name _
    rw [repeatAt_dims]
  · show a.vals.get i = a.vals.get (i.set d 0)
    rw [set_zero_of_inRange _ _ d hi h1]

theorem repeatAt_wf {α} (a : DimArray α) (d : Nat) (newax : Axis) (hw : a.WF) (hpl : newax.members = []) :
    (repeatAt a d newax).WF := by
  have hdims := repeatAt_dims a d newax
  obtain ⟨hs, hn, hnn⟩ := hw
  refine ⟨?_, ?_, ?_⟩
  · simp only [repeatAt, NDArr.repeatDim, hs, List.map_set]
    congr 1
    simp [Axis.size, hpl]
  · show (repeatAt a d newax).dims.Nodup
    rw [hdims]; exact hn
  · intro x hx
    have hxn : x.name ∈ (repeatAt a d newax).dims := List.mem_map.mpr ⟨x, hx, rfl⟩
    rw [hdims] at hxn
    obtain ⟨y, hy, hyx⟩ := List.mem_map.mp hxn
    rw [← hyx]
    exact hnn y hy

/-! ### the top-level functions: key resolution -/

theorem axisPos_ok {α} (a : DimArray α) (hn : a.dims.Nodup) (k : DimKey) (d : Nat) (h : Resolves a k d) :
    axisPos a.axes k = .ok d := by
  obtain ⟨hd, hk⟩ := h
  cases k with
  | name s =>
    obtain ⟨h1, _, _⟩ := idxOf_eq_of_getElem? hn hk
    have h1' : (a.axes.map (·.name)).idxOf s = d := h1
    have hd' : d < a.axes.length := hd
    simp only [axisPos, h1', hd', if_true]
  | pos i =>
    have hk' : i = (d : Int) ∨ i = (d : Int) - (a.axes.length : Int) := hk
    obtain ⟨e1, e2, e3⟩ := normInt_of (n := a.axes.length) hd hk'
    unfold normInt at e1
    simp only [axisPos, e2, e3, decide_false, Bool.or_self, Bool.false_eq_true, if_false, e1]

theorem squeeze_some_ok {α} (a : DimArray α) (hn : a.dims.Nodup) (k : DimKey) (d : Nat) (h : Resolves a k d)
    (h1 : (a.axes.getD d default).size = 1) : squeeze a (some k) = .ok (squeezeAt a d) := by
  have hne : ((a.axes.getD d default).size != 1) = false := by rw [h1]; rfl
  simp only [squeeze, axisPos_ok a hn k d h, bind, Except.bind, hne, Bool.false_eq_true, if_false]
  rfl

theorem squeeze_some_error {α} (a : DimArray α) (hn : a.dims.Nodup) (k : DimKey) (d : Nat) (h : Resolves a k d)
    (h1 : (a.axes.getD d default).size ≠ 1) : squeeze a (some k) = .error .value := by
  have hne : ((a.axes.getD d default).size != 1) = true := bne_iff_ne.mpr h1
  simp only [squeeze, axisPos_ok a hn k d h, bind, Except.bind, hne, if_true]

theorem repeatAxis_ok {α} (a : DimArray α) (hn : a.dims.Nodup) (newax : Axis) (k : DimKey) (d : Nat)
    (h : Resolves a k d) (h1 : (a.axes.getD d default).size = 1) :
    repeatAxis a newax k = .ok (repeatAt a d newax) := by
  have hne : ((a.axes.getD d default).size != 1) = false := by rw [h1]; rfl
  simp only [repeatAxis, axisPos_ok a hn k d h, bind, Except.bind, hne, Bool.false_eq_true, if_false]
  rfl

theorem repeatAxis_error {α} (a : DimArray α) (hn : a.dims.Nodup) (newax : Axis) (k : DimKey) (d : Nat)
    (h : Resolves a k d) (h1 : (a.axes.getD d default).size ≠ 1) :
    repeatAxis a newax k = .error .value := by
  have hne : ((a.axes.getD d default).size != 1) = true := bne_iff_ne.mpr h1
  simp only [repeatAxis, axisPos_ok a hn k d h, bind, Except.bind, hne, if_true]

theorem newaxis_none_ok {α} (a : DimArray α) (name : String) (pos : Int) (p : Nat) (hnew : name ∉ a.dims)
    (hp : p ≤ a.ndim) (hpos : pos = (p : Int) ∨ (pos < 0 ∧ pos + (a.ndim : Int) + 1 = (p : Int))) :
    newaxis a name pos none = .ok (insertAt a p (noneAxis name)) := by
  have hc : a.dims.contains name = false := by simpa using hnew
  have e : (if pos < 0 then pos + (a.ndim : Int) + 1 else pos) = (p : Int) := by
    rcases hpos with h | ⟨h, h'⟩
    · subst h
      have : ¬ ((p : Int) < 0) := by omega
      simp only [this, if_false]
    · simp only [h, if_true]; exact h'
  have c : (decide ((p : Int) < 0) || decide ((p : Int) > (a.ndim : Int))) = false := by
    simp only [Bool.or_eq_false_iff, decide_eq_false_iff_not]; omega
  simp only [newaxis, hc, Bool.false_eq_true, if_false, e, c, Int.toNat_natCast]
  rfl

theorem newaxis_some_eq {α} (a : DimArray α) (name : String) (pos : Int) (p : Nat) (v : Axis) (hnew : name ∉ a.dims)
    (hp : p ≤ a.ndim) (hpos : pos = (p : Int) ∨ (pos < 0 ∧ pos + (a.ndim : Int) + 1 = (p : Int))) :
    newaxis a name pos (some v) = repeatAxis (insertAt a p (noneAxis name)) v (.pos p) := by
  have hc : a.dims.contains name = false := by simpa using hnew
  have e : (if pos < 0 then pos + (a.ndim : Int) + 1 else pos) = (p : Int) := by
    rcases hpos with h | ⟨h, h'⟩
    · subst h
      have : ¬ ((p : Int) < 0) := by omega
      simp only [this, if_false]
    · simp only [h, if_true]; exact h'
  have c : (decide ((p : Int) < 0) || decide ((p : Int) > (a.ndim : Int))) = false := by
    simp only [Bool.or_eq_false_iff, decide_eq_false_iff_not]; omega
  simp only [newaxis, hc, Bool.false_eq_true, if_false, e, c, Int.toNat_natCast]
  rfl

theorem newaxis_dup_error {α} (a : DimArray α) (name : String) (pos : Int) (v : Option Axis) (h : name ∈ a.dims) :
    newaxis a name pos v = .error .value := by
  have hc : a.dims.contains name = true := by simpa using h
  simp only [newaxis, hc, if_true]

/-! ### `squeeze()` : all singleton dimensions -/

/-- the positions `squeeze()` keeps -/
def keepPos {α} (a : DimArray α) : List Nat :=
  (List.range a.ndim).filter (fun i => (a.axes.getD i default).size != 1)

theorem squeeze_none_eq {α} (a : DimArray α) :
    squeeze a none = .ok
      { axes := (keepPos a).map (fun i => a.axes.getD i default)
        vals := { shape := (keepPos a).map (fun i => a.vals.shape.getD i 0)
                  get := fun j => a.vals.get ((List.range a.ndim).map fun d => j.getD ((keepPos a).idxOf d) 0) }
        vkind := a.vkind, attrs := a.attrs } := rfl

theorem keepPos_axes {α} (a : DimArray α) :
    (keepPos a).map (fun i => a.axes.getD i default) = a.axes.filter (fun ax => ax.size != 1) := by
  have h := List.filter_map (f := fun i => a.axes.getD i default) (p := fun ax : Axis => ax.size != 1)
    (l := List.range a.axes.length)
  rw [map_range_getD] at h
  rw [h]
  rfl

theorem keepPos_mem {α} (a : DimArray α) (d : Nat) :
    d ∈ keepPos a ↔ d < a.axes.length ∧ (a.axes.getD d default).size ≠ 1 := by
  simp only [keepPos, List.mem_filter, List.mem_range, DimArray.ndim, bne_iff_ne]

theorem keepPos_nodup {α} (a : DimArray α) : (keepPos a).Nodup :=
  List.Nodup.sublist List.filter_sublist List.nodup_range

theorem squeezeAll_sameOn {α} (a r : DimArray α) (hw : a.WF) (hr : squeeze a none = .ok r) :
    r.axes = a.axes.filter (fun ax => ax.size != 1) ∧ SameOn r.dims a r ∧ SameOn r.dims r a := by
  rw [squeeze_none_eq] at hr
  injection hr with hr
  subst hr
  obtain ⟨hs, hn, _⟩ := hw
  have hsl : a.vals.shape.length = a.axes.length := by rw [hs]; simp
  have hshape : ∀ d, d < a.axes.length → a.vals.shape.getD d 0 = (a.axes.getD d default).size := by
    intro d hd
    rw [hs, List.getD_eq_getElem?_getD, List.getD_eq_getElem?_getD, List.getElem?_map,
      List.getElem?_eq_getElem hd]; rfl
  have hget : ∀ (f : Nat → Nat) m (hm : m < (keepPos a).length),
      ((keepPos a).map f).getD m 0 = f (keepPos a)[m] := by
    intro f m hm
    rw [List.getD_eq_getElem?_getD, List.getElem?_map, List.getElem?_eq_getElem hm]; rfl
  -- the dims of the result, and the position of a kept name in them
  have hrdims : ∀ (x : DimArray α), x.axes = (keepPos a).map (fun i => a.axes.getD i default) →
      x.dims = (keepPos a).map (fun k => (a.axes.getD k default).name) := by
    intro x hx; simp only [DimArray.dims, hx, List.map_map, Function.comp_def]
  have hpos : ∀ (x : DimArray α), x.axes = (keepPos a).map (fun i => a.axes.getD i default) →
      ∀ name ∈ x.dims, ∃ d, d ∈ keepPos a ∧ a.dims.idxOf name = d ∧ x.dims.idxOf name = (keepPos a).idxOf d := by
    intro x hx name hname
    rw [hrdims x hx] at hname ⊢
    obtain ⟨d, hd, hde⟩ := List.mem_map.mp hname
    have hdl := ((keepPos_mem a d).mp hd).1
    refine ⟨d, hd, ?_, ?_⟩
    · rw [← hde, axis_getD_name a d hdl]
      exact idxOf_getElem_nodup hn d (by simpa [DimArray.dims] using hdl)
    · rw [← hde]
      exact idxOf_map_inj (fun k => (a.axes.getD k default).name) d (keepPos a)
        (fun x hx hxe => axis_name_inj a hn x d ((keepPos_mem a x).mp hx).1 hdl hxe)
  refine ⟨keepPos_axes a, ?_, ?_⟩
  · intro j hj
    rw [inRange_iff_getD] at hj
    obtain ⟨hjl, hjk⟩ := hj
    simp only [List.length_map] at hjl hjk
    refine ⟨(List.range a.ndim).map (fun d => j.getD ((keepPos a).idxOf d) 0), ?_, ?_, rfl⟩
    · rw [inRange_iff_getD]
      refine ⟨by simp [hsl, DimArray.ndim], ?_⟩
      intro d hd
      have hd' : d < a.axes.length := hsl ▸ hd
      rw [List.getD_eq_getElem?_getD (l := List.map _ _), List.getElem?_map,
        List.getElem?_eq_getElem (by simpa [DimArray.ndim] using hd'), List.getElem_range]
      show j.getD _ 0 < _
      by_cases hk : d ∈ keepPos a
      · have hm := List.idxOf_lt_length_of_mem hk
        have := hjk _ hm
        rwa [hget _ _ hm, List.getElem_idxOf hm] at this
      · have h1 : (a.axes.getD d default).size = 1 := by
          exact Classical.byContradiction fun hne => hk ((keepPos_mem a d).mpr ⟨hd', hne⟩)
        have hidx : (keepPos a).idxOf d = (keepPos a).length := by
          have := List.idxOf_le_length (a := d) (l := keepPos a)
          have h2 : ¬ (keepPos a).idxOf d < (keepPos a).length := fun hlt => hk (List.idxOf_lt_length_iff.mp hlt)
          omega
        rw [hidx, List.getD_eq_getElem?_getD, List.getElem?_eq_none (by omega), hshape d hd', h1]
        exact Nat.zero_lt_one
    · intro name hname
      obtain ⟨d, hd, e1, e2⟩ := hpos _ rfl name hname
      have hdl := ((keepPos_mem a d).mp hd).1
      have hm := List.idxOf_lt_length_of_mem hd
      unfold coordOf
      rw [e1, e2, List.getElem?_map, List.getElem?_eq_getElem (by simpa [DimArray.ndim] using hdl),
        List.getElem_range, List.getElem?_eq_getElem (by omega)]
      simp only [Option.map_some, Option.some.injEq]
      rw [List.getD_eq_getElem?_getD, List.getElem?_eq_getElem (by omega)]; rfl
  · intro i hi
    have hil := inRange_length' _ _ hi
    refine ⟨(keepPos a).map (fun k => i.getD k 0), ?_, ?_, ?_⟩
    · show InRange ((keepPos a).map (fun i => a.vals.shape.getD i 0)) _
      rw [inRange_iff_getD]
      refine ⟨by simp, ?_⟩
      intro m hm
      have hm' : m < (keepPos a).length := by simpa using hm
      rw [hget _ m hm', hget _ m hm']
      have hkl := ((keepPos_mem a _).mp (List.getElem_mem hm')).1
      exact ((inRange_iff_getD _ _).mp hi).2 _ (hsl ▸ hkl)
    · intro name hname
      obtain ⟨d, hd, e1, e2⟩ := hpos _ rfl name hname
      have hdl := ((keepPos_mem a d).mp hd).1
      have hm := List.idxOf_lt_length_of_mem hd
      unfold coordOf
      rw [e1, e2, List.getElem?_map, List.getElem?_eq_getElem hm, List.getElem_idxOf hm,
        List.getElem?_eq_getElem (by omega)]
      simp only [Option.map_some, Option.some.injEq]
      rw [List.getD_eq_getElem?_getD, List.getElem?_eq_getElem (by omega)]; rfl
    · show a.vals.get i = a.vals.get _
      congr 1
      have : ∀ d ∈ List.range a.ndim,
          ((keepPos a).map (fun k => i.getD k 0)).getD ((keepPos a).idxOf d) 0 = i.getD d 0 := by
        intro d hd
        have hd' : d < a.axes.length := List.mem_range.mp hd
        by_cases hk : d ∈ keepPos a
        · have hm := List.idxOf_lt_length_of_mem hk
          rw [hget _ _ hm, List.getElem_idxOf hm]
        · have h1 : (a.axes.getD d default).size = 1 := by
            exact Classical.byContradiction fun hne => hk ((keepPos_mem a d).mpr ⟨hd', hne⟩)
          have hidx : (keepPos a).idxOf d = (keepPos a).length := by
            have := List.idxOf_le_length (a := d) (l := keepPos a)
            have h2 : ¬ (keepPos a).idxOf d < (keepPos a).length := fun hlt => hk (List.idxOf_lt_length_iff.mp hlt)
            omega
          rw [hidx, List.getD_eq_getElem?_getD, List.getElem?_eq_none (by simp)]
          have := ((inRange_iff_getD _ _).mp hi).2 d (hsl ▸ hd')
          rw [hshape d hd', h1] at this
          show 0 = i.getD d 0
          omega
      rw [List.map_congr_left this]
      have : a.ndim = i.length := by rw [hil, hsl]; rfl
      rw [this, map_range_getD]

theorem squeezeAll_wf {α} (a r : DimArray α) (hw : a.WF) (hr : squeeze a none = .ok r) :
    r.WF ∧ r.attrs = a.attrs ∧ r.vkind = a.vkind := by
  rw [squeeze_none_eq] at hr
  injection hr with hr
  subst hr
  obtain ⟨hs, hn, hne⟩ := hw
  refine ⟨⟨?_, ?_, ?_⟩, rfl, rfl⟩
  · simp only [List.map_map]
    apply List.map_congr_left
    intro d hd
    have hdl := ((keepPos_mem a d).mp hd).1
    simp only [Function.comp_apply]
    rw [hs, List.getD_eq_getElem?_getD, List.getD_eq_getElem?_getD, List.getElem?_map,
      List.getElem?_eq_getElem hdl]; rfl
  · simp only [keepPos_axes]
    exact List.Nodup.sublist (List.Sublist.map _ List.filter_sublist) hn
  · intro ax hax
    simp only [keepPos_axes] at hax
    exact hne ax (List.mem_filter.mp hax).1

/-! ### replication -/

/-- If `r` reads `a` by the names in `N` and every other dimension of `a` has a single position,
two indices of `r` that agree on `N` hold the same value: `r` is constant (replicated) along every
dimension outside `N`. -/
theorem sameOn_replicated {α} (a r : DimArray α) (N : List String) (hw : a.WF) (h : SameOn N a r)
    (hsing : ∀ ax ∈ a.axes, ax.name ∉ N → ax.size = 1) (j j' : List Nat)
    (hj : InRange r.vals.shape j) (hj' : InRange r.vals.shape j')
    (hagree : ∀ name ∈ N, coordOf r.dims j name = coordOf r.dims j' name) :
    r.vals.get j = r.vals.get j' := by
  obtain ⟨i, hi, hc, hv⟩ := h j hj
  obtain ⟨i', hi', hc', hv'⟩ := h j' hj'
  rw [hv, hv']
  congr 1
  obtain ⟨hs, hn, _⟩ := hw
  have hn : a.dims.Nodup := hn
  have hil := inRange_length' _ _ hi
  have hil' := inRange_length' _ _ hi'
  apply List.ext_getElem?
  intro k
  by_cases hk : k < a.axes.length
  · have hkd : k < a.dims.length := by simpa [DimArray.dims] using hk
    by_cases hN : a.dims[k] ∈ N
    · have e1 := hc _ hN
      have e2 := hc' _ hN
      unfold coordOf at e1 e2
      rw [idxOf_getElem_nodup hn k hkd] at e1 e2
      rw [e1, e2]
      exact hagree _ hN
    · have h1 : a.axes[k].size = 1 := by
        apply hsing _ (List.getElem_mem hk)
        have : a.axes[k].name = a.dims[k] := by simp [DimArray.dims]
        rw [this]; exact hN
      have hsk : a.vals.shape[k]? = some 1 := by
        rw [hs, List.getElem?_map, List.getElem?_eq_getElem hk, Option.map_some, h1]
      obtain ⟨x, hx, hxl⟩ := inRange_getElem? _ _ k 1 hi hsk
      obtain ⟨x', hx', hxl'⟩ := inRange_getElem? _ _ k 1 hi' hsk
      rw [hx, hx']
      congr 1; omega
  · have hsl : a.vals.shape.length = a.axes.length := by rw [hs]; simp
    rw [List.getElem?_eq_none (by omega), List.getElem?_eq_none (by omega)]

theorem set_insertIdx_self {β} (x y : β) : ∀ (l : List β) (p : Nat), (l.insertIdx p x).set p y = l.insertIdx p y
  | l, 0 => by simp
  | [], p + 1 => by simp
  | z :: l, p + 1 => by simp [List.insertIdx_succ_cons, set_insertIdx_self x y l p]

end C10
end DimModel

/-
Helper lemmas for C16, Dataset part: metadata propagation of the by-value Dataset operations of
`Lib/DatasetOps.lean`.
-/
import DimModel.Proofs.C16
import DimModel.Lib.DatasetOps
namespace DimModel
open Lib DSV
namespace C16

theorem setItem_spec {α} (ds r : Ds α) (k : String) (v : DimArray α) (h : setItem ds k v = .ok r) :
    r.attrs = ds.attrs ∧
    (∀ e ∈ r.axes, e ∈ ds.axes ∨ (e ∈ v.axes ∧ e.name ∉ ds.dims)) ∧ (∀ e ∈ ds.axes, e ∈ r.axes) ∧
    (∀ kv ∈ r.vars, kv ∈ ds.vars ∨ (kv.1 = k ∧ kv.2.attrs = v.attrs)) := by
  unfold setItem at h
  split at h
  · cases h
  · cases h
    refine ⟨rfl, ?_, ?_, ?_⟩
    · intro e he
      rcases List.mem_append.mp he with he | he
      · exact Or.inl he
      · obtain ⟨h1, h2⟩ := List.mem_filter.mp he
        exact Or.inr ⟨h1, by simpa using h2⟩
    · intro e he
      exact List.mem_append_left _ he
    · intro kv hkv
      rcases List.mem_append.mp hkv with hkv | hkv
      · exact Or.inl (List.mem_filter.mp hkv).1
      · rw [List.mem_singleton] at hkv
        subst hkv
        exact Or.inr ⟨rfl, rfl⟩

theorem fromVars_spec {α} (nan : α) (vars : List (String × DimArray α)) (r : Ds α) (h : fromVars nan vars = .ok r) :
    r.attrs = [] ∧ ∀ kv ∈ r.vars, ∃ kv0 ∈ vars, kv.2.attrs = kv0.2.attrs := by
  unfold fromVars at h
  obtain ⟨al, hal, h⟩ := bind_ok h
  have hP := align_spec nan _ _ _ _ _ _ hal
  refine foldlM_inv (fun acc : Ds α => acc.attrs = [] ∧ ∀ kv ∈ acc.vars, ∃ kv0 ∈ vars, kv.2.attrs = kv0.2.attrs)
    _ _ _ _ ?_ ⟨rfl, fun kv hkv => by cases hkv⟩ h
  intro acc x acc' hx hacc hstep
  obtain ⟨e1, _, _, e4⟩ := setItem_spec _ _ _ _ hstep
  refine ⟨e1.trans hacc.1, ?_⟩
  intro kv hkv
  rcases e4 kv hkv with hin | ⟨_, ha⟩
  · exact hacc.2 kv hin
  · have hx2 : x.2 ∈ al := (List.of_mem_zip hx).2
    obtain ⟨v0, hv0, hsame⟩ := Pointwise.mem hP x.2 hx2
    obtain ⟨kv0, hkv0, rfl⟩ := List.mem_map.mp hv0
    exact ⟨kv0, hkv0, ha.trans hsame.1⟩

theorem reduceAxisKeep_spec {α} (ds r : Ds α) (name : String) (newAxis : Axis) (f : Nat → DimArray α → NDArr α)
    (hname : newAxis.name = name) (h : reduceAxisKeep ds name newAxis f = .ok r) :
    r.attrs = ds.attrs ∧ (∀ e ∈ r.axes, e.name = name → e = newAxis) ∧ (∃ e ∈ r.axes, e = newAxis) ∧
    (∀ kv ∈ r.vars, ∃ kv0 ∈ ds.vars, kv.2.attrs = kv0.2.attrs) := by
  unfold reduceAxisKeep at h
  split at h
  · cases h
  · rename_i hc
    have hc : name ∈ ds.dims := by simpa using hc
    obtain ⟨out, hout, h⟩ := bind_ok h
    cases h
    let newaxes := ds.axes.map fun ax => if ax.name == name then newAxis else ax
    have hnew_in : newAxis ∈ newaxes := by
      obtain ⟨ax, hax, hn⟩ := List.mem_map.mp hc
      refine List.mem_map.mpr ⟨ax, hax, ?_⟩
      simp [hn]
    have hnew_only : ∀ e ∈ newaxes, e.name = name → e = newAxis := by
      intro e he hen
      obtain ⟨ax, _, rfl⟩ := List.mem_map.mp he
      by_cases hax : (ax.name == name) = true
      · simp only [hax, if_true]
      · simp only [hax, Bool.false_eq_true, if_false] at hen
        exact absurd (by simpa using hen) hax
    have inv := foldlM_inv (fun acc : Ds α =>
        (∀ e ∈ acc.axes, e.name = name → e = newAxis) ∧ newAxis ∈ acc.axes ∧
        (∀ kv ∈ acc.vars, ∃ kv0 ∈ ds.vars, kv.2.attrs = kv0.2.attrs)) _ _ _ _ ?_
      ⟨hnew_only, hnew_in, fun kv hkv => by cases hkv⟩ hout
    · exact ⟨rfl, inv.1, ⟨newAxis, inv.2.1, rfl⟩, inv.2.2⟩
    · intro acc kv acc' hkv hacc hstep
      simp only at hstep
      have hdims : name ∈ acc.dims := List.mem_map.mpr ⟨newAxis, hacc.2.1, hname⟩
      split at hstep
      all_goals
        obtain ⟨_, e2, e3, e4⟩ := setItem_spec _ _ _ _ hstep
        refine ⟨?_, e3 _ hacc.2.1, ?_⟩
        · intro e he hen
          rcases e2 e he with hin | ⟨_, hnot⟩
          · exact hacc.1 e hin hen
          · exact absurd (hen ▸ hdims) hnot
        · intro kv' hkv'
          rcases e4 kv' hkv' with hin | ⟨_, ha⟩
          · exact hacc.2.2 kv' hin
          · exact ⟨kv, hkv, ha⟩

/-- the axes of the result of `reduceAxisKeep`: the axis passed in, an axis of the Dataset, or an axis (of a variable)
whose name the Dataset does not know -/
theorem reduceAxisKeep_axes {α} (ds r : Ds α) (name : String) (newAxis : Axis) (f : Nat → DimArray α → NDArr α)
    (hname : newAxis.name = name) (h : reduceAxisKeep ds name newAxis f = .ok r) :
    ∀ e ∈ r.axes, e = newAxis ∨ e ∈ ds.axes ∨ e.name ∉ ds.dims := by
  unfold reduceAxisKeep at h
  split at h
  · cases h
  · obtain ⟨out, hout, h⟩ := bind_ok h
    cases h
    have inv := foldlM_inv (fun acc : Ds α =>
        (∀ e ∈ acc.axes, e = newAxis ∨ e ∈ ds.axes ∨ e.name ∉ ds.dims) ∧ (∀ d ∈ ds.dims, d ∈ acc.dims)) _ _ _ _ ?_ ⟨?_, ?_⟩ hout
    · exact inv.1
    · intro acc kv acc' hkv hacc hstep
      simp only at hstep
      split at hstep
      all_goals
        obtain ⟨_, e2, e3, _⟩ := setItem_spec _ _ _ _ hstep
        refine ⟨?_, ?_⟩
        · intro e he
          rcases e2 e he with hin | ⟨_, hnot⟩
          · exact hacc.1 e hin
          · exact Or.inr (Or.inr fun hd => hnot (hacc.2 _ hd))
        · intro d hd
          obtain ⟨e, he, hen⟩ := List.mem_map.mp (hacc.2 d hd)
          exact List.mem_map.mpr ⟨e, e3 e he, hen⟩
    · intro e he
      obtain ⟨ax, hax, rfl⟩ := List.mem_map.mp he
      by_cases hc : (ax.name == name) = true
      · rw [if_pos hc]; exact Or.inl rfl
      · rw [if_neg hc]; exact Or.inr (Or.inl hax)
    · intro d hd
      obtain ⟨ax, hax, rfl⟩ := List.mem_map.mp hd
      refine List.mem_map.mpr ⟨_, List.mem_map.mpr ⟨ax, hax, rfl⟩, ?_⟩
      by_cases hc : (ax.name == name) = true
      · simp only [hc, if_true]; rw [hname]; exact (by simpa using hc : ax.name = name).symm
      · simp only [hc, Bool.false_eq_true, if_false]

theorem find?_name_some' {AX : List Axis} {n : String} {e : Axis} (h : AX.find? (fun a => a.name == n) = some e) :
    e ∈ AX ∧ e.name = n := by
  refine ⟨List.mem_of_find?_eq_some h, ?_⟩
  have := List.find?_some h
  simpa using this

/-- the by-name rule from "every axis that has the name of a Dataset axis carries the pair of one of them" -/
theorem kept_of_known {src dst : List Axis}
    (h : ∀ e ∈ dst, e.name ∈ src.map (·.name) → (e.name, e.attrs) ∈ axisMeta src)
    (hn : (src.map (·.name)).Nodup) : AxisAttrsKept src dst := by
  intro ax' hax' ax hax hname
  obtain ⟨ax2, hax2, hn2, ha2⟩ := mem_axisMeta.mp (h ax' hax' (List.mem_map.mpr ⟨ax, hax, hname.symm⟩))
  have : ax2 = ax := name_inj hn hax2 hax (hn2.trans hname)
  subst this
  exact ha2.symm

/-- `Dataset.take_axis` (positions): Dataset metadata kept; the operated axis comes back with the metadata of the
Dataset's axis of that name; every axis whose name the Dataset knows carries the metadata of a Dataset axis of that
name; the variables keep theirs -/
theorem takeAxisPosDs_spec {α} (ds r : Ds α) (name : String) (ps : List Nat) (h : takeAxisPosDs ds name ps = .ok r) :
    r.attrs = ds.attrs ∧
    (∀ e ∈ r.axes, e.name = name → ∃ ax, ds.axes.find? (·.name == name) = some ax ∧ e.attrs = ax.attrs) ∧
    (∃ e ∈ r.axes, e.name = name) ∧
    (∀ e ∈ r.axes, e.name ∈ ds.dims → (e.name, e.attrs) ∈ axisMeta ds.axes) ∧
    (∀ kv ∈ r.vars, ∃ kv0 ∈ ds.vars, kv.2.attrs = kv0.2.attrs) := by
  unfold takeAxisPosDs at h
  split at h
  · cases h
  · rename_i ax hfind
    split at h
    · cases h
    · obtain ⟨h1, h2, ⟨e, he, hee⟩, h4⟩ := reduceAxisKeep_spec ds r name _ _ rfl h
      have h5 := reduceAxisKeep_axes ds r name _ _ rfl h
      obtain ⟨hmem, hnm⟩ := find?_name_some' hfind
      refine ⟨h1, ?_, ⟨e, he, by rw [hee]⟩, ?_, h4⟩
      · intro e' he' hn
        exact ⟨ax, hfind, by rw [h2 e' he' hn]⟩
      · intro e' he' hd
        rcases h5 e' he' with rfl | hin | hnot
        · exact mem_axisMeta.mpr ⟨ax, hmem, hnm, rfl⟩
        · exact mem_axisMeta.mpr ⟨e', hin, rfl, rfl⟩
        · exact absurd hd hnot

theorem takeAxisLabel_spec {α} (ds r : Ds α) (name : String) (labels : List Label) (clip : Bool)
    (h : takeAxisLabel ds name labels clip = .ok r) :
    r.attrs = ds.attrs ∧
    (∀ e ∈ r.axes, e.name = name → ∃ ax, ds.axes.find? (·.name == name) = some ax ∧ e.attrs = ax.attrs) ∧
    (∃ e ∈ r.axes, e.name = name) ∧
    (∀ e ∈ r.axes, e.name ∈ ds.dims → (e.name, e.attrs) ∈ axisMeta ds.axes) ∧
    (∀ kv ∈ r.vars, ∃ kv0 ∈ ds.vars, kv.2.attrs = kv0.2.attrs) := by
  unfold takeAxisLabel at h
  split at h
  · cases h
  · obtain ⟨raw, _, h⟩ := bind_ok h
    split at h
    · exact takeAxisPosDs_spec ds r name _ h
    · cases h

theorem sortAxisDs_spec {α} (ds r : Ds α) (name : String) (h : sortAxisDs ds name = .ok r) :
    r.attrs = ds.attrs ∧
    (∀ e ∈ r.axes, e.name = name → ∃ ax, ds.axes.find? (·.name == name) = some ax ∧ e.attrs = ax.attrs) ∧
    (∃ e ∈ r.axes, e.name = name) ∧
    (∀ e ∈ r.axes, e.name ∈ ds.dims → (e.name, e.attrs) ∈ axisMeta ds.axes) ∧
    (∀ kv ∈ r.vars, ∃ kv0 ∈ ds.vars, kv.2.attrs = kv0.2.attrs) := by
  unfold sortAxisDs at h
  split at h
  · cases h
  · exact takeAxisPosDs_spec ds r name _ h

theorem reindexAxisDs_spec {α} (ds r : Ds α) (name : String) (newL : List Label) (nk : Kind) (fill : α) (fk : Kind)
    (h : reindexAxisDs ds name newL nk fill fk = .ok r) :
    r.attrs = ds.attrs ∧
    (∀ e ∈ r.axes, e.name = name → ∃ ax, ds.axes.find? (·.name == name) = some ax ∧ e.attrs = ax.attrs) ∧
    (∃ e ∈ r.axes, e.name = name) ∧
    (∀ e ∈ r.axes, e.name ∈ ds.dims → (e.name, e.attrs) ∈ axisMeta ds.axes) ∧
    (∀ kv ∈ r.vars, ∃ kv0 ∈ ds.vars, kv.2.attrs = kv0.2.attrs) := by
  unfold reindexAxisDs at h
  split at h
  · cases h
  · rename_i ax hfind
    obtain ⟨hmem, hnm⟩ := find?_name_some' hfind
    simp only at h
    split at h
    · cases h
    · obtain ⟨taken, ht, h⟩ := bind_ok h
      obtain ⟨t1, t2, ⟨e0, he0, hn0⟩, t3, t4⟩ := takeAxisPosDs_spec ds taken name _ ht
      split at h
      · cases h; exact ⟨t1, t2, ⟨e0, he0, hn0⟩, t3, t4⟩
      · cases h
        refine ⟨t1, ?_, ?_, ?_, ?_⟩
        · intro e he hn
          obtain ⟨a, ha, rfl⟩ := List.mem_map.mp he
          by_cases hax : (a.name == name) = true
          · simp only [hax, if_true]
            exact ⟨ax, hfind, rfl⟩
          · simp only [hax, Bool.false_eq_true, if_false] at hn ⊢
            exact t2 a ha hn
        · refine ⟨_, List.mem_map.mpr ⟨e0, he0, rfl⟩, ?_⟩
          have : (e0.name == name) = true := by simpa using hn0
          simp only [this, if_true]
        · intro e he hd
          obtain ⟨a, ha, rfl⟩ := List.mem_map.mp he
          by_cases hax : (a.name == name) = true
          · simp only [hax, if_true]
            exact mem_axisMeta.mpr ⟨ax, hmem, hnm, rfl⟩
          · simp only [hax, Bool.false_eq_true, if_false] at hd ⊢
            exact t3 a ha hd
        · intro kv hkv
          obtain ⟨kv1, hkv1, rfl⟩ := List.mem_map.mp hkv
          obtain ⟨kv0, hkv0, ha⟩ := t4 kv1 hkv1
          refine ⟨kv0, hkv0, ?_⟩
          split
          · exact ha
          · exact ha

theorem applyAxis_spec {α} (nan : α) (ds r : Ds α) (name : String) (f : DimArray α → Except Err (DimArray α))
    (h : applyAxis nan ds name f = .ok r) : r.attrs = [] := by
  unfold applyAxis at h
  split at h
  · cases h
  · obtain ⟨vars, _, h⟩ := bind_ok h
    exact (fromVars_spec nan vars r h).1

theorem takeDs_spec {α} (ds r : Ds α) (name : String) (ix : Ix) (cfg : IndexCfg) (h : takeDs ds name ix cfg = .ok r) :
    r.attrs = ds.attrs ∧ ∀ kv ∈ r.vars, ∃ kv0 ∈ ds.vars, kv.2.attrs = kv0.2.attrs := by
  unfold takeDs at h
  split at h
  · cases h
  · dsimp only at h
    split at h
    all_goals
    obtain ⟨raw, _, h⟩ := bind_ok h
    obtain ⟨p, _, h⟩ := bind_ok h
    obtain ⟨out, hout, h⟩ := bind_ok h
    cases h
    refine ⟨rfl, ?_⟩
    have inv := foldlM_inv (fun acc : Ds α => ∀ kv ∈ acc.vars, ∃ kv0 ∈ ds.vars, kv.2.attrs = kv0.2.attrs) _ _ _ _ ?_ ?_ hout
    · exact inv
    · intro acc kv acc' hkv hacc hstep
      split at hstep
      all_goals
        obtain ⟨_, _, _, e4⟩ := setItem_spec _ _ _ _ hstep
        intro kv' hkv'
        rcases e4 kv' hkv' with hin | ⟨_, ha⟩
        · exact hacc kv' hin
        · exact ⟨kv, hkv, ha⟩
    · intro kv hkv
      exact absurd hkv List.not_mem_nil

end C16
end DimModel

/-
Helper lemmas for C10 (end-to-end theorems about transpose / swapaxes / rollaxis / squeeze / repeat /
newaxis / broadcast).  The statements a reader audits are at the end of `DimModel/Props/C10.lean`.
-/
import DimModel.Lib.Reshape
import DimModel.Spec.C10
import DimModel.Proofs.C06
namespace DimModel
open Lib
namespace C10

/-! ### permutations -/

theorem _root_.DimModel.isPerm_mem {p : List Nat} {n : Nat} (h : IsPerm p n) (d : Nat) (hd : d < n) : d ∈ p := by
  obtain ⟨hl, hn, hb⟩ := h
  -- a duplicate-free list of n numbers below n contains every number below n
  apply Classical.byContradiction
  intro hnot
  have hsub : p ⊆ (List.range n).erase d := by
    intro k hk
    have hkd : k ≠ d := fun e => hnot (e ▸ hk)
    exact (List.mem_erase_of_ne hkd).mpr (List.mem_range.mpr (hb k hk))
  have hle := List.Nodup.length_le_of_subset hn hsub
  rw [List.length_erase, if_pos (List.mem_range.mpr hd), List.length_range, hl] at hle
  omega

/-! ### list helpers -/

section ListHelpers
variable {β γ : Type}

theorem eraseDups_length_le [BEq β] : ∀ l : List β, l.eraseDups.length ≤ l.length
  | [] => by simp
  | a :: as => by
    rw [List.eraseDups_cons]
    have h1 := eraseDups_length_le (as.filter fun b => !b == a)
    have h2 : (as.filter fun b => !b == a).length ≤ as.length := List.length_filter_le _ _
    simp only [List.length_cons]
    omega
termination_by l => l.length
decreasing_by
  simp only [List.length_cons]
  have : (as.filter fun b => !b == a).length ≤ as.length := List.length_filter_le _ _
  omega

theorem eraseDups_length_eq_iff [DecidableEq β] : ∀ l : List β, l.eraseDups.length = l.length ↔ l.Nodup
  | [] => by simp
  | a :: as => by
    rw [List.eraseDups_cons, List.nodup_cons]
    have h1 := eraseDups_length_le (as.filter fun b => !b == a)
    have h2 : (as.filter fun b => !b == a).length ≤ as.length := List.length_filter_le _ _
    simp only [List.length_cons, Nat.add_right_cancel_iff]
    constructor
    · intro h
      have hfl : (as.filter fun b => !b == a).length = as.length := by omega
      have hfe : (as.filter fun b => !b == a) = as := List.length_filter_eq_length_iff.mp hfl |> fun hall =>
        List.filter_eq_self.mpr hall
      rw [hfe] at h
      refine ⟨?_, (eraseDups_length_eq_iff as).mp h⟩
      intro hmem
      have := List.filter_eq_self.mp hfe a hmem
      simp at this
    · rintro ⟨hna, hnd⟩
      have hfe : (as.filter fun b => !b == a) = as := by
        apply List.filter_eq_self.mpr
        intro b hb
        have : b ≠ a := fun e => hna (e ▸ hb)
        simpa using this
      rw [hfe]
      exact (eraseDups_length_eq_iff as).mpr hnd

/-- position of an image in a mapped list, for a map that is injective where it matters -/
theorem idxOf_map_inj [DecidableEq β] [DecidableEq γ] (f : β → γ) (d : β) :
    ∀ (p : List β), (∀ x ∈ p, f x = f d → x = d) → (p.map f).idxOf (f d) = p.idxOf d
  | [], _ => rfl
  | x :: p, h => by
    simp only [List.map_cons, List.idxOf_cons]
    by_cases hx : x = d
    · subst hx; simp
    · have hfx : ¬ f x = f d := fun e => hx (h x (List.mem_cons_self) e)
      have ih := idxOf_map_inj f d p (fun y hy => h y (List.mem_cons_of_mem _ hy))
      have e1 : (f x == f d) = false := by simpa using hfx
      have e2 : (x == d) = false := by simpa using hx
      rw [ih, e1, e2]

theorem getElem?_idxOf_of_mem [DecidableEq β] {l : List β} {x : β} (h : x ∈ l) : l[l.idxOf x]? = some x := by
  have hi := List.idxOf_lt_length_of_mem h
  rw [List.getElem?_eq_getElem hi, List.getElem_idxOf hi]

/-- in a duplicate-free list the position of the element at `d` is `d` -/
theorem idxOf_getElem_nodup [DecidableEq β] {l : List β} (hn : l.Nodup) (d : Nat) (hd : d < l.length) :
    l.idxOf l[d] = d := by
  have hm : l[d] ∈ l := List.getElem_mem hd
  have hi := List.idxOf_lt_length_of_mem hm
  exact (List.getElem_inj hn).mp (List.getElem_idxOf hi)

theorem idxOf_eq_of_getElem? [DecidableEq β] {l : List β} (hn : l.Nodup) {d : Nat} {x : β}
    (h : l[d]? = some x) : l.idxOf x = d ∧ x ∈ l ∧ d < l.length := by
  obtain ⟨hd, he⟩ := List.getElem?_eq_some_iff.mp h
  subst he
  exact ⟨idxOf_getElem_nodup hn d hd, List.getElem_mem hd, hd⟩

end ListHelpers

theorem map_eraseIdx' {α β} (f : α → β) :
    ∀ (l : List α) (i : Nat), (l.eraseIdx i).map f = (l.map f).eraseIdx i
  | [], _ => rfl
  | _ :: _, 0 => rfl
  | x :: l, i + 1 => by
    simp only [List.eraseIdx_cons_succ, List.map_cons, map_eraseIdx' f l i]

theorem map_insertIdx' {α β} (f : α → β) (a : α) :
    ∀ (l : List α) (i : Nat), (l.insertIdx i a).map f = (l.map f).insertIdx i (f a)
  | l, 0 => by simp only [List.insertIdx_zero, List.map_cons]
  | [], i + 1 => by simp only [List.insertIdx_succ_nil, List.map_nil]
  | x :: l, i + 1 => by
    simp only [List.insertIdx_succ_cons, List.map_cons, map_insertIdx' f a l i]

theorem insertIdx_eraseIdx_same {α} (a : α) :
    ∀ (l : List α) (i : Nat), i < l.length → (l.eraseIdx i).insertIdx i a = l.set i a
  | [], _, h => absurd h (Nat.not_lt_zero _)
  | x :: l, 0, _ => by simp only [List.eraseIdx_cons_zero, List.insertIdx_zero, List.set_cons_zero]
  | x :: l, i + 1, h => by
    have h' : i < l.length := by simpa using h
    simp only [List.eraseIdx_cons_succ, List.insertIdx_succ_cons, List.set_cons_succ,
      insertIdx_eraseIdx_same a l i h']

/-! ### `mapM` in `Except` -/

theorem exMapM_ok_of_forall {β γ : Type} (f : β → Except Err γ) (g : β → γ) :
    ∀ (l : List β), (∀ x ∈ l, f x = .ok (g x)) → l.mapM f = .ok (l.map g)
  | [], _ => rfl
  | x :: l, h => by
    rw [List.mapM_cons, h x List.mem_cons_self,
      exMapM_ok_of_forall f g l (fun y hy => h y (List.mem_cons_of_mem _ hy))]
    rfl

theorem exMapM_error_of_mem {β γ : Type} (f : β → Except Err γ) (e : Err) :
    ∀ (l : List β), (∀ x ∈ l, f x = .error e ∨ ∃ y, f x = .ok y) → (∃ x ∈ l, f x = .error e) →
      l.mapM f = .error e
  | [], _, h => by obtain ⟨x, hx, _⟩ := h; simp at hx
  | x :: l, hall, hex => by
    rw [List.mapM_cons]
    rcases hall x List.mem_cons_self with hx | ⟨y, hy⟩
    · rw [hx]; rfl
    · have hex' : ∃ z ∈ l, f z = .error e := by
        obtain ⟨z, hz, hze⟩ := hex
        rcases List.mem_cons.mp hz with rfl | hz'
        · rw [hy] at hze; cases hze
        · exact ⟨z, hz', hze⟩
      rw [hy, exMapM_error_of_mem f e l (fun z hz => hall z (List.mem_cons_of_mem _ hz)) hex']
      rfl

/-! ### axes / dims bookkeeping -/

theorem axis_getD_name {α} (a : DimArray α) (x : Nat) (hx : x < a.axes.length) :
    (a.axes.getD x default).name = a.dims[x]'(by simpa [DimArray.dims] using hx) := by
  rw [List.getD_eq_getElem?_getD, List.getElem?_eq_getElem hx]
  simp [DimArray.dims]

theorem axis_getD_eq {α} (a : DimArray α) (x : Nat) (hx : x < a.axes.length) :
    a.axes.getD x default = a.axes[x] := by
  rw [List.getD_eq_getElem?_getD, List.getElem?_eq_getElem hx]; rfl

theorem dims_length {α} (a : DimArray α) : a.dims.length = a.axes.length := by
  simp [DimArray.dims]

theorem isPerm_perm_range {p : List Nat} {n : Nat} (h : IsPerm p n) : p.Perm (List.range n) := by
  rw [List.perm_ext_iff_of_nodup h.2.1 List.nodup_range]
  intro k
  constructor
  · intro hk; exact List.mem_range.mpr (h.2.2 k hk)
  · intro hk; exact isPerm_mem h k (List.mem_range.mp hk)

theorem map_range_getD {β} (l : List β) (z : β) : (List.range l.length).map (fun k => l.getD k z) = l := by
  apply List.ext_getElem
  · simp
  · intro k h1 h2
    simp only [List.getElem_map, List.getElem_range]
    rw [List.getD_eq_getElem?_getD, List.getElem?_eq_getElem h2]; rfl

/-- the name map `k ↦ name of axis k` is injective on valid positions when names are distinct -/
theorem axis_name_inj {α} (a : DimArray α) (hn : a.dims.Nodup) (x d : Nat) (hx : x < a.axes.length)
    (hd : d < a.axes.length) (h : (a.axes.getD x default).name = (a.axes.getD d default).name) : x = d := by
  rw [axis_getD_name a x hx, axis_getD_name a d hd] at h
  exact (List.getElem_inj hn).mp h

/-! ### the core: `transposeBy` with a permutation -/

theorem transposeBy_axes_perm {α} (a : DimArray α) (p : List Nat) (hp : IsPerm p a.axes.length) :
    (transposeBy a p).axes.Perm a.axes := by
  have h1 : (transposeBy a p).axes = p.map (fun k => a.axes.getD k default) := rfl
  rw [h1]
  have h2 := (isPerm_perm_range hp).map (fun k => a.axes.getD k default)
  rw [map_range_getD] at h2
  exact h2

theorem transposeBy_wf {α} (a : DimArray α) (p : List Nat) (hp : IsPerm p a.axes.length) (hw : a.WF) :
    (transposeBy a p).WF := by
  obtain ⟨hs, hn, hne⟩ := hw
  refine ⟨?_, ?_, ?_⟩
  · simp only [transposeBy, NDArr.transpose, List.map_map]
    apply List.map_congr_left
    intro k hk
    have hk' : k < a.axes.length := hp.2.2 k hk
    simp only [Function.comp_apply, hs]
    rw [List.getD_eq_getElem?_getD, List.getD_eq_getElem?_getD, List.getElem?_map,
      List.getElem?_eq_getElem hk']
    rfl
  · have := (transposeBy_axes_perm a p hp).map (·.name)
    exact this.nodup_iff.mpr hn
  · intro ax hax
    exact hne ax ((transposeBy_axes_perm a p hp).mem_iff.mp hax)

theorem transposeBy_sameByName {α} (a : DimArray α) (p : List Nat) (hp : IsPerm p a.axes.length)
    (hs : a.vals.shape.length = a.axes.length) (hn : a.dims.Nodup) :
    SameByName a (transposeBy a p) := by
  intro j hj
  have hshape : (transposeBy a p).vals.shape = p.map (fun k => a.vals.shape.getD k 0) := rfl
  rw [hshape, inRange_iff_getD] at hj
  obtain ⟨hjl, hjk⟩ := hj
  simp only [List.length_map] at hjl hjk
  refine ⟨(List.range a.vals.shape.length).map (fun d => j.getD (p.idxOf d) 0), ?_, ?_, rfl⟩
  · rw [inRange_iff_getD]
    refine ⟨by simp, ?_⟩
    intro k hk
    have hk' : k < a.axes.length := hs ▸ hk
    have hmem : k ∈ p := isPerm_mem hp k hk'
    have hm : p.idxOf k < p.length := List.idxOf_lt_length_of_mem hmem
    have := hjk (p.idxOf k) hm
    rw [List.getD_eq_getElem?_getD (l := List.map _ p), List.getElem?_map, List.getElem?_eq_getElem hm,
      List.getElem_idxOf hm] at this
    rw [List.getD_eq_getElem?_getD (l := List.map _ _), List.getElem?_map,
      List.getElem?_eq_getElem (by simpa using hk), List.getElem_range]
    exact this
  · intro name hname
    have hd : a.dims.idxOf name < a.axes.length := by
      have := List.idxOf_lt_length_of_mem hname
      simpa [DimArray.dims] using this
    generalize hdd : a.dims.idxOf name = d at hd
    have hnm : (a.axes.getD d default).name = name := by
      rw [axis_getD_name a d hd]; subst hdd
      exact List.getElem_idxOf _
    have hmem : d ∈ p := isPerm_mem hp d hd
    have hm : p.idxOf d < p.length := List.idxOf_lt_length_of_mem hmem
    have hrd : (transposeBy a p).dims.idxOf name = p.idxOf d := by
      have : (transposeBy a p).dims = p.map (fun k => (a.axes.getD k default).name) := by
        simp only [transposeBy, DimArray.dims, List.map_map, Function.comp_def]
      rw [this, ← hnm]
      exact idxOf_map_inj (fun k => (a.axes.getD k default).name) d p
        (fun x hx hxe => axis_name_inj a hn x d (hp.2.2 x hx) hd hxe)
    unfold coordOf
    rw [hrd, hdd, List.getElem?_map, List.getElem?_eq_getElem (by simpa [hs] using hd),
      List.getElem_range, List.getElem?_eq_getElem (by omega)]
    simp only [Option.map_some, Option.some.injEq]
    rw [List.getD_eq_getElem?_getD, List.getElem?_eq_getElem (by omega)]; rfl

/-- ... and conversely every element of `a` is found in the transposed array at the same named coordinates -/
theorem transposeBy_sameByName_rev {α} (a : DimArray α) (p : List Nat) (hp : IsPerm p a.axes.length)
    (hs : a.vals.shape.length = a.axes.length) (hn : a.dims.Nodup) :
    SameByName (transposeBy a p) a := by
  intro i hi
  rw [inRange_iff_getD] at hi
  obtain ⟨hil, hik⟩ := hi
  have hget : ∀ m (hm : m < p.length), (p.map (fun k => i.getD k 0)).getD m 0 = i.getD p[m] 0 := by
    intro m hm
    rw [List.getD_eq_getElem?_getD, List.getElem?_map, List.getElem?_eq_getElem hm]; rfl
  refine ⟨p.map (fun k => i.getD k 0), ?_, ?_, ?_⟩
  · have hshape : (transposeBy a p).vals.shape = p.map (fun k => a.vals.shape.getD k 0) := rfl
    rw [hshape, inRange_iff_getD]
    refine ⟨by simp, ?_⟩
    intro m hm
    have hm' : m < p.length := by simpa using hm
    rw [hget m hm', List.getD_eq_getElem?_getD (l := List.map _ p), List.getElem?_map,
      List.getElem?_eq_getElem hm']
    exact hik p[m] (hs ▸ hp.2.2 _ (List.getElem_mem hm'))
  · intro name hname
    have hrdims : (transposeBy a p).dims = p.map (fun k => (a.axes.getD k default).name) := by
      simp only [transposeBy, DimArray.dims, List.map_map, Function.comp_def]
    rw [hrdims] at hname
    obtain ⟨k, hk, hke⟩ := List.mem_map.mp hname
    have hkl : k < a.axes.length := hp.2.2 k hk
    have hna : name ∈ a.dims := by
      rw [← hke, axis_getD_name a k hkl]; exact List.getElem_mem _
    have hd : a.dims.idxOf name < a.axes.length := by
      have := List.idxOf_lt_length_of_mem hna
      simpa [DimArray.dims] using this
    generalize hdd : a.dims.idxOf name = d at hd
    have hnm : (a.axes.getD d default).name = name := by
      rw [axis_getD_name a d hd]; subst hdd
      exact List.getElem_idxOf _
    have hmem : d ∈ p := isPerm_mem hp d hd
    have hm : p.idxOf d < p.length := List.idxOf_lt_length_of_mem hmem
    have hrd : (transposeBy a p).dims.idxOf name = p.idxOf d := by
      rw [hrdims, ← hnm]
      exact idxOf_map_inj (fun k => (a.axes.getD k default).name) d p
        (fun x hx hxe => axis_name_inj a hn x d (hp.2.2 x hx) hd hxe)
    unfold coordOf
    rw [hrd, hdd, List.getElem?_map, List.getElem?_eq_getElem hm, List.getElem_idxOf hm,
      List.getElem?_eq_getElem (by omega)]
    simp only [Option.map_some, Option.some.injEq]
    rw [List.getD_eq_getElem?_getD, List.getElem?_eq_getElem (by omega)]; rfl
  · show a.vals.get i = a.vals.get _
    congr 1
    have : ∀ d ∈ List.range a.vals.shape.length,
        (p.map (fun k => i.getD k 0)).getD (p.idxOf d) 0 = i.getD d 0 := by
      intro d hd
      have hd' : d < a.axes.length := hs ▸ List.mem_range.mp hd
      have hm : p.idxOf d < p.length := List.idxOf_lt_length_of_mem (isPerm_mem hp d hd')
      rw [hget _ hm, List.getElem_idxOf hm]
    rw [List.map_congr_left this, ← hil, map_range_getD]

theorem transposeBy_rearranged {α} (a : DimArray α) (p : List Nat) (hp : IsPerm p a.axes.length) (hw : a.WF) :
    Rearranged a (transposeBy a p) := by
  have hs : a.vals.shape.length = a.axes.length := by rw [hw.1]; simp
  exact ⟨transposeBy_axes_perm a p hp, transposeBy_wf a p hp hw, rfl, rfl,
    transposeBy_sameByName a p hp hs hw.2.1, transposeBy_sameByName_rev a p hp hs hw.2.1⟩

/-- an index is determined by its named coordinates -/
theorem coordOf_ext {dims : List String} (hn : dims.Nodup) {i i' : List Nat} (hi : i.length = dims.length)
    (hi' : i'.length = dims.length) (h : ∀ name ∈ dims, coordOf dims i name = coordOf dims i' name) : i = i' := by
  apply List.ext_getElem (hi.trans hi'.symm)
  intro k h1 h2
  have hk : k < dims.length := hi ▸ h1
  have := h dims[k] (List.getElem_mem hk)
  unfold coordOf at this
  rw [idxOf_getElem_nodup hn k hk, List.getElem?_eq_getElem h1, List.getElem?_eq_getElem h2] at this
  exact Option.some.inj this

/-- a named coordinate of an index of the right length exists for every dimension of the array -/
theorem coordOf_isSome {dims : List String} {i : List Nat} (hi : i.length = dims.length) {name : String}
    (h : name ∈ dims) : ∃ c, coordOf dims i name = some c := by
  have := List.idxOf_lt_length_of_mem h
  exact ⟨i[dims.idxOf name]'(by omega), List.getElem?_eq_getElem _⟩

/-! ### resolving keys, validating permutations -/

/-- the integer `_get_axes_info` returns for a key -/
def keyInt {α} (a : DimArray α) (k : DimKey) : Int :=
  match k with
  | .name s => (a.dims.idxOf s : Nat)
  | .pos i => i

/-- an integer key is a position `self.axes[idx]` accepts -/
def PosInRange {α} (a : DimArray α) (ks : List DimKey) : Prop :=
  ∀ i, DimKey.pos i ∈ ks → -(a.ndim : Int) ≤ i ∧ i < (a.ndim : Int)

theorem posInRange_if {n : Nat} {i : Int} {β : Type} (x y : β) (h : -(n : Int) ≤ i ∧ i < (n : Int)) :
    (if (i < -(n : Int) || i ≥ (n : Int)) = true then x else y) = y := by
  have h1 : ¬ (i < -(n : Int)) := by omega
  have h2 : ¬ (i ≥ (n : Int)) := by omega
  simp only [h1, h2, decide_false, Bool.or_self, Bool.false_eq_true, if_false]

theorem axesPositions_ok {α} (a : DimArray α) (ks : List DimKey)
    (h : ∀ s, DimKey.name s ∈ ks → s ∈ a.dims) (hp : PosInRange a ks) :
    axesPositions a ks = .ok (ks.map (keyInt a)) := by
  unfold axesPositions
  apply exMapM_ok_of_forall
  intro k hk
  cases k with
  | name s =>
    have := List.idxOf_lt_length_of_mem (h s hk)
    simp only [keyInt, this, if_true]
  | pos i => exact posInRange_if _ _ (hp i hk)

theorem axesPositions_error {α} (a : DimArray α) (ks : List DimKey)
    (h : ∃ s, DimKey.name s ∈ ks ∧ s ∉ a.dims) (hp : PosInRange a ks) : axesPositions a ks = .error .value := by
  unfold axesPositions
  apply exMapM_error_of_mem
  · intro k hk
    cases k with
    | name s =>
      by_cases hs : a.dims.idxOf s < a.dims.length
      · right; exact ⟨(a.dims.idxOf s : Nat), by simp only [hs, if_true]⟩
      · left; simp only [hs, if_false]
    | pos i => right; exact ⟨i, posInRange_if _ _ (hp i hk)⟩
  · obtain ⟨s, hs, hns⟩ := h
    refine ⟨_, hs, ?_⟩
    have : ¬ a.dims.idxOf s < a.dims.length := by
      intro hlt
      exact hns (List.idxOf_lt_length_iff.mp hlt)
    simp only [this, if_false]

theorem posInRange_names {α} (a : DimArray α) (names : List String) : PosInRange a (names.map DimKey.name) := by
  intro i hi
  obtain ⟨s, _, hs⟩ := List.mem_map.mp hi
  cases hs

theorem resolves_posInRange {α} (a : DimArray α) (k : DimKey) (d : Nat) (h : Resolves a k d) :
    ∀ i, k = .pos i → -(a.ndim : Int) ≤ i ∧ i < (a.ndim : Int) := by
  intro i hi
  subst hi
  obtain ⟨hd, hk⟩ := h
  have hk' : i = (d : Int) ∨ i = (d : Int) - (a.ndim : Int) := hk
  omega

theorem resolves_keyInt {α} (a : DimArray α) (hn : a.dims.Nodup) (k : DimKey) (d : Nat) (h : Resolves a k d) :
    (keyInt a k = (d : Int) ∨ keyInt a k = (d : Int) - (a.ndim : Int)) ∧
      (∀ s, k = .name s → s ∈ a.dims) := by
  obtain ⟨hd, hk⟩ := h
  cases k with
  | name s =>
    obtain ⟨h1, h2, _⟩ := idxOf_eq_of_getElem? hn hk
    refine ⟨Or.inl ?_, ?_⟩
    · simp only [keyInt, h1]
    · intro s' hs'; cases hs'; exact h2
  | pos i => exact ⟨hk, fun s hs => by cases hs⟩

/-- normalisation of a possibly negative position -/
def normInt (n : Nat) (i : Int) : Nat := (if i < 0 then i + (n : Int) else i).toNat

theorem normInt_of {n d : Nat} {i : Int} (hd : d < n) (h : i = (d : Int) ∨ i = (d : Int) - (n : Int)) :
    normInt n i = d ∧ ¬ ((if i < 0 then i + (n : Int) else i) < 0) ∧
      ¬ ((if i < 0 then i + (n : Int) else i) ≥ (n : Int)) := by
  unfold normInt
  rcases h with h | h
  · subst h
    have : ¬ ((d : Int) < 0) := by omega
    simp only [this, if_false]
    refine ⟨by omega, ?_, by omega⟩
    first | exact not_false | omega
  · subst h
    have : ((d : Int) - (n : Int) < 0) := by omega
    simp only [this, if_true]
    refine ⟨by omega, ?_, by omega⟩
    first | exact not_false | omega

theorem normPerm_ok (n : Nat) (ps : List Int) (q : List Nat) (hq : IsPerm q n) (hl : ps.length = q.length)
    (h : ∀ k (h1 : k < ps.length) (h2 : k < q.length),
      ps[k] = (q[k] : Int) ∨ ps[k] = (q[k] : Int) - (n : Int)) : normPerm n ps = .ok q := by
  have hall : ∀ i ∈ ps, (fun (i : Int) =>
      let j : Int := if i < 0 then i + (n : Int) else i
      if j < 0 || j ≥ (n : Int) then (.error .value : Except Err Nat) else .ok j.toNat) i
        = .ok (normInt n i) := by
    intro i hi
    obtain ⟨k, hk, rfl⟩ := List.getElem_of_mem hi
    have hk2 : k < q.length := hl ▸ hk
    have hqk : q[k] < n := hq.2.2 _ (List.getElem_mem hk2)
    obtain ⟨_, h2, h3⟩ := normInt_of hqk (h k hk hk2)
    simp only [h2, h3, decide_false, Bool.or_self, Bool.false_eq_true, if_false]
    rfl
  have hmap : ps.map (normInt n) = q := by
    apply List.ext_getElem
    · simpa using hl
    · intro k h1 h2
      have hk : k < ps.length := by simpa using h1
      rw [List.getElem_map]
      exact (normInt_of (hq.2.2 _ (List.getElem_mem h2)) (h k hk h2)).1
  have hmm := exMapM_ok_of_forall _ (normInt n) ps hall
  rw [hmap] at hmm
  unfold normPerm
  have hlen : (ps.length != n) = false := by simp [hl, hq.1]
  have hdup : (q.eraseDups.length != q.length) = false := by
    simp [(eraseDups_length_eq_iff q).mpr hq.2.1]
  simp only [hlen, Bool.false_eq_true, if_false, hmm, bind, Except.bind, hdup]
  rfl

/-! ### `transpose` end to end -/

theorem transpose_some_nonempty {α} (a : DimArray α) (ks : List DimKey) (hne : ks ≠ []) :
    transpose a (some ks) = (do
      let pi ← axesPositions a ks
      let p ← normPerm a.ndim pi
      pure (transposeBy a p)) := by
  have hE : ks.isEmpty = false := by cases ks with
    | nil => exact absurd rfl hne
    | cons _ _ => rfl
  simp only [transpose, hE, Bool.false_eq_true, if_false, Bool.and_false, bind, Except.bind, pure, Except.pure]

theorem transpose_keys_ok {α} (a : DimArray α) (hn : a.dims.Nodup) (ks : List DimKey) (hne : ks ≠ [])
    (q : List Nat) (hq : IsPerm q a.ndim) (hl : ks.length = q.length)
    (h : ∀ k (h1 : k < ks.length) (h2 : k < q.length), Resolves a ks[k] q[k]) :
    transpose a (some ks) = .ok (transposeBy a q) := by
  rw [transpose_some_nonempty a ks hne]
  have h1 : axesPositions a ks = .ok (ks.map (keyInt a)) := by
    apply axesPositions_ok
    · intro s hs
      obtain ⟨k, hk, hke⟩ := List.getElem_of_mem hs
      exact (resolves_keyInt a hn _ _ (h k hk (hl ▸ hk))).2 s hke
    · intro i hi
      obtain ⟨k, hk, hke⟩ := List.getElem_of_mem hi
      exact resolves_posInRange a _ _ (h k hk (hl ▸ hk)) i hke
  have h2 : normPerm a.ndim (ks.map (keyInt a)) = .ok q := by
    apply normPerm_ok _ _ _ hq (by simpa using hl)
    intro k hk1 hk2
    have hk : k < ks.length := by simpa using hk1
    rw [List.getElem_map]
    exact (resolves_keyInt a hn _ _ (h k hk hk2)).1
  simp only [h1, h2, bind, Except.bind, pure, Except.pure]

theorem normPerm_error_len (n : Nat) (ps : List Int) (h : ps.length ≠ n) : normPerm n ps = .error .value := by
  unfold normPerm
  have : (ps.length != n) = true := by simpa using h
  simp only [this, if_true]

/-- in-range non-negative positions with a repetition are rejected -/
theorem normPerm_error_dup (n : Nat) (q : List Nat) (hlt : ∀ k ∈ q, k < n) (hd : ¬ q.Nodup) :
    normPerm n (q.map (fun k : Nat => (k : Int))) = .error .value := by
  by_cases hlen : (q.map (fun k : Nat => (k : Int))).length = n
  · have hall : ∀ i ∈ q.map (fun k : Nat => (k : Int)), (fun (i : Int) =>
        let j : Int := if i < 0 then i + (n : Int) else i
        if j < 0 || j ≥ (n : Int) then (.error .value : Except Err Nat) else .ok j.toNat) i
          = .ok (normInt n i) := by
      intro i hi
      obtain ⟨k, hk, rfl⟩ := List.mem_map.mp hi
      obtain ⟨_, h2, h3⟩ := normInt_of (hlt k hk) (Or.inl rfl)
      simp only [h2, h3, decide_false, Bool.or_self, Bool.false_eq_true, if_false]
      rfl
    have hmap : (q.map (fun k : Nat => (k : Int))).map (normInt n) = q := by
      rw [List.map_map]
      conv => rhs; rw [← List.map_id q]
      apply List.map_congr_left
      intro k hk
      exact (normInt_of (hlt k hk) (Or.inl rfl)).1
    have hmm := exMapM_ok_of_forall _ (normInt n) _ hall
    rw [hmap] at hmm
    unfold normPerm
    have hl : ((q.map (fun k : Nat => (k : Int))).length != n) = false := by simp [hlen]
    have hdup : (q.eraseDups.length != q.length) = true := by
      have : ¬ q.eraseDups.length = q.length := fun e => hd ((eraseDups_length_eq_iff q).mp e)
      simpa using this
    simp only [hl, Bool.false_eq_true, if_false, hmm, bind, Except.bind, hdup, if_true]
  · exact normPerm_error_len n _ hlen

theorem nodup_map_idxOf {l names : List String} (hsub : ∀ s ∈ names, s ∈ l) :
    (names.map (fun s => l.idxOf s)).Nodup ↔ names.Nodup := by
  constructor
  · intro h
    exact List.Pairwise.of_map (fun s => l.idxOf s) (fun x y hxy he => hxy (he ▸ rfl)) h
  · intro h
    rw [List.Nodup, List.pairwise_map]
    refine List.Pairwise.imp_of_mem ?_ h
    intro x y hx hy hxy heq
    apply hxy
    have e1 := List.getElem_idxOf (List.idxOf_lt_length_of_mem (hsub x hx))
    have e2 := List.getElem_idxOf (List.idxOf_lt_length_of_mem (hsub y hy))
    rw [← e1, ← e2]
    simp only [heq]

/-- the positions of a rearrangement of the names form a permutation -/
theorem isPerm_map_idxOf {l names : List String} (hp : names.Perm l) (hn : l.Nodup) :
    IsPerm (names.map (fun s => l.idxOf s)) l.length := by
  have hsub : ∀ s ∈ names, s ∈ l := fun s hs => hp.mem_iff.mp hs
  refine ⟨by simp [hp.length_eq], (nodup_map_idxOf hsub).mpr (hp.nodup_iff.mpr hn), ?_⟩
  intro k hk
  obtain ⟨s, hs, rfl⟩ := List.mem_map.mp hk
  exact List.idxOf_lt_length_of_mem (hsub s hs)

/-- conversely: distinct names of the array, as many as it has dimensions, are a rearrangement of its dims -/
theorem perm_of_nodup_subset_length {l names : List String} (hn : l.Nodup) (hnn : names.Nodup)
    (hsub : ∀ s ∈ names, s ∈ l) (hlen : names.length = l.length) : names.Perm l := by
  rw [List.perm_ext_iff_of_nodup hnn hn]
  intro s
  refine ⟨hsub s, ?_⟩
  intro hs
  have hq : IsPerm (names.map (fun s => l.idxOf s)) l.length := by
    refine ⟨by simp [hlen], (nodup_map_idxOf hsub).mpr hnn, ?_⟩
    intro k hk
    obtain ⟨s, hs, rfl⟩ := List.mem_map.mp hk
    exact List.idxOf_lt_length_of_mem (hsub s hs)
  have hi := List.idxOf_lt_length_of_mem hs
  obtain ⟨t, ht, hte⟩ := List.mem_map.mp (isPerm_mem hq _ hi)
  have e1 := List.getElem_idxOf (List.idxOf_lt_length_of_mem (hsub t ht))
  have e2 := List.getElem_idxOf hi
  have : t = s := by rw [← e1, ← e2]; simp only [hte]
  exact this ▸ ht

theorem transpose_names_error {α} (a : DimArray α) (hn : a.dims.Nodup) (names : List String)
    (hne : names ≠ []) (h : ¬ names.Perm a.dims) :
    transpose a (some (names.map DimKey.name)) = .error .value := by
  rw [transpose_some_nonempty a _ (by simpa using hne)]
  by_cases hsub : ∀ s ∈ names, s ∈ a.dims
  · have h1 : axesPositions a (names.map DimKey.name) = .ok ((names.map DimKey.name).map (keyInt a)) := by
      apply axesPositions_ok _ _ _ (posInRange_names a names)
      intro s hs
      obtain ⟨t, ht, hte⟩ := List.mem_map.mp hs
      cases hte; exact hsub s ht
    have h2 : (names.map DimKey.name).map (keyInt a)
        = (names.map (fun s => a.dims.idxOf s)).map (fun k : Nat => (k : Int)) := by
      simp only [List.map_map]; rfl
    have h3 : normPerm a.ndim ((names.map (fun s => a.dims.idxOf s)).map (fun k : Nat => (k : Int))) = .error .value := by
      by_cases hlen : names.length = a.dims.length
      · apply normPerm_error_dup
        · intro k hk
          obtain ⟨s, hs, rfl⟩ := List.mem_map.mp hk
          have := List.idxOf_lt_length_of_mem (hsub s hs)
          simpa [DimArray.ndim, DimArray.dims] using this
        · intro hnd
          exact h (perm_of_nodup_subset_length hn ((nodup_map_idxOf hsub).mp hnd) hsub hlen)
      · apply normPerm_error_len
        simpa [DimArray.ndim, DimArray.dims] using hlen
    simp only [h1, h2, h3, bind, Except.bind]
  · have h1 : axesPositions a (names.map DimKey.name) = .error .value := by
      apply axesPositions_error _ _ _ (posInRange_names a names)
      simp only [Classical.not_forall] at hsub
      obtain ⟨s, hs, hns⟩ := hsub
      exact ⟨s, List.mem_map.mpr ⟨s, hs, rfl⟩, hns⟩
    simp only [h1, bind, Except.bind]

/-- transposing to a rearrangement of the names succeeds, gives those dims, and is a rearrangement -/
theorem transpose_names_ok {α} (a : DimArray α) (hw : a.WF) (names : List String) (hne : names ≠ [])
    (hperm : names.Perm a.dims) :
    ∃ r, transpose a (some (names.map DimKey.name)) = .ok r ∧ r.dims = names ∧ Rearranged a r := by
  have hn : a.dims.Nodup := hw.2.1
  have hq : IsPerm (names.map (fun s => a.dims.idxOf s)) a.ndim := by
    have := isPerm_map_idxOf hperm hn
    simpa [DimArray.ndim, DimArray.dims] using this
  have hsub : ∀ s ∈ names, s ∈ a.dims := fun s hs => hperm.mem_iff.mp hs
  refine ⟨transposeBy a (names.map (fun s => a.dims.idxOf s)), ?_, ?_, transposeBy_rearranged a _ hq hw⟩
  · apply transpose_keys_ok a hn _ (by simpa using hne) _ hq (by simp)
    intro k h1 h2
    have hk : k < names.length := by simpa using h1
    simp only [List.getElem_map]
    have hi := List.idxOf_lt_length_of_mem (hsub _ (List.getElem_mem hk))
    refine ⟨by simpa [DimArray.ndim, DimArray.dims] using hi, ?_⟩
    show a.dims[_]? = some _
    rw [List.getElem?_eq_getElem hi, List.getElem_idxOf hi]
  · have hd : (transposeBy a (names.map (fun s => a.dims.idxOf s))).dims
        = (names.map (fun s => a.dims.idxOf s)).map (fun k => (a.axes.getD k default).name) := by
      simp only [transposeBy, DimArray.dims, List.map_map, Function.comp_def]
    rw [hd, List.map_map]
    conv => rhs; rw [← List.map_id names]
    apply List.map_congr_left
    intro s hs
    have hi := List.idxOf_lt_length_of_mem (hsub s hs)
    have hi' : a.dims.idxOf s < a.axes.length := by simpa [DimArray.dims] using hi
    simp only [Function.comp_apply, id_eq]
    rw [axis_getD_name a _ hi']
    exact List.getElem_idxOf hi

theorem _root_.DimModel.Rearranged.refl {α} (a : DimArray α) (hw : a.WF) : Rearranged a a :=
  ⟨List.Perm.refl _, hw, rfl, rfl, fun j hj => ⟨j, hj, fun _ _ => rfl, rfl⟩,
    fun j hj => ⟨j, hj, fun _ _ => rfl, rfl⟩⟩

theorem transpose_nil_eq_none {α} (a : DimArray α) : transpose a (some []) = transpose a none := by
  unfold transpose
  simp only [List.isEmpty_nil, if_true]
  by_cases h2 : (a.ndim == 2) = true
  · simp only [h2, if_true]
  · by_cases h1 : (a.ndim == 1) = true
    · simp only [h2, h1, if_true, if_false, Bool.false_eq_true]
    · by_cases h0 : (a.ndim == 0) = true
      · simp only [h2, h1, h0, if_true, if_false, Bool.false_eq_true]
      · simp only [h2, h1, h0, if_false, Bool.false_eq_true]

/-! ### `swapaxes` end to end -/

/-- the exchange of `d1` and `d2` -/
def swapFn (d1 d2 i : Nat) : Nat := if i = d1 then d2 else if i = d2 then d1 else i

theorem swapFn_invol (d1 d2 i : Nat) : swapFn d1 d2 (swapFn d1 d2 i) = i := by
  unfold swapFn; grind

theorem swapFn_lt {n d1 d2 i : Nat} (h1 : d1 < n) (h2 : d2 < n) (hi : i < n) : swapFn d1 d2 i < n := by
  unfold swapFn; grind

theorem isPerm_swap {n d1 d2 : Nat} (h1 : d1 < n) (h2 : d2 < n) :
    IsPerm ((List.range n).map (swapFn d1 d2)) n := by
  refine ⟨by simp, ?_, ?_⟩
  · rw [List.Nodup, List.pairwise_map]
    refine List.Pairwise.imp ?_ (List.nodup_range (n := n))
    intro x y hxy he
    apply hxy
    rw [← swapFn_invol d1 d2 x, ← swapFn_invol d1 d2 y, he]
  · intro k hk
    obtain ⟨i, hi, rfl⟩ := List.mem_map.mp hk
    exact swapFn_lt h1 h2 (List.mem_range.mp hi)

def normI (n : Nat) (p : Int) : Int := if p < 0 then p + (n : Int) else p

def swapInts (n : Nat) (p1 p2 : Int) : List Int :=
  (List.range n).map fun (i : Nat) => if (i : Int) == p1 then p2 else if (i : Int) == p2 then p1 else (i : Int)

theorem swapaxes_eq {α} (a : DimArray α) (k1 k2 : DimKey) :
    swapaxes a k1 k2 = (axesPositions a [k1, k2]).bind (fun ps =>
      (normPerm a.ndim (swapInts a.ndim (normI a.ndim (ps.getD 0 0)) (normI a.ndim (ps.getD 1 0)))).bind
        (fun p => .ok (transposeBy a p))) := rfl

theorem normI_of {n d : Nat} {i : Int} (hd : d < n) (h : i = (d : Int) ∨ i = (d : Int) - (n : Int)) :
    normI n i = (d : Int) := by
  unfold normI
  rcases h with h | h <;> subst h <;> split <;> omega

theorem swapaxes_ok {α} (a : DimArray α) (hn : a.dims.Nodup) (k1 k2 : DimKey) (d1 d2 : Nat)
    (h1 : Resolves a k1 d1) (h2 : Resolves a k2 d2) :
    swapaxes a k1 k2 = .ok (transposeBy a ((List.range a.ndim).map (swapFn d1 d2))) := by
  rw [swapaxes_eq]
  obtain ⟨r1, m1⟩ := resolves_keyInt a hn k1 d1 h1
  obtain ⟨r2, m2⟩ := resolves_keyInt a hn k2 d2 h2
  have hap : axesPositions a [k1, k2] = .ok ([k1, k2].map (keyInt a)) := by
    apply axesPositions_ok
    · intro s hs
      simp only [List.mem_cons, List.not_mem_nil, or_false] at hs
      rcases hs with hs | hs
      · exact m1 s hs.symm
      · exact m2 s hs.symm
    · intro i hi
      simp only [List.mem_cons, List.not_mem_nil, or_false] at hi
      rcases hi with hi | hi
      · exact resolves_posInRange a _ _ h1 i hi.symm
      · exact resolves_posInRange a _ _ h2 i hi.symm
  rw [hap]
  simp only [Except.bind, List.map_cons, List.map_nil, List.getD_cons_zero, List.getD_cons_succ]
  rw [normI_of h1.1 r1, normI_of h2.1 r2]
  have hq := isPerm_swap h1.1 h2.1 (d1 := d1) (d2 := d2)
  have hnp : normPerm a.ndim (swapInts a.ndim d1 d2) = .ok ((List.range a.ndim).map (swapFn d1 d2)) := by
    apply normPerm_ok _ _ _ hq (by simp [swapInts])
    intro k hk1 hk2
    left
    simp only [swapInts, List.getElem_map, List.getElem_range, swapFn]
    have : k < a.ndim := by simpa [swapInts] using hk1
    by_cases c1 : k = d1
    · subst c1; simp
    · by_cases c2 : k = d2
      · subst c2
        have : ¬ ((k : Int) = (d1 : Int)) := by omega
        simp [c1, this]
      · have e1 : ¬ ((k : Int) = (d1 : Int)) := by omega
        have e2 : ¬ ((k : Int) = (d2 : Int)) := by omega
        simp [c1, c2, e1, e2]
  rw [hnp]

theorem transposeBy_axes_getElem? {α} (a : DimArray α) (q : List Nat) (k : Nat) :
    (transposeBy a q).axes[k]? = q[k]?.map (fun m => a.axes.getD m default) := by
  simp only [transposeBy, List.getElem?_map]

/-! ### `rollaxis` end to end -/

theorem filter_ne_range (n d : Nat) (hd : d < n) :
    (List.range n).filter (· != d) = (List.range n).eraseIdx d := by
  rw [← List.Nodup.erase_eq_filter List.nodup_range d]
  apply List.erase_eq_eraseIdx_of_idxOf
  have := idxOf_getElem_nodup (List.nodup_range (n := n)) d (by simpa using hd)
  simpa using this

theorem rollPerm_ok (n : Nat) (axis start : Int) (d s : Nat) (hd : d < n)
    (hax : axis = (d : Int) ∨ axis = (d : Int) - (n : Int))
    (hst : (start = (s : Int) ∧ s ≤ n) ∨ (start = (s : Int) - (n : Int) ∧ s < n)) :
    rollPerm n axis start = .ok (((List.range n).eraseIdx d).insertIdx (rollDest d s) d) := by
  have e1 : (if axis < 0 then axis + (n : Int) else axis) = (d : Int) := normI_of hd hax
  have e2 : (if start < 0 then start + (n : Int) else start) = (s : Int) := by
    rcases hst with ⟨h, _⟩ | ⟨h, _⟩ <;> subst h <;> split <;> omega
  have hs : s ≤ n := by rcases hst with ⟨_, h⟩ | ⟨_, h⟩ <;> omega
  have c1 : (decide ((d : Int) < 0) || decide ((d : Int) ≥ (n : Int))) = false := by
    simp only [Bool.or_eq_false_iff, decide_eq_false_iff_not]; omega
  have c2 : (decide ((s : Int) < 0) || decide ((s : Int) > (n : Int))) = false := by
    simp only [Bool.or_eq_false_iff, decide_eq_false_iff_not]; omega
  have e3 : (if (s : Int) > (d : Int) then (s : Int) - 1 else (s : Int)).toNat = rollDest d s := by
    unfold rollDest
    by_cases c : s > d
    · have : (s : Int) > (d : Int) := by omega
      simp only [this, c, if_true]; omega
    · have : ¬ (s : Int) > (d : Int) := by omega
      simp only [this, c, if_false]; omega
  unfold rollPerm
  simp only [e1, e2, c1, c2, Bool.false_eq_true, if_false, e3, Int.toNat_natCast]
  rw [filter_ne_range n d hd]

theorem rollaxis_eq {α} (a : DimArray α) (k : DimKey) (start : Int) :
    rollaxis a k start = (axesPositions a [k]).bind (fun ps =>
      (rollPerm a.ndim (ps.getD 0 0) start).bind (fun p => .ok (transposeBy a p))) := rfl

theorem rollaxis_ok {α} (a : DimArray α) (hn : a.dims.Nodup) (k : DimKey) (start : Int) (d s : Nat)
    (hk : Resolves a k d)
    (hst : (start = (s : Int) ∧ s ≤ a.ndim) ∨ (start = (s : Int) - (a.ndim : Int) ∧ s < a.ndim)) :
    rollaxis a k start
      = .ok (transposeBy a (((List.range a.ndim).eraseIdx d).insertIdx (rollDest d s) d)) := by
  rw [rollaxis_eq]
  obtain ⟨r1, m1⟩ := resolves_keyInt a hn k d hk
  have hap : axesPositions a [k] = .ok ([k].map (keyInt a)) := by
    apply axesPositions_ok
    · intro s hs
      simp only [List.mem_cons, List.not_mem_nil, or_false] at hs
      exact m1 s hs.symm
    · intro i hi
      simp only [List.mem_cons, List.not_mem_nil, or_false] at hi
      exact resolves_posInRange a _ _ hk i hi.symm
  rw [hap]
  simp only [Except.bind, List.map_cons, List.map_nil, List.getD_cons_zero]
  rw [rollPerm_ok a.ndim _ start d s hk.1 r1 hst]

theorem rollDest_le {n d s : Nat} (hd : d < n) (hs : s ≤ n) : rollDest d s ≤ n - 1 := by
  unfold rollDest; split <;> omega

/-- the axes list after a roll: the rolled axis is taken out and put back at its destination -/
theorem roll_axes {α} (a : DimArray α) (d t : Nat) (_hd : d < a.axes.length) :
    (transposeBy a (((List.range a.axes.length).eraseIdx d).insertIdx t d)).axes
      = (a.axes.eraseIdx d).insertIdx t (a.axes.getD d default) := by
  have h1 : ∀ q, (transposeBy a q).axes = q.map (fun k => a.axes.getD k default) := fun _ => rfl
  rw [h1]
  have hmi : ∀ (l : List Nat) (i : Nat) (x : Nat) (f : Nat → Axis),
      (l.insertIdx i x).map f = (l.map f).insertIdx i (f x) := by
    intro l i x f
    induction l generalizing i with
    | nil => cases i <;> simp
    | cons y l ih => cases i with
      | zero => simp
      | succ i => simp [List.insertIdx_succ_cons, ih]
  have hme : ∀ (l : List Nat) (i : Nat) (f : Nat → Axis), (l.eraseIdx i).map f = (l.map f).eraseIdx i := by
    intro l i f
    induction l generalizing i with
    | nil => simp
    | cons y l ih => cases i with
      | zero => simp
      | succ i => simp [ih]
  rw [hmi, hme, map_range_getD]

end C10
end DimModel

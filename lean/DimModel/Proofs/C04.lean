/-
C04 - helper lemmas for the end-to-end theorems on `operation` (round 2): `a op b` for two arrays over the
same dimensions.  Built on the `align` theorems of Props/C06.
-/
import DimModel.Lib.Operation
import DimModel.Props.C06
namespace DimModel
open Lib

/-! ### generic list / `Except` facts -/

/-- a `mapM` whose every step returns its argument returns the list -/
theorem exMapM_id_of {ε β : Type} (f : β → Except ε β) : ∀ l : List β,
    (∀ x ∈ l, f x = .ok x) → l.mapM f = .ok l
  | [], _ => by simp [pure, Except.pure]
  | a :: l, h => by
    have h1 := h a (by simp)
    have h2 := exMapM_id_of f l (fun x hx => h x (by simp [hx]))
    simp [List.mapM_cons, h1, h2, bind, Except.bind, pure, Except.pure]

/-- with distinct names, an axis of a list is determined by its name -/
theorem axis_eq_of_name : ∀ (l : List Axis), (l.map (·.name)).Nodup →
    ∀ x ∈ l, ∀ y ∈ l, x.name = y.name → x = y
  | [], _, x, hx, _, _, _ => by simp at hx
  | z :: l, hn, x, hx, y, hy, hxy => by
    simp only [List.map_cons, List.nodup_cons] at hn
    rcases List.mem_cons.mp hx with rfl | hx' <;> rcases List.mem_cons.mp hy with rfl | hy'
    · rfl
    · exact absurd (List.mem_map.mpr ⟨y, hy', hxy.symm⟩) hn.1
    · exact absurd (List.mem_map.mpr ⟨x, hx', hxy⟩) hn.1
    · exact axis_eq_of_name l hn.2 x hx' y hy' hxy

theorem axes_getD_eq_getElem (l : List Axis) (k : Nat) (hk : k < l.length) : l.getD k default = l[k] := by
  simp [List.getD_eq_getElem?_getD, hk]

theorem map_labels_length (l : List Axis) :
    l.map (·.labels.length) = (l.map (·.labels)).map (·.length) := by
  rw [List.map_map]; rfl

/-! ### broadcasting of equal shapes -/

theorem bcastShape_self : ∀ s : List Nat, bcastShape s s = some s
  | [] => rfl
  | x :: xs => by simp [bcastShape, bcastShape_self xs]

/-- inside the shape, the index read in an operand of that shape is the index itself (a singleton dimension is
read at 0, which is the only index it has) -/
theorem bcastIdx_inRange : ∀ (s j : List Nat), InRange s j → bcastIdx s j = j
  | [], [], _ => rfl
  | [], _ :: _, h => by simp [InRange] at h
  | _ :: _, [], h => by simp [InRange] at h
  | n :: s, i :: is, h => by
    simp only [InRange] at h
    have ih := bcastIdx_inRange s is h.2
    unfold bcastIdx at ih ⊢
    simp only [List.zip_cons_cons, List.map_cons, ih, List.cons.injEq, and_true]
    split
    · rename_i h1
      have : n = 1 := by simpa using h1
      omega
    · rfl

/-! ### `get_dims` of two arrays over the same dimensions -/

theorem getDims_fold_fresh : ∀ (l : List Axis) (pre : List String), (pre ++ l.map (·.name)).Nodup →
    l.foldl (fun ds ax => if ds.contains ax.name then ds else ds ++ [ax.name]) pre = pre ++ l.map (·.name)
  | [], pre, _ => by simp
  | x :: xs, pre, hnd => by
    simp only [List.foldl_cons, List.map_cons]
    have hx : x.name ∉ pre := by
      intro hm
      exact (List.nodup_append.mp hnd).2.2 x.name hm x.name (by simp) rfl
    have hc : pre.contains x.name = false := by simpa using hx
    simp only [hc, Bool.false_eq_true, if_false]
    have := getDims_fold_fresh xs (pre ++ [x.name]) (by simpa [List.append_assoc] using hnd)
    simpa [List.append_assoc] using this

theorem getDims_fold_known : ∀ (l : List Axis) (dims : List String), (∀ ax ∈ l, ax.name ∈ dims) →
    l.foldl (fun ds ax => if ds.contains ax.name then ds else ds ++ [ax.name]) dims = dims
  | [], _, _ => rfl
  | x :: xs, dims, h => by
    have hc : dims.contains x.name = true := by simpa using h x (by simp)
    simp only [List.foldl_cons, hc, if_true]
    exact getDims_fold_known xs dims (fun ax hax => h ax (by simp [hax]))

/-- two arrays that list the same (distinct) dimensions: these are the dimensions of the pair -/
theorem getDims_pair_same (a b : List Axis) (hn : (a.map (·.name)).Nodup)
    (hd : a.map (·.name) = b.map (·.name)) : getDims [a, b] = a.map (·.name) := by
  unfold getDims
  simp only [List.foldl_cons, List.foldl_nil]
  rw [getDims_fold_fresh a [] (by simpa using hn)]
  simp only [List.nil_append]
  apply getDims_fold_known
  intro ax hax
  rw [hd]
  exact List.mem_map.mpr ⟨ax, hax, rfl⟩

/-! ### `align` returns plain (not grouped) axes when it is given plain axes -/

theorem mapIdx_replace_mem {β : Type} (l : List β) (pos : Nat) (g : β → β) (P : β → Prop)
    (hl : ∀ x ∈ l, P x) (hg : ∀ x ∈ l, P (g x)) :
    ∀ y ∈ l.mapIdx (fun i x => if i == pos then g x else x), P y := by
  intro y hy
  obtain ⟨i, hi, rfl⟩ := List.getElem_of_mem hy
  simp only [List.getElem_mapIdx]
  split
  · exact hg _ (List.getElem_mem _)
  · exact hl _ (List.getElem_mem _)

/-- re-indexing keeps the axes plain -/
theorem reindex_members {α : Type} (a : DimArray α) (axis : DimKey) (newL : List Label)
    (newKind fillKind : Kind) (fill : α) (raiseErr : Bool) (method : Option Side) (r : DimArray α)
    (hm : ∀ ax ∈ a.axes, ax.members = [])
    (hr : reindexAxis a axis newL newKind fill fillKind raiseErr method = .ok r) :
    ∀ ax ∈ r.axes, ax.members = [] := by
  unfold reindexAxis at hr
  simp only [bind, Except.bind] at hr
  split at hr
  · cases hr
  · split at hr
    · cases hr
    · split at hr
      · split at hr
        · cases hr
        · simp only [pure, Except.pure] at hr
          cases hr
          exact mapIdx_replace_mem a.axes _ (fun _ => _) (fun ax => ax.members = []) hm (fun _ _ => rfl)
      · simp only [pure, Except.pure] at hr
        cases hr
        simp only [takeAxisPos]
        exact mapIdx_replace_mem a.axes _ _ (fun ax => ax.members = []) hm (fun _ _ => rfl)

theorem alignStep_members {α : Type} (nan : α) (c : Axis) (o r : DimArray α)
    (hm : ∀ ax ∈ o.axes, ax.members = []) (hr : alignStep nan c o = .ok r) :
    ∀ ax ∈ r.axes, ax.members = [] := by
  unfold alignStep at hr
  split at hr
  · simp only [pure, Except.pure, Except.ok.injEq] at hr
    subst hr; exact hm
  · split at hr
    · simp only [pure, Except.pure, Except.ok.injEq] at hr
      subst hr; exact hm
    · exact reindex_members o _ _ _ _ _ _ _ r hm hr

theorem alignFold_members {α : Type} (nan : α) : ∀ (cs : List Axis) (o out : DimArray α),
    (∀ ax ∈ o.axes, ax.members = []) →
    cs.foldlM (fun o c => alignStep nan c o) o = .ok out → ∀ ax ∈ out.axes, ax.members = []
  | [], o, out, hm, h => by
    simp only [List.foldlM_nil, pure, Except.pure, Except.ok.injEq] at h
    subst h; exact hm
  | c :: cs, o, out, hm, h => by
    rw [List.foldlM_cons] at h
    cases h1 : alignStep nan c o with
    | error e => simp [h1, bind, Except.bind] at h
    | ok o1 =>
      simp only [h1, bind, Except.bind] at h
      exact alignFold_members nan cs o1 out (alignStep_members nan c o o1 hm h1) h

/-- `align` (not strict) of arrays with plain axes returns arrays with plain axes -/
theorem align_members {α : Type} (nan : α) (arrays outs : List (DimArray α)) (join : Join)
    (axis : Option String) (sort : Bool)
    (hm : ∀ a ∈ arrays, ∀ ax ∈ a.axes, ax.members = [])
    (h : align nan arrays join axis sort false = .ok outs) :
    ∀ o ∈ outs, ∀ ax ∈ o.axes, ax.members = [] := by
  rw [align_eq] at h
  cases hg : getAlignedAxes (arrays.map (·.axes)) join axis sort false with
  | error e => simp [hg, bind, Except.bind] at h
  | ok commons =>
    simp only [hg, bind, Except.bind] at h
    obtain ⟨hol, hos⟩ := exFoldlM_mapM_ok (alignStep nan) commons arrays outs h
    intro o ho
    obtain ⟨i, hi, rfl⟩ := List.getElem_of_mem ho
    have hi' : i < arrays.length := hol ▸ hi
    exact alignFold_members nan commons arrays[i] outs[i] (hm _ (List.getElem_mem hi')) (hos i hi' hi)

/-! ### the aligned operands of `a op b` -/

/-- an aligned array whose every axis carries the labels of the common axis of its name, the common axes being
listed in the array's own order of dimensions: its label lists are the common label lists -/
theorem labels_eq_commons (axes oaxes commons : List Axis)
    (hnames : commons.map (·.name) = axes.map (·.name)) (hnd : (axes.map (·.name)).Nodup)
    (hlen : oaxes.length = axes.length)
    (h : ∀ k, k < axes.length → ∃ c ∈ commons, c.name = (axes.getD k default).name ∧
        (oaxes.getD k default).labels = c.labels) :
    oaxes.map (·.labels) = commons.map (·.labels) := by
  have hcl : commons.length = axes.length := by simpa using congrArg List.length hnames
  apply List.ext_getElem
  · simp [hlen, hcl]
  · intro k h1 h2
    simp only [List.length_map] at h1 h2
    have hk : k < axes.length := hlen ▸ h1
    obtain ⟨c, hc, hcn, hcl2⟩ := h k hk
    have hck : commons[k].name = axes[k].name := by
      have := congrArg (fun l => l[k]?) hnames
      simpa [h2, hk] using this
    have hcc : c = commons[k] :=
      axis_eq_of_name commons (hnames ▸ hnd) c hc _ (List.getElem_mem h2)
        (by rw [hcn, hck, axes_getD_eq_getElem _ _ hk])
    simp only [List.getElem_map]
    rw [← hcc, ← hcl2, axes_getD_eq_getElem _ _ h1]

/-- THE ALIGNED OPERANDS of two arrays over the same dimensions: `align` succeeds, returns two arrays over these
dimensions whose axes carry the common labels (the common axes come in the operands' order of dimensions), plain
axes, and values moved to the coordinates of the same labels -/
theorem align_pair_same_dims {α : Type} (nan : α) (a b : DimArray α)
    (ha : AlignInput a) (hb : AlignInput b) (hd : a.dims = b.dims) :
    ∃ (o1 o2 : DimArray α) (commons : List Axis),
      align nan [a, b] .outer none false false = .ok [o1, o2] ∧
      getAlignedAxes [a.axes, b.axes] .outer none false false = .ok commons ∧
      commons.map (·.name) = a.dims ∧
      o1.dims = a.dims ∧ o2.dims = b.dims ∧
      o1.axes.map (·.labels) = commons.map (·.labels) ∧
      o2.axes.map (·.labels) = commons.map (·.labels) ∧
      ValsInv nan a o1 ∧ ValsInv nan b o2 ∧
      (∀ ax ∈ o1.axes, ax.members = []) ∧ (∀ ax ∈ o2.axes, ax.members = []) := by
  have hin : ∀ x ∈ [a, b], AlignInput x := by
    intro x hx
    simp only [List.mem_cons, List.not_mem_nil, or_false] at hx
    rcases hx with rfl | rfl
    · exact ha
    · exact hb
  obtain ⟨outs, hal⟩ := align_succeeds nan [a, b] .outer none false hin (fun d hd => by cases hd)
  obtain ⟨hl, commons, hg, hs⟩ := align_all_spec nan [a, b] outs .outer false hin hal
  have hmem := align_members nan [a, b] outs .outer none false
    (fun x hx ax hax => ((hin x hx).2.2 ax hax).2.2.1) hal
  have hl2 : outs.length = 2 := hl
  obtain ⟨o1, o2, rfl⟩ : ∃ o1 o2, outs = [o1, o2] := by
    match outs, hl2 with
    | [o1, o2], _ => exact ⟨o1, o2, rfl⟩
  · have hnames : commons.map (·.name) = a.dims := by
      rw [alignedAxes_all_names [a, b] .outer false hin commons hg]
      exact getDims_pair_same a.axes b.axes ha.1 hd
    obtain ⟨hd1, _, hk1, hsh1, hv1⟩ := hs 0 (by simp) (by simp)
    obtain ⟨hd2, _, hk2, hsh2, hv2⟩ := hs 1 (by simp) (by simp)
    simp only [List.getElem_cons_zero, List.getElem_cons_succ] at hd1 hk1 hsh1 hv1 hd2 hk2 hsh2 hv2
    have hlen1 : o1.axes.length = a.axes.length := by
      simpa [DimArray.dims] using congrArg List.length hd1
    have hlen2 : o2.axes.length = b.axes.length := by
      simpa [DimArray.dims] using congrArg List.length hd2
    refine ⟨o1, o2, commons, hal, hg, hnames, hd1, hd2, ?_, ?_, ⟨hsh1, hv1⟩, ⟨hsh2, hv2⟩,
      hmem o1 (by simp), hmem o2 (by simp)⟩
    · exact labels_eq_commons a.axes o1.axes commons hnames ha.1 hlen1 hk1
    · exact labels_eq_commons b.axes o2.axes commons (hnames.trans hd) hb.1 hlen2 hk2

/-! ### `operation` on the aligned operands -/

/-- `align_dims` returns two arrays that list the same dimensions as they are -/
theorem alignDims_same {α : Type} (o1 o2 : DimArray α) (h : o1.dims = o2.dims) :
    alignDims [o1, o2] = .ok [o1, o2] := by
  unfold alignDims
  have : ([o1, o2].map (·.dims)).eraseDups.length ≤ 1 := by
    simp [h, List.eraseDups_cons]
  simp only [this, if_true]
  rfl

theorem isNoneAxis_false (ax : Axis) (h : Label.none ∉ ax.labels) : isNoneAxis ax = false := by
  unfold isNoneAxis
  cases hl : ax.labels with
  | nil => rfl
  | cons x xs =>
    rw [hl] at h
    have : x ≠ Label.none := fun he => h (by simp [he])
    simpa using this

/-- `operation` once `align` has returned two arrays over the same dimensions, of the same shape, without
placeholder (`None`) axes: the axes of the first aligned operand, `f` cell by cell, no metadata -/
theorem operation_of_aligned {α : Type} (nan : α) (f : α → α → α) (a b o1 o2 : DimArray α)
    (hal : align nan [a, b] .outer none false false = .ok [o1, o2])
    (hd : o1.dims = o2.dims)
    (hnone : ∀ ax ∈ o1.axes, Label.none ∉ ax.labels)
    (hsize : o1.axes.map (·.size) = o1.vals.shape)
    (hshape : o2.vals.shape = o1.vals.shape) :
    operation nan f a b = .ok
      ({ axes := o1.axes,
         vals := { shape := o1.vals.shape,
                   get := fun j => f (o1.vals.get (bcastIdx o1.vals.shape j)) (o2.vals.get (bcastIdx o1.vals.shape j)) },
         vkind := a.vkind, attrs := [] }, o1.vkind, o2.vkind) := by
  unfold operation
  simp only [hal, alignDims_same o1 o2 hd, bind, Except.bind, List.getD_cons_zero, List.getD_cons_succ]
  rw [exMapM_id_of _ o1.axes (fun x hx => by simp only [isNoneAxis_false x (hnone x hx)]; rfl)]
  simp only [zipBroadcast, hshape, bcastShape_self]
  simp only [hsize, bne_self_eq_false, Bool.false_eq_true, if_false, List.map_id', pure, Except.pure]

theorem alignInput_pair {α : Type} (a b : DimArray α) (ha : AlignInput a) (hb : AlignInput b) :
    ∀ x ∈ [a, b], AlignInput x := by
  intro x hx
  simp only [List.mem_cons, List.not_mem_nil, or_false] at hx
  rcases hx with rfl | rfl
  · exact ha
  · exact hb

/-- THE COMMON LABELS of two arrays over the same dimensions, dimension by dimension: each label once, the union
of the two operands' labels on that dimension -/
theorem commons_pair_labels {α : Type} (a b : DimArray α) (ha : AlignInput a) (hb : AlignInput b)
    (hd : a.dims = b.dims) (commons : List Axis)
    (hg : getAlignedAxes [a.axes, b.axes] .outer none false false = .ok commons)
    (hnames : commons.map (·.name) = a.dims) (k : Nat) (hk : k < a.axes.length) (v : Label) :
    (commons.getD k default).labels.Nodup ∧
    (v ∈ (commons.getD k default).labels ↔
      v ∈ (a.axes.getD k default).labels ∨ v ∈ (b.axes.getD k default).labels) := by
  have hin := alignInput_pair a b ha hb
  have hcl : commons.length = a.axes.length := by
    simpa [DimArray.dims] using congrArg List.length hnames
  have hbl : b.axes.length = a.axes.length := by
    simpa [DimArray.dims] using (congrArg List.length hd).symm
  have hkc : k < commons.length := hcl ▸ hk
  have hkb : k < b.axes.length := hbl ▸ hk
  have hck : commons[k].name = a.axes[k].name := by
    have := congrArg (fun l => l[k]?) hnames
    simpa [DimArray.dims, hkc, hk] using this
  have hbk : b.axes[k].name = a.axes[k].name := by
    have := congrArg (fun l => l[k]?) hd
    simpa [DimArray.dims, hkb, hk] using this.symm
  rw [axes_getD_eq_getElem _ _ hkc, axes_getD_eq_getElem _ _ hk, axes_getD_eq_getElem _ _ hkb]
  obtain ⟨hn, hout, _⟩ := (align_all_labels [a, b] .outer false hin commons hg).2.2 commons[k]
    (List.getElem_mem hkc) v
  refine ⟨hn, ?_⟩
  rw [hout rfl]
  constructor
  · rintro ⟨x, hx, ax, hax, hname, hv⟩
    simp only [List.mem_cons, List.not_mem_nil, or_false] at hx
    rcases hx with rfl | rfl
    · left
      rw [← axis_eq_of_name x.axes ha.1 ax hax _ (List.getElem_mem hk) (by rw [hname, hck])]
      exact hv
    · right
      rw [← axis_eq_of_name x.axes hb.1 ax hax _ (List.getElem_mem hkb) (by rw [hname, hck, hbk])]
      exact hv
  · rintro (hv | hv)
    · exact ⟨a, by simp, a.axes[k], List.getElem_mem hk, hck.symm, hv⟩
    · exact ⟨b, by simp, b.axes[k], List.getElem_mem hkb, by rw [hbk, hck], hv⟩

/-- `a op b` for two arrays over the same dimensions, in terms of the aligned operands -/
theorem operation_same_dims_core {α : Type} (nan : α) (f : α → α → α) (a b : DimArray α)
    (ha : AlignInput a) (hb : AlignInput b) (hd : a.dims = b.dims) :
    ∃ (o1 o2 : DimArray α) (commons : List Axis),
      getAlignedAxes [a.axes, b.axes] .outer none false false = .ok commons ∧
      commons.map (·.name) = a.dims ∧
      o1.dims = a.dims ∧
      o1.axes.map (·.labels) = commons.map (·.labels) ∧
      o2.axes.map (·.labels) = commons.map (·.labels) ∧
      ValsInv nan a o1 ∧ ValsInv nan b o2 ∧
      operation nan f a b = .ok
        ({ axes := o1.axes,
           vals := { shape := o1.vals.shape,
                     get := fun j => f (o1.vals.get (bcastIdx o1.vals.shape j))
                       (o2.vals.get (bcastIdx o1.vals.shape j)) },
           vkind := a.vkind, attrs := [] }, o1.vkind, o2.vkind) := by
  obtain ⟨o1, o2, commons, hal, hg, hnames, hd1, hd2, hl1, hl2, hv1, hv2, hm1, _⟩ :=
    align_pair_same_dims nan a b ha hb hd
  have hin := alignInput_pair a b ha hb
  refine ⟨o1, o2, commons, hg, hnames, hd1, hl1, hl2, hv1, hv2, ?_⟩
  apply operation_of_aligned nan f a b o1 o2 hal (hd1.trans (hd.trans hd2.symm))
  · intro ax hax hnone
    have : ax.labels ∈ commons.map (·.labels) := hl1 ▸ List.mem_map.mpr ⟨ax, hax, rfl⟩
    obtain ⟨c, hc, hcl⟩ := List.mem_map.mp this
    have hcl' : c.labels = ax.labels := hcl
    obtain ⟨_, hout, _⟩ := (align_all_labels [a, b] .outer false hin commons hg).2.2 c hc Label.none
    obtain ⟨x, hx, ax', hax', _, hv⟩ := (hout rfl).mp (hcl' ▸ hnone)
    exact ((hin x hx).2.2 ax' hax').2.1 hv
  · rw [hv1.1]
    apply List.map_congr_left
    intro ax hax
    simp [Axis.size, hm1 ax hax]
  · have e : ∀ o : DimArray α, o.axes.map (·.labels.length) = (o.axes.map (·.labels)).map (·.length) := by
      intro o; rw [List.map_map]; rfl
    rw [hv2.1, hv1.1, e o2, e o1, hl1, hl2]

end DimModel

/-
Helper lemmas for C14, round 5: Dataset reductions (`_apply_dimarray_axis`), arithmetic (`_binary_op`),
`stack_ds` / `concatenate_ds`, `copy` - all of them re-assemble a Dataset with `__setitem__`.
-/
import DimModel.Proofs.C14
import DimModel.Props.C06
import DimModel.Props.C12
import DimModel.Props.C04
namespace DimModel
namespace DSV
open Lib

variable {α : Type}

/-! ### generic monadic list lemmas -/

/-- two lists related element by element -/
inductive Rel2 {β γ : Type} (R : β → γ → Prop) : List β → List γ → Prop
  | nil : Rel2 R [] []
  | cons {a b l l'} : R a b → Rel2 R l l' → Rel2 R (a :: l) (b :: l')

theorem Rel2.mem_left {β γ : Type} {R : β → γ → Prop} {l : List β} {l' : List γ} (h : Rel2 R l l') :
    ∀ a ∈ l, ∃ b ∈ l', R a b := by
  induction h with
  | nil => intro a ha; cases ha
  | cons hr _ ih =>
    intro x hx
    rcases List.mem_cons.1 hx with rfl | hx
    · exact ⟨_, List.mem_cons_self, hr⟩
    · obtain ⟨y, hy, hxy⟩ := ih x hx
      exact ⟨y, List.mem_cons_of_mem _ hy, hxy⟩

theorem Rel2.mem_right {β γ : Type} {R : β → γ → Prop} {l : List β} {l' : List γ} (h : Rel2 R l l') :
    ∀ b ∈ l', ∃ a ∈ l, R a b := by
  induction h with
  | nil => intro a ha; cases ha
  | cons hr _ ih =>
    intro x hx
    rcases List.mem_cons.1 hx with rfl | hx
    · exact ⟨_, List.mem_cons_self, hr⟩
    · obtain ⟨y, hy, hxy⟩ := ih x hx
      exact ⟨y, List.mem_cons_of_mem _ hy, hxy⟩

theorem Rel2.map_eq {β γ δ : Type} {R : β → γ → Prop} {l : List β} {l' : List γ} (f : β → δ) (g : γ → δ)
    (h : Rel2 R l l') (hR : ∀ a b, R a b → f a = g b) : l.map f = l'.map g := by
  induction h with
  | nil => rfl
  | cons hr _ ih => simp only [List.map_cons, hR _ _ hr, ih]

theorem Rel2.imp {β γ : Type} {R S : β → γ → Prop} {l : List β} {l' : List γ} (h : Rel2 R l l')
    (hRS : ∀ a b, a ∈ l → b ∈ l' → R a b → S a b) : Rel2 S l l' := by
  induction h with
  | nil => exact .nil
  | cons hr _ ih =>
    exact .cons (hRS _ _ List.mem_cons_self List.mem_cons_self hr)
      (ih fun a b ha hb => hRS a b (List.mem_cons_of_mem _ ha) (List.mem_cons_of_mem _ hb))

theorem Rel2.eq_of {β : Type} {l l' : List β} (h : Rel2 (fun a b => a = b) l l') : l = l' := by
  induction h with
  | nil => rfl
  | cons hr _ ih => rw [hr, ih]

theorem mapM_rel2 {ε β γ : Type} (f : β → Except ε γ) : ∀ (l : List β) (out : List γ),
    l.mapM f = .ok out → Rel2 (fun a b => f a = .ok b) l out
  | [], out, h => by
    simp only [List.mapM_nil, pure, Except.pure, Except.ok.injEq] at h
    subst h; exact .nil
  | a :: l, out, h => by
    obtain ⟨b, bs, hb, hl, rfl⟩ := exMapM_cons_ok f a l out h
    exact .cons hb (mapM_rel2 f l bs hl)

/-- a loop "compute a value, then store it" is a `mapM` of the computations followed by the loop of the stores -/
theorem foldlM_compute {β γ σ : Type} (g : β → Except Err γ) (step : σ → γ → Except Err σ) :
    ∀ (l : List β) (init out : σ),
    l.foldlM (fun acc x => g x >>= fun r => step acc r) init = .ok out →
    ∃ ys, l.mapM g = .ok ys ∧ ys.foldlM step init = .ok out
  | [], init, out, h => ⟨[], rfl, h⟩
  | x :: l, init, out, h => by
    rw [List.foldlM_cons] at h
    cases hg : g x with
    | error e => simp [hg, bind, Except.bind] at h
    | ok r =>
      simp only [hg, bind, Except.bind] at h
      cases hs : step init r with
      | error e => simp [hs] at h
      | ok s =>
        simp only [hs] at h
        obtain ⟨ys, h1, h2⟩ := foldlM_compute g step l s out h
        refine ⟨r :: ys, ?_, ?_⟩
        · rw [List.mapM_cons, hg, h1]; rfl
        · rw [List.foldlM_cons, hs]; exact h2

theorem zip_fst_snd {β γ : Type} (l : List (β × γ)) : (l.map (·.1)).zip (l.map (·.2)) = l := by
  induction l with
  | nil => rfl
  | cons a l ih => simp only [List.map_cons, List.zip_cons_cons, ih]

/-! ### `__setitem__` loops: the Dataset that a run of assignments builds -/

/-- the stored variable `r` is the value `v`: same dimension names, labels, values, value kind, metadata (what
`__setitem__` replaces is the *identity* of the axis objects: the stored variable refers to the Dataset's axes,
which carry the same name and labels - `Axis.__eq__` - but possibly another label kind / axis metadata) -/
def SameVar (r v : DimArray α) : Prop :=
  r.dims = v.dims ∧ r.axes.map (·.labels) = v.axes.map (·.labels) ∧ r.vals = v.vals ∧ r.vkind = v.vkind ∧
  r.attrs = v.attrs

/-- invariant of a Dataset under construction -/
def Built (ds : Ds α) : Prop :=
  OwnAxes ds ∧ ds.dims.Nodup ∧ ∀ e ∈ ds.axes, ∃ kv ∈ ds.vars, e.name ∈ kv.2.dims

theorem Built.shared {ds : Ds α} (h : Built ds) : SharedAxes ds :=
  ⟨fun kv hkv ax hax => ⟨ax, h.1 kv hkv ax hax, rfl, rfl⟩, h.2.2, h.2.1⟩

theorem built_empty : Built ({} : Ds α) := by
  refine ⟨?_, ?_, ?_⟩
  · intro kv hkv; cases hkv
  · simp [Ds.dims]
  · intro e he; cases he

theorem setItem_step (ds out : Ds α) (k : String) (v : DimArray α) (hb : Built ds) (hk : k ∉ ds.keys)
    (hv : v.dims.Nodup) (h : setItem ds k v = .ok out) :
    Built out ∧ out.attrs = ds.attrs ∧
    out.dims = v.axes.foldl (fun ds ax => if ds.contains ax.name then ds else ds ++ [ax.name]) ds.dims ∧
    (∀ e ∈ out.axes, e ∈ ds.axes ∨ e ∈ v.axes) ∧ (∀ e ∈ ds.axes, e ∈ out.axes) ∧
    ∃ r, out.vars = ds.vars ++ [(k, r)] ∧ SameVar r v := by
  obtain ⟨hown, hd, huse⟩ := hb
  unfold setItem at h
  split at h
  · cases h
  · rename_i hany
    have hacc : ∀ ax ∈ v.axes, ∀ e, ds.axes.find? (fun a => a.name == ax.name) = some e → axisEq ax e = true := by
      intro ax hax e hfind
      simp only [List.any_eq_true, not_exists, not_and] at hany
      have := hany ax hax
      rw [hfind] at this
      simpa using this
    have hlook := setItem_lookup ds v hd hv hacc
    have hf : ds.vars.filter (·.1 != k) = ds.vars := by
      rw [List.filter_eq_self]
      intro kv hkv
      have : kv.1 ≠ k := fun he => hk (he ▸ List.mem_map_of_mem hkv)
      simpa using this
    cases h
    rw [hf]
    have hdims : ∀ (r : DimArray α), r.axes = v.axes.map (fun ax =>
        ((ds.axes ++ v.axes.filter fun ax => !(ds.dims.contains ax.name)).find? (·.name == ax.name)).getD ax) →
        r.dims = v.dims := by
      intro r hr
      simp only [DimArray.dims, hr, List.map_map]
      apply List.map_congr_left
      intro a ha
      obtain ⟨e, hfind, _, hn, _⟩ := hlook a ha
      simp only [Function.comp, hfind, Option.getD_some, hn]
    refine ⟨⟨?_, setItem_axes_nodup ds v hd hv, ?_⟩, rfl, ?_, ?_, ?_, ?_⟩
    · intro kv hkv ax hax
      simp only [List.mem_append, List.mem_singleton] at hkv
      rcases hkv with hkv | rfl
      · exact List.mem_append_left _ (hown kv hkv ax hax)
      · simp only [List.mem_map] at hax
        obtain ⟨a, ha, rfl⟩ := hax
        obtain ⟨e, hfind, hmem, _, _⟩ := hlook a ha
        rw [hfind]
        exact hmem
    · intro e he
      rcases List.mem_append.1 he with he | he
      · obtain ⟨kv, hkv, hm⟩ := huse e he
        exact ⟨kv, List.mem_append_left _ hkv, hm⟩
      · refine ⟨_, List.mem_append_right _ (List.mem_singleton.2 rfl), ?_⟩
        rw [hdims _ rfl]
        exact List.mem_map_of_mem (List.mem_filter.1 he).1
    · show (ds.axes ++ v.axes.filter fun ax => !(ds.dims.contains ax.name)).map (·.name) = _
      rw [getDims_fold_filter v.axes ds.dims hv, List.map_append, List.filter_map]
      rfl
    · intro e he
      rcases List.mem_append.1 he with he | he
      · exact Or.inl he
      · exact Or.inr (List.mem_filter.1 he).1
    · intro e he
      exact List.mem_append_left _ he
    · refine ⟨_, rfl, hdims _ rfl, ?_, rfl, rfl, rfl⟩
      show List.map _ (List.map _ _) = _
      simp only [List.map_map]
      apply List.map_congr_left
      intro a ha
      obtain ⟨e, hfind, _, _, hl⟩ := hlook a ha
      simp only [Function.comp, hfind, Option.getD_some, hl]

/-- `get_dims` continued from the dimensions `dims` -/
def dimsFold (dims : List String) (arrays : List (List Axis)) : List String :=
  arrays.foldl (fun dims axes => axes.foldl (fun ds ax => if ds.contains ax.name then ds else ds ++ [ax.name]) dims) dims

theorem dimsFold_nil_eq (arrays : List (List Axis)) : dimsFold [] arrays = getDims arrays := rfl

/-- a run of `__setitem__` with new, distinct keys: the variables are appended in order, each stored value is the
assigned value (`SameVar`), the result again has shared (own) axes, its dimensions are listed in the order of first
appearance, every axis object comes from the start or from one of the values -/
theorem storeAll_spec : ∀ (kvs : List (String × DimArray α)) (ds out : Ds α), Built ds →
    (kvs.map (·.1)).Nodup → (∀ kv ∈ kvs, kv.1 ∉ ds.keys) → (∀ kv ∈ kvs, kv.2.dims.Nodup) →
    kvs.foldlM (fun ds kv => setItem ds kv.1 kv.2) ds = .ok out →
    Built out ∧ out.attrs = ds.attrs ∧ out.dims = dimsFold ds.dims (kvs.map (·.2.axes)) ∧
    (∀ e ∈ out.axes, e ∈ ds.axes ∨ ∃ kv ∈ kvs, e ∈ kv.2.axes) ∧
    ∃ rs, out.vars = ds.vars ++ rs ∧ Rel2 (fun r kv => r.1 = kv.1 ∧ SameVar r.2 kv.2) rs kvs
  | [], ds, out, hb, _, _, _, h => by
    simp only [List.foldlM_nil, pure, Except.pure, Except.ok.injEq] at h
    subst h
    exact ⟨hb, rfl, rfl, fun e he => Or.inl he, [], by simp, .nil⟩
  | kv :: kvs, ds, out, hb, hk, hnew, hnd, h => by
    rw [List.foldlM_cons] at h
    cases hs : setItem ds kv.1 kv.2 with
    | error e => simp [hs, bind, Except.bind] at h
    | ok mid =>
      simp only [hs, bind, Except.bind] at h
      obtain ⟨hb', hat, hdm, hax, _, r, hvars, hsame⟩ :=
        setItem_step ds mid kv.1 kv.2 hb (hnew kv List.mem_cons_self) (hnd kv List.mem_cons_self) hs
      simp only [List.map_cons, List.nodup_cons] at hk
      have hnew' : ∀ kv' ∈ kvs, kv'.1 ∉ mid.keys := by
        intro kv' hkv' hmem
        simp only [Ds.keys, hvars, List.map_append, List.map_cons, List.map_nil, List.mem_append,
          List.mem_singleton] at hmem
        rcases hmem with hmem | hmem
        · exact hnew kv' (List.mem_cons_of_mem _ hkv') hmem
        · exact hk.1 (hmem ▸ List.mem_map_of_mem hkv')
      obtain ⟨hb'', hat', hdm', hax', rs, hvars', hrel⟩ :=
        storeAll_spec kvs mid out hb' hk.2 hnew' (fun kv' hkv' => hnd kv' (List.mem_cons_of_mem _ hkv')) h
      refine ⟨hb'', hat'.trans hat, ?_, ?_, (kv.1, r) :: rs, ?_, .cons ⟨rfl, hsame⟩ hrel⟩
      · rw [hdm', hdm]; rfl
      · intro e he
        rcases hax' e he with h1 | ⟨kv', hkv', h1⟩
        · rcases hax e h1 with h2 | h2
          · exact Or.inl h2
          · exact Or.inr ⟨kv, List.mem_cons_self, h2⟩
        · exact Or.inr ⟨kv', List.mem_cons_of_mem _ hkv', h1⟩
      · rw [hvars', hvars]; simp

/-- the Dataset a run of `__setitem__` builds from scratch -/
theorem build_spec (kvs : List (String × DimArray α)) (out : Ds α) (hk : (kvs.map (·.1)).Nodup)
    (hnd : ∀ kv ∈ kvs, kv.2.dims.Nodup) (h : kvs.foldlM (fun ds kv => setItem ds kv.1 kv.2) {} = .ok out) :
    out.keys = kvs.map (·.1) ∧ out.attrs = [] ∧ SharedAxes out ∧ OwnAxes out ∧
    out.dims = getDims (kvs.map (·.2.axes)) ∧ (∀ e ∈ out.axes, ∃ kv ∈ kvs, e ∈ kv.2.axes) ∧
    Rel2 (fun r kv => r.1 = kv.1 ∧ SameVar r.2 kv.2) out.vars kvs := by
  obtain ⟨hb, hat, hdm, hax, rs, hvars, hrel⟩ :=
    storeAll_spec kvs {} out built_empty hk (fun kv _ hm => by cases hm) hnd h
  have hv : out.vars = rs := by rw [hvars]; rfl
  refine ⟨?_, hat, hb.shared, hb.1, hdm, ?_, hv ▸ hrel⟩
  · rw [Ds.keys, hv]
    exact hrel.map_eq _ _ fun a b hab => hab.1
  · intro e he
    rcases hax e he with h1 | h1
    · cases h1
    · exact h1

/-! ### `align` of arrays that already share their axes is the identity -/

theorem commonAxis_same (e : Axis) (he : e.members = []) : ∀ (l : List Axis), l ≠ [] → (∀ x ∈ l, x = e) →
    commonAxis .outer l = some e
  | [], h, _ => absurd rfl h
  | [x], _, hx => by rw [hx x List.mem_cons_self]; rfl
  | x :: y :: l, _, hx => by
    have ih := commonAxis_same e he (y :: l) (by simp) (fun z hz => hx z (List.mem_cons_of_mem _ hz))
    have hxe := hx x List.mem_cons_self
    subst hxe
    simp only [commonAxis, ih]
    split
    · rfl
    · have : union x x = x := by
        cases x with
        | mk name labels kind attrs members =>
          simp only at he
          subst he
          simp [union, getCastKind]
      rw [this]

/-- the Dataset's axis called `d` -/
def axisOf (U : List Axis) (d : String) : Axis := (U.find? (fun a => a.name == d)).getD default

theorem getAlignedAxes_own (U : List Axis) (hnd : (U.map (·.name)).Nodup) (hpl : ∀ e ∈ U, e.members = [])
    (arrays : List (List Axis)) (hsub : ∀ axes ∈ arrays, ∀ ax ∈ axes, ax ∈ U) :
    getAlignedAxes arrays .outer none false false = .ok ((getDims arrays).map (axisOf U)) := by
  unfold getAlignedAxes
  apply mapM_ok_map
  intro d hd
  obtain ⟨axes, haxes, ax, hax, hn⟩ := (getDims_mem arrays d).1 hd
  have haxU := hsub axes haxes ax hax
  have hof : axisOf U d = ax := by
    unfold axisOf
    rw [find?_name hnd haxU hn]
    rfl
  have hall : ∀ x ∈ arrays.filterMap (fun axes => axes.find? (·.name == d)), x = ax := by
    intro x hx
    obtain ⟨axes', haxes', hf⟩ := List.mem_filterMap.1 hx
    obtain ⟨hm, hxn⟩ := find?_name_some hf
    exact mem_name_inj hnd (hsub axes' haxes' x hm) haxU (hxn.trans hn.symm)
  have hne : arrays.filterMap (fun axes => axes.find? (·.name == d)) ≠ [] := by
    intro hnil
    have hsome : (axes.find? (·.name == d)).isSome = true := by
      rw [List.find?_isSome]
      exact ⟨ax, hax, by simpa using hn⟩
    obtain ⟨y, hy⟩ := Option.isSome_iff_exists.1 hsome
    have : y ∈ arrays.filterMap (fun axes => axes.find? (·.name == d)) := List.mem_filterMap.2 ⟨axes, haxes, hy⟩
    rw [hnil] at this
    cases this
  simp only [Bool.false_and, Bool.false_eq_true, if_false]
  rw [commonAxis_same ax (hpl ax haxU) _ hne hall, hof]
  rfl

theorem alignStep_own (nan : α) (U : List Axis) (hnd : (U.map (·.name)).Nodup) (c : Axis) (hc : c ∈ U)
    (o : DimArray α) (ho : ∀ ax ∈ o.axes, ax ∈ U) : alignStep nan c o = .ok o := by
  unfold alignStep
  split
  · rfl
  · rename_i oax hf
    obtain ⟨hm, hn⟩ := find?_name_some hf
    have : oax = c := mem_name_inj hnd (ho oax hm) hc hn
    subst this
    simp [axisEq, pure, Except.pure]

/-- `align_axes` of values that all carry the axes of one Dataset: nothing to do -/
theorem align_own (nan : α) (U : List Axis) (hnd : (U.map (·.name)).Nodup) (hpl : ∀ e ∈ U, e.members = [])
    (arrays : List (DimArray α)) (hsub : ∀ a ∈ arrays, ∀ ax ∈ a.axes, ax ∈ U) :
    align nan arrays .outer none false false = .ok arrays := by
  rw [align_eq, getAlignedAxes_own U hnd hpl (arrays.map (·.axes))
    (by
      intro axes haxes
      obtain ⟨a, ha, rfl⟩ := List.mem_map.1 haxes
      exact hsub a ha)]
  simp only [bind, Except.bind]
  have hmem : ∀ c ∈ (getDims (arrays.map (·.axes))).map (axisOf U), c ∈ U := by
    intro c hc
    obtain ⟨d, hd, rfl⟩ := List.mem_map.1 hc
    obtain ⟨axes, haxes, ax, hax, hn⟩ := (getDims_mem _ d).1 hd
    obtain ⟨a, ha, rfl⟩ := List.mem_map.1 haxes
    unfold axisOf
    rw [find?_name hnd (hsub a ha ax hax) hn]
    exact hsub a ha ax hax
  generalize (getDims (arrays.map (·.axes))).map (axisOf U) = cs at hmem
  induction cs with
  | nil => rfl
  | cons c cs ih =>
    rw [List.foldlM_cons]
    have : arrays.mapM (alignStep nan c) = .ok arrays := by
      have := mapM_ok_map (alignStep nan c) id arrays
        (fun o ho => alignStep_own nan U hnd c (hmem c List.mem_cons_self) o (hsub o ho))
      simpa using this
    rw [this]
    exact ih (fun c' hc' => hmem c' (List.mem_cons_of_mem _ hc'))

/-- two lists of axes taken from a list with distinct names and listing the same names are the same list -/
theorem axes_eq_of_names (U : List Axis) (hnd : (U.map (·.name)).Nodup) : ∀ (l l' : List Axis),
    (∀ a ∈ l, a ∈ U) → (∀ a ∈ l', a ∈ U) → l.map (·.name) = l'.map (·.name) → l = l'
  | [], [], _, _, _ => rfl
  | [], _ :: _, _, _, h => by simp at h
  | _ :: _, [], _, _, h => by simp at h
  | a :: l, b :: l', h1, h2, h => by
    simp only [List.map_cons, List.cons.injEq] at h
    rw [mem_name_inj hnd (h1 a List.mem_cons_self) (h2 b List.mem_cons_self) h.1,
      axes_eq_of_names U hnd l l' (fun x hx => h1 x (List.mem_cons_of_mem _ hx))
        (fun x hx => h2 x (List.mem_cons_of_mem _ hx)) h.2]

theorem sameVar_own (U : List Axis) (hnd : (U.map (·.name)).Nodup) (r v : DimArray α) (hs : SameVar r v)
    (hr : ∀ a ∈ r.axes, a ∈ U) (hv : ∀ a ∈ v.axes, a ∈ U) : r = v := by
  obtain ⟨h1, _, h3, h4, h5⟩ := hs
  have hax := axes_eq_of_names U hnd r.axes v.axes hr hv h1
  cases r; cases v
  simp only at hax h3 h4 h5
  subst hax h3 h4 h5
  rfl

/-- `Dataset(dict)` of values that carry the axes of one Dataset: the values are stored as they are, the axes are
those in use, in the order of first appearance -/
theorem fromVars_own (nan : α) (U : List Axis) (hnd : (U.map (·.name)).Nodup) (hpl : ∀ e ∈ U, e.members = [])
    (vars : List (String × DimArray α)) (out : Ds α) (hsub : ∀ kv ∈ vars, ∀ ax ∈ kv.2.axes, ax ∈ U)
    (hk : (vars.map (·.1)).Nodup) (hndv : ∀ kv ∈ vars, kv.2.dims.Nodup) (h : fromVars nan vars = .ok out) :
    out.vars = vars ∧ out.attrs = [] ∧ SharedAxes out ∧ OwnAxes out ∧
    out.dims = getDims (vars.map (·.2.axes)) ∧ (∀ e ∈ out.axes, e ∈ U) := by
  unfold fromVars at h
  rw [align_own nan U hnd hpl (vars.map (·.2)) (by
    intro a ha
    obtain ⟨kv, hkv, rfl⟩ := List.mem_map.1 ha
    exact hsub kv hkv)] at h
  simp only [bind, Except.bind, zip_fst_snd] at h
  obtain ⟨_, hat, hsh, hown, hdm, hax, hrel⟩ := build_spec vars out hk hndv h
  have haxU : ∀ e ∈ out.axes, e ∈ U := by
    intro e he
    obtain ⟨kv, hkv, hm⟩ := hax e he
    exact hsub kv hkv e hm
  refine ⟨?_, hat, hsh, hown, hdm, haxU⟩
  apply Rel2.eq_of
  apply hrel.imp
  intro r kv hr hkv hrk
  have : r.2 = kv.2 := sameVar_own U hnd r.2 kv.2 hrk.2
    (fun a ha => haxU a (hown r hr a ha)) (hsub kv hkv)
  exact Prod.ext hrk.1 this

/-! ### `_apply_dimarray_axis` -/

/-- what `_apply_dimarray_axis` does with one variable -/
def applyVar (name : String) (f : DimArray α → Except Err (DimArray α)) (kv : String × DimArray α) :
    Except Err (String × DimArray α) :=
  if kv.2.dims.contains name then do let r ← f kv.2; pure (kv.1, r) else pure kv

theorem applyAxis_eq (nan : α) (ds : Ds α) (name : String) (f : DimArray α → Except Err (DimArray α)) :
    applyAxis nan ds name f =
      if !(ds.dims.contains name) then .error .value
      else ds.vars.mapM (applyVar name f) >>= fromVars nan := rfl

theorem applyVar_spec (name : String) (f : DimArray α → Except Err (DimArray α)) (kv kv' : String × DimArray α)
    (h : applyVar name f kv = .ok kv') :
    kv'.1 = kv.1 ∧ (name ∈ kv.2.dims → f kv.2 = .ok kv'.2) ∧ (name ∉ kv.2.dims → kv'.2 = kv.2) := by
  unfold applyVar at h
  by_cases hmem : name ∈ kv.2.dims
  · have hc' : kv.2.dims.contains name = true := by simpa using hmem
    rw [if_pos hc'] at h
    cases hfv : f kv.2 with
    | error e => rw [hfv] at h; cases h
    | ok r =>
      rw [hfv] at h
      cases h
      exact ⟨rfl, fun _ => rfl, fun hn => absurd hmem hn⟩
  · have hc' : ¬ kv.2.dims.contains name = true := by simpa using hmem
    rw [if_neg hc'] at h
    cases h
    exact ⟨rfl, fun hn => absurd hn hmem, fun _ => rfl⟩

/-- `_apply_dimarray_axis` on a Dataset with own axes, for a method `f` whose result carries (some of) the axes of
its argument: variable by variable, in order -/
theorem applyAxis_closed (nan : α) (ds out : Ds α) (name : String) (f : DimArray α → Except Err (DimArray α))
    (hown : OwnAxes ds) (hd : ds.dims.Nodup) (hpl : ∀ e ∈ ds.axes, e.members = []) (hk : ds.keys.Nodup)
    (hvd : ∀ kv ∈ ds.vars, kv.2.dims.Nodup)
    (hf : ∀ kv ∈ ds.vars, name ∈ kv.2.dims → ∀ r, f kv.2 = .ok r → (∀ ax ∈ r.axes, ax ∈ kv.2.axes) ∧ r.dims.Nodup)
    (h : applyAxis nan ds name f = .ok out) :
    name ∈ ds.dims ∧ out.attrs = [] ∧ SharedAxes out ∧ OwnAxes out ∧
    out.dims = getDims (out.vars.map (·.2.axes)) ∧ (∀ e ∈ out.axes, e ∈ ds.axes) ∧
    Rel2 (fun kv kv' => kv'.1 = kv.1 ∧ (name ∈ kv.2.dims → f kv.2 = .ok kv'.2) ∧ (name ∉ kv.2.dims → kv'.2 = kv.2))
      ds.vars out.vars := by
  rw [applyAxis_eq] at h
  by_cases hin : name ∈ ds.dims
  · have hc : (!(ds.dims.contains name)) = false := by simpa using hin
    rw [hc, if_neg (by simp)] at h
    cases hm : ds.vars.mapM (applyVar name f) with
    | error e => rw [hm] at h; cases h
    | ok vars' =>
      rw [hm] at h
      replace h : fromVars nan vars' = .ok out := h
      have hrel : Rel2 (fun kv kv' => kv'.1 = kv.1 ∧ (name ∈ kv.2.dims → f kv.2 = .ok kv'.2) ∧
          (name ∉ kv.2.dims → kv'.2 = kv.2)) ds.vars vars' :=
        (mapM_rel2 _ _ _ hm).imp fun kv kv' _ _ hr => applyVar_spec name f kv kv' hr
      have hfacts : ∀ kv' ∈ vars', (∀ ax ∈ kv'.2.axes, ax ∈ ds.axes) ∧ kv'.2.dims.Nodup := by
        intro kv' hkv'
        obtain ⟨kv, hkv, _, h1, h2⟩ := hrel.mem_right kv' hkv'
        by_cases hmem : name ∈ kv.2.dims
        · obtain ⟨ha, hn⟩ := hf kv hkv hmem kv'.2 (h1 hmem)
          exact ⟨fun ax hax => hown kv hkv ax (ha ax hax), hn⟩
        · rw [h2 hmem]
          exact ⟨hown kv hkv, hvd kv hkv⟩
      have hkeys : vars'.map (·.1) = ds.keys := (hrel.map_eq (·.1) (·.1) fun a b hab => hab.1.symm).symm
      obtain ⟨hv, hat, hsh, hown', hdm, hax⟩ := fromVars_own nan ds.axes hd hpl vars' out
        (fun kv' hkv' => (hfacts kv' hkv').1) (hkeys ▸ hk) (fun kv' hkv' => (hfacts kv' hkv').2) h
      exact ⟨hin, hat, hsh, hown', hv ▸ hdm, hax, hv ▸ hrel⟩
  · have hc : (!(ds.dims.contains name)) = true := by simpa using hin
    rw [hc, if_pos rfl] at h
    cases h

/-! ### success of the re-assembly -/

theorem setItem_sub_ok (U : List Axis) (hnd : (U.map (·.name)).Nodup) (ds : Ds α) (k : String) (v : DimArray α)
    (hds : ∀ e ∈ ds.axes, e ∈ U) (hv : ∀ ax ∈ v.axes, ax ∈ U) :
    ∃ out, setItem ds k v = .ok out ∧ ∀ e ∈ out.axes, e ∈ U := by
  unfold setItem
  split
  · rename_i hany
    exfalso
    rw [List.any_eq_true] at hany
    obtain ⟨ax, hax, hb⟩ := hany
    split at hb
    · rename_i e hf
      obtain ⟨hm, hn⟩ := find?_name_some hf
      have : e = ax := mem_name_inj hnd (hds e hm) (hv ax hax) hn
      subst this
      simp [axisEq] at hb
    · cases hb
  · refine ⟨_, rfl, ?_⟩
    intro e he
    rcases List.mem_append.1 he with he | he
    · exact hds e he
    · exact hv e (List.mem_filter.1 he).1

theorem storeAll_sub_ok (U : List Axis) (hnd : (U.map (·.name)).Nodup) : ∀ (kvs : List (String × DimArray α))
    (ds : Ds α), (∀ e ∈ ds.axes, e ∈ U) → (∀ kv ∈ kvs, ∀ ax ∈ kv.2.axes, ax ∈ U) →
    ∃ out, kvs.foldlM (fun ds kv => setItem ds kv.1 kv.2) ds = .ok out
  | [], ds, _, _ => ⟨ds, rfl⟩
  | kv :: kvs, ds, hds, hv => by
    obtain ⟨mid, hmid, hsub⟩ := setItem_sub_ok U hnd ds kv.1 kv.2 hds (hv kv List.mem_cons_self)
    obtain ⟨out, hout⟩ := storeAll_sub_ok U hnd kvs mid hsub (fun kv' hkv' => hv kv' (List.mem_cons_of_mem _ hkv'))
    refine ⟨out, ?_⟩
    rw [List.foldlM_cons, hmid]
    exact hout

theorem fromVars_own_ok (nan : α) (U : List Axis) (hnd : (U.map (·.name)).Nodup) (hpl : ∀ e ∈ U, e.members = [])
    (vars : List (String × DimArray α)) (hsub : ∀ kv ∈ vars, ∀ ax ∈ kv.2.axes, ax ∈ U) :
    ∃ out, fromVars nan vars = .ok out := by
  unfold fromVars
  rw [align_own nan U hnd hpl (vars.map (·.2)) (by
    intro a ha
    obtain ⟨kv, hkv, rfl⟩ := List.mem_map.1 ha
    exact hsub kv hkv)]
  simp only [bind, Except.bind, zip_fst_snd]
  exact storeAll_sub_ok U hnd vars {} (fun e he => by cases he) hsub

/-- `_apply_dimarray_axis` succeeds as soon as the method succeeds on every variable that has the dimension (and
returns axes of its argument) -/
theorem applyAxis_ok (nan : α) (ds : Ds α) (name : String) (f : DimArray α → Except Err (DimArray α))
    (hown : OwnAxes ds) (hd : ds.dims.Nodup) (hpl : ∀ e ∈ ds.axes, e.members = []) (hin : name ∈ ds.dims)
    (hf : ∀ kv ∈ ds.vars, name ∈ kv.2.dims → ∃ r, f kv.2 = .ok r ∧ ∀ ax ∈ r.axes, ax ∈ kv.2.axes) :
    ∃ out, applyAxis nan ds name f = .ok out := by
  rw [applyAxis_eq]
  have hc : (!(ds.dims.contains name)) = false := by simpa using hin
  rw [hc, if_neg (by simp)]
  have hstep : ∀ kv ∈ ds.vars, ∃ kv', applyVar name f kv = .ok kv' ∧ ∀ ax ∈ kv'.2.axes, ax ∈ ds.axes := by
    intro kv hkv
    unfold applyVar
    by_cases hmem : name ∈ kv.2.dims
    · have hc' : kv.2.dims.contains name = true := by simpa using hmem
      obtain ⟨r, hr, hax⟩ := hf kv hkv hmem
      rw [if_pos hc', hr]
      exact ⟨(kv.1, r), rfl, fun ax h => hown kv hkv ax (hax ax h)⟩
    · have hc' : ¬ kv.2.dims.contains name = true := by simpa using hmem
      rw [if_neg hc']
      exact ⟨kv, rfl, hown kv hkv⟩
  have hall : ∀ (l : List (String × DimArray α)), (∀ kv ∈ l, kv ∈ ds.vars) →
      ∃ vars', l.mapM (applyVar name f) = .ok vars' ∧ ∀ kv' ∈ vars', ∀ ax ∈ kv'.2.axes, ax ∈ ds.axes := by
    intro l
    induction l with
    | nil => intro _; exact ⟨[], rfl, fun kv' h => by cases h⟩
    | cons kv l ih =>
      intro hl
      obtain ⟨kv', h1, h2⟩ := hstep kv (hl kv List.mem_cons_self)
      obtain ⟨vars', h3, h4⟩ := ih (fun x hx => hl x (List.mem_cons_of_mem _ hx))
      refine ⟨kv' :: vars', ?_, ?_⟩
      · rw [List.mapM_cons, h1, h3]; rfl
      · intro x hx
        rcases List.mem_cons.1 hx with rfl | hx
        · exact h2
        · exact h4 x hx
  obtain ⟨vars', h1, h2⟩ := hall ds.vars (fun _ h => h)
  rw [h1]
  exact fromVars_own_ok nan ds.axes hd hpl vars' h2

/-! ### the reduction of one variable -/

/-- `v.<reduction>(axis=name)` as `Dataset(dict)` receives it, in closed form -/
def reducedVar (red : List α → α) (name : String) (v : DimArray α) : DimArray α :=
  if v.ndim == 1 then scalarVar (red (fibre v (v.dims.idxOf name) [])) v.vkind
  else
    { axes := v.axes.eraseIdx (v.dims.idxOf name)
      vals := { shape := v.vals.shape.eraseIdx (v.dims.idxOf name), get := fun j => red (fibre v (v.dims.idxOf name) j) }
      vkind := v.vkind, attrs := v.attrs }

/-- the reduction of a variable along one of its dimensions never fails -/
theorem reduceVarDs_of_mem (red : List α → α) (name : String) (v : DimArray α) (hmem : name ∈ v.dims) :
    reduceVarDs red name v = .ok (reducedVar red name v) := by
  have hlt : v.dims.idxOf name < v.dims.length := List.idxOf_lt_length_iff.2 hmem
  unfold reduceVarDs reduceAxis dealWithAxis reducedVar
  simp only [hlt, if_true, bind, Except.bind, pure, Except.pure]
  by_cases h1 : (v.ndim == 1) = true
  · simp only [h1, if_true]
  · simp only [h1, if_false, Bool.false_eq_true]

theorem reducedVar_axes_mem (red : List α → α) (name : String) (v : DimArray α) :
    ∀ ax ∈ (reducedVar red name v).axes, ax ∈ v.axes := by
  intro ax hax
  unfold reducedVar at hax
  split at hax
  · cases hax
  · exact List.mem_of_mem_eraseIdx hax

theorem eraseIdx_idxOf_nodup {l : List String} (hnd : l.Nodup) (x : String) :
    (l.eraseIdx (l.idxOf x)).Nodup ∧ x ∉ l.eraseIdx (l.idxOf x) := by
  induction l with
  | nil => simp
  | cons a l ih =>
    simp only [List.nodup_cons] at hnd
    by_cases hax : a = x
    · subst hax
      simp only [List.idxOf_cons_self, List.eraseIdx_zero, List.tail_cons]
      exact ⟨hnd.2, hnd.1⟩
    · have hb : (a == x) = false := by simpa using hax
      simp only [List.idxOf_cons, hb, cond_false, List.eraseIdx_cons_succ, List.nodup_cons, List.mem_cons, not_or]
      obtain ⟨h1, h2⟩ := ih hnd.2
      exact ⟨⟨fun hm => hnd.1 (List.mem_of_mem_eraseIdx hm), h1⟩, fun h => hax h.symm, h2⟩

theorem reducedVar_dims (red : List α → α) (name : String) (v : DimArray α) (hnd : v.dims.Nodup) :
    (reducedVar red name v).dims.Nodup ∧ name ∉ (reducedVar red name v).dims := by
  unfold reducedVar
  split
  · simp [scalarVar, DimArray.dims]
  · show ((v.axes.eraseIdx (v.dims.idxOf name)).map (·.name)).Nodup ∧ name ∉ (v.axes.eraseIdx (v.dims.idxOf name)).map (·.name)
    rw [C10.map_eraseIdx']
    exact eraseIdx_idxOf_nodup hnd name

theorem reducedVar_shape (red : List α → α) (name : String) (v : DimArray α)
    (hs : v.vals.shape = v.axes.map (·.size)) :
    (reducedVar red name v).vals.shape = (reducedVar red name v).axes.map (·.size) := by
  unfold reducedVar
  split
  · rfl
  · simp only [hs, C10.map_eraseIdx']

theorem mem_eraseIdx_of_name_ne (name : String) : ∀ (l : List Axis) (e : Axis), e ∈ l → e.name ≠ name →
    e ∈ l.eraseIdx ((l.map (·.name)).idxOf name)
  | [], _, h, _ => by cases h
  | a :: l, e, h, hne => by
    by_cases ha : a.name = name
    · simp only [List.map_cons, ha, List.idxOf_cons_self, List.eraseIdx_zero, List.tail_cons]
      rcases List.mem_cons.1 h with rfl | h
      · exact absurd ha hne
      · exact h
    · have hb : (a.name == name) = false := by simpa using ha
      simp only [List.map_cons, List.idxOf_cons, hb, cond_false, List.eraseIdx_cons_succ, List.mem_cons]
      rcases List.mem_cons.1 h with rfl | h
      · exact Or.inl rfl
      · exact Or.inr (mem_eraseIdx_of_name_ne name l e h hne)

/-- a reduction keeps every axis but the reduced one -/
theorem reducedVar_keeps (red : List α → α) (name : String) (v : DimArray α) (hmem : name ∈ v.dims)
    (e : Axis) (he : e ∈ v.axes) (hne : e.name ≠ name) : e ∈ (reducedVar red name v).axes := by
  unfold reducedVar
  split
  · rename_i h1
    exfalso
    have hlen : v.axes.length = 1 := by simpa [DimArray.ndim] using h1
    match hv : v.axes, hlen with
    | [a], _ =>
      rw [hv] at he
      simp only [DimArray.dims, hv, List.map_cons, List.map_nil, List.mem_singleton] at hmem he
      subst he
      exact hne hmem.symm
  · exact mem_eraseIdx_of_name_ne name v.axes e he hne

/-- in a Dataset with shared, own axes the axes are exactly the axis objects of the variables -/
theorem axes_iff_used {ds : Ds α} (hs : SharedAxes ds) (hown : OwnAxes ds) (e : Axis) :
    e ∈ ds.axes ↔ ∃ kv ∈ ds.vars, e ∈ kv.2.axes := by
  constructor
  · intro he
    obtain ⟨kv, hkv, hm⟩ := hs.2.1 e he
    obtain ⟨a, ha, hn⟩ := List.mem_map.1 hm
    have : a = e := mem_name_inj hs.2.2 (hown kv hkv a ha) he hn
    exact ⟨kv, hkv, this ▸ ha⟩
  · rintro ⟨kv, hkv, hm⟩
    exact hown kv hkv e hm

/-- distinct keys: a key has one value -/
theorem value_unique {β : Type} : ∀ {l : List (String × β)}, (l.map (·.1)).Nodup → ∀ {k : String} {a b : β},
    (k, a) ∈ l → (k, b) ∈ l → a = b
  | [], _, _, _, _, h, _ => by cases h
  | x :: l, hnd, k, a, b, ha, hb => by
    simp only [List.map_cons, List.nodup_cons] at hnd
    rcases List.mem_cons.1 ha with ha1 | ha2 <;> rcases List.mem_cons.1 hb with hb1 | hb2
    · exact (Prod.mk.inj (ha1.trans hb1.symm)).2
    · subst ha1
      exact absurd (List.mem_map_of_mem (f := (·.1)) hb2) hnd.1
    · subst hb1
      exact absurd (List.mem_map_of_mem (f := (·.1)) ha2) hnd.1
    · exact value_unique hnd.2 ha2 hb2

/-- the variable stored under a key of the result comes from the variable of that key -/
theorem var_of_key {β γ : Type} {l : List (String × β)} {l' : List (String × γ)} (hk : l'.map (·.1) = l.map (·.1))
    {kv' : String × γ} (h : kv' ∈ l') : ∃ v, (kv'.1, v) ∈ l := by
  have : kv'.1 ∈ l.map (·.1) := hk ▸ List.mem_map_of_mem h
  obtain ⟨kv, hkv, he⟩ := List.mem_map.1 this
  exact ⟨kv.2, by rw [← he]; exact hkv⟩

/-! ### `_binary_op` -/

/-- a loop whose step does nothing on the elements a selector rejects is the loop over the selected elements -/
theorem foldlM_filterMap {β γ σ : Type} (sel : β → Option γ) (step : σ → β → Except Err σ)
    (step' : σ → γ → Except Err σ) : ∀ (l : List β) (init : σ),
    (∀ acc, ∀ x ∈ l, step acc x = match sel x with
      | none => pure acc
      | some y => step' acc y) →
    l.foldlM step init = (l.filterMap sel).foldlM step' init
  | [], _, _ => rfl
  | x :: l, init, h => by
    rw [List.foldlM_cons, h init x List.mem_cons_self, List.filterMap_cons]
    cases hs : sel x with
    | none =>
      simp only [pure, Except.pure, bind, Except.bind]
      exact foldlM_filterMap sel step step' l init (fun acc y hy => h acc y (List.mem_cons_of_mem _ hy))
    | some y =>
      simp only [List.foldlM_cons]
      congr 1
      funext acc
      exact foldlM_filterMap sel step step' l acc (fun acc y hy => h acc y (List.mem_cons_of_mem _ hy))

theorem find?_key {β : Type} : ∀ {l : List (String × β)}, (l.map (·.1)).Nodup → ∀ {k : String} {v : β},
    (k, v) ∈ l → l.find? (fun kv => k == kv.1) = some (k, v)
  | [], _, _, _, h => by cases h
  | x :: l, hnd, k, v, h => by
    simp only [List.map_cons, List.nodup_cons] at hnd
    rcases List.mem_cons.1 h with h1 | h2
    · subst h1
      simp
    · have hne : k ≠ x.1 := fun he => hnd.1 (he ▸ List.mem_map_of_mem (f := (·.1)) h2)
      have hb : (k == x.1) = false := by simpa using hne
      rw [List.find?_cons, hb]
      exact find?_key hnd.2 h2

/-- one pass of the inner loop of `_binary_op` (over the keys of `other`) -/
def opStep (nan : α) (f : α → α → α) (kv1 : String × DimArray α) (res : Ds α) (kv2 : String × DimArray α) :
    Except Err (Ds α) :=
  if kv1.1 == kv2.1 then do
    let r ← operation nan f kv1.2 kv2.2
    setItem res kv1.1 r.1
  else pure res

theorem opLoop_none (nan : α) (f : α → α → α) (kv1 : String × DimArray α) : ∀ (l : List (String × DimArray α))
    (res : Ds α), (∀ kv2 ∈ l, kv1.1 ≠ kv2.1) → l.foldlM (opStep nan f kv1) res = .ok res
  | [], _, _ => rfl
  | x :: l, res, h => by
    have hb : (kv1.1 == x.1) = false := by simpa using h x List.mem_cons_self
    rw [List.foldlM_cons]
    simp only [opStep, hb, Bool.false_eq_true, if_false, pure, Except.pure, bind, Except.bind]
    exact opLoop_none nan f kv1 l res (fun y hy => h y (List.mem_cons_of_mem _ hy))

/-- the inner loop finds at most one key: it is one `DimArray._binary_op` followed by one `__setitem__`, or nothing -/
theorem opLoop_eq (nan : α) (f : α → α → α) (kv1 : String × DimArray α) : ∀ (l : List (String × DimArray α))
    (res : Ds α), (l.map (·.1)).Nodup →
    l.foldlM (opStep nan f kv1) res = match l.find? (fun kv => kv1.1 == kv.1) with
      | none => pure res
      | some kv2 => (operation nan f kv1.2 kv2.2 >>= fun r => setItem res kv1.1 r.1)
  | [], _, _ => rfl
  | x :: l, res, hnd => by
    simp only [List.map_cons, List.nodup_cons] at hnd
    rw [List.foldlM_cons, List.find?_cons]
    by_cases hb : (kv1.1 == x.1) = true
    · simp only [hb, opStep, if_true]
      have hk : kv1.1 = x.1 := by simpa using hb
      have hrest : ∀ res', l.foldlM (opStep nan f kv1) res' = .ok res' := fun res' =>
        opLoop_none nan f kv1 l res' (fun y hy he => hnd.1 (hk ▸ he ▸ List.mem_map_of_mem (f := (·.1)) hy))
      simp only [hrest]
      cases operation nan f kv1.2 x.2 with
      | error e => rfl
      | ok r =>
        simp only [bind, Except.bind]
        cases setItem res kv1.1 r.1 <;> rfl
    · have hb' : (kv1.1 == x.1) = false := by simpa using hb
      simp only [hb', opStep, Bool.false_eq_true, if_false, pure, Except.pure, bind, Except.bind]
      exact opLoop_eq nan f kv1 l res hnd.2

/-- the pairs of variables `_binary_op` combines: the keys of `self`, in order, that `other` has too -/
def opPairs (self o : Ds α) : List (String × DimArray α × DimArray α) :=
  self.vars.filterMap fun kv1 => (o.vars.find? (fun kv => kv1.1 == kv.1)).map fun kv2 => (kv1.1, kv1.2, kv2.2)

theorem opPairs_keys (self o : Ds α) :
    (opPairs self o).map (·.1) = self.keys.filter (fun k => o.keys.contains k) := by
  unfold opPairs Ds.keys
  induction self.vars with
  | nil => rfl
  | cons kv l ih =>
    rw [List.filterMap_cons, List.map_cons, List.filter_cons]
    cases hf : o.vars.find? (fun kv' => kv.1 == kv'.1) with
    | none =>
      have : (List.map (·.1) o.vars).contains kv.1 = false := by
        rw [List.find?_eq_none] at hf
        simp only [List.contains_eq_mem, List.mem_map, decide_eq_false_iff_not, not_exists, not_and]
        intro x hx he
        exact hf x hx (by simp [he])
      simp only [Option.map_none, this, Bool.false_eq_true, if_false]
      exact ih
    | some kv2 =>
      have : (List.map (·.1) o.vars).contains kv.1 = true := by
        have h1 := List.mem_of_find?_eq_some hf
        have h2 := List.find?_some hf
        simp only [List.contains_eq_mem, List.mem_map, decide_eq_true_eq]
        exact ⟨kv2, h1, (by simpa using h2 : kv.1 = kv2.1).symm⟩
      simp only [Option.map_some, this, if_true, List.map_cons, ih]

theorem opPairs_mem (self o : Ds α) (hk2 : o.keys.Nodup) {k : String} {v1 v2 : DimArray α}
    (h1 : (k, v1) ∈ self.vars) (h2 : (k, v2) ∈ o.vars) : (k, v1, v2) ∈ opPairs self o := by
  unfold opPairs
  rw [List.mem_filterMap]
  exact ⟨(k, v1), h1, by rw [find?_key hk2 h2]; rfl⟩

theorem opPairs_sound (self o : Ds α) {p : String × DimArray α × DimArray α} (h : p ∈ opPairs self o) :
    (p.1, p.2.1) ∈ self.vars ∧ (p.1, p.2.2) ∈ o.vars := by
  unfold opPairs at h
  obtain ⟨kv1, hkv1, hm⟩ := List.mem_filterMap.1 h
  cases hf : o.vars.find? (fun kv => kv1.1 == kv.1) with
  | none => rw [hf] at hm; cases hm
  | some kv2 =>
    rw [hf] at hm
    simp only [Option.map_some, Option.some.injEq] at hm
    subst hm
    have h1 := List.mem_of_find?_eq_some hf
    have h2 : kv1.1 = kv2.1 := by simpa using List.find?_some hf
    exact ⟨hkv1, by rw [h2]; exact h1⟩

/-- the per-pair computation of `_binary_op`: key and result of `DimArray._binary_op` -/
def opCompute (nan : α) (f : α → α → α) (p : String × DimArray α × DimArray α) : Except Err (String × DimArray α) :=
  operation nan f p.2.1 p.2.2 >>= fun r => pure (p.1, r.1)

/-- Dataset op Dataset: a `mapM` of the per-variable operations and a run of
`__setitem__` -/
theorem binaryOpDs_ds_closed (nan : α) (f : α → α → α) (self o out : Ds α) (hk2 : o.keys.Nodup)
    (h : binaryOpDs nan f self (.ds o) = .ok out) :
    ∃ ys, (opPairs self o).mapM (opCompute nan f) = .ok ys ∧
      ys.foldlM (fun ds kv => setItem ds kv.1 kv.2) {} = .ok out := by
  have hloop : self.vars.foldlM (fun (res : Ds α) kv1 => o.vars.foldlM (opStep nan f kv1) res) {} = .ok out := by
    unfold binaryOpDs at h
    exact h
  rw [foldlM_filterMap
    (fun kv1 => (o.vars.find? (fun kv => kv1.1 == kv.1)).map fun kv2 => (kv1.1, kv1.2, kv2.2))
    _ (fun (res : Ds α) p => opCompute nan f p >>= fun kr => setItem res kr.1 kr.2)] at hloop
  · exact foldlM_compute (opCompute nan f) (fun (ds : Ds α) kv => setItem ds kv.1 kv.2) _ _ _ hloop
  · intro acc kv1 _
    rw [opLoop_eq nan f kv1 o.vars acc hk2]
    cases o.vars.find? (fun kv => kv1.1 == kv.1) with
    | none => rfl
    | some kv2 =>
      simp only [Option.map_some, opCompute]
      cases operation nan f kv1.2 kv2.2 <;> rfl

/-- DATASET op DATASET, generic form (the hypothesis `hres` - the per-variable results have distinct dimension
names - is discharged in `Props/C14.lean` from the well-formedness of the variables) -/
theorem binaryOpDs_ds_core (nan : α) (f : α → α → α) (self o out : Ds α) (hk1 : self.keys.Nodup)
    (hk2 : o.keys.Nodup)
    (hres : ∀ k v1 v2 res, (k, v1) ∈ self.vars → (k, v2) ∈ o.vars → operation nan f v1 v2 = .ok res →
      res.1.dims.Nodup)
    (h : binaryOpDs nan f self (.ds o) = .ok out) :
    out.keys = self.keys.filter (fun k => o.keys.contains k) ∧ out.attrs = [] ∧ SharedAxes out ∧ OwnAxes out ∧
    (∀ k v1 v2, (k, v1) ∈ self.vars → (k, v2) ∈ o.vars →
      ∃ r res, (k, r) ∈ out.vars ∧ operation nan f v1 v2 = .ok res ∧ SameVar r res.1) ∧
    (∀ e ∈ out.axes, ∃ k v1 v2 res, (k, v1) ∈ self.vars ∧ (k, v2) ∈ o.vars ∧
      operation nan f v1 v2 = .ok res ∧ e ∈ res.1.axes) := by
  obtain ⟨ys, hys, hbuild⟩ := binaryOpDs_ds_closed nan f self o out hk2 h
  have hrel := mapM_rel2 _ _ _ hys
  -- what one computed pair is
  have hone : ∀ p y, opCompute nan f p = .ok y → ∃ res, operation nan f p.2.1 p.2.2 = .ok res ∧ y = (p.1, res.1) := by
    intro p y hy
    unfold opCompute at hy
    cases hop : operation nan f p.2.1 p.2.2 with
    | error e => rw [hop] at hy; cases hy
    | ok res => rw [hop] at hy; cases hy; exact ⟨res, rfl, rfl⟩
  have hkeys : ys.map (·.1) = (opPairs self o).map (·.1) :=
    (hrel.map_eq (·.1) (·.1) fun p y hy => by obtain ⟨res, _, rfl⟩ := hone p y hy; rfl).symm
  have hknd : (ys.map (·.1)).Nodup := by
    rw [hkeys, opPairs_keys]
    exact hk1.sublist List.filter_sublist
  have hynd : ∀ y ∈ ys, y.2.dims.Nodup := by
    intro y hy
    obtain ⟨p, hp, hpy⟩ := hrel.mem_right y hy
    obtain ⟨res, hop, rfl⟩ := hone p y hpy
    obtain ⟨h1, h2⟩ := opPairs_sound self o hp
    exact hres p.1 p.2.1 p.2.2 res h1 h2 hop
  obtain ⟨hk, hat, hsh, hown, _, hax, hrel2⟩ := build_spec ys out hknd hynd hbuild
  refine ⟨by rw [hk, hkeys, opPairs_keys], hat, hsh, hown, ?_, ?_⟩
  · intro k v1 v2 h1 h2
    obtain ⟨y, hy, hpy⟩ := hrel.mem_left _ (opPairs_mem self o hk2 h1 h2)
    obtain ⟨res, hop, rfl⟩ := hone _ y hpy
    obtain ⟨kr, hkr, hk', hsame⟩ := hrel2.mem_right _ hy
    refine ⟨kr.2, res, ?_, hop, hsame⟩
    have : kr = (k, kr.2) := Prod.ext hk' rfl
    rw [← this]
    exact hkr
  · intro e he
    obtain ⟨y, hy, hm⟩ := hax e he
    obtain ⟨p, hp, hpy⟩ := hrel.mem_right y hy
    obtain ⟨res, hop, rfl⟩ := hone p y hpy
    obtain ⟨h1, h2⟩ := opPairs_sound self o hp
    exact ⟨p.1, p.2.1, p.2.2, res, h1, h2, hop, hm⟩

/-- a scalar as `np.array(scalar)` -/
def scalarNd (c : α) : NDArr α := { shape := [], get := fun _ => c }

theorem operationNd_axes (f : α → α → α) (a r : DimArray α) (nd : NDArr α) (flip : Bool)
    (h : operationNd f a nd flip = .ok r) :
    r.axes = a.axes ∧ r.vkind = a.vkind ∧ r.attrs = [] ∧ r.vals.shape = r.axes.map (·.size) := by
  unfold operationNd at h
  simp only [bind, Except.bind] at h
  split at h
  · cases h
  · cases flip <;> simp only [Bool.false_eq_true, if_false, if_true] at h <;>
    · split at h
      · cases h
      · split at h
        · cases h
        · rename_i hsh
          simp only [pure, Except.pure, Except.ok.injEq] at h
          subst h
          exact ⟨rfl, rfl, rfl, (by simpa using hsh : List.map (·.size) a.axes = _).symm⟩

/-- DATASET op SCALAR: every variable is `variable op scalar` (`Lib.operationNd`, NumPy's job on the values) -/
theorem binaryOpDs_scalar_core (f : α → α → α) (nan : α) (self out : Ds α) (c : α) (hk1 : self.keys.Nodup)
    (hnd : ∀ kv ∈ self.vars, kv.2.dims.Nodup) (h : binaryOpDs nan f self (.scalar c) = .ok out) :
    out.keys = self.keys ∧ out.attrs = [] ∧ SharedAxes out ∧ OwnAxes out ∧
    (∀ k v, (k, v) ∈ self.vars → ∃ r res, (k, r) ∈ out.vars ∧ operationNd f v (scalarNd c) false = .ok res ∧
      SameVar r res) ∧
    (∀ e ∈ out.axes, ∃ kv ∈ self.vars, e ∈ kv.2.axes) := by
  have hloop : self.vars.foldlM (fun (res : Ds α) kv1 =>
      (operationNd f kv1.2 (scalarNd c) false >>= fun r => pure (kv1.1, r)) >>= fun kr => setItem res kr.1 kr.2) {}
      = .ok out := by
    have : (fun (res : Ds α) (kv1 : String × DimArray α) =>
        (operationNd f kv1.2 (scalarNd c) false >>= fun r => pure (kv1.1, r)) >>= fun kr => setItem res kr.1 kr.2) =
        (fun (res : Ds α) kv1 => do
          let r ← operationNd f kv1.2 { shape := [], get := fun _ => c } false
          setItem res kv1.1 r) := by
      funext res kv1
      show _ = (operationNd f kv1.2 (scalarNd c) false >>= fun r => setItem res kv1.1 r)
      cases operationNd f kv1.2 (scalarNd c) false <;> rfl
    rw [this]
    exact h
  obtain ⟨ys, hys, hbuild⟩ := foldlM_compute
    (fun (kv1 : String × DimArray α) => operationNd f kv1.2 (scalarNd c) false >>= fun r => pure (kv1.1, r))
    (fun (ds : Ds α) kv => setItem ds kv.1 kv.2) _ _ _ hloop
  have hrel := mapM_rel2 _ _ _ hys
  have hone : ∀ (kv y : String × DimArray α),
      (operationNd f kv.2 (scalarNd c) false >>= fun r => pure (kv.1, r)) = .ok y →
      ∃ res, operationNd f kv.2 (scalarNd c) false = .ok res ∧ y = (kv.1, res) := by
    intro kv y hy
    cases hop : operationNd f kv.2 (scalarNd c) false with
    | error e => rw [hop] at hy; cases hy
    | ok res => rw [hop] at hy; cases hy; exact ⟨res, rfl, rfl⟩
  have hkeys : ys.map (·.1) = self.keys :=
    (hrel.map_eq (·.1) (·.1) fun p y hy => by obtain ⟨res, _, rfl⟩ := hone p y hy; rfl).symm
  have hynd : ∀ y ∈ ys, y.2.dims.Nodup := by
    intro y hy
    obtain ⟨p, hp, hpy⟩ := hrel.mem_right y hy
    obtain ⟨res, hop, rfl⟩ := hone p y hpy
    show (res.axes.map (·.name)).Nodup
    rw [(operationNd_axes f p.2 res _ _ hop).1]
    exact hnd p hp
  obtain ⟨hk, hat, hsh, hown, _, hax, hrel2⟩ := build_spec ys out (hkeys ▸ hk1) hynd hbuild
  refine ⟨hk.trans hkeys, hat, hsh, hown, ?_, ?_⟩
  · intro k v hkv
    obtain ⟨y, hy, hpy⟩ := hrel.mem_left _ hkv
    obtain ⟨res, hop, rfl⟩ := hone _ y hpy
    obtain ⟨kr, hkr, hk', hsame⟩ := hrel2.mem_right _ hy
    refine ⟨kr.2, res, ?_, hop, hsame⟩
    have : kr = (k, kr.2) := Prod.ext hk' rfl
    rw [← this]
    exact hkr
  · intro e he
    obtain ⟨y, hy, hm⟩ := hax e he
    obtain ⟨p, hp, hpy⟩ := hrel.mem_right y hy
    obtain ⟨res, hop, rfl⟩ := hone p y hpy
    refine ⟨p, hp, ?_⟩
    rw [← (operationNd_axes f p.2 res _ _ hop).1]
    exact hm

/-! ### `stack` / `concatenate` return arrays with distinct dimension names -/

theorem normOne_lt (n : Nat) (j : Int) (k : Nat)
    (h : (if j < 0 || j ≥ (n : Int) then (.error .value : Except Err Nat) else .ok j.toNat) = .ok k) : k < n := by
  by_cases hc : (j < 0 || j ≥ (n : Int)) = true
  · rw [if_pos hc] at h; cases h
  · rw [if_neg hc] at h
    injection h with h
    simp only [Bool.or_eq_true, decide_eq_true_eq, not_or, Int.not_lt] at hc
    omega

theorem normPerm_lt (n : Nat) (pi : List Int) (p : List Nat) (h : normPerm n pi = .ok p) : ∀ k ∈ p, k < n := by
  unfold normPerm at h
  simp only [bind, Except.bind] at h
  split at h
  · cases h
  · split at h
    · cases h
    · rename_i q hq
      split at h
      · cases h
      · simp only [pure, Except.pure, Except.ok.injEq] at h
        subst h
        intro k hk
        obtain ⟨i, _, hi⟩ := C12.mapM_ok_mem _ _ _ hq k hk
        exact normOne_lt n _ k hi

theorem transposeBy_axes_mem (a : DimArray α) (p : List Nat) (hp : ∀ k ∈ p, k < a.axes.length) :
    ∀ ax ∈ (transposeBy a p).axes, ax ∈ a.axes := by
  intro ax hax
  simp only [transposeBy, List.mem_map] at hax
  obtain ⟨k, hk, rfl⟩ := hax
  have := hp k hk
  rw [List.getD_eq_getElem?_getD, List.getElem?_eq_getElem this]
  exact List.getElem_mem this

/-- `transpose` once the list of keys is known -/
def transTail (a : DimArray α) (ks : List DimKey) : Except Err (DimArray α) :=
  if a.ndim == 0 && ks.isEmpty then pure a else do
    let pi ← axesPositions a ks
    let p ← normPerm a.ndim pi
    pure (transposeBy a p)

theorem transTail_axes_mem (a r : DimArray α) (ks : List DimKey) (h : transTail a ks = .ok r) :
    ∀ ax ∈ r.axes, ax ∈ a.axes := by
  unfold transTail at h
  split at h
  · simp only [pure, Except.pure, Except.ok.injEq] at h
    subst h
    exact fun ax hax => hax
  · cases hpi : axesPositions a ks with
    | error e => rw [hpi] at h; cases h
    | ok pi =>
      rw [hpi] at h
      cases hp : normPerm a.ndim pi with
      | error e =>
        simp only [bind, Except.bind, hp] at h
        cases h
      | ok p =>
        simp only [bind, Except.bind, hp, pure, Except.pure, Except.ok.injEq] at h
        subst h
        exact transposeBy_axes_mem a p (normPerm_lt _ _ _ hp)

theorem transpose_tail (a : DimArray α) (ks : Option (List DimKey)) :
    (∃ ks', transpose a ks = transTail a ks') ∨ transpose a ks = .error .value := by
  unfold transpose transTail
  cases ks with
  | none =>
    simp only []
    split
    · exact Or.inl ⟨_, rfl⟩
    · split
      · exact Or.inl ⟨_, rfl⟩
      · split
        · exact Or.inl ⟨_, rfl⟩
        · exact Or.inr rfl
  | some l =>
    simp only []
    split
    · split
      · exact Or.inl ⟨_, rfl⟩
      · split
        · exact Or.inl ⟨_, rfl⟩
        · split
          · exact Or.inl ⟨_, rfl⟩
          · exact Or.inr rfl
    · exact Or.inl ⟨_, rfl⟩

/-- `transpose` only rearranges the axes -/
theorem transpose_axes_mem (a r : DimArray α) (ks : Option (List DimKey)) (h : transpose a ks = .ok r) :
    ∀ ax ∈ r.axes, ax ∈ a.axes := by
  rcases transpose_tail a ks with ⟨ks', hX⟩ | hX
  · rw [hX] at h
    exact transTail_axes_mem a r ks' h
  · rw [hX] at h
    cases h

/-- the per-array step of `reorderLikeFirst` -/
def reorderOne' (a0 a : DimArray α) : Except Err (DimArray α) :=
  if a.dims == a0.dims then pure a
  else match transpose a (some (a0.dims.map DimKey.name)) with
    | .ok r => pure r
    | .error _ => .error .value

theorem reorderLikeFirst_cons' (a0 : DimArray α) (rest : List (DimArray α)) :
    reorderLikeFirst (a0 :: rest) = (a0 :: rest).mapM (reorderOne' a0) := rfl

theorem reorderOne_axes_mem (a0 a o : DimArray α) (h : reorderOne' a0 a = .ok o) : ∀ ax ∈ o.axes, ax ∈ a.axes := by
  unfold reorderOne' at h
  split at h
  · simp only [pure, Except.pure, Except.ok.injEq] at h
    subst h
    exact fun ax hax => hax
  · split at h
    · rename_i r hr
      simp only [pure, Except.pure, Except.ok.injEq] at h
      subst h
      exact transpose_axes_mem a _ _ hr
    · cases h

theorem reorderLikeFirst_axes_mem (arrays arrs : List (DimArray α)) (h : reorderLikeFirst arrays = .ok arrs) :
    ∀ o ∈ arrs, ∃ a ∈ arrays, ∀ ax ∈ o.axes, ax ∈ a.axes := by
  cases arrays with
  | nil => cases h
  | cons a0 rest =>
    rw [reorderLikeFirst_cons'] at h
    intro o ho
    obtain ⟨a, ha, hfa⟩ := C12.mapM_ok_mem _ _ _ h o ho
    exact ⟨a, ha, reorderOne_axes_mem a0 a o hfa⟩

theorem gaStep_fold_name (d : String) : ∀ (L : List Axis) (acc : Option Axis) (c : Axis),
    (∀ ax ∈ L, ax.name = d) → (∀ c0, acc = some c0 → c0.name = d) →
    L.foldl C12J.gaStep (.ok acc) = .ok (some c) → c.name = d
  | [], acc, c, _, hacc, h => by
    simp only [List.foldl_nil, Except.ok.injEq] at h
    exact hacc c h
  | x :: L, acc, c, hL, hacc, h => by
    rw [List.foldl_cons] at h
    have hx := hL x List.mem_cons_self
    cases hs : C12J.gaStep (.ok acc) x with
    | error e =>
      rw [hs] at h
      have : ∀ (L : List Axis), L.foldl C12J.gaStep (.error e) = .error e := by
        intro L
        induction L with
        | nil => rfl
        | cons y L ih => rw [List.foldl_cons]; exact ih
      rw [this] at h
      cases h
    | ok acc' =>
      rw [hs] at h
      refine gaStep_fold_name d L acc' c (fun ax hax => hL ax (List.mem_cons_of_mem _ hax)) ?_ h
      intro c0 hc0
      subst hc0
      cases acc with
      | none =>
        rw [C12J.gaStep_first] at hs
        injection hs with hs
        injection hs with hs
        subst hs
        exact hx
      | some c1 =>
        unfold C12J.gaStep at hs
        simp only [bind, Except.bind] at hs
        have hcn : (if (c1.size == 1 && x.size != 1) = true then x else c1).name = d := by
          split
          · exact hx
          · exact hacc c1 rfl
        generalize (if (c1.size == 1 && x.size != 1) = true then x else c1) = common at hs hcn
        split at hs
        · cases hs
        · simp only [pure, Except.pure, Except.ok.injEq, Option.some.injEq] at hs
          subst hs
          exact hcn

/-- the common axes `_get_axes` returns are listed in the order of `get_dims` -/
theorem getAxesAligned_names (arrays : List (List Axis)) (axes : List Axis)
    (h : getAxesAligned arrays = .ok axes) : axes.map (·.name) = getDims arrays := by
  rw [C12J.getAxesAligned_eq] at h
  have hrel := mapM_rel2 _ _ _ h
  have := hrel.map_eq (fun d => d) (·.name) (fun d c hdc => by
    split at hdc
    · rename_i c' hc'
      simp only [Except.ok.injEq] at hdc
      subst hdc
      refine (gaStep_fold_name d _ none c' ?_ (fun c0 h0 => by cases h0) hc').symm
      intro ax hax
      obtain ⟨axs, _, hf⟩ := List.mem_filterMap.1 hax
      exact (find?_name_some hf).2
    · cases hdc
    · cases hdc)
  simpa using this.symm

/-- a successful `stack` along the new dimension `nm` returns an array whose dimensions are `nm` followed by the
dimensions of the inputs, each once -/
theorem stack_dims_nodup [Inhabited α] (nan : α) (arrays : List (DimArray α)) (nm : String) (keys : List Label)
    (kk : Kind) (r : DimArray α) (h : stack nan arrays (some nm) keys kk false false = .ok r) :
    r.dims.Nodup ∧ r.dims.head? = some nm ∧ r.attrs = [] := by
  have hnm : nm ∉ getDims (arrays.map (·.axes)) := by
    intro hmem
    unfold stack at h
    simp [checkStackAxis, hmem, bind, Except.bind] at h
  obtain ⟨name, arrs, axes, hre, hax, _, _, hr⟩ := C12.stack_inv nan arrays (some nm) keys kk r h
  have hname : name = nm := by
    have := (stack_spec nan arrays (some nm) keys kk r h)
    unfold stack at h
    have hc : (getDims (arrays.map (·.axes))).contains nm = false := by simpa using hnm
    simp only [checkStackAxis, hc, Bool.false_eq_true, if_false, bind, Except.bind, pure, Except.pure] at h
    rw [hre] at h
    simp only at h
    split at h
    · cases h
    · rw [hax] at h
      simp only at h
      split at h
      · cases h
      · split at h
        · cases h
        · simp only [Except.ok.injEq] at h
          rw [hr] at h
          simp only [DimArray.mk.injEq, List.cons.injEq, Axis.mk.injEq] at h
          exact h.1.1.1.symm
  subst hname
  have hdims : r.dims = name :: getDims (arrs.map (·.axes)) := by
    rw [hr, ← getAxesAligned_names _ _ hax]
    simp [DimArray.dims]
  refine ⟨?_, by rw [hdims]; rfl, by rw [hr]⟩
  rw [hdims, List.nodup_cons]
  refine ⟨?_, getDims_nodup _⟩
  intro hmem
  obtain ⟨axs, haxs, ax, hax', hn⟩ := (getDims_mem _ _).1 hmem
  obtain ⟨o, ho, rfl⟩ := List.mem_map.1 haxs
  obtain ⟨a, ha, hsub⟩ := reorderLikeFirst_axes_mem arrays arrs hre o ho
  exact hnm ((getDims_mem _ _).2 ⟨a.axes, List.mem_map_of_mem ha, ax, hsub ax hax', hn⟩)

theorem take_eraseIdx_insert {β : Type} (x : β) : ∀ (l : List β) (pos : Nat), pos < l.length →
    (l.eraseIdx pos).take pos ++ [x] ++ (l.eraseIdx pos).drop pos = l.set pos x
  | [], _, h => by simp at h
  | a :: l, 0, _ => by simp
  | a :: l, pos + 1, h => by
    have := take_eraseIdx_insert x l pos (by simpa using h)
    simp only [List.eraseIdx_cons_succ, List.take_succ_cons, List.drop_succ_cons, List.set_cons_succ,
      List.cons_append, List.cons.injEq, true_and]
    simpa using this

theorem set_names_self (l : List Axis) (pos : Nat) (x : Axis) (hx : x.name = (l.map (·.name)).getD pos "") :
    (l.set pos x).map (·.name) = l.map (·.name) := by
  rw [List.map_set]
  apply List.ext_getElem
  · simp
  · intro i h1 h2
    rw [List.getElem_set]
    split
    · rename_i hi
      subst hi
      rw [hx, List.getD_eq_getElem?_getD, List.getElem?_eq_getElem h2]
      rfl
    · rfl

set_option hygiene false in
/-- the part of the proof of `concatenate_dims` after the position of the axis is known: expects
`h : (match reorderLikeFirst (a0 :: rest) with ...) = .ok r` and `hlt : pos < a0.axes.length` -/
local macro "concat_dims_tail" : tactic => `(tactic| (
  cases harrs : reorderLikeFirst (a0 :: rest) with
  | error e => simp [harrs] at h
  | ok arrs =>
    simp only [harrs] at h
    obtain ⟨t, rfl⟩ := C12.reorderLikeFirst_head a0 rest arrs harrs
    simp only [List.headD_cons] at h
    replace h := C12.ok_of_ite_error h
    replace h := C12.ok_of_ite_error h
    generalize concatVals _ _ = cv at h
    cases cv with
    | none => simp at h
    | some v =>
      simp only at h
      injection h with h
      subst h
      simp only [DimArray.dims, List.map_map] at hlt ⊢
      rw [take_eraseIdx_insert _ a0.axes _ hlt]
      exact set_names_self a0.axes _ _ rfl))

/-- a successful `concatenate` returns the dimensions of its first input -/
theorem concatenate_dims (nan : α) (a0 : DimArray α) (rest : List (DimArray α)) (axis : DimKey) (r : DimArray α)
    (h : concatenate nan (a0 :: rest) axis false false = .ok r) : r.dims = a0.dims := by
  unfold concatenate at h
  cases axis with
  | name s =>
    by_cases hp : a0.dims.idxOf s < a0.dims.length
    · have hlt : a0.dims.idxOf s < a0.axes.length := by simpa [DimArray.dims] using hp
      simp only [hp, if_true, bind, Except.bind, pure, Except.pure, Bool.false_eq_true, if_false] at h
      concat_dims_tail
    · simp [hp, bind, Except.bind, pure, Except.pure] at h
  | pos i0 =>
    obtain ⟨i, hi⟩ : ∃ i, (if i0 < 0 then i0 + (a0.ndim : Int) else i0) = i := ⟨_, rfl⟩
    simp only [bind, Except.bind, pure, Except.pure] at h
    simp only [hi] at h
    by_cases hp : (i < 0 || i ≥ (a0.ndim : Int)) = true
    · simp [hp] at h
    · have hlt : i.toNat < a0.axes.length := by
        simp [DimArray.ndim] at hp
        omega
      simp only [hp, Bool.false_eq_true, if_false] at h
      concat_dims_tail

/-! ### `stack_ds` / `concatenate_ds` -/

/-- the check of one Dataset in the first loop of `stack_ds` -/
def stackChk (name : String) (vs : Option (List String)) (ds : Ds α) : Except Err (Option (List String)) :=
  if ds.dims.contains name then .error .assertion else
  match vs with
  | none => pure (some ds.keys)
  | some v => if sameKeys ds.keys v then pure (some v) else .error .assertion

/-- the check of one Dataset in the first loop of `concatenate_ds` -/
def catChk (vs : Option (List String)) (ds : Ds α) : Except Err (Option (List String)) :=
  match vs with
  | none => pure (some ds.keys)
  | some v => if sameKeys ds.keys v then pure (some v) else .error .assertion

/-- one pass of the second loop: gather the variable, join, store -/
def joinStep (J : List (DimArray α) → Except Err (DimArray α)) (datasets : List (Ds α)) (res : Ds α) (v : String) :
    Except Err (Ds α) := do
  let arrays ← gather datasets v
  let array ← J arrays
  setItem res v array

theorem stackDs_eq [Inhabited α] (nan : α) (datasets : List (Ds α)) (axis : Option String) (keys : List Label)
    (kk : Kind) :
    stackDs nan datasets axis keys kk =
      (checkStackAxis axis (getDims (datasets.map (·.axes))) >>= fun name =>
        datasets.foldlM (stackChk name) none >>= fun variables =>
          match variables with
          | none => .error .type
          | some vars =>
            vars.foldlM (joinStep (fun arrays => stack nan arrays (some name) keys kk false false) datasets) {}) := rfl

theorem concatenateDs_eq (nan : α) (datasets : List (Ds α)) (axis : DimKey) :
    concatenateDs nan datasets axis =
      (datasets.foldlM catChk none >>= fun variables =>
        firstAxisName datasets axis >>= fun name =>
          match variables with
          | none => .error .type
          | some vars =>
            vars.foldlM (joinStep (fun arrays => concatenate nan arrays (.name name) false false) datasets) {}) := rfl

theorem dsAxisPos_lt {axes : List Axis} {k : DimKey} {pos : Nat} (h : axisPos axes k = .ok pos) :
    pos < axes.length := by
  unfold axisPos at h
  cases k with
  | name s =>
    simp only at h
    split at h
    · cases h; assumption
    · cases h
  | pos i =>
    simp only at h
    by_cases hi : i < 0
    · simp only [hi, if_true] at h
      split at h
      · cases h
      · rename_i hc
        cases h
        simp only [Bool.or_eq_true, decide_eq_true_eq, not_or] at hc
        omega
    · simp only [hi, if_false] at h
      split at h
      · cases h
      · rename_i hc
        cases h
        simp only [Bool.or_eq_true, decide_eq_true_eq, not_or] at hc
        omega

/-- `ds.axes[axis].name` is a dimension of the Dataset -/
theorem dsAxisName_mem (ds : Ds α) (axis : DimKey) (name : String) (h : dsAxisName ds axis = .ok name) :
    name ∈ ds.dims := by
  unfold dsAxisName at h
  cases hp : axisPos ds.axes axis with
  | error e => simp [hp, bind, Except.bind] at h
  | ok p =>
    simp only [hp, bind, Except.bind, pure, Except.pure, Except.ok.injEq] at h
    have hlt : p < ds.dims.length := by
      have := dsAxisPos_lt hp
      simpa [Ds.dims] using this
    rw [← h, List.getD_eq_getElem?_getD, List.getElem?_eq_getElem hlt]
    exact List.getElem_mem hlt

/-- a dimension given by name is itself -/
theorem dsAxisName_name (ds : Ds α) (s : String) (hs : s ∈ ds.dims) : dsAxisName ds (.name s) = .ok s := by
  have hlt : ds.dims.idxOf s < ds.dims.length := List.idxOf_lt_length_iff.2 hs
  have hlt' : (ds.axes.map (·.name)).idxOf s < ds.axes.length := by simpa [Ds.dims] using hlt
  unfold dsAxisName axisPos
  simp only [hlt', if_true, bind, Except.bind, pure, Except.pure, Except.ok.injEq]
  show ds.dims.getD (ds.dims.idxOf s) "" = s
  rw [List.getD_eq_getElem?_getD, List.getElem?_eq_getElem hlt]
  exact List.getElem_idxOf hlt

theorem dsAxisName_name_inv (ds : Ds α) (s name : String) (h : dsAxisName ds (.name s) = .ok name) : name = s := by
  by_cases hs : s ∈ ds.dims
  · rw [dsAxisName_name ds s hs] at h
    exact (Except.ok.inj h).symm
  · have hp : ¬ (ds.axes.map (·.name)).idxOf s < ds.axes.length := by
      intro hlt
      exact hs (List.idxOf_lt_length_iff.1 (by simpa [Ds.dims] using hlt))
    unfold dsAxisName axisPos at h
    simp [hp, bind, Except.bind] at h

theorem sameKeys_perm {a b : List String} (h : sameKeys a b = true) : a.Perm b := by
  unfold sameKeys at h
  exact List.isPerm_iff.1 h

theorem stackChk_some (name : String) : ∀ (l : List (Ds α)) (v : List String) (r : Option (List String)),
    l.foldlM (stackChk name) (some v) = .ok r → r = some v ∧ ∀ ds ∈ l, name ∉ ds.dims ∧ ds.keys.Perm v
  | [], v, r, h => by
    simp only [List.foldlM_nil, pure, Except.pure, Except.ok.injEq] at h
    exact ⟨h.symm, fun ds hds => by cases hds⟩
  | d :: l, v, r, h => by
    rw [List.foldlM_cons] at h
    unfold stackChk at h
    by_cases hc : d.dims.contains name = true
    · have hm : name ∈ d.dims := by simpa using hc
      simp [hm, bind, Except.bind] at h
    · by_cases hs : sameKeys d.keys v = true
      · simp only [hc, hs, if_true, if_false, Bool.false_eq_true, pure, Except.pure, bind, Except.bind] at h
        obtain ⟨h1, h2⟩ := stackChk_some name l v r h
        refine ⟨h1, ?_⟩
        intro ds hds
        rcases List.mem_cons.1 hds with rfl | hds
        · exact ⟨by simpa using hc, sameKeys_perm hs⟩
        · exact h2 ds hds
      · simp [hs, bind, Except.bind] at h

theorem stackChk_spec (name : String) (d0 : Ds α) (rest : List (Ds α)) (r : Option (List String))
    (h : (d0 :: rest).foldlM (stackChk name) none = .ok r) :
    r = some d0.keys ∧ ∀ ds ∈ d0 :: rest, name ∉ ds.dims ∧ ds.keys.Perm d0.keys := by
  rw [List.foldlM_cons] at h
  by_cases hc : d0.dims.contains name = true
  · have hm : name ∈ d0.dims := by simpa using hc
    simp [stackChk, hm, bind, Except.bind] at h
  · have : stackChk name none d0 = .ok (some d0.keys) := by
      simp only [stackChk, hc, if_false, Bool.false_eq_true, pure, Except.pure]
    rw [this] at h
    obtain ⟨h1, h2⟩ := stackChk_some name rest d0.keys r h
    refine ⟨h1, ?_⟩
    intro ds hds
    rcases List.mem_cons.1 hds with rfl | hds
    · exact ⟨by simpa using hc, List.Perm.refl _⟩
    · exact h2 ds hds

theorem catChk_some : ∀ (l : List (Ds α)) (v : List String) (r : Option (List String)),
    l.foldlM catChk (some v) = .ok r → r = some v ∧ ∀ ds ∈ l, ds.keys.Perm v
  | [], v, r, h => by
    simp only [List.foldlM_nil, pure, Except.pure, Except.ok.injEq] at h
    exact ⟨h.symm, fun ds hds => by cases hds⟩
  | d :: l, v, r, h => by
    rw [List.foldlM_cons] at h
    unfold catChk at h
    by_cases hs : sameKeys d.keys v = true
    · simp only [hs, if_true, pure, Except.pure, bind, Except.bind] at h
      obtain ⟨h1, h2⟩ := catChk_some l v r h
      refine ⟨h1, ?_⟩
      intro ds hds
      rcases List.mem_cons.1 hds with rfl | hds
      · exact sameKeys_perm hs
      · exact h2 ds hds
    · simp [hs, bind, Except.bind] at h

theorem catChk_spec (d0 : Ds α) (rest : List (Ds α)) (r : Option (List String))
    (h : (d0 :: rest).foldlM catChk none = .ok r) :
    r = some d0.keys ∧ ∀ ds ∈ d0 :: rest, ds.keys.Perm d0.keys := by
  rw [List.foldlM_cons] at h
  have : catChk none d0 = .ok (some d0.keys) := rfl
  rw [this] at h
  obtain ⟨h1, h2⟩ := catChk_some rest d0.keys r h
  refine ⟨h1, ?_⟩
  intro ds hds
  rcases List.mem_cons.1 hds with rfl | hds
  · exact List.Perm.refl _
  · exact h2 ds hds

/-- `[ds[v] for ds in datasets]`: one variable per Dataset, in order -/
theorem gather_rel (datasets : List (Ds α)) (v : String) (arrays : List (DimArray α))
    (h : gather datasets v = .ok arrays) : Rel2 (fun ds a => (v, a) ∈ ds.vars) datasets arrays := by
  unfold gather at h
  apply (mapM_rel2 _ _ _ h).imp
  intro ds a _ _ hda
  unfold Ds.get? at hda
  cases hf : ds.vars.find? (fun kv => kv.1 == v) with
  | none => simp [hf] at hda
  | some kv =>
    simp only [hf, Option.map_some, pure, Except.pure, Except.ok.injEq] at hda
    subst hda
    have h1 := List.mem_of_find?_eq_some hf
    have h2 : kv.1 = v := by simpa using List.find?_some hf
    rw [← h2]
    exact h1

/-- the second loop of `stack_ds` / `concatenate_ds`: a `mapM` of the joins and a run of `__setitem__` -/
theorem joinLoop_core (J : List (DimArray α) → Except Err (DimArray α)) (datasets : List (Ds α))
    (vars : List String) (out : Ds α) (hk : vars.Nodup)
    (hJ : ∀ v ∈ vars, ∀ arrays r, gather datasets v = .ok arrays → J arrays = .ok r → r.dims.Nodup)
    (h : vars.foldlM (joinStep J datasets) {} = .ok out) :
    out.keys = vars ∧ out.attrs = [] ∧ SharedAxes out ∧ OwnAxes out ∧
    (∀ v ∈ vars, ∃ arrays s r, gather datasets v = .ok arrays ∧ J arrays = .ok s ∧ (v, r) ∈ out.vars ∧ SameVar r s) ∧
    (∀ e ∈ out.axes, ∃ v ∈ vars, ∃ arrays s, gather datasets v = .ok arrays ∧ J arrays = .ok s ∧ e ∈ s.axes) := by
  let g : String → Except Err (String × DimArray α) := fun v =>
    gather datasets v >>= fun arrays => J arrays >>= fun array => pure (v, array)
  have hloop : vars.foldlM (fun (res : Ds α) v => g v >>= fun kr => setItem res kr.1 kr.2) {} = .ok out := by
    have : (fun (res : Ds α) v => g v >>= fun kr => setItem res kr.1 kr.2) = joinStep J datasets := by
      funext res v
      unfold joinStep
      show ((gather datasets v >>= fun arrays => J arrays >>= fun array => pure (v, array)) >>= _) = _
      cases gather datasets v with
      | error e => rfl
      | ok arrays =>
        show ((J arrays >>= fun array => pure (v, array)) >>= _) = (J arrays >>= _)
        cases J arrays <;> rfl
    rw [this]
    exact h
  obtain ⟨ys, hys, hbuild⟩ := foldlM_compute g (fun (ds : Ds α) kv => setItem ds kv.1 kv.2) _ _ _ hloop
  have hrel := mapM_rel2 _ _ _ hys
  have hone : ∀ v y, g v = .ok y → ∃ arrays s, gather datasets v = .ok arrays ∧ J arrays = .ok s ∧ y = (v, s) := by
    intro v y hy
    replace hy : (gather datasets v >>= fun arrays => J arrays >>= fun array => pure (v, array)) = .ok y := hy
    cases hg : gather datasets v with
    | error e => rw [hg] at hy; cases hy
    | ok arrays =>
      rw [hg] at hy
      replace hy : (J arrays >>= fun array => pure (v, array)) = .ok y := hy
      cases hj : J arrays with
      | error e => rw [hj] at hy; cases hy
      | ok s => rw [hj] at hy; cases hy; exact ⟨arrays, s, rfl, hj, rfl⟩
  have hkeys : ys.map (·.1) = vars := by
    have := (hrel.map_eq (fun v => v) (·.1) fun v y hy => by obtain ⟨_, _, _, _, rfl⟩ := hone v y hy; rfl).symm
    simpa using this
  have hynd : ∀ y ∈ ys, y.2.dims.Nodup := by
    intro y hy
    obtain ⟨v, hv, hvy⟩ := hrel.mem_right y hy
    obtain ⟨arrays, s, hg, hj, rfl⟩ := hone v y hvy
    exact hJ v hv arrays s hg hj
  obtain ⟨hk', hat, hsh, hown, _, hax, hrel2⟩ := build_spec ys out (hkeys ▸ hk) hynd hbuild
  refine ⟨hk'.trans hkeys, hat, hsh, hown, ?_, ?_⟩
  · intro v hv
    obtain ⟨y, hy, hvy⟩ := hrel.mem_left v hv
    obtain ⟨arrays, s, hg, hj, rfl⟩ := hone v y hvy
    obtain ⟨kr, hkr, hk'', hsame⟩ := hrel2.mem_right _ hy
    refine ⟨arrays, s, kr.2, hg, hj, ?_, hsame⟩
    have : kr = (v, kr.2) := Prod.ext hk'' rfl
    rw [← this]
    exact hkr
  · intro e he
    obtain ⟨y, hy, hm⟩ := hax e he
    obtain ⟨v, hv, hvy⟩ := hrel.mem_right y hy
    obtain ⟨arrays, s, hg, hj, rfl⟩ := hone v y hvy
    exact ⟨v, hv, arrays, s, hg, hj, hm⟩

/-- `concatenate` along a dimension the first input lacks: ValueError (`dims.index`) -/
theorem concatenate_name_missing (nan : α) (a0 : DimArray α) (t : List (DimArray α)) (name : String)
    (h : name ∉ a0.dims) : concatenate nan (a0 :: t) (.name name) false false = .error .value := by
  have hp : ¬ a0.dims.idxOf name < a0.dims.length := fun hlt => h (List.idxOf_lt_length_iff.1 hlt)
  unfold concatenate
  simp [hp, bind, Except.bind, pure, Except.pure]

/-! ### `copy` -/

theorem attrs_update_fresh : ∀ (b acc : Attrs), (b.map (·.1)).Nodup → (∀ kv ∈ b, ∀ x ∈ acc, x.1 ≠ kv.1) →
    Attrs.update acc b = acc ++ b
  | [], acc, _, _ => by simp [Attrs.update]
  | kv :: b, acc, hnd, hdis => by
    simp only [List.map_cons, List.nodup_cons] at hnd
    have hany : acc.any (fun x => x.1 == kv.1) = false := by
      rw [List.any_eq_false]
      intro x hx
      simpa using hdis kv List.mem_cons_self x hx
    unfold Attrs.update
    rw [List.foldl_cons]
    simp only [hany, Bool.false_eq_true, if_false]
    have := attrs_update_fresh b (acc ++ [kv]) hnd.2 (by
      intro kv' hkv' x hx
      rcases List.mem_append.1 hx with hx | hx
      · exact hdis kv' (List.mem_cons_of_mem _ hkv') x hx
      · simp only [List.mem_singleton] at hx
        subst hx
        intro he
        exact hnd.1 (he ▸ List.mem_map_of_mem (f := (·.1)) hkv'))
    unfold Attrs.update at this
    rw [this]
    simp

/-- `dict.update` of an empty dict -/
theorem attrs_update_nil (b : Attrs) (hnd : (b.map (·.1)).Nodup) : Attrs.update [] b = b := by
  rw [attrs_update_fresh b [] hnd (fun _ _ x hx => by cases hx)]
  rfl

end DSV
end DimModel

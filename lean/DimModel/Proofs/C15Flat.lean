/- C15 - flatten: view iff contiguous -/
import DimModel.Lib.HeapFlat
import DimModel.Proofs.C15X
namespace DimModel
namespace Heap

theorem overlap_self {w : List Nat} (hne : w ≠ []) : overlap w w = true := by
  cases w with
  | nil => exact absurd rfl hne
  | cons a w => simp [overlap]

theorem flattenAll_result {h h' : H} {r r' v : Ref} {w sh : List Nat} {ax : List Ref} {t : Ref}
    (hx : h[r]? = some (.arr v w sh ax t)) (hop : flattenAll h r = some (h', r')) :
    ∃ w' ax' t', h'[r']? = some (.arr (if contiguous w then v else h.length) w' [w.length] ax' t') ∧
      (contiguous w = true → w' = w) := by
  unfold flattenAll at hop
  rw [hx] at hop
  simp only [] at hop
  split at hop
  · cases hop
  · cases hc : contiguous w with
    | true =>
      simp only [hc, if_true] at hop
      obtain ⟨e1, _⟩ := alloc_get hop
      exact ⟨_, _, _, e1, fun _ => rfl⟩
    | false =>
      simp only [hc, Bool.false_eq_true, if_false] at hop
      obtain ⟨e1, _⟩ := alloc_get hop
      exact ⟨_, _, _, e1, fun hh => by cases hh⟩

/-- `b = a.flatten()`: np.shares_memory(b.values, a.values) iff `a` is contiguous (non-empty `a` living in `h`) -/
theorem flatten_shares_aux {h h' : H} {r r' v : Ref} {w sh : List Nat} {ax : List Ref} {t : Ref}
    (hx : h[r]? = some (.arr v w sh ax t)) (hv : v < h.length) (hne : w ≠ [])
    (hop : flattenAll h r = some (h', r')) :
    ∃ v' w' ax' t', h'[r']? = some (.arr v' w' [w.length] ax' t') ∧ ((v == v' && overlap w w') = contiguous w) := by
  obtain ⟨w', ax', t', e1, e2⟩ := flattenAll_result hx hop
  refine ⟨_, _, _, _, e1, ?_⟩
  cases hc : contiguous w with
  | true =>
    rw [e2 hc, overlap_self hne]
    simp
  | false =>
    have : (v == h.length) = false := by
      have hne' : v ≠ h.length := Nat.ne_of_lt hv
      simpa using hne'
    simp [this]

end Heap
end DimModel

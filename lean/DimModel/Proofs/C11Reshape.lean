/-
C11 - helper lemmas for the end-to-end theorems about `Lib.reshape`: the pipeline
unflatten -> squeeze -> transpose -> newaxis -> flatten, stage by stage.
-/
import DimModel.Proofs.C11
namespace DimModel
open Lib
namespace C11
variable {α : Type}

/-! ### monadic list helpers (Except) -/

theorem foldlM_fixed {β σ : Type} (f : σ → β → Except Err σ) (l : List β) (s : σ)
    (h : ∀ x ∈ l, f s x = pure s) : l.foldlM f s = pure s := by
  induction l with
  | nil => rfl
  | cons x l ih =>
    rw [List.foldlM_cons, h x List.mem_cons_self, pure_bind]
    exact ih (fun y hy => h y (List.mem_cons_of_mem _ hy))

theorem mapM_ok {β γ : Type} (f : β → Except Err γ) (g : β → γ) (l : List β)
    (h : ∀ x ∈ l, f x = .ok (g x)) : l.mapM f = .ok (l.map g) := by
  induction l with
  | nil => rfl
  | cons x l ih =>
    rw [List.mapM_cons, h x List.mem_cons_self, ih (fun y hy => h y (List.mem_cons_of_mem _ hy))]
    rfl

/-! ### the stages of `reshape` -/

def stSqueeze (flat : List String) (o : DimArray α) : Except Err (DimArray α) :=
  o.dims.foldlM (fun (o : DimArray α) d => if flat.contains d then pure o else squeeze o (some (.name d))) o
def stTranspose (flat : List String) (o : DimArray α) : Except Err (DimArray α) :=
  transpose o (some ((flat.filter (fun d => o.dims.contains d)).map DimKey.name))
def stNewaxis (flat : List String) (o : DimArray α) : Except Err (DimArray α) :=
  flat.zipIdx.foldlM (fun (o : DimArray α) (d, i) =>
    if o.dims.contains d then pure o else newaxis o d (i : Int) none) o
def stGroup (newdims : List String) (k : Nat) (o : DimArray α) : Except Err (DimArray α) :=
  (newdims.zipIdx k).foldlM (fun (o : DimArray α) (d, i) =>
    if d.contains ',' then flatten o (splitOnComma d) (some i) else pure o) o

theorem reshape_unfold (a : DimArray α) (newdims : List String) :
    reshape a newdims =
      if newdims == a.dims then pure a else
      if newdims.eraseDups.length != newdims.length then .error .assertion else
      if (newdims.flatMap splitOnComma).eraseDups.length != (newdims.flatMap splitOnComma).length
        then .error .assertion else
      (do let o ← stSqueeze (newdims.flatMap splitOnComma) (unflattenAll a)
          let o ← stTranspose (newdims.flatMap splitOnComma) o
          let o ← stNewaxis (newdims.flatMap splitOnComma) o
          let o ← stGroup newdims 0 o
          if o.dims != newdims then .error .value else pure o) := rfl

theorem stSqueeze_id (flat : List String) (o : DimArray α) (h : ∀ d ∈ o.dims, d ∈ flat) :
    stSqueeze flat o = pure o := by
  unfold stSqueeze
  apply foldlM_fixed
  intro d hd
  have : flat.contains d = true := by simpa only [List.contains_eq_mem, decide_eq_true_eq] using h d hd
  simp only [this, if_true]

theorem stNewaxis_id (flat : List String) (o : DimArray α) (h : ∀ d ∈ flat, d ∈ o.dims) :
    stNewaxis flat o = pure o := by
  unfold stNewaxis
  apply foldlM_fixed
  intro x hx
  have : o.dims.contains x.1 = true := by
    simpa only [List.contains_eq_mem, decide_eq_true_eq] using h x.1 (List.fst_mem_of_mem_zipIdx hx)
  simp only [this, if_true]

theorem stGroup_id (l : List String) (k : Nat) (o : DimArray α)
    (h : ∀ d ∈ l, d.contains ',' = false) : stGroup l k o = pure o := by
  unfold stGroup
  apply foldlM_fixed
  intro x hx
  simp only [h x.1 (List.fst_mem_of_mem_zipIdx hx), Bool.false_eq_true, if_false]

/-- one grouped name between comma-free names: the grouping stage is one `flatten` -/
theorem stGroup_one (pre post : List String) (J : String) (o : DimArray α)
    (hpre : ∀ d ∈ pre, d.contains ',' = false) (hpost : ∀ d ∈ post, d.contains ',' = false)
    (hJ : J.contains ',' = true) :
    stGroup (pre ++ [J] ++ post) 0 o = flatten o (splitOnComma J) (some pre.length) := by
  have h1 := stGroup_id pre 0 o hpre
  unfold stGroup at h1 ⊢
  rw [List.zipIdx_append, List.zipIdx_append, List.foldlM_append, List.foldlM_append, h1, pure_bind,
    List.zipIdx_singleton]
  simp only [List.foldlM_cons, List.foldlM_nil, hJ, if_true, Nat.zero_add, bind_pure]
  cases hf : flatten o (splitOnComma J) (some pre.length) with
  | error e => rfl
  | ok r =>
    have h2 := stGroup_id post (pre ++ [J]).length r hpost
    unfold stGroup at h2
    exact h2

/-- `transpose` to a list of names that is a permutation of the dims -/
theorem transpose_names (o : DimArray α) (l : List String) (hne : l ≠ []) (hD : o.dims.Nodup)
    (hp : l.Perm o.dims) :
    transpose o (some (l.map DimKey.name)) = .ok (transposeBy o (l.map (fun d => o.dims.idxOf d))) := by
  have hlt : ∀ d ∈ l, o.dims.idxOf d < o.dims.length :=
    fun d hd => List.idxOf_lt_length_of_mem (hp.mem_iff.mp hd)
  have hn : o.ndim = o.dims.length := by simp only [DimArray.ndim, DimArray.dims, List.length_map]
  have hpos : axesPositions o (l.map DimKey.name) = .ok (l.map (fun d => ((o.dims.idxOf d : Nat) : Int))) := by
    unfold axesPositions
    rw [List.mapM_map]
    apply mapM_ok
    intro d hd
    simp only [Function.comp_apply, hlt d hd, if_true]
  have hperm : (l.map (fun d => o.dims.idxOf d)).Perm (List.range o.dims.length) := by
    have h := hp.map (fun d => o.dims.idxOf d)
    rwa [map_idxOf_self o.dims hD] at h
  have hnorm : normPerm o.ndim (l.map (fun d => ((o.dims.idxOf d : Nat) : Int)))
      = .ok (l.map (fun d => o.dims.idxOf d)) := by
    unfold normPerm
    have hl : (l.map (fun d => ((o.dims.idxOf d : Nat) : Int))).length = o.ndim := by
      rw [List.length_map, hn, ← hperm.length_eq.trans List.length_range, List.length_map]
    have hm : (l.map (fun d => ((o.dims.idxOf d : Nat) : Int))).mapM (fun (i : Int) =>
          let j : Int := if i < 0 then i + (o.ndim : Int) else i
          if j < 0 || j ≥ (o.ndim : Int) then (.error .value : Except Err Nat) else .ok j.toNat)
        = .ok (l.map (fun d => o.dims.idxOf d)) := by
      rw [List.mapM_map]
      apply mapM_ok
      intro d hd
      have := hlt d hd
      have h0 : ¬ (((o.dims.idxOf d : Nat) : Int) < 0) := by omega
      simp only [Function.comp_apply, h0, if_false, Int.toNat_natCast]
      have h1 : ¬ (((o.dims.idxOf d : Nat) : Int) ≥ (o.ndim : Int)) := by rw [hn]; omega
      simp only [h1, decide_false, Bool.or_self, Bool.false_eq_true, if_false]
    simp only [hl, bne_self_eq_false, Bool.false_eq_true, if_false]
    rw [hm]
    have hnd : (l.map (fun d => o.dims.idxOf d)).Nodup := hperm.nodup_iff.mpr List.nodup_range
    show (if ((l.map (fun d => o.dims.idxOf d)).eraseDups.length
        != (l.map (fun d => o.dims.idxOf d)).length) = true then _ else _) = _
    rw [eraseDups_of_nodup _ hnd]
    simp only [bne_self_eq_false, Bool.false_eq_true, if_false]
    rfl
  have hne' : (l.map DimKey.name).isEmpty = false := by
    cases l with
    | nil => exact absurd rfl hne
    | cons _ _ => rfl
  unfold transpose
  simp only [hne', Bool.false_eq_true, if_false, Bool.and_false, pure_bind]
  show (do let pi ← axesPositions o (l.map DimKey.name); let p ← normPerm o.ndim pi; pure (transposeBy o p)) = _
  rw [hpos]
  show (do let p ← normPerm o.ndim _; pure (transposeBy o p)) = _
  rw [hnorm]
  rfl

end C11
end DimModel

namespace DimModel
open Lib
namespace C11
variable {α : Type}

/-! ### transposing to a list of names -/

/-- transpose to the order `l` of dimension names -/
def transposeTo (o : DimArray α) (l : List String) : DimArray α :=
  transposeBy o (l.map (fun d => o.dims.idxOf d))

theorem transposeTo_axes (o : DimArray α) (l : List String) :
    (transposeTo o l).axes = l.map o.axisOf := by
  simp only [transposeTo, transposeBy, List.map_map]; rfl

theorem transposeTo_dims (o : DimArray α) (l : List String) (hl : ∀ d ∈ l, d ∈ o.dims) :
    (transposeTo o l).dims = l := by
  show (transposeTo o l).axes.map (·.name) = l
  rw [transposeTo_axes, map_name_axisOf o l hl]

theorem transposeTo_isPerm (o : DimArray α) (l : List String) (hD : o.dims.Nodup) (hp : l.Perm o.dims) :
    IsPerm (l.map (fun d => o.dims.idxOf d)) o.axes.length := by
  have h := hp.map (fun d => o.dims.idxOf d)
  rw [map_idxOf_self o.dims hD] at h
  have hl : o.dims.length = o.axes.length := by simp only [DimArray.dims, List.length_map]
  rw [hl] at h
  exact isPerm_of_perm_range h

theorem transposeTo_shape (o : DimArray α) (l : List String) (hshape : o.vals.shape = o.axes.map (·.size))
    (hl : ∀ d ∈ l, d ∈ o.dims) : (transposeTo o l).vals.shape = (transposeTo o l).axes.map (·.size) := by
  rw [transposeTo_axes, List.map_map]
  simp only [transposeTo, transposeBy, NDArr.transpose, List.map_map]
  apply List.map_congr_left
  intro d hd
  exact shape_getD o hshape d (hl d hd)

theorem transposeTo_WF (o : DimArray α) (l : List String) (hwf : o.WF) (hp : l.Perm o.dims) :
    (transposeTo o l).WF := by
  have hl : ∀ d ∈ l, d ∈ o.dims := fun d hd => hp.mem_iff.mp hd
  refine ⟨transposeTo_shape o l hwf.1 hl, ?_, ?_⟩
  · have := transposeTo_dims o l hl
    simp only [DimArray.dims] at this
    rw [this]; exact hp.nodup_iff.mpr hwf.2.1
  · intro ax hax
    rw [transposeTo_axes] at hax
    obtain ⟨d, hd, rfl⟩ := List.mem_map.mp hax
    exact hwf.2.2 _ (axisOf_mem o d (hl d hd))

theorem transposeTo_at (o : DimArray α) (l : List String) (hwf : o.WF) (hp : l.Perm o.dims)
    (c : String → Nat) : (transposeTo o l).at c = o.at c :=
  transposeBy_at o _ (transposeTo_isPerm o l hwf.2.1 hp) (by rw [hwf.1, List.length_map]) c

theorem transposeTo_axisOf (o : DimArray α) (l : List String) (hl : ∀ d ∈ l, d ∈ o.dims)
    (d : String) (hd : d ∈ l) : (transposeTo o l).axisOf d = o.axisOf d := by
  unfold DimArray.axisOf
  rw [transposeTo_dims o l hl, transposeTo_axes]
  have hi : l.idxOf d < l.length := List.idxOf_lt_length_of_mem hd
  rw [List.getD_eq_getElem?_getD, List.getElem?_map, List.getElem?_eq_getElem hi, List.getElem_idxOf hi]
  rfl

/-- `unflatten()` of an array without grouped axes is the array -/
theorem unflattenAll_plain (a : DimArray α) (hplain : ∀ ax ∈ a.axes, ax.members = []) :
    unflattenAll a = a := by
  unfold unflattenAll
  cases hn : a.ndim with
  | zero => rfl
  | succ k =>
    unfold unflattenAll.go
    rw [find_range_none]
    intro j hj
    rw [List.getD_eq_getElem?_getD]
    cases hj : a.axes[j]? with
    | none => rfl
    | some ax =>
      simp only [Option.getD_some, Axis.isMulti, hplain ax (List.mem_of_getElem? hj), List.isEmpty_nil,
        Bool.not_true]

/-- reshape to a comma-free permutation of the (ungrouped) dims: squeeze, newaxis and grouping do
nothing, the result is the transpose -/
theorem reshape_perm_core (a : DimArray α) (newdims : List String)
    (hneq : (newdims == a.dims) = false) (hne : newdims ≠ [])
    (hD : (unflattenAll a).dims.Nodup) (hp : newdims.Perm (unflattenAll a).dims)
    (hflat : newdims.flatMap splitOnComma = newdims)
    (hnc : ∀ d ∈ newdims, d.contains ',' = false) :
    reshape a newdims = .ok (transposeTo (unflattenAll a) newdims) := by
  have hnd : newdims.Nodup := hp.nodup_iff.mpr hD
  have hmem : ∀ d ∈ newdims, d ∈ (unflattenAll a).dims := fun d hd => hp.mem_iff.mp hd
  rw [reshape_unfold, hneq, hflat, eraseDups_of_nodup _ hnd]
  simp only [Bool.false_eq_true, if_false, bne_self_eq_false]
  rw [stSqueeze_id _ _ (fun d hd => hp.mem_iff.mpr hd), pure_bind]
  have hfil : newdims.filter (fun d => (unflattenAll a).dims.contains d) = newdims := by
    rw [List.filter_eq_self]
    intro d hd
    simpa only [List.contains_eq_mem, decide_eq_true_eq] using hmem d hd
  unfold stTranspose
  rw [hfil, transpose_names _ _ hne hD hp]
  have hdims := transposeTo_dims (unflattenAll a) newdims hmem
  show (do let o ← stNewaxis newdims (transposeTo (unflattenAll a) newdims); _) = _
  rw [stNewaxis_id _ _ (fun d hd => by rw [hdims]; exact hd)]
  show (do let o ← stGroup newdims 0 (transposeTo (unflattenAll a) newdims); _) = _
  rw [stGroup_id _ _ _ hnc]
  show (if ((transposeTo (unflattenAll a) newdims).dims != newdims) = true then _ else _) = _
  rw [hdims]
  simp only [bne_self_eq_false, Bool.false_eq_true, if_false]
  rfl

end C11
end DimModel

namespace DimModel
open Lib
namespace C11
variable {α : Type}

theorem flatMap_split_id (l : List String) (h : ∀ d ∈ l, splitOnComma d = [d]) :
    l.flatMap splitOnComma = l := by
  induction l with
  | nil => rfl
  | cons d l ih =>
    rw [List.flatMap_cons, h d List.mem_cons_self, ih (fun e he => h e (List.mem_cons_of_mem _ he))]
    rfl

theorem nodup_one_group (pre post grp : List String) (J : String)
    (hpre : ∀ d ∈ pre, d.contains ',' = false) (hpost : ∀ d ∈ post, d.contains ',' = false)
    (hJ : J.contains ',' = true) (hnd : (pre ++ grp ++ post).Nodup) : (pre ++ [J] ++ post).Nodup := by
  rw [List.append_assoc, List.nodup_append] at hnd ⊢
  obtain ⟨h1, h2, h3⟩ := hnd
  rw [List.nodup_append] at h2
  refine ⟨h1, ?_, ?_⟩
  · rw [List.singleton_append, List.nodup_cons]
    refine ⟨fun hm => ?_, h2.2.1⟩
    have := hpost J hm
    rw [hJ] at this; exact Bool.noConfusion this
  · intro x hx y hy
    rw [List.singleton_append, List.mem_cons] at hy
    rcases hy with rfl | hy
    · intro e; subst e
      have := hpre x hx
      rw [hJ] at this; exact Bool.noConfusion this
    · exact h3 x hx y (List.mem_append_right _ hy)

/-- reshape with one grouped name between comma-free names, the split names being a permutation of
the dims of an array without grouped axes: squeeze and newaxis do nothing, the result is `flatten`
of the transposed array -/
theorem reshape_group_core (a : DimArray α) (pre post : List String) (J : String)
    (hplain : ∀ ax ∈ a.axes, ax.members = []) (hD : a.dims.Nodup)
    (hneq : (pre ++ [J] ++ post == a.dims) = false)
    (hpre : ∀ d ∈ pre, splitOnComma d = [d] ∧ d.contains ',' = false)
    (hpost : ∀ d ∈ post, splitOnComma d = [d] ∧ d.contains ',' = false)
    (hJ : J.contains ',' = true)
    (hp : (pre ++ splitOnComma J ++ post).Perm a.dims) (hgne : splitOnComma J ≠ []) :
    reshape a (pre ++ [J] ++ post) =
      (do let r ← flatten (transposeTo a (pre ++ splitOnComma J ++ post)) (splitOnComma J) (some pre.length)
          if r.dims != pre ++ [J] ++ post then .error .value else pure r) := by
  have hflat : (pre ++ [J] ++ post).flatMap splitOnComma = pre ++ splitOnComma J ++ post := by
    rw [List.flatMap_append, List.flatMap_append, flatMap_split_id pre (fun d hd => (hpre d hd).1),
      flatMap_split_id post (fun d hd => (hpost d hd).1)]
    simp only [List.flatMap_cons, List.flatMap_nil, List.append_nil]
  have hfnd : (pre ++ splitOnComma J ++ post).Nodup := hp.nodup_iff.mpr hD
  have hnd := nodup_one_group pre post _ J (fun d hd => (hpre d hd).2) (fun d hd => (hpost d hd).2) hJ hfnd
  have hmem : ∀ d ∈ pre ++ splitOnComma J ++ post, d ∈ a.dims := fun d hd => hp.mem_iff.mp hd
  have hfne : pre ++ splitOnComma J ++ post ≠ [] := by
    intro h
    have := congrArg List.length h
    simp only [List.length_append, List.length_nil] at this
    have : (splitOnComma J).length = 0 := by omega
    exact hgne (List.length_eq_zero_iff.mp this)
  rw [reshape_unfold, hneq, hflat, eraseDups_of_nodup _ hnd, eraseDups_of_nodup _ hfnd,
    unflattenAll_plain a hplain]
  simp only [Bool.false_eq_true, if_false, bne_self_eq_false]
  rw [stSqueeze_id _ _ (fun d hd => hp.mem_iff.mpr hd), pure_bind]
  have hfil : (pre ++ splitOnComma J ++ post).filter (fun d => a.dims.contains d)
      = pre ++ splitOnComma J ++ post := by
    rw [List.filter_eq_self]
    intro d hd
    simpa only [List.contains_eq_mem, decide_eq_true_eq] using hmem d hd
  unfold stTranspose
  rw [hfil, transpose_names _ _ hfne hD hp]
  have hdims := transposeTo_dims a _ hmem
  show (do let o ← stNewaxis _ (transposeTo a (pre ++ splitOnComma J ++ post)); _) = _
  rw [stNewaxis_id _ _ (fun d hd => by rw [hdims]; exact hd)]
  show (do let o ← stGroup _ 0 (transposeTo a (pre ++ splitOnComma J ++ post)); _) = _
  rw [stGroup_one pre post J _ (fun d hd => (hpre d hd).2) (fun d hd => (hpost d hd).2) hJ]

end C11
end DimModel

namespace DimModel
open Lib
namespace C11
variable {α : Type}

theorem filter_out_group (pre grp post : List String) (hnd : (pre ++ grp ++ post).Nodup) :
    (pre ++ grp ++ post).filter (fun d => !grp.contains d) = pre ++ post := by
  rw [List.nodup_append] at hnd
  obtain ⟨h1, _, h3⟩ := hnd
  rw [List.nodup_append] at h1
  have hpre : pre.filter (fun d => !grp.contains d) = pre := by
    rw [List.filter_eq_self]
    intro d hd
    simp only [Bool.not_eq_true', List.contains_eq_mem, decide_eq_false_iff_not]
    exact fun hg => h1.2.2 d hd d hg rfl
  have hpost : post.filter (fun d => !grp.contains d) = post := by
    rw [List.filter_eq_self]
    intro d hd
    simp only [Bool.not_eq_true', List.contains_eq_mem, decide_eq_false_iff_not]
    exact fun hg => h3 d (List.mem_append_right _ hg) d hd rfl
  have hgrp : grp.filter (fun d => !grp.contains d) = [] := by
    rw [List.filter_eq_nil_iff]
    intro d hd
    simpa only [Bool.not_eq_true', List.contains_eq_mem, decide_eq_false_iff_not, Decidable.not_not] using hd
  rw [List.filter_append, List.filter_append, hpre, hpost, hgrp, List.append_nil]

theorem grp_nodup (pre grp post : List String) (hnd : (pre ++ grp ++ post).Nodup) : grp.Nodup := by
  rw [List.nodup_append] at hnd
  have := hnd.1
  rw [List.nodup_append] at this
  exact this.2.1

end C11
end DimModel

namespace DimModel
open Lib
namespace C11
variable {α : Type}

/-! ### singleton insertion / removal stages -/

theorem map_eraseIdx {β γ} (f : β → γ) :
    ∀ (l : List β) (i : Nat), (l.eraseIdx i).map f = (l.map f).eraseIdx i
  | [], _ => rfl
  | _ :: _, 0 => rfl
  | x :: l, i + 1 => by
    simp only [List.eraseIdx_cons_succ, List.map_cons, map_eraseIdx f l i]

theorem map_insertIdx {β γ} (f : β → γ) (a : β) :
    ∀ (l : List β) (i : Nat), (l.insertIdx i a).map f = (l.map f).insertIdx i (f a)
  | l, 0 => by simp only [List.insertIdx_zero, List.map_cons]
  | [], i + 1 => by simp only [List.insertIdx_succ_nil, List.map_nil]
  | x :: l, i + 1 => by
    simp only [List.insertIdx_succ_cons, List.map_cons, map_insertIdx f a l i]

theorem insertIdx_append_len {β} (x : β) : ∀ (l1 l2 : List β), (l1 ++ l2).insertIdx l1.length x = l1 ++ x :: l2
  | [], l2 => by simp only [List.nil_append, List.length_nil, List.insertIdx_zero]
  | y :: l1, l2 => by
    simp only [List.cons_append, List.length_cons, List.insertIdx_succ_cons, insertIdx_append_len x l1 l2]

theorem eraseIdx_append_len {β} (x : β) : ∀ (l1 l2 : List β), (l1 ++ x :: l2).eraseIdx l1.length = l1 ++ l2
  | [], l2 => rfl
  | y :: l1, l2 => by
    simp only [List.cons_append, List.length_cons, List.eraseIdx_cons_succ, eraseIdx_append_len x l1 l2]

/-- the transpose stage when the target keeps the order of the existing dims: same axes, same
name-addressed elements -/
theorem stTranspose_self (a : DimArray α) (flat : List String) (hwf : a.WF)
    (hfil : flat.filter (fun d => a.dims.contains d) = a.dims) :
    ∃ o', stTranspose flat a = .ok o' ∧ o'.axes = a.axes ∧ o'.vals.shape = a.vals.shape ∧
      o'.attrs = a.attrs ∧ o'.vkind = a.vkind ∧ ∀ c, o'.at c = a.at c := by
  unfold stTranspose
  rw [hfil]
  by_cases he : a.dims = []
  · refine ⟨a, ?_, rfl, rfl, rfl, rfl, fun _ => rfl⟩
    have hn : a.ndim = 0 := by
      have := congrArg List.length he
      simpa only [DimArray.ndim, DimArray.dims, List.length_map, List.length_nil] using this
    rw [he]
    unfold transpose
    simp only [List.map_nil, List.isEmpty_nil, if_true, hn, beq_self_eq_true, pure_bind, Bool.and_self]
    rfl
  · have hmem : ∀ d ∈ a.dims, d ∈ a.dims := fun _ h => h
    refine ⟨_, transpose_names a a.dims he hwf.2.1 (List.Perm.refl _), ?_, ?_, rfl, rfl, ?_⟩
    · exact (transposeTo_axes a a.dims).trans (map_axisOf_dims a hwf.2.1)
    · show (transposeTo a a.dims).vals.shape = _
      rw [transposeTo_shape a a.dims hwf.1 hmem, transposeTo_axes, map_axisOf_dims a hwf.2.1, hwf.1]
    · exact transposeTo_at a a.dims hwf (List.Perm.refl _)

/-- the array `newaxis` builds -/
def withNewaxis (o : DimArray α) (name : String) (k : Nat) : DimArray α :=
  { axes := o.axes.insertIdx k { name := name, labels := [Label.none], kind := .O }
    vals := o.vals.insertDim k, vkind := o.vkind, attrs := o.attrs }

theorem withNewaxis_dims (o : DimArray α) (name : String) (k : Nat) :
    (withNewaxis o name k).dims = o.dims.insertIdx k name := by
  simp only [withNewaxis, DimArray.dims, map_insertIdx]

theorem stNewaxis_one (pre post : List String) (new : String) (o : DimArray α)
    (hd : o.dims = pre ++ post) (hnew : new ∉ o.dims) :
    stNewaxis (pre ++ [new] ++ post) o = .ok (withNewaxis o new pre.length) := by
  have hn : o.ndim = pre.length + post.length := by
    have := congrArg List.length hd
    simpa only [DimArray.ndim, DimArray.dims, List.length_map, List.length_append] using this
  have h1 : stNewaxis pre o = pure o :=
    stNewaxis_id pre o (fun d hd' => by rw [hd]; exact List.mem_append_left _ hd')
  have hna : newaxis o new ((pre.length : Nat) : Int) none = .ok (withNewaxis o new pre.length) := by
    unfold newaxis
    have hc : o.dims.contains new = false := by
      simpa only [List.contains_eq_mem, decide_eq_false_iff_not] using hnew
    have h0 : ¬ (((pre.length : Nat) : Int) < 0) := by omega
    have h2 : (decide (((pre.length : Nat) : Int) < 0) || decide (((pre.length : Nat) : Int) > (o.ndim : Int))) = false := by
      rw [hn]
      simp only [Bool.or_eq_false_iff, decide_eq_false_iff_not]
      omega
    have h3 : ¬ (((pre.length : Nat) : Int) > (o.ndim : Int)) := by rw [hn]; omega
    simp only [hc, h0, h3, decide_false, Bool.or_self, Bool.false_eq_true, if_false, Int.toNat_natCast]
    rfl
  unfold stNewaxis at h1 ⊢
  rw [List.zipIdx_append, List.zipIdx_append, List.foldlM_append, List.foldlM_append, h1, pure_bind,
    List.zipIdx_singleton]
  have hc : o.dims.contains new = false := by
    simpa only [List.contains_eq_mem, decide_eq_false_iff_not] using hnew
  simp only [List.foldlM_cons, List.foldlM_nil, hc, Bool.false_eq_true, if_false, Nat.zero_add, bind_pure]
  rw [hna]
  have h3 := stNewaxis_id post (withNewaxis o new pre.length) (fun d hd' => by
    rw [withNewaxis_dims, hd, insertIdx_append_len]
    exact List.mem_append_right _ (List.mem_cons_of_mem _ hd'))
  unfold stNewaxis at h3
  have h4 := foldlM_fixed (fun (o : DimArray α) (x : String × Nat) =>
      if o.dims.contains x.1 then pure o else newaxis o x.1 (x.2 : Int) none)
    (post.zipIdx (pre ++ [new]).length) (withNewaxis o new pre.length) (by
      intro x hx
      have : (withNewaxis o new pre.length).dims.contains x.1 = true := by
        rw [withNewaxis_dims, hd, insertIdx_append_len]
        simp only [List.contains_eq_mem, decide_eq_true_eq]
        exact List.mem_append_right _ (List.mem_cons_of_mem _ (List.fst_mem_of_mem_zipIdx hx))
      simp only [this, if_true])
  exact h4

/-- the array `squeeze(axis)` builds -/
def withoutAxis (o : DimArray α) (k : Nat) : DimArray α :=
  { axes := o.axes.eraseIdx k, vals := o.vals.dropDim k, vkind := o.vkind, attrs := o.attrs }

theorem stSqueeze_one (pre post : List String) (d : String) (a : DimArray α)
    (hd : a.dims = pre ++ d :: post) (hnd : a.dims.Nodup) (hsize : (a.axisOf d).size = 1) :
    stSqueeze (pre ++ post) a = .ok (withoutAxis a pre.length) := by
  rw [hd] at hnd
  have hdpre : d ∉ pre := by
    rw [List.nodup_append] at hnd
    exact fun h => hnd.2.2 d h d List.mem_cons_self rfl
  have hdpost : d ∉ post := by
    rw [List.nodup_append, List.nodup_cons] at hnd
    exact hnd.2.1.1
  have hidx : a.dims.idxOf d = pre.length := by
    rw [hd, List.idxOf_append, if_neg hdpre, List.idxOf_cons_self, Nat.zero_add]
  have hlen : pre.length < a.axes.length := by
    have := congrArg List.length hd
    simp only [DimArray.dims, List.length_map, List.length_append, List.length_cons] at this
    omega
  have hsq : squeeze a (some (.name d)) = .ok (withoutAxis a pre.length) := by
    unfold squeeze
    have hp : axisPos a.axes (.name d) = .ok pre.length := by
      unfold axisPos
      have : (a.axes.map (·.name)).idxOf d = pre.length := hidx
      simp only [this, hlen, if_true]
    have hs : (a.axes.getD pre.length default).size = 1 := by
      have : a.axisOf d = a.axes.getD pre.length default := by unfold DimArray.axisOf; rw [hidx]
      rw [← this]; exact hsize
    show (do let pos ← axisPos a.axes (.name d)
             if ((a.axes.getD pos default).size != 1) = true then Except.error Err.value
             else pure (withoutAxis a pos)) = _
    rw [hp]
    show (if ((a.axes.getD pre.length default).size != 1) = true then _ else _) = _
    rw [hs]
    rfl
  unfold stSqueeze
  rw [hd, List.foldlM_append]
  have hin : ∀ e ∈ pre ++ post, (pre ++ post).contains e = true := fun e he => by
    simpa only [List.contains_eq_mem, decide_eq_true_eq] using he
  rw [foldlM_fixed _ pre a (fun e he => by simp only [hin e (List.mem_append_left _ he), if_true]), pure_bind,
    List.foldlM_cons]
  have hnot : (pre ++ post).contains d = false := by
    simp only [List.contains_eq_mem, decide_eq_false_iff_not, List.mem_append, not_or]
    exact ⟨hdpre, hdpost⟩
  simp only [hnot, Bool.false_eq_true, if_false]
  rw [hsq]
  show List.foldlM _ (withoutAxis a pre.length) post = _
  exact foldlM_fixed _ post _ (fun e he => by simp only [hin e (List.mem_append_right _ he), if_true])

end C11
end DimModel

/-
Helper lemmas for C14, extension "c14ops": the Dataset operations that apply one DimArray operation to EVERY variable
and re-assemble a Dataset with `__setitem__` (`_unary_op`, `_rbinary_op`; `_binary_op` with a scalar is the instance
proved in Proofs/C14Ops.lean).
-/
import DimModel.Proofs.C14Ops
import DimModel.Lib.DatasetOps2
namespace DimModel
namespace DSV
open Lib

variable {α : Type}

/-- the loop `res = Dataset(); for k in self.keys(): res[k] = g(self[k])` -/
def mapVarsDs (g : DimArray α → Except Err (DimArray α)) (self : Ds α) : Except Err (Ds α) :=
  self.vars.foldlM (fun (res : Ds α) kv => g kv.2 >>= fun r => setItem res kv.1 r) {}

theorem unaryOpDs_eq (u : α → α) (self : Ds α) :
    unaryOpDs u self = mapVarsDs (fun v => .ok (unaryOp u v)) self := rfl

theorem rbinaryOpDs_eq (f : α → α → α) (self : Ds α) (c : α) :
    rbinaryOpDs f self (.scalar c) = mapVarsDs (fun v => operationNd f v (scalarNd c) true) self := rfl

theorem binaryOpDs_scalar_eq (nan : α) (f : α → α → α) (self : Ds α) (c : α) :
    binaryOpDs nan f self (.scalar c) = mapVarsDs (fun v => operationNd f v (scalarNd c) false) self := rfl

/-- converse of `foldlM_compute` -/
theorem foldlM_compute_ok {β γ σ : Type} (g : β → Except Err γ) (step : σ → γ → Except Err σ) :
    ∀ (l : List β) (ys : List γ) (init out : σ), l.mapM g = .ok ys → ys.foldlM step init = .ok out →
    l.foldlM (fun acc x => g x >>= fun r => step acc r) init = .ok out
  | [], ys, init, out, h1, h2 => by
    simp only [List.mapM_nil, pure, Except.pure, Except.ok.injEq] at h1
    subst h1
    exact h2
  | x :: l, ys, init, out, h1, h2 => by
    obtain ⟨b, bs, hb, hl, rfl⟩ := exMapM_cons_ok g x l ys h1
    rw [List.foldlM_cons] at h2 ⊢
    rw [hb]
    cases hs : step init b with
    | error e => rw [hs] at h2; cases h2
    | ok s =>
      rw [hs] at h2
      show (step init b >>= fun s => l.foldlM _ s) = _
      rw [hs]
      exact foldlM_compute_ok g step l bs s out hl h2

private theorem loop_form (g : DimArray α → Except Err (DimArray α)) :
    (fun (res : Ds α) (kv1 : String × DimArray α) => g kv1.2 >>= fun r => setItem res kv1.1 r) =
    (fun (res : Ds α) (kv1 : String × DimArray α) =>
      (g kv1.2 >>= fun r => pure (kv1.1, r)) >>= fun kr => setItem res kr.1 kr.2) := by
  funext res kv1
  cases g kv1.2 <;> rfl

/-- ONE DIMARRAY OPERATION ON EVERY VARIABLE (`g` returns the axes of its argument): same keys, no metadata, shared
own axes, every stored variable is `g(variable)` (`SameVar`), every axis object comes from a variable of `self` -/
theorem mapVarsDs_core (g : DimArray α → Except Err (DimArray α)) (self out : Ds α) (hk1 : self.keys.Nodup)
    (hnd : ∀ kv ∈ self.vars, kv.2.dims.Nodup) (hg : ∀ v r, g v = .ok r → r.axes = v.axes)
    (h : mapVarsDs g self = .ok out) :
    out.keys = self.keys ∧ out.attrs = [] ∧ SharedAxes out ∧ OwnAxes out ∧
    (∀ k v, (k, v) ∈ self.vars → ∃ r res, (k, r) ∈ out.vars ∧ g v = .ok res ∧ SameVar r res) ∧
    (∀ e ∈ out.axes, ∃ kv ∈ self.vars, e ∈ kv.2.axes) := by
  have hloop : self.vars.foldlM (fun (res : Ds α) kv1 =>
      (g kv1.2 >>= fun r => pure (kv1.1, r)) >>= fun kr => setItem res kr.1 kr.2) {} = .ok out := by
    rw [← loop_form g]
    exact h
  obtain ⟨ys, hys, hbuild⟩ := foldlM_compute
    (fun (kv1 : String × DimArray α) => g kv1.2 >>= fun r => pure (kv1.1, r))
    (fun (ds : Ds α) kv => setItem ds kv.1 kv.2) _ _ _ hloop
  have hrel := mapM_rel2 _ _ _ hys
  have hone : ∀ (kv y : String × DimArray α), (g kv.2 >>= fun r => pure (kv.1, r)) = .ok y →
      ∃ res, g kv.2 = .ok res ∧ y = (kv.1, res) := by
    intro kv y hy
    cases hop : g kv.2 with
    | error e => rw [hop] at hy; cases hy
    | ok res => rw [hop] at hy; cases hy; exact ⟨res, rfl, rfl⟩
  have hkeys : ys.map (·.1) = self.keys :=
    (hrel.map_eq (·.1) (·.1) fun p y hy => by obtain ⟨res, _, rfl⟩ := hone p y hy; rfl).symm
  have hynd : ∀ y ∈ ys, y.2.dims.Nodup := by
    intro y hy
    obtain ⟨p, hp, hpy⟩ := hrel.mem_right y hy
    obtain ⟨res, hop, rfl⟩ := hone p y hpy
    show (res.axes.map (·.name)).Nodup
    rw [hg _ _ hop]
    exact hnd p hp
  obtain ⟨hk, hat, hsh, hown, _, hax, hrel2⟩ := build_spec ys out (hkeys ▸ hk1) hynd hbuild
  refine ⟨hk.trans hkeys, hat, hsh, hown, ?_, ?_⟩
  · intro k v hkv
    obtain ⟨y, hy, hpy⟩ := hrel.mem_left _ hkv
    obtain ⟨res, hop, rfl⟩ := hone _ y hpy
    obtain ⟨kr, hkr, hk', hsame⟩ := hrel2.mem_right _ hy
    refine ⟨kr.2, res, ?_, hop, hsame⟩
    have : kr = (k, kr.2) := Prod.ext hk' rfl
    rw [← this]
    exact hkr
  · intro e he
    obtain ⟨y, hy, hm⟩ := hax e he
    obtain ⟨p, hp, hpy⟩ := hrel.mem_right y hy
    obtain ⟨res, hop, rfl⟩ := hone p y hpy
    refine ⟨p, hp, ?_⟩
    rw [← hg _ _ hop]
    exact hm

/-- the loop succeeds as soon as `g` succeeds on every variable and returns axes of the Dataset (a Dataset with own
axes and distinct dimension names) -/
theorem mapVarsDs_ok (g : DimArray α → Except Err (DimArray α)) (self : Ds α) (hown : OwnAxes self)
    (hd : self.dims.Nodup) (hg : ∀ kv ∈ self.vars, ∃ r, g kv.2 = .ok r ∧ r.axes = kv.2.axes) :
    ∃ out, mapVarsDs g self = .ok out := by
  have hall : ∀ (l : List (String × DimArray α)), (∀ kv ∈ l, kv ∈ self.vars) →
      ∃ ys, l.mapM (fun (kv1 : String × DimArray α) => g kv1.2 >>= fun r => pure (kv1.1, r)) = .ok ys ∧
        ∀ y ∈ ys, ∀ ax ∈ y.2.axes, ax ∈ self.axes := by
    intro l
    induction l with
    | nil => intro _; exact ⟨[], rfl, fun y h => by cases h⟩
    | cons kv l ih =>
      intro hl
      obtain ⟨r, hr, hax⟩ := hg kv (hl kv List.mem_cons_self)
      obtain ⟨ys, h3, h4⟩ := ih (fun x hx => hl x (List.mem_cons_of_mem _ hx))
      refine ⟨(kv.1, r) :: ys, ?_, ?_⟩
      · rw [List.mapM_cons, hr, h3]; rfl
      · intro x hx
        rcases List.mem_cons.1 hx with rfl | hx
        · intro ax hmem
          exact hown kv (hl kv List.mem_cons_self) ax (hax ▸ hmem)
        · exact h4 x hx
  obtain ⟨ys, h1, h2⟩ := hall self.vars (fun _ h => h)
  obtain ⟨out, hout⟩ := storeAll_sub_ok self.axes hd ys {} (fun e he => by cases he) h2
  refine ⟨out, ?_⟩
  unfold mapVarsDs
  rw [loop_form g]
  exact foldlM_compute_ok _ (fun (ds : Ds α) kv => setItem ds kv.1 kv.2) _ ys _ _ h1 hout

/-! ### stack_ds / concatenate_ds with align=True -/

theorem stackDsBody_eq [Inhabited α] (nan : α) (name : String) (datasets : List (Ds α)) (keys : List Label)
    (kk : Kind) :
    stackDsBody nan name datasets keys kk =
      (datasets.foldlM (stackChk name) none >>= fun variables =>
          match variables with
          | none => .error .type
          | some vars =>
            vars.foldlM (joinStep (fun arrays => stack nan arrays (some name) keys kk false false) datasets) {}) := rfl

/-- the body of `stack_ds` on Datasets that passed the check of the new dimension IS `stack_ds` (align=False) with
that dimension: the body itself asserts that no Dataset has it -/
theorem stackDsBody_stackDs [Inhabited α] (nan : α) (name : String) (datasets : List (Ds α)) (keys : List Label)
    (kk : Kind) (out : Ds α) (h : stackDsBody nan name datasets keys kk = .ok out) :
    stackDs nan datasets (some name) keys kk = .ok out := by
  cases datasets with
  | nil => cases h
  | cons d0 rest =>
    rw [stackDsBody_eq] at h
    cases hvars : (d0 :: rest).foldlM (stackChk name) none with
    | error e => rw [hvars] at h; cases h
    | ok variables =>
      obtain ⟨_, hchk⟩ := stackChk_spec name d0 rest variables hvars
      have hnot : (getDims ((d0 :: rest).map (·.axes))).contains name = false := by
        rw [Bool.eq_false_iff]
        intro hc
        have hm : name ∈ getDims ((d0 :: rest).map (·.axes)) := by simpa using hc
        obtain ⟨axes, haxes, ax, hax, hn⟩ := (getDims_mem _ _).1 hm
        obtain ⟨ds, hds, rfl⟩ := List.mem_map.1 haxes
        exact (hchk ds hds).1 (hn ▸ List.mem_map_of_mem hax)
      have hname : checkStackAxis (some name) (getDims ((d0 :: rest).map (·.axes))) = .ok name := by
        simp only [checkStackAxis, hnot, Bool.false_eq_true, if_false]
      rw [stackDs_eq, hname]
      exact h

theorem unaryOp_shape (u : α → α) (v : DimArray α) : (unaryOp u v).vals.shape = v.vals.shape := rfl

end DSV
end DimModel

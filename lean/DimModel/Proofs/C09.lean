/-
Helper lemmas for C09: the recursion of `diff` on the order `n`, label bookkeeping of repeated
differencing, list facts for cumulative scans and arg-extrema.
-/
import DimModel.Proofs.C08
import DimModel.Spec.C01
namespace DimModel
namespace AxisLemmas
open Lib

variable {α : Type}

/-! ### the recursion on `n` -/

theorem diffGo_zero (sub : α → α → α) (nan : α) (s : Scheme) (k : Bool) (pos : Nat) (o : DimArray α) :
    diffAxis.go sub nan s k pos 0 o = .ok o := rfl

theorem diffGo_succ (sub : α → α → α) (nan : α) (s : Scheme) (k : Bool) (pos n : Nat) (o : DimArray α) :
    diffAxis.go sub nan s k pos (n + 1) o =
      (diffAxis.go sub nan s k pos n o >>= fun o' => diff1 sub nan o' pos s k) := rfl

/-- the first step can be peeled off as well: `n+1` differences = `n` differences of the first difference -/
theorem diffGo_succ' (sub : α → α → α) (nan : α) (s : Scheme) (k : Bool) (pos n : Nat) (o : DimArray α) :
    diffAxis.go sub nan s k pos (n + 1) o =
      (diff1 sub nan o pos s k >>= fun o' => diffAxis.go sub nan s k pos n o') := by
  induction n with
  | zero =>
    rw [diffGo_succ, diffGo_zero]
    show diff1 sub nan o pos s k = _
    cases diff1 sub nan o pos s k <;> rfl
  | succ n ih =>
    rw [diffGo_succ, ih]
    cases h : diff1 sub nan o pos s k with
    | error e => rfl
    | ok o1 =>
      show (diffAxis.go sub nan s k pos n o1 >>= fun o' => diff1 sub nan o' pos s k) = _
      rw [← diffGo_succ]
      rfl

theorem diffAxis_eq_go (sub : α → α → α) (nan : α) (a o : DimArray α) (ax : AxisArg) (pos : Nat)
    (s : Scheme) (k : Bool) (n : Nat) (hd : dealWithAxis a ax = .ok (o, some pos)) (hn : n ≠ 0) :
    diffAxis sub nan a ax s k n = diffAxis.go sub nan s k pos n o := by
  unfold diffAxis
  have : (n == 0) = false := by simpa using hn
  simp only [hd, bind, Except.bind, this, Bool.false_eq_true, if_false]

/-- invariants of repeated differencing are proved step by step -/
theorem diffGo_induct (sub : α → α → α) (nan : α) (s : Scheme) (k : Bool) (pos : Nat) (o : DimArray α)
    (P : Nat → DimArray α → Prop) (h0 : P 0 o)
    (hstep : ∀ m o' r, P m o' → diff1 sub nan o' pos s k = .ok r → P (m + 1) r) :
    ∀ n r, diffAxis.go sub nan s k pos n o = .ok r → P n r := by
  intro n
  induction n with
  | zero =>
    intro r h
    rw [diffGo_zero] at h
    cases h
    exact h0
  | succ n ih =>
    intro r h
    rw [diffGo_succ] at h
    cases hg : diffAxis.go sub nan s k pos n o with
    | error e => rw [hg] at h; cases h
    | ok o' =>
      rw [hg] at h
      exact hstep n o' r (ih o' hg) h

/-! ### one step, explicitly -/

theorem getD_set_self' {β : Type} (l : List β) (i : Nat) (x d : β) (h : i < l.length) :
    (l.set i x).getD i d = x := by
  rw [List.getD_eq_getElem?_getD, List.getElem?_set_self h]; rfl

/-- shape, rank, metadata after one differencing step without keepaxis -/
theorem diff1_shape (sub : α → α → α) (nan : α) (o r : DimArray α) (pos : Nat) (s : Scheme)
    (h : diff1 sub nan o pos s false = .ok r) :
    r.vals.shape = o.vals.shape.set pos (o.vals.shape.getD pos 0 - 1) ∧
    r.axes.length = o.axes.length ∧ r.attrs = o.attrs ∧ r.vkind = o.vkind := by
  unfold diff1 at h
  simp only [bind, Except.bind, pure, Except.pure] at h
  cases s
  · simp only at h
    injection h with h; subst h
    exact ⟨rfl, by simp, rfl, rfl⟩
  · simp only at h
    injection h with h; subst h
    exact ⟨rfl, by simp, rfl, rfl⟩
  · simp only at h
    split at h
    · injection h with h; subst h
      exact ⟨rfl, by simp, rfl, rfl⟩
    · cases h

/-- backward / forward differencing without keepaxis cannot fail -/
theorem diff1_total (sub : α → α → α) (nan : α) (o : DimArray α) (pos : Nat) (s : Scheme)
    (hs : s ≠ .centered) : ∃ r, diff1 sub nan o pos s false = .ok r := by
  cases s
  · exact ⟨_, rfl⟩
  · exact ⟨_, rfl⟩
  · exact absurd rfl hs

/-! ### labels -/

theorem map_getD_succ_range' (L : List Label) :
    ((List.range (L.length - 1)).map (· + 1)).map (fun p => L.getD p Label.none) = L.drop 1 := by
  apply List.ext_getElem
  · simp
  · intro i h1 h2
    simp only [List.length_map, List.length_range] at h1
    simp only [List.getElem_map, List.getElem_range, List.getElem_drop]
    rw [List.getD_eq_getElem?_getD, List.getElem?_eq_getElem (by omega)]
    simp [Nat.add_comm]

theorem map_getD_range' (L : List Label) :
    (List.range (L.length - 1)).map (fun p => L.getD p Label.none) = L.dropLast := by
  apply List.ext_getElem
  · simp
  · intro i h1 h2
    simp only [List.length_map, List.length_range] at h1
    simp only [List.getElem_map, List.getElem_range, List.getElem_dropLast]
    rw [List.getD_eq_getElem?_getD, List.getElem?_eq_getElem (by omega)]
    rfl

theorem optMapM_length {β γ : Type} (f : β → Option γ) :
    ∀ (l : List β) (ls : List γ), l.mapM f = some ls → ls.length = l.length
  | [], ls, h => by
    simp only [List.mapM_nil, pure, Option.some.injEq] at h
    subst h; rfl
  | x :: l, ls, h => by
    rw [List.mapM_cons] at h
    cases hx : f x with
    | none => rw [hx] at h; cases h
    | some y =>
      cases hl : l.mapM f with
      | none => rw [hx, hl] at h; cases h
      | some ys =>
        rw [hx, hl] at h
        simp only [bind, Option.bind, pure, Option.some.injEq] at h
        subst h
        simp [optMapM_length f l ys hl]

theorem midLabels_length (L ls : List Label) (h : midLabels L = some ls) : ls.length = L.length - 1 := by
  unfold midLabels at h
  rw [optMapM_length _ _ _ h]
  simp only [List.length_zip, List.length_tail]
  omega

/-- labels after `n` centered steps: `n`-fold successive midpoints -/
def midLabelsN : Nat → List Label → Option (List Label)
  | 0, L => some L
  | n + 1, L => (midLabelsN n L).bind midLabels

/-- the new axis at the differenced position, per scheme (keepaxis=False) -/
theorem diff1_axes (sub : α → α → α) (nan : α) (o r : DimArray α) (pos : Nat) (s : Scheme)
    (h : diff1 sub nan o pos s false = .ok r) :
    ∃ newax : Axis, r.axes = o.axes.set pos newax ∧ newax.name = (o.axes.getD pos default).name ∧
      newax.members = [] ∧
      match s with
      | .backward => newax.labels =
          ((List.range (o.vals.shape.getD pos 0 - 1)).map (· + 1)).map
            (fun p => (o.axes.getD pos default).labels.getD p Label.none)
      | .forward => newax.labels =
          (List.range (o.vals.shape.getD pos 0 - 1)).map
            (fun p => (o.axes.getD pos default).labels.getD p Label.none)
      | .centered => midLabels (o.axes.getD pos default).labels = some newax.labels := by
  unfold diff1 at h
  simp only [bind, Except.bind, pure, Except.pure] at h
  cases s
  · simp only at h
    injection h with h; subst h
    exact ⟨_, rfl, rfl, rfl, rfl⟩
  · simp only at h
    injection h with h; subst h
    exact ⟨_, rfl, rfl, rfl, rfl⟩
  · simp only at h
    split at h
    · rename_i ls hls
      injection h with h; subst h
      exact ⟨_, rfl, rfl, rfl, hls⟩
    · cases h

/-- with keepaxis the shape is kept -/
theorem diff1_keepaxis_shape (sub : α → α → α) (nan : α) (o r : DimArray α) (pos : Nat) (s : Scheme)
    (h : diff1 sub nan o pos s true = .ok r) :
    r.vals.shape = o.vals.shape ∧ r.axes.length = o.axes.length ∧ r.attrs = o.attrs := by
  unfold diff1 at h
  simp only [bind, Except.bind, pure, Except.pure] at h
  cases s
  · simp only at h
    split at h
    · cases h
    · injection h with h; subst h
      exact ⟨rfl, by simp, rfl⟩
  · simp only at h
    split at h
    · cases h
    · injection h with h; subst h
      exact ⟨rfl, by simp, rfl⟩
  · cases h

/-! ### shape surgery -/

theorem set_getD_self {β : Type} (l : List β) (i : Nat) (d : β) : l.set i (l.getD i d) = l := by
  by_cases h : i < l.length
  · rw [List.getD_eq_getElem?_getD, List.getElem?_eq_getElem h]
    exact List.set_getElem_self h
  · exact List.set_eq_of_length_le (by omega)

theorem set_set_getD_pred (sh : List Nat) (pos v : Nat) :
    (sh.set pos v).set pos ((sh.set pos v).getD pos 0 - 1) = sh.set pos (v - 1) := by
  by_cases h : pos < sh.length
  · rw [getD_set_self' sh pos v 0 h, List.set_set]
  · rw [List.set_eq_of_length_le (by omega : sh.length ≤ pos),
      List.set_eq_of_length_le (by omega : sh.length ≤ pos),
      List.set_eq_of_length_le (by omega : sh.length ≤ pos)]

/-! ### indexing with one scalar label per dimension (whole-array arg-extremum, `argWhole_index_back`) -/

/-- one scalar label per axis, each the label found first at position `u[i]` of its axis: the positions the
specification of label indexing (C01) assigns are the scalars `u` -/
theorem positions_scalars : ∀ (axes : List Axis) (ls : List Label) (u : List Nat),
    ls.length = axes.length → u.length = axes.length →
    (∀ i (h1 : i < axes.length) (h2 : i < ls.length) (h3 : i < u.length),
      ls[i] ∈ axes[i].labels ∧ firstIdx axes[i].labels ls[i] = u[i]) →
    ((ls.map Ix.scalar).zip axes).mapM (fun (x : Ix × Axis) => Spec.positions x.2.labels x.1) =
      some (u.map PosIx.scalar)
  | [], [], [], _, _, _ => rfl
  | [], _ :: _, _, h, _, _ => by simp at h
  | [], [], _ :: _, _, h, _ => by simp at h
  | _ :: _, [], _, h, _, _ => by simp at h
  | _ :: _, _ :: _, [], _, h, _ => by simp at h
  | ax :: axes, l :: ls, x :: u, h1, h2, h => by
    have h0 := h 0 (by simp) (by simp) (by simp)
    simp only [List.getElem_cons_zero] at h0
    have ih := positions_scalars axes ls u (by simpa using h1) (by simpa using h2)
      (fun i a b c => by
        have := h (i + 1) (by simpa using a) (by simpa using b) (by simpa using c)
        simpa only [List.getElem_cons_succ] using this)
    have hp0 : Spec.positions ax.labels (Ix.scalar l) = some (PosIx.scalar x) := by
      simp only [Spec.positions, h0.1, if_true, h0.2]
    simp only [List.map_cons, List.zip_cons_cons, List.mapM_cons, hp0, ih, bind, Option.bind, pure]

theorem takeAxes_scalars : ∀ (axes : List Axis) (u : List Nat), Spec.takeAxes axes (u.map PosIx.scalar) = []
  | [], [] => rfl
  | [], _ :: _ => rfl
  | _ :: _, [] => rfl
  | _ :: axes, _ :: u => by
    simp only [List.map_cons, Spec.takeAxes]
    exact takeAxes_scalars axes u

theorem outerShape_scalars : ∀ (u : List Nat), outerShape (u.map PosIx.scalar) = []
  | [] => rfl
  | _ :: u => by simp only [List.map_cons, outerShape]; exact outerShape_scalars u

theorem expandIx_scalars : ∀ (u j : List Nat), expandIx (u.map PosIx.scalar) j = u
  | [], _ => rfl
  | x :: u, j => by simp only [List.map_cons, expandIx]; rw [expandIx_scalars u j]

end AxisLemmas
end DimModel

/-
Helper lemmas for C05 (well-formedness is preserved by every mirror function that returns an array).

`DimArray.WF` is split into its two halves: `ShapeOK` (the values have the shape the axes announce) and
`NamesOK` (distinct non-empty dimension names).  For every mirror function the shape half is proved here by
inversion of a successful call; the names half is mostly read off the metadata-propagation facts of
`Proofs/C16.lean` (`axisMeta` carries the names).
-/
import DimModel.Proofs.C16
import DimModel.Proofs.C16Ds
import DimModel.Proofs.C14Ops
import DimModel.Props.C07
import DimModel.Props.C01
namespace DimModel
open Lib

/-- the values have the shape the axes announce -/
def DimArray.ShapeOK {α} (a : DimArray α) : Prop := a.vals.shape = a.axes.map (·.size)

/-- distinct non-empty names -/
def NamesOK (names : List String) : Prop := names.Nodup ∧ ∀ d ∈ names, d ≠ ""

namespace C05
open C16

variable {α : Type}

/-! ### the two halves of `WF` -/

theorem wf_iff (a : DimArray α) : a.WF ↔ a.ShapeOK ∧ NamesOK a.dims := by
  unfold DimArray.WF DimArray.ShapeOK NamesOK DimArray.dims
  constructor
  · rintro ⟨h1, h2, h3⟩
    refine ⟨h1, h2, ?_⟩
    intro d hd
    obtain ⟨ax, hax, rfl⟩ := List.mem_map.mp hd
    exact h3 ax hax
  · rintro ⟨h1, h2, h3⟩
    exact ⟨h1, h2, fun ax hax => h3 _ (List.mem_map_of_mem hax)⟩

theorem wf_shape {a : DimArray α} (h : a.WF) : a.ShapeOK := h.1
theorem wf_names {a : DimArray α} (h : a.WF) : NamesOK a.dims := ((wf_iff a).mp h).2
theorem wf_mk {a : DimArray α} (h1 : a.ShapeOK) (h2 : NamesOK a.dims) : a.WF := (wf_iff a).mpr ⟨h1, h2⟩

theorem namesOK_sublist {l l' : List String} (h : NamesOK l) (hs : l'.Sublist l) : NamesOK l' :=
  ⟨h.1.sublist hs, fun d hd => h.2 d (hs.subset hd)⟩

theorem namesOK_perm {l l' : List String} (h : NamesOK l) (hp : l'.Perm l) : NamesOK l' :=
  ⟨hp.nodup_iff.mpr h.1, fun d hd => h.2 d (hp.subset hd)⟩

theorem names_of_meta (l : List Axis) : l.map (·.name) = (axisMeta l).map Prod.fst := by
  simp [axisMeta]

theorem names_eq_of_meta {l l' : List Axis} (h : axisMeta l' = axisMeta l) : l'.map (·.name) = l.map (·.name) := by
  rw [names_of_meta, names_of_meta, h]

theorem names_sublist_of_meta {l l' : List Axis} (h : (axisMeta l').Sublist (axisMeta l)) :
    (l'.map (·.name)).Sublist (l.map (·.name)) := by
  rw [names_of_meta, names_of_meta]; exact h.map _

/-- same names (read off `axisMeta`) -/
theorem namesOK_of_meta {a r : DimArray α} (h : axisMeta r.axes = axisMeta a.axes) (hn : NamesOK a.dims) :
    NamesOK r.dims := by
  unfold DimArray.dims at *
  rw [names_eq_of_meta h]; exact hn

theorem namesOK_of_meta_sublist {a r : DimArray α} (h : (axisMeta r.axes).Sublist (axisMeta a.axes))
    (hn : NamesOK a.dims) : NamesOK r.dims :=
  namesOK_sublist hn (names_sublist_of_meta h)

theorem namesOK_of_axes_perm {a r : DimArray α} (h : r.axes.Perm a.axes) (hn : NamesOK a.dims) :
    NamesOK r.dims :=
  namesOK_perm hn (h.map _)

theorem namesOK_of_axes_sublist {a r : DimArray α} (h : r.axes.Sublist a.axes) (hn : NamesOK a.dims) :
    NamesOK r.dims :=
  namesOK_sublist hn (h.map _)

/-- replacing the axis at `pos` by one of the same name keeps the names -/
theorem names_set_same (l : List Axis) (pos : Nat) (x : Axis) (hx : x.name = (l.getD pos default).name) :
    (l.set pos x).map (·.name) = l.map (·.name) := by
  by_cases hp : pos < l.length
  · apply DSV.set_names_self
    rw [hx, List.getD_eq_getElem?_getD, List.getD_eq_getElem?_getD, List.getElem?_map,
      List.getElem?_eq_getElem hp]
    rfl
  · rw [List.set_eq_of_length_le (Nat.le_of_not_lt hp)]

/-! ### sizes of lists of axes under the list operations the mirror uses -/

theorem axisSelect_size (ax : Axis) (ps : List Nat) : (axisSelect ax ps).size = ps.length := by
  simp [axisSelect, Axis.size]

theorem axisTake_size (ax : Axis) (ps : List Nat) : (axisTake ax ps).size = ps.length := by
  simp [axisTake, Axis.size]

theorem plain_size (ax : Axis) (h : ax.members = []) : ax.size = ax.labels.length := by
  simp [Axis.size, h]

theorem sizes_mapIdx_set (axes : List Axis) (pos : Nat) (x : Axis) :
    (axes.mapIdx (fun i ax => if i == pos then x else ax)).map (·.size) = (axes.map (·.size)).set pos x.size := by
  apply List.ext_getElem
  · simp
  · intro i h1 h2
    simp only [List.getElem_map, List.getElem_mapIdx, List.getElem_set]
    by_cases hi : pos = i
    · subst hi; simp
    · have : (i == pos) = false := by simpa using (Ne.symm hi)
      simp [hi, this]

theorem sizes_mapIdx_fun (axes : List Axis) (pos : Nat) (f : Axis → Axis) (n : Nat) (hf : ∀ ax, (f ax).size = n) :
    (axes.mapIdx (fun i ax => if i == pos then f ax else ax)).map (·.size) = (axes.map (·.size)).set pos n := by
  apply List.ext_getElem
  · simp
  · intro i h1 h2
    simp only [List.getElem_map, List.getElem_mapIdx, List.getElem_set]
    by_cases hi : pos = i
    · subst hi; simp [hf]
    · have : (i == pos) = false := by simpa using (Ne.symm hi)
      simp [hi, this]

/-- reading axes at in-range positions commutes with taking sizes -/
theorem sizes_map_getD (axes : List Axis) (l : List Nat) (h : ∀ k ∈ l, k < axes.length) :
    (l.map (fun k => axes.getD k default)).map (·.size) = l.map (fun k => (axes.map (·.size)).getD k 0) := by
  rw [List.map_map]
  apply List.map_congr_left
  intro k hk
  have := h k hk
  simp [List.getD_eq_getElem?_getD, List.getElem?_eq_getElem this]

/-! ### indexing: `take` -/

theorem getAxesOrtho_sizes : ∀ (axes : List Axis) (raw : List RawIx) (pix : List PosIx),
    (raw.zip axes).mapM (fun (x : RawIx × Axis) => resolveRaw x.1 x.2.size) = .ok pix →
    (getAxesOrtho axes raw pix).map (·.size) = outerShape pix
  | [], raw, pix, h => by
    rw [List.zip_nil_right] at h
    simp only [List.mapM_nil, pure, Except.pure] at h
    cases h
    simp [getAxesOrtho, outerShape]
  | ax :: axes, [], pix, h => by
    simp only [List.zip_nil_left, List.mapM_nil, pure, Except.pure] at h
    cases h
    simp [getAxesOrtho, outerShape]
  | ax :: axes, r :: raw, pix, h => by
    rw [List.zip_cons_cons] at h
    obtain ⟨p, ps, hp, hps, rfl⟩ := mapM_cons_ok _ _ _ _ h
    have ih := getAxesOrtho_sizes axes raw ps hps
    unfold getAxesOrtho at ih ⊢
    simp only [List.zip_cons_cons, List.filterMap_cons]
    cases p with
    | scalar q => simpa [outerShape] using ih
    | list qs =>
      simp only [outerShape]
      by_cases hr : r = RawIx.slice none none none
      · subst hr
        simp only [resolveRaw, slicePositions_full, bind, Except.bind, pure, Except.pure] at hp
        cases hp
        simp only [beq_self_eq_true, if_true, List.map_cons, List.length_range]
        rw [ih]
      · have hr' : (r == RawIx.slice none none none) = false := by simpa using hr
        simp only [hr', Bool.false_eq_true, if_false, List.map_cons, axisSelect_size]
        rw [ih]

theorem take_shapeOK (a r : DimArray α) (ui : UserIndex) (cfg : IndexCfg) (h : take a ui cfg = .ok r) :
    r.ShapeOK := by
  unfold take at h
  obtain ⟨raw, _, h⟩ := bind_ok h
  obtain ⟨pix, hpix, h⟩ := bind_ok h
  cases h
  exact (getAxesOrtho_sizes a.axes raw pix hpix).symm

theorem take_wf (a r : DimArray α) (ui : UserIndex) (cfg : IndexCfg) (hw : a.WF) (h : take a ui cfg = .ok r) :
    r.WF :=
  wf_mk (take_shapeOK a r ui cfg h) (namesOK_of_meta_sublist (C16.take_spec a r ui cfg h).2 (wf_names hw))

/-! ### assignment -/

theorem put_wf (a r : DimArray α) (ui : UserIndex) (rhs : RHS α) (rk : Kind) (cfg : IndexCfg) (cast : Bool)
    (hw : a.WF) (h : put a ui rhs rk cfg cast = .ok r) : r.WF := by
  unfold put at h
  obtain ⟨raw, _, h⟩ := bind_ok h
  obtain ⟨pix, _, h⟩ := bind_ok h
  obtain ⟨vget, _, h⟩ := bind_ok h
  cases h
  exact hw

theorem putBool_wf (a r : DimArray α) (mask : NDArr Bool) (v : α) (rk : Kind) (cast : Bool)
    (hw : a.WF) (h : putBool a mask v rk cast = .ok r) : r.WF := by
  unfold putBool at h
  split at h
  · cases h
  · cases h; exact hw

/-! ### positional take, reindexing, sorting -/

theorem takeAxisPos_shapeOK (a : DimArray α) (pos : Nat) (ps : List Nat) (hs : a.ShapeOK) :
    (takeAxisPos a pos ps).ShapeOK := by
  unfold DimArray.ShapeOK at *
  simp only [takeAxisPos, NDArr.takeAxis, hs]
  rw [sizes_mapIdx_fun _ _ (fun ax => axisTake ax ps) ps.length (fun ax => axisTake_size ax ps)]

theorem takeAxisPos_wf (a : DimArray α) (pos : Nat) (ps : List Nat) (hw : a.WF) : (takeAxisPos a pos ps).WF :=
  wf_mk (takeAxisPos_shapeOK a pos ps hw.1) (namesOK_of_meta (takeAxisPos_meta a pos ps) (wf_names hw))

theorem reindexAxis_shapeOK (a r : DimArray α) (axis : DimKey) (newL : List Label) (nk : Kind) (fill : α) (fk : Kind)
    (re : Bool) (m : Option Side) (hs : a.ShapeOK) (h : reindexAxis a axis newL nk fill fk re m = .ok r) :
    r.ShapeOK := by
  unfold reindexAxis at h
  obtain ⟨pos, hpos, h⟩ := bind_ok h
  simp only at h
  split at h
  · cases h
  · split at h
    · split at h
      · cases h
      · cases h
        unfold DimArray.ShapeOK at *
        simp only
        rw [sizes_mapIdx_set]
        split <;>
          simp [Axis.size, takeAxisPos, NDArr.takeAxis, NDArr.putWhere, locateMany_length, hs]
    · cases h
      exact takeAxisPos_shapeOK _ _ _ hs

theorem reindexAxis_wf (a r : DimArray α) (axis : DimKey) (newL : List Label) (nk : Kind) (fill : α) (fk : Kind)
    (re : Bool) (m : Option Side) (hw : a.WF) (h : reindexAxis a axis newL nk fill fk re m = .ok r) : r.WF :=
  wf_mk (reindexAxis_shapeOK a r axis newL nk fill fk re m hw.1 h)
    (namesOK_of_meta (reindexAxis_spec a r axis newL nk fill fk re m h).2 (wf_names hw))

theorem reindexLike_wf (a r : DimArray α) (tmpl : List Axis) (fill : α) (fk : Kind) (re : Bool) (m : Option Side)
    (hw : a.WF) (h : reindexLike a tmpl fill fk re m = .ok r) : r.WF := by
  unfold reindexLike at h
  refine foldlM_inv (fun o : DimArray α => o.WF) _ _ _ _ ?_ hw h
  intro s x s' _ hs hstep
  split at hstep
  · exact reindexAxis_wf _ _ _ _ _ _ _ _ _ hs hstep
  · cases hstep; exact hs

theorem sortAxis_wf (a r : DimArray α) (axis : DimKey) (hw : a.WF) (h : sortAxis a axis = .ok r) : r.WF := by
  unfold sortAxis at h
  obtain ⟨pos, _, h⟩ := bind_ok h
  cases h
  exact takeAxisPos_wf _ _ _ hw

/-! ### align -/

theorem align_wf (nan : α) (arrays rs : List (DimArray α)) (join : Join) (axis : Option String) (sort strict : Bool)
    (hw : ∀ a ∈ arrays, a.WF) (h : align nan arrays join axis sort strict = .ok rs) : ∀ r ∈ rs, r.WF := by
  unfold align at h
  obtain ⟨axes, _, h⟩ := bind_ok h
  refine foldlM_inv (fun arrs : List (DimArray α) => ∀ r ∈ arrs, r.WF) _ _ _ _ ?_ hw h
  intro s ax s' _ hs hstep r hr
  obtain ⟨o, ho, hor⟩ := mapM_mem _ _ _ hstep r hr
  split at hor
  · cases hor; exact hs _ ho
  · split at hor
    · cases hor; exact hs _ ho
    · exact reindexAxis_wf _ _ _ _ _ _ _ _ _ (hs o ho) hor

/-- `align` keeps the dimension names of every input, position by position -/
theorem align_dims (nan : α) (arrays rs : List (DimArray α)) (join : Join) (axis : Option String) (sort strict : Bool)
    (h : align nan arrays join axis sort strict = .ok rs) : rs.map (·.dims) = arrays.map (·.dims) :=
  Pointwise.map_eq (align_spec nan arrays rs join axis sort strict h) (·.dims)
    (fun x y hxy => by unfold DimArray.dims; exact names_eq_of_meta hxy.2.1)

/-! ### transpose family -/

theorem transposeBy_shapeOK (a : DimArray α) (p : List Nat) (hp : ∀ k ∈ p, k < a.axes.length) (hs : a.ShapeOK) :
    (transposeBy a p).ShapeOK := by
  unfold DimArray.ShapeOK at *
  simp only [transposeBy, NDArr.transpose, hs]
  exact (sizes_map_getD a.axes p hp).symm

theorem transpose_shapeOK (a r : DimArray α) (ks : Option (List DimKey)) (hs : a.ShapeOK)
    (h : transpose a ks = .ok r) : r.ShapeOK := by
  rw [transpose_eq] at h
  obtain ⟨ks', _, h⟩ := bind_ok h
  unfold transposeCore at h
  split at h
  · cases h; exact hs
  · obtain ⟨pi, _, h⟩ := bind_ok h
    obtain ⟨p, hp, h⟩ := bind_ok h
    cases h
    exact transposeBy_shapeOK a p (normPerm_isPerm _ _ _ hp).2.2 hs

theorem transpose_wf (a r : DimArray α) (ks : Option (List DimKey)) (hw : a.WF) (h : transpose a ks = .ok r) : r.WF :=
  wf_mk (transpose_shapeOK a r ks hw.1 h) (namesOK_of_axes_perm (C16.transpose_spec a r ks h).2 (wf_names hw))

theorem swapaxes_wf (a r : DimArray α) (k1 k2 : DimKey) (hw : a.WF) (h : swapaxes a k1 k2 = .ok r) : r.WF := by
  refine wf_mk ?_ (namesOK_of_axes_perm (C16.swapaxes_spec a r k1 k2 h).2 (wf_names hw))
  unfold swapaxes at h
  obtain ⟨ps, _, h⟩ := bind_ok h
  obtain ⟨p, hp, h⟩ := bind_ok h
  cases h
  exact transposeBy_shapeOK a p (normPerm_isPerm _ _ _ hp).2.2 hw.1

theorem rollaxis_wf (a r : DimArray α) (k : DimKey) (start : Int) (hw : a.WF) (h : rollaxis a k start = .ok r) :
    r.WF := by
  refine wf_mk ?_ (namesOK_of_axes_perm (C16.rollaxis_spec a r k start h).2 (wf_names hw))
  unfold rollaxis at h
  obtain ⟨ps, _, h⟩ := bind_ok h
  obtain ⟨p, hp, h⟩ := bind_ok h
  cases h
  exact transposeBy_shapeOK a p (rollPerm_isPerm _ _ _ _ hp).2.2 hw.1

/-! ### repeat / newaxis / squeeze -/

theorem repeatAxis_shapeOK (a r : DimArray α) (newax : Axis) (k : DimKey) (hpl : newax.members = [])
    (hs : a.ShapeOK) (h : repeatAxis a newax k = .ok r) : r.ShapeOK := by
  unfold repeatAxis at h
  obtain ⟨pos, _, h⟩ := bind_ok h
  simp only at h
  split at h
  · cases h
  · cases h
    unfold DimArray.ShapeOK at *
    simp only [NDArr.repeatDim, hs, List.map_set]
    congr 1
    simp [Axis.size, hpl]

theorem repeatAxis_names (a r : DimArray α) (newax : Axis) (k : DimKey) (h : repeatAxis a newax k = .ok r) :
    r.dims = a.dims := by
  obtain ⟨_, pos, _, _, e⟩ := C16.repeatAxis_spec a r newax k h
  unfold DimArray.dims
  rw [e]
  exact names_set_same _ _ _ rfl

theorem repeatAxis_wf (a r : DimArray α) (newax : Axis) (k : DimKey) (hpl : newax.members = [])
    (hw : a.WF) (h : repeatAxis a newax k = .ok r) : r.WF :=
  wf_mk (repeatAxis_shapeOK a r newax k hpl hw.1 h) (by rw [repeatAxis_names a r newax k h]; exact wf_names hw)

theorem sizes_insertIdx (axes : List Axis) (p : Nat) (x : Axis) :
    (axes.insertIdx p x).map (·.size) = (axes.map (·.size)).insertIdx p x.size :=
  C10.map_insertIdx' _ _ _ _

theorem newaxisObj_shapeOK (a : DimArray α) (name : String) (p : Nat) (hs : a.ShapeOK) :
    (newaxisObj a name p).ShapeOK := by
  unfold DimArray.ShapeOK at *
  simp only [newaxisObj, NDArr.insertDim, hs, sizes_insertIdx]
  rfl

theorem newaxis_shapeOK (a r : DimArray α) (name : String) (pos : Int) (vals : Option Axis)
    (hpl : ∀ v, vals = some v → v.members = []) (hs : a.ShapeOK) (h : newaxis a name pos vals = .ok r) :
    r.ShapeOK := by
  rw [newaxis_eq] at h
  split at h
  · cases h
  · split at h
    · cases h
    · cases vals with
      | none => cases h; exact newaxisObj_shapeOK a name _ hs
      | some v => exact repeatAxis_shapeOK _ r v _ (hpl v rfl) (newaxisObj_shapeOK a name _ hs) h

theorem nodup_insertIdx_of_notMem {l : List String} {p : Nat} {x : String} (hp : p ≤ l.length) (hn : l.Nodup)
    (hx : x ∉ l) : (l.insertIdx p x).Nodup := by
  have : (l.insertIdx p x).Perm (x :: l) := List.perm_insertIdx _ _ hp
  exact this.nodup_iff.mpr (List.nodup_cons.mpr ⟨hx, hn⟩)

theorem newaxis_names (a r : DimArray α) (name : String) (pos : Int) (vals : Option Axis) (hne : name ≠ "")
    (hn : NamesOK a.dims) (h : newaxis a name pos vals = .ok r) : NamesOK r.dims := by
  obtain ⟨p, hp, hnot, hd⟩ : ∃ p, p ≤ a.axes.length ∧ name ∉ a.dims ∧ r.dims = a.dims.insertIdx p name := by
    cases vals with
    | none =>
      obtain ⟨_, hnot, p, hp, e⟩ := C16.newaxis_spec a r name pos none h
      refine ⟨p, hp, hnot, ?_⟩
      unfold DimArray.dims
      rw [e, C10.map_insertIdx']
      rfl
    | some v =>
      obtain ⟨_, hnot, p, hp, e⟩ := C16.newaxis_spec a r name pos (some v) h
      refine ⟨p, hp, hnot, ?_⟩
      unfold DimArray.dims
      rw [e, C10.map_insertIdx']
  have hp' : p ≤ a.dims.length := by simpa [DimArray.dims] using hp
  rw [hd]
  refine ⟨nodup_insertIdx_of_notMem hp' hn.1 hnot, ?_⟩
  intro d hd'
  rcases (List.mem_insertIdx hp').mp hd' with rfl | hd'
  · exact hne
  · exact hn.2 d hd'

theorem newaxis_wf (a r : DimArray α) (name : String) (pos : Int) (vals : Option Axis) (hne : name ≠ "")
    (hpl : ∀ v, vals = some v → v.members = []) (hw : a.WF) (h : newaxis a name pos vals = .ok r) : r.WF :=
  wf_mk (newaxis_shapeOK a r name pos vals hpl hw.1 h) (newaxis_names a r name pos vals hne (wf_names hw) h)

theorem sizes_eraseIdx (axes : List Axis) (p : Nat) :
    (axes.eraseIdx p).map (·.size) = (axes.map (·.size)).eraseIdx p :=
  C10.map_eraseIdx' _ _ _

theorem squeeze_shapeOK (a r : DimArray α) (k : Option DimKey) (hs : a.ShapeOK) (h : squeeze a k = .ok r) :
    r.ShapeOK := by
  cases k with
  | none =>
    rw [C10.squeeze_none_eq] at h
    cases h
    unfold DimArray.ShapeOK at *
    simp only [hs]
    exact (sizes_map_getD a.axes (C10.keepPos a) (fun k hk => ((C10.keepPos_mem a k).mp hk).1)).symm
  | some k =>
    unfold squeeze at h
    obtain ⟨pos, _, h⟩ := bind_ok h
    split at h
    · cases h
    · cases h
      unfold DimArray.ShapeOK at *
      simp only [NDArr.dropDim, hs, sizes_eraseIdx]

theorem squeeze_wf (a r : DimArray α) (k : Option DimKey) (hw : a.WF) (h : squeeze a k = .ok r) : r.WF :=
  wf_mk (squeeze_shapeOK a r k hw.1 h) (namesOK_of_axes_sublist (C16.squeeze_spec a r k h).2 (wf_names hw))

/-! ### unflatten -/

theorem unflattenAt_shapeOK (a : DimArray α) (pos : Nat) (hs : a.ShapeOK) : (unflattenAt a pos).ShapeOK := by
  unfold DimArray.ShapeOK at *
  simp only [unflattenAt, NDArr.reshape, hs, List.map_append, List.map_take, List.map_drop]

theorem unflattenAll_go_shapeOK : ∀ (fuel : Nat) (o : DimArray α), o.ShapeOK → (unflattenAll.go fuel o).ShapeOK
  | 0, o, h => by unfold unflattenAll.go; exact h
  | fuel + 1, o, h => by
    unfold unflattenAll.go
    split
    · exact h
    · exact unflattenAll_go_shapeOK fuel _ (unflattenAt_shapeOK o _ h)

theorem unflattenAll_shapeOK (a : DimArray α) (hs : a.ShapeOK) : (unflattenAll a).ShapeOK :=
  unflattenAll_go_shapeOK _ _ hs

/-- the ungrouped dimension names: the members' names for a grouped axis, the axis' own name otherwise -/
def flatNames (ax : Axis) : List String := if ax.members.isEmpty then [ax.name] else ax.members.map (·.name)

theorem flatNames_toAxis (m : Axis0) : flatNames m.toAxis = [m.name] := rfl

theorem flatMap_flatNames_members (ms : List Axis0) : (ms.map Axis0.toAxis).flatMap flatNames = ms.map (·.name) := by
  induction ms with
  | nil => rfl
  | cons m ms ih => simp only [List.map_cons, List.flatMap_cons, flatNames_toAxis, ih, List.singleton_append]

theorem take_getD_drop {β : Type} (l : List β) (pos : Nat) (d : β) (h : pos < l.length) :
    l = l.take pos ++ [l.getD pos d] ++ l.drop (pos + 1) := by
  rw [List.getD_eq_getElem?_getD, List.getElem?_eq_getElem h]
  simp

/-- ungrouping the grouped axis at `pos` keeps the list of ungrouped names -/
theorem unflattenAt_flatNames (a : DimArray α) (pos : Nat) (hpos : pos < a.axes.length)
    (hm : (a.axes.getD pos default).isMulti = true) :
    (unflattenAt a pos).axes.flatMap flatNames = a.axes.flatMap flatNames := by
  have e := take_getD_drop a.axes pos default hpos
  have hg : flatNames (a.axes.getD pos default) = (a.axes.getD pos default).members.map (·.name) := by
    unfold flatNames
    have : (a.axes.getD pos default).members.isEmpty = false := by simpa [Axis.isMulti] using hm
    rw [this]; rfl
  conv => rhs; rw [e]
  simp only [unflattenAt, List.flatMap_append, flatMap_flatNames_members, List.flatMap_cons, List.flatMap_nil,
    List.append_nil, hg]

theorem unflattenAll_go_flatNames : ∀ (fuel : Nat) (o : DimArray α),
    (unflattenAll.go fuel o).axes.flatMap flatNames = o.axes.flatMap flatNames
  | 0, o => by unfold unflattenAll.go; rfl
  | fuel + 1, o => by
    unfold unflattenAll.go
    split
    · rfl
    · rename_i i hfind
      have hi : i < o.axes.length := List.mem_range.mp (List.mem_of_find?_eq_some hfind)
      have hm := List.find?_some hfind
      rw [unflattenAll_go_flatNames fuel _, unflattenAt_flatNames o i hi hm]

theorem flatNames_plain (l : List Axis) (h : ∀ ax ∈ l, ax.members = []) : l.flatMap flatNames = l.map (·.name) := by
  induction l with
  | nil => rfl
  | cons x l ih =>
    rw [List.flatMap_cons, List.map_cons, ih (fun ax hax => h ax (List.mem_cons_of_mem _ hax))]
    simp [flatNames, h x List.mem_cons_self]

/-! ### flatten -/

theorem flatten_inv (a r : DimArray α) (dims : List String) (insert : Option Nat)
    (h : flatten a dims insert = .ok r) :
    dims ≠ [] ∧ (∀ d ∈ dims, d ∈ a.dims) ∧ r = C11.flattenCore a dims (C11.insPos a dims insert) := by
  rw [C11.flatten_unfold] at h
  split at h
  · cases h
  · rename_i hne
    split at h
    · cases h
    · rename_i hany
      split at h
      · cases h
      · cases h
        refine ⟨?_, ?_, rfl⟩
        · intro e; subst e; simp at hne
        · intro d hd
          simp only [List.any_eq_true, Bool.not_eq_true', not_exists, not_and] at hany
          simpa using hany d hd

theorem flatten_shapeOK (a r : DimArray α) (dims : List String) (insert : Option Nat)
    (h : flatten a dims insert = .ok r) : r.ShapeOK := by
  obtain ⟨_, _, rfl⟩ := flatten_inv a r dims insert h
  rfl

/-- the dimension names of a flattened array: the remaining names, with the joined name inserted -/
theorem flatten_dims (a r : DimArray α) (dims : List String) (insert : Option Nat)
    (h : flatten a dims insert = .ok r) :
    r.dims = (C11.rest a.dims dims).take (C11.insPos a dims insert) ++ [",".intercalate dims]
      ++ (C11.rest a.dims dims).drop (C11.insPos a dims insert) := by
  obtain ⟨_, hsub, rfl⟩ := flatten_inv a r dims insert h
  unfold DimArray.dims
  rw [C11.flattenCore_axes a dims _ hsub]
  have hr1 : ∀ d ∈ (C11.rest a.dims dims).take (C11.insPos a dims insert), d ∈ a.dims :=
    fun d hd => (C11.mem_rest.mp (List.mem_of_mem_take hd)).1
  have hr2 : ∀ d ∈ (C11.rest a.dims dims).drop (C11.insPos a dims insert), d ∈ a.dims :=
    fun d hd => (C11.mem_rest.mp (List.mem_of_mem_drop hd)).1
  rw [List.map_append, List.map_append, C11.map_name_axisOf a _ hr1, C11.map_name_axisOf a _ hr2,
    List.map_singleton]
  show _ ++ [",".intercalate ((dims.map a.axisOf).map (·.name))] ++ _ = _
  rw [C11.map_name_axisOf a dims hsub]
  rfl

theorem intercalate_ne_empty (s d : String) (ds : List String) (hd : d ≠ "") : s.intercalate (d :: ds) ≠ "" := by
  cases ds with
  | nil => simpa using hd
  | cons u l =>
    rw [String.intercalate_cons_cons]
    intro h
    have := congrArg String.length h
    simp only [String.length_append] at this
    have h1 : ("" : String).length = 0 := rfl
    rw [h1] at this
    have h0 : d.length = 0 := by omega
    exact hd (String.length_eq_zero_iff.mp h0)

theorem namesOK_insert_mid (A : List String) (i : Nat) (J : String) (hA : NamesOK A) (hJ : J ∉ A) (hne : J ≠ "") :
    NamesOK (A.take i ++ [J] ++ A.drop i) := by
  have hp : (A.take i ++ [J] ++ A.drop i).Perm (J :: A) := by
    have h1 : (A.take i ++ [J]).Perm ([J] ++ A.take i) := List.perm_append_comm
    have h2 := h1.append_right (A.drop i)
    rwa [List.append_assoc [J], List.take_append_drop] at h2
  refine namesOK_perm ⟨List.nodup_cons.mpr ⟨hJ, hA.1⟩, ?_⟩ hp
  intro d hd
  rcases List.mem_cons.mp hd with rfl | hd
  · exact hne
  · exact hA.2 d hd

/-- `flatten` keeps well-formedness as soon as the joined name is not the name of a remaining dimension -/
theorem flatten_wf (a r : DimArray α) (dims : List String) (insert : Option Nat) (hw : a.WF)
    (hfresh : ",".intercalate dims ∉ a.dims.filter (fun d => !dims.contains d))
    (h : flatten a dims insert = .ok r) : r.WF := by
  refine wf_mk (flatten_shapeOK a r dims insert h) ?_
  rw [flatten_dims a r dims insert h]
  obtain ⟨hne, hsub, _⟩ := flatten_inv a r dims insert h
  have hrest : NamesOK (C11.rest a.dims dims) := namesOK_sublist (wf_names hw) List.filter_sublist
  refine namesOK_insert_mid _ _ _ hrest hfresh ?_
  cases dims with
  | nil => exact absurd rfl hne
  | cons d ds => exact intercalate_ne_empty _ d ds ((wf_names hw).2 d (hsub d List.mem_cons_self))

/-- the names that remain when the grouped axis of a `flatten(.., insert=0)` is dropped again -/
theorem flatten_zero_erase_names (a r : DimArray α) (dims : List String)
    (h : flatten a dims (some 0) = .ok r) : (r.axes.eraseIdx 0).map (·.name) = C11.rest a.dims dims := by
  have hd := flatten_dims a r dims (some 0) h
  have hi : C11.insPos a dims (some 0) = 0 := by simp [C11.insPos]
  rw [hi] at hd
  simp only [List.take_zero, List.nil_append, List.drop_zero, List.singleton_append] at hd
  have : (r.axes.eraseIdx 0).map (·.name) = (r.dims).eraseIdx 0 := by
    unfold DimArray.dims; exact C10.map_eraseIdx' _ _ _
  rw [this, hd]; rfl

/-! ### reshape, align_dims, broadcast -/

theorem reshape_shapeOK (a r : DimArray α) (newdims : List String) (hs : a.ShapeOK)
    (h : reshape a newdims = .ok r) : r.ShapeOK := by
  rw [C11.reshape_unfold] at h
  split at h
  · cases h; exact hs
  · split at h
    · cases h
    · split at h
      · cases h
      · obtain ⟨o1, h1, h⟩ := bind_ok h
        obtain ⟨o2, h2, h⟩ := bind_ok h
        obtain ⟨o3, h3, h⟩ := bind_ok h
        obtain ⟨o4, h4, h⟩ := bind_ok h
        split at h
        · cases h
        · cases h
          have i0 := unflattenAll_shapeOK a hs
          have i1 : o1.ShapeOK := by
            unfold C11.stSqueeze at h1
            refine foldlM_inv _ _ _ _ _ ?_ i0 h1
            intro s d s' _ hs' hstep
            split at hstep
            · cases hstep; exact hs'
            · exact squeeze_shapeOK _ _ _ hs' hstep
          have i2 : o2.ShapeOK := transpose_shapeOK _ _ _ i1 h2
          have i3 : o3.ShapeOK := by
            unfold C11.stNewaxis at h3
            refine foldlM_inv _ _ _ _ _ ?_ i2 h3
            intro s d s' _ hs' hstep
            obtain ⟨d, i⟩ := d
            simp only at hstep
            split at hstep
            · cases hstep; exact hs'
            · exact newaxis_shapeOK _ _ _ _ none (fun v hv => by cases hv) hs' hstep
          unfold C11.stGroup at h4
          refine foldlM_inv _ _ _ _ _ ?_ i3 h4
          intro s d s' _ hs' hstep
          obtain ⟨d, i⟩ := d
          simp only at hstep
          split at hstep
          · exact flatten_shapeOK _ _ _ _ hstep
          · cases hstep; exact hs'

/-- a successful `reshape` returns the requested dimension names, and they are distinct -/
theorem reshape_dims (a r : DimArray α) (newdims : List String) (h : reshape a newdims = .ok r) :
    r.dims = newdims ∧ (newdims ≠ a.dims → newdims.Nodup) := by
  rw [C11.reshape_unfold] at h
  split at h
  · rename_i heq
    cases h
    have : newdims = a.dims := by simpa using heq
    exact ⟨this.symm, fun hne => absurd this hne⟩
  · split at h
    · cases h
    · rename_i hnd
      split at h
      · cases h
      · obtain ⟨o1, h1, h⟩ := bind_ok h
        obtain ⟨o2, h2, h⟩ := bind_ok h
        obtain ⟨o3, h3, h⟩ := bind_ok h
        obtain ⟨o4, h4, h⟩ := bind_ok h
        split at h
        · cases h
        · rename_i hd
          cases h
          refine ⟨by simpa using hd, fun _ => ?_⟩
          exact (C10.eraseDups_length_eq_iff newdims).mp (by simpa using hnd)

theorem reshape_wf (a r : DimArray α) (newdims : List String) (hw : a.WF) (hne : ∀ d ∈ newdims, d ≠ "")
    (h : reshape a newdims = .ok r) : r.WF := by
  refine wf_mk (reshape_shapeOK a r newdims hw.1 h) ?_
  obtain ⟨hd, hnd⟩ := reshape_dims a r newdims h
  by_cases he : newdims = a.dims
  · rw [hd, he]; exact wf_names hw
  · rw [hd]; exact ⟨hnd he, hne⟩

theorem getDims_ne_empty (arrays : List (DimArray α)) (hw : ∀ a ∈ arrays, a.WF) :
    ∀ d ∈ getDims (arrays.map (·.axes)), d ≠ "" := by
  intro d hd
  obtain ⟨axes, haxes, ax, hax, rfl⟩ := (getDims_mem _ _).mp hd
  obtain ⟨a, ha, rfl⟩ := List.mem_map.mp haxes
  exact (hw a ha).2.2 ax hax

theorem alignDims_wf (arrays rs : List (DimArray α)) (hw : ∀ a ∈ arrays, a.WF) (h : alignDims arrays = .ok rs) :
    ∀ r ∈ rs, r.WF := by
  unfold alignDims at h
  split at h
  · cases h; exact hw
  · intro r hr
    obtain ⟨a, ha, har⟩ := mapM_mem _ _ _ h r hr
    exact reshape_wf a r _ (hw a ha) (getDims_ne_empty arrays hw) har

theorem bcStep_wf (a o r : DimArray α) (t : Axis) (hw : o.WF) (h : C10.bcStep a o t = .ok r) : r.WF := by
  unfold C10.bcStep at h
  split at h
  · split at h
    · exact repeatAxis_wf o r t.bare _ rfl hw h
    · cases h; exact hw
  · cases h

theorem broadcast_wf (a r : DimArray α) (target : List Axis) (hw : a.WF) (hne : ∀ t ∈ target, t.name ≠ "")
    (h : broadcast a target = .ok r) : r.WF := by
  rw [C10.broadcast_eq] at h
  obtain ⟨o, h1, h2⟩ := bind_ok h
  have i0 : o.WF := reshape_wf a o _ hw (by
    intro d hd
    obtain ⟨t, ht, rfl⟩ := List.mem_map.mp hd
    exact hne t ht) h1
  exact foldlM_inv (fun o : DimArray α => o.WF) (C10.bcStep a) _ _ _
    (fun s t s' _ hs hstep => bcStep_wf a s s' t hs hstep) i0 h2

theorem broadcastArrays_wf (arrays rs : List (DimArray α)) (hw : ∀ a ∈ arrays, a.WF)
    (h : broadcastArrays arrays = .ok rs) : ∀ r ∈ rs, r.WF := by
  unfold broadcastArrays at h
  obtain ⟨arrs, h1, h⟩ := bind_ok h
  obtain ⟨axes, h2, h⟩ := bind_ok h
  have hw1 := alignDims_wf arrays arrs hw h1
  intro r hr
  obtain ⟨o, ho, hor⟩ := mapM_mem _ _ _ h r hr
  refine broadcast_wf o r axes (hw1 o ho) ?_ hor
  intro t ht
  have hn := DSV.getAxesAligned_names _ _ h2
  have : t.name ∈ getDims (arrs.map (·.axes)) := by rw [← hn]; exact List.mem_map_of_mem ht
  exact getDims_ne_empty arrs hw1 _ this

/-! ### binary operations -/

theorem getD_wf (l : List (DimArray α)) (i : Nat) (d : DimArray α) (hl : ∀ x ∈ l, x.WF) (hd : d.WF) :
    (l.getD i d).WF := by
  by_cases hi : i < l.length
  · rw [List.getD_eq_getElem?_getD, List.getElem?_eq_getElem hi]
    exact hl _ (List.getElem_mem hi)
  · rw [List.getD_eq_getElem?_getD, List.getElem?_eq_none (Nat.le_of_not_lt hi)]
    exact hd

theorem operation_wf (nan : α) (f : α → α → α) (a b : DimArray α) (r : DimArray α × Kind × Kind)
    (ha : a.WF) (hb : b.WF) (h : operation nan f a b = .ok r) : r.1.WF := by
  unfold operation at h
  obtain ⟨al, hal, h⟩ := bind_ok h
  obtain ⟨ad, had, h⟩ := bind_ok h
  obtain ⟨newaxes, hna, h⟩ := bind_ok h
  obtain ⟨res, _, h⟩ := bind_ok h
  split at h
  · cases h
  · rename_i hchk
    cases h
    have hal' := align_wf nan [a, b] al _ _ _ _ (by
      intro x hx
      rcases List.mem_cons.mp hx with rfl | hx
      · exact ha
      · rcases List.mem_cons.mp hx with rfl | hx
        · exact hb
        · cases hx) hal
    have had' := alignDims_wf al ad hal' had
    have h1 : (ad.getD 0 a).WF := getD_wf ad 0 a had' ha
    have e : newaxes.map (fun ax => ({ ax with } : Axis)) = newaxes := List.map_id' _
    have hnames : newaxes.map (·.name) = (ad.getD 0 a).axes.map (·.name) := by
      refine mapM_map_eq _ (·.name) (·.name) _ _ hna ?_
      intro ax _ x hx
      split at hx
      · split at hx
        · rename_i y hfind
          cases hx
          have := List.find?_some hfind
          simpa using this
        · cases hx
      · cases hx; rfl
    refine wf_mk ?_ ?_
    · show res.shape = (newaxes.map (fun ax => ({ ax with } : Axis))).map (·.size)
      rw [e]
      have : ¬ (newaxes.map (·.size) ≠ res.shape) := by simpa using hchk
      exact (Classical.not_not.mp this).symm
    · show NamesOK ((newaxes.map (fun ax => ({ ax with } : Axis))).map (·.name))
      rw [e, hnames]
      exact wf_names h1

theorem operationNd_wf (f : α → α → α) (a r : DimArray α) (nd : NDArr α) (flip : Bool) (hw : a.WF)
    (h : operationNd f a nd flip = .ok r) : r.WF := by
  unfold operationNd at h
  split at h
  · cases h
  · have key : ∀ res : NDArr α, (if (a.axes.map (·.size) != res.shape) = true then Except.error Err.other
        else pure { axes := a.axes, vals := res, vkind := a.vkind, attrs := [] }) = Except.ok r → r.WF := by
      intro res h
      split at h
      · cases h
      · rename_i hchk
        cases h
        have : ¬ (a.axes.map (·.size) ≠ res.shape) := by simpa using hchk
        exact ⟨(Classical.not_not.mp this).symm, hw.2.1, hw.2.2⟩
    cases flip <;> simp only [Bool.false_eq_true, if_false, if_true] at h
    · obtain ⟨res, _, h⟩ := bind_ok h
      exact key res h
    · obtain ⟨res, _, h⟩ := bind_ok h
      exact key res h

/-! ### stack -/

theorem reorderLikeFirst_wf (arrays1 arrays2 : List (DimArray α)) (hw : ∀ a ∈ arrays1, a.WF)
    (h : reorderLikeFirst arrays1 = .ok arrays2) : ∀ o ∈ arrays2, o.WF := by
  intro o2 ho2
  cases arrays1 with
  | nil => simp [reorderLikeFirst] at h
  | cons a0 rest =>
    rw [C16.reorderLikeFirst_cons] at h
    obtain ⟨o1, ho1, hstep⟩ := mapM_mem _ _ _ h o2 ho2
    unfold C16.reorderOne at hstep
    split at hstep
    · cases hstep; exact hw _ ho1
    · split at hstep
      · rename_i r ht
        cases hstep
        exact transpose_wf o1 _ _ (hw o1 ho1) ht
      · cases hstep

/-- after `reorderLikeFirst`, arrays of equal shape list the dimensions of the first one -/
theorem reorderLikeFirst_same_dims (b0 : DimArray α) (t arrays1 : List (DimArray α)) (hw : ∀ a ∈ arrays1, a.WF)
    (h : reorderLikeFirst arrays1 = .ok (b0 :: t)) (hsh : ∀ x ∈ b0 :: t, x.vals.shape = b0.vals.shape) :
    ∀ x ∈ b0 :: t, x.dims = b0.dims := by
  have hw2 := reorderLikeFirst_wf arrays1 (b0 :: t) hw h
  cases arrays1 with
  | nil => simp [reorderLikeFirst] at h
  | cons a0 rest =>
    obtain ⟨t', ht'⟩ := C12.reorderLikeFirst_head a0 rest _ h
    have hb0 : b0 = a0 := by injection ht' with h1 _
    subst hb0
    by_cases hne : b0.dims = []
    · intro x hx
      have h1 : x.axes.length = b0.axes.length := by
        have e1 := congrArg List.length (hw2 x hx).1
        have e2 := congrArg List.length (hw2 b0 List.mem_cons_self).1
        have e3 := congrArg List.length (hsh x hx)
        simp only [List.length_map] at e1 e2
        omega
      have h0 : b0.axes.length = 0 := by
        have := congrArg List.length hne
        simpa [DimArray.dims] using this
      have hx0 : x.axes = [] := List.eq_nil_of_length_eq_zero (by omega)
      rw [hne]; simp [DimArray.dims, hx0]
    · exact reorderLikeFirst_dims b0 rest _ (fun a ha => (hw a ha).2.1) hne h

theorem getD_sizes (axes : List Axis) (pos : Nat) : (axes.map (·.size)).getD pos 0 = (axes.getD pos default).size := by
  by_cases h : pos < axes.length
  · simp [List.getD_eq_getElem?_getD, List.getElem?_eq_getElem h]
  · simp [List.getD_eq_getElem?_getD, List.getElem?_eq_none (Nat.le_of_not_lt h)]
    rfl

theorem stackCore_wf [Inhabited α] (name : String) (keys : List Label) (kk : Kind) (arrays : List (DimArray α))
    (r : DimArray α) (hw : ∀ a ∈ arrays, a.WF) (hname : name ≠ "")
    (hfresh : name ∉ getDims (arrays.map (·.axes))) (h : stackCore name keys kk arrays = .ok r) : r.WF := by
  unfold stackCore at h
  obtain ⟨arrays2, h2, h⟩ := bind_ok h
  simp only at h
  split at h
  · cases h
  · rename_i hshape
    obtain ⟨axes, h3, h⟩ := bind_ok h
    split at h
    · cases h
    · split at h
      · cases h
      · rename_i hlen
        cases h
        have hw2 := reorderLikeFirst_wf arrays arrays2 hw h2
        cases arrays2 with
        | nil =>
          cases arrays with
          | nil => simp [reorderLikeFirst] at h2
          | cons a0 rest =>
            obtain ⟨t, ht⟩ := C12.reorderLikeFirst_head a0 rest _ h2
            cases ht
        | cons b0 t =>
          have hsh : ∀ x ∈ b0 :: t, x.vals.shape = b0.vals.shape := by
            intro x hx
            have : ¬ (List.any (b0 :: t) fun a => a.vals.shape != ((b0 :: t).head?.map (·.vals.shape)).getD []) = true := hshape
            simp only [List.any_eq_true, not_exists, not_and] at this
            have := this x hx
            simpa using this
          have hdims := reorderLikeFirst_same_dims b0 t arrays hw h2 hsh
          have hb0 := hw2 b0 List.mem_cons_self
          have hgd : getDims ((b0 :: t).map (·.axes)) = b0.dims :=
            C12J.getDims_of_perm b0 t hb0.2.1 (fun a ha => by rw [hdims a (List.mem_cons_of_mem _ ha)])
          have hnames : axes.map (·.name) = b0.dims := by
            rw [DSV.getAxesAligned_names _ _ h3, hgd]
          have e : axes.map (fun ax => ({ ax with } : Axis)) = axes := List.map_id' _
          -- every common axis is the axis of that name of one of the arrays, which all have the same shape
          have hsizes : axes.map (·.size) = b0.vals.shape := by
            apply List.ext_getElem
            · have e1 := congrArg List.length hnames
              have e2 := congrArg List.length hb0.1
              simp only [List.length_map, DimArray.dims] at e1 e2 ⊢
              omega
            · intro i h1 h2'
              have hi : i < axes.length := by simpa using h1
              obtain ⟨l, hl, hxl⟩ := getAxesAligned_mem _ _ h3 axes[i] (List.getElem_mem hi)
              obtain ⟨x, hx, rfl⟩ := List.mem_map.mp hl
              have hxw := hw2 x hx
              have hxd := hdims x hx
              have hix : i < x.axes.length := by
                have e1 := congrArg List.length hnames
                have e2 := congrArg List.length hxd
                simp only [List.length_map, DimArray.dims] at e1 e2
                omega
              have hnx : axes.map (·.name) = x.axes.map (·.name) := by rw [hnames, ← hxd]; rfl
              have hn1 : axes[i].name = x.axes[i].name := by
                have := congrArg (fun l => l[i]?) hnx
                simpa [hi, hix] using this
              have heq : axes[i] = x.axes[i] := name_inj hxw.2.1 hxl (List.getElem_mem hix) hn1
              rw [List.getElem_map, heq]
              have e3 : (x.vals.shape)[i]'(by rw [hxw.1]; simpa using hix) = x.axes[i].size := by
                simp [hxw.1]
              rw [← e3]
              simp only [hsh x hx]
          refine wf_mk ?_ ?_
          · show (NDArr.stackNew ((b0 :: t).map (·.vals))).shape = _
            simp only [NDArr.stackNew, List.map_cons, List.head?_cons, Option.map_some, Option.getD_some, e, hsizes,
              List.length_cons, List.length_map]
            congr 1
            have : ¬ (keys.length ≠ (b0 :: t).length) := by simpa using hlen
            have := Classical.not_not.mp this
            simp [Axis.size, this]
          · show NamesOK (name :: (axes.map (fun ax => ({ ax with } : Axis))).map (·.name))
            rw [e, hnames]
            refine ⟨List.nodup_cons.mpr ⟨?_, hb0.2.1⟩, ?_⟩
            · intro hmem
              obtain ⟨o1, ho1, _, hperm⟩ := reorderLikeFirst_le _ _ h2 b0 List.mem_cons_self
              apply hfresh
              obtain ⟨ax, hax, hn⟩ := List.mem_map.mp hmem
              exact (getDims_mem _ _).mpr ⟨o1.axes, List.mem_map_of_mem ho1, ax, hperm.mem_iff.mp hax, hn⟩
            · intro d hd
              rcases List.mem_cons.mp hd with rfl | hd
              · exact hname
              · exact (wf_names hb0).2 d hd

theorem getDims_congr (l1 l2 : List (DimArray α)) (h : l1.map (·.dims) = l2.map (·.dims)) (d : String) :
    d ∈ getDims (l1.map (·.axes)) ↔ d ∈ getDims (l2.map (·.axes)) := by
  have key : ∀ l : List (DimArray α), d ∈ getDims (l.map (·.axes)) ↔ ∃ ds ∈ l.map (·.dims), d ∈ ds := by
    intro l
    rw [getDims_mem]
    constructor
    · rintro ⟨axes, haxes, ax, hax, rfl⟩
      obtain ⟨a, ha, rfl⟩ := List.mem_map.mp haxes
      exact ⟨a.dims, List.mem_map_of_mem ha, List.mem_map_of_mem hax⟩
    · rintro ⟨ds, hds, hd⟩
      obtain ⟨a, ha, rfl⟩ := List.mem_map.mp hds
      obtain ⟨ax, hax, rfl⟩ := List.mem_map.mp hd
      exact ⟨a.axes, List.mem_map_of_mem ha, ax, hax, rfl⟩
  rw [key, key, h]

theorem stack_wf [Inhabited α] (nan : α) (arrays : List (DimArray α)) (axis : Option String) (keys : List Label)
    (kk : Kind) (doAlign sort : Bool) (r : DimArray α) (hw : ∀ a ∈ arrays, a.WF)
    (hname : ∀ name, checkStackAxis axis (getDims (arrays.map (·.axes))) = .ok name →
      name ≠ "" ∧ name ∉ getDims (arrays.map (·.axes)))
    (h : stack nan arrays axis keys kk doAlign sort = .ok r) : r.WF := by
  rw [stack_eq] at h
  obtain ⟨name, hn, h⟩ := bind_ok h
  obtain ⟨arrays1, h1, h⟩ := bind_ok h
  obtain ⟨hne, hfresh⟩ := hname name hn
  split at h1
  · refine stackCore_wf name keys kk arrays1 r (align_wf nan arrays arrays1 _ _ _ _ hw h1) hne ?_ h
    rw [getDims_congr arrays1 arrays (align_dims nan arrays arrays1 _ _ _ _ h1)]
    exact hfresh
  · cases h1
    exact stackCore_wf name keys kk _ r hw hne hfresh h

theorem checkStackAxis_some (s : String) (dims : List String) (name : String)
    (h : checkStackAxis (some s) dims = .ok name) : name = s ∧ s ∉ dims := by
  unfold checkStackAxis at h
  simp only at h
  split at h
  · cases h
  · rename_i hc
    cases h
    exact ⟨rfl, by simpa using hc⟩

theorem checkStackAxis_none (dims : List String) (name : String) (hf : "unnamed" ∉ dims)
    (h : checkStackAxis none dims = .ok name) : name = "unnamed" := by
  unfold checkStackAxis at h
  have : dims.contains "unnamed" = false := by simpa using hf
  simp only [this] at h
  cases h
  rfl

/-! ### concatenate -/

theorem plain_of_axesLe {new old : List Axis} (h : AxesLe new old) (hp : PlainAxes old) : PlainAxes new := by
  intro x hx
  obtain ⟨y, hy, _, _, hm⟩ := h x hx
  cases hmem : x.members with
  | nil => rfl
  | cons m ms =>
    have := hm m (by rw [hmem]; exact List.mem_cons_self)
    rw [hp y hy] at this
    cases this

theorem align_plain (nan : α) (arrays rs : List (DimArray α)) (join : Join) (axis : Option String) (sort strict : Bool)
    (hp : ∀ a ∈ arrays, PlainAxes a.axes) (h : align nan arrays join axis sort strict = .ok rs) :
    ∀ r ∈ rs, PlainAxes r.axes := by
  intro r hr
  obtain ⟨a, ha, hsame⟩ := Pointwise.mem (align_spec nan _ _ _ _ _ _ h) r hr
  exact plain_of_axesLe hsame.2.2 (hp a ha)

/-- along a plain axis the extent of the values is the number of labels -/
theorem extent_eq_labels (x : DimArray α) (hs : x.ShapeOK) (hp : PlainAxes x.axes) (pos : Nat) :
    x.vals.shape.getD pos 0 = (x.axes.getD pos default).labels.length := by
  rw [hs, getD_sizes]
  by_cases h : pos < x.axes.length
  · rw [axis_getD_mem _ _ h]
    exact plain_size _ (hp _ (List.getElem_mem h))
  · rw [List.getD_eq_getElem?_getD, List.getElem?_eq_none (Nat.le_of_not_lt h)]
    rfl

theorem catCore_shapeOK (a0 : DimArray α) (pos : Nat) (dim : String) (doAlign : Bool) (arrays : List (DimArray α))
    (r : DimArray α) (hw : ∀ a ∈ arrays, a.WF) (hp : ∀ a ∈ arrays, PlainAxes a.axes)
    (hpos : ∀ b0 t, arrays = b0 :: t → pos < b0.axes.length)
    (h : catCore a0 pos dim doAlign arrays = .ok r) : r.ShapeOK := by
  unfold catCore at h
  obtain ⟨arrays2, h2, h⟩ := bind_ok h
  cases arrays with
  | nil => simp [reorderLikeFirst] at h2
  | cons b0 rest1 =>
    obtain ⟨t, rfl⟩ := C12.reorderLikeFirst_head b0 rest1 arrays2 h2
    have hw2 := reorderLikeFirst_wf _ _ hw h2
    have hp2 : ∀ x ∈ b0 :: t, PlainAxes x.axes := by
      intro x hx
      obtain ⟨o1, ho1, _, hperm⟩ := reorderLikeFirst_le _ _ h2 x hx
      exact fun ax hax => hp o1 ho1 ax (hperm.mem_iff.mp hax)
    have hlt := hpos b0 rest1 rfl
    simp only [List.headD_cons] at h
    have h := ite_ok (ite_ok h)
    split at h
    · cases h
    · rename_i v hv
      cases h
      unfold DimArray.ShapeOK
      simp only
      rw [List.map_id', eraseIdx_take_drop _ _ _ hlt, List.map_set]
      unfold concatVals at hv
      simp only [List.map_cons, Option.some.injEq] at hv
      rw [← hv, C12J.foldl_concat2_shape pos _ _ (by rw [(hw2 b0 List.mem_cons_self).1]; simpa using hlt)]
      rw [(hw2 b0 List.mem_cons_self).1]
      congr 1
      -- the joined extent is the number of joined labels
      have key : ∀ l : List (DimArray α), (∀ x ∈ l, x.WF) → (∀ x ∈ l, PlainAxes x.axes) →
          ((l.map (·.vals)).map (C12J.extent pos)).sum = (l.flatMap (fun a => (a.axes.getD pos default).labels)).length := by
        intro l
        induction l with
        | nil => intro _ _; rfl
        | cons x l ih =>
          intro h1 h2
          simp only [List.map_cons, List.sum_cons, List.flatMap_cons, List.length_append]
          rw [ih (fun y hy => h1 y (List.mem_cons_of_mem _ hy)) (fun y hy => h2 y (List.mem_cons_of_mem _ hy))]
          congr 1
          exact extent_eq_labels x (h1 x List.mem_cons_self).1 (h2 x List.mem_cons_self) pos
      show (((b0 :: t).map (·.vals)).map (C12J.extent pos)).sum = _
      rw [key (b0 :: t) hw2 hp2]
      simp [Axis.size]

theorem concatenate_wf (nan : α) (arrays : List (DimArray α)) (axis : DimKey) (doAlign sort : Bool) (r : DimArray α)
    (hw : ∀ a ∈ arrays, a.WF) (hp : ∀ a ∈ arrays, PlainAxes a.axes)
    (h : concatenate nan arrays axis doAlign sort = .ok r) : r.WF := by
  -- names: those of the first input
  have hnames : NamesOK r.dims := by
    obtain ⟨_, a0, rest, pos, rfl, hlt, hm⟩ := concatenate_spec' nan arrays axis doAlign sort r h
    have : r.axes.map (·.name) = a0.axes.map (·.name) := by
      rw [names_of_meta, hm, List.map_set, ← names_of_meta]
      exact DSV.set_names_self a0.axes pos ⟨(a0.axes.getD pos default).name, [], .f, [], []⟩
        (by simp [List.getD_eq_getElem?_getD, List.getElem?_eq_getElem hlt]) |> fun e => by
          rw [List.map_set] at e; exact e
    unfold DimArray.dims
    rw [this]
    exact wf_names (hw a0 List.mem_cons_self)
  refine wf_mk ?_ hnames
  cases arrays with
  | nil => simp [concatenate, bind, Except.bind] at h
  | cons a0 rest =>
    rw [concatenate_eq] at h
    obtain ⟨pos, hpos, h⟩ := bind_ok h
    obtain ⟨arrays1, h1, h⟩ := bind_ok h
    have hlt := catPos_lt a0 axis pos hpos
    -- alignment keeps well-formedness, plainness and the rank of the first array
    have hinv : (∀ x ∈ arrays1, x.WF) ∧ (∀ x ∈ arrays1, PlainAxes x.axes) ∧ Pointwise MetaSame arrays1 (a0 :: rest) := by
      unfold catAlign at h1
      split at h1
      · refine foldlM_inv (fun arrs : List (DimArray α) => (∀ x ∈ arrs, x.WF) ∧ (∀ x ∈ arrs, PlainAxes x.axes) ∧
          Pointwise MetaSame arrs (a0 :: rest)) _ _ _ _ ?_ ⟨hw, hp, Pointwise.refl MetaSame.refl _⟩ h1
        intro s ax s' _ hs hstep
        split at hstep
        · exact ⟨align_wf nan _ _ _ _ _ _ hs.1 hstep, align_plain nan _ _ _ _ _ _ hs.2.1 hstep,
            Pointwise.trans (R := MetaSame) (fun _ _ _ h1 h2 => MetaSame.trans h1 h2)
              (align_spec nan _ _ _ _ _ _ hstep) hs.2.2⟩
        · cases hstep; exact hs
      · cases h1; exact ⟨hw, hp, Pointwise.refl MetaSame.refl _⟩
    refine catCore_shapeOK a0 pos _ doAlign arrays1 r hinv.1 hinv.2.1 ?_ h
    intro b0 t e
    subst e
    have hb0 : MetaSame b0 a0 := hinv.2.2.2 0 (by simp) (by simp)
    have := congrArg List.length hb0.2.1
    simp only [axisMeta_length] at this
    omega

/-! ### along-axis transforms -/

/-- the joined name of a `flatten` is not the name of a remaining dimension -/
def GroupNameFresh (a : DimArray α) (names : List String) : Prop :=
  ",".intercalate names ∉ a.dims.filter (fun d => !names.contains d)

theorem dealWithAxis_many_inv (a o : DimArray α) (ks : List DimKey) (idx : Option Nat)
    (h : dealWithAxis a (.many ks) = .ok (o, idx)) :
    ∃ names, ks.mapM (keyName a) = .ok names ∧ flatten a names (some 0) = .ok o ∧ idx = some 0 := by
  unfold dealWithAxis at h
  obtain ⟨names, hn, h⟩ := bind_ok h
  obtain ⟨o', ho, h⟩ := bind_ok h
  cases h
  exact ⟨names, hn, ho, rfl⟩

theorem dealWithAxis_shapeOK (a o : DimArray α) (ax : AxisArg) (idx : Option Nat) (hs : a.ShapeOK)
    (h : dealWithAxis a ax = .ok (o, idx)) : o.ShapeOK := by
  rcases dealWithAxis_spec a o ax idx h with ⟨rfl, _, _⟩ | ⟨_, names, _, hf, _⟩
  · exact hs
  · exact flatten_shapeOK a o names _ hf

/-- the array the along-axis transforms work on is well-formed (for a tuple of axes: as soon as the joined name is
fresh) -/
theorem dealWithAxis_wf (a o : DimArray α) (ax : AxisArg) (idx : Option Nat) (hw : a.WF)
    (hg : ∀ ks names, ax = .many ks → ks.mapM (keyName a) = .ok names → GroupNameFresh a names)
    (h : dealWithAxis a ax = .ok (o, idx)) : o.WF := by
  cases ax with
  | none => cases h; exact hw
  | one k =>
    rcases dealWithAxis_spec a o _ idx h with ⟨rfl, _, _⟩ | ⟨_, _, hk, _, _⟩
    · exact hw
    · cases hk
  | many ks =>
    obtain ⟨names, hn, hf, _⟩ := dealWithAxis_many_inv a o ks idx h
    exact flatten_wf a o names _ hw (hg ks names rfl hn) hf

/-- dropping the operated axis leaves distinct non-empty names (no freshness needed: the grouped axis goes away) -/
theorem dealWithAxis_erase_names (a o : DimArray α) (ax : AxisArg) (pos : Nat) (hw : a.WF)
    (h : dealWithAxis a ax = .ok (o, some pos)) : NamesOK ((o.axes.eraseIdx pos).map (·.name)) := by
  rcases dealWithAxis_spec a o ax _ h with ⟨rfl, _, _⟩ | ⟨_, names, _, hf, hidx⟩
  · exact namesOK_sublist (wf_names hw) ((List.eraseIdx_sublist _ _).map _)
  · cases hidx
    rw [flatten_zero_erase_names a o names hf]
    exact namesOK_sublist (wf_names hw) List.filter_sublist

theorem reduceAxis_wf (red : List α → α) (a r : DimArray α) (ax : AxisArg) (hw : a.WF)
    (h : reduceAxis red a ax = .ok (.inr r)) : r.WF := by
  unfold reduceAxis at h
  obtain ⟨⟨o, idx⟩, hd, h⟩ := bind_ok h
  simp only at h
  split at h
  · cases h
  · rename_i pos
    split at h
    · cases h
    · cases h
      refine wf_mk ?_ (dealWithAxis_erase_names a o ax pos hw hd)
      have hs := dealWithAxis_shapeOK a o ax _ hw.1 hd
      unfold DimArray.ShapeOK at *
      simp only [hs, sizes_eraseIdx]

theorem argAxis_wf (pick : List α → List Label → α) (a r : DimArray α) (ax : AxisArg) (hw : a.WF)
    (h : argAxis pick a ax = .ok (.inr r)) : r.WF := by
  unfold argAxis at h
  obtain ⟨⟨o, idx⟩, hd, h⟩ := bind_ok h
  simp only at h
  split at h
  · cases h
  · rename_i pos
    split at h
    · cases h
    · cases h
      refine wf_mk ?_ (dealWithAxis_erase_names a o ax pos hw hd)
      have hs := dealWithAxis_shapeOK a o ax _ hw.1 hd
      unfold DimArray.ShapeOK at *
      simp only [hs, sizes_eraseIdx]

theorem cumAxis_wf (scan : List α → α) (a r : DimArray α) (ax : AxisArg) (hw : a.WF)
    (hg : ∀ ks names, ax = .many ks → ks.mapM (keyName a) = .ok names → GroupNameFresh a names)
    (h : cumAxis scan a ax = .ok (.inr r)) : r.WF := by
  unfold cumAxis at h
  obtain ⟨⟨o, idx⟩, hd, h⟩ := bind_ok h
  simp only at h
  split at h
  · cases h
  · cases h
    exact dealWithAxis_wf a o ax _ hw hg hd

theorem optMapM_length {β γ : Type} (f : β → Option γ) : ∀ (l : List β) (r : List γ),
    l.mapM f = some r → r.length = l.length
  | [], r, h => by simp at h; subst h; rfl
  | x :: xs, r, h => by
    rw [List.mapM_cons] at h
    cases hx : f x with
    | none => simp [hx] at h
    | some y =>
      cases hxs : xs.mapM f with
      | none => simp [hx, hxs] at h
      | some ys =>
        simp [hx, hxs] at h
        subst h
        simp [optMapM_length f xs ys hxs]

theorem set_getD_same {β : Type} (l : List β) (pos : Nat) (d : β) : l.set pos (l.getD pos d) = l := by
  by_cases h : pos < l.length
  · rw [List.getD_eq_getElem?_getD, List.getElem?_eq_getElem h]; simp
  · rw [List.set_eq_of_length_le (Nat.le_of_not_lt h)]

/-- one differencing step: the shape follows the axes when the differenced axis is plain, or for the forward /
backward schemes without `keepaxis`; afterwards the axis is plain -/
theorem diff1_shapeOK (sub : α → α → α) (nan : α) (o r : DimArray α) (pos : Nat) (scheme : Scheme) (keepaxis : Bool)
    (hs : o.ShapeOK)
    (hc : (o.axes.getD pos default).members = [] ∨ (keepaxis = false ∧ scheme ≠ .centered))
    (h : diff1 sub nan o pos scheme keepaxis = .ok r) :
    r.ShapeOK ∧ (r.axes.getD pos default).members = [] := by
  have hs' : o.vals.shape = o.axes.map (·.size) := hs
  have hn : o.vals.shape.getD pos 0 = (o.axes.getD pos default).size := by rw [hs', getD_sizes]
  have hplain : ∀ newax : Axis, newax.members = [] → ((o.axes.set pos newax).getD pos default).members = [] := by
    intro newax hm
    rw [set_getD_self]
    split
    · exact hm
    · rfl
  have hkeep : (o.axes.getD pos default).members = [] →
      o.vals.shape = (o.axes.set pos { (o.axes.getD pos default) with members := [] }).map (·.size) := by
    intro hc
    have : (({ (o.axes.getD pos default) with members := [] } : Axis)).size = (o.axes.getD pos default).size := by
      rw [plain_size _ hc]; rfl
    rw [List.map_set, this, ← getD_sizes, set_getD_same, hs']
  unfold diff1 at h
  simp only at h
  cases scheme <;> cases keepaxis <;> simp only [bind, Except.bind, pure, Except.pure] at h
  all_goals repeat' split at h
  all_goals first
    | (cases h; done)
    | skip
  -- backward, no keepaxis
  · cases h
    refine ⟨?_, hplain _ rfl⟩
    unfold DimArray.ShapeOK
    simp only [List.map_set, axisSelect_size, List.length_map, List.length_range, hs']
  -- backward, keepaxis
  · cases h
    refine ⟨?_, hplain _ rfl⟩
    rcases hc with hc | ⟨hc, _⟩
    · exact hkeep hc
    · cases hc
  -- forward, no keepaxis
  · cases h
    refine ⟨?_, hplain _ rfl⟩
    unfold DimArray.ShapeOK
    simp only [List.map_set, axisSelect_size, List.length_range, hs']
  -- forward, keepaxis
  · cases h
    refine ⟨?_, hplain _ rfl⟩
    rcases hc with hc | ⟨hc, _⟩
    · exact hkeep hc
    · cases hc
  -- centered, no keepaxis
  · rename_i ls hmid
    cases h
    refine ⟨?_, hplain _ rfl⟩
    rcases hc with hc | ⟨_, hc⟩
    · unfold DimArray.ShapeOK
      simp only [List.map_set, hs']
      congr 1
      have hl := optMapM_length _ _ _ hmid
      rw [← hs', hn, plain_size _ hc]
      simp [Axis.size, hl]
    · exact absurd rfl hc

theorem diffGo_shapeOK (sub : α → α → α) (nan : α) (o : DimArray α) (pos : Nat) (scheme : Scheme) (keepaxis : Bool)
    (hs : o.ShapeOK)
    (hc : (o.axes.getD pos default).members = [] ∨ (keepaxis = false ∧ scheme ≠ .centered)) :
    ∀ (k : Nat) (r : DimArray α), diffAxis.go sub nan scheme keepaxis pos k o = .ok r →
      r.ShapeOK ∧ ((r.axes.getD pos default).members = [] ∨ (keepaxis = false ∧ scheme ≠ .centered))
  | 0, r, h => by
    unfold diffAxis.go at h
    cases h
    exact ⟨hs, hc⟩
  | k + 1, r, h => by
    unfold diffAxis.go at h
    obtain ⟨o', ho', h⟩ := bind_ok h
    obtain ⟨ih1, ih2⟩ := diffGo_shapeOK sub nan o pos scheme keepaxis hs hc k o' ho'
    obtain ⟨h1, h2⟩ := diff1_shapeOK sub nan o' r pos scheme keepaxis ih1 ih2 h
    exact ⟨h1, Or.inl h2⟩

/-- `diff`: well-formed as soon as the array it works on is (fresh joined name for a tuple of axes) and the
differenced axis is plain - or, for a grouped axis, the scheme is forward / backward without `keepaxis` -/
theorem diffAxis_wf (sub : α → α → α) (nan : α) (a r : DimArray α) (ax : AxisArg) (scheme : Scheme)
    (keepaxis : Bool) (n : Nat) (hw : a.WF)
    (hg : ∀ ks names, ax = .many ks → ks.mapM (keyName a) = .ok names → GroupNameFresh a names)
    (hc : ∀ o pos, dealWithAxis a ax = .ok (o, some pos) →
      (o.axes.getD pos default).members = [] ∨ (keepaxis = false ∧ scheme ≠ .centered))
    (h : diffAxis sub nan a ax scheme keepaxis n = .ok r) : r.WF := by
  obtain ⟨_, o, pos, hd, hlt, hm⟩ := diffAxis_spec sub nan a r ax scheme keepaxis n h
  have how := dealWithAxis_wf a o ax _ hw hg hd
  refine wf_mk ?_ ?_
  · unfold diffAxis at h
    rw [hd] at h
    simp only [bind, Except.bind] at h
    split at h
    · cases h
    · exact (diffGo_shapeOK sub nan o pos scheme keepaxis how.1 (hc o pos hd) n r h).1
  · have : r.axes.map (·.name) = o.axes.map (·.name) := by
      rw [names_of_meta, hm]
      split
      · rw [List.map_set, ← names_of_meta]
        have := names_set_same o.axes pos ⟨(o.axes.getD pos default).name, [], .f, [], []⟩ rfl
        rw [List.map_set] at this
        exact this
      · rw [← names_of_meta]
    unfold DimArray.dims
    rw [this]
    exact wf_names how

/-! ### take_axis, compress_axis, missing values -/

theorem compressAxis_wf (a r : DimArray α) (mask : List Bool) (k : DimKey) (hw : a.WF)
    (h : compressAxis a mask k = .ok r) : r.WF := by
  refine wf_mk ?_ (namesOK_of_meta (compressAxis_spec a r mask k h).2 (wf_names hw))
  unfold compressAxis at h
  obtain ⟨pos, _, h⟩ := bind_ok h
  simp only at h
  split at h
  · cases h
  · cases h
    unfold DimArray.ShapeOK
    simp only [NDArr.takeAxis, List.map_set, axisSelect_size, hw.1]

theorem takeAxis_wf (a r : DimArray α) (ix : List Label) (k : DimKey) (mode : Mode) (clip : Bool) (hw : a.WF)
    (h : takeAxis a ix k mode clip = .ok r) : r.WF := by
  unfold takeAxis at h
  obtain ⟨pos, _, h⟩ := bind_ok h
  have key : ∀ ps, (if ((a.axes.getD pos default).size == 0 && !ps.isEmpty) = true then Except.error Err.index
      else pure (takeAxisPos a pos ps)) = Except.ok r → r.WF := by
    intro ps h
    split at h
    · cases h
    · cases h; exact takeAxisPos_wf _ _ _ hw
  simp only [bind, Except.bind] at h
  repeat' split at h
  all_goals first | (cases h; done) | exact key _ h | (cases h; exact takeAxisPos_wf _ _ _ hw)

theorem dropna_wf (isnan : α → Bool) (a r : DimArray α) (k : DimKey) (mv : Option Nat) (hw : a.WF)
    (h : dropna isnan a k mv = .ok r) : r.WF := by
  unfold dropna at h
  obtain ⟨pos, _, h⟩ := bind_ok h
  simp only at h
  split at h
  · exact compressAxis_wf _ _ _ _ hw h
  · exact compressAxis_wf _ _ _ _ hw h

theorem fillna_wf (isnan : α → Bool) (a : DimArray α) (fill : α) (fk : Kind) (hw : a.WF) :
    (fillna isnan a fill fk).WF := hw

theorem setna_wf (hit : List Nat → Bool) (nan : α) (a : DimArray α) (hw : a.WF) : (setna hit nan a).WF := hw

/-! ### interpolation -/

theorem interpAxis_wf [Inhabited α] (lin : α → α → Rat → α) (a r : DimArray α) (k : DimKey) (newL : List Label)
    (nk : Kind) (left right : α) (hw : a.WF) (h : interpAxis lin a k newL nk left right = .ok r) : r.WF := by
  have hnames : NamesOK r.dims := by
    obtain ⟨_, pos, hlt, hm⟩ := interpAxis_spec lin a r k newL nk left right h
    have : r.axes.map (·.name) = a.axes.map (·.name) := by
      rw [names_of_meta, hm, List.map_set, ← names_of_meta]
      have := names_set_same a.axes pos ⟨(a.axes.getD pos default).name, [], .f, [], []⟩ rfl
      rw [List.map_set] at this
      exact this
    unfold DimArray.dims
    rw [this]
    exact wf_names hw
  refine wf_mk ?_ hnames
  rw [interpAxis_eq] at h
  obtain ⟨pos, hpos, h⟩ := bind_ok h
  unfold interpCore at h
  simp only at h
  split at h
  · rename_i xs nx hxs hnx
    split at h
    · cases h
    · cases h
      have hl : nx.length = newL.length := optMapM_length _ _ _ hnx
      have ho : (if isIncreasingEq (a.axes.getD pos default).labels = true then a
          else takeAxisPos a pos (argsortBy Label.le (a.axes.getD pos default).labels)).ShapeOK := by
        split
        · exact hw.1
        · exact takeAxisPos_shapeOK _ _ _ hw.1
      unfold DimArray.ShapeOK at *
      simp only [List.map_set, ho, hl]
      congr 1
  · cases h

/-! ### unflatten: names -/

theorem unflattenAt_dims (a : DimArray α) (pos : Nat) :
    (unflattenAt a pos).dims =
      a.dims.take pos ++ (a.axes.getD pos default).members.map (·.name) ++ a.dims.drop (pos + 1) := by
  simp only [DimArray.dims, unflattenAt, List.map_append, List.map_take, List.map_drop, List.map_map]
  rfl

/-- `unflatten(axis)`: the shape always follows the axes; the result is well-formed exactly when the names it
lists (the members' names in place of the group's) are distinct and non-empty -/
theorem unflattenAt_wf (a : DimArray α) (pos : Nat) (hs : a.ShapeOK)
    (hn : NamesOK (a.dims.take pos ++ (a.axes.getD pos default).members.map (·.name) ++ a.dims.drop (pos + 1))) :
    (unflattenAt a pos).WF :=
  wf_mk (unflattenAt_shapeOK a pos hs) (by rw [unflattenAt_dims]; exact hn)

/-- number of grouped axes -/
def nMulti (l : List Axis) : Nat := (l.filter (·.isMulti)).length

theorem nMulti_append (l1 l2 : List Axis) : nMulti (l1 ++ l2) = nMulti l1 + nMulti l2 := by
  simp [nMulti, List.filter_append]

theorem nMulti_members (ms : List Axis0) : nMulti (ms.map Axis0.toAxis) = 0 := by
  induction ms with
  | nil => rfl
  | cons m ms ih =>
    have : nMulti (m.toAxis :: ms.map Axis0.toAxis) = nMulti (ms.map Axis0.toAxis) := by
      simp [nMulti, Axis.isMulti, Axis0.toAxis]
    rw [List.map_cons, this, ih]

theorem nMulti_unflattenAt (a : DimArray α) (pos : Nat) (hpos : pos < a.axes.length)
    (hm : (a.axes.getD pos default).isMulti = true) : nMulti (unflattenAt a pos).axes + 1 = nMulti a.axes := by
  have e := take_getD_drop a.axes pos default hpos
  have h1 : nMulti [a.axes.getD pos default] = 1 := by
    unfold nMulti
    rw [List.filter_cons_of_pos (by simpa using hm)]
    rfl
  conv => rhs; rw [e]
  simp only [unflattenAt, nMulti_append, nMulti_members, h1]
  omega

theorem plain_of_nMulti_zero (l : List Axis) (h : nMulti l = 0) : PlainAxes l := by
  intro ax hax
  have hf : l.filter (·.isMulti) = [] := List.eq_nil_of_length_eq_zero h
  have := List.filter_eq_nil_iff.mp hf ax hax
  simpa [Axis.isMulti] using this

theorem unflattenAll_go_plain : ∀ (fuel : Nat) (o : DimArray α), nMulti o.axes ≤ fuel →
    PlainAxes (unflattenAll.go fuel o).axes
  | 0, o, h => by
    unfold unflattenAll.go
    exact plain_of_nMulti_zero _ (by omega)
  | fuel + 1, o, h => by
    unfold unflattenAll.go
    split
    · rename_i hnone
      intro ax hax
      obtain ⟨i, hi, rfl⟩ := List.getElem_of_mem hax
      have := List.find?_eq_none.mp hnone i (List.mem_range.mpr hi)
      rw [axis_getD_mem _ _ hi] at this
      simpa [Axis.isMulti] using this
    · rename_i i hfind
      have hi : i < o.axes.length := List.mem_range.mp (List.mem_of_find?_eq_some hfind)
      have hm := List.find?_some hfind
      have := nMulti_unflattenAt o i hi hm
      exact unflattenAll_go_plain fuel _ (by omega)

theorem unflattenAll_plainAxes (a : DimArray α) : PlainAxes (unflattenAll a).axes := by
  apply unflattenAll_go_plain
  unfold nMulti DimArray.ndim
  exact List.length_filter_le _ _

/-- `unflatten()`: well-formed as soon as the ungrouped names (`flatNames`: members for a grouped axis) are distinct
and non-empty; the result has plain axes only and lists exactly those names -/
theorem unflattenAll_wf (a : DimArray α) (hs : a.ShapeOK) (hn : NamesOK (a.axes.flatMap flatNames)) :
    (unflattenAll a).WF ∧ PlainAxes (unflattenAll a).axes ∧ (unflattenAll a).dims = a.axes.flatMap flatNames := by
  have hp := unflattenAll_plainAxes a
  have hd : (unflattenAll a).dims = a.axes.flatMap flatNames := by
    unfold DimArray.dims
    rw [← flatNames_plain _ hp]
    exact unflattenAll_go_flatNames _ _
  exact ⟨wf_mk (unflattenAll_shapeOK a hs) (by rw [hd]; exact hn), hp, hd⟩

/-- the ungrouped names of a plain array are its dimension names -/
theorem flatNames_of_plain (a : DimArray α) (hp : PlainAxes a.axes) : a.axes.flatMap flatNames = a.dims :=
  flatNames_plain _ hp

theorem nodup_of_map_nodup {β γ : Type} (f : β → γ) : ∀ (l : List β), (l.map f).Nodup → l.Nodup
  | [], _ => List.nodup_nil
  | x :: l, h => by
    rw [List.map_cons, List.nodup_cons] at h
    exact List.nodup_cons.mpr ⟨fun hx => h.1 (List.mem_map_of_mem hx), nodup_of_map_nodup f l h.2⟩

/-- flattening a plain well-formed array keeps its ungrouped names (up to order): `unflatten()` of the result is
well-formed -/
theorem flatten_flatNames (a r : DimArray α) (dims : List String) (insert : Option Nat) (hw : a.WF)
    (hp : PlainAxes a.axes) (h : flatten a dims insert = .ok r) : NamesOK (r.axes.flatMap flatNames) := by
  obtain ⟨hne, hsub, rfl⟩ := flatten_inv a r dims insert h
  have hperm : (C11.perm a dims (C11.insPos a dims insert)).Nodup := by
    rw [C11.flatten_unfold] at h
    split at h
    · cases h
    · split at h
      · cases h
      · split at h
        · cases h
        · rename_i hc
          have hb := not_or_decide (p := _ ≠ _) (q := _ ≠ _) (by simpa [bne] using hc)
          exact (C10.eraseDups_length_eq_iff _).mp (by simpa using hb.1)
  have hnd : (C11.newdims a.dims dims (C11.insPos a dims insert)).Nodup := nodup_of_map_nodup (fun d => a.dims.idxOf d) _ hperm
  have hdn : dims.Nodup := by
    unfold C11.newdims at hnd
    exact (List.nodup_append.mp (List.nodup_append.mp hnd).1).2.1
  have hflat : (C11.flattenCore a dims (C11.insPos a dims insert)).axes.flatMap flatNames
      = C11.newdims a.dims dims (C11.insPos a dims insert) := by
    rw [C11.flattenCore_axes a dims _ hsub]
    have hplainOf : ∀ l : List String, (∀ d ∈ l, d ∈ a.dims) → (l.map a.axisOf).flatMap flatNames = l := by
      intro l hl
      rw [flatNames_plain _ (by
        intro ax hax
        obtain ⟨d, hd, rfl⟩ := List.mem_map.mp hax
        exact hp _ (C11.axisOf_mem a d (hl d hd)))]
      exact C11.map_name_axisOf a l hl
    have hr1 : ∀ d ∈ (C11.rest a.dims dims).take (C11.insPos a dims insert), d ∈ a.dims :=
      fun d hd => (C11.mem_rest.mp (List.mem_of_mem_take hd)).1
    have hr2 : ∀ d ∈ (C11.rest a.dims dims).drop (C11.insPos a dims insert), d ∈ a.dims :=
      fun d hd => (C11.mem_rest.mp (List.mem_of_mem_drop hd)).1
    have hg : flatNames (multiAxis (dims.map a.axisOf)) = dims := by
      have hem : (multiAxis (dims.map a.axisOf)).members.isEmpty = false := by
        cases dims with
        | nil => exact absurd rfl hne
        | cons _ _ => rfl
      unfold flatNames
      rw [hem]
      simp only [Bool.false_eq_true, if_false, multiAxis, List.map_map]
      have := C11.map_name_axisOf a dims hsub
      rw [List.map_map] at this
      exact this
    simp only [List.flatMap_append, List.flatMap_cons, List.flatMap_nil, List.append_nil, hplainOf _ hr1,
      hplainOf _ hr2, hg]
    rfl
  rw [hflat]
  exact namesOK_perm (wf_names hw) (C11.newdims_perm a.dims dims hw.2.1 hdn hsub _)

end C05
end DimModel


/-
Helper lemmas, second part, for the fibre-level semantics of the reductions (Lib/Reduce.lean): order independence of
min / max / prod / mean / var, lower bounds of argmin / argmax, the NaN-skipping argmin / argmax, prefix semantics of the
cumulative functions.
-/
import DimModel.Proofs.C08Red
namespace DimModel
open Lib Lib.XVal

namespace Lib.XVal

theorem min_right_comm (a b c : XVal) : XVal.min (XVal.min a b) c = XVal.min (XVal.min a c) b := by
  cases a <;> cases b <;> cases c <;> simp [XVal.min, isNan, le] <;> grind

theorem max_right_comm (a b c : XVal) : XVal.max (XVal.max a b) c = XVal.max (XVal.max a c) b := by
  cases a <;> cases b <;> cases c <;> simp [XVal.max, isNan, le] <;> grind

end Lib.XVal

/-! ### multiplication: signs, right-commutativity (exact arithmetic; 0 * inf = NaN on both sides) -/

theorem rat_mul_sign (a b : Rat) :
    ((0 < a ∧ 0 < b) ∨ (a < 0 ∧ b < 0) → 0 < a * b) ∧ ((0 < a ∧ b < 0) ∨ (a < 0 ∧ 0 < b) → a * b < 0) := by
  refine ⟨?_, ?_⟩
  · rintro (⟨ha, hb⟩ | ⟨ha, hb⟩)
    · exact Rat.mul_pos ha hb
    · have := Rat.mul_pos (a := -a) (b := -b) (by grind) (by grind)
      grind
  · rintro (⟨ha, hb⟩ | ⟨ha, hb⟩)
    · have := Rat.mul_pos (a := a) (b := -b) ha (by grind)
      grind
    · have := Rat.mul_pos (a := -a) (b := b) (by grind) hb
      grind

theorem sgn_fin_mul (a b : Rat) : sgn (fin (a * b)) = sgn (fin a) * sgn (fin b) := by
  have h := rat_mul_sign a b
  have hz := @Rat.mul_eq_zero a b
  simp only [sgn]
  by_cases ha : a < 0 <;> by_cases hb : b < 0 <;> by_cases ha0 : a = 0 <;> by_cases hb0 : b = 0 <;> grind

theorem sgn_cases (q : Rat) : (q < 0 ∧ sgn (fin q) = -1) ∨ (q = 0 ∧ sgn (fin q) = 0) ∨ (0 < q ∧ sgn (fin q) = 1) := by
  simp only [sgn]
  by_cases h1 : q < 0 <;> by_cases h2 : q = 0 <;> grind



theorem sgn_vals (q : Rat) : sgn (fin q) = -1 ∨ sgn (fin q) = 0 ∨ sgn (fin q) = 1 := by
  rcases sgn_cases q with h | h | h <;> simp [h.2]
theorem sgn_pinf : sgn pinf = 1 := rfl
theorem sgn_ninf : sgn ninf = -1 := rfl

local macro "fin2" p:ident q:ident : tactic =>
  `(tactic| (simp only [mul, sgn_fin_mul, sgn_pinf, sgn_ninf]
             rcases sgn_vals $p with h | h | h <;> rcases sgn_vals $q with h' | h' | h' <;>
               simp [mul, sgn_pinf, sgn_ninf, sgn_fin_mul, h, h']))
local macro "fin1" p:ident : tactic =>
  `(tactic| (simp only [mul, sgn_pinf, sgn_ninf]
             rcases sgn_vals $p with h | h | h <;> simp [mul, sgn_pinf, sgn_ninf, h]))

theorem mul_right_comm (a b c : XVal) : mul (mul a b) c = mul (mul a c) b := by
  cases a with
  | nan => simp
  | fin p =>
    cases b with
    | nan => simp
    | fin q =>
      cases c with
      | nan => simp
      | fin r => simp only [mul]; congr 1; grind
      | ninf => fin2 p q
      | pinf => fin2 p q
    | ninf => cases c with
      | nan => simp
      | fin r => fin2 p r
      | ninf => rfl
      | pinf => fin1 p
    | pinf => cases c with
      | nan => simp
      | fin r => fin2 p r
      | ninf => fin1 p
      | pinf => rfl
  | ninf =>
    cases b with
    | nan => simp
    | fin q =>
      cases c with
      | nan => simp
      | fin r => fin2 q r
      | ninf => fin1 q
      | pinf => fin1 q
    | ninf => cases c with
      | nan => simp
      | fin r => fin1 r
      | ninf => rfl
      | pinf => simp [mul, sgn]
    | pinf => cases c with
      | nan => simp
      | fin r => fin1 r
      | ninf => simp [mul, sgn]
      | pinf => rfl
  | pinf =>
    cases b with
    | nan => simp
    | fin q =>
      cases c with
      | nan => simp
      | fin r => fin2 q r
      | ninf => fin1 q
      | pinf => fin1 q
    | ninf => cases c with
      | nan => simp
      | fin r => fin1 r
      | ninf => rfl
      | pinf => simp [mul, sgn]
    | pinf => cases c with
      | nan => simp
      | fin r => fin1 r
      | ninf => simp [mul, sgn]
      | pinf => rfl

theorem xprod_perm' {l₁ l₂ : List XVal} (p : l₁.Perm l₂) : xprod l₁ = xprod l₂ :=
  List.Perm.foldl_eq' p (fun x _ y _ z => mul_right_comm z x y) _

theorem xmin_perm' {l₁ l₂ : List XVal} (p : l₁.Perm l₂) : xmin l₁ = xmin l₂ := by
  by_cases h : l₁ = []
  · subst h; rw [List.nil_perm.mp p]
  · have h2 : l₂ ≠ [] := fun e => h (by subst e; exact List.perm_nil.mp p)
    rw [xmin_eq_foldl h, xmin_eq_foldl h2]
    congr 1
    exact List.Perm.foldl_eq' p (fun x _ y _ z => XVal.min_right_comm z x y) _

theorem xmax_perm' {l₁ l₂ : List XVal} (p : l₁.Perm l₂) : xmax l₁ = xmax l₂ := by
  by_cases h : l₁ = []
  · subst h; rw [List.nil_perm.mp p]
  · have h2 : l₂ ≠ [] := fun e => h (by subst e; exact List.perm_nil.mp p)
    rw [xmax_eq_foldl h, xmax_eq_foldl h2]
    congr 1
    exact List.Perm.foldl_eq' p (fun x _ y _ z => XVal.max_right_comm z x y) _

theorem xmean_perm' {l₁ l₂ : List XVal} (p : l₁.Perm l₂) : xmean l₁ = xmean l₂ := by
  unfold xmean
  rw [xsum_perm' p, p.length_eq]
  have : l₁.isEmpty = l₂.isEmpty := by
    cases l₁ <;> cases l₂ <;> simp_all
  rw [this]

theorem xvar_perm' {l₁ l₂ : List XVal} (p : l₁.Perm l₂) : xvar l₁ = xvar l₂ := by
  unfold xvar
  simp only [xmean_perm' p]
  exact xmean_perm' (p.map _)

/-! ### order on the cells; lower bounds of min / max -/

namespace Lib.XVal
theorem le_refl' (a : XVal) (h : a ≠ nan) : le a a = true := by
  cases a <;> simp_all [le]
theorem le_trans' (a b c : XVal) (h1 : le a b = true) (h2 : le b c = true) : le a c = true := by
  cases a <;> cases b <;> cases c <;> simp_all [le] <;> grind
theorem min_le_left (a b : XVal) (ha : a ≠ nan) (hb : b ≠ nan) : le (XVal.min a b) a = true := by
  cases a <;> cases b <;> simp_all [XVal.min, isNan, le] <;> grind
theorem min_le_right (a b : XVal) (ha : a ≠ nan) (hb : b ≠ nan) : le (XVal.min a b) b = true := by
  cases a <;> cases b <;> simp_all [XVal.min, isNan, le] <;> grind
theorem le_max_left (a b : XVal) (ha : a ≠ nan) (hb : b ≠ nan) : le a (XVal.max a b) = true := by
  cases a <;> cases b <;> simp_all [XVal.max, isNan, le] <;> grind
theorem le_max_right (a b : XVal) (ha : a ≠ nan) (hb : b ≠ nan) : le b (XVal.max a b) = true := by
  cases a <;> cases b <;> simp_all [XVal.max, isNan, le] <;> grind
theorem min_ne_nan (a b : XVal) (ha : a ≠ nan) (hb : b ≠ nan) : XVal.min a b ≠ nan := by
  rcases min_eq_or a b with e | e <;> rw [e] <;> assumption
theorem max_ne_nan (a b : XVal) (ha : a ≠ nan) (hb : b ≠ nan) : XVal.max a b ≠ nan := by
  rcases max_eq_or a b with e | e <;> rw [e] <;> assumption
theorem min_pinf_right (a : XVal) (h : a ≠ nan) : XVal.min a pinf = a := by cases a <;> simp_all [XVal.min, isNan, le]
theorem max_ninf_right (a : XVal) (h : a ≠ nan) : XVal.max a ninf = a := by cases a <;> simp_all [XVal.max, isNan, le]
end Lib.XVal

/-- the fold of `min` over a NaN-free fibre is a lower bound of the start value and of every cell -/
theorem foldl_min_le : ∀ (l : List XVal) (acc : XVal), nan ∉ l → acc ≠ nan →
    l.foldl XVal.min acc ≠ nan ∧ le (l.foldl XVal.min acc) acc = true ∧ ∀ x ∈ l, le (l.foldl XVal.min acc) x = true := by
  intro l
  induction l with
  | nil => intro acc _ ha; exact ⟨ha, le_refl' acc ha, by simp⟩
  | cons x xs ih =>
    intro acc hn ha
    have hx : x ≠ nan := fun e => hn (by simp [e])
    have hxs : nan ∉ xs := fun e => hn (by simp [e])
    obtain ⟨h1, h2, h3⟩ := ih (XVal.min acc x) hxs (min_ne_nan acc x ha hx)
    rw [List.foldl_cons]
    refine ⟨h1, le_trans' _ _ _ h2 (min_le_left acc x ha hx), ?_⟩
    intro y hy
    rcases List.mem_cons.mp hy with e | e
    · rw [e]; exact le_trans' _ _ _ h2 (min_le_right acc x ha hx)
    · exact h3 y e

theorem foldl_max_ge : ∀ (l : List XVal) (acc : XVal), nan ∉ l → acc ≠ nan →
    l.foldl XVal.max acc ≠ nan ∧ le acc (l.foldl XVal.max acc) = true ∧ ∀ x ∈ l, le x (l.foldl XVal.max acc) = true := by
  intro l
  induction l with
  | nil => intro acc _ ha; exact ⟨ha, le_refl' acc ha, by simp⟩
  | cons x xs ih =>
    intro acc hn ha
    have hx : x ≠ nan := fun e => hn (by simp [e])
    have hxs : nan ∉ xs := fun e => hn (by simp [e])
    obtain ⟨h1, h2, h3⟩ := ih (XVal.max acc x) hxs (max_ne_nan acc x ha hx)
    rw [List.foldl_cons]
    refine ⟨h1, le_trans' _ _ _ (le_max_left acc x ha hx) h2, ?_⟩
    intro y hy
    rcases List.mem_cons.mp hy with e | e
    · rw [e]; exact le_trans' _ _ _ (le_max_right acc x ha hx) h2
    · exact h3 y e

/-- `np.min` of a NaN-free fibre is a lower bound of its cells -/
theorem xmin_le {l : List XVal} {m : XVal} (h : xmin l = .ok m) (hn : nan ∉ l) : m ≠ nan ∧ ∀ x ∈ l, le m x = true := by
  have hne : l ≠ [] := by intro e; subst e; simp [xmin] at h
  rw [xmin_eq_foldl hne] at h
  simp only [Except.ok.injEq] at h
  obtain ⟨h1, _, h3⟩ := foldl_min_le l pinf hn (by simp)
  rw [h] at h1 h3
  exact ⟨h1, h3⟩

theorem xmax_ge {l : List XVal} {m : XVal} (h : xmax l = .ok m) (hn : nan ∉ l) : m ≠ nan ∧ ∀ x ∈ l, le x m = true := by
  have hne : l ≠ [] := by intro e; subst e; simp [xmax] at h
  rw [xmax_eq_foldl hne] at h
  simp only [Except.ok.injEq] at h
  obtain ⟨h1, _, h3⟩ := foldl_max_ge l ninf hn (by simp)
  rw [h] at h1 h3
  exact ⟨h1, h3⟩

/-! ### nanargmin / nanargmax: NaN replaced by +inf / -inf -/

theorem foldl_min_replace (l : List XVal) : ∀ acc, acc ≠ nan →
    (l.map fun x => if x.isNan then pinf else x).foldl XVal.min acc = (dropNan l).foldl XVal.min acc := by
  induction l with
  | nil => intro acc _; rfl
  | cons x xs ih =>
    intro acc ha
    cases x with
    | nan => simpa [dropNan, isNan, min_pinf_right acc ha] using ih acc ha
    | ninf => simpa [dropNan, isNan] using ih _ (min_ne_nan acc ninf ha (by simp))
    | pinf => simpa [dropNan, isNan] using ih _ (min_ne_nan acc pinf ha (by simp))
    | fin q => simpa [dropNan, isNan] using ih _ (min_ne_nan acc (fin q) ha (by simp))

theorem foldl_max_replace (l : List XVal) : ∀ acc, acc ≠ nan →
    (l.map fun x => if x.isNan then ninf else x).foldl XVal.max acc = (dropNan l).foldl XVal.max acc := by
  induction l with
  | nil => intro acc _; rfl
  | cons x xs ih =>
    intro acc ha
    cases x with
    | nan => simpa [dropNan, isNan, max_ninf_right acc ha] using ih acc ha
    | ninf => simpa [dropNan, isNan] using ih _ (max_ne_nan acc ninf ha (by simp))
    | pinf => simpa [dropNan, isNan] using ih _ (max_ne_nan acc pinf ha (by simp))
    | fin q => simpa [dropNan, isNan] using ih _ (max_ne_nan acc (fin q) ha (by simp))

theorem idxOf_replace (v m : XVal) (hm : m ≠ nan) (hv : m ≠ v) (l : List XVal) :
    (l.map fun x => if x.isNan then v else x).idxOf m = l.idxOf m := by
  induction l with
  | nil => rfl
  | cons x xs ih =>
    simp only [List.map_cons, List.idxOf_cons, ih]
    have h1 : (v == m) = false := by simpa using Ne.symm hv
    have h2 : (nan == m) = false := by simpa using Ne.symm hm
    cases x <;> simp [isNan, h1, h2]


theorem map_replace_ne_nil {l : List XVal} (v : XVal) (h : dropNan l ≠ []) : (l.map fun x => if x.isNan then v else x) ≠ [] := by
  cases l with
  | nil => simp [dropNan] at h
  | cons x xs => simp

/-- `np.nanargmin`: when the minimum `m` of the non-NaN cells is below +inf, the result is the first position of `m` in the
fibre, and `m` is a lower bound of every non-NaN cell -/
theorem xnanargmin_spec' {l : List XVal} {m : XVal} (hm : xmin (dropNan l) = .ok m) (hlt : m ≠ pinf) :
    xnanargmin l = .ok (ofNat (l.idxOf m)) ∧ m ∈ l ∧ m ≠ nan ∧ ∀ x ∈ l, x ≠ nan → le m x = true := by
  have hne : dropNan l ≠ [] := by intro e; rw [e] at hm; simp [xmin] at hm
  have hmem := mem_dropNan.mp (xmin_mem hm)
  have hle := (xmin_le hm (dropNan_no_nan l)).2
  refine ⟨?_, hmem.1, hmem.2, fun x hx hxn => hle x (mem_dropNan.mpr ⟨hx, hxn⟩)⟩
  have h1 : xmin (l.map fun x => if x.isNan then pinf else x) = .ok m := by
    rw [xmin_eq_foldl (map_replace_ne_nil pinf hne), foldl_min_replace l pinf (by simp), ← xmin_eq_foldl hne, hm]
  simp only [xnanargmin, (dropNan_isEmpty_false hne).1, Bool.false_eq_true, if_false, xargmin, h1, bind, Except.bind,
    pure, Except.pure, idxOf_replace pinf m hmem.2 hlt l]

theorem xnanargmax_spec' {l : List XVal} {m : XVal} (hm : xmax (dropNan l) = .ok m) (hlt : m ≠ ninf) :
    xnanargmax l = .ok (ofNat (l.idxOf m)) ∧ m ∈ l ∧ m ≠ nan ∧ ∀ x ∈ l, x ≠ nan → le x m = true := by
  have hne : dropNan l ≠ [] := by intro e; rw [e] at hm; simp [xmax] at hm
  have hmem := mem_dropNan.mp (xmax_mem hm)
  have hle := (xmax_ge hm (dropNan_no_nan l)).2
  refine ⟨?_, hmem.1, hmem.2, fun x hx hxn => hle x (mem_dropNan.mpr ⟨hx, hxn⟩)⟩
  have h1 : xmax (l.map fun x => if x.isNan then ninf else x) = .ok m := by
    rw [xmax_eq_foldl (map_replace_ne_nil ninf hne), foldl_max_replace l ninf (by simp), ← xmax_eq_foldl hne, hm]
  simp only [xnanargmax, (dropNan_isEmpty_false hne).1, Bool.false_eq_true, if_false, xargmax, h1, bind, Except.bind,
    pure, Except.pure, idxOf_replace ninf m hmem.2 hlt l]

/-! ### cumulative functions: cell `k` of the running accumulation is the fold of the first `k + 1` cells -/

theorem cumFrom_length (op : XVal → XVal → XVal) : ∀ (l : List XVal) (acc : XVal), (cumFrom op acc l).length = l.length := by
  intro l
  induction l with
  | nil => intro _; rfl
  | cons x xs ih => intro acc; simp [cumFrom, ih]

theorem cumFrom_getElem? (op : XVal → XVal → XVal) : ∀ (l : List XVal) (acc : XVal) (k : Nat), k < l.length →
    (cumFrom op acc l)[k]? = some ((l.take (k + 1)).foldl op acc) := by
  intro l
  induction l with
  | nil => intro _ k h; simp at h
  | cons x xs ih =>
    intro acc k h
    cases k with
    | zero => simp [cumFrom]
    | succ k =>
      simp only [cumFrom, List.getElem?_cons_succ, List.take_succ_cons, List.foldl_cons]
      exact ih _ k (by simpa using h)

theorem map_take_replace (v : XVal) (l : List XVal) (n : Nat) :
    (l.map fun x => if x.isNan then v else x).take n = (l.take n).map fun x => if x.isNan then v else x := by
  rw [List.map_take]

end DimModel

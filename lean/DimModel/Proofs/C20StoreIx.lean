/-
C20 (extension, wave 5) - the per-file read of a written Dataset WITH `indices=`: whatever position indices the file's
dimensions resolve to (scalars included: the dimension is dropped from the Dataset and from every variable), the
`Dataset.__setitem__` loop never refuses a variable, keeps the keys in order, and every variable is the orthogonal get
`readVarAt` of its store at the positions of its own dimensions.
-/
import DimModel.Proofs.C20Store
namespace DimModel
namespace OnDisk
open Lib DSV

theorem mapM_len {β γ : Type} (f : β → Except Err γ) : ∀ (l : List β) (out : List γ), l.mapM f = .ok out → out.length = l.length
  | [], out, h => by simp only [List.mapM_nil, pure, Except.pure, Except.ok.injEq] at h; subst h; rfl
  | a :: l, out, h => by
    rw [List.mapM_cons] at h
    cases hfa : f a with
    | error e => rw [hfa] at h; cases h
    | ok b =>
      cases hl : l.mapM f with
      | error e => rw [hfa, hl] at h; cases h
      | ok bs =>
        rw [hfa, hl] at h
        simp only [bind, Except.bind, pure, Except.pure, Except.ok.injEq] at h
        subst h
        simp [mapM_len f l bs hl]

theorem fileIndices_length (axes : List Axis) (idx : Option FileIndex) (pix : List PosIx)
    (h : fileIndices axes idx = .ok pix) : pix.length = axes.length := by
  unfold fileIndices at h
  split at h
  · simp only [pure, Except.pure, Except.ok.injEq] at h; subst h; simp
  · split at h
    · cases h
    · exact mapM_len _ _ _ h

/-- the names of the re-read axes are a sublist of the file's dimension names -/
theorem axesOrtho_names_sublist : ∀ (axes : List Axis) (pix : List PosIx),
    ((axesOrtho axes pix).map (·.name)).Sublist (axes.map (·.name))
  | [], _ => by simp [axesOrtho]
  | _ :: _, [] => by simp [axesOrtho]
  | a :: axes, p :: pix => by
    have ih := axesOrtho_names_sublist axes pix
    unfold axesOrtho at ih ⊢
    simp only [List.zip_cons_cons, List.filterMap_cons, List.map_cons]
    cases p with
    | scalar i => exact List.Sublist.cons _ ih
    | list ps => exact List.Sublist.cons₂ _ ih

theorem axesOrtho_nodup (axes : List Axis) (pix : List PosIx) (hnd : (axes.map (·.name)).Nodup) :
    ((axesOrtho axes pix).map (·.name)).Nodup := (axesOrtho_names_sublist axes pix).nodup hnd

/-- looking a dimension of the file up in `zip(dims, positions)` finds the pair of that very axis -/
theorem find_zip : ∀ (AX : List Axis) (pix : List PosIx), pix.length = AX.length → (AX.map (·.name)).Nodup →
    ∀ a ∈ AX, ∃ p, (AX.zip pix).find? (·.1.name == a.name) = some (a, p) ∧ (a, p) ∈ AX.zip pix
  | [], _, _, _, a, ha => by cases ha
  | x :: AX, [], hl, _, _, _ => by simp at hl
  | x :: AX, p :: pix, hl, hnd, a, ha => by
    simp only [List.map_cons, List.nodup_cons] at hnd
    simp only [List.zip_cons_cons, List.find?_cons]
    rcases List.mem_cons.1 ha with rfl | ha'
    · exact ⟨p, by simp, by simp⟩
    · have hne : (x.name == a.name) = false := by
        rw [beq_eq_false_iff_ne]
        intro heq
        exact hnd.1 (heq ▸ List.mem_map_of_mem (f := (·.name)) ha')
      obtain ⟨q, hq, hm⟩ := find_zip AX pix (by simpa using hl) hnd.2 a ha'
      exact ⟨q, by simp only [hne]; exact hq, List.mem_cons_of_mem _ hm⟩

/-- the axes of a variable read at the file's positions are axes of the Dataset being assembled -/
theorem readVarAt_axes_sub {α} (d : α) (AX : List Axis) (pix : List PosIx) (hl : pix.length = AX.length)
    (hnd : (AX.map (·.name)).Nodup) (v : DiskVar α) (hsub : ∀ ax ∈ v.axes, ax ∈ AX) :
    ∀ e ∈ (readVarAt d AX pix v).axes, e ∈ axesOrtho AX pix := by
  intro e he
  unfold readVarAt axesOrtho at he
  simp only [zip_map_self, List.mem_filterMap, List.mem_map] at he
  obtain ⟨⟨a, p⟩, ⟨a0, ha0, heq⟩, hsel⟩ := he
  simp only [Prod.mk.injEq] at heq
  obtain ⟨rfl, rfl⟩ := heq
  obtain ⟨q, hq, hm⟩ := find_zip AX pix hl hnd a0 (hsub a0 ha0)
  rw [hq] at hsel
  simp only [Option.elim] at hsel
  unfold axesOrtho
  exact List.mem_filterMap.2 ⟨(a0, q), hm, hsel⟩

theorem filterMap_congr' {β γ : Type} (f g : β → Option γ) : ∀ (l : List β), (∀ a ∈ l, f a = g a) →
    l.filterMap f = l.filterMap g
  | [], _ => rfl
  | a :: l, h => by
    simp only [List.filterMap_cons, h a (by simp), filterMap_congr' f g l (fun b hb => h b (List.mem_cons_of_mem _ hb))]

/-- re-ordering "to match the file" (`[data.axes[dim] for dim in file dims if dim in data.axes]`) leaves a list of axes
whose names already are a sublist of the file's dimension names as it is -/
theorem filterMap_find_sublist : ∀ (N : List String), N.Nodup → ∀ (L : List Axis), (L.map (·.name)).Sublist N →
    N.filterMap (fun dim => L.find? (·.name == dim)) = L
  | [], _, L, hs => by
    have : L = [] := by simpa using hs
    subst this; rfl
  | n :: N, hnd, L, hs => by
    simp only [List.nodup_cons] at hnd
    rcases List.sublist_cons_iff.1 hs with h | ⟨r, hr, h⟩
    · have hnone : L.find? (·.name == n) = none := by
        rw [List.find?_eq_none]
        intro x hx hxn
        have : x.name = n := by simpa using hxn
        exact hnd.1 (this ▸ h.subset (List.mem_map_of_mem (f := (·.name)) hx))
      simp only [List.filterMap_cons, hnone]
      exact filterMap_find_sublist N hnd.2 L h
    · cases L with
      | nil => cases hr
      | cons x L' =>
        simp only [List.map_cons, List.cons.injEq] at hr
        obtain ⟨hxn, rfl⟩ := hr
        have hx : (x.name == n) = true := by simp [hxn]
        have key : ∀ dim ∈ N, (x :: L').find? (·.name == dim) = L'.find? (·.name == dim) := by
          intro dim hdim
          have hne : (x.name == dim) = false := by
            rw [beq_eq_false_iff_ne, hxn]
            intro heq
            exact hnd.1 (heq ▸ hdim)
          simp only [List.find?_cons, hne]
        have h0 : (x :: L').find? (·.name == n) = some x := by simp only [List.find?_cons, hx]
        rw [List.filterMap_cons, h0, filterMap_congr' _ _ N key, filterMap_find_sublist N hnd.2 L' h]

theorem filterMap_find_ortho (AX : List Axis) (pix : List PosIx) (hnd : (AX.map (·.name)).Nodup) :
    (AX.map (·.name)).filterMap (fun dim => (axesOrtho AX pix).find? (·.name == dim)) = axesOrtho AX pix :=
  filterMap_find_sublist _ hnd _ (axesOrtho_names_sublist AX pix)

end OnDisk
end DimModel

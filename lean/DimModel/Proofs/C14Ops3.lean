/-
Helper lemmas for C14, extension "c14ops3": `take_axis` with raw positions and `mode=`, `reindex_axis` with
`method=` / `raise_error=True` (the lemmas of Proofs/C14.lean about `reindexAxisDs`, with the side of
`searchsorted` and the "no fill with a method" rule as parameters).
-/
import DimModel.Proofs.C14Ops2
import DimModel.Lib.DatasetOps3
namespace DimModel
namespace DSV
open Lib

variable {α : Type}

/-! ### take_axis with raw positions -/

theorem takeAxisPosDs_size (ds out : Ds α) (name : String) (ps : List Nat) (ax : Axis)
    (hfind : ds.axes.find? (fun a => a.name == name) = some ax) (h : takeAxisPosDs ds name ps = .ok out) :
    ¬ (ax.size == 0 && !ps.isEmpty) = true := by
  unfold takeAxisPosDs at h
  rw [hfind] at h
  simp only at h
  intro hc
  rw [if_pos hc] at h
  cases h

theorem isEmpty_of_length_eq {β γ : Type} (l : List β) (m : List γ) (h : l.length = m.length) :
    l.isEmpty = m.isEmpty := by
  cases l <;> cases m <;> simp_all

/-- `DimArray.take_axis` by name with positions that NumPy accepts -/
theorem takeAxisInts_name_ok (v : DimArray α) (name : String) (hmem : name ∈ v.dims) (ax : Axis)
    (hax : v.axes.getD (v.dims.idxOf name) default = ax) (is : List Int) (mode : TakeMode) (ps : List Nat)
    (hps : is.mapM (takePos ax.size mode) = .ok ps) (hsz : ¬ (ax.size == 0 && !ps.isEmpty) = true) :
    takeAxisInts v (.name name) is mode = .ok (takeAxisPos v (v.dims.idxOf name) ps) := by
  unfold takeAxisInts
  rw [axisPos_name v name hmem]
  simp only [bind, Except.bind, pure, Except.pure]
  rw [hax]
  have hl := mapM_ok_length _ _ _ hps
  rw [isEmpty_of_length_eq is ps hl.symm, if_neg hsz, hps]

/-! ### reindex_axis with method= / raise_error= -/

/-- the labels of the reindexed axis: the requested label where it did not match, the label found otherwise -/
def rxLabS (side : Side) (L newL : List Label) : List Label :=
  newL.zipIdx.map fun x =>
    if (mismatchMask L (locateMany L newL side) newL).getD x.2 false then x.1
    else L.getD ((locateMany L newL side).getD x.2 0) Label.none

/-- the patched axis -/
def rxNewAx (nm : String) (ax : Axis) (newL : List Label) (newKind : Kind) (side : Side) : Axis :=
  { name := nm, labels := rxLabS side ax.labels newL, kind := maybeCastKind ax.kind newKind, attrs := ax.attrs }

/-- `DimArray.reindex_axis` by name (no error raised), written out (`ax` is the variable's axis of that name) -/
def rxResultM (v : DimArray α) (name : String) (ax : Axis) (newL : List Label) (newKind : Kind) (fill : α)
    (fillKind : Kind) (method : Option Side) : DimArray α :=
  if (mismatchMask ax.labels (locateMany ax.labels newL (method.getD .left)) newL).any id then
    { axes := v.axes.mapIdx (fun i x => if i == v.dims.idxOf name then
          rxNewAx ax.name ax newL newKind (method.getD .left) else x)
      vals := if method.isNone then
          (takeAxisPos v (v.dims.idxOf name) (locateMany ax.labels newL (method.getD .left))).vals.putWhere
            (fun j => (mismatchMask ax.labels (locateMany ax.labels newL (method.getD .left)) newL).getD
              (j.getD (v.dims.idxOf name) 0) false)
            (fun _ => fill)
        else (takeAxisPos v (v.dims.idxOf name) (locateMany ax.labels newL (method.getD .left))).vals
      vkind := if method.isNone then maybeCastKind v.vkind fillKind else v.vkind, attrs := v.attrs }
  else takeAxisPos v (v.dims.idxOf name) (locateMany ax.labels newL (method.getD .left))

theorem reindexAxis_name_okM (v : DimArray α) (name : String) (hmem : name ∈ v.dims) (ax : Axis)
    (hax : v.axes.getD (v.dims.idxOf name) default = ax) (newL : List Label) (newKind : Kind) (fill : α)
    (fillKind : Kind) (raiseErr : Bool) (method : Option Side)
    (hne : ¬ (ax.labels.isEmpty && !newL.isEmpty) = true)
    (hr : raiseErr = true →
      (mismatchMask ax.labels (locateMany ax.labels newL (method.getD .left)) newL).any id = false) :
    reindexAxis v (.name name) newL newKind fill fillKind raiseErr method =
      .ok (rxResultM v name ax newL newKind fill fillKind method) := by
  unfold reindexAxis
  rw [axisPos_name v name hmem]
  simp only [bind, Except.bind, pure, Except.pure]
  rw [hax, if_neg hne]
  unfold rxResultM rxNewAx rxLabS
  by_cases hany : (mismatchMask ax.labels (locateMany ax.labels newL (method.getD .left)) newL).any id = true
  · have hre : raiseErr = false := by
      cases raiseErr
      · rfl
      · rw [hr rfl] at hany; cases hany
    subst hre
    rw [if_pos hany, if_pos hany]
    cases method <;> simp [takeAxisPos]
  · rw [if_neg hany, if_neg hany]

/-- what `Dataset.reindex_axis` does to one variable of the clipped take -/
def rxPatchM (name : String) (ax : Axis) (newL : List Label) (newKind : Kind) (fill : α) (fillKind : Kind)
    (method : Option Side) (kv : String × DimArray α) : String × DimArray α :=
  if kv.2.dims.idxOf name < kv.2.dims.length then
    (kv.1, { axes := kv.2.axes.map fun a => if a.name == name then rxNewAx name ax newL newKind (method.getD .left) else a
             vals := if method.isNone then
                 kv.2.vals.putWhere
                   (fun j => (mismatchMask ax.labels (locateMany ax.labels newL (method.getD .left)) newL).getD
                      (j.getD (kv.2.dims.idxOf name) 0) false) (fun _ => fill)
               else kv.2.vals
             vkind := if method.isNone then maybeCastKind kv.2.vkind fillKind else kv.2.vkind, attrs := kv.2.attrs })
  else kv

/-- the patched Dataset of `reindex_axis` -/
def rxOutM (taken : Ds α) (name : String) (ax : Axis) (newL : List Label) (newKind : Kind) (fill : α)
    (fillKind : Kind) (method : Option Side) : Ds α :=
  { axes := replAxis name (rxNewAx name ax newL newKind (method.getD .left)) taken.axes
    vars := taken.vars.map (rxPatchM name ax newL newKind fill fillKind method)
    attrs := taken.attrs }

theorem reindexAxisDsM_closed (ds out : Ds α) (name : String) (newL : List Label) (newKind fillKind : Kind) (fill : α)
    (raiseErr : Bool) (method : Option Side)
    (h : reindexAxisDsM ds name newL newKind fill fillKind raiseErr method = .ok out) :
    ∃ ax taken, ds.axes.find? (fun a => a.name == name) = some ax ∧
      ¬ (ax.labels.isEmpty && !newL.isEmpty) = true ∧
      takeAxisPosDs ds name (locateMany ax.labels newL (method.getD .left)) = .ok taken ∧
      (raiseErr = true →
        (mismatchMask ax.labels (locateMany ax.labels newL (method.getD .left)) newL).any id = false) ∧
      out = (if (mismatchMask ax.labels (locateMany ax.labels newL (method.getD .left)) newL).any id then
        rxOutM taken name ax newL newKind fill fillKind method else taken) := by
  unfold reindexAxisDsM at h
  split at h
  · cases h
  · rename_i ax hfind
    simp only [bind, Except.bind, pure, Except.pure] at h
    split at h
    · cases h
    · rename_i hne
      cases htk : takeAxisPosDs ds name (locateMany ax.labels newL (method.getD .left)) with
      | error e => rw [htk] at h; cases h
      | ok taken =>
        rw [htk] at h
        refine ⟨ax, taken, hfind, hne, htk, ?_⟩
        simp only at h
        split at h
        · rename_i hm
          have hm' : (mismatchMask ax.labels (locateMany ax.labels newL (method.getD .left)) newL).any id = false := by
            simpa using hm
          rw [hm']
          cases h
          exact ⟨fun _ => rfl, rfl⟩
        · rename_i hm
          have hm' : (mismatchMask ax.labels (locateMany ax.labels newL (method.getD .left)) newL).any id = true := by
            simpa using hm
          rw [hm']
          split at h
          · cases h
          · rename_i hre
            cases h
            refine ⟨fun hr => absurd hr hre, ?_⟩
            rfl

theorem rxPatchM_of_not_mem (name : String) (ax : Axis) (newL : List Label) (newKind : Kind) (fill : α)
    (fillKind : Kind) (method : Option Side) (kv : String × DimArray α) (h : name ∉ kv.2.dims) :
    rxPatchM name ax newL newKind fill fillKind method kv = kv := by
  unfold rxPatchM
  rw [if_neg]
  intro hlt
  exact h (List.idxOf_lt_length_iff.1 hlt)

theorem rxPatchM_fst (name : String) (ax : Axis) (newL : List Label) (newKind : Kind) (fill : α)
    (fillKind : Kind) (method : Option Side) (kv : String × DimArray α) :
    (rxPatchM name ax newL newKind fill fillKind method kv).1 = kv.1 := by
  unfold rxPatchM
  split <;> rfl

theorem rxPatchM_axes (name : String) (ax : Axis) (newL : List Label) (newKind : Kind) (fill : α) (fillKind : Kind)
    (method : Option Side) (kv : String × DimArray α) :
    (rxPatchM name ax newL newKind fill fillKind method kv).2.axes =
      replAxis name (rxNewAx name ax newL newKind (method.getD .left)) kv.2.axes := by
  unfold rxPatchM
  split
  · rfl
  · rename_i hlt
    have hn : name ∉ kv.2.axes.map (·.name) := fun h => hlt (List.idxOf_lt_length_iff.2 h)
    exact (replAxis_of_not_mem name _ kv.2.axes hn).symm

theorem rxResultM_axes (v : DimArray α) (name : String) (ax : Axis) (newL : List Label) (newKind : Kind) (fill : α)
    (fillKind : Kind) (method : Option Side) (hnd : v.dims.Nodup)
    (hany : (mismatchMask ax.labels (locateMany ax.labels newL (method.getD .left)) newL).any id = true) :
    (rxResultM v name ax newL newKind fill fillKind method).axes =
      replAxis name (rxNewAx ax.name ax newL newKind (method.getD .left)) v.axes := by
  unfold rxResultM
  rw [if_pos hany]
  apply mapIdx_eq_map
  intro k hk
  rw [name_beq_idx v.axes hnd name k hk]
  rfl

/-- one variable of `Dataset.reindex_axis` (some label did not match) IS `DimArray.reindex_axis` of that variable
when `ax` (the Dataset's axis) carries the operated name -/
theorem rxPatchM_reduceVar_eq (v : DimArray α) (k name : String) (ax : Axis) (hmem : name ∈ v.dims) (hnd : v.dims.Nodup)
    (hn : ax.name = name) (newL : List Label) (newKind : Kind) (fill : α) (fillKind : Kind) (method : Option Side)
    (ps : List Nat) (hps : ps = locateMany ax.labels newL (method.getD .left))
    (hany : (mismatchMask ax.labels (locateMany ax.labels newL (method.getD .left)) newL).any id = true) :
    rxPatchM name ax newL newKind fill fillKind method (k, reduceVar name (takeNewAxis name ax ps) (takeVals ps) v) =
      (k, rxResultM v name ax newL newKind fill fillKind method) := by
  have hlt : v.dims.idxOf name < v.dims.length := List.idxOf_lt_length_iff.2 hmem
  have hd : (reduceVar name (takeNewAxis name ax ps) (takeVals ps) v).dims = v.dims := reduceVar_dims name _ rfl _ v
  unfold rxPatchM
  simp only [hd]
  rw [if_pos hlt]
  congr 1
  apply DimArray.ext'
  · rw [rxResultM_axes v name ax newL newKind fill fillKind method hnd hany, hn]
    simp only [reduceVar, if_pos hlt, replAxis, List.map_map]
    apply List.map_congr_left
    intro a _
    simp only [Function.comp]
    by_cases hb : (a.name == name) = true
    · simp [hb, takeNewAxis]
    · simp [hb]
  · simp only [rxResultM, if_pos hany, reduceVar, if_pos hlt, takeVals, hps]
  · simp only [rxResultM, if_pos hany, reduceVar, if_pos hlt]
  · simp only [rxResultM, if_pos hany, reduceVar, if_pos hlt]

theorem rxM_shared (taken : Ds α) (name : String) (ax : Axis) (newL : List Label) (newKind : Kind) (fill : α)
    (fillKind : Kind) (method : Option Side) (hs : SharedAxes taken) (hown : OwnAxes taken) :
    SharedAxes (rxOutM taken name ax newL newKind fill fillKind method) ∧
      OwnAxes (rxOutM taken name ax newL newKind fill fillKind method) := by
  have hown' : OwnAxes (rxOutM taken name ax newL newKind fill fillKind method) := by
    intro kv hkv a ha
    simp only [rxOutM, List.mem_map] at hkv
    obtain ⟨kv0, hkv0, rfl⟩ := hkv
    rw [rxPatchM_axes] at ha
    simp only [rxOutM, replAxis, List.mem_map] at ha ⊢
    obtain ⟨a0, ha0, rfl⟩ := ha
    exact ⟨a0, hown kv0 hkv0 a0 ha0, rfl⟩
  refine ⟨⟨?_, ?_, ?_⟩, hown'⟩
  · intro kv hkv a ha
    exact ⟨a, hown' kv hkv a ha, rfl, rfl⟩
  · intro e he
    simp only [rxOutM, replAxis, List.mem_map] at he
    obtain ⟨a, ha, rfl⟩ := he
    obtain ⟨kv, hkv, hmem⟩ := hs.2.1 a ha
    refine ⟨rxPatchM name ax newL newKind fill fillKind method kv, List.mem_map_of_mem hkv, ?_⟩
    show _ ∈ (rxPatchM name ax newL newKind fill fillKind method kv).2.axes.map (·.name)
    rw [rxPatchM_axes, replAxis_names name _ rfl]
    split
    · rename_i h
      rw [(by simpa using h : a.name = name)] at hmem
      exact hmem
    · exact hmem
  · show ((replAxis name (rxNewAx name ax newL newKind (method.getD .left)) taken.axes).map (·.name)).Nodup
    rw [replAxis_names name _ rfl]
    exact hs.2.2

/-! ### reductions with axis=None -/

theorem reduceAllVarDs_eq (red : List α → α) (v : DimArray α) :
    reduceAllVarDs red v = .ok (scalarVar (red v.vals.toList) v.vkind) := rfl

theorem reduceAxis_none_eq (red : List α → α) (v : DimArray α) :
    reduceAxis red v .none = .ok (.inl (red v.vals.toList)) := rfl

/-- the variables handed to `Dataset(dict)` -/
def reducedAllVars (red : List α → α) (ds : Ds α) : List (String × DimArray α) :=
  ds.vars.map fun kv => (kv.1, scalarVar (red kv.2.vals.toList) kv.2.vkind)

theorem mapM_reduceAll (red : List α → α) : ∀ (l : List (String × DimArray α)),
    l.mapM (fun kv => do let r ← reduceAllVarDs red kv.2; pure (kv.1, r)) =
      (.ok (l.map fun kv => (kv.1, scalarVar (red kv.2.vals.toList) kv.2.vkind)) :
        Except Err (List (String × DimArray α)))
  | [] => rfl
  | x :: l => by
    rw [List.mapM_cons, mapM_reduceAll red l]
    rfl

theorem reduceAllDs_eq (nan : α) (red : List α → α) (ds : Ds α) :
    reduceAllDs nan red ds = fromVars nan (reducedAllVars red ds) := by
  unfold reduceAllDs
  rw [mapM_reduceAll red ds.vars]
  rfl

/-! ### concatenate_ds with align=True -/

/-- a successful `concatenate(..., _no_check=True)` returns the dimensions of its first input -/
theorem concatenateNoCheck_dims (a0 : DimArray α) (rest : List (DimArray α)) (name : String) (r : DimArray α)
    (h : concatenateNoCheck (a0 :: rest) name = .ok r) : r.dims = a0.dims := by
  unfold concatenateNoCheck at h
  by_cases hp : a0.dims.idxOf name < a0.dims.length
  · have hlt : a0.dims.idxOf name < a0.axes.length := by simpa [DimArray.dims] using hp
    simp only [hp, if_true, bind, Except.bind, pure, Except.pure] at h
    cases harrs : reorderLikeFirst (a0 :: rest) with
    | error e => simp [harrs] at h
    | ok arrs =>
      simp only [harrs] at h
      obtain ⟨t, rfl⟩ := C12.reorderLikeFirst_head a0 rest arrs harrs
      simp only [List.headD_cons] at h
      replace h := C12.ok_of_ite_error h
      generalize concatVals _ _ = cv at h
      cases cv with
      | none => simp at h
      | some v =>
        simp only at h
        injection h with h
        subst h
        simp only [DimArray.dims, List.map_map] at hlt ⊢
        have hid : ((fun x : Axis => x.name) ∘ fun ax : Axis => { ax with attrs := ax.attrs }) = fun x => x.name := rfl
        rw [hid, take_eraseIdx_insert _ a0.axes _ hlt]
        exact set_names_self a0.axes _ _ rfl
  · simp [hp, bind, Except.bind, pure, Except.pure] at h

end DSV
end DimModel
